import ZvbiModel.Demux.LemmasForget
/-!
# Coroutine interface: re-extracting a packet from its start  (helper lemmas for C07 `cor_equals_feed`)
-/
namespace Zvbi.Demux

variable {cfg : SrcCfg}

/-- any two sufficient fuels give the same result -/
theorem extractLoop_fuel : ∀ (k1 k2 : Nat) (f : Frame) (d : Bytes), d.length < k1 → d.length < k2 →
    extractLoop cfg k1 f d = extractLoop cfg k2 f d := by
  intro k1
  induction k1 with
  | zero => intro k2 f d h; omega
  | succ k1 ih =>
    intro k2 f d h1 h2
    cases k2 with
    | zero => omega
    | succ k2 =>
      unfold extractLoop
      by_cases hd : d.length ≤ 2
      · rw [if_pos hd, if_pos hd]
      · rw [if_neg hd, if_neg hd]
        rcases d with _ | ⟨id, _ | ⟨len, t⟩⟩
        · rfl
        · rfl
        · simp only []
          by_cases hl : len + 2 > (id :: len :: t).length
          · rw [if_pos hl, if_pos hl]
          · rw [if_neg hl, if_neg hl]
            have hdrop : ((id :: len :: t).drop (len + 2)).length < k1 ∧
                ((id :: len :: t).drop (len + 2)).length < k2 := by
              simp only [List.length_drop]; omega
            cases dataUnit cfg f (id :: len :: t) id len with
            | skip => exact ih _ _ _ hdrop.1 hdrop.2
            | store f' => exact ih _ _ _ hdrop.1 hdrop.2
            | fail f' r => rfl

/-- a freshly reset frame that has already seen (skipped) units of this packet -/
def frX (x : Nat) : Frame := { lastDuId := x }

/-- `line_address` on a reset frame whose `last_data_unit_id` is stale: -1 for an undefined line of
the second field (independent of the system), otherwise what the reset frame does -/
theorem lineAddress_frX (x lofp : Nat) :
    (∀ sys, lineAddress cfg (frX x) lofp sys = .newFrame) ∨
    (∀ sys, ∃ f' line, lineAddress cfg {} lofp sys = .ok f' line ∧
        lineAddress cfg (frX x) lofp sys = .ok { f' with lastDuId := x } line) := by
  unfold lineAddress lofpToLine frX
  simp only [List.length_nil, N_SLICED]
  by_cases h31 : lofp &&& 31 > 0
  · right; intro sys
    simp only [if_pos h31]
    by_cases h32 : lofp &&& 32 = 0
    · simp [h32]; cases sys <;> simp <;> omega
    · have h0 : ¬ (lofp &&& 31 = 0) := by omega
      simp [h32, h0]
  · by_cases h32 : lofp &&& 32 = 0
    · by_cases hx : x = 0
      · right; intro sys; simp [h31, h32, hx]
      · left; intro sys; simp [h31, h32, hx]
    · right; intro sys; simp [h31, h32]

def mapDU (x : Nat) : DU → DU
  | .skip => .skip
  | .fail f r => .fail { f with lastDuId := x } r
  | .store f => .store { f with lastDuId := x }


set_option hygiene false in
local macro "du_leaf" : tactic => `(tactic| (
  repeat' split
  all_goals first
    | exact Or.inl rfl
    | exact Or.inr rfl
    | (exfalso; simp_all; done)))

set_option hygiene false in
local macro "du_cases" : tactic => `(tactic| (
  by_cases h1 : id = DU_TTX_NON_SUBTITLE ∨ id = DU_TTX_SUBTITLE
  · simp only [if_pos h1]; du_leaf
  · simp only [if_neg h1]
    by_cases h2 : id = DU_VPS
    · simp only [if_pos h2]; du_leaf
    · simp only [if_neg h2]
      by_cases h3 : id = DU_WSS
      · simp only [if_pos h3]; du_leaf
      · simp only [if_neg h3]
        by_cases h4 : id = DU_ZVBI_WSS_CPR1204
        · simp only [if_pos h4]; du_leaf
        · simp only [if_neg h4]
          by_cases h5 : id = DU_ZVBI_CC_525
          · simp only [if_pos h5]; du_leaf
          · simp only [if_neg h5]
            by_cases h6 : id = DU_CC
            · simp only [if_pos h6]; du_leaf
            · simp only [if_neg h6]; exact Or.inr rfl))

/-- one data unit on a reset frame with a stale `last_data_unit_id`: -1 without touching the frame,
or what the reset frame does -/
theorem dataUnit_frX (x : Nat) (d : Bytes) (id len : Nat) :
    dataUnit cfg (frX x) d id len = .fail (frX x) .newFrame ∨
    dataUnit cfg (frX x) d id len = mapDU x (dataUnit cfg {} d id len) := by
  cases hd2 : d[2]? with
  | none =>
    right
    unfold dataUnit
    simp only [hd2]
    repeat' split
    all_goals first
      | rfl
      | (exfalso; simp_all; done)
  | some lofp =>
    rcases lineAddress_frX (cfg := cfg) x lofp with hn | hok
    · obtain ⟨ft, lt, hlt, _⟩ := lineAddress_fresh (cfg := cfg) {} ⟨rfl, rfl, rfl, rfl⟩ lofp true
      obtain ⟨ff, lf, hlf, _⟩ := lineAddress_fresh (cfg := cfg) {} ⟨rfl, rfl, rfl, rfl⟩ lofp false
      have hnt := hn true
      have hnf := hn false
      unfold dataUnit
      simp only [hd2, hlt, hlf, hnt, hnf]
      du_cases
    · obtain ⟨ft, lt, hlt, hxt⟩ := hok true
      obtain ⟨ff, lf, hlf, hxf⟩ := hok false
      unfold dataUnit
      simp only [hd2, hlt, hlf, hxt, hxf]
      du_cases

/-- the units `extract_data_units` steps over without looking at the frame -/
def SkipUnit (d : Bytes) (id len : Nat) : Prop :=
  if id = DU_TTX_NON_SUBTITLE ∨ id = DU_TTX_SUBTITLE then
    ¬ len < 1 + 1 + 42 ∧ ∃ fc, d[3]? = some fc ∧ fc ≠ 0xE4
  else ¬ (id = DU_VPS ∨ id = DU_WSS ∨ id = DU_ZVBI_WSS_CPR1204 ∨ id = DU_ZVBI_CC_525 ∨ id = DU_CC)

theorem dataUnit_skip_iff (f : Frame) (d : Bytes) (id len : Nat) :
    dataUnit cfg f d id len = .skip ↔ SkipUnit d id len := by
  unfold dataUnit SkipUnit
  simp only []
  constructor
  · intro h
    repeat' split at h
    all_goals first
      | (cases h; done)
      | (simp_all; done)
  · intro h
    by_cases h1 : id = DU_TTX_NON_SUBTITLE ∨ id = DU_TTX_SUBTITLE
    · rw [if_pos h1] at h ⊢
      obtain ⟨hl, fc, hfc, hne⟩ := h
      rw [if_neg hl]
      simp only [hfc]
      rw [if_pos hne]
    · rw [if_neg h1] at h ⊢
      simp only [not_or] at h
      obtain ⟨h2, h3, h4, h5, h6⟩ := h
      rw [if_neg h2, if_neg h3, if_neg h4, if_neg h5, if_neg h6]

theorem dataUnit_skip_indep (f g : Frame) (d : Bytes) (id len : Nat) (h : dataUnit cfg f d id len = .skip) :
    dataUnit cfg g d id len = .skip :=
  (dataUnit_skip_iff g d id len).2 ((dataUnit_skip_iff f d id len).1 h)

theorem lineAddress_ok_props (f : Frame) (lofp : Nat) (sys : Bool) (f' : Frame) (line : Nat)
    (h : lineAddress cfg f lofp sys = .ok f' line) :
    f'.nDu ≥ 1 ∧ f'.lines = f.lines ∧ f.lines.length < 64 := by
  unfold lineAddress at h
  by_cases h0 : cfg.lateOverflow = false ∧ f.lines.length ≥ N_SLICED
  · rw [if_pos h0] at h; cases h
  rw [if_neg h0] at h
  by_cases h64 : f.lines.length ≥ N_SLICED
  · simp only [h64, if_true] at h
    repeat' split at h
    all_goals cases h
  · simp only [h64, if_false] at h
    simp only [N_SLICED] at h64
    repeat' split at h
    all_goals first
      | (cases h; done)
      | (cases h; exact ⟨Nat.le_add_left 1 _, rfl, by omega⟩)

theorem dataUnit_store_props (f : Frame) (d : Bytes) (id len : Nat) (f' : Frame)
    (h : dataUnit cfg f d id len = .store f') : f'.nDu ≥ 1 ∧ f'.lines.length ≤ 64 := by
  have hla := fun lofp sys f' line => lineAddress_ok_props (cfg := cfg) f lofp sys f' line
  unfold dataUnit at h
  simp only [] at h
  repeat' split at h
  all_goals first
    | (cases h; done)
    | (cases h
       rename_i heq
       have := hla _ _ _ _ (by assumption)
       simp only [pushLine, List.length_append, List.length_singleton, this.2.1]
       omega)

theorem dataUnit_fail_lines (f : Frame) (d : Bytes) (id len : Nat) (f' : Frame) (r : XR)
    (h : dataUnit cfg f d id len = .fail f' r) : f'.lines = f.lines := by
  have hla := fun lofp sys f' line => lineAddress_ok_props (cfg := cfg) f lofp sys f' line
  unfold dataUnit at h
  simp only [] at h
  repeat' split at h
  all_goals first
    | (cases h; done)
    | (cases h; rfl)
    | (cases h; exact (hla _ _ _ _ (by assumption)).2.1)

end Zvbi.Demux
