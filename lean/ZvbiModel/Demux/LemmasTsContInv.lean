import ZvbiModel.Demux.Ts
/-!
# TS path: the expected continuity_counter is never 0  (helper lemmas for C07, round 6)

`dx->ts_continuity` is an `int`: -1 = unknown, otherwise `b3 + 1` with `b3` a `uint8_t` (1 .. 256).  The value 0 is
never stored.  Two things hang on that:
* the test `if (dx->ts_continuity >= 0)` cannot be told from `> 0` (a surviving mutant of the systematic run), and
* the model's `c - 1` (truncated subtraction over `Nat`) is the C code's `prev_cont = dx->ts_continuity - 1`
  (`unsigned int`, would wrap to 0xFFFFFFFF at 0).

`ContOk` is proved to be kept by every block of the loop body for EVERY context and input (no other invariant, no
"no fault" hypothesis is needed: `cont` is written in exactly three places).  The test with `> 0` is
`tsContCheckStrict` in `Demux/LemmasTsContStrict.lean`.
-/
namespace Zvbi.Demux

variable (cfg : SrcCfg)

/-- the expected continuity_counter, when known, is at least 1 -/
def ContOk (s : TsSt) : Prop := ∀ c, s.cont = some c → 1 ≤ c

theorem ContOk.of_eq {s t : TsSt} (e : t.cont = s.cont) (h : ContOk s) : ContOk t :=
  fun c hc => h c (e ▸ hc)

theorem ContOk.of_none {t : TsSt} (e : t.cont = none) : ContOk t := by
  intro c hc; rw [e] at hc; cases hc

theorem ContOk.of_succ {t : TsSt} {k : Nat} (e : t.cont = some (k + 1)) : ContOk t := by
  intro c hc; rw [e] at hc; cases hc; omega

theorem ContOk_init (pid : Nat) : ContOk (TsSt.init pid) := ContOk.of_none rfl

def Ph.st : Ph → TsSt
  | .stop s _ => s
  | .go s _ => s

theorem tsAdvance_cont (s : TsSt) (q : Bytes) (b : Bool) : (tsAdvance s q b).cont = s.cont := by
  unfold tsAdvance
  dsimp only
  split <;> rfl

theorem tsSkipPacket_cont (s : TsSt) (q : Bytes) : (tsSkipPacket s q).cont = s.cont := tsAdvance_cont s q true

theorem tsSkipPesPacket_cont (s : TsSt) (q : Bytes) : (tsSkipPesPacket s q).cont = s.cont :=
  tsAdvance_cont _ q true

theorem tsStart_cont (s s1 : TsSt) (q : Bytes) (h : tsStart s q = some s1) : s1.cont = s.cont := by
  unfold tsStart at h
  dsimp only at h
  split at h
  · split at h
    · cases h
    · split at h
      · cases h
      · cases h; rfl
  · split at h
    · cases h
    · cases h; rfl

theorem tsComplete_cont (s : TsSt) : (tsComplete s).1.cont = s.cont := by
  unfold tsComplete
  split
  · rfl
  · split <;> rfl

theorem tsCopyDone_cont (s : TsSt) : (tsCopyDone cfg s).1.cont = s.cont := by
  unfold tsCopyDone
  split
  · exact tsComplete_cont s
  · rfl

theorem tsCopyFin_cont (s0 s1 : TsSt) (q : Bytes) (e : s1.cont = s0.cont) : (tsCopyFin cfg s0 s1 q).1.cont = s0.cont := by
  unfold tsCopyFin
  have h := tsCopyDone_cont cfg s1
  generalize tsCopyDone cfg s1 = r at h ⊢
  obtain ⟨s2, o⟩ := r
  cases o with
  | none => exact (tsAdvance_cont s2 q false).trans (h.trans e)
  | some e' => rfl

theorem tsCopy_cont (s : TsSt) (q : Bytes) : (tsCopy cfg s q).1.cont = s.cont := by
  unfold tsCopy
  dsimp only
  split
  · split
    · rfl
    · exact tsCopyFin_cont cfg s _ q rfl
  · split
    · rfl
    · exact tsCopyFin_cont cfg s _ q rfl

/-- the header evaluation keeps the expected counter (packet skipped before the counter is looked at, or repeated
packet) or stores `b3 + 1` -/
theorem tsHeader_contOk (s : TsSt) (q : Bytes) (h : ContOk s) : ContOk (tsHeader cfg s q).1 := by
  unfold tsHeader
  cases tsHeaderCheck s q with
  | some b =>
    cases b
    · exact ContOk.of_eq (tsSkipPacket_cont s q) h
    · exact ContOk.of_eq (tsSkipPesPacket_cont s q) h
  | none =>
    dsimp only
    cases tsContCheck s.cont (q.getD 3 0) with
    | repeated => exact ContOk.of_eq (tsSkipPacket_cont s q) h
    | lost => exact ContOk.of_succ (k := q.getD 3 0) ((tsSkipPesPacket_cont _ q).trans rfl)
    | ok =>
      dsimp only
      cases hst : tsStart { s with cont := some (q.getD 3 0 + 1) } q with
      | none => exact ContOk.of_succ (k := q.getD 3 0) ((tsSkipPesPacket_cont _ q).trans rfl)
      | some s1 =>
        dsimp only
        exact ContOk.of_succ (k := q.getD 3 0) ((tsCopy_cont cfg s1 q).trans ((tsStart_cont _ s1 q hst).trans rfl))

theorem tsHeader_contOk' (s r : TsSt) (q : Bytes) (o : Option Err) (e : tsHeader cfg s q = (r, o)) (h : ContOk s) :
    ContOk r := by
  have := tsHeader_contOk cfg s q h
  rw [e] at this
  exact this

/-- block E: the counter is kept, forgotten (`-1` with the loss of sync) or set by the header evaluation -/
theorem tsPhaseE_contOk (s : TsSt) (h : ContOk s) : ContOk (tsPhaseE cfg s).1 := by
  unfold tsPhaseE
  dsimp only
  repeat' split
  all_goals first
    | exact h
    | exact ContOk.of_none rfl
    | exact ContOk.of_eq rfl h
    | (rename_i e; exact tsHeader_contOk' cfg _ _ _ _ e h)

theorem tsPesDone_cont (s1 : TsSt) (n : Nat) : (tsPesDone s1 n).st.cont = s1.cont := by
  unfold tsPesDone
  repeat' split
  all_goals rfl

theorem tsPhaseA_cont (s : TsSt) (rest : Bytes) : (tsPhaseA s rest).st.cont = s.cont := by
  unfold tsPhaseA
  repeat' split
  all_goals first
    | rfl
    | exact tsPesDone_cont _ _

theorem tsPhaseB_cont (hasCb se : Bool) (s : TsSt) : (tsPhaseB cfg hasCb se s).1.cont = s.cont := by
  unfold tsPhaseB
  repeat' split
  all_goals rfl

theorem tsPhaseC_cont (s : TsSt) (rest : Bytes) : (tsPhaseC s rest).st.cont = s.cont := by
  unfold tsPhaseC
  split <;> rfl

theorem tsPhaseD_cont (s : TsSt) (rest : Bytes) : (tsPhaseD s rest).st.cont = s.cont := by
  unfold tsPhaseD
  repeat' split
  all_goals rfl

/-- one pass through the loop body -/
theorem tsStep_contOk (hasCb se : Bool) (s : TsSt) (rest : Bytes) (h : ContOk s) :
    ContOk (tsStep cfg hasCb se s rest).1 := by
  unfold tsStep
  have hA := tsPhaseA_cont s rest
  generalize tsPhaseA s rest = pa at hA ⊢
  cases pa with
  | stop s' k => exact ContOk.of_eq hA h
  | go s1 n1 =>
    dsimp only
    have hB := tsPhaseB_cont cfg hasCb se s1
    generalize tsPhaseB cfg hasCb se s1 = pb at hB ⊢
    obtain ⟨s2, outs, k⟩ := pb
    cases k with
    | some k => exact ContOk.of_eq (hB.trans hA) h
    | none =>
      dsimp only
      have hC := tsPhaseC_cont s2 (rest.drop n1)
      generalize tsPhaseC s2 (rest.drop n1) = pc at hC ⊢
      cases pc with
      | stop s3 k => exact ContOk.of_eq (hC.trans (hB.trans hA)) h
      | go s3 n3 =>
        dsimp only
        have hD := tsPhaseD_cont s3 (rest.drop (n1 + n3))
        generalize tsPhaseD s3 (rest.drop (n1 + n3)) = pd at hD ⊢
        cases pd with
        | stop s4 k => exact ContOk.of_eq (hD.trans (hC.trans (hB.trans hA))) h
        | go s4 n4 =>
          dsimp only
          have hE := tsPhaseE_contOk cfg s4 (ContOk.of_eq (hD.trans (hC.trans (hB.trans hA))) h)
          generalize tsPhaseE cfg s4 = pe at hE ⊢
          obtain ⟨s5, k⟩ := pe
          exact hE

theorem tsRun_contOk (hasCb se : Bool) : ∀ (fuel : Nat) (s : TsSt) (rest : Bytes), ContOk s →
    ContOk (tsRun cfg fuel hasCb se s rest).1 := by
  intro fuel
  induction fuel with
  | zero => intro s rest h; unfold tsRun; exact h
  | succ f ih =>
    intro s rest h
    unfold tsRun
    have hS := tsStep_contOk cfg hasCb se s rest h
    generalize tsStep cfg hasCb se s rest = st at hS ⊢
    obtain ⟨s', outs, n, k⟩ := st
    cases k with
    | stop r => exact hS
    | cont =>
      dsimp only
      have h2 := ih s' (rest.drop n) hS
      generalize tsRun cfg f hasCb se s' (rest.drop n) = r at h2 ⊢
      obtain ⟨s2, o2, n2, r2⟩ := r
      exact h2

/-- one `vbi_dvb_demux_feed` call keeps `ContOk`, from every context, for every input -/
theorem tsFeed_contOk (s : TsSt) (buf : Bytes) (h : ContOk s) : ContOk (tsFeed cfg s buf).st := by
  unfold tsFeed
  split
  · exact h
  · unfold tsLoop
    have h2 := tsRun_contOk cfg true false (tsFuel buf 0) s (buf.drop 0) h
    generalize tsRun cfg (tsFuel buf 0) true false s (buf.drop 0) = r at h2 ⊢
    obtain ⟨s', outs, n, k⟩ := r
    cases k <;> exact h2

end Zvbi.Demux
