import ZvbiModel.Demux.TsJoinStream
import ZvbiModel.Demux.LemmasTsCont
import ZvbiModel.Demux.JoinStream
/-!
# TS path joined with the multiplexer, PES packet level

The TS packets the multiplexer makes of one PES packet (`Mux.tsLoop`: header with PID, payload_unit_start
on the first, consecutive continuity counters; 184 payload bytes each), with foreign packets interleaved
anywhere, seen by the demultiplexer at TS packet granularity (`PktEff` / `Effs`): the PES packet is
reassembled in `pes_buffer` byte for byte; when its last TS packet has been read, the PES header check
and the data unit extraction run on exactly the bytes the PES path sees (`pes_shape`).
-/
namespace Zvbi.Demux
open Zvbi.Mux.EnParse
variable {cfg : SrcCfg}

/-! ## the shape of an accepted PES packet, as `demux_ts_packet` looks at it -/

theorem validHeader_hdr46 (fs : FS) (lenHi lenLo b6 t0 t1 t2 t3 t4 did : Nat) (h6 : b6 &&& 0xF4 = 0x84)
    (hdid : validDataId did = true) :
    validHeader fs (hdr46 lenHi lenLo b6 t0 t1 t2 t3 t4 did)
      = some { fs with packetPts := decodeTimestamp [t0, t1, t2, t3, t4] } := by
  have hv : validDataId did = true := hdid
  unfold validDataId at hv
  simp only [Bool.or_eq_true, Bool.and_eq_true, decide_eq_true_eq] at hv
  unfold validHeader hdr46
  simp only [List.getD_cons_zero, List.getD_cons_succ, h6]
  simp only [ne_eq, not_true_eq_false, if_false]
  rw [if_neg (fun h => h hv), if_pos (Or.inl (by decide))]
  rfl

theorem pes_shape (pk : Bytes) (p : Pes) (hp : parsePes pk = some p) (hb : ∀ b ∈ pk, b < 256) :
    ∃ us, unitsLines us = some p.lines ∧ pk.drop 46 = encUnits us ∧ 184 ≤ pk.length ∧ pk.length % 184 = 0
      ∧ pk.getD 0 0 = 0 ∧ pk.getD 1 0 = 0 ∧ pk.getD 2 0 = 1 ∧ pk.getD 3 0 = 0xBD
      ∧ (pk.getD 4 0 % 256) * 256 + pk.getD 5 0 % 256 + 6 = pk.length
      ∧ ∀ fs : FS, validHeader fs (pk.take 46) = some { fs with packetPts := p.pts } := by
  obtain ⟨lenHi, lenLo, b6, T, did, us, hpk, hT, hlen, h184, h6, hdid, hpts, hul, _, _⟩ := parsePes_inv pk p hp
  rcases T with _ | ⟨t0, _ | ⟨t1, _ | ⟨t2, _ | ⟨t3, _ | ⟨t4, _ | ⟨t5, T⟩⟩⟩⟩⟩⟩ <;> simp at hT
  rw [hdr46_eq] at hpk
  have hh : (hdr46 lenHi lenLo b6 t0 t1 t2 t3 t4 did).length = 46 := rfl
  have hpl : pk.length = 46 + (encUnits us).length := by rw [hpk, List.length_append, hh]
  have hHi : lenHi < 256 := hb _ (by rw [hpk]; simp [hdr46])
  have hLo : lenLo < 256 := hb _ (by rw [hpk]; simp [hdr46])
  have hbT : ∀ b ∈ [t0, t1, t2, t3, t4], b < 256 := by
    intro b hbm; apply hb; rw [hpk]
    simp only [List.mem_cons, List.not_mem_nil, or_false] at hbm
    rcases hbm with rfl | rfl | rfl | rfl | rfl <;> simp [hdr46]
  have hv : decodeTimestamp [t0, t1, t2, t3, t4] = p.pts := by
    have := decodeTimestamp_parsePts [t0, t1, t2, t3, t4] [] p.pts hbT hpts
    simpa using this
  have g : ∀ i, i < 46 → pk.getD i 0 = (hdr46 lenHi lenLo b6 t0 t1 t2 t3 t4 did).getD i 0 := by
    intro i hi; rw [hpk]; exact getD_append_left _ _ i (by rw [hh]; exact hi)
  refine ⟨us, hul, ?_, by omega, h184, ?_, ?_, ?_, ?_, ?_, ?_⟩
  · rw [hpk, List.drop_append_of_le_length (by rw [hh]; exact Nat.le_refl _), List.drop_of_length_le (by rw [hh]; exact Nat.le_refl _)]
    rfl
  · rw [g 0 (by omega)]; rfl
  · rw [g 1 (by omega)]; rfl
  · rw [g 2 (by omega)]; rfl
  · rw [g 3 (by omega)]; rfl
  · rw [g 4 (by omega), g 5 (by omega)]
    show lenHi % 256 * 256 + lenLo % 256 + 6 = pk.length
    rw [Nat.mod_eq_of_lt hHi, Nat.mod_eq_of_lt hLo]; exact hlen
  · intro fs
    have : pk.take 46 = hdr46 lenHi lenLo b6 t0 t1 t2 t3 t4 did := by
      rw [hpk, List.take_append_of_le_length (by rw [hh]; exact Nat.le_refl _), List.take_of_length_le (by rw [hh]; exact Nat.le_refl _)]
    rw [this, validHeader_hdr46 fs _ _ _ _ _ _ _ _ _ h6 hdid, hv]

/-! ## the multiplexer's TS packets, as the demultiplexer's header tests see them -/

theorem and80 : ∀ x < 128, x &&& 0x80 = 0 := by decide
theorem and40 : ∀ x < 32, x &&& 0x40 = 0 := by decide
theorem b3bits : ∀ x < 16, (16 + x) &&& 0xC0 = 0 ∧ (16 + x) &&& 0x30 = 0x10 := by decide

/-- one TS packet of the multiplexer -/
def muxPkt (pid cc : Nat) (first : Bool) (chunk : Bytes) : Bytes := Zvbi.Mux.tsHeader pid cc first ++ chunk

theorem muxPkt_tsPkt (pid cc : Nat) (first : Bool) (chunk : Bytes) (h : chunk.length = 184) :
    TsPkt (muxPkt pid cc first chunk) := by
  constructor
  · simp [muxPkt, Zvbi.Mux.tsHeader, h]
  · rfl

theorem muxPkt_b3 (pid cc : Nat) (first : Bool) (chunk : Bytes) :
    (muxPkt pid cc first chunk).getD 3 0 = 16 + cc % 16 := by
  simp [muxPkt, Zvbi.Mux.tsHeader, Zvbi.Mux.and15]

theorem muxPkt_payload (pid cc : Nat) (first : Bool) (chunk : Bytes) : (muxPkt pid cc first chunk).drop 4 = chunk := by
  simp [muxPkt, Zvbi.Mux.tsHeader]

theorem muxPkt_getD (pid cc : Nat) (first : Bool) (chunk : Bytes) (i : Nat) :
    (muxPkt pid cc first chunk).getD (i + 4) 0 = chunk.getD i 0 := by
  simp [muxPkt, Zvbi.Mux.tsHeader]

theorem muxPkt_check (pid cc : Nat) (first : Bool) (chunk : Bytes) (hpid : pid < 0x2000) :
    tsHeaderCheck { pid := pid } (muxPkt pid cc first chunk) = none := by
  have hx : pid / 256 < 32 := by omega
  obtain ⟨hb1, hb0⟩ := Zvbi.Mux.pid_bits (pid / 256) hx
  have g1 : (muxPkt pid cc first chunk).getD 1 0 = ((if first then 0x40 else 0) ||| (pid >>> 8)) % 256 := by
    simp [muxPkt, Zvbi.Mux.tsHeader]
  have g2 : (muxPkt pid cc first chunk).getD 2 0 = pid % 256 := by simp [muxPkt, Zvbi.Mux.tsHeader]
  have g3 := muxPkt_b3 pid cc first chunk
  have e1 : ((if first then 0x40 else 0) ||| (pid >>> 8)) % 256 = (if first then 64 else 0) + pid / 256 := by
    rw [Nat.shiftRight_eq_div_pow]
    cases first
    · simp only [Bool.false_eq_true, if_false]; rw [show (2:Nat) ^ 8 = 256 from rfl, hb0]; omega
    · simp only [if_true]; rw [show (2:Nat) ^ 8 = 256 from rfl, hb1]; omega
  unfold tsHeaderCheck
  simp only [g1, g2, g3, e1]
  have hlt : (if first = true then 64 else 0) + pid / 256 < 128 := by split <;> omega
  rw [and80 _ hlt]
  have hpidv : (((if first = true then 64 else 0) + pid / 256) * 256 + pid % 256) &&& 0x1FFF = pid := by
    rw [show (0x1FFF : Nat) = 2 ^ 13 - 1 from rfl, Nat.and_two_pow_sub_one_eq_mod]
    split <;> omega
  obtain ⟨hc0, h30⟩ := b3bits (cc % 16) (Nat.mod_lt _ (by decide))
  rw [hpidv, hc0, h30]
  simp

theorem muxPkt_nopusi (pid cc : Nat) (chunk : Bytes) (hpid : pid < 0x2000) :
    (muxPkt pid cc false chunk).getD 1 0 &&& 0x40 = 0 := by
  have hx : pid / 256 < 32 := by omega
  obtain ⟨_, hb0⟩ := Zvbi.Mux.pid_bits (pid / 256) hx
  have g1 : (muxPkt pid cc false chunk).getD 1 0 = (0 ||| (pid >>> 8)) % 256 := by
    simp [muxPkt, Zvbi.Mux.tsHeader]
  rw [g1, Nat.shiftRight_eq_div_pow, show (2:Nat) ^ 8 = 256 from rfl, hb0, Nat.mod_eq_of_lt (by omega)]
  exact and40 _ hx

/-- the demultiplexer's expectation matches the multiplexer's counter: unknown (-1), or equal modulo 16 -/
def ContOK (cont : Option Nat) (cc : Nat) : Prop := cont = none ∨ ∃ c, cont = some c ∧ c % 16 = cc % 16

theorem contOK_check (cont : Option Nat) (cc : Nat) (h : ContOK cont cc) : tsContCheck cont (16 + cc % 16) = .ok := by
  rcases h with rfl | ⟨c, rfl, hc⟩
  · rfl
  · rw [tsContCheck_ok_iff]; omega


/-! ## the TS packets of one PES packet -/

theorem tsLoop_succ (pid n : Nat) (first : Bool) (cc : Nat) (pes : Bytes) :
    Zvbi.Mux.tsLoop pid (n + 1) first cc pes
      = muxPkt pid cc first (pes.take 184) :: Zvbi.Mux.tsLoop pid n false ((cc + 1) % 2 ^ 32) (pes.drop 184) := rfl

/-- the second and later TS packets of a PES packet `pk`, `acc` = what is already in `pes_buffer` -/
theorem effs_loop (pid : Nat) (hpid : pid < 0x2000) (fs fs' fs2 : FS) (outs : List FrameOut) (pk : Bytes)
    (hv : validHeader fs (pk.take 46) = some fs')
    (hpf : pesPacketFrame cfg 3 true false { fs' with frame := { fs'.frame with nDu := 0 } } (pk.drop 46) = (fs2, outs, .done, []))
    (hcap : pk.length ≤ PES_BUF_SIZE) :
    ∀ (xs : List Bytes) (m : Nat) (acc rest : Bytes) (cc c : Nat), acc ++ rest = pk → rest.length = 184 * (m + 1) →
      c % 16 = cc % 16 → Merge pid (Zvbi.Mux.tsLoop pid (m + 1) false cc rest) xs →
      ∃ c', Effs cfg pid ⟨fs, acc, rest.length, some c⟩ xs ⟨fs2, pk, 0, some c'⟩ outs ∧ c' % 16 = (cc + (m + 1)) % 16 := by
  intro xs
  induction xs with
  | nil =>
    intro m acc rest cc c _ _ _ hm
    rw [tsLoop_succ] at hm
    cases hm
  | cons x xs ih =>
    intro m acc rest cc c hpk hrl hc hm
    rw [tsLoop_succ] at hm
    have htk : (rest.take 184).length = 184 := by rw [List.length_take]; omega
    cases hm with
    | other _ _ _ hf h' =>
      obtain ⟨c', he, hc'⟩ := ih m acc rest cc c hpk hrl hc (by rw [tsLoop_succ]; exact h')
      refine ⟨c', ?_, hc'⟩
      have := Effs.cons _ _ _ x xs [] outs (PktEff.skip ⟨fs, acc, rest.length, some c⟩ x hf.2) he
      simpa using this
    | own _ _ _ h' =>
      have hchk := muxPkt_check pid cc false (rest.take 184) hpid
      have hb3 := muxPkt_b3 pid cc false (rest.take 184)
      have hcont : tsContCheck (some c) ((muxPkt pid cc false (rest.take 184)).getD 3 0) = .ok := by
        rw [hb3]; exact contOK_check (some c) cc (Or.inr ⟨c, rfl, hc⟩)
      have hstart : startOf acc rest.length (muxPkt pid cc false (rest.take 184)) = some (acc, rest.length) := by
        unfold startOf
        rw [if_neg (by omega), muxPkt_nopusi pid cc _ hpid]
        simp
      have hpay := muxPkt_payload pid cc false (rest.take 184)
      have hacc : acc.length + rest.length = pk.length := by rw [← hpk, List.length_append]
      cases m with
      | zero =>
        have hr184 : rest.length = 184 := by omega
        have hrt : rest.take 184 = rest := List.take_of_length_le (by omega)
        have hps : Zvbi.Mux.tsLoop pid 0 false ((cc + 1) % 2 ^ 32) (rest.drop 184) = [] := rfl
        rw [hps] at h'
        rw [hrt] at hchk hb3 hcont hstart hpay ⊢
        have e1 := PktEff.last (cfg := cfg) (pid := pid) ⟨fs, acc, rest.length, some c⟩ (muxPkt pid cc false rest) acc fs' fs2 outs
          hchk hcont (by rw [hstart, hr184]) (by omega) (by rw [hpay, hpk]; exact hv) (by rw [hpay, hpk]; exact hpf)
        rw [hpay, hpk, hb3] at e1
        have := Effs.cons _ _ _ _ xs outs [] e1 (effs_foreign pid _ xs h')
        refine ⟨16 + cc % 16 + 1, by simpa using this, by omega⟩
      | succ m =>
        have e1 := PktEff.part (cfg := cfg) (pid := pid) ⟨fs, acc, rest.length, some c⟩ (muxPkt pid cc false (rest.take 184)) acc rest.length
          hchk hcont hstart (by omega) (by omega)
        rw [hpay, hb3] at e1
        have hrl' : (rest.drop 184).length = 184 * (m + 1) := by rw [List.length_drop]; omega
        obtain ⟨c', he, hc'⟩ := ih m (acc ++ rest.take 184) (rest.drop 184) ((cc + 1) % 2 ^ 32) (16 + cc % 16 + 1)
          (by rw [List.append_assoc, List.take_append_drop]; exact hpk) hrl' (by omega) h'
        have e2 : rest.length - 184 = (rest.drop 184).length := by rw [List.length_drop]
        rw [e2] at e1
        have := Effs.cons _ _ _ _ xs [] outs e1 he
        refine ⟨c', by simpa using this, by omega⟩

/-- **one PES packet through the TS layer.**  The TS packets the multiplexer makes of the accepted PES
packet `pk` (first one with payload_unit_start, counters from `cc`), foreign packets interleaved anywhere,
read by a demultiplexer that waits for a PES packet start (`ts_pes_todo = 0`) and whose expected counter
is unknown or equals `cc` mod 16: the packet is reassembled and handed to the header check and the data
unit extraction exactly once, after its last TS packet. -/
theorem effs_pes (pid : Nat) (hpid : pid < 0x2000) (fs fs2 : FS) (outs : List FrameOut) (pk : Bytes) (p : Pes)
    (hp : parsePes pk = some p) (hb : ∀ b ∈ pk, b < 256)
    (hpf : pesPacketFrame cfg 3 true false { fs with packetPts := p.pts, frame := { fs.frame with nDu := 0 } } (pk.drop 46)
            = (fs2, outs, .done, [])) :
    ∀ (xs : List Bytes) (pesOld : Bytes) (cont : Option Nat) (cc : Nat), ContOK cont cc →
      Merge pid (Zvbi.Mux.tsLoop pid (pk.length / 184) true cc pk) xs →
      ∃ c', Effs cfg pid ⟨fs, pesOld, 0, cont⟩ xs ⟨fs2, pk, 0, some c'⟩ outs ∧ c' % 16 = (cc + pk.length / 184) % 16 := by
  obtain ⟨us, _, _, h184, hmod, g0, g1, g2, g3, glen, hvh⟩ := pes_shape pk p hp hb
  have hcap : pk.length ≤ PES_BUF_SIZE := by
    have h4 : pk.getD 4 0 % 256 < 256 := Nat.mod_lt _ (by decide)
    have h5 : pk.getD 5 0 % 256 < 256 := Nat.mod_lt _ (by decide)
    unfold PES_BUF_SIZE; omega
  obtain ⟨m, hm⟩ : ∃ m, pk.length / 184 = m + 1 := ⟨pk.length / 184 - 1, by omega⟩
  rw [hm]
  have hlen : pk.length = 184 * (m + 1) := by omega
  intro xs
  induction xs with
  | nil =>
    intro pesOld cont cc _ hmg
    rw [tsLoop_succ] at hmg
    cases hmg
  | cons x xs ih =>
    intro pesOld cont cc hcont hmg
    rw [tsLoop_succ] at hmg
    have htk : (pk.take 184).length = 184 := by rw [List.length_take]; omega
    cases hmg with
    | other _ _ _ hf h' =>
      obtain ⟨c', he, hc'⟩ := ih pesOld cont cc hcont (by rw [tsLoop_succ]; exact h')
      refine ⟨c', ?_, hc'⟩
      have := Effs.cons _ _ _ x xs [] outs (PktEff.skip ⟨fs, pesOld, 0, cont⟩ x hf.2) he
      simpa using this
    | own _ _ _ h' =>
      have hchk := muxPkt_check pid cc true (pk.take 184) hpid
      have hb3 := muxPkt_b3 pid cc true (pk.take 184)
      have hcc : tsContCheck cont ((muxPkt pid cc true (pk.take 184)).getD 3 0) = .ok := by
        rw [hb3]; exact contOK_check cont cc hcont
      have gg : ∀ i, i < 184 → (muxPkt pid cc true (pk.take 184)).getD (i + 4) 0 = pk.getD i 0 := by
        intro i hi; rw [muxPkt_getD, getD_take pk 184 i hi]
      have hstart : startOf pesOld 0 (muxPkt pid cc true (pk.take 184)) = some ([], pk.length) := by
        unfold startOf
        rw [if_pos rfl, gg 0 (by omega), gg 1 (by omega), gg 2 (by omega), gg 3 (by omega), gg 4 (by omega), gg 5 (by omega),
          g0, g1, g2, g3]
        rw [if_neg (by simp [PRIVATE_STREAM_1]), if_neg (by omega), glen]
      have hpay := muxPkt_payload pid cc true (pk.take 184)
      cases m with
      | zero =>
        have hrt : pk.take 184 = pk := List.take_of_length_le (by omega)
        have hps : Zvbi.Mux.tsLoop pid 0 false ((cc + 1) % 2 ^ 32) (pk.drop 184) = [] := rfl
        rw [hps] at h'
        rw [hrt] at hchk hb3 hcc hstart hpay ⊢
        have e1 := PktEff.last (cfg := cfg) (pid := pid) ⟨fs, pesOld, 0, cont⟩ (muxPkt pid cc true pk) []
          { fs with packetPts := p.pts } fs2 outs hchk hcc (by rw [hstart, hlen]) (by unfold PES_BUF_SIZE; simp)
          (by rw [hpay, List.nil_append]; exact hvh fs) (by rw [hpay, List.nil_append]; exact hpf)
        rw [hpay, List.nil_append, hb3] at e1
        have := Effs.cons _ _ _ _ xs outs [] e1 (effs_foreign pid _ xs h')
        refine ⟨16 + cc % 16 + 1, by simpa using this, by omega⟩
      | succ m =>
        have e1 := PktEff.part (cfg := cfg) (pid := pid) ⟨fs, pesOld, 0, cont⟩ (muxPkt pid cc true (pk.take 184)) [] pk.length
          hchk hcc hstart (by omega) (by unfold PES_BUF_SIZE; simp)
        rw [hpay, hb3, List.nil_append] at e1
        have hrl' : (pk.drop 184).length = 184 * (m + 1) := by rw [List.length_drop]; omega
        obtain ⟨c', he, hc'⟩ := effs_loop (cfg := cfg) pid hpid fs { fs with packetPts := p.pts } fs2 outs pk (hvh fs) hpf hcap xs m
          (pk.take 184) (pk.drop 184) ((cc + 1) % 2 ^ 32) (16 + cc % 16 + 1) (List.take_append_drop 184 pk) hrl' (by omega) h'
        have e2 : pk.length - 184 = (pk.drop 184).length := by rw [List.length_drop]
        rw [e2] at e1
        have := Effs.cons _ _ _ _ xs [] outs e1 he
        refine ⟨c', by simpa using this, by omega⟩

end Zvbi.Demux
