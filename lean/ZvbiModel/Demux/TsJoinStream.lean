import ZvbiModel.Demux.TsJoinPacket
import ZvbiModel.Demux.LemmasTsSafe
/-!
# TS path joined with the multiplexer, TS stream level

A stream that is a sequence of intact 188-byte TS packets (`xs`), read by a new TS demultiplexer in
ANY partition into feed calls: the frames delivered and the context at the end are the composition
of the per-packet effects (`Effs`).  `Merge` = packets of the PID's own stream with foreign packets
(`Foreign`) interleaved at arbitrary packet boundaries.
-/
namespace Zvbi.Demux
variable {cfg : SrcCfg}

/-- an intact TS packet as far as the framing is concerned: 188 bytes, sync byte -/
def TsPkt (p : Bytes) : Prop := p.length = 188 ∧ p.getD 0 0 = 0x47

/-- the effects of a sequence of TS packets, composed -/
inductive Effs (cfg : SrcCfg) (pid : Nat) : V → List Bytes → V → List FrameOut → Prop
  | nil (v : V) : Effs cfg pid v [] v []
  | cons (v v1 v2 : V) (p : Bytes) (ps : List Bytes) (o1 o2 : List FrameOut)
      (h1 : PktEff cfg pid v p v1 o1) (h2 : Effs cfg pid v1 ps v2 o2) : Effs cfg pid v (p :: ps) v2 (o1 ++ o2)

theorem Effs.append {pid : Nat} : ∀ {xa : List Bytes} {v v1 v2 : V} {xb : List Bytes} {o1 o2 : List FrameOut},
    Effs cfg pid v xa v1 o1 → Effs cfg pid v1 xb v2 o2 → Effs cfg pid v (xa ++ xb) v2 (o1 ++ o2) := by
  intro xa
  induction xa with
  | nil =>
    intro v v1 v2 xb o1 o2 h1 h2
    cases h1
    simpa using h2
  | cons p ps ih =>
    intro v v1 v2 xb o1 o2 h1 h2
    cases h1 with
    | cons _ v' _ _ _ oa ob ha hb =>
      have := Effs.cons v v' v2 p (ps ++ xb) oa (ob ++ o2) ha (ih hb h2)
      simpa [List.append_assoc] using this

/-- a TS packet the demultiplexer for `pid` passes over: no transport error, and another PID or
(same PID, not scrambled) adaptation field only -/
def Foreign (pid : Nat) (p : Bytes) : Prop := TsPkt p ∧ tsHeaderCheck { pid := pid } p = some false

/-- any intact packet of another PID (null packets included) without transport_error_indicator is `Foreign`,
whatever its payload_unit_start, scrambling, adaptation field, counter and payload bytes are -/
theorem foreign_of_pid (pid : Nat) (p : Bytes) (hp : TsPkt p) (htei : p.getD 1 0 &&& 0x80 = 0)
    (hpid : (p.getD 1 0 * 256 + p.getD 2 0) &&& 0x1FFF ≠ pid) : Foreign pid p := by
  refine ⟨hp, ?_⟩
  unfold tsHeaderCheck
  simp only [htei, ne_eq, not_true_eq_false, if_false]
  rw [if_pos hpid]

/-- `xs` = the packets `ps` in order with foreign packets put between them anywhere -/
inductive Merge (pid : Nat) : List Bytes → List Bytes → Prop
  | nil : Merge pid [] []
  | own (p : Bytes) (ps xs : List Bytes) (h : Merge pid ps xs) : Merge pid (p :: ps) (p :: xs)
  | other (f : Bytes) (ps xs : List Bytes) (hf : Foreign pid f) (h : Merge pid ps xs) : Merge pid ps (f :: xs)

theorem Merge.refl (pid : Nat) : ∀ ps : List Bytes, Merge pid ps ps
  | [] => .nil
  | p :: ps => .own p ps ps (Merge.refl pid ps)

theorem Merge.split {pid : Nat} : ∀ {xs a b : List Bytes}, Merge pid (a ++ b) xs →
    ∃ xa xb, xs = xa ++ xb ∧ Merge pid a xa ∧ Merge pid b xb := by
  intro xs
  induction xs with
  | nil =>
    intro a b h
    generalize hab : a ++ b = ab at h
    cases h with
    | nil =>
      have ha : a = [] := by cases a <;> simp_all
      have hb : b = [] := by cases b <;> simp_all
      subst ha; subst hb
      exact ⟨[], [], rfl, .nil, .nil⟩
  | cons x xs ih =>
    intro a b h
    generalize hab : a ++ b = ab at h
    cases h with
    | own p ps _ h' =>
      cases a with
      | nil =>
        simp only [List.nil_append] at hab
        subst hab
        exact ⟨[], x :: xs, rfl, .nil, .own x ps xs h'⟩
      | cons a0 a' =>
        simp only [List.cons_append, List.cons.injEq] at hab
        obtain ⟨rfl, rfl⟩ := hab
        obtain ⟨xa, xb, rfl, h1, h2⟩ := ih h'
        exact ⟨a0 :: xa, xb, rfl, .own a0 a' xa h1, h2⟩
    | other _ _ _ hf h' =>
      subst hab
      obtain ⟨xa, xb, rfl, h1, h2⟩ := ih h'
      exact ⟨x :: xa, xb, rfl, .other x a xa hf h1, h2⟩

theorem Merge.ofForeign {pid : Nat} : ∀ fs : List Bytes, (∀ f ∈ fs, Foreign pid f) → Merge pid [] fs
  | [], _ => .nil
  | f :: fs, h => .other f [] fs (h f (List.mem_cons_self ..)) (Merge.ofForeign fs fun g hg => h g (List.mem_cons_of_mem _ hg))

theorem Merge.append {pid : Nat} {a xa b xb : List Bytes} (h1 : Merge pid a xa) (h2 : Merge pid b xb) :
    Merge pid (a ++ b) (xa ++ xb) := by
  induction h1 with
  | nil => simpa using h2
  | own p ps xs _ ih => exact .own p (ps ++ b) (xs ++ xb) ih
  | other f ps xs hf _ ih => exact .other f (ps ++ b) (xs ++ xb) hf ih

/-- foreign packets alone change nothing -/
theorem effs_foreign (pid : Nat) (v : V) : ∀ xs : List Bytes, Merge pid [] xs → Effs cfg pid v xs v [] := by
  intro xs
  induction xs with
  | nil => intro _; exact .nil v
  | cons x xs ih =>
    intro h
    cases h with
    | other _ _ _ hf h' =>
      have := Effs.cons v v v x xs [] [] (PktEff.skip v x hf.2) (ih h')
      simpa using this

theorem merge_tsPkt {pid : Nat} : ∀ {xs ps : List Bytes}, Merge pid ps xs → (∀ p ∈ ps, TsPkt p) → ∀ x ∈ xs, TsPkt x := by
  intro xs
  induction xs with
  | nil => intro ps _ _ x hx; cases hx
  | cons y xs ih =>
    intro ps h hps x hx
    cases h with
    | own p ps' _ h' =>
      rcases List.mem_cons.mp hx with rfl | hx
      · exact hps _ (List.mem_cons_self ..)
      · exact ih h' (fun q hq => hps q (List.mem_cons_of_mem _ hq)) x hx
    | other _ _ _ hf h' =>
      rcases List.mem_cons.mp hx with rfl | hx
      · exact hf.1
      · exact ih h' hps x hx

/-! ## successive feed calls -/

/-- successive `vbi_dvb_demux_feed` calls on a TS demultiplexer: final context, all frames delivered -/
def tsFeedAll (cfg : SrcCfg) : TsSt → List Bytes → TsSt × List FrameOut
  | s, [] => (s, [])
  | s, c :: cs => ((tsFeedAll cfg (tsFeed cfg s c).st cs).1, (tsFeed cfg s c).frames ++ (tsFeedAll cfg (tsFeed cfg s c).st cs).2)

/-- any partition = the whole (from a context that satisfies the TS invariant, e.g. a new demultiplexer) -/
theorem tsFeedAll_flatten : ∀ (chunks : List Bytes) (s : TsSt), TsInv s →
    tsFeedAll cfg s chunks = ((tsFeed cfg s chunks.flatten).st, (tsFeed cfg s chunks.flatten).frames) := by
  intro chunks
  induction chunks with
  | nil => intro s _; simp [tsFeedAll, tsFeed]
  | cons c cs ih =>
    intro s hi
    have h1 := tsFeed_safe (cfg := cfg) s c hi
    have h2 := tsFeed_safe (cfg := cfg) (tsFeed cfg s c).st cs.flatten h1.2
    have h3 := tsFeed_safe (cfg := cfg) s (c ++ cs.flatten) hi
    obtain ⟨e1, e2⟩ := tsFeed_split s c cs.flatten h1.1 h2.1 h3.1
    simp only [tsFeedAll, List.flatten_cons, ih _ h1.2]
    rw [e1, e2]

/-- packets fed one per call from a packet boundary -/
theorem tsFeedAll_packets (pid : Nat) : ∀ (xs : List Bytes) (v v' : V) (outs : List FrameOut),
    (∀ x ∈ xs, TsPkt x) → Effs cfg pid v xs v' outs →
    tsFeedAll cfg (mkAt pid v []) xs = (mkAt pid v' [], outs) := by
  intro xs
  induction xs with
  | nil => intro v v' outs _ h; cases h; rfl
  | cons x xs ih =>
    intro v v' outs hx h
    cases h with
    | cons _ v1 _ _ _ o1 o2 h1 h2 =>
      obtain ⟨hl, h47⟩ := hx x (List.mem_cons_self ..)
      have hf := feed_at (cfg := cfg) pid v v1 x o1 0 hl h47 (by omega) h1
      simp only [List.take_zero, List.drop_zero] at hf
      simp only [tsFeedAll, hf, ih v1 v' o2 (fun y hy => hx y (List.mem_cons_of_mem _ hy)) h2]

/-- **a stream of at least two intact TS packets through a new demultiplexer, fed whole.** -/
theorem tsFeed_stream (hflag : cfg.tsCompletesInHeader = true) (pid : Nat) (x1 x2 : Bytes) (rest : List Bytes)
    (v' : V) (outs : List FrameOut) (hx : ∀ x ∈ x1 :: x2 :: rest, TsPkt x)
    (h : Effs cfg pid V.init (x1 :: x2 :: rest) v' outs) :
    (tsFeed cfg (TsSt.init pid) (x1 :: x2 :: rest).flatten).st = mkAt pid v' []
    ∧ (tsFeed cfg (TsSt.init pid) (x1 :: x2 :: rest).flatten).frames = outs := by
  cases h with
  | cons _ v1 _ _ _ o1 o23 h1 h23 =>
    cases h23 with
    | cons _ v2 _ _ _ o2 o3 h2 h3 =>
      obtain ⟨hl1, h471⟩ := hx x1 (List.mem_cons_self ..)
      obtain ⟨hl2, h472⟩ := hx x2 (List.mem_cons_of_mem _ (List.mem_cons_self ..))
      have hA := feed_first (cfg := cfg) hflag pid v1 x1 x2 o1 hl1 h471 hl2 h472 h1
      have hB := feed_at (cfg := cfg) pid v1 v2 x2 o2 9 hl2 h472 (by omega) h2
      have hC := tsFeedAll_packets (cfg := cfg) pid rest v2 v' o3
        (fun y hy => hx y (List.mem_cons_of_mem _ (List.mem_cons_of_mem _ hy))) h3
      have hall : tsFeedAll cfg (TsSt.init pid) ((x1 ++ x2.take 9) :: x2.drop 9 :: rest)
          = (mkAt pid v' [], o1 ++ (o2 ++ o3)) := by
        simp only [tsFeedAll, hA, hB, hC]
      have hfl : ((x1 ++ x2.take 9) :: x2.drop 9 :: rest).flatten = (x1 :: x2 :: rest).flatten := by
        simp only [List.flatten_cons, List.append_assoc]
        rw [← List.append_assoc (x2.take 9), List.take_append_drop]
      have := tsFeedAll_flatten (cfg := cfg) ((x1 ++ x2.take 9) :: x2.drop 9 :: rest) (TsSt.init pid) (TsInv_init pid)
      rw [hall, hfl] at this
      simp only [Prod.mk.injEq] at this
      exact ⟨this.1.symm, this.2.symm⟩

end Zvbi.Demux
