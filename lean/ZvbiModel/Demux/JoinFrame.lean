import ZvbiModel.Demux.JoinUnits
/-!
# Parser equivalence, packet payload level  (join of C06 and C07)

`extract_data_units` / `demux_pes_packet_frame` on a data unit region `encUnits us` whose lines
(`unitsLines us = some ls`) have defined, strictly ascending line numbers: the lines are appended to
the frame; if the first line does not lie beyond the last line of the frame under assembly, that
frame is delivered first and a new one begins (only at the start of a packet).  In the shape of the
source before fix dvb-demux-full-frame this needs room in the buffer (fewer than 64 lines held); with
the fix a frame that fills the buffer exactly is closed like any other (`hfull`/`hcap` disjunctions).
-/
namespace Zvbi.Demux
open Zvbi.Hamm (rev8)
open Zvbi.Mux.EnParse (Line Svc DataUnit Pes unitLine unitsLines lofpLine encUnits parseUnits parseUnitsF allFF)

variable {cfg : SrcCfg}

/-- line numbers strictly ascending, the first one above `x` (so all are defined, i.e. non-zero) -/
def AscFrom : Nat → List Line → Prop
  | _, [] => True
  | x, l :: ls => x < l.line ∧ AscFrom l.line ls

/-- the line number `line_address` remembers after these lines (`last_frame_line`) -/
def lastLineOf : Nat → List Line → Nat
  | x, [] => x
  | _, l :: ls => lastLineOf l.line ls

instance : ∀ x ls, Decidable (AscFrom x ls)
  | _, [] => isTrue trivial
  | x, l :: ls => by unfold AscFrom; exact @instDecidableAnd _ _ _ (instDecidableAscFrom l.line ls)

theorem encUnits_nil_iff (us : List DataUnit) : encUnits us = [] ↔ us = [] := by
  cases us with
  | nil => simp [encUnits]
  | cons u us => simp [encUnits]

theorem unitLine_nil_payload (id : Nat) (l : Line) : unitLine ⟨id, []⟩ ≠ some (some l) := by
  unfold unitLine
  simp only [List.length_nil, List.drop_nil, List.getD_nil]
  have h44 : (0 < 44 ∨ ¬ allFF [] = true ∨ 0 ≠ 0xE4) := Or.inl (by decide)
  have h14 : (0 < 14 ∨ ¬ allFF [] = true) := Or.inl (by decide)
  have h3 : (0 < 3 ∨ ¬ allFF [] = true) := Or.inl (by decide)
  have h3' : (0 < 3 ∨ ¬ allFF [] = true ∨ 0 % 4 ≠ 3) := Or.inl (by decide)
  rw [if_pos h44, if_pos h14, if_pos h3, if_pos h3']
  intro h
  repeat' split at h
  all_goals cases h

theorem extractLoop_step (fuel : Nat) (f : Frame) (id len : Nat) (rest : Bytes)
    (h1 : 2 < (id :: len :: rest).length) (h2 : len + 2 ≤ (id :: len :: rest).length) :
    extractLoop cfg (fuel + 1) f (id :: len :: rest) =
      match dataUnit cfg f (id :: len :: rest) id len with
      | .fail f' r => (f', r, id :: len :: rest)
      | .skip => extractLoop cfg fuel { f with lastDuId := id } ((id :: len :: rest).drop (len + 2))
      | .store f' => extractLoop cfg fuel { f' with lastDuId := id } ((id :: len :: rest).drop (len + 2)) := by
  rw [extractLoop, if_neg (by omega)]
  rw [if_neg (by omega)]
  rfl

theorem drop_unit (id : Nat) (p t : Bytes) : (id :: p.length :: (p ++ t)).drop (p.length + 2) = t := by
  simp [List.drop_succ_cons]

/-- the loop over an accepted region whose lines continue the frame: all lines stored, result 0 -/
theorem extractLoop_stores : ∀ (us : List DataUnit) (ls : List Line) (f : Frame) (fuel : Nat),
    unitsLines us = some ls → AscFrom f.lastFrameLine ls → f.lines.length + ls.length ≤ 64 →
    (encUnits us).length < fuel →
    ∃ f', extractLoop cfg fuel f (encUnits us) = (f', .done, []) ∧ f'.lines = f.lines ++ ls.map ofLine
      ∧ f'.lastFrameLine = lastLineOf f.lastFrameLine ls := by
  intro us
  induction us with
  | nil =>
    intro ls f fuel hul _ _ hfuel
    simp only [unitsLines, Option.some.injEq] at hul
    subst hul
    cases fuel with
    | zero => simp at hfuel
    | succ fuel => exact ⟨f, by simp [encUnits, extractLoop], by simp, rfl⟩
  | cons u us ih =>
    intro ls f fuel hul hasc hcap hfuel
    cases fuel with
    | zero => simp at hfuel
    | succ fuel =>
      obtain ⟨id, p⟩ := u
      simp only [encUnits] at hfuel ⊢
      by_cases hshort : (id :: p.length :: (p ++ encUnits us)).length ≤ 2
      · -- a last unit without payload: the loop stops before it; it can only be stuffing
        have hp : p = [] := by
          apply List.eq_nil_of_length_eq_zero
          simp only [List.length_cons, List.length_append] at hshort; omega
        have hus : us = [] := by
          rw [← encUnits_nil_iff]; apply List.eq_nil_of_length_eq_zero
          simp only [List.length_cons, List.length_append] at hshort; omega
        subst hp; subst hus
        have hls : ls = [] := by
          simp only [unitsLines] at hul
          cases hu : unitLine ⟨id, []⟩ with
          | none => rw [hu] at hul; simp at hul
          | some o =>
            cases o with
            | none => rw [hu] at hul; simpa using hul.symm
            | some l => exact absurd hu (unitLine_nil_payload id l)
        subst hls
        refine ⟨f, ?_, by simp, rfl⟩
        rw [extractLoop, if_pos hshort]
      · rw [extractLoop_step fuel f id p.length _ (by omega)
          (by simp only [List.length_cons, List.length_append]; omega), drop_unit]
        simp only [unitsLines] at hul
        cases hu : unitLine ⟨id, p⟩ with
        | none => rw [hu] at hul; simp at hul
        | some o =>
          cases hrest : unitsLines us with
          | none => rw [hu, hrest] at hul; cases o <;> simp at hul
          | some ls' =>
            rw [hu, hrest] at hul
            have hfuel' : (encUnits us).length < fuel := by
              simp only [List.length_cons, List.length_append] at hfuel; omega
            cases o with
            | none =>
              simp only [Option.some.injEq] at hul
              subst hul
              have := dataUnit_stuff_unit (cfg := cfg) f ⟨id, p⟩ (id :: p.length :: (p ++ encUnits us)) hu
              simp only at this
              rw [this]
              simp only []
              obtain ⟨f', h1, h2, h3⟩ := ih ls' { f with lastDuId := id } fuel hrest hasc hcap hfuel'
              exact ⟨f', h1, h2, h3⟩
            | some l =>
              simp only [Option.some.injEq] at hul
              subst hul
              obtain ⟨hlt, hasc'⟩ := hasc
              simp only [List.length_cons] at hcap
              obtain ⟨lofp, hdu⟩ := dataUnit_line (cfg := cfg) f ⟨id, p⟩ l (encUnits us) hu (by omega)
              simp only at hdu
              rw [hdu, lineRes_room _ _ _ (by omega), if_neg (by omega)]
              simp only []
              obtain ⟨f', h1, h2, h3⟩ := ih ls' { storeFrame f lofp l with lastDuId := id } fuel hrest
                (by simpa [storeFrame, pushLine, addrFrame] using hasc')
                (by simp [storeFrame, pushLine, addrFrame]; omega) hfuel'
              refine ⟨f', h1, ?_, ?_⟩
              · rw [h2]; simp [storeFrame, pushLine, addrFrame, ofLine]
                cases l.svc <;> rfl
              · rw [h3]; simp [storeFrame, pushLine, addrFrame, lastLineOf]

/-- the loop over an accepted region whose lines continue the frame but do not all fit into the
buffer: the lines are stored until the buffer is full, the next line unit gets
VBI_ERR_SLICED_BUFFER_OVERFLOW (in both shapes of `line_address`: its line lies beyond the frame's last
line, so no frame boundary is seen) -/
theorem extractLoop_overflow : ∀ (us : List DataUnit) (ls : List Line) (f : Frame) (fuel : Nat),
    unitsLines us = some ls → AscFrom f.lastFrameLine ls → f.lines.length ≤ 64 → 64 < f.lines.length + ls.length →
    (encUnits us).length < fuel →
    ∃ f' rest, extractLoop cfg fuel f (encUnits us) = (f', .err, rest) := by
  intro us
  induction us with
  | nil =>
    intro ls f fuel hul _ h64 hcap _
    simp only [unitsLines, Option.some.injEq] at hul
    subst hul
    simp only [List.length_nil] at hcap; omega
  | cons u us ih =>
    intro ls f fuel hul hasc h64 hcap hfuel
    cases fuel with
    | zero => simp at hfuel
    | succ fuel =>
      obtain ⟨id, p⟩ := u
      simp only [encUnits] at hfuel ⊢
      by_cases hshort : (id :: p.length :: (p ++ encUnits us)).length ≤ 2
      · exfalso
        have hp : p = [] := by
          apply List.eq_nil_of_length_eq_zero
          simp only [List.length_cons, List.length_append] at hshort; omega
        have hus : us = [] := by
          rw [← encUnits_nil_iff]; apply List.eq_nil_of_length_eq_zero
          simp only [List.length_cons, List.length_append] at hshort; omega
        subst hp; subst hus
        have hls : ls = [] := by
          simp only [unitsLines] at hul
          cases hu : unitLine ⟨id, []⟩ with
          | none => rw [hu] at hul; simp at hul
          | some o =>
            cases o with
            | none => rw [hu] at hul; simpa using hul.symm
            | some l => exact absurd hu (unitLine_nil_payload id l)
        subst hls
        simp only [List.length_nil] at hcap; omega
      · rw [extractLoop_step fuel f id p.length _ (by omega)
          (by simp only [List.length_cons, List.length_append]; omega), drop_unit]
        simp only [unitsLines] at hul
        cases hu : unitLine ⟨id, p⟩ with
        | none => rw [hu] at hul; simp at hul
        | some o =>
          cases hrest : unitsLines us with
          | none => rw [hu, hrest] at hul; cases o <;> simp at hul
          | some ls' =>
            rw [hu, hrest] at hul
            have hfuel' : (encUnits us).length < fuel := by
              simp only [List.length_cons, List.length_append] at hfuel; omega
            cases o with
            | none =>
              simp only [Option.some.injEq] at hul
              subst hul
              have := dataUnit_stuff_unit (cfg := cfg) f ⟨id, p⟩ (id :: p.length :: (p ++ encUnits us)) hu
              simp only at this
              rw [this]
              simp only []
              exact ih ls' { f with lastDuId := id } fuel hrest hasc h64 hcap hfuel'
            | some l =>
              simp only [Option.some.injEq] at hul
              subst hul
              obtain ⟨hlt, hasc'⟩ := hasc
              simp only [List.length_cons] at hcap
              obtain ⟨lofp, hdu⟩ := dataUnit_line (cfg := cfg) f ⟨id, p⟩ l (encUnits us) hu (by omega)
              simp only at hdu
              by_cases hroom : f.lines.length < 64
              · rw [hdu, lineRes_room _ _ _ hroom, if_neg (by omega)]
                simp only []
                exact ih ls' { storeFrame f lofp l with lastDuId := id } fuel hrest
                  (by simpa [storeFrame, pushLine, addrFrame] using hasc')
                  (by simp [storeFrame, pushLine, addrFrame]; omega)
                  (by simp [storeFrame, pushLine, addrFrame]; omega) hfuel'
              · rw [hdu, lineRes_overflow _ _ _ (by omega) hlt]
                exact ⟨_, _, rfl⟩

/-- at the start of a packet (`n_data_units_extracted_from_packet = 0`) a first line that does not lie
beyond the frame's last line ends the loop with -1 at that unit; the frame keeps its lines -/
theorem extractLoop_newFrame : ∀ (us : List DataUnit) (l : Line) (ls : List Line) (f : Frame) (fuel : Nat),
    unitsLines us = some (l :: ls) → l.line ≠ 0 → l.line ≤ f.lastFrameLine → f.nDu = 0 →
    (cfg.lateOverflow = true ∨ f.lines.length < 64) →
    (encUnits us).length < fuel →
    ∃ f1 us1, extractLoop cfg fuel f (encUnits us) = (f1, .newFrame, encUnits us1) ∧ f1.lines = f.lines
      ∧ unitsLines us1 = some (l :: ls) ∧ (encUnits us1).length ≤ (encUnits us).length := by
  intro us
  induction us with
  | nil => intro l ls f fuel hul; simp [unitsLines] at hul
  | cons u us ih =>
    intro l ls f fuel hul h0 hle hn hcap hfuel
    cases fuel with
    | zero => simp at hfuel
    | succ fuel =>
      obtain ⟨id, p⟩ := u
      simp only [encUnits] at hfuel ⊢
      by_cases hshort : (id :: p.length :: (p ++ encUnits us)).length ≤ 2
      · exfalso
        have hp : p = [] := by
          apply List.eq_nil_of_length_eq_zero
          simp only [List.length_cons, List.length_append] at hshort; omega
        have hus : us = [] := by
          rw [← encUnits_nil_iff]; apply List.eq_nil_of_length_eq_zero
          simp only [List.length_cons, List.length_append] at hshort; omega
        subst hp; subst hus
        simp only [unitsLines] at hul
        cases hu : unitLine ⟨id, []⟩ with
        | none => rw [hu] at hul; simp at hul
        | some o =>
          cases o with
          | none => rw [hu] at hul; simp at hul
          | some l' => exact absurd hu (unitLine_nil_payload id l')
      · rw [extractLoop_step fuel f id p.length _ (by omega)
          (by simp only [List.length_cons, List.length_append]; omega), drop_unit]
        simp only [unitsLines] at hul
        cases hu : unitLine ⟨id, p⟩ with
        | none => rw [hu] at hul; simp at hul
        | some o =>
          cases hrest : unitsLines us with
          | none => rw [hu, hrest] at hul; cases o <;> simp at hul
          | some ls' =>
            rw [hu, hrest] at hul
            have hfuel' : (encUnits us).length < fuel := by
              simp only [List.length_cons, List.length_append] at hfuel; omega
            cases o with
            | none =>
              simp only [Option.some.injEq] at hul
              subst hul
              have := dataUnit_stuff_unit (cfg := cfg) f ⟨id, p⟩ (id :: p.length :: (p ++ encUnits us)) hu
              simp only at this
              rw [this]
              simp only []
              obtain ⟨f1, us1, h1, h2, h3, h4⟩ := ih l ls { f with lastDuId := id } fuel hrest h0 hle hn hcap hfuel'
              refine ⟨f1, us1, h1, h2, h3, ?_⟩
              simp only [List.length_cons, List.length_append]; omega
            | some l' =>
              simp only [Option.some.injEq, List.cons.injEq] at hul
              obtain ⟨rfl, rfl⟩ := hul
              obtain ⟨lofp, hdu⟩ := dataUnit_line (cfg := cfg) f ⟨id, p⟩ l' (encUnits us) hu h0
              simp only at hdu
              rw [hdu, lineRes_newFrame _ _ _ hcap hle hn]
              simp only []
              refine ⟨f, ⟨id, p⟩ :: us, rfl, rfl, ?_, Nat.le_refl _⟩
              simp only [unitsLines, hu, hrest]

theorem extract_eq (f : Frame) (d : Bytes) (h : 2 ≤ d.length) : extract cfg f d = extractLoop cfg (d.length + 1) f d := by
  unfold extract; rw [if_neg (by omega)]

theorem length_encUnits_cons (u : DataUnit) (us : List DataUnit) : 2 ≤ (encUnits (u :: us)).length := by
  simp only [encUnits, List.length_cons]; omega

/-- a frame/PTS state that holds the lines `ls` of a frame sent with `pts` (and is not at a frame start) -/
structure Holds (fs : FS) (pts : Nat) (ls : List Line) : Prop where
  nf : fs.newFrame = false
  lines : fs.frame.lines = ls.map ofLine
  last : fs.frame.lastFrameLine = lastLineOf 0 ls
  pts : fs.framePts = pts

/-- `demux_pes_packet_frame` on the first packet after a frame start (`new_frame`): the frame is
reset, takes the packet's PTS and all lines; nothing is delivered -/
theorem pesPacketFrame_first (se : Bool) (fs : FS) (us : List DataUnit) (l : Line) (ls : List Line)
    (hnf : fs.newFrame = true) (hul : unitsLines us = some (l :: ls)) (hasc : AscFrom 0 (l :: ls))
    (hcap : (l :: ls).length ≤ 64) :
    ∃ fs', pesPacketFrame cfg 3 true se fs (encUnits us) = (fs', [], .done, [])
      ∧ Holds fs' fs.packetPts (l :: ls) ∧ fs'.packetPts = fs.packetPts := by
  have hne : us ≠ [] := by intro h; subst h; simp [unitsLines] at hul
  obtain ⟨u, us', rfl⟩ := List.exists_cons_of_ne_nil hne
  have h2 := length_encUnits_cons u us'
  rw [pesPacketFrame]
  simp only [hnf, if_true]
  rw [extract_eq _ _ h2]
  obtain ⟨f', h1, hl, hla⟩ := extractLoop_stores (u :: us') (l :: ls) (resetFrame fs.frame) _ hul
    (by simpa [resetFrame] using hasc) (by simpa [resetFrame] using hcap) (Nat.lt_succ_self _)
  rw [h1]
  exact ⟨_, rfl, ⟨rfl, by simpa [resetFrame] using hl, by simpa [resetFrame] using hla, rfl⟩, rfl⟩

/-- `demux_pes_packet_frame` on a packet whose first line does not lie beyond the last line of the
frame under assembly: that frame is delivered with its PTS, then the new frame takes the packet's
PTS and lines -/
theorem pesPacketFrame_next (se : Bool) (fs : FS) (us : List DataUnit) (l : Line) (ls : List Line)
    (hnf : fs.newFrame = false) (hn : fs.frame.nDu = 0)
    (hfull : cfg.lateOverflow = true ∨ fs.frame.lines.length < 64)
    (hul : unitsLines us = some (l :: ls)) (hasc : AscFrom 0 (l :: ls))
    (hcap : (l :: ls).length ≤ 64) (hle : l.line ≤ fs.frame.lastFrameLine) :
    ∃ fs', pesPacketFrame cfg 3 true se fs (encUnits us) = (fs', [⟨fs.framePts, fs.frame.lines⟩], .done, [])
      ∧ Holds fs' fs.packetPts (l :: ls) ∧ fs'.packetPts = fs.packetPts := by
  have hne : us ≠ [] := by intro h; subst h; simp [unitsLines] at hul
  obtain ⟨u, us', rfl⟩ := List.exists_cons_of_ne_nil hne
  have h2 := length_encUnits_cons u us'
  have h0 : l.line ≠ 0 := by have := hasc.1; omega
  rw [pesPacketFrame]
  simp only [hnf, Bool.false_eq_true, if_false]
  rw [extract_eq _ _ h2]
  obtain ⟨f1, us1, h1, hl1, hul1, hlen1⟩ := extractLoop_newFrame (u :: us') l ls fs.frame _ hul h0 hle hn hfull
    (Nat.lt_succ_self _)
  rw [h1]
  simp only [Bool.not_true, Bool.false_eq_true, if_false]
  have hne1 : us1 ≠ [] := by intro h; subst h; simp [unitsLines] at hul1
  obtain ⟨u1, us1', rfl⟩ := List.exists_cons_of_ne_nil hne1
  have h21 := length_encUnits_cons u1 us1'
  rw [pesPacketFrame]
  simp only [if_true]
  rw [extract_eq _ _ h21]
  obtain ⟨f', h3, hl, hla⟩ := extractLoop_stores (u1 :: us1') (l :: ls) (resetFrame f1) _ hul1
    (by simpa [resetFrame] using hasc) (by simpa [resetFrame] using hcap) (Nat.lt_succ_self _)
  rw [h3]
  dsimp only
  rw [hl1]
  exact ⟨_, rfl, ⟨rfl, by simpa [resetFrame] using hl, by simpa [resetFrame] using hla, rfl⟩, rfl⟩

end Zvbi.Demux
