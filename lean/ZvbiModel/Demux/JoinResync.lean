import ZvbiModel.Demux.JoinStream
/-!
# Resynchronisation on an intact stream from any context at a packet boundary  (join of C06 and C07)

A demultiplexer at a packet boundary that still holds a stale frame (not at a frame start), reading an
intact stream of separable frames: either the first packet closes the stale frame (one extra frame,
nothing lost), or its lines cannot be told apart from the stale ones and are appended (the merged
frame comes out when the second packet begins: one extra frame, the first one lost).  Before fix
dvb-demux-full-frame this needs room for the first packet's lines (at most `frameCap` = 63 in all, see
finding C07-full-frame).  With the fix and the discard of 7c6e61c nothing is needed: a full buffer is
closed like any other, and when the first packet's lines do not fit the overflow error discards the
stale frame and the first packet (third case), after which the stream is read from a frame start.
-/
namespace Zvbi.Demux
open Zvbi.Hamm (rev8)
open Zvbi.Mux.EnParse
variable {cfg : SrcCfg}

/-- `demux_pes_packet_frame` on a packet whose first line lies beyond the last line of the frame under
assembly: no boundary is recognisable, the lines are appended, nothing is delivered -/
theorem pesPacketFrame_append (se : Bool) (fs : FS) (us : List DataUnit) (l : Line) (ls : List Line)
    (hnf : fs.newFrame = false) (hul : unitsLines us = some (l :: ls)) (hasc : AscFrom 0 (l :: ls))
    (hcap : fs.frame.lines.length + (l :: ls).length ≤ 64) (hgt : fs.frame.lastFrameLine < l.line) :
    ∃ fs', pesPacketFrame cfg 3 true se fs (encUnits us) = (fs', [], .done, [])
      ∧ fs'.newFrame = false ∧ fs'.frame.lines = fs.frame.lines ++ (l :: ls).map ofLine
      ∧ fs'.frame.lastFrameLine = lastLineOf 0 (l :: ls) ∧ fs'.framePts = fs.framePts := by
  have hne : us ≠ [] := by intro h; subst h; simp [unitsLines] at hul
  obtain ⟨u, us', rfl⟩ := List.exists_cons_of_ne_nil hne
  have h2 := length_encUnits_cons u us'
  rw [pesPacketFrame]
  simp only [hnf, Bool.false_eq_true, if_false]
  rw [extract_eq _ _ h2]
  obtain ⟨f', h1, hl, hla⟩ := extractLoop_stores (u :: us') (l :: ls) fs.frame _ hul ⟨hgt, hasc.2⟩ hcap
    (Nat.lt_succ_self _)
  rw [h1]
  exact ⟨_, rfl, rfl, hl, by rw [hla]; rfl, rfl⟩

/-- ... and when they do not fit into the buffer: the overflow error, nothing delivered -/
theorem pesPacketFrame_overflow (se : Bool) (fs : FS) (us : List DataUnit) (l : Line) (ls : List Line)
    (hnf : fs.newFrame = false) (hul : unitsLines us = some (l :: ls)) (hasc : AscFrom 0 (l :: ls))
    (h64 : fs.frame.lines.length ≤ 64) (hcap : 64 < fs.frame.lines.length + (l :: ls).length)
    (hgt : fs.frame.lastFrameLine < l.line) :
    ∃ fs' rest, pesPacketFrame cfg 3 true se fs (encUnits us) = (fs', [], .err, rest) ∧ fs'.packetPts = fs.packetPts := by
  have hne : us ≠ [] := by intro h; subst h; simp [unitsLines] at hul
  obtain ⟨u, us', rfl⟩ := List.exists_cons_of_ne_nil hne
  have h2 := length_encUnits_cons u us'
  rw [pesPacketFrame]
  simp only [hnf, Bool.false_eq_true, if_false]
  rw [extract_eq _ _ h2]
  obtain ⟨f', rest, h1⟩ := extractLoop_overflow (cfg := cfg) (u :: us') (l :: ls) fs.frame _ hul ⟨hgt, hasc.2⟩ h64 hcap
    (Nat.lt_succ_self _)
  rw [h1]
  exact ⟨_, _, rfl, rfl⟩

/-- what `arun_resync` needs of the context: the stale lines and the first packet's lines make a frame
that can be held and closed (`frameCap`: 63 lines before fix dvb-demux-full-frame, 64 with it) - or the
source has both the full-frame fix and the discard of 7c6e61c, then nothing but the array bound -/
def ResyncRoom (cfg : SrcCfg) (fs : FS) (k : Nat) : Prop :=
  fs.frame.lines.length + k ≤ frameCap cfg
  ∨ (cfg.lateOverflow = true ∧ cfg.pesDiscards = true ∧ fs.frame.lines.length ≤ 64)

/-- **resync on an intact stream**: from a context at a packet boundary holding a stale frame -/
theorem arun_resync (fs : FS) (hnf : fs.newFrame = false) (x : Bytes × Pes) (pks : List (Bytes × Pes))
    (hp : ∀ y ∈ x :: pks, parsePes y.1 = some y.2) (hb : ∀ y ∈ x :: pks, ∀ b ∈ y.1, b < 256)
    (hsep : Sep cfg ((x :: pks).map fun y => y.2.lines)) (hcap : ResyncRoom cfg fs x.2.lines.length) :
    ∃ X Y rest, (arun cfg { skip := 0, lookahead := 48, fs := fs } ((x :: pks).map Prod.fst).flatten).frames = X ++ rest
      ∧ (((x :: pks).map Prod.snd).dropLast).map outOf = Y ++ rest ∧ X.length ≤ 1 ∧ Y.length ≤ 1
      ∧ (arun cfg { skip := 0, lookahead := 48, fs := fs } ((x :: pks).map Prod.fst).flatten).stop = none := by
  have hcap64 := frameCap_le cfg
  obtain ⟨pk, p⟩ := x
  simp only [List.map_cons, Sep] at hsep
  obtain ⟨⟨hne, hasc, hlt⟩, hsep'⟩ := hsep
  have hpp : parsePes pk = some p := hp (pk, p) (List.mem_cons_self ..)
  obtain ⟨us, hul, hstep, hstepE⟩ := arun_packet (cfg := cfg) fs pk (pks.map Prod.fst).flatten p hpp
    (hb (pk, p) (List.mem_cons_self ..))
  obtain ⟨l, ls, hls⟩ := List.exists_cons_of_ne_nil hne
  simp only at hcap
  rw [hls] at hul hasc hlt hcap
  have hp' : ∀ y ∈ pks, parsePes y.1 = some y.2 := fun y hy => hp y (List.mem_cons_of_mem _ hy)
  have hb' : ∀ y ∈ pks, ∀ b ∈ y.1, b < 256 := fun y hy => hb y (List.mem_cons_of_mem _ hy)
  -- a frame of the stale lines and the first packet's lines can be closed when it can be held
  have hroom : ∀ n, n ≤ fs.frame.lines.length + (l :: ls).length → n ≤ 64 → cfg.lateOverflow = true ∨ n < 64 := by
    intro n hn1 hn2
    rcases hcap with h | ⟨h, _, _⟩
    · rcases frameCap_room (cfg := cfg) _ h with h | h
      · exact Or.inl h
      · right; omega
    · exact Or.inl h
  by_cases hle : l.line ≤ fs.frame.lastFrameLine
  · -- the first packet closes the stale frame
    have hfull : cfg.lateOverflow = true ∨ fs.frame.lines.length < 64 := by
      rcases hcap with h | ⟨h, _, _⟩
      · rcases frameCap_room (cfg := cfg) _ h with h | h
        · exact Or.inl h
        · right; simp only [List.length_cons] at h; omega
      · exact Or.inl h
    obtain ⟨fs', hpf, hh', _⟩ := pesPacketFrame_next (cfg := cfg) cfg.corSkipsEmpty
      { fs with packetPts := p.pts, frame := { fs.frame with nDu := 0 } } us l ls hnf rfl
      hfull hul hasc (by omega) hle
    have hstep' := hstep fs' _ hpf
    obtain ⟨fsEnd, har, _⟩ := arun_stream_from (cfg := cfg) pks fs' p hp' hb' (by rw [hls]; exact hh')
      (by rw [hls]; exact hlt) hsep'
    refine ⟨[⟨fs.framePts, fs.frame.lines⟩], [], ((p :: pks.map Prod.snd).dropLast).map outOf, ?_, rfl, by simp, by simp, ?_⟩
    · simp only [List.map_cons, List.flatten_cons]
      rw [hstep', har]; rfl
    · simp only [List.map_cons, List.flatten_cons]
      rw [hstep', har]; rfl
  · by_cases hfit : fs.frame.lines.length + (l :: ls).length ≤ 64
    · -- no boundary: the lines are appended to the stale frame
      obtain ⟨fsM, hpf, hnfM, hlM, hlaM, hptsM⟩ := pesPacketFrame_append (cfg := cfg) cfg.corSkipsEmpty
        { fs with packetPts := p.pts, frame := { fs.frame with nDu := 0 } } us l ls hnf hul hasc
        (by show fs.frame.lines.length + (l :: ls).length ≤ 64; exact hfit)
        (by show fs.frame.lastFrameLine < l.line; omega)
      have hstep' := hstep fsM _ hpf
      cases pks with
      | nil =>
        refine ⟨[], [], [], ?_, rfl, by simp, by simp, ?_⟩
        · simp only [List.map_cons, List.map_nil, List.flatten_cons, List.flatten_nil] at hstep' ⊢
          rw [hstep']; simp [arun, ARes.pre]
        · simp only [List.map_cons, List.map_nil, List.flatten_cons, List.flatten_nil] at hstep' ⊢
          rw [hstep']; simp [arun, ARes.pre]
      | cons y pks' =>
        obtain ⟨pk2, q⟩ := y
        simp only [List.map_cons, SepFrom] at hsep'
        obtain ⟨⟨hne2, hasc2, hlt2⟩, hfirst2, hsep2⟩ := hsep'
        have hpq : parsePes pk2 = some q := hp' (pk2, q) (List.mem_cons_self ..)
        obtain ⟨us2, hul2, hstep2, _⟩ := arun_packet (cfg := cfg) fsM pk2 (pks'.map Prod.fst).flatten q hpq
          (hb' (pk2, q) (List.mem_cons_self ..))
        obtain ⟨l2, ls2, hls2⟩ := List.exists_cons_of_ne_nil hne2
        rw [hls2] at hul2 hasc2 hlt2
        have hfl : firstLine q.lines = l2.line := by simp [firstLine, hls2]
        obtain ⟨fsQ, hpfQ, hhQ, _⟩ := pesPacketFrame_next (cfg := cfg) cfg.corSkipsEmpty
          { fsM with packetPts := q.pts, frame := { fsM.frame with nDu := 0 } } us2 l2 ls2 hnfM rfl
          (by show cfg.lateOverflow = true ∨ fsM.frame.lines.length < 64
              rw [hlM, List.length_append, List.length_map]
              exact hroom _ (Nat.le_refl _) hfit)
          hul2 hasc2 (by omega)
          (by show l2.line ≤ fsM.frame.lastFrameLine; rw [hlaM, ← hls, ← hfl]; exact hfirst2)
        have hstep2' := hstep2 fsQ _ hpfQ
        obtain ⟨fsEnd, har, _⟩ := arun_stream_from (cfg := cfg) pks' fsQ q
          (fun z hz => hp' z (List.mem_cons_of_mem _ hz)) (fun z hz => hb' z (List.mem_cons_of_mem _ hz))
          (by rw [hls2]; exact hhQ) (by rw [hls2]; exact hlt2) hsep2
        refine ⟨[⟨fsM.framePts, fsM.frame.lines⟩], [outOf p], ((q :: pks'.map Prod.snd).dropLast).map outOf, ?_, ?_,
          by simp, by simp, ?_⟩
        · simp only [List.map_cons, List.flatten_cons] at hstep' ⊢
          rw [hstep', hstep2', har]; rfl
        · simp only [List.map_cons, List.dropLast_cons_cons, List.cons_append, List.nil_append]
        · simp only [List.map_cons, List.flatten_cons] at hstep' ⊢
          rw [hstep', hstep2', har]; rfl
    · -- no boundary and no room (repaired source only): the overflow error discards the stale frame and
      -- this packet; the rest of the stream is read from a frame start
      obtain ⟨hlo, hpd, h64⟩ : cfg.lateOverflow = true ∧ cfg.pesDiscards = true ∧ fs.frame.lines.length ≤ 64 := by
        rcases hcap with h | h
        · exact absurd (Nat.le_trans h hcap64) hfit
        · exact h
      obtain ⟨fsE, restE, hpf, _⟩ := pesPacketFrame_overflow (cfg := cfg) cfg.corSkipsEmpty
        { fs with packetPts := p.pts, frame := { fs.frame with nDu := 0 } } us l ls hnf hul hasc
        (by show fs.frame.lines.length ≤ 64; exact h64)
        (by show 64 < fs.frame.lines.length + (l :: ls).length; omega)
        (by show fs.frame.lastFrameLine < l.line; omega)
      have hstep' := hstepE fsE _ restE hpf
      have hnfE : (pesErrFs cfg fsE).newFrame = true := by simp [pesErrFs, hpd]
      cases pks with
      | nil =>
        refine ⟨[], [], [], ?_, rfl, by simp, by simp, ?_⟩
        · simp only [List.map_cons, List.map_nil, List.flatten_cons, List.flatten_nil] at hstep' ⊢
          rw [hstep']; simp [arun, ARes.pre]
        · simp only [List.map_cons, List.map_nil, List.flatten_cons, List.flatten_nil] at hstep' ⊢
          rw [hstep']; simp [arun, ARes.pre]
      | cons y pks' =>
        simp only [List.map_cons, SepFrom] at hsep'
        obtain ⟨hok2, _, hsep2⟩ := hsep'
        obtain ⟨fsEnd, har, _⟩ := arun_stream_start (cfg := cfg) y pks' (pesErrFs cfg fsE) hnfE hp' hb'
          (by simp only [List.map_cons, Sep]; exact ⟨hok2, hsep2⟩)
        refine ⟨[], [outOf p], (((y :: pks').map Prod.snd).dropLast).map outOf, ?_, ?_, by simp, by simp, ?_⟩
        · simp only [List.map_cons, List.flatten_cons] at hstep' har ⊢
          rw [hstep', har]; rfl
        · simp only [List.map_cons, List.dropLast_cons_cons, List.cons_append, List.nil_append]
        · simp only [List.map_cons, List.flatten_cons] at hstep' har ⊢
          rw [hstep', har]; rfl

end Zvbi.Demux
