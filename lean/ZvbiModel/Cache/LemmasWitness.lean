import ZvbiModel.Cache.Spec
/-!
# Concrete histories on which full-strength statements fail (replayed on the C code by checks/C10.py)
-/
namespace Zvbi.Cache

/-- F17: the same BCD page stored with a subpage subcode (key class 0xFF) and a clock-time subcode
    (single version, key class 0) in turn; no reference is kept -/
def dupOps : List Op :=
  [.addNet, .put 0 ⟨0x101, 1, 0, 0, 0, 1⟩, .unref 0, .put 0 ⟨0x101, 0x102, 0, 0, 0, 2⟩, .unref 1,
   .put 0 ⟨0x101, 1, 0, 0, 0, 3⟩, .unref 2, .put 0 ⟨0x101, 0x102, 0, 0, 0, 4⟩, .unref 3]

set_option maxRecDepth 100000 in
/-- two cached versions with the same (network, page, subpage) key: the cache is not a map -/
theorem dup_key_witness :
    ((run init dupOps).pages.map (fun p => (p.id, p.net, p.pgno, p.subno, p.pri, p.tag)))
      = [(3, 0, 0x101, 0x102, .normal, 4), (1, 0, 0x101, 0x102, .normal, 2)] := by
  decide +kernel

/-- `k` pairs of such puts -/
def pairOps : Nat → Nat → List Op
  | 0, _ => []
  | k + 1, h => .put 0 ⟨0x101, 1, 0, 0, 0, 2 * h⟩ :: .unref (2 * h) :: .put 0 ⟨0x101, 0x102, 0, 0, 0, 2 * h + 1⟩
      :: .unref (2 * h + 1) :: pairOps k (h + 1)

set_option maxRecDepth 1000000 in
/-- 81 pairs: 81 retrievable copies of one page number (cache.c asserts `n_subpages <= 80` under
    CACHE_CONSISTENCY), all under the same (network, page, subpage) key -/
theorem page_bound_witness :
    ((run init (.addNet :: pairOps 81 0)).nets.map (fun n => ((n.getStat 0x101).nSub,
        (run init (.addNet :: pairOps 81 0)).pages.countP (fun p => p.net = n.id ∧ p.pgno = 0x101 ∧ p.subno = 0x102
          ∧ p.pri ≠ .zombie)))) = [(81, 81)] := by
  decide +kernel

/-- latent (memory limit is a constant in 0.2): with a limit that leaves exactly the size difference free,
    `_vbi_cache_put_page` reuses a smaller struct for a larger page (`memcpy` past the allocation) -/
def reuseOps : List Op :=
  [.addNet, .put 0 ⟨0x101, 0, 9, 0, 0, 1⟩, .unref 0, .setLimit (1196 + 368), .put 0 ⟨0x101, 0, 0, 0, 0, 2⟩]

set_option maxRecDepth 100000 in
theorem put_reuse_overflow_witness :
    (step (run init (reuseOps.take 4)) (.put 0 ⟨0x101, 0, 0, 0, 0, 2⟩)).2 = .err (.oob "put_reuse_memcpy") := by
  decide +kernel

end Zvbi.Cache
