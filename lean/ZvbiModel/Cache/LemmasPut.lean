import ZvbiModel.Cache.LemmasGet
/-!
# _vbi_cache_put_page
-/
namespace Zvbi.Cache

/-- what `insertNew` does to the record of the page's network -/
def addPageNet (pg subno : Nat) (n : Net) : Net :=
  let n : Net := { n with nRef := n.nRef + 1, zombie := false, nCached := n.nCached + 1 }
  let n : Net := if n.nCached > n.maxCached then { n with maxCached := n.nCached } else n
  let ps := n.getStat pg
  let ps : PStat := { ps with nSub := (ps.nSub + 1) % 65536 }
  let ps : PStat := if ps.nSub > ps.maxSub then { ps with maxSub := ps.nSub } else ps
  let ps : PStat := if ps.nSub = 1 ∨ subno < ps.subMin then { ps with subMin := subno % 65536 } else ps
  let ps : PStat := if ps.nSub = 1 ∨ subno > ps.subMax then { ps with subMax := subno % 65536 } else ps
  n.setStat pg ps

theorem addPageNet_id (pg subno : Nat) (n : Net) : (addPageNet pg subno n).id = n.id := by
  unfold addPageNet; simp only; split <;> rfl
theorem addPageNet_nCached (pg subno : Nat) (n : Net) : (addPageNet pg subno n).nCached = n.nCached + 1 := by
  unfold addPageNet; simp only; split <;> rfl
theorem addPageNet_nRef (pg subno : Nat) (n : Net) : (addPageNet pg subno n).nRef = n.nRef + 1 := by
  unfold addPageNet; simp only; split <;> rfl
theorem addPageNet_ref (pg subno : Nat) (n : Net) : (addPageNet pg subno n).ref = n.ref := by
  unfold addPageNet; simp only; split <;> rfl
theorem addPageNet_zombie (pg subno : Nat) (n : Net) : (addPageNet pg subno n).zombie = false := by
  unfold addPageNet; simp only; split <;> rfl
theorem addPageNet_nSub (pg subno pg' : Nat) (n : Net) : ((addPageNet pg subno n).getStat pg').nSub
    = if pg' = pg then ((n.getStat pg).nSub + 1) % 65536 else (n.getStat pg').nSub := by
  unfold addPageNet; simp only [getStat_setStat]
  split
  · split <;> split <;> split <;> split <;> rfl
  · split <;> rfl

/-- a new referenced page of network `n` enters the cache -/
theorem addPage_invW {s : State} (h : InvW s) {n : Net} (hn : n ∈ s.nets) (p : Page)
    (hpid : p.id = s.nextPid) (hpnet : p.net = n.id) (hpref : p.ref = 1) (subno : Nat) :
    InvW { s with pages := p :: s.pages, nextPid := s.nextPid + 1, referenced := s.referenced ++ [p.id],
                  nets := updNid s.nets n.id (addPageNet p.pgno subno), nCachedPages := s.nCachedPages + 1,
                  nCachedNets := s.nCachedNets + (if n.zombie then 1 else 0) } := by
  have hfresh : ∀ q ∈ s.pages, q.id ≠ p.id := fun q hq e => by have := h.pidLt q hq; omega
  have hmemnet : ∀ n', n' ∈ updNid s.nets n.id (addPageNet p.pgno subno) ↔
      ∃ m ∈ s.nets, n' = if m.id = n.id then addPageNet p.pgno subno m else m := fun n' => mem_updNid
  have hid : ∀ m : Net, (if m.id = n.id then addPageNet p.pgno subno m else m).id = m.id := by
    intro m; split
    · exact addPageNet_id _ _ _
    · rfl
  have hm : ∀ m ∈ s.nets, m.id = n.id → m = n := fun m hm e => net_unique h.nidNodup hm hn e
  constructor
  · show IdsNodup (p :: s.pages); rw [idsNodup_cons]; exact ⟨hfresh, h.pidNodup⟩
  · intro q hq; show q.id < s.nextPid + 1
    rcases List.mem_cons.1 hq with rfl | hq
    · omega
    · have := h.pidLt q hq; omega
  · exact h.priNodup
  · show (s.referenced ++ [p.id]).Nodup
    refine nodup_append_singleton h.refNodup ?_
    intro hc; obtain ⟨q, hq, e, _⟩ := (h.refMem p.id).1 hc; exact hfresh q hq e
  · intro id; show id ∈ s.priority ↔ ∃ q ∈ p :: s.pages, _
    rw [h.priMem]; constructor
    · rintro ⟨q, hq, e⟩; exact ⟨q, List.mem_cons_of_mem _ hq, e⟩
    · rintro ⟨q, hq, e1, e2⟩
      rcases List.mem_cons.1 hq with rfl | hq
      · omega
      · exact ⟨q, hq, e1, e2⟩
  · intro id; show id ∈ s.referenced ++ [p.id] ↔ ∃ q ∈ p :: s.pages, _
    rw [List.mem_append, h.refMem, List.mem_singleton]; constructor
    · rintro (⟨q, hq, e⟩ | rfl)
      · exact ⟨q, List.mem_cons_of_mem _ hq, e⟩
      · exact ⟨p, List.mem_cons_self, rfl, by omega⟩
    · rintro ⟨q, hq, e1, e2⟩
      rcases List.mem_cons.1 hq with rfl | hq
      · right; exact e1.symm
      · left; exact ⟨q, hq, e1, e2⟩
  · intro q hq hz
    rcases List.mem_cons.1 hq with rfl | hq
    · omega
    · exact h.zombieRef q hq hz
  · show ((updNid s.nets n.id (addPageNet p.pgno subno)).map (·.id)).Nodup
    rw [map_id_updNid (fun m => addPageNet_id _ _ m)]; exact h.nidNodup
  · intro n' hn'; obtain ⟨m, hm', rfl⟩ := (hmemnet n').1 hn'
    rw [hid]; exact h.nidLt m hm'
  · intro q hq
    rcases List.mem_cons.1 hq with rfl | hq
    · exact ⟨_, (hmemnet _).2 ⟨n, hn, rfl⟩, by rw [hid, hpnet]⟩
    · obtain ⟨m, hm', e⟩ := h.netOf q hq
      exact ⟨_, (hmemnet _).2 ⟨m, hm', rfl⟩, by rw [hid]; exact e⟩
  · intro n' hn'; obtain ⟨m, hm', rfl⟩ := (hmemnet n').1 hn'
    show _ = (p :: s.pages).countP _
    rw [hid, List.countP_cons]
    have h1 := h.nCached m hm'
    split <;> rename_i e
    · have := hm m hm' e; subst this
      rw [addPageNet_nCached]; simp only [hpnet, decide_true, if_true]; omega
    · have : ¬ p.net = m.id := fun x => e (hpnet ▸ x).symm
      simp only [this, decide_false, Bool.false_eq_true, if_false]; omega
  · intro n' hn'; obtain ⟨m, hm', rfl⟩ := (hmemnet n').1 hn'
    show _ = (p :: s.pages).countP _
    rw [hid, List.countP_cons]
    have h1 := h.nRef m hm'
    split <;> rename_i e
    · have := hm m hm' e; subst this
      rw [addPageNet_nRef]; simp only [hpnet, hpref, true_and, Nat.lt_add_one, decide_true, if_true]; omega
    · have : ¬ p.net = m.id := fun x => e (hpnet ▸ x).symm
      simp only [this, false_and, decide_false, Bool.false_eq_true, if_false]; omega
  · intro n' hn' pg; obtain ⟨m, hm', rfl⟩ := (hmemnet n').1 hn'
    show _ = (p :: s.pages).countP _ % 65536
    rw [hid, List.countP_cons]
    have h1 := h.nSub m hm' pg
    split <;> rename_i e
    · have := hm m hm' e; subst this
      rw [addPageNet_nSub]
      split <;> rename_i e2
      · simp only [hpnet, e2, and_self, decide_true, if_true]; rw [← e2]; omega
      · have : ¬ p.pgno = pg := fun x => e2 x.symm
        simp only [this, and_false, decide_false, Bool.false_eq_true, if_false]; omega
    · have : ¬ p.net = m.id := fun x => e (hpnet ▸ x).symm
      simp only [this, false_and, decide_false, Bool.false_eq_true, if_false]; omega
  · show s.nCachedPages + 1 = (p :: s.pages).length
    rw [List.length_cons, h.nPages]
  · show s.memUsed = fsum (fun q => decide (q.ref = 0)) Page.size (p :: s.pages)
    rw [fsum_cons]
    have : ¬ p.ref = 0 := by omega
    simp only [this, decide_false, Bool.false_eq_true, if_false]
    have := h.mem; unfold fsum; omega
  · show s.nCachedNets + _ = (updNid s.nets n.id (addPageNet p.pgno subno)).countP _
    have key := countP_updNid_one h.nidNodup hn (addPageNet p.pgno subno) (fun n => !n.zombie)
    have := h.nNets
    simp only [addPageNet_zombie, Bool.not_false, if_true] at key
    by_cases hz : n.zombie = true
    · simp only [hz, Bool.not_true, Bool.false_eq_true, if_false, if_true] at key ⊢; omega
    · have hz' : n.zombie = false := by simpa using hz
      simp only [hz', Bool.not_false, if_true, Bool.false_eq_true, if_false] at key ⊢; omega

end Zvbi.Cache

namespace Zvbi.Cache

theorem State.eq_of_fields {s t : State} (e1 : s.pages = t.pages) (e2 : s.priority = t.priority)
    (e3 : s.referenced = t.referenced) (e4 : s.nets = t.nets) (e5 : s.nCachedPages = t.nCachedPages)
    (e6 : s.memUsed = t.memUsed) (e7 : s.memLimit = t.memLimit) (e8 : s.nCachedNets = t.nCachedNets)
    (e9 : s.nNetsLimit = t.nNetsLimit) (e10 : s.nextPid = t.nextPid) (e11 : s.nextNid = t.nextNid) : s = t := by
  cases s; cases t; simp only at *; subst e1 e2 e3 e4 e5 e6 e7 e8 e9 e10 e11; rfl

theorem updNid_congr {l : List Net} {x : Nat} {f g : Net → Net} (h : ∀ m ∈ l, m.id = x → f m = g m) :
    updNid l x f = updNid l x g := by
  unfold updNid; apply List.map_congr_left; intro m hm
  by_cases e : m.id = x
  · simp [e, h m hm e]
  · simp [e]

theorem updNid_id_of_eq {l : List Net} {x : Nat} {f : Net → Net} (h : ∀ m ∈ l, m.id = x → f m = m) : updNid l x f = l := by
  unfold updNid; conv => rhs; rw [← List.map_id l]
  apply List.map_congr_left; intro m hm
  by_cases e : m.id = x
  · simp [e, h m hm e]
  · simp [e]

theorem net_zombie_false_eta (m : Net) (h : m.zombie = false) : ({ m with zombie := false } : Net) = m := by
  cases m; simp only at h; subst h; rfl

theorem unzombieNet_eq {s : State} (hnd : NidsNodup s.nets) {n : Net} (hn : n ∈ s.nets) :
    s.unzombieNet n.id = { s with nets := updNid s.nets n.id (fun m => { m with zombie := false }),
                                  nCachedNets := s.nCachedNets + (if n.zombie then 1 else 0) } := by
  unfold State.unzombieNet
  rw [show s.findNet n.id = some n from findNet_of_mem hnd hn]
  simp only
  split
  · rfl
  · rename_i hz
    have hz' : n.zombie = false := by simpa using hz
    apply State.eq_of_fields <;> try rfl
    · show s.nets = updNid s.nets n.id _
      rw [updNid_id_of_eq]
      intro m hm e
      have : m = n := net_unique hnd hm hn e
      subst this; exact net_zombie_false_eta m hz'

/-- what `cache_network_add_page` does to the network record after the zombie check -/
def netAddFn (pg subno : Nat) (n : Net) : Net :=
  let n : Net := { n with nCached := n.nCached + 1 }
  let n : Net := if n.nCached > n.maxCached then { n with maxCached := n.nCached } else n
  let ps := n.getStat pg
  let ps : PStat := { ps with nSub := (ps.nSub + 1) % 65536 }
  let ps : PStat := if ps.nSub > ps.maxSub then { ps with maxSub := ps.nSub } else ps
  let ps : PStat := if ps.nSub = 1 ∨ subno < ps.subMin then { ps with subMin := subno % 65536 } else ps
  let ps : PStat := if ps.nSub = 1 ∨ subno > ps.subMax then { ps with subMax := subno % 65536 } else ps
  n.setStat pg ps

theorem netAddPage_eq {s : State} (hnd : NidsNodup s.nets) {n : Net} (hn : n ∈ s.nets) (pg subno : Nat) :
    s.netAddPage n.id pg subno =
      { s with nets := updNid s.nets n.id (fun m => netAddFn pg subno { m with zombie := false }),
               nCachedNets := s.nCachedNets + (if n.zombie then 1 else 0) } := by
  unfold State.netAddPage
  simp only
  rw [unzombieNet_eq hnd hn]
  apply State.eq_of_fields <;> try rfl
  show updNid (updNid s.nets n.id _) n.id _ = _
  rw [updNid_updNid _ _ (fun m => ({ m with zombie := false } : Net)) _ (fun _ => rfl)]
  rfl

/-- `insertNew` in the form of `addPage_invW` -/
theorem insertNew_eq {s : State} (hnd : NidsNodup s.nets) {n : Net} (hn : n ∈ s.nets) (a : PutArg) (subno : Nat) :
    (s.insertNew n.id a subno).1 =
      { s with pages := (s.insertNew n.id a subno).2 :: s.pages, nextPid := s.nextPid + 1,
               referenced := s.referenced ++ [(s.insertNew n.id a subno).2.id],
               nets := updNid s.nets n.id (addPageNet a.pgno subno),
               nCachedNets := s.nCachedNets + (if n.zombie then 1 else 0) } := by
  have hn1 : ({ n with nRef := n.nRef + 1 } : Net) ∈ updNid s.nets n.id (fun n => { n with nRef := n.nRef + 1 }) :=
    mem_updNid.2 ⟨n, hn, by rw [if_pos rfl]⟩
  have hnd1 : NidsNodup (updNid s.nets n.id (fun n => { n with nRef := n.nRef + 1 })) := by
    show (List.map _ _).Nodup
    rw [map_id_updNid (f := fun n => { n with nRef := n.nRef + 1 }) (fun _ => rfl)]; exact hnd
  have e : (s.insertNew n.id a subno).1 = State.netAddPage
      { s with pages := (s.insertNew n.id a subno).2 :: s.pages, nextPid := s.nextPid + 1,
               referenced := s.referenced ++ [(s.insertNew n.id a subno).2.id],
               nets := updNid s.nets n.id (fun n => { n with nRef := n.nRef + 1 }) }
      ({ n with nRef := n.nRef + 1 } : Net).id a.pgno subno := rfl
  rw [e, netAddPage_eq hnd1 hn1]
  apply State.eq_of_fields <;> try rfl
  show updNid (updNid s.nets n.id _) n.id _ = _
  rw [updNid_updNid _ _ (fun n => ({ n with nRef := n.nRef + 1 } : Net)) _ (fun _ => rfl)]
  rfl

theorem insertNew_page (s : State) (nid : Nat) (a : PutArg) (subno : Nat) :
    (s.insertNew nid a subno).2.id = s.nextPid ∧ (s.insertNew nid a subno).2.net = nid
    ∧ (s.insertNew nid a subno).2.pgno = a.pgno ∧ (s.insertNew nid a subno).2.subno = subno
    ∧ (s.insertNew nid a subno).2.func = a.func ∧ (s.insertNew nid a subno).2.x26 = a.x26
    ∧ (s.insertNew nid a subno).2.x28 = a.x28 ∧ (s.insertNew nid a subno).2.tag = a.tag
    ∧ (s.insertNew nid a subno).2.ref = 1 ∧ (s.insertNew nid a subno).2.pri = putPri a.pgno subno a.func :=
  ⟨rfl, rfl, rfl, rfl, rfl, rfl, rfl, rfl, rfl, rfl⟩

/-- the new page enters an invariant state whose page counter was already incremented -/
theorem insertNew_invW {s : State} (h : InvW s) {n : Net} (hn : n ∈ s.nets) (a : PutArg) (subno : Nat) :
    InvW (({ s with nCachedPages := s.nCachedPages + 1 } : State).insertNew n.id a subno).1 := by
  rw [insertNew_eq (s := { s with nCachedPages := s.nCachedPages + 1 }) h.nidNodup hn]
  exact addPage_invW h hn _ rfl rfl rfl subno

end Zvbi.Cache
