import ZvbiModel.Cache.LemmasAbs
/-!
# _vbi_cache_put_page against the abstract store (no memory pressure)
-/
namespace Zvbi.Cache
open Zvbi.Gen.Cache

theorem insertNew_pages (s : State) (nid : Nat) (a : PutArg) (subno : Nat) :
    (s.insertNew nid a subno).1.pages = (s.insertNew nid a subno).2 :: s.pages := by
  unfold State.insertNew State.netAddPage State.unzombieNet
  simp only
  split
  · split <;> rfl
  · rfl

theorem putPri_ne_zombie (pgno subno : Nat) (func : Int) : putPri pgno subno func ≠ .zombie := by
  unfold putPri; split
  · simp
  · split
    · simp
    · split
      · simp
      · split
        · simp
        · split <;> simp

/-- the entry a put stores -/
def putEntry (nid : Nat) (a : PutArg) (subno : Nat) : Entry :=
  { net := nid, pgno := a.pgno, subno := subno, func := a.func, x26 := a.x26, x28 := a.x28, tag := a.tag }

theorem insertNew_abs (s : State) (nid : Nat) (a : PutArg) (subno : Nat) :
    (s.insertNew nid a subno).1.abs = putEntry nid a subno :: s.abs
    ∧ (s.insertNew nid a subno).2.entry = putEntry nid a subno := by
  rw [abs_eq, insertNew_pages, absL_cons]
  have : (s.insertNew nid a subno).2.pri ≠ .zombie := putPri_ne_zombie _ _ _
  rw [if_pos this]
  exact ⟨rfl, rfl⟩

theorem absL_rmId_head {p : Page} {l : List Page} : rmId (p :: rmId l p.id) p.id = rmId l p.id := by
  rw [rmId_cons, if_pos rfl]
  exact rmId_of_not_mem (fun q hq => (mem_rmId.1 hq).2)

/-- `putReplace` when the death row is empty or holds just the replaced version at the head of the chain -/
theorem putReplace_abs {s : State} (nid : Nat) (a : PutArg) (subno : Nat) (avail : Int) (row : List Nat) (base : List Page)
    (hrow : (row = [] ∧ base = s.pages) ∨ (∃ o, row = [o.id] ∧ s.pages = o :: base ∧ o.ref = 0 ∧ (∀ q ∈ base, q.id ≠ o.id)))
    {s' : State} {r : Option Page} (hres : s.putReplace nid a subno avail row = .ok (s', r)) :
    s'.abs = putEntry nid a subno :: absL base ∧ r.map Page.entry = some (putEntry nid a subno) := by
  unfold State.putReplace at hres
  simp only at hres
  rcases hrow with ⟨rfl, rfl⟩ | ⟨o, rfl, hpages, ho, hfresh⟩
  · -- nothing to replace
    simp only [List.length_nil, Nat.zero_ne_one, and_false, if_false, List.nodup_nil, not_true_eq_false,
      List.foldl_nil, Except.ok.injEq, Prod.mk.injEq] at hres
    obtain ⟨rfl, rfl⟩ := hres
    obtain ⟨e1, e2⟩ := insertNew_abs ({ s with nCachedPages := s.nCachedPages + 1 } : State) nid a subno
    exact ⟨e1, congrArg some e2⟩
  · have hfind : s.findPage o.id = some o := by unfold State.findPage; rw [hpages]; simp
    have hrm : rmId s.pages o.id = base := by
      rw [hpages, rmId_cons, if_pos rfl]; exact rmId_of_not_mem hfresh
    split at hres
    · -- the struct of the replaced version is reused
      simp only [List.head?_cons, Option.bind_eq_bind, Option.bind_some, hfind] at hres
      split at hres
      · cases hres
      · simp only [Except.ok.injEq, Prod.mk.injEq] at hres
        obtain ⟨rfl, rfl⟩ := hres
        obtain ⟨e1, e2⟩ := insertNew_abs ({ ((s.unlinkPri o.id).dropPage o.id).netRemovePage o.net o.pgno with
              memUsed := (((s.unlinkPri o.id).dropPage o.id).netRemovePage o.net o.pgno).memUsed
                - (Int.toNat (pageSize a.func a.x26 a.x28 : Int)) } : State) nid a subno
        refine ⟨?_, congrArg some e2⟩
        rw [e1, abs_eq]
        show _ :: absL (rmId s.pages o.id) = _
        rw [hrm]
    · simp only [List.nodup_cons, List.not_mem_nil, not_false_eq_true, List.nodup_nil, and_self, not_true_eq_false,
        if_false, List.foldl_cons, List.foldl_nil, Except.ok.injEq, Prod.mk.injEq] at hres
      obtain ⟨rfl, rfl⟩ := hres
      obtain ⟨e1, e2⟩ := insertNew_abs ({ s.deletePage o.id with nCachedPages := (s.deletePage o.id).nCachedPages + 1 } : State) nid a subno
      refine ⟨?_, congrArg some e2⟩
      rw [e1, abs_eq]
      show _ :: absL (s.deletePage o.id).pages = _
      have : (s.deletePage o.id).pages = rmId s.pages o.id := by
        unfold State.deletePage; rw [hfind]; simp only
        rw [if_neg (by omega)]; exact freePage_pages s o
      rw [this, hrm]

/-- death row (not extended: there is room) and replacement -/
theorem putAfterVictim_abs {sv : State} (nid : Nat) (a : PutArg) (k1 : Nat) (oldId : Option Nat) (avail : Int)
    (row : List Nat) (base : List Page) (havail : avail ≥ (pageSize a.func a.x26 a.x28 : Int))
    (hrow : (row = [] ∧ base = sv.pages) ∨ (∃ o, row = [o.id] ∧ sv.pages = o :: base ∧ o.ref = 0 ∧ (∀ q ∈ base, q.id ≠ o.id)))
    {s' : State} {r : Option Page}
    (hres : ((match collectAll sv oldId (pageSize a.func a.x26 a.x28 : Int) avail row with
      | .error e => .error e
      | .ok none => .ok (sv, none)
      | .ok (some (avail, row)) => sv.putReplace nid a k1 avail row) : Except Err (State × Option Page)) = .ok (s', r)) :
    s'.abs = putEntry nid a k1 :: absL base ∧ r.map Page.entry = some (putEntry nid a k1) := by
  rw [collectAll_room havail] at hres
  exact putReplace_abs nid a k1 avail row base hrow hres

theorem putVictim_cases (s : State) (old : Option Page) (avail : Int) :
    (old = none ∧ s.putVictim old avail = (s, none, avail, []))
    ∨ (∃ o, old = some o ∧ o.ref > 0 ∧ s.putVictim old avail = (s.updPage o.id (fun p => { p with pri := .zombie }), none, avail, []))
    ∨ (∃ o, old = some o ∧ o.ref = 0 ∧ s.putVictim old avail = (s, some o.id, avail + o.size, [o.id])) := by
  unfold State.putVictim
  cases old with
  | none => exact Or.inl ⟨rfl, rfl⟩
  | some o =>
    by_cases hr : o.ref > 0
    · exact Or.inr (Or.inl ⟨o, rfl, hr, by simp [hr]⟩)
    · exact Or.inr (Or.inr ⟨o, rfl, by omega, by simp [hr]⟩)

theorem pageByPgno_cases (s : State) (nid pgno subno mask : Nat) :
    (s.pages.find? (pageMatch nid pgno subno mask) = none ∧ s.pageByPgno nid pgno subno mask = (s, none))
    ∨ (∃ o, s.pages.find? (pageMatch nid pgno subno mask) = some o
        ∧ s.pageByPgno nid pgno subno mask = ({ s with pages := o :: rmId s.pages o.id }, some o)) := by
  unfold State.pageByPgno
  cases hf : s.pages.find? (pageMatch nid pgno subno mask) with
  | none => exact Or.inl ⟨rfl, rfl⟩
  | some o => exact Or.inr ⟨o, rfl, rfl⟩

/-- `putTail` from the death row on -/
def afterVictim (nid : Nat) (a : PutArg) (k1 : Nat) (v : State × Option Nat × Int × List Nat) : Except Err (State × Option Page) :=
  match collectAll v.1 v.2.1 (pageSize a.func a.x26 a.x28 : Int) v.2.2.1 v.2.2.2 with
  | .error e => .error e
  | .ok none => .ok (v.1, none)
  | .ok (some (avail, row)) => v.1.putReplace nid a k1 avail row

theorem putTail_eq (s : State) (nid : Nat) (a : PutArg) (k1 k2 : Nat) (avail0 : Int) :
    s.putTail nid a k1 k2 avail0 = afterVictim nid a k1
      ((s.pageByPgno nid a.pgno (k1 &&& k2) k2).1.putVictim (s.pageByPgno nid a.pgno (k1 &&& k2) k2).2 avail0) := rfl

theorem afterVictim_abs {sv : State} (nid : Nat) (a : PutArg) (k1 : Nat) (oldId : Option Nat) (avail : Int)
    (row : List Nat) (base : List Page) (havail : avail ≥ (pageSize a.func a.x26 a.x28 : Int))
    (hrow : (row = [] ∧ base = sv.pages) ∨ (∃ o, row = [o.id] ∧ sv.pages = o :: base ∧ o.ref = 0 ∧ (∀ q ∈ base, q.id ≠ o.id)))
    {s' : State} {r : Option Page} (hres : afterVictim nid a k1 (sv, oldId, avail, row) = .ok (s', r)) :
    s'.abs = putEntry nid a k1 :: absL base ∧ r.map Page.entry = some (putEntry nid a k1) :=
  putAfterVictim_abs nid a k1 oldId avail row base havail hrow hres

theorem aput_eq (x : AStore) (nid : Nat) (a : PutArg) (k1 k2 : Nat) :
    aput x (putEntry nid a k1) k2 = (match extract (fun o : Entry => o.matches nid a.pgno (k1 &&& k2) k2) x with
      | some (_, r) => putEntry nid a k1 :: r
      | none => putEntry nid a k1 :: x) := rfl

/-- the part of `_vbi_cache_put_page` after the key was chosen, against the abstract store -/
theorem putTail_abs {s : State} (h : InvW s) (nid : Nat) (a : PutArg) (k1 k2 : Nat) (avail0 : Int)
    (havail : avail0 ≥ (pageSize a.func a.x26 a.x28 : Int))
    {s' : State} {r : Option Page} (hres : s.putTail nid a k1 k2 avail0 = .ok (s', r)) :
    s'.abs = (match extract (fun o : Entry => o.matches nid a.pgno (k1 &&& k2) k2) s.abs with
      | some (_, r) => putEntry nid a k1 :: r
      | none => putEntry nid a k1 :: s.abs) ∧ r.map Page.entry = some (putEntry nid a k1) := by
  rw [abs_eq s, extract_absL h.pidNodup]
  rw [putTail_eq] at hres
  rcases pageByPgno_cases s nid a.pgno (k1 &&& k2) k2 with ⟨hfo, hr0⟩ | ⟨o, hfo, hr0⟩
  · rw [hr0] at hres
    rw [hfo]
    rcases putVictim_cases s none avail0 with ⟨_, hv⟩ | ⟨o, ho, _⟩ | ⟨o, ho, _⟩
    · have hres' : afterVictim nid a k1 (s.putVictim none avail0) = .ok (s', r) := hres
      rw [hv] at hres'
      exact afterVictim_abs nid a k1 none avail0 [] s.pages havail (Or.inl ⟨rfl, rfl⟩) hres'
    · cases ho
    · cases ho
  · rw [hr0] at hres
    rw [hfo]
    have hom : o ∈ s.pages := List.mem_of_find?_eq_some hfo
    show _ = putEntry nid a k1 :: absL (rmId s.pages o.id) ∧ _
    have hres' : afterVictim nid a k1 (({ s with pages := o :: rmId s.pages o.id } : State).putVictim (some o) avail0)
        = .ok (s', r) := hres
    rcases putVictim_cases ({ s with pages := o :: rmId s.pages o.id } : State) (some o) avail0 with ⟨ho, _⟩ | ⟨o', ho, hr, hv⟩ | ⟨o', ho, hr, hv⟩
    · cases ho
    · cases ho
      rw [hv] at hres'
      obtain ⟨t1, t2⟩ := afterVictim_abs nid a k1 none avail0 [] _ havail (Or.inl ⟨rfl, rfl⟩) hres'
      refine ⟨?_, t2⟩
      rw [t1]
      congr 1
      have e0 : (({ s with pages := o :: rmId s.pages o.id } : State).updPage o.id (fun p => { p with pri := .zombie })).pages
          = updId (o :: rmId s.pages o.id) o.id (fun p => { p with pri := .zombie }) := rfl
      rw [e0]
      have : updId (o :: rmId s.pages o.id) o.id (fun p => { p with pri := .zombie })
          = { o with pri := .zombie } :: rmId s.pages o.id := by
        show (if o.id = o.id then _ else o) :: updId (rmId s.pages o.id) o.id _ = _
        rw [if_pos rfl, updId_of_not_mem (fun q hq => (mem_rmId.1 hq).2)]
      rw [this, absL_cons]; simp
    · cases ho
      rw [hv] at hres'
      have havail2 : avail0 + (o.size : Int) ≥ (pageSize a.func a.x26 a.x28 : Int) := by omega
      exact afterVictim_abs nid a k1 (some o.id) _ [o.id] (rmId s.pages o.id) havail2
        (Or.inr ⟨o, rfl, rfl, hr, fun q hq => (mem_rmId.1 hq).2⟩) hres'

/-- `_vbi_cache_put_page` against the abstract store, when memory is not short: the version found
    under the key of `putKey` is replaced, the new version is the most recent one and is handed out -/
theorem putPage_abs {s : State} (h : InvW s) {nid : Nat} {cn : Net} (hf : s.findNet nid = some cn) (a : PutArg)
    (hlow : a.pgno &&& 0xFF ≠ 0xFF) (hrange : 0x100 ≤ a.pgno ∧ a.pgno ≤ 0x8FF)
    (hroom : s.memUsed + pageSize a.func a.x26 a.x28 ≤ s.memLimit)
    {s' : State} {r : Option Page} (hres : s.putPage nid a = .ok (s', r)) :
    s'.abs = aput s.abs (putEntry nid a (putKey (cn.getStat a.pgno).ptype a.pgno a.subno).1)
        (putKey (cn.getStat a.pgno).ptype a.pgno a.subno).2
    ∧ r.map Page.entry = some (putEntry nid a (putKey (cn.getStat a.pgno).ptype a.pgno a.subno).1) := by
  have havail : ((s.memLimit : Int) - s.memUsed) ≥ (pageSize a.func a.x26 a.x28 : Int) := by omega
  unfold State.putPage at hres
  split at hres
  · cases hres
  · rename_i cn' hf'
    have : cn' = cn := by rw [hf] at hf'; exact (Option.some.inj hf').symm
    subst this
    split at hres
    · rename_i hc; exact absurd hc hlow
    · split at hres
      · rename_i hc; omega
      · simp only at hres
        generalize putKey (cn'.getStat a.pgno).ptype a.pgno a.subno = K at hres ⊢
        rw [aput_eq]
        exact putTail_abs h nid a K.1 K.2 _ havail hres

end Zvbi.Cache
