import ZvbiModel.Cache.LemmasRef
/-!
# cache_page_unref of a zombie page (last reference): the page is freed
-/
namespace Zvbi.Cache

theorem rmId_updId {l : List Page} {x : Nat} {f : Page → Page} (hf : ∀ p, (f p).id = p.id) :
    rmId (updId l x f) x = rmId l x := by
  induction l with
  | nil => rfl
  | cons a t ih =>
    have : updId (a :: t) x f = (if a.id = x then f a else a) :: updId t x f := rfl
    rw [this, rmId_cons, rmId_cons, ih]
    by_cases h : a.id = x
    · simp [h, hf]
    · simp [h]

theorem updNid_updNid (l : List Net) (x : Nat) (f g : Net → Net) (hf : ∀ n, (f n).id = n.id) :
    updNid (updNid l x f) x g = updNid l x (fun n => g (f n)) := by
  unfold updNid; rw [List.map_map]; apply List.map_congr_left; intro n _
  by_cases h : n.id = x <;> simp [h, hf]

def rmZombieNet (pg : Nat) (n : Net) : Net := { rmPageNet pg n with nRef := n.nRef - 1 }
theorem rmZombieNet_id (pg : Nat) (n : Net) : (rmZombieNet pg n).id = n.id := rfl
theorem rmZombieNet_nCached (pg : Nat) (n : Net) : (rmZombieNet pg n).nCached = n.nCached - 1 := rfl
theorem rmZombieNet_nRef (pg : Nat) (n : Net) : (rmZombieNet pg n).nRef = n.nRef - 1 := rfl
theorem rmZombieNet_getStat (pg pg' : Nat) (n : Net) : (rmZombieNet pg n).getStat pg' = (rmPageNet pg n).getStat pg' := rfl

theorem unrefZombie_fields {s : State} (h : InvW s) {p : Page} (hp : p ∈ s.pages) (hz : p.pri = .zombie) :
    (s.unrefZombie p).pages = rmId s.pages p.id
    ∧ (s.unrefZombie p).priority = s.priority.filter (· ≠ p.id)
    ∧ (s.unrefZombie p).referenced = s.referenced.filter (· ≠ p.id)
    ∧ (s.unrefZombie p).nets = updNid s.nets p.net (rmZombieNet p.pgno)
    ∧ (s.unrefZombie p).memUsed = s.memUsed
    ∧ (s.unrefZombie p).nCachedPages = s.nCachedPages - 1
    ∧ (s.unrefZombie p).nCachedNets = s.nCachedNets
    ∧ (s.unrefZombie p).nextPid = s.nextPid
    ∧ (s.unrefZombie p).nextNid = s.nextNid
    ∧ (s.unrefZombie p).memLimit = s.memLimit := by
  have hmid := map_id_updId (l := s.pages) (x := p.id) (f := fun p => { p with ref := 0 }) (fun _ => rfl)
  have hfind : (s.updPage p.id (fun p => { p with ref := 0 })).findPage p.id = some { p with ref := 0 } := by
    have hm : ({ p with ref := 0 } : Page) ∈ (s.updPage p.id (fun p => { p with ref := 0 })).pages := by
      rw [updPage_pages]; exact mem_updId.2 ⟨p, hp, by rw [if_pos rfl]⟩
    have hn : IdsNodup (s.updPage p.id (fun p => { p with ref := 0 })).pages := by
      show (List.map _ _).Nodup; rw [updPage_pages, hmid]; exact h.pidNodup
    exact find_of_mem hn hm
  unfold State.unrefZombie
  simp only
  unfold State.deletePage
  rw [hfind]
  simp only [gt_iff_lt, Nat.lt_irrefl, if_false]
  refine ⟨?_, ?_, ?_, ?_, ?_, ?_, ?_, ?_, ?_, ?_⟩
  · show (State.freePage _ _).pages = _
    rw [freePage_pages, updPage_pages]; exact rmId_updId (fun _ => rfl)
  · show (State.freePage _ _).priority = _
    rw [freePage_priority]; rfl
  · show (State.freePage _ _).referenced = _
    rw [freePage_referenced]; rfl
  · show updNid (State.freePage _ _).nets _ _ = _
    rw [freePage_nets]
    show updNid (updNid s.nets p.net (rmPageNet p.pgno)) p.net _ = _
    rw [updNid_updNid _ _ (rmPageNet p.pgno) _ (fun _ => rfl)]; rfl
  · show (State.freePage _ _).memUsed = _
    rw [freePage_memUsed]; simp only [hz, ne_eq, not_true_eq_false, if_false]; rfl
  · show (State.freePage _ _).nCachedPages = _
    rw [freePage_nCachedPages]; rfl
  · show (State.freePage _ _).nCachedNets = _
    rw [freePage_nCachedNets]; rfl
  · show (State.freePage _ _).nextPid = _
    rw [freePage_nextPid]; rfl
  · show (State.freePage _ _).nextNid = _
    rw [freePage_nextNid]; rfl
  · show (State.freePage _ _).memLimit = _
    rw [freePage_memLimit]; rfl

theorem unrefZombie_invW {s : State} (h : InvW s) {p : Page} (hp : p ∈ s.pages) (hr : p.ref = 1) (hz : p.pri = .zombie) :
    InvW (s.unrefZombie p) := by
  obtain ⟨e1, e2, e3, e4, e5, e6, e7, e8, e9, _⟩ := unrefZombie_fields h hp hz
  have hmemnet : ∀ n', n' ∈ (s.unrefZombie p).nets ↔ ∃ n ∈ s.nets, n' = if n.id = p.net then rmZombieNet p.pgno n else n := by
    intro n'; rw [e4, mem_updNid]
  constructor
  · rw [e1]; exact idsNodup_rmId h.pidNodup _
  · intro q hq; rw [e1, mem_rmId] at hq; rw [e8]; exact h.pidLt q hq.1
  · rw [e2]; exact h.priNodup.filter _
  · rw [e3]; exact h.refNodup.filter _
  · intro id; rw [e2, e1, mem_filter_ne, h.priMem]
    constructor
    · rintro ⟨⟨q, hq, rfl, hq0⟩, hne⟩; exact ⟨q, mem_rmId.2 ⟨hq, hne⟩, rfl, hq0⟩
    · rintro ⟨q, hq, rfl, hq0⟩; rw [mem_rmId] at hq; exact ⟨⟨q, hq.1, rfl, hq0⟩, hq.2⟩
  · intro id; rw [e3, e1, mem_filter_ne, h.refMem]
    constructor
    · rintro ⟨⟨q, hq, rfl, hq0⟩, hne⟩; exact ⟨q, mem_rmId.2 ⟨hq, hne⟩, rfl, hq0⟩
    · rintro ⟨q, hq, rfl, hq0⟩; rw [mem_rmId] at hq; exact ⟨⟨q, hq.1, rfl, hq0⟩, hq.2⟩
  · intro q hq; rw [e1, mem_rmId] at hq; exact h.zombieRef q hq.1
  · rw [e4, map_id_updNid (f := rmZombieNet p.pgno) (fun _ => rfl)]; exact h.nidNodup
  · intro n' hn'; rw [hmemnet] at hn'; obtain ⟨n, hn, rfl⟩ := hn'
    rw [e9]; have := h.nidLt n hn; split
    · rw [rmZombieNet_id]; exact this
    · exact this
  · intro q hq; rw [e1, mem_rmId] at hq
    obtain ⟨n, hn, e⟩ := h.netOf q hq.1
    refine ⟨_, (hmemnet _).2 ⟨n, hn, rfl⟩, ?_⟩; split
    · rw [rmZombieNet_id]; exact e
    · exact e
  · intro n' hn'; rw [hmemnet] at hn'; obtain ⟨n, hn, rfl⟩ := hn'
    rw [e1]
    have h1 := h.nCached n hn
    split <;> rename_i e
    · have h2 := countP_rmId_pos h.pidNodup hp (P := fun q => decide (q.net = n.id)) (by simp [e])
      rw [rmZombieNet_id, rmZombieNet_nCached]; omega
    · have h2 := countP_rmId_neg h.pidNodup hp (P := fun q => decide (q.net = n.id)) (by simpa using fun x => e x.symm)
      omega
  · intro n' hn'; rw [hmemnet] at hn'; obtain ⟨n, hn, rfl⟩ := hn'
    rw [e1]
    have h1 := h.nRef n hn
    split <;> rename_i e
    · have h2 := countP_rmId_pos h.pidNodup hp (P := fun q => decide (q.net = n.id ∧ 0 < q.ref)) (by simp [e, hr])
      rw [rmZombieNet_id, rmZombieNet_nRef]; omega
    · have h2 := countP_rmId_neg h.pidNodup hp (P := fun q => decide (q.net = n.id ∧ 0 < q.ref))
        (by simpa using fun x => (e x.symm).elim)
      omega
  · intro n' hn' pg; rw [hmemnet] at hn'; obtain ⟨n, hn, rfl⟩ := hn'
    rw [e1]
    have h1 := h.nSub n hn pg
    split <;> rename_i e
    · rw [rmZombieNet_id, rmZombieNet_getStat, rmPageNet_getStat]
      split <;> rename_i e2
      · have h2 := countP_rmId_pos h.pidNodup hp (P := fun q => decide (q.net = n.id ∧ q.pgno = pg)) (by simp [e, e2])
        rw [← e2]; omega
      · have h2 := countP_rmId_neg h.pidNodup hp (P := fun q => decide (q.net = n.id ∧ q.pgno = pg))
            (by simpa using fun _ x => e2 x.symm)
        omega
    · have h2 := countP_rmId_neg h.pidNodup hp (P := fun q => decide (q.net = n.id ∧ q.pgno = pg))
            (by simpa using fun x => (e x.symm).elim)
      omega
  · rw [e6, e1]; have := length_rmId h.pidNodup hp; have := h.nPages; omega
  · rw [e5, e1]
    have h1 := h.mem
    have h2 := fsum_rmId_neg h.pidNodup hp (Q := fun q => decide (q.ref = 0)) Page.size (by simp [hr])
    unfold fsum at h2; omega
  · rw [e7, e4, countP_updNid (f := rmZombieNet p.pgno) (fun n => !n.zombie) (fun n => rfl)]; exact h.nNets

theorem unrefZombie_znet {s : State} (h : InvW s) (hz : ZNet s) {p : Page} (hp : p ∈ s.pages) (hzp : p.pri = .zombie) :
    ZNetOn (s.unrefZombie p) (fun i => i ≠ p.net) := by
  intro n' hn' hpp
  rw [(unrefZombie_fields h hp hzp).2.2.2.1] at hn'
  obtain ⟨n, hn, rfl⟩ := mem_updNid.1 hn'
  split
  · rename_i e; rw [if_pos e] at hpp; exact absurd e hpp
  · exact hz n hn trivial

end Zvbi.Cache
