import ZvbiModel.Cache.LemmasRef2
/-!
# page_by_pgno (move to front), cache_page_ref, cache_page_unref, _vbi_cache_get_page
-/
namespace Zvbi.Cache

theorem mem_moveFront {l : List Page} (h : IdsNodup l) {p : Page} (hp : p ∈ l) {q : Page} :
    q ∈ p :: rmId l p.id ↔ q ∈ l := by
  rw [List.mem_cons, mem_rmId]
  constructor
  · rintro (rfl | ⟨hq, _⟩)
    · exact hp
    · exact hq
  · intro hq
    by_cases e : q.id = p.id
    · left; exact mem_unique h hq hp e
    · right; exact ⟨hq, e⟩

theorem countP_moveFront {l : List Page} (h : IdsNodup l) {p : Page} (hp : p ∈ l) (P : Page → Bool) :
    (p :: rmId l p.id).countP P = l.countP P := by
  rw [List.countP_cons]
  by_cases c : P p = true
  · have := countP_rmId_pos h hp c; simp only [c, if_true]; omega
  · have c' : P p = false := by simpa using c
    have := countP_rmId_neg h hp c'; simp only [c', Bool.false_eq_true, if_false]; omega

/-- `add_head (hash_list, unlink_node (&cp->hash_node))` -/
theorem moveFront_invW {s : State} (h : InvW s) {p : Page} (hp : p ∈ s.pages) :
    InvW { s with pages := p :: rmId s.pages p.id } := by
  have hm : ∀ q, q ∈ p :: rmId s.pages p.id ↔ q ∈ s.pages := fun q => mem_moveFront h.pidNodup hp
  constructor
  · show IdsNodup (p :: rmId s.pages p.id)
    rw [idsNodup_cons]; exact ⟨fun q hq => (mem_rmId.1 hq).2, idsNodup_rmId h.pidNodup _⟩
  · intro q hq; exact h.pidLt q ((hm q).1 hq)
  · exact h.priNodup
  · exact h.refNodup
  · intro id; rw [h.priMem]; constructor
    · rintro ⟨q, hq, e⟩; exact ⟨q, (hm q).2 hq, e⟩
    · rintro ⟨q, hq, e⟩; exact ⟨q, (hm q).1 hq, e⟩
  · intro id; rw [h.refMem]; constructor
    · rintro ⟨q, hq, e⟩; exact ⟨q, (hm q).2 hq, e⟩
    · rintro ⟨q, hq, e⟩; exact ⟨q, (hm q).1 hq, e⟩
  · intro q hq; exact h.zombieRef q ((hm q).1 hq)
  · exact h.nidNodup
  · exact h.nidLt
  · intro q hq; exact h.netOf q ((hm q).1 hq)
  · intro n hn; show _ = (p :: rmId s.pages p.id).countP _; rw [countP_moveFront h.pidNodup hp]; exact h.nCached n hn
  · intro n hn; show _ = (p :: rmId s.pages p.id).countP _; rw [countP_moveFront h.pidNodup hp]; exact h.nRef n hn
  · intro n hn pg; show _ = (p :: rmId s.pages p.id).countP _ % 65536; rw [countP_moveFront h.pidNodup hp]; exact h.nSub n hn pg
  · show _ = (p :: rmId s.pages p.id).length
    rw [List.length_cons, length_rmId h.pidNodup hp]; exact h.nPages
  · show _ = fsum (fun q => decide (q.ref = 0)) Page.size (p :: rmId s.pages p.id)
    rw [fsum_cons]
    have h1 : s.memUsed = fsum (fun q => decide (q.ref = 0)) Page.size s.pages := h.mem
    by_cases c : p.ref = 0
    · have := fsum_rmId_pos h.pidNodup hp (Q := fun q => decide (q.ref = 0)) Page.size (by simp [c])
      simp only [c, decide_true, if_true]; omega
    · have := fsum_rmId_neg h.pidNodup hp (Q := fun q => decide (q.ref = 0)) Page.size (by simp [c])
      simp only [c, decide_false, Bool.false_eq_true, if_false]; omega
  · exact h.nNets

/-- `page_by_pgno` -/
theorem pageByPgno_all {s : State} (h : InvW s) (nid pgno subno mask : Nat) :
    InvW (s.pageByPgno nid pgno subno mask).1
    ∧ (s.pageByPgno nid pgno subno mask).1.nets = s.nets
    ∧ (∀ q, q ∈ (s.pageByPgno nid pgno subno mask).1.pages ↔ q ∈ s.pages)
    ∧ (s.pageByPgno nid pgno subno mask).1.memUsed = s.memUsed
    ∧ (s.pageByPgno nid pgno subno mask).1.memLimit = s.memLimit
    ∧ (s.pageByPgno nid pgno subno mask).1.nNetsLimit = s.nNetsLimit
    ∧ (s.pageByPgno nid pgno subno mask).1.nextNid = s.nextNid
    ∧ (s.pageByPgno nid pgno subno mask).1.priority = s.priority
    ∧ (∀ p, (s.pageByPgno nid pgno subno mask).2 = some p →
        p ∈ s.pages ∧ pageMatch nid pgno subno mask p = true) := by
  unfold State.pageByPgno
  split
  · exact ⟨h, rfl, fun _ => Iff.rfl, rfl, rfl, rfl, rfl, rfl, fun p hp => by cases hp⟩
  · rename_i p hf
    have hp : p ∈ s.pages := List.mem_of_find?_eq_some hf
    refine ⟨moveFront_invW h hp, rfl, fun q => mem_moveFront h.pidNodup hp, rfl, rfl, rfl, rfl, rfl, ?_⟩
    intro q hq; cases hq; exact ⟨hp, List.find?_some hf⟩

theorem unzombieNet_fields (s : State) (x : Nat) :
    (s.unzombieNet x).pages = s.pages ∧ (s.unzombieNet x).priority = s.priority
    ∧ (s.unzombieNet x).referenced = s.referenced ∧ (s.unzombieNet x).memUsed = s.memUsed
    ∧ (s.unzombieNet x).memLimit = s.memLimit ∧ (s.unzombieNet x).nCachedPages = s.nCachedPages
    ∧ (s.unzombieNet x).nextPid = s.nextPid ∧ (s.unzombieNet x).nextNid = s.nextNid
    ∧ (s.unzombieNet x).nNetsLimit = s.nNetsLimit := by
  unfold State.unzombieNet
  split
  · split <;> exact ⟨rfl, rfl, rfl, rfl, rfl, rfl, rfl, rfl, rfl⟩
  · exact ⟨rfl, rfl, rfl, rfl, rfl, rfl, rfl, rfl, rfl⟩

/-- `cache_page_ref` -/
theorem pageRef_all {s : State} (h : InvW s) (hz : ZNet s) (id : Nat) :
    InvW (s.pageRef id) ∧ ZNet (s.pageRef id) ∧ (s.pageRef id).memUsed ≤ s.memUsed
      ∧ (s.pageRef id).memLimit = s.memLimit := by
  unfold State.pageRef
  split
  · exact ⟨h, hz, Nat.le_refl _, rfl⟩
  · rename_i p hf
    obtain ⟨hp, rfl⟩ := findPage_some hf
    simp only
    split
    · rename_i hr
      obtain ⟨h1, z1, _, _⟩ := unzombieNet_all h hz p.net
      obtain ⟨f1, _, _, f4, f5, _⟩ := unzombieNet_fields s p.net
      have hp1 : p ∈ (s.unzombieNet p.net).pages := by rw [f1]; exact hp
      refine ⟨refFirst_invW h1 hp1 hr, refFirst_znet z1 p _, ?_, ?_⟩
      · rw [(refFirst_fields _ p _).2.2.2.2.1, f4]; omega
      · show (s.unzombieNet p.net).memLimit = _; exact f5
    · rename_i hr
      refine ⟨updPage_invW_same h hp _ (fun _ => rfl) rfl rfl rfl (by simp; omega) (fun _ => Nat.succ_pos _), ?_,
        Nat.le_refl _, rfl⟩
      exact znet_of_key (updPage_netKey s p.id _) hz

theorem unrefNetCheck_all {s : State} (h : InvW s) (nid : Nat) (hz : ZNetOn s (fun i => i ≠ nid)) :
    InvW (s.unrefNetCheck nid) ∧ ZNet (s.unrefNetCheck nid) ∧ PStep s (s.unrefNetCheck nid) := by
  unfold State.unrefNetCheck
  split
  · rename_i n hf
    obtain ⟨hn, rfl⟩ := findNet_some' hf
    split
    · refine ⟨deleteNetwork_invW h n.id, ?_, deleteNetwork_pstep s n.id⟩
      intro m hm _
      exact deleteNetwork_znet h n.id hz m hm (by by_cases e : m.id = n.id; exact Or.inr e; exact Or.inl e)
    · rename_i hc
      refine ⟨h, ?_, PStep.refl s⟩
      intro m hm _
      by_cases e : m.id = n.id
      · have : m = n := net_unique h.nidNodup hm hn e
        subst this
        intro hzz
        by_cases c1 : 0 < m.ref
        · exact Or.inl c1
        · by_cases c2 : 0 < m.nRef
          · exact Or.inr c2
          · exact absurd ⟨hzz, by omega, by omega⟩ hc
      · exact hz m hm e
  · rename_i hf
    exact ⟨h, fun m hm _ => hz m hm (findNet_none hf m hm), PStep.refl s⟩

theorem memCheck_all {s : State} (h : InvW s) (hz : ZNet s) :
    InvW s.memCheck ∧ ZNet s.memCheck ∧ s.memCheck.memLimit = s.memLimit := by
  unfold State.memCheck
  split
  · have sh := deleteSurplusPages_shrinks s
    exact ⟨sh.invW h, znet_of_key sh.key hz, sh.limit⟩
  · exact ⟨h, hz, rfl⟩

/-- the tail of `cache_page_unref`: zombie-network check, memory check -/
theorem unrefTail_all {s : State} (h : InvW s) (nid : Nat) (hz : ZNetOn s (fun i => i ≠ nid)) :
    InvW (s.unrefTail nid) ∧ ZNet (s.unrefTail nid) ∧ (s.unrefTail nid).memLimit = s.memLimit := by
  obtain ⟨h1, z1, p1⟩ := unrefNetCheck_all h nid hz
  obtain ⟨h2, z2, l2⟩ := memCheck_all h1 z1
  exact ⟨h2, z2, l2.trans p1.limit⟩

/-- `cache_page_unref` -/
theorem pageUnref_all {s : State} (h : InvW s) (hz : ZNet s) (id : Nat) :
    InvW (s.pageUnref id) ∧ ZNet (s.pageUnref id) ∧ (s.pageUnref id).memLimit = s.memLimit := by
  unfold State.pageUnref
  split
  · exact ⟨h, hz, rfl⟩
  · rename_i p hf
    obtain ⟨hp, rfl⟩ := findPage_some hf
    split
    · exact ⟨h, hz, rfl⟩
    · split
      · rename_i hr1
        split
        · rename_i hzp
          obtain ⟨a, b, c⟩ := unrefTail_all (unrefZombie_invW h hp hr1 hzp) p.net (unrefZombie_znet h hz hp hzp)
          exact ⟨a, b, c.trans (unrefZombie_fields h hp hzp).2.2.2.2.2.2.2.2.2⟩
        · rename_i hzp
          obtain ⟨a, b, c⟩ := unrefTail_all (unrefLast_invW h hp hr1 hzp) p.net (unrefLast_znet hz p)
          exact ⟨a, b, c⟩
      · rename_i hr0 hr1
        refine ⟨updPage_invW_same h hp _ (fun _ => rfl) rfl rfl rfl (by simp; omega) (fun _ => by show 0 < p.ref - 1; omega), ?_, rfl⟩
        exact znet_of_key (updPage_netKey s p.id _) hz

/-- `_vbi_cache_get_page` -/
theorem getPage_all {s : State} (h : InvW s) (hz : ZNet s) (nid pgno : Nat) (subno : Int) (mask : Nat) :
    InvW (s.getPage nid pgno subno mask).1 ∧ ZNet (s.getPage nid pgno subno mask).1
      ∧ (s.getPage nid pgno subno mask).1.memUsed ≤ s.memUsed
      ∧ (s.getPage nid pgno subno mask).1.memLimit = s.memLimit := by
  unfold State.getPage
  split
  · exact ⟨h, hz, Nat.le_refl _, rfl⟩
  · split
    · exact ⟨h, hz, Nat.le_refl _, rfl⟩
    · simp only
      obtain ⟨a, b, _, d, e, _⟩ := pageByPgno_all h nid pgno subno.toNat (if subno.toNat = Gen.Cache.anySubno then 0 else mask)
      generalize s.pageByPgno nid pgno subno.toNat (if subno.toNat = Gen.Cache.anySubno then 0 else mask) = r at a b d e
      obtain ⟨s1, o⟩ := r
      cases o with
      | none => exact ⟨a, znet_of_key (by rw [show s1.nets = s.nets from b]) hz, by rw [show s1.memUsed = _ from d]; exact Nat.le_refl _, e⟩
      | some p =>
        have z1 : ZNet s1 := znet_of_key (by rw [show s1.nets = s.nets from b]) hz
        obtain ⟨a2, b2, c2, d2⟩ := pageRef_all a z1 p.id
        exact ⟨a2, b2, by rw [show s1.memUsed = s.memUsed from d] at c2; exact c2, d2.trans e⟩

/-- the exact look-up of the page walk -/
theorem lookupExact_all {s : State} (h : InvW s) (hz : ZNet s) (nid pgno : Nat) (subno : Int) :
    InvW (s.lookupExact nid pgno subno).1 ∧ ZNet (s.lookupExact nid pgno subno).1
      ∧ (s.lookupExact nid pgno subno).1.memUsed ≤ s.memUsed
      ∧ (s.lookupExact nid pgno subno).1.memLimit = s.memLimit := by
  unfold State.lookupExact
  split
  · exact ⟨h, hz, Nat.le_refl _, rfl⟩
  · obtain ⟨a, b, _, d, e, _⟩ := pageByPgno_all h nid pgno subno.toNat 0xFFFFFFFF
    generalize s.pageByPgno nid pgno subno.toNat 0xFFFFFFFF = r at a b d e
    obtain ⟨s1, o⟩ := r
    cases o with
    | none => exact ⟨a, znet_of_key (by rw [show s1.nets = s.nets from b]) hz, by rw [show s1.memUsed = _ from d]; exact Nat.le_refl _, e⟩
    | some p =>
      have z1 : ZNet s1 := znet_of_key (by rw [show s1.nets = s.nets from b]) hz
      obtain ⟨a2, b2, c2, d2⟩ := pageRef_all a z1 p.id
      exact ⟨a2, b2, by rw [show s1.memUsed = s.memUsed from d] at c2; exact c2, d2.trans e⟩

end Zvbi.Cache
