import ZvbiModel.Cache.HiSub
import ZvbiModel.Cache.UniqueKey
/-!
# 'highest subpage' on the repaired source shape: the hypothesis `Tame` follows from a bound on client references

On the repaired shape at most 256 versions of one page number are retrievable (`version_bound_of_ukey`); every other
allocated version is a zombie, i.e. a replaced page somebody still holds a reference on (`InvW.zombieRef`).  So the
`uint16_t` counter `n_subpages` can only wrap when 65280 page references are held at the same time.
-/
namespace Zvbi.Cache

/-- allocated versions = retrievable versions + zombies, and zombies are referenced -/
theorem count_le_live_add_ref (nid pg : Nat) : ∀ (l : List Page), (∀ p ∈ l, p.pri = .zombie → 0 < p.ref) →
    l.countP (fun p => p.net = nid ∧ p.pgno = pg)
      ≤ l.countP (fun p => p.net = nid ∧ p.pgno = pg ∧ p.pri ≠ .zombie) + l.countP (fun p => 0 < p.ref) := by
  intro l
  induction l with
  | nil => intro _; simp
  | cons a t ih =>
    intro h
    have iht := ih (fun p hp => h p (List.mem_cons_of_mem _ hp))
    have ha := h a List.mem_cons_self
    simp only [List.countP_cons]
    by_cases c1 : a.net = nid ∧ a.pgno = pg
    · by_cases c2 : a.pri = .zombie
      · have c4 : 0 < a.ref := ha c2
        have c3 : ¬ (a.net = nid ∧ a.pgno = pg ∧ a.pri ≠ .zombie) := fun x => x.2.2 c2
        rw [if_pos (decide_eq_true c1), if_neg (by rw [decide_eq_true_eq]; exact c3), if_pos (decide_eq_true c4)]
        omega
      · have c3 : a.net = nid ∧ a.pgno = pg ∧ a.pri ≠ .zombie := ⟨c1.1, c1.2, c2⟩
        rw [if_pos (decide_eq_true c1), if_pos (decide_eq_true c3)]
        omega
    · have c3 : ¬ (a.net = nid ∧ a.pgno = pg ∧ a.pri ≠ .zombie) := fun x => c1 ⟨x.1, x.2.1⟩
      rw [if_neg (by rw [decide_eq_true_eq]; exact c1), if_neg (by rw [decide_eq_true_eq]; exact c3)]
      omega

/-- fewer than 65280 page references are held by clients (the Teletext decoder of libzvbi holds at most a handful) -/
def RefBound (s : State) : Prop := s.pages.countP (fun p => 0 < p.ref) + 256 < 65536

theorem nowrap_of_refbound {s : State} (h : InvW s) (hu : UKey s) (hb : RefBound s) : NoWrap s := by
  intro n _ pg
  have h1 := count_le_live_add_ref n.id pg s.pages h.zombieRef
  have h2 := version_bound_of_ukey h hu n.id pg
  unfold RefBound at hb
  omega

/-- repaired shape: a history is `Tame` when every state on the way holds fewer than 65280 page references -/
theorem tame_of_refbound : ∀ (ops : List Op) (s : State), Good s → UKey s →
    (∀ op ∈ ops, SubOk op) → (∀ k, 1 ≤ k → k ≤ ops.length → RefBound (runF true s (ops.take k))) → Tame true s ops := by
  intro ops
  induction ops with
  | nil => intro s _ _ _ _; trivial
  | cons op t ih =>
    intro s g hu h1 h2
    have g' := good_stepF true g op
    have hu' := ukey_stepR g hu op
    refine ⟨h1 op List.mem_cons_self, ?_, ih _ g' hu' (fun o ho => h1 o (List.mem_cons_of_mem _ ho)) ?_⟩
    · have := h2 1 (Nat.le_refl 1) (by simp)
      have e : runF true s (List.take 1 (op :: t)) = (stepF true s op).1 := rfl
      rw [e] at this
      exact nowrap_of_refbound g'.1 hu' this
    · intro k hk1 hk
      exact h2 (k + 1) (by omega) (by simp; omega)

end Zvbi.Cache
