import ZvbiModel.Cache.HiSub
/-!
# `MaxStat.Calm`: the relation `Calm` of HiSubCalm.lean once more, for the member `max_subpages`

Same statements and the same proofs as Cache/HiSubCalm.lean and the shape lemmas of Cache/HiSub.lean (lines
`putReplace_base` .. `putTailF_shape`), with `rng n pg` read as the high-water mark `max_subpages` of the page number
instead of the pair `subno_min, subno_max`: every operation other than the insertion of a new page leaves
`max_subpages` of every network that still owns a page alone.  Kept in a namespace of its own so that the names
do not collide; `MaxStat.max_stepF` (file MaxStat.lean) is the invariant step built on it.
-/
namespace Zvbi.Cache.MaxStat
open Zvbi.Cache


/-- same page; `q` (new) on the hash chains only if `p` (old) was -/
def sameKey (p q : Page) : Prop :=
  p.id = q.id ∧ p.net = q.net ∧ p.pgno = q.pgno ∧ p.subno = q.subno ∧ (q.pri ≠ .zombie → p.pri ≠ .zombie)

theorem sameKey.rfl' (p : Page) : sameKey p p := ⟨rfl, rfl, rfl, rfl, fun hh => hh⟩
theorem sameKey.trans {a b c : Page} (h1 : sameKey a b) (h2 : sameKey b c) : sameKey a c :=
  ⟨h1.1.trans h2.1, h1.2.1.trans h2.2.1, h1.2.2.1.trans h2.2.2.1, h1.2.2.2.1.trans h2.2.2.2.1,
   fun h => h1.2.2.2.2 (h2.2.2.2.2 h)⟩

/-- recorded high-water mark `max_subpages` of a page number -/
def rng (n : Net) (pg : Nat) : Nat := (n.getStat pg).maxSub

structure Calm (s s' : State) : Prop where
  pages : ∀ q ∈ s'.pages, ∃ p ∈ s.pages, sameKey p q
  nets : ∀ n' ∈ s'.nets, (∃ n ∈ s.nets, n.id = n'.id ∧ ∀ pg, rng n' pg = rng n pg) ∨ (∀ q ∈ s'.pages, q.net ≠ n'.id)

theorem Calm.refl (s : State) : Calm s s :=
  ⟨fun q hq => ⟨q, hq, sameKey.rfl' q⟩, fun n hn => Or.inl ⟨n, hn, rfl, fun _ => rfl⟩⟩

theorem Calm.trans {a b c : State} (h1 : Calm a b) (h2 : Calm b c) : Calm a c := by
  refine ⟨fun q hq => ?_, fun n'' hn'' => ?_⟩
  · obtain ⟨p, hp, e⟩ := h2.pages q hq
    obtain ⟨p0, hp0, e0⟩ := h1.pages p hp
    exact ⟨p0, hp0, e0.trans e⟩
  · rcases h2.nets n'' hn'' with ⟨n', hn', e, r⟩ | hno
    · rcases h1.nets n' hn' with ⟨n, hn, e0, r0⟩ | hno
      · exact Or.inl ⟨n, hn, e0.trans e, fun pg => (r pg).trans (r0 pg)⟩
      · right
        intro q hq hq'
        obtain ⟨p, hp, k⟩ := h2.pages q hq
        exact hno p hp (by rw [k.2.1, hq', e])
    · exact Or.inr hno

/-- both lists described element-wise -/
theorem Calm.of_lists {s s' : State} (hp : ∀ q ∈ s'.pages, ∃ p ∈ s.pages, sameKey p q)
    (hn : ∀ n' ∈ s'.nets, ∃ n ∈ s.nets, n.id = n'.id ∧ ∀ pg, rng n' pg = rng n pg) : Calm s s' :=
  ⟨hp, fun n' hn' => Or.inl (hn n' hn')⟩

theorem Calm.of_eq {s s' : State} (hp : s'.pages = s.pages) (hn : s'.nets = s.nets) : Calm s s' :=
  Calm.of_lists (fun q hq => ⟨q, hp ▸ hq, sameKey.rfl' q⟩) (fun n hn' => ⟨n, hn ▸ hn', rfl, fun _ => rfl⟩)

theorem sub_updId {l : List Page} {x : Nat} {f : Page → Page} (hf : ∀ p, sameKey p (f p)) :
    ∀ q ∈ updId l x f, ∃ p ∈ l, sameKey p q := by
  intro q hq
  obtain ⟨p, hp, rfl⟩ := mem_updId.1 hq
  refine ⟨p, hp, ?_⟩
  split
  · exact hf p
  · exact sameKey.rfl' p

theorem sub_rmId {l : List Page} {x : Nat} : ∀ q ∈ rmId l x, ∃ p ∈ l, sameKey p q :=
  fun q hq => ⟨q, (mem_rmId.1 hq).1, sameKey.rfl' q⟩

theorem sub_self {l : List Page} : ∀ q ∈ l, ∃ p ∈ l, sameKey p q := fun q hq => ⟨q, hq, sameKey.rfl' q⟩

theorem rng_updNid {l : List Net} {x : Nat} {f : Net → Net} (hf : ∀ n, (f n).id = n.id ∧ ∀ pg, rng (f n) pg = rng n pg) :
    ∀ n' ∈ updNid l x f, ∃ n ∈ l, n.id = n'.id ∧ ∀ pg, rng n' pg = rng n pg := by
  intro n' hn'
  obtain ⟨n, hn, rfl⟩ := mem_updNid.1 hn'
  refine ⟨n, hn, ?_⟩
  split
  · exact ⟨(hf n).1.symm, (hf n).2⟩
  · exact ⟨rfl, fun _ => rfl⟩

theorem rng_self {l : List Net} : ∀ n' ∈ l, ∃ n ∈ l, n.id = n'.id ∧ ∀ pg, rng n' pg = rng n pg :=
  fun n hn => ⟨n, hn, rfl, fun _ => rfl⟩

theorem rng_rmPageNet (pg : Nat) (n : Net) : (rmPageNet pg n).id = n.id ∧ ∀ pg', rng (rmPageNet pg n) pg' = rng n pg' := by
  refine ⟨rfl, fun pg' => ?_⟩
  unfold rng rmPageNet
  simp only
  rw [getStat_setStat]
  split
  · rename_i e; subst e; rfl
  · rfl

theorem rng_rmZombieNet (pg : Nat) (n : Net) : (rmZombieNet pg n).id = n.id ∧ ∀ pg', rng (rmZombieNet pg n) pg' = rng n pg' :=
  ⟨rfl, fun pg' => (rng_rmPageNet pg n).2 pg'⟩

/-! ## delete_page and the loops built from it -/

theorem freePage_calm (s : State) (p : Page) : Calm s (s.freePage p) := by
  refine Calm.of_lists ?_ ?_
  · rw [freePage_pages]; exact sub_rmId
  · rw [freePage_nets]; exact rng_updNid (rng_rmPageNet p.pgno)

theorem deletePage_calm (s : State) (id : Nat) : Calm s (s.deletePage id) := by
  unfold State.deletePage
  split
  · exact Calm.refl s
  · split
    · split
      · refine Calm.of_lists ?_ rng_self
        rw [updPage_pages]
        exact sub_updId (fun p => ⟨rfl, rfl, rfl, rfl, fun h => absurd rfl h⟩)
      · exact Calm.refl s
    · exact freePage_calm s _

theorem calm_foldl {α : Type} (f : State → α → State) (hf : ∀ s a, Calm s (f s a)) (l : List α) (s : State) :
    Calm s (l.foldl f s) := by
  induction l generalizing s with
  | nil => exact Calm.refl s
  | cons a t ih => rw [List.foldl_cons]; exact (hf s a).trans (ih _)

theorem foldDelete_calm (row : List Nat) (s : State) : Calm s (row.foldl (fun s id => s.deletePage id) s) :=
  calm_foldl _ (fun s a => deletePage_calm s a) row s

theorem dropOthers_calm (s : State) (nid pgno keep : Nat) : Calm s (s.dropOthers nid pgno keep) :=
  foldDelete_calm _ s

theorem deleteAllPages_calm (s : State) (nid : Nat) : Calm s (s.deleteAllPages nid) := by
  unfold State.deleteAllPages
  refine calm_foldl _ (fun s id => ?_) _ s
  split
  · split
    · exact deletePage_calm s id
    · exact Calm.refl s
  · exact Calm.refl s

theorem surplusPass_calm (pri : Pri) (chk : Bool) (ids : List Nat) (s : State) : Calm s (surplusPass pri chk ids s).1 := by
  induction ids generalizing s with
  | nil => exact Calm.refl s
  | cons id rest ih =>
    unfold surplusPass
    split
    · exact Calm.refl s
    · split
      · split
        · exact (deletePage_calm s id).trans (ih _)
        · exact ih _
      · exact ih _

theorem deleteSurplusPages_calm (s : State) : Calm s s.deleteSurplusPages := by
  unfold State.deleteSurplusPages
  have c1 := surplusPass_calm .normal true s.priority s
  generalize surplusPass .normal true s.priority s = r1 at c1
  obtain ⟨s1, d1⟩ := r1
  simp only
  split
  · exact c1
  · have c2 := surplusPass_calm .special true s1.priority s1
    generalize surplusPass .special true s1.priority s1 = r2 at c2
    obtain ⟨s2, d2⟩ := r2
    simp only
    split
    · exact c1.trans c2
    · have c3 := surplusPass_calm .normal false s2.priority s2
      generalize surplusPass .normal false s2.priority s2 = r3 at c3
      obtain ⟨s3, d3⟩ := r3
      simp only
      split
      · exact (c1.trans c2).trans c3
      · exact ((c1.trans c2).trans c3).trans (surplusPass_calm .special false s3.priority s3)

/-! ## networks -/

theorem updNet_calm (s : State) (x : Nat) (f : Net → Net) (hf : ∀ n, (f n).id = n.id ∧ ∀ pg, rng (f n) pg = rng n pg) :
    Calm s (s.updNet x f) :=
  Calm.of_lists sub_self (by rw [updNet_nets]; exact rng_updNid hf)

theorem deleteNetwork_calm (s : State) (nid : Nat) : Calm s (s.deleteNetwork nid) := by
  unfold State.deleteNetwork
  split
  · exact Calm.refl s
  · rename_i n hf
    simp only
    have c1 : Calm s (if n.nCached > 0 then s.deleteAllPages nid else s) := by
      split
      · exact deleteAllPages_calm s nid
      · exact Calm.refl s
    generalize (if n.nCached > 0 then s.deleteAllPages nid else s) = s1 at c1
    have c2 : Calm s1 (if (!n.zombie) = true then { s1 with nCachedNets := s1.nCachedNets - 1 } else s1) := by
      split
      · exact Calm.of_eq rfl rfl
      · exact Calm.refl s1
    generalize (if (!n.zombie) = true then { s1 with nCachedNets := s1.nCachedNets - 1 } else s1) = s2 at c2
    split
    · exact (c1.trans c2).trans (updNet_calm s2 nid (fun n => { n with zombie := true }) (fun _ => ⟨rfl, fun _ => rfl⟩))
    · refine (c1.trans c2).trans (Calm.of_lists sub_self ?_)
      intro n' hn'
      exact ⟨n', (List.mem_filter.1 hn').1, rfl, fun _ => rfl⟩

theorem purge_calm (s : State) : Calm s s.purge := by
  unfold State.purge
  exact calm_foldl _ (fun s nid => deleteNetwork_calm s nid) _ s

theorem deleteSurplusNets_calm (s : State) : Calm s s.deleteSurplusNets := by
  unfold State.deleteSurplusNets
  refine calm_foldl _ (fun s nid => ?_) _ s
  split
  · exact Calm.refl s
  · split
    · exact Calm.refl s
    · split
      · exact deleteNetwork_calm s nid
      · exact Calm.refl s

theorem netUnref_calm (s : State) (nid : Nat) : Calm s (s.netUnref nid) := by
  unfold State.netUnref
  split
  · exact Calm.refl s
  · split
    · exact Calm.refl s
    · split
      · exact (updNet_calm s nid (fun n => { n with ref := 0 }) (fun _ => ⟨rfl, fun _ => rfl⟩)).trans
          (deleteSurplusNets_calm _)
      · exact updNet_calm s nid (fun n => { n with ref := n.ref - 1 }) (fun _ => ⟨rfl, fun _ => rfl⟩)

theorem netRef_calm (s : State) (nid : Nat) : Calm s (s.netRef nid) :=
  updNet_calm s nid (fun n => { n with ref := n.ref + 1 }) (fun _ => ⟨rfl, fun _ => rfl⟩)

theorem unzombieNet_calm (s : State) (x : Nat) : Calm s (s.unzombieNet x) := by
  unfold State.unzombieNet
  split
  · split
    · exact (updNet_calm s x (fun n => { n with zombie := false }) (fun _ => ⟨rfl, fun _ => rfl⟩)).trans
        (Calm.of_eq rfl rfl)
    · exact Calm.refl s
  · exact Calm.refl s

/-- a network without pages: its statistics may be reset -/
theorem statReset_calm {s : State} (h : InvW s) {x : Nat} {n : Net} (hf : s.findNet x = some n) (hc : n.nCached = 0) :
    Calm s (s.statReset x) := by
  obtain ⟨hn, rfl⟩ := findNet_some' hf
  refine ⟨sub_self, fun n' hn' => ?_⟩
  have hn2 : n' ∈ updNid s.nets n.id (fun n => { n with stat := [], defType := Gen.Cache.unknownPageType }) := hn'
  obtain ⟨m, hm, rfl⟩ := mem_updNid.1 hn2
  by_cases e : m.id = n.id
  · right
    rw [if_pos e]
    intro q hq hq'
    have hmn : m = n := net_unique h.nidNodup hm hn e
    subst hmn
    have hcnt := h.nCached m hm
    rw [hc] at hcnt
    have : 0 < s.pages.countP (fun p => decide (p.net = m.id)) :=
      List.countP_pos_iff.2 ⟨q, hq, by simpa using hq'⟩
    omega
  · left
    rw [if_neg e]
    exact ⟨m, hm, rfl, fun _ => rfl⟩

theorem ptype_calm (s : State) (x pg t : Nat) :
    Calm s (s.updNet x (fun n => n.setStat pg { n.getStat pg with ptype := t })) := by
  refine updNet_calm s x _ (fun n => ⟨rfl, fun pg' => ?_⟩)
  unfold rng
  rw [getStat_setStat]
  split
  · rename_i e; subst e; rfl
  · rfl

/-- `recycle_network`: the struct leaves the list; what is handed out has the identity and statistics of a listed network -/
theorem recycle_calm {s s1 : State} {n : Net} (hr : s.recycleNetwork = some (s1, n)) :
    Calm s s1 ∧ ((∃ n0 ∈ s.nets, n0.id = n.id ∧ ∀ pg, rng n pg = rng n0 pg) ∨ (∀ q ∈ s1.pages, q.net ≠ n.id)) := by
  unfold State.recycleNetwork at hr
  split at hr
  · cases hr
  · rename_i n0 hf0
    simp only at hr
    have c1 : Calm s (if n0.nCached > 0 then s.deleteAllPages n0.id else s) := by
      split
      · exact deleteAllPages_calm s n0.id
      · exact Calm.refl s
    generalize (if n0.nCached > 0 then s.deleteAllPages n0.id else s) = sa at c1 hr
    split at hr
    · cases hr
    · rename_i m hfm
      simp only [Option.some.injEq, Prod.mk.injEq] at hr
      obtain ⟨rfl, rfl⟩ := hr
      obtain ⟨hm, hmid⟩ := findNet_some' hfm
      refine ⟨c1.trans (Calm.of_lists sub_self (fun n' hn' => ⟨n', (List.mem_filter.1 hn').1, rfl, fun _ => rfl⟩)), ?_⟩
      rcases c1.nets m hm with ⟨n1, hn1, e1, r1⟩ | hno
      · exact Or.inl ⟨n1, hn1, e1, fun pg => r1 pg⟩
      · exact Or.inr hno

theorem consNet_calm {s s1 : State} (c : Calm s s1) (n : Net)
    (hn : (∃ n0 ∈ s.nets, n0.id = n.id ∧ ∀ pg, rng n pg = rng n0 pg) ∨ (∀ q ∈ s1.pages, q.net ≠ n.id)) :
    Calm s ({ s1 with nets := { n with ref := n.ref + 1 } :: s1.nets } : State) := by
  refine ⟨c.pages, fun n' hn' => ?_⟩
  rcases List.mem_cons.1 hn' with rfl | ht
  · rcases hn with ⟨n0, hn0, e, r⟩ | hno
    · exact Or.inl ⟨n0, hn0, e, fun pg => r pg⟩
    · exact Or.inr hno
  · exact c.nets n' ht

theorem addNetwork_calm {s : State} (h : InvW s) : Calm s s.addNetwork.1 := by
  have fresh : Calm s ({ ({ s with nextNid := s.nextNid + 1, nCachedNets := s.nCachedNets + 1 } : State) with
      nets := { ({ id := s.nextNid } : Net) with ref := ({ id := s.nextNid } : Net).ref + 1 } :: s.nets } : State) := by
    refine consNet_calm (s := s) (s1 := { s with nextNid := s.nextNid + 1, nCachedNets := s.nCachedNets + 1 })
      (Calm.of_eq rfl rfl) ({ id := s.nextNid } : Net) (Or.inr ?_)
    intro q hq e
    obtain ⟨m, hm, e2⟩ := h.netOf q hq
    have := h.nidLt m hm
    have e' : q.net = s.nextNid := e
    omega
  unfold State.addNetwork
  simp only
  split
  · exact fresh
  · split
    · exact fresh
    · rename_i r hr
      obtain ⟨s1, n⟩ := r
      obtain ⟨c, hn⟩ := recycle_calm hr
      exact consNet_calm c n hn

/-! ## references -/

theorem pageRef_calm (s : State) (id : Nat) : Calm s (s.pageRef id) := by
  unfold State.pageRef
  split
  · exact Calm.refl s
  · rename_i p hf
    simp only
    have c1 : Calm s (if p.ref = 0 then (s.unzombieNet p.net).refFirst p else s) := by
      split
      · refine (unzombieNet_calm s p.net).trans (Calm.of_lists sub_self ?_)
        show ∀ n' ∈ updNid (s.unzombieNet p.net).nets p.net (fun n => { n with nRef := n.nRef + 1 }), _
        exact rng_updNid (fun _ => ⟨rfl, fun _ => rfl⟩)
      · exact Calm.refl s
    generalize (if p.ref = 0 then (s.unzombieNet p.net).refFirst p else s) = s1 at c1
    refine c1.trans (Calm.of_lists ?_ rng_self)
    rw [updPage_pages]
    exact sub_updId (fun p => ⟨rfl, rfl, rfl, rfl, fun hh => hh⟩)

theorem unrefLast_calm (s : State) (p : Page) : Calm s (s.unrefLast p) := by
  obtain ⟨e1, _, _, e4, _⟩ := unrefLast_fields s p
  refine Calm.of_lists ?_ ?_
  · rw [e1]; exact sub_updId (fun p => ⟨rfl, rfl, rfl, rfl, fun hh => hh⟩)
  · rw [e4]; exact rng_updNid (fun _ => ⟨rfl, fun _ => rfl⟩)

theorem unrefZombie_calm (s : State) (p : Page) : Calm s (s.unrefZombie p) := by
  unfold State.unrefZombie
  simp only
  have c1 : Calm s (s.updPage p.id (fun p => { p with ref := 0 })) := by
    refine Calm.of_lists ?_ rng_self
    rw [updPage_pages]; exact sub_updId (fun p => ⟨rfl, rfl, rfl, rfl, fun hh => hh⟩)
  exact (c1.trans (deletePage_calm _ p.id)).trans
    (updNet_calm _ p.net (fun n => { n with nRef := n.nRef - 1 }) (fun _ => ⟨rfl, fun _ => rfl⟩))

theorem unrefTail_calm (s : State) (nid : Nat) : Calm s (s.unrefTail nid) := by
  unfold State.unrefTail
  have c1 : Calm s (s.unrefNetCheck nid) := by
    unfold State.unrefNetCheck
    split
    · split
      · exact deleteNetwork_calm s _
      · exact Calm.refl s
    · exact Calm.refl s
  refine c1.trans ?_
  unfold State.memCheck
  split
  · exact deleteSurplusPages_calm _
  · exact Calm.refl _

theorem pageUnref_calm (s : State) (id : Nat) : Calm s (s.pageUnref id) := by
  unfold State.pageUnref
  split
  · exact Calm.refl s
  · rename_i p hf
    split
    · exact Calm.refl s
    · split
      · refine Calm.trans ?_ (unrefTail_calm _ p.net)
        split
        · exact unrefZombie_calm s p
        · exact unrefLast_calm s p
      · refine Calm.of_lists ?_ rng_self
        rw [updPage_pages]; exact sub_updId (fun p => ⟨rfl, rfl, rfl, rfl, fun hh => hh⟩)

/-! ## look-ups and the page walk -/

theorem pageByPgno_calm (s : State) (nid pgno subno mask : Nat) : Calm s (s.pageByPgno nid pgno subno mask).1 := by
  unfold State.pageByPgno
  split
  · exact Calm.refl s
  · rename_i p hf
    refine Calm.of_lists ?_ rng_self
    intro q hq
    rcases List.mem_cons.1 hq with rfl | ht
    · exact ⟨q, List.mem_of_find?_eq_some hf, sameKey.rfl' q⟩
    · exact ⟨q, (List.mem_filter.1 ht).1, sameKey.rfl' q⟩

theorem getPage_calm (s : State) (nid pgno : Nat) (subno : Int) (mask : Nat) : Calm s (s.getPage nid pgno subno mask).1 := by
  unfold State.getPage
  split
  · exact Calm.refl s
  · split
    · exact Calm.refl s
    · simp only
      have c1 := pageByPgno_calm s nid pgno subno.toNat (if subno.toNat = Gen.Cache.anySubno then 0 else mask)
      generalize s.pageByPgno nid pgno subno.toNat (if subno.toNat = Gen.Cache.anySubno then 0 else mask) = r at c1
      obtain ⟨s1, o⟩ := r
      cases o with
      | none => exact c1
      | some p => exact c1.trans (pageRef_calm s1 p.id)

theorem lookupExact_calm (s : State) (nid pgno : Nat) (subno : Int) : Calm s (s.lookupExact nid pgno subno).1 := by
  unfold State.lookupExact
  split
  · exact Calm.refl s
  · have c1 := pageByPgno_calm s nid pgno subno.toNat 0xFFFFFFFF
    generalize s.pageByPgno nid pgno subno.toNat 0xFFFFFFFF = r at c1
    obtain ⟨s1, o⟩ := r
    cases o with
    | none => exact c1
    | some p => exact c1.trans (pageRef_calm s1 p.id)

theorem walkVisit_calm (s : State) (cp : Option Page) (wrapped : Bool) (vs : List Visit) : Calm s (walkVisit s cp wrapped vs).1 := by
  unfold walkVisit
  cases cp with
  | none => exact Calm.refl s
  | some p => exact pageUnref_calm s p.id

theorem walkLoop_calm (nid : Nat) (dir : Int) (stop : Nat) :
    ∀ (fuel : Nat) (s : State) (cp : Option Page) (pgno : Nat) (subno : Int) (wrapped : Bool) (vs : List Visit),
      Calm s (walkLoop nid dir stop fuel s cp pgno subno wrapped vs).1 := by
  intro fuel
  induction fuel with
  | zero => intro s cp pgno subno wrapped vs; exact Calm.refl s
  | succ fuel ih =>
    intro s cp pgno subno wrapped vs
    unfold walkLoop
    simp only
    have c1 := walkVisit_calm s cp wrapped vs
    generalize walkVisit s cp wrapped vs = r at c1
    split
    · exact c1
    · split
      · exact c1
      · split
        · exact c1
        · exact c1
        · exact c1.trans ((lookupExact_calm _ _ _ _).trans (ih _ _ _ _ _ _))

theorem foreachPageS_calm (exact : Bool) (s : State) (nid pgno subno : Nat) (dir : Int) (stop fuel : Nat) :
    Calm s (s.foreachPageS exact nid pgno subno dir stop fuel).1 := by
  unfold State.foreachPageS
  split
  · exact Calm.refl s
  · split
    · exact Calm.refl s
    · split
      · simp only
        have c1 : Calm s (if 0x100 ≤ pgno ∧ pgno ≤ 0x8FF then s.lookupExact nid pgno (subno : Int) else (s, none)).1 := by
          split
          · exact lookupExact_calm s _ _ _
          · exact Calm.refl s
        exact c1.trans (walkLoop_calm _ _ _ _ _ _ _ _ _ _)
      · have c1 := getPage_calm s nid pgno (subno : Int) 0xFFFFFFFF
        generalize s.getPage nid pgno (subno : Int) 0xFFFFFFFF = r at c1
        obtain ⟨s1, cp⟩ := r
        exact c1.trans (walkLoop_calm _ _ _ _ _ _ _ _ _ _)

theorem foreachPage_calm (s : State) (nid pgno subno : Nat) (dir : Int) (stop fuel : Nat) :
    Calm s (s.foreachPage nid pgno subno dir stop fuel).1 := foreachPageS_calm _ s _ _ _ _ _ _

/-! ## every operation except `put` -/

theorem calm_step {s : State} (g : Good s) (op : Op) (hop : ∀ nid a, op ≠ .put nid a) : Calm s (step s op).1 := by
  obtain ⟨h, hz, _⟩ := g
  cases op with
  | put nid a => exact absurd rfl (hop nid a)
  | get nid pgno subno mask =>
    unfold step; simp only
    split
    · exact Calm.refl s
    · exact getPage_calm s _ _ _ _
  | ref pid =>
    unfold step; simp only
    split
    · exact Calm.refl s
    · split
      · exact Calm.refl s
      · exact pageRef_calm s _
  | unref pid =>
    unfold step; simp only
    split
    · exact Calm.refl s
    · split
      · exact Calm.refl s
      · exact pageUnref_calm s _
  | isCached nid pgno subno =>
    unfold step; simp only
    split
    · exact Calm.refl s
    · have c1 := getPage_calm s nid pgno (subno : Int) 0xFFFFFFFF
      split
      · rename_i s' p hh; rw [hh] at c1; exact c1.trans (pageUnref_calm _ _)
      · rename_i s' hh; rw [hh] at c1; exact c1
  | hiSubno nid pgno =>
    unfold step; simp only
    split
    · exact Calm.refl s
    · split <;> exact Calm.refl s
  | «foreach» nid pgno subno back stop =>
    unfold step; simp only
    split
    · exact Calm.refl s
    · split
      · exact Calm.refl s
      · exact foreachPage_calm s _ _ _ _ _ _
  | addNet =>
    unfold step; simp only
    exact addNetwork_calm h
  | netRef nid =>
    unfold step; simp only
    split
    · exact Calm.refl s
    · exact netRef_calm s nid
  | netUnref nid =>
    unfold step; simp only
    split
    · exact Calm.refl s
    · exact netUnref_calm s nid
  | chsw nid =>
    unfold step; simp only
    split
    · exact Calm.refl s
    · rename_i n0 hf0
      have c1 := netUnref_calm s nid
      obtain ⟨h1, z1, _, _⟩ := netUnref_all h hz nid
      have c2 := addNetwork_calm h1
      refine (c1.trans c2).trans ?_
      -- the new network owns no page: its statistics may be re-initialised
      refine ⟨sub_self, fun n' hn' => ?_⟩
      have hn2 : n' ∈ updNid (s.netUnref nid).addNetwork.1.nets (s.netUnref nid).addNetwork.2
          (fun n => { n with stat := [], defType := Gen.Cache.unknownPageType }) := hn'
      obtain ⟨m, hm, rfl⟩ := mem_updNid.1 hn2
      by_cases e : m.id = (s.netUnref nid).addNetwork.2
      · right
        rw [if_pos e]
        intro q hq hq'
        exact (addNetwork_all h1 z1).2.2.2.2.2 q hq (hq'.trans e)
      · left
        rw [if_neg e]
        exact ⟨m, hm, rfl, fun _ => rfl⟩
  | statReset nid =>
    unfold step; simp only
    split
    · exact Calm.refl s
    · rename_i n hf
      split
      · exact Calm.refl s
      · rename_i hc
        exact statReset_calm h hf (by simpa using hc)
  | ptype nid pgno t =>
    unfold step; simp only
    split
    · exact Calm.refl s
    · split
      · exact Calm.refl s
      · exact ptype_calm s nid pgno (t % 256)
  | purge =>
    unfold step; simp only
    exact purge_calm s
  | setLimit n =>
    unfold step; simp only
    exact (Calm.of_eq (s := s) (s' := { s with memLimit := n }) rfl rfl).trans (deleteSurplusPages_calm _)


/-- what `_vbi_cache_put_page` does from `replace:` on: victims leave (a `Calm` change of an invariant state), then the
    new page is inserted -/
theorem putReplace_base {s : State} (h : InvW s) {n : Net} (hn : n ∈ s.nets) (a : PutArg) (subno : Nat)
    (avail : Int) {row : List Nat} (hrow : ∀ id ∈ row, id ∈ s.priority) {s' : State} {r : Option Page}
    (hres : s.putReplace n.id a subno avail row = .ok (s', r)) :
    ∃ s0 m, InvW s0 ∧ Calm s s0 ∧ m ∈ s0.nets ∧ m.id = n.id
      ∧ s' = (({ s0 with nCachedPages := s0.nCachedPages + 1 } : State).insertNew m.id a subno).1 := by
  unfold State.putReplace at hres
  simp only at hres
  split at hres
  · rename_i hc
    split at hres
    · cases hres
    · rename_i v hv
      split at hres
      · cases hres
      · rename_i hsz
        simp only [Except.ok.injEq, Prod.mk.injEq] at hres
        obtain ⟨rfl, _⟩ := hres
        have hrow1 : ∃ id, row = [id] := by
          match row, hc.2 with
          | [id], _ => exact ⟨id, rfl⟩
        obtain ⟨id, rfl⟩ := hrow1
        have hv' : s.findPage id = some v := by simpa using hv
        obtain ⟨hvm, rfl⟩ := findPage_some hv'
        have hv0 : v.ref = 0 := by
          obtain ⟨q, hq, e, hq0⟩ := (h.priMem v.id).1 (hrow v.id (by simp))
          rw [← mem_unique h.pidNodup hq hvm e]; exact hq0
        have hnz : v.pri ≠ .zombie := fun e => by have := h.zombieRef v hvm e; omega
        have hbase := freePage_invW h hvm hv0
        have hpos : 0 < s.nCachedPages := by
          have := h.nPages; have : 0 < s.pages.length := List.length_pos_of_mem hvm; omega
        have hsz' : v.size = (pageSize a.func a.x26 a.x28) := by
          by_cases e : v.size = pageSize a.func a.x26 a.x28
          · exact e
          · exact absurd e (by simpa using hsz)
        have est : ({ ((s.unlinkPri v.id).dropPage v.id).netRemovePage v.net v.pgno with
              memUsed := (((s.unlinkPri v.id).dropPage v.id).netRemovePage v.net v.pgno).memUsed
                - (Int.toNat (pageSize a.func a.x26 a.x28 : Int)) } : State)
            = { s.freePage v with nCachedPages := (s.freePage v).nCachedPages + 1 } := by
          apply State.eq_of_fields
          · rw [freePage_pages]; rfl
          · rw [freePage_priority]; rfl
          · rw [freePage_referenced]; rfl
          · rw [freePage_nets]; rfl
          · show s.nCachedPages = (s.freePage v).nCachedPages + 1
            rw [freePage_nCachedPages]; omega
          · show s.memUsed - _ = (s.freePage v).memUsed
            rw [freePage_memUsed, if_pos hnz, hsz']; simp
          · rw [freePage_memLimit]; rfl
          · rw [freePage_nCachedNets]; rfl
          · unfold State.freePage; split <;> rfl
          · rw [freePage_nextPid]; rfl
          · rw [freePage_nextNid]; rfl
        rw [est]
        obtain ⟨m, hm, ek⟩ := net_of_key (freePage_netKey s v) hn
        have eid : m.id = n.id := by simp only [netKey, Prod.mk.injEq] at ek; exact ek.1
        exact ⟨s.freePage v, m, hbase, freePage_calm s v, hm, eid, by rw [eid]⟩
  · split at hres
    · cases hres
    · simp only [Except.ok.injEq, Prod.mk.injEq] at hres
      obtain ⟨rfl, _⟩ := hres
      have sh := foldDelete_shrinks row s
      have cl := foldDelete_calm row s
      generalize row.foldl (fun s id => s.deletePage id) s = sb at sh cl
      obtain ⟨m, hm, ek⟩ := net_of_key sh.key hn
      have eid : m.id = n.id := by simp only [netKey, Prod.mk.injEq] at ek; exact ek.1
      exact ⟨sb, m, sh.invW h, cl, hm, eid, by rw [eid]⟩

theorem putVictim_calm (s : State) (old : Option Page) (avail : Int) : Calm s (s.putVictim old avail).1 := by
  unfold State.putVictim
  split
  · exact Calm.refl s
  · split
    · refine Calm.of_lists ?_ rng_self
      rw [updPage_pages]
      exact sub_updId (fun p => ⟨rfl, rfl, rfl, rfl, fun hh => absurd rfl hh⟩)
    · exact Calm.refl s

/-- result of a store: nothing stored (`Calm`), or `Calm` followed by the insertion of the new page -/
def PutShape (s s' : State) (nid : Nat) (a : PutArg) (k1 : Nat) : Prop :=
  Calm s s' ∨ ∃ s0 m, InvW s0 ∧ Calm s s0 ∧ m ∈ s0.nets ∧ m.id = nid
    ∧ s' = (({ s0 with nCachedPages := s0.nCachedPages + 1 } : State).insertNew m.id a k1).1

theorem putRest_shape {s : State} (h : InvW s) (hz : ZNet s) {cn : Net} (hcn : cn ∈ s.nets) (a : PutArg) (k1 : Nat)
    (old : Option Page) (avail0 : Int) (hold : ∀ o, old = some o → o ∈ s.pages)
    {s' : State} {r : Option Page} (hres : s.putRest cn.id a k1 old avail0 = .ok (s', r)) :
    PutShape s s' cn.id a k1 := by
  unfold State.putRest at hres
  simp only at hres
  obtain ⟨b1, b2, b3, b4, b5, b6, b7⟩ := putVictim_all h hz old avail0 hold
  have cv := putVictim_calm s old avail0
  generalize s.putVictim old avail0 = v at hres b1 b2 b3 b4 b5 b6 b7 cv
  split at hres
  · cases hres
  · simp only [Except.ok.injEq, Prod.mk.injEq] at hres; obtain ⟨rfl, _⟩ := hres
    exact Or.inl cv
  · rename_i avail row hcol
    have hrow : ∀ id ∈ row, id ∈ v.1.priority := by
      intro id hid
      rcases collectAll_row hcol id hid with x | x
      · rw [b4]; exact b7 id x
      · exact x
    have hcn' : cn ∈ v.1.nets := by rw [b3]; exact hcn
    obtain ⟨s0, m, i0, c0, hm, eid, e⟩ := putReplace_base b1 hcn' a k1 avail hrow hres
    exact Or.inr ⟨s0, m, i0, cv.trans c0, hm, eid, e⟩

theorem PutShape.pre {s1 s s' : State} {nid : Nat} {a : PutArg} {k1 : Nat} (c : Calm s1 s) (p : PutShape s s' nid a k1) :
    PutShape s1 s' nid a k1 := by
  rcases p with p | ⟨s0, m, i0, c0, hm, eid, e⟩
  · exact Or.inl (c.trans p)
  · exact Or.inr ⟨s0, m, i0, c.trans c0, hm, eid, e⟩

theorem putTailF_shape (fix : Bool) {s : State} (h : InvW s) (hz : ZNet s) {cn : Net} (hcn : cn ∈ s.nets) (a : PutArg) (k1 k2 : Nat)
    (avail0 : Int) {s' : State} {r : Option Page} (hres : s.putTailF fix cn.id a k1 k2 avail0 = .ok (s', r)) :
    PutShape s s' cn.id a k1 := by
  obtain ⟨a1, a2, a3, a4, a5, _, _, a8, a9⟩ := pageByPgno_all h cn.id a.pgno (k1 &&& k2) k2
  have c0 := pageByPgno_calm s cn.id a.pgno (k1 &&& k2) k2
  have z1 : ZNet (s.pageByPgno cn.id a.pgno (k1 &&& k2) k2).1 := znet_of_key (by rw [a2]) hz
  have hcn0 : cn ∈ (s.pageByPgno cn.id a.pgno (k1 &&& k2) k2).1.nets := by rw [a2]; exact hcn
  cases fix with
  | false =>
    have hres' : s.putTail cn.id a k1 k2 avail0 = .ok (s', r) := hres
    rw [putTail_rest] at hres'
    exact (putRest_shape a1 z1 hcn0 a k1 _ avail0 (fun o ho => (a3 o).2 (a9 o ho).1) hres').pre c0
  | true =>
    have hres' : s.putTailR cn.id a k1 k2 avail0 = .ok (s', r) := hres
    unfold State.putTailR at hres'
    simp only at hres'
    generalize s.pageByPgno cn.id a.pgno (k1 &&& k2) k2 = r0 at hres' a1 a2 a3 a4 a5 a8 a9 c0 z1 hcn0
    split at hres'
    · rename_i o ho
      have hom : o ∈ r0.1.pages := (a3 o).2 (a9 o ho).1
      split at hres'
      · have sh := dropOthers_shrinks r0.1 cn.id a.pgno o.id
        have cd := dropOthers_calm r0.1 cn.id a.pgno o.id
        have hk := dropOthers_keep cn.id a.pgno hom
        generalize r0.1.dropOthers cn.id a.pgno o.id = s1 at hres' sh hk cd
        obtain ⟨m, hm, ek⟩ := net_of_key sh.key hcn0
        have eid : m.id = cn.id := by simp only [netKey, Prod.mk.injEq] at ek; exact ek.1
        rw [← eid] at hres'
        have := putRest_shape (sh.invW a1) (znet_of_key sh.key z1) hm a k1 (some o) _ (fun o' e => by cases e; exact hk) hres'
        rw [eid] at this
        exact this.pre (c0.trans cd)
      · exact (putRest_shape a1 z1 hcn0 a k1 (some o) avail0 (fun o' e => by cases e; exact hom) hres').pre c0
    · exact (putRest_shape a1 z1 hcn0 a k1 none avail0 (fun o' e => by cases e) hres').pre c0

end Zvbi.Cache.MaxStat
