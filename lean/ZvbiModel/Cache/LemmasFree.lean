import ZvbiModel.Cache.LemmasNet
/-!
# `delete_page` (unreferenced branch) keeps the invariant
-/
namespace Zvbi.Cache

/-- `InvCore` without the clause about zombie networks (which is broken between
    `--cn->n_referenced_pages` and `delete_network` inside `cache_page_unref`) -/
structure InvW (s : State) : Prop where
  pidNodup : (s.pages.map (·.id)).Nodup
  pidLt : ∀ p ∈ s.pages, p.id < s.nextPid
  priNodup : s.priority.Nodup
  refNodup : s.referenced.Nodup
  priMem : ∀ id, id ∈ s.priority ↔ ∃ p ∈ s.pages, p.id = id ∧ p.ref = 0
  refMem : ∀ id, id ∈ s.referenced ↔ ∃ p ∈ s.pages, p.id = id ∧ 0 < p.ref
  zombieRef : ∀ p ∈ s.pages, p.pri = .zombie → 0 < p.ref
  nidNodup : (s.nets.map (·.id)).Nodup
  nidLt : ∀ n ∈ s.nets, n.id < s.nextNid
  netOf : ∀ p ∈ s.pages, ∃ n ∈ s.nets, n.id = p.net
  nCached : ∀ n ∈ s.nets, n.nCached = s.pages.countP (fun p => p.net = n.id)
  nRef : ∀ n ∈ s.nets, n.nRef = s.pages.countP (fun p => p.net = n.id ∧ 0 < p.ref)
  nSub : ∀ n ∈ s.nets, ∀ pg, (n.getStat pg).nSub
      = s.pages.countP (fun p => p.net = n.id ∧ p.pgno = pg) % 65536
  nPages : s.nCachedPages = s.pages.length
  mem : s.memUsed = ((s.pages.filter (fun p => p.ref = 0)).map Page.size).sum
  nNets : s.nCachedNets = s.nets.countP (fun n => !n.zombie)

/-- a zombie network is still referenced -/
def ZOk (n : Net) : Prop := n.zombie = true → 0 < n.ref ∨ 0 < n.nRef

/-- the zombie-network clause for the networks whose id satisfies `P` -/
def ZNetOn (s : State) (P : Nat → Prop) : Prop := ∀ n ∈ s.nets, P n.id → ZOk n

abbrev ZNet (s : State) : Prop := ZNetOn s (fun _ => True)

theorem invCore_iff {s : State} : InvCore s ↔ InvW s ∧ ZNet s := by
  constructor
  · intro h
    exact ⟨⟨h.pidNodup, h.pidLt, h.priNodup, h.refNodup, h.priMem, h.refMem, h.zombieRef, h.nidNodup, h.nidLt,
      h.netOf, h.nCached, h.nRef, h.nSub, h.nPages, h.mem, h.nNets⟩, fun n hn _ hz => h.zombieNet n hn hz⟩
  · rintro ⟨h, z⟩
    exact ⟨h.pidNodup, h.pidLt, h.priNodup, h.refNodup, h.priMem, h.refMem, h.zombieRef, h.nidNodup, h.nidLt,
      h.netOf, h.nCached, h.nRef, h.nSub, h.nPages, h.mem, h.nNets, fun n hn hz => z n hn trivial hz⟩

/-- the fields the zombie-network clause looks at -/
def netKey (n : Net) : Nat × Nat × Nat × Bool := (n.id, n.ref, n.nRef, n.zombie)

theorem mem_of_key {s s' : State} (hk : s'.nets.map netKey = s.nets.map netKey) {n : Net} (hn : n ∈ s'.nets) :
    ∃ m ∈ s.nets, netKey m = netKey n := by
  have : netKey n ∈ s.nets.map netKey := hk ▸ List.mem_map_of_mem hn
  obtain ⟨m, hm, e⟩ := List.mem_map.1 this
  exact ⟨m, hm, e⟩

theorem zok_of_key {m n : Net} (e : netKey m = netKey n) (h : ZOk m) : ZOk n := by
  simp only [netKey, Prod.mk.injEq] at e
  obtain ⟨_, e2, e3, e4⟩ := e
  intro hz; have := h (by rw [e4]; exact hz); omega

theorem znet_of_key {s s' : State} {P : Nat → Prop} (hk : s'.nets.map netKey = s.nets.map netKey)
    (h : ZNetOn s P) : ZNetOn s' P := by
  intro n hn hx
  obtain ⟨m, hm, e⟩ := mem_of_key hk hn
  have e1 : m.id = n.id := by simp only [netKey, Prod.mk.injEq] at e; exact e.1
  exact zok_of_key e (h m hm (by rw [e1]; exact hx))

theorem map_netKey_updNid {l : List Net} {x : Nat} {f : Net → Net} (hf : ∀ n, netKey (f n) = netKey n) :
    (updNid l x f).map netKey = l.map netKey := by
  unfold updNid; rw [List.map_map]; apply List.map_congr_left; intro n _
  by_cases h : n.id = x <;> simp [h, hf]

def rmPageNet (pg : Nat) (n : Net) : Net :=
  let ps := n.getStat pg
  ({ n with nCached := n.nCached - 1 } : Net).setStat pg { ps with nSub := (ps.nSub + 65535) % 65536 }

theorem freePage_pages (s : State) (p : Page) : (s.freePage p).pages = rmId s.pages p.id := by
  unfold State.freePage; split <;> rfl
theorem freePage_priority (s : State) (p : Page) : (s.freePage p).priority = s.priority.filter (· ≠ p.id) := by
  unfold State.freePage; split <;> rfl
theorem freePage_referenced (s : State) (p : Page) : (s.freePage p).referenced = s.referenced.filter (· ≠ p.id) := by
  unfold State.freePage; split <;> rfl
theorem freePage_nets (s : State) (p : Page) : (s.freePage p).nets = updNid s.nets p.net (rmPageNet p.pgno) := by
  unfold State.freePage; split <;> rfl
theorem freePage_nCachedPages (s : State) (p : Page) : (s.freePage p).nCachedPages = s.nCachedPages - 1 := by
  unfold State.freePage; split <;> rfl
theorem freePage_memUsed (s : State) (p : Page) :
    (s.freePage p).memUsed = if p.pri ≠ .zombie then s.memUsed - p.size else s.memUsed := by
  unfold State.freePage; split <;> rfl
theorem freePage_nCachedNets (s : State) (p : Page) : (s.freePage p).nCachedNets = s.nCachedNets := by
  unfold State.freePage; split <;> rfl
theorem freePage_nextPid (s : State) (p : Page) : (s.freePage p).nextPid = s.nextPid := by
  unfold State.freePage; split <;> rfl
theorem freePage_nextNid (s : State) (p : Page) : (s.freePage p).nextNid = s.nextNid := by
  unfold State.freePage; split <;> rfl
theorem freePage_memLimit (s : State) (p : Page) : (s.freePage p).memLimit = s.memLimit := by
  unfold State.freePage; split <;> rfl

@[simp] theorem rmPageNet_id (pg : Nat) (n : Net) : (rmPageNet pg n).id = n.id := rfl
@[simp] theorem rmPageNet_nCached (pg : Nat) (n : Net) : (rmPageNet pg n).nCached = n.nCached - 1 := rfl
@[simp] theorem rmPageNet_nRef (pg : Nat) (n : Net) : (rmPageNet pg n).nRef = n.nRef := rfl
@[simp] theorem rmPageNet_ref (pg : Nat) (n : Net) : (rmPageNet pg n).ref = n.ref := rfl
@[simp] theorem rmPageNet_zombie (pg : Nat) (n : Net) : (rmPageNet pg n).zombie = n.zombie := rfl
theorem rmPageNet_getStat (pg pg' : Nat) (n : Net) : ((rmPageNet pg n).getStat pg').nSub
    = if pg' = pg then ((n.getStat pg).nSub + 65535) % 65536 else (n.getStat pg').nSub := by
  unfold rmPageNet; simp only [getStat_setStat]; split
  · rfl
  · unfold Net.getStat; rfl

theorem freePage_invW {s : State} (h : InvW s) {p : Page} (hp : p ∈ s.pages) (hr : p.ref = 0) :
    InvW (s.freePage p) := by
  have hnz : p.pri ≠ .zombie := fun e => by have := h.zombieRef p hp e; omega
  have hmemnet : ∀ n', n' ∈ (s.freePage p).nets ↔ ∃ n ∈ s.nets, n' = if n.id = p.net then rmPageNet p.pgno n else n := by
    intro n'; rw [freePage_nets, mem_updNid]
  constructor
  · rw [freePage_pages]; exact idsNodup_rmId h.pidNodup _
  · intro q hq; rw [freePage_pages, mem_rmId] at hq; rw [freePage_nextPid]; exact h.pidLt q hq.1
  · rw [freePage_priority]; exact h.priNodup.filter _
  · rw [freePage_referenced]; exact h.refNodup.filter _
  · intro id; rw [freePage_priority, freePage_pages, mem_filter_ne, h.priMem]
    constructor
    · rintro ⟨⟨q, hq, rfl, hq0⟩, hne⟩; exact ⟨q, mem_rmId.2 ⟨hq, hne⟩, rfl, hq0⟩
    · rintro ⟨q, hq, rfl, hq0⟩; rw [mem_rmId] at hq; exact ⟨⟨q, hq.1, rfl, hq0⟩, hq.2⟩
  · intro id; rw [freePage_referenced, freePage_pages, mem_filter_ne, h.refMem]
    constructor
    · rintro ⟨⟨q, hq, rfl, hq0⟩, hne⟩; exact ⟨q, mem_rmId.2 ⟨hq, hne⟩, rfl, hq0⟩
    · rintro ⟨q, hq, rfl, hq0⟩; rw [mem_rmId] at hq; exact ⟨⟨q, hq.1, rfl, hq0⟩, hq.2⟩
  · intro q hq; rw [freePage_pages, mem_rmId] at hq; exact h.zombieRef q hq.1
  · rw [freePage_nets, map_id_updNid (fun n => rmPageNet_id _ n)]; exact h.nidNodup
  · intro n' hn'; rw [hmemnet] at hn'; obtain ⟨n, hn, rfl⟩ := hn'
    rw [freePage_nextNid]; have := h.nidLt n hn; split <;> simpa [rmPageNet_id] using this
  · intro q hq; rw [freePage_pages, mem_rmId] at hq
    obtain ⟨n, hn, e⟩ := h.netOf q hq.1
    refine ⟨_, (hmemnet _).2 ⟨n, hn, rfl⟩, ?_⟩; split <;> simpa [rmPageNet_id] using e
  · intro n' hn'; rw [hmemnet] at hn'; obtain ⟨n, hn, rfl⟩ := hn'
    rw [freePage_pages]
    have h1 := h.nCached n hn
    split <;> rename_i e
    · have h2 := countP_rmId_pos h.pidNodup hp (P := fun q => decide (q.net = n.id)) (by simp [e])
      rw [rmPageNet_id, rmPageNet_nCached]; omega
    · have h2 := countP_rmId_neg h.pidNodup hp (P := fun q => decide (q.net = n.id)) (by simpa using fun x => e x.symm)
      omega
  · intro n' hn'; rw [hmemnet] at hn'; obtain ⟨n, hn, rfl⟩ := hn'
    rw [freePage_pages]
    have h1 := h.nRef n hn
    have h2 := countP_rmId_neg h.pidNodup hp (P := fun q => decide (q.net = n.id ∧ 0 < q.ref)) (by simp [hr])
    split
    · rw [rmPageNet_id, rmPageNet_nRef]; omega
    · omega
  · intro n' hn' pg; rw [hmemnet] at hn'; obtain ⟨n, hn, rfl⟩ := hn'
    rw [freePage_pages]
    have h1 := h.nSub n hn pg
    split <;> rename_i e
    · rw [rmPageNet_id, rmPageNet_getStat]
      split <;> rename_i e2
      · have h2 := countP_rmId_pos h.pidNodup hp (P := fun q => decide (q.net = n.id ∧ q.pgno = pg)) (by simp [e, e2])
        rw [← e2]; omega
      · have h2 := countP_rmId_neg h.pidNodup hp (P := fun q => decide (q.net = n.id ∧ q.pgno = pg))
            (by simpa using fun _ x => e2 x.symm)
        omega
    · have h2 := countP_rmId_neg h.pidNodup hp (P := fun q => decide (q.net = n.id ∧ q.pgno = pg))
            (by simpa using fun x => (e x.symm).elim)
      omega
  · rw [freePage_nCachedPages, freePage_pages]; have := length_rmId h.pidNodup hp; have := h.nPages; omega
  · rw [freePage_memUsed, freePage_pages, if_pos hnz]
    have h1 := h.mem
    have h2 := fsum_rmId_pos h.pidNodup hp (Q := fun q => decide (q.ref = 0)) Page.size (by simp [hr])
    unfold fsum at h2; omega
  · rw [freePage_nCachedNets, freePage_nets, countP_updNid (f := rmPageNet p.pgno) (fun n => !n.zombie) (fun n => rfl)]; exact h.nNets

theorem freePage_netKey (s : State) (p : Page) : (s.freePage p).nets.map netKey = s.nets.map netKey := by
  rw [freePage_nets]; exact map_netKey_updNid (fun n => rfl)

end Zvbi.Cache
