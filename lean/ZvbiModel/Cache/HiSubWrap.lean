import ZvbiModel.Cache.HiSub
/-!
# `n_subpages` wraps: a witness history for the negation of `hi_subno_agrees_full`

65536 stores of page 10A.5 into one network with every returned reference kept (each store replaces the version
before, which stays allocated as a zombie because its reference is held), then one store of 10A.1.  The `uint16_t`
counter `n_subpages` counts allocated versions - zombies included -, is 0 after the 65536th store and 1 after the
last one, so `cache_network_add_page` takes 10A.1 for "the only cached subpage" and starts the recorded range over:
`subno_min = subno_max = 1` while 10A.5 is cached and retrievable.  The page number is a hex page so that the key
rule does not depend on the page type and both source shapes of `_vbi_cache_put_page` take the same path
(`subno_mask = 0xF`).  The state after `k` stores has a closed form (`wSt`), proved by induction - nothing here is a
bounded computation.  Replayed on the real code: corpus/C10/latent_hi_subno_wrap.txt.
-/
namespace Zvbi.Cache
open Zvbi.Gen.Cache

def wA : PutArg := ⟨0x10A, 5, 0, 0, 0, 7⟩
def wB : PutArg := ⟨0x10A, 1, 0, 0, 0, 8⟩

/-- the version stored by the `i`-th store while it is the retrievable one -/
def wLive (i : Nat) : Page :=
  { id := i, net := 0, pgno := 0x10A, subno := 5, func := 0, x26 := 0, x28 := 0, ref := 1, pri := .normal, tag := 7 }
/-- ... and after it was replaced while its reference is held -/
def wZ (i : Nat) : Page := { wLive i with pri := .zombie }
def wZs : Nat → List Page
  | 0 => []
  | j + 1 => wZ j :: wZs j

/-- the cache after `j + 1` held stores of 10A.5; `n` is the record of the only network -/
def wSt (j : Nat) (n : Net) : State :=
  { pages := wLive j :: wZs j, priority := [], referenced := List.range (j + 1), nets := [n],
    nCachedPages := j + 1, memUsed := 0, memLimit := memoryLimit0, nCachedNets := 1, nNetsLimit := nNetworksLimit0,
    nextPid := j + 1, nextNid := 1 }

/-- what the witness needs to know about the network record after `k` stores -/
def WNet (k : Nat) (n : Net) : Prop :=
  n.id = 0 ∧ n.zombie = false ∧ (n.getStat 0x10A).nSub = k % 65536 ∧ rng n 0x10A = (5, 5)

theorem wZs_id : ∀ (j : Nat) (q : Page), q ∈ wZs j → q.id < j
  | 0, q, h => by simp [wZs] at h
  | j + 1, q, h => by
    simp only [wZs, List.mem_cons] at h
    rcases h with rfl | h
    · exact Nat.lt_succ_self j
    · exact Nat.lt_succ_of_lt (wZs_id j q h)

theorem wZs_zombie : ∀ (j : Nat) (q : Page), q ∈ wZs j → q.pri = .zombie ∧ q.subno = 5 ∧ q.net = 0 ∧ q.pgno = 0x10A
  | 0, q, h => by simp [wZs] at h
  | j + 1, q, h => by
    simp only [wZs, List.mem_cons] at h
    rcases h with rfl | h
    · exact ⟨rfl, rfl, rfl, rfl⟩
    · exact wZs_zombie j q h

theorem wZs_filter (j : Nat) : (wZs j).filter (fun q => q.id ≠ j) = wZs j :=
  List.filter_eq_self.2 (fun q hq => by have := wZs_id j q hq; simp; omega)

theorem wZs_map (j : Nat) (f : Page → Page) : (wZs j).map (fun p => if p.id = j then f p else p) = wZs j := by
  have : ∀ p ∈ wZs j, (fun p => if p.id = j then f p else p) p = id p := by
    intro p hp
    have := wZs_id j p hp
    simp only [id]
    rw [if_neg (by omega)]
  rw [List.map_congr_left this, List.map_id]

theorem wPutKey (t : Nat) (sub : Nat) : putKey t 0x10A sub = (sub, 0xF) := by
  unfold putKey
  rw [if_neg (by decide)]

theorem wPageSize : pageSize 0 0 0 = 1564 := by decide
theorem wPutPri (sub : Nat) : putPri 0x10A sub 0 = .normal := by
  unfold putPri
  rw [if_neg (by decide), if_neg (by decide), if_neg (by decide), if_neg (by decide), if_neg (fun h => absurd h.1 (by decide))]


theorem wFindNet (j : Nat) {n : Net} (hn : n.id = 0) : (wSt j n).findNet 0 = some n := by
  simp [State.findNet, wSt, hn]

/-- the look-up of the version to replace finds the retrievable version, already at the head of its chain -/
theorem wLookup (j : Nat) (n : Net) : (wSt j n).pageByPgno 0 0x10A 5 0xF = (wSt j n, some (wLive j)) := by
  unfold State.pageByPgno
  have h : (wSt j n).pages.find? (pageMatch 0 0x10A 5 0xF) = some (wLive j) := by
    show (wLive j :: wZs j).find? _ = _
    rw [List.find?_cons_of_pos (by simp [pageMatch, wLive])]
  rw [h]
  simp only [wSt, Prod.mk.injEq, and_true]
  congr 1
  show wLive j :: List.filter _ (wLive j :: wZs j) = _
  rw [List.filter_cons_of_neg (by simp [wLive])]
  exact congrArg (wLive j :: ·) (wZs_filter j)

/-- 10A.1 is not cached: the look-up under its key finds nothing -/
theorem wLookupB (j : Nat) (n : Net) : (wSt j n).pageByPgno 0 0x10A 1 0xF = (wSt j n, none) := by
  unfold State.pageByPgno
  have h : (wSt j n).pages.find? (pageMatch 0 0x10A 1 0xF) = none := by
    rw [List.find?_eq_none]
    intro q hq
    have hq' : q = wLive j ∨ q ∈ wZs j := List.mem_cons.1 hq
    rcases hq' with rfl | hz
    · simp [pageMatch, wLive]
    · have := (wZs_zombie j q hz).1
      simp [pageMatch, this]
  rw [h]

theorem wVictim (j : Nat) (n : Net) (avail : Int) :
    (wSt j n).putVictim (some (wLive j)) avail = ({ wSt j n with pages := wZs (j + 1) }, none, avail, []) := by
  unfold State.putVictim
  simp only
  rw [if_pos (show (wLive j).ref > 0 from Nat.one_pos)]
  simp only [Prod.mk.injEq, and_true]
  unfold State.updPage
  congr 1
  show (wLive j :: wZs j).map _ = wZ j :: wZs j
  rw [List.map_cons, if_pos rfl]
  exact congrArg (wZ j :: ·) (wZs_map j _)

/-- the insertion of a new version of 10A into the state after `j + 1` held stores, page list `ps` -/
theorem wInsert (j : Nat) {n : Net} (hn : n.id = 0) (hz : n.zombie = false) (ps : List Page) (sub tag : Nat) :
    (({ wSt j n with pages := ps, nCachedPages := j + 1 + 1 } : State).insertNew 0 ⟨0x10A, sub, 0, 0, 0, tag⟩ sub).1
      = { wSt (j + 1) (addPageNet 0x10A sub n) with
          pages := { id := j + 1, net := 0, pgno := 0x10A, subno := sub, func := 0, x26 := 0, x28 := 0, ref := 1,
                     pri := .normal, tag := tag } :: ps } := by
  have hnd : NidsNodup ({ wSt j n with pages := ps, nCachedPages := j + 1 + 1 } : State).nets := by
    show ([n].map (·.id)).Nodup
    simp
  have hm : n ∈ ({ wSt j n with pages := ps, nCachedPages := j + 1 + 1 } : State).nets := by
    show n ∈ [n]
    simp
  have := insertNew_eq hnd hm ⟨0x10A, sub, 0, 0, 0, tag⟩ sub
  rw [hn] at this
  rw [this]
  apply State.eq_of_fields
  · show _ :: ps = _ :: ps
    congr 1
    simp [State.insertNew, wSt, wPutPri]
  · rfl
  · show List.range (j + 1) ++ [_] = List.range (j + 1 + 1)
    rw [List.range_succ (n := j + 1)]
    rfl
  · show updNid [n] 0 _ = [_]
    simp [updNid, hn]
  · rfl
  · rfl
  · rfl
  · show 1 + (if n.zombie then 1 else 0) = 1
    rw [hz]; rfl
  · rfl
  · rfl
  · rfl


theorem wCollect (s : State) (row : List Nat) : collectAll s none ((1564 : Nat) : Int) ((memoryLimit0 : Int) - (0 : Nat)) row
    = .ok (some ((memoryLimit0 : Int) - (0 : Nat), row)) := by
  unfold collectAll
  rw [if_pos (by decide)]
  rfl

/-- everything after the look-up, for the store that replaces the held version `wLive j` -/
theorem wPutRestA (j : Nat) {n : Net} (hn : n.id = 0) (hz : n.zombie = false) :
    ∃ r, (wSt j n).putRest 0 wA 5 (some (wLive j)) ((memoryLimit0 : Int) - (0 : Nat))
      = .ok (wSt (j + 1) (addPageNet 0x10A 5 n), r) := by
  unfold State.putRest
  simp only [wVictim]
  have hs : pageSize wA.func wA.x26 wA.x28 = 1564 := by decide
  rw [hs]
  rw [wCollect]
  simp only
  unfold State.putReplace
  simp only
  rw [if_neg (by simp), if_neg (by simp)]
  simp only [List.foldl_nil]
  have := wInsert j hn hz (wZs (j + 1)) 5 7
  exact ⟨_, congrArg Except.ok (Prod.ext this rfl)⟩


/-- one more held store of 10A.5, either source shape -/
theorem wStepA (fix : Bool) (j : Nat) {n : Net} (hn : n.id = 0) (hz : n.zombie = false) :
    (stepF fix (wSt j n) (.put 0 wA)).1 = wSt (j + 1) (addPageNet 0x10A 5 n) := by
  obtain ⟨r, hr⟩ := wPutRestA j hn hz
  have hp : (wSt j n).putPageF fix 0 wA = .ok (wSt (j + 1) (addPageNet 0x10A 5 n), r) := by
    unfold State.putPageF
    rw [wFindNet j hn]
    simp only
    rw [if_neg (by decide), if_neg (by decide)]
    have hk : putKey (n.getStat wA.pgno).ptype wA.pgno wA.subno = (5, 0xF) := wPutKey _ 5
    rw [hk]
    have hl : (wSt j n).pageByPgno 0 wA.pgno (5 &&& 0xF) 0xF = (wSt j n, some (wLive j)) := wLookup j n
    cases fix with
    | false =>
      show (wSt j n).putTail 0 wA 5 0xF _ = _
      rw [putTail_rest]
      simp only [hl]
      exact hr
    | true =>
      show (wSt j n).putTailR 0 wA 5 0xF _ = _
      unfold State.putTailR
      simp only [hl]
      rw [if_neg (by decide)]
      exact hr
  unfold stepF
  simp only [hp]

/-- the network record after `k` stores -/
def wNetK : Nat → Net
  | 0 => { id := 0, ref := 1 }
  | k + 1 => addPageNet 0x10A 5 (wNetK k)

theorem wNetK_spec : ∀ k, 1 ≤ k → WNet k (wNetK k)
  | 0, h => absurd h (by decide)
  | 1, _ => by
    refine ⟨rfl, rfl, ?_, ?_⟩ <;> decide
  | k + 2, _ => by
    obtain ⟨h1, _, h3, h4⟩ := wNetK_spec (k + 1) (by omega)
    refine ⟨by rw [wNetK, addPageNet_id]; exact h1, addPageNet_zombie _ _ _, ?_, ?_⟩
    · rw [wNetK, addPageNet_nSub, if_pos rfl, h3]; omega
    · rw [wNetK, (addPageNet_rng 0x10A 5 (wNetK (k + 1))).1]
      unfold rng at h4
      simp only [Prod.mk.injEq] at h4
      rw [h4.1, h4.2]
      simp

theorem wNetK_id (k : Nat) : (wNetK k).id = 0 ∧ (wNetK k).zombie = false := by
  cases k with
  | zero => exact ⟨rfl, rfl⟩
  | succ k => exact ⟨(wNetK_spec (k + 1) (by omega)).1, (wNetK_spec (k + 1) (by omega)).2.1⟩

/-- `j + 1` held stores of 10A.5 after `addnet` -/
def wOps (k : Nat) : List Op := .addNet :: List.replicate k (.put 0 wA)

/-- the closed form of the state after `j + 1` held stores, by induction on `j` -/
theorem wRun (fix : Bool) : ∀ j, runF fix init (wOps (j + 1)) = wSt j (wNetK (j + 1))
  | 0 => by cases fix <;> decide +kernel
  | j + 1 => by
    have ih := wRun fix j
    have e : wOps (j + 1 + 1) = wOps (j + 1) ++ [.put 0 wA] := by
      unfold wOps
      rw [List.replicate_succ' , List.cons_append]
    rw [e]
    unfold runF at ih ⊢
    rw [List.foldl_append, ih]
    exact wStepA fix j (wNetK_id (j + 1)).1 (wNetK_id (j + 1)).2


/-- the store of 10A.1 (not cached: nothing is replaced), either source shape -/
theorem wStepB (fix : Bool) (j : Nat) {n : Net} (hn : n.id = 0) (hz : n.zombie = false) :
    (stepF fix (wSt j n) (.put 0 wB)).1 = { wSt (j + 1) (addPageNet 0x10A 1 n) with
      pages := { id := j + 1, net := 0, pgno := 0x10A, subno := 1, func := 0, x26 := 0, x28 := 0, ref := 1,
                 pri := .normal, tag := 8 } :: wLive j :: wZs j } := by
  have hr : (wSt j n).putRest 0 wB 1 none ((memoryLimit0 : Int) - (0 : Nat))
      = .ok ({ wSt (j + 1) (addPageNet 0x10A 1 n) with
        pages := { id := j + 1, net := 0, pgno := 0x10A, subno := 1, func := 0, x26 := 0, x28 := 0, ref := 1,
                   pri := .normal, tag := 8 } :: wLive j :: wZs j },
        some (({ wSt j n with nCachedPages := j + 1 + 1 } : State).insertNew 0 wB 1).2) := by
    unfold State.putRest State.putVictim
    simp only
    have hs : pageSize wB.func wB.x26 wB.x28 = 1564 := by decide
    rw [hs, wCollect]
    simp only
    unfold State.putReplace
    simp only
    rw [if_neg (by simp), if_neg (by simp)]
    simp only [List.foldl_nil]
    have := wInsert j hn hz (wLive j :: wZs j) 1 8
    exact congrArg Except.ok (Prod.ext this rfl)
  have hp : (wSt j n).putPageF fix 0 wB = .ok ({ wSt (j + 1) (addPageNet 0x10A 1 n) with
        pages := { id := j + 1, net := 0, pgno := 0x10A, subno := 1, func := 0, x26 := 0, x28 := 0, ref := 1,
                   pri := .normal, tag := 8 } :: wLive j :: wZs j },
        some (({ wSt j n with nCachedPages := j + 1 + 1 } : State).insertNew 0 wB 1).2) := by
    unfold State.putPageF
    rw [wFindNet j hn]
    simp only
    rw [if_neg (by decide), if_neg (by decide)]
    have hk : putKey (n.getStat wB.pgno).ptype wB.pgno wB.subno = (1, 0xF) := wPutKey _ 1
    rw [hk]
    have hl : (wSt j n).pageByPgno 0 wB.pgno (1 &&& 0xF) 0xF = (wSt j n, none) := wLookupB j n
    cases fix with
    | false =>
      show (wSt j n).putTail 0 wB 1 0xF _ = _
      rw [putTail_rest]
      simp only [hl]
      exact hr
    | true =>
      show (wSt j n).putTailR 0 wB 1 0xF _ = _
      unfold State.putTailR
      simp only [hl]
      exact hr
  unfold stepF
  simp only [hp]

/-- `addnet`, `j + 1` held stores of 10A.5, one store of 10A.1 -/
def wrapOpsJ (j : Nat) : List Op := wOps (j + 1) ++ [.put 0 wB]

/-- whenever the number of held stores is a multiple of 65536: after the history (either source shape) the version
    10A.5 stored last is allocated, retrievable (`pri = normal`) and held, the record of its network is on the network
    list, and the recorded range of page 10A is `1 .. 1`: `vbi_cache_hi_subno` answers 1 -/
theorem wrap_final_gen (fix : Bool) (j : Nat) (hj : (j + 1) % 65536 = 0) :
    wLive j ∈ (runF fix init (wrapOpsJ j)).pages ∧ addPageNet 0x10A 1 (wNetK (j + 1)) ∈ (runF fix init (wrapOpsJ j)).nets
    ∧ (wLive j).net = (addPageNet 0x10A 1 (wNetK (j + 1))).id
    ∧ rng (addPageNet 0x10A 1 (wNetK (j + 1))) 0x10A = (1, 1) := by
  have e : runF fix init (wrapOpsJ j) = (stepF fix (runF fix init (wOps (j + 1))) (.put 0 wB)).1 := by
    unfold wrapOpsJ runF
    rw [List.foldl_append]
    rfl
  rw [e, wRun fix j, wStepB fix j (wNetK_id (j + 1)).1 (wNetK_id (j + 1)).2]
  refine ⟨?_, ?_, ?_, ?_⟩
  · show wLive j ∈ _ :: wLive j :: _
    simp
  · show _ ∈ [_]
    simp
  · rw [addPageNet_id]; exact (wNetK_id (j + 1)).1.symm
  · obtain ⟨_, _, h3, h4⟩ := wNetK_spec (j + 1) (by omega)
    rw [(addPageNet_rng 0x10A 1 (wNetK (j + 1))).1, h3, hj]
    simp

theorem wrap_nets_gen (fix : Bool) (j : Nat) :
    (runF fix init (wrapOpsJ j)).nets = [addPageNet 0x10A 1 (wNetK (j + 1))] ∧ (addPageNet 0x10A 1 (wNetK (j + 1))).id = 0 := by
  have e : runF fix init (wrapOpsJ j) = (stepF fix (runF fix init (wOps (j + 1))) (.put 0 wB)).1 := by
    unfold wrapOpsJ runF
    rw [List.foldl_append]
    rfl
  rw [e, wRun fix j, wStepB fix j (wNetK_id (j + 1)).1 (wNetK_id (j + 1)).2]
  exact ⟨rfl, by rw [addPageNet_id]; exact (wNetK_id (j + 1)).1⟩

theorem wrapOpsJ_length (j : Nat) : (wrapOpsJ j).length = j + 3 := by
  simp only [wrapOpsJ, wOps, List.length_append, List.length_cons, List.length_replicate, List.length_nil]

/-- the witness history: `addnet`, 65536 held stores of 10A.5, one store of 10A.1 (65538 operations) -/
def wrapOps : List Op := wrapOpsJ 65535

theorem wrap_final (fix : Bool) :
    ∃ (n : Net) (p : Page), n ∈ (runF fix init wrapOps).nets ∧ p ∈ (runF fix init wrapOps).pages ∧ p.net = n.id
      ∧ p.pri = .normal ∧ 0 < p.ref ∧ p.pgno = 0x10A ∧ p.subno = 5 ∧ rng n 0x10A = (1, 1) := by
  obtain ⟨h1, h2, h3, h4⟩ := wrap_final_gen fix 65535 (by decide)
  exact ⟨_, _, h2, h1, h3, rfl, Nat.one_pos, rfl, rfl, h4⟩

/-- the network list of the final state is one record with id 0 -/
theorem wrap_nets (fix : Bool) : ∀ n ∈ (runF fix init wrapOps).nets, n.id = 0 := by
  intro n hn
  obtain ⟨h1, h2⟩ := wrap_nets_gen fix 65535
  have hn' : n ∈ (runF fix init (wrapOpsJ 65535)).nets := hn
  rw [h1, List.mem_singleton] at hn'
  rw [hn']; exact h2

theorem wrapOps_length : wrapOps.length = 65538 := wrapOpsJ_length 65535

end Zvbi.Cache
