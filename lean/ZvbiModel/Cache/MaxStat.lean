import ZvbiModel.Cache.MaxStatCalm
/-!
# `max_subpages` is a high-water mark of the number of allocated versions of a page number

`MaxInv`: for every network and page number `min (number of allocated versions) 65535 <= max_subpages`.
`MaxStat.Calm` operations keep it (the count can only go down, the member is untouched or the network owns no page);
the insertion of a new version raises the member with the counter.  With `InvW.nSub` this gives
`n_subpages <= max_subpages` after every history - through the wrap of the `uint16_t` counter too.
-/
namespace Zvbi.Cache.MaxStat
open Zvbi.Cache

theorem nodup_subset_length : ∀ (l1 l2 : List Nat), l1.Nodup → (∀ x ∈ l1, x ∈ l2) → l1.length ≤ l2.length := by
  intro l1
  induction l1 with
  | nil => intro _ _ _; exact Nat.zero_le _
  | cons a t ih =>
    intro l2 hnd hsub
    have hnd' := List.nodup_cons.1 hnd
    have ha : a ∈ l2 := hsub a List.mem_cons_self
    have := ih (l2.erase a) hnd'.2 (fun x hx => by
      have hne : x ≠ a := fun e => hnd'.1 (e ▸ hx)
      exact (List.mem_erase_of_ne hne).2 (hsub x (List.mem_cons_of_mem _ hx)))
    rw [List.length_erase_of_mem ha] at this
    have hpos : 0 < l2.length := List.length_pos_of_mem ha
    simp only [List.length_cons]
    omega

/-- number of allocated versions of page `pg` in network `nid` -/
def cnt (s : State) (nid pg : Nat) : Nat := s.pages.countP (fun p => p.net = nid ∧ p.pgno = pg)

/-- a `Calm` change can only lower the number of allocated versions -/
theorem cnt_le_of_calm {s s' : State} (h' : InvW s') (c : Calm s s') (nid pg : Nat) : cnt s' nid pg ≤ cnt s nid pg := by
  unfold cnt
  rw [List.countP_eq_length_filter, List.countP_eq_length_filter]
  have h1 : (((s'.pages.filter (fun p => decide (p.net = nid ∧ p.pgno = pg))).map (·.id))).Nodup :=
    (List.Sublist.map _ List.filter_sublist).nodup h'.pidNodup
  have := nodup_subset_length _ ((s.pages.filter (fun p => decide (p.net = nid ∧ p.pgno = pg))).map (·.id)) h1 (by
    intro x hx
    obtain ⟨q, hq, rfl⟩ := List.mem_map.1 hx
    obtain ⟨hq1, hq2⟩ := List.mem_filter.1 hq
    obtain ⟨p, hp, k⟩ := c.pages q hq1
    refine List.mem_map.2 ⟨p, List.mem_filter.2 ⟨hp, ?_⟩, k.1⟩
    simp only [decide_eq_true_eq] at hq2 ⊢
    exact ⟨k.2.1.trans hq2.1, k.2.2.1.trans hq2.2⟩)
  rw [List.length_map, List.length_map] at this
  exact this

def MaxInv (s : State) : Prop := ∀ n ∈ s.nets, ∀ pg, min (cnt s n.id pg) 65535 ≤ (n.getStat pg).maxSub

theorem max_of_calm {s s' : State} (h' : InvW s') (hi : MaxInv s) (c : Calm s s') : MaxInv s' := by
  intro n' hn' pg
  rcases c.nets n' hn' with ⟨n, hn, e, r⟩ | hno
  · have := hi n hn pg
    have hc := cnt_le_of_calm h' c n'.id pg
    have r1 : (n'.getStat pg).maxSub = (n.getStat pg).maxSub := r pg
    rw [r1, ← e]
    rw [e]
    rw [e] at this
    omega
  · have : cnt s' n'.id pg = 0 := by
      unfold cnt
      rw [List.countP_eq_zero]
      intro q hq
      simp only [decide_eq_true_eq]
      exact fun x => hno q hq x.1
    rw [this]
    exact Nat.zero_le _

theorem addPageNet_maxSub (pg subno pg' : Nat) (m : Net) :
    ((addPageNet pg subno m).getStat pg').maxSub
      = if pg' = pg then
          (if ((m.getStat pg).nSub + 1) % 65536 > (m.getStat pg).maxSub then ((m.getStat pg).nSub + 1) % 65536
           else (m.getStat pg).maxSub)
        else (m.getStat pg').maxSub := by
  have e : ∀ (x : Net) (q : Nat), x.stat = m.stat → x.defType = m.defType → x.getStat q = m.getStat q := by
    intro x q e1 e2; unfold Net.getStat; rw [e1, e2]
  have e0 : ∀ q, (if m.nCached + 1 > m.maxCached then
      ({ ({ m with nRef := m.nRef + 1, zombie := false, nCached := m.nCached + 1 } : Net) with maxCached := m.nCached + 1 } : Net)
      else ({ m with nRef := m.nRef + 1, zombie := false, nCached := m.nCached + 1 } : Net)).getStat q = m.getStat q := by
    intro q; split <;> exact e _ _ rfl rfl
  unfold addPageNet
  simp only [getStat_setStat]
  by_cases hpg : pg' = pg
  · subst hpg
    simp only [if_true, e0]
    by_cases c1 : ((m.getStat pg').nSub + 1) % 65536 > (m.getStat pg').maxSub <;>
    by_cases c2 : ((m.getStat pg').nSub + 1) % 65536 = 1 ∨ subno < (m.getStat pg').subMin <;>
    by_cases c3 : ((m.getStat pg').nSub + 1) % 65536 = 1 ∨ subno > (m.getStat pg').subMax <;>
    simp [c1, c2, c3]
  · simp only [if_neg hpg, e0]


theorem max_insert_aux {s0 T : State} {np : Page} {m : Net} {a : PutArg} {subno : Nat}
    (hp : T.pages = np :: s0.pages) (hn : T.nets = updNid s0.nets m.id (addPageNet a.pgno subno))
    (pnet : np.net = m.id) (ppg : np.pgno = a.pgno) (h0 : InvW s0) (hi : MaxInv s0) (hm : m ∈ s0.nets) : MaxInv T := by
  intro n' hn' pg
  rw [hn] at hn'
  obtain ⟨k, hk, rfl⟩ := mem_updNid.1 hn'
  have hcnt : ∀ nid, cnt T nid pg = cnt s0 nid pg + (if nid = m.id ∧ pg = a.pgno then 1 else 0) := by
    intro nid
    unfold cnt
    rw [hp, List.countP_cons]
    congr 1
    rw [pnet, ppg]
    by_cases c : nid = m.id ∧ pg = a.pgno
    · rw [if_pos c, if_pos (by simp [c.1, c.2])]
    · rw [if_neg c, if_neg (by simp only [decide_eq_true_eq]; exact fun x => c ⟨x.1.symm, x.2.symm⟩)]
  by_cases e : k.id = m.id
  · have hkm : k = m := net_unique h0.nidNodup hk hm e
    subst hkm
    rw [if_pos rfl, addPageNet_id, hcnt k.id, addPageNet_maxSub]
    have hb := hi k hk pg
    by_cases epg : pg = a.pgno
    · rw [epg] at hb ⊢
      rw [if_pos ⟨rfl, rfl⟩, if_pos rfl]
      have hns : (k.getStat a.pgno).nSub = cnt s0 k.id a.pgno % 65536 := h0.nSub k hk a.pgno
      rw [hns]
      generalize cnt s0 k.id a.pgno = c at hb ⊢
      generalize (k.getStat a.pgno).maxSub = M at hb ⊢
      rw [Nat.min_def] at hb ⊢
      by_cases h1 : c + 1 ≤ 65535
      · have e1 : (c % 65536 + 1) % 65536 = c + 1 := by omega
        rw [if_pos h1, e1]
        split <;> omega
      · rw [if_neg h1]
        have h2 : ¬ c ≤ 65535 ∨ c = 65535 := by omega
        have hM : 65535 ≤ M := by
          rcases h2 with h2 | h2
          · rw [if_neg h2] at hb; exact hb
          · rw [if_pos (by omega)] at hb; omega
        split <;> omega
    · rw [if_neg (fun x => epg x.2), if_neg epg]
      exact hb
  · rw [if_neg e, hcnt k.id, if_neg (fun x => e x.1)]
    exact hi k hk pg

/-- the insertion of the new page keeps `MaxInv`: `cache_network_add_page` raises `max_subpages` with the counter -/
theorem insertNew_max {s0 : State} (h0 : InvW s0) (hi : MaxInv s0) {m : Net} (hm : m ∈ s0.nets) (a : PutArg) (subno : Nat) :
    MaxInv (({ s0 with nCachedPages := s0.nCachedPages + 1 } : State).insertNew m.id a subno).1 := by
  have heq := insertNew_eq (s := ({ s0 with nCachedPages := s0.nCachedPages + 1 } : State)) h0.nidNodup hm a subno
  obtain ⟨_, pnet, ppg, _⟩ := insertNew_page ({ s0 with nCachedPages := s0.nCachedPages + 1 } : State) m.id a subno
  generalize (({ s0 with nCachedPages := s0.nCachedPages + 1 } : State).insertNew m.id a subno).2 = np at heq pnet ppg
  rw [heq]
  exact max_insert_aux (s0 := s0) rfl rfl pnet ppg h0 hi hm

/-- one operation keeps `MaxInv`, both source shapes -/
theorem max_stepF (fix : Bool) {s : State} (g : Good s) (hi : MaxInv s) (op : Op) : MaxInv (stepF fix s op).1 := by
  have g' := good_stepF fix g op
  cases op with
  | put nid a =>
    revert g'
    unfold stepF; simp only
    split
    · rename_i s' r hres
      intro g'
      unfold State.putPageF at hres
      split at hres
      · cases hres
      · rename_i cn hf
        obtain ⟨hcn, rfl⟩ := findNet_some' hf
        split at hres
        · simp only [Except.ok.injEq, Prod.mk.injEq] at hres; obtain ⟨rfl, _⟩ := hres; exact hi
        · split at hres
          · cases hres
          · rcases putTailF_shape fix g.1 g.2.1 hcn a _ _ _ hres with c | ⟨s0, m, i0, c0, hm, eid, e⟩
            · exact max_of_calm g'.1 hi c
            · subst e
              exact insertNew_max i0 (max_of_calm i0 hi c0) hm a _
    · intro _; exact hi
  | _ => exact max_of_calm g'.1 hi (calm_step g _ (fun nid a e => by cases e))

theorem max_runF (fix : Bool) (ops : List Op) {s : State} (g : Good s) (hi : MaxInv s) : MaxInv (runF fix s ops) := by
  induction ops generalizing s with
  | nil => exact hi
  | cons op t ih => exact ih (good_stepF fix g op) (max_stepF fix g hi op)

theorem max_init : MaxInv init := by intro n hn; simp [init] at hn

end Zvbi.Cache.MaxStat
