import ZvbiModel.Cache.LemmasList
/-!
# Facts about the network list and the page statistics
-/
namespace Zvbi.Cache

abbrev NidsNodup (l : List Net) : Prop := (l.map (·.id)).Nodup

def updNid (l : List Net) (x : Nat) (f : Net → Net) : List Net := l.map (fun n => if n.id = x then f n else n)

theorem updNet_nets (s : State) (x : Nat) (f : Net → Net) : (s.updNet x f).nets = updNid s.nets x f := rfl

theorem nidsNodup_cons {a : Net} {t : List Net} :
    NidsNodup (a :: t) ↔ (∀ q ∈ t, q.id ≠ a.id) ∧ NidsNodup t := by
  simp only [NidsNodup, List.map_cons, List.nodup_cons, List.mem_map, not_exists, not_and]

theorem net_unique {l : List Net} (h : NidsNodup l) {p q : Net} (hp : p ∈ l) (hq : q ∈ l)
    (e : p.id = q.id) : p = q := by
  induction l with
  | nil => cases hp
  | cons a t ih =>
    rw [nidsNodup_cons] at h
    rcases List.mem_cons.1 hp with rfl | hp' <;> rcases List.mem_cons.1 hq with rfl | hq'
    · rfl
    · exact absurd e.symm (h.1 q hq')
    · exact absurd e (h.1 p hp')
    · exact ih h.2 hp' hq'

theorem findNet_of_mem {l : List Net} (h : NidsNodup l) {p : Net} (hp : p ∈ l) :
    l.find? (fun q => q.id = p.id) = some p := by
  induction l with
  | nil => cases hp
  | cons a t ih =>
    rw [nidsNodup_cons] at h
    rcases List.mem_cons.1 hp with rfl | hp'
    · simp
    · have : a.id ≠ p.id := fun e => h.1 p hp' e.symm
      simp [this, ih h.2 hp']

theorem findNet_some {l : List Net} {x : Nat} {p : Net} (h : l.find? (fun q => q.id = x) = some p) :
    p ∈ l ∧ p.id = x := by
  have := List.find?_some h
  exact ⟨List.mem_of_find?_eq_some h, by simpa using this⟩

theorem findNet_none {l : List Net} {x : Nat} (h : l.find? (fun q => q.id = x) = none) :
    ∀ q ∈ l, q.id ≠ x := by
  intro q hq; have := List.find?_eq_none.1 h q hq; simpa using this

theorem mem_updNid {l : List Net} {x : Nat} {f : Net → Net} {q : Net} :
    q ∈ updNid l x f ↔ ∃ p ∈ l, q = if p.id = x then f p else p := by
  simp [updNid, eq_comm]

theorem map_id_updNid {l : List Net} {x : Nat} {f : Net → Net} (hf : ∀ p, (f p).id = p.id) :
    (updNid l x f).map (·.id) = l.map (·.id) := by
  unfold updNid; rw [List.map_map]; apply List.map_congr_left; intro p _
  by_cases h : p.id = x <;> simp [h, hf]

theorem countP_updNid {l : List Net} {x : Nat} {f : Net → Net} (P : Net → Bool) (hf : ∀ p, P (f p) = P p) :
    (updNid l x f).countP P = l.countP P := by
  unfold updNid; rw [List.countP_map]; congr 1; funext p
  by_cases h : p.id = x <;> simp [h, hf]

theorem countP_updNid_one {l : List Net} (h : NidsNodup l) {n : Net} (hn : n ∈ l) (f : Net → Net) (P : Net → Bool) :
    (updNid l n.id f).countP P + (if P n then 1 else 0) = l.countP P + (if P (f n) then 1 else 0) := by
  induction l with
  | nil => cases hn
  | cons a t ih =>
    rw [nidsNodup_cons] at h
    rcases List.mem_cons.1 hn with rfl | hn'
    · have : updNid (n :: t) n.id f = f n :: t := by
        have h2 : updNid t n.id f = t := by
          unfold updNid; conv => rhs; rw [← List.map_id t]
          apply List.map_congr_left; intro p hp; simp [h.1 p hp]
        simp only [updNid, List.map_cons, if_true] at h2 ⊢; rw [h2]
      rw [this, List.countP_cons, List.countP_cons]; omega
    · have hne : a.id ≠ n.id := fun e => h.1 n hn' e.symm
      have : updNid (a :: t) n.id f = a :: updNid t n.id f := by simp [updNid, hne]
      rw [this, List.countP_cons, List.countP_cons]; have := ih h.2 hn'; omega

theorem countP_filter_nid {l : List Net} (h : NidsNodup l) {n : Net} (hn : n ∈ l) (P : Net → Bool) :
    (l.filter (fun m => m.id ≠ n.id)).countP P + (if P n then 1 else 0) = l.countP P := by
  induction l with
  | nil => cases hn
  | cons a t ih =>
    rw [nidsNodup_cons] at h
    rcases List.mem_cons.1 hn with rfl | hn'
    · have : t.filter (fun m => decide (m.id ≠ n.id)) = t := by
        apply List.filter_eq_self.2; intro q hq; simpa using h.1 q hq
      rw [List.filter_cons]; simp only [ne_eq, not_true_eq_false, decide_false]
      simp only [ne_eq] at this; rw [this, List.countP_cons]; simp
    · have hne : a.id ≠ n.id := fun e => h.1 n hn' e.symm
      have := ih h.2 hn'
      rw [List.filter_cons]; simp only [hne, ne_eq, not_false_eq_true, decide_true, if_true, List.countP_cons]
      simp only [ne_eq] at this
      omega

theorem map_id_filter_nid (l : List Net) (x : Nat) :
    (l.filter (fun m => m.id ≠ x)).map (·.id) = (l.map (·.id)).filter (· ≠ x) := by
  rw [List.filter_map]; rfl

/-! ### page statistics -/

theorem lookup_filter_ne (l : List (Nat × PStat)) {pg pg' : Nat} (h : pg' ≠ pg) :
    (l.filter (fun e => e.1 ≠ pg)).lookup pg' = l.lookup pg' := by
  induction l with
  | nil => rfl
  | cons e t ih =>
    obtain ⟨k, v⟩ := e
    rw [List.filter_cons]
    by_cases he : k = pg
    · subst he
      have h1 : (pg' == k) = false := by simpa using h
      simp only [ne_eq, not_true_eq_false, decide_false, Bool.false_eq_true, if_false, List.lookup_cons, h1]
      exact ih
    · simp only [ne_eq, he, not_false_eq_true, decide_true, if_true, List.lookup_cons]
      rw [ih]

theorem getStat_setStat (n : Net) (pg pg' : Nat) (ps : PStat) :
    (n.setStat pg ps).getStat pg' = if pg' = pg then ps else n.getStat pg' := by
  unfold Net.setStat Net.getStat
  by_cases h : pg' = pg
  · subst h; simp [List.lookup_cons]
  · have h' : (pg' == pg) = false := by simpa using h
    simp only [List.lookup_cons, h', if_neg h]
    rw [lookup_filter_ne _ h]

@[simp] theorem setStat_id (n : Net) (pg : Nat) (ps : PStat) : (n.setStat pg ps).id = n.id := rfl
@[simp] theorem setStat_ref (n : Net) (pg : Nat) (ps : PStat) : (n.setStat pg ps).ref = n.ref := rfl
@[simp] theorem setStat_zombie (n : Net) (pg : Nat) (ps : PStat) : (n.setStat pg ps).zombie = n.zombie := rfl
@[simp] theorem setStat_nCached (n : Net) (pg : Nat) (ps : PStat) : (n.setStat pg ps).nCached = n.nCached := rfl
@[simp] theorem setStat_nRef (n : Net) (pg : Nat) (ps : PStat) : (n.setStat pg ps).nRef = n.nRef := rfl
@[simp] theorem setStat_maxCached (n : Net) (pg : Nat) (ps : PStat) : (n.setStat pg ps).maxCached = n.maxCached := rfl

end Zvbi.Cache
