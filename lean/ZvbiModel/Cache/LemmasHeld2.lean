import ZvbiModel.Cache.LemmasHeld
/-!
# A held page through the operations that take and release page references
-/
namespace Zvbi.Cache

/-- same page, same content (reference count and `pri` may differ) -/
def sameCont (p q : Page) : Prop :=
  p.id = q.id ∧ p.net = q.net ∧ p.pgno = q.pgno ∧ p.subno = q.subno ∧ p.func = q.func ∧ p.x26 = q.x26
    ∧ p.x28 = q.x28 ∧ p.tag = q.tag

theorem sameCont.rfl' (p : Page) : sameCont p p := ⟨rfl, rfl, rfl, rfl, rfl, rfl, rfl, rfl⟩
theorem sameCont.trans {a b c : Page} (h1 : sameCont a b) (h2 : sameCont b c) : sameCont a c := by
  obtain ⟨a1, a2, a3, a4, a5, a6, a7, a8⟩ := h1
  obtain ⟨b1, b2, b3, b4, b5, b6, b7, b8⟩ := h2
  exact ⟨a1.trans b1, a2.trans b2, a3.trans b3, a4.trans b4, a5.trans b5, a6.trans b6, a7.trans b7, a8.trans b8⟩
theorem sameBody.cont {p q : Page} (h : sameBody p q) : sameCont p q :=
  ⟨h.1, h.2.1, h.2.2.1, h.2.2.2.1, h.2.2.2.2.1, h.2.2.2.2.2.1, h.2.2.2.2.2.2.1, h.2.2.2.2.2.2.2.1⟩
theorem sameBody.ref {p q : Page} (h : sameBody p q) : p.ref = q.ref := h.2.2.2.2.2.2.2.2

/-- `cache_page_ref (cp)`: every page stays, only `cp` gains one reference -/
theorem pageRef_ledger {s : State} (h : InvW s) (x : Nat) :
    ∀ q ∈ s.pages, ∃ q' ∈ (s.pageRef x).pages, sameCont q q'
      ∧ q'.ref = q.ref + (if q.id = x ∧ (s.findPage x).isSome then 1 else 0) := by
  intro q hq
  cases hf : s.findPage x with
  | none =>
    have : s.pageRef x = s := by unfold State.pageRef; rw [hf]
    rw [this]; exact ⟨q, hq, sameCont.rfl' q, by simp⟩
  | some p =>
    obtain ⟨hp, rfl⟩ := findPage_some hf
    rw [pageRef_pages s hf]
    refine ⟨_, mem_updId.2 ⟨q, hq, rfl⟩, ?_, ?_⟩
    · split
      · exact ⟨rfl, rfl, rfl, rfl, rfl, rfl, rfl, rfl⟩
      · exact sameCont.rfl' q
    · by_cases e : q.id = p.id
      · simp [e]
      · simp [e]

theorem pageRef_found {s : State} (h : InvW s) {p : Page} (hp : p ∈ s.pages) :
    ∃ p', (s.pageRef p.id).findPage p.id = some p' ∧ p'.id = p.id := by
  have hf := findPage_of_mem' h hp
  have hmem : ({ p with ref := p.ref + 1 } : Page) ∈ (s.pageRef p.id).pages := by
    rw [pageRef_pages s hf]; exact mem_updId.2 ⟨p, hp, by rw [if_pos rfl]⟩
  have hnd : IdsNodup (s.pageRef p.id).pages := by
    rw [pageRef_pages s hf]; show (List.map _ _).Nodup
    rw [map_id_updId (f := fun p => { p with ref := p.ref + 1 }) (fun _ => rfl)]; exact h.pidNodup
  exact ⟨{ p with ref := p.ref + 1 }, find_of_mem (p := { p with ref := p.ref + 1 }) hnd hmem, rfl⟩

/-- `cache_page_unref (cp)`: every other referenced page stays as it is, `cp` loses one reference or,
    if that was the last one, is no longer held -/
theorem pageUnref_ledger {s : State} (h : InvW s) (hz : ZNet s) (x : Nat) :
    ∀ q ∈ s.pages, 0 < q.ref → (q.id = x ∧ q.ref = 1) ∨
      ∃ q' ∈ (s.pageUnref x).pages, sameCont q q' ∧ q'.ref + (if q.id = x then 1 else 0) = q.ref := by
  intro q hq hqr
  unfold State.pageUnref
  split
  · rename_i hf
    right; exact ⟨q, hq, sameCont.rfl' q, by rw [if_neg (find_none hf q hq)]; rfl⟩
  · rename_i p hf
    obtain ⟨hp, rfl⟩ := findPage_some hf
    by_cases e : q.id = p.id
    · have : q = p := mem_unique h.pidNodup hq hp e
      subst this
      split
      · omega
      · split
        · left; exact ⟨rfl, by assumption⟩
        · rename_i h0 h1
          right
          refine ⟨{ q with ref := q.ref - 1 }, ?_, ⟨rfl, rfl, rfl, rfl, rfl, rfl, rfl, rfl⟩, ?_⟩
          · rw [updPage_pages]; exact mem_updId.2 ⟨q, hq, by rw [if_pos rfl]⟩
          · simp only [if_true]; show q.ref - 1 + 1 = q.ref; omega
    · right
      rw [if_neg e]
      split
      · exact ⟨q, hq, sameCont.rfl' q, rfl⟩
      · split
        · rename_i hr1
          -- last reference to `p`: `q` is another page and referenced, nothing deletes it
          have tail : ∀ (s1 : State), InvW s1 → ZNetOn s1 (fun i => i ≠ p.net) → q ∈ s1.pages →
              ∃ q' ∈ (s1.unrefTail p.net).pages, sameCont q q' ∧ q'.ref + 0 = q.ref := by
            intro s1 h1 z1 hq1
            obtain ⟨h2, z2, p2⟩ := unrefNetCheck_all h1 p.net z1
            obtain ⟨q2, hq2, b2⟩ := p2.keep h1 q hq1 hqr
            have hq2r : 0 < q2.ref := by rw [← b2.ref]; exact hqr
            unfold State.unrefTail State.memCheck
            split
            · obtain ⟨q3, hq3, b3⟩ := (deleteSurplusPages_shrinks (s1.unrefNetCheck p.net)).keep h2 q2 hq2 hq2r
              exact ⟨q3, hq3, b2.cont.trans b3.cont, by rw [← b3.ref, ← b2.ref]; rfl⟩
            · exact ⟨q2, hq2, b2.cont, by rw [← b2.ref]; rfl⟩
          split
          · rename_i hzp
            refine tail _ (unrefZombie_invW h hp hr1 hzp) (unrefZombie_znet h hz hp hzp) ?_
            rw [(unrefZombie_fields h hp hzp).1, mem_rmId]; exact ⟨hq, e⟩
          · rename_i hzp
            refine tail _ (unrefLast_invW h hp hr1 hzp) (unrefLast_znet hz p) ?_
            rw [(unrefLast_fields s p).1]; exact mem_updId.2 ⟨q, hq, by rw [if_neg e]⟩
        · refine ⟨q, ?_, sameCont.rfl' q, rfl⟩
          rw [updPage_pages]; exact mem_updId.2 ⟨q, hq, by rw [if_neg e]⟩

end Zvbi.Cache

namespace Zvbi.Cache

/-- reference ledger relative to a start state: every page held there is still here, with exactly one
    more reference if it is the page the walk currently holds -/
def Ledger (s0 s : State) (cp : Option Nat) : Prop :=
  ∀ q ∈ s0.pages, 0 < q.ref → ∃ q' ∈ s.pages, sameCont q q' ∧ q'.ref = q.ref + (if cp = some q.id then 1 else 0)

theorem Ledger.refl (s : State) : Ledger s s none := fun q hq _ => ⟨q, hq, sameCont.rfl' q, by simp⟩

theorem ledger_ref {s0 s : State} (l : Ledger s0 s none) (h : InvW s) {p : Page} (hp : p ∈ s.pages) :
    Ledger s0 (s.pageRef p.id) (some p.id) := by
  intro q hq hr
  obtain ⟨q1, hq1, c1, r1⟩ := l q hq hr
  obtain ⟨q2, hq2, c2, r2⟩ := pageRef_ledger h p.id q1 hq1
  refine ⟨q2, hq2, c1.trans c2, ?_⟩
  rw [r2, r1, findPage_of_mem' h hp]
  simp only [reduceCtorEq, if_false, Nat.add_zero, Option.isSome_some, and_true, Option.some.injEq]
  rw [← c1.1]
  by_cases e : q.id = p.id
  · simp [e]
  · have e' : ¬ p.id = q.id := fun x => e x.symm
    simp [e, e']

theorem ledger_unref {s0 s : State} {x : Nat} (l : Ledger s0 s (some x)) (h : InvW s) (hz : ZNet s) :
    Ledger s0 (s.pageUnref x) none := by
  intro q hq hr
  obtain ⟨q1, hq1, c1, r1⟩ := l q hq hr
  have hq1r : 0 < q1.ref := by omega
  rcases pageUnref_ledger h hz x q1 hq1 hq1r with ⟨e, e1⟩ | ⟨q2, hq2, c2, r2⟩
  · -- the walk's own reference was on top of the client's: not the last one
    rw [← c1.1] at e
    rw [if_pos (by rw [e])] at r1
    omega
  · refine ⟨q2, hq2, c1.trans c2, ?_⟩
    rw [← c1.1] at r2
    by_cases e : q.id = x
    · rw [if_pos e] at r2; rw [if_pos (by rw [e])] at r1; simp; omega
    · rw [if_neg e] at r2
      have : ¬ (some x = some q.id) := by simpa using fun y => e y.symm
      rw [if_neg this] at r1; simp; omega

theorem ledger_move {s0 s : State} {cp : Option Nat} (l : Ledger s0 s cp) (h : InvW s) (nid pgno subno mask : Nat) :
    Ledger s0 (s.pageByPgno nid pgno subno mask).1 cp := by
  intro q hq hr
  obtain ⟨q1, hq1, c1, r1⟩ := l q hq hr
  exact ⟨q1, ((pageByPgno_all h nid pgno subno mask).2.2.1 q1).2 hq1, c1, r1⟩

/-- reference on the page a look-up found -/
def lookupRes (r : State × Option Page) : State × Option Page :=
  match r with
  | (s1, none) => (s1, none)
  | (s1, some p) => (s1.pageRef p.id, (s1.pageRef p.id).findPage p.id)

/-- look-up + reference (common part of `_vbi_cache_get_page` and the exact look-up of the walk) -/
theorem ledger_lookup {s0 s : State} (l : Ledger s0 s none) (h : InvW s) (nid pgno subno mask : Nat) :
    Ledger s0 (lookupRes (s.pageByPgno nid pgno subno mask)).1 ((lookupRes (s.pageByPgno nid pgno subno mask)).2.map (·.id)) := by
  have lm := ledger_move l h nid pgno subno mask
  obtain ⟨a1, _, a3, _, _, _, _, _, a9⟩ := pageByPgno_all h nid pgno subno mask
  generalize s.pageByPgno nid pgno subno mask = r0 at lm a1 a3 a9
  obtain ⟨s1, o⟩ := r0
  cases o with
  | none => exact lm
  | some p =>
    have hp1 : p ∈ s1.pages := (a3 p).2 (a9 p rfl).1
    obtain ⟨p', hf', e'⟩ := pageRef_found a1 hp1
    show Ledger s0 (s1.pageRef p.id) (((s1.pageRef p.id).findPage p.id).map (·.id))
    rw [hf']; simp only [Option.map_some, e']
    exact ledger_ref lm a1 hp1

theorem ledger_getPage {s0 s : State} (l : Ledger s0 s none) (h : InvW s) (nid pgno : Nat) (subno : Int) (mask : Nat) :
    Ledger s0 (s.getPage nid pgno subno mask).1 ((s.getPage nid pgno subno mask).2.map (·.id)) := by
  unfold State.getPage
  split
  · exact l
  · split
    · exact l
    · exact ledger_lookup l h nid pgno subno.toNat _

theorem ledger_lookupExact {s0 s : State} (l : Ledger s0 s none) (h : InvW s) (nid pgno : Nat) (subno : Int) :
    Ledger s0 (s.lookupExact nid pgno subno).1 ((s.lookupExact nid pgno subno).2.map (·.id)) := by
  unfold State.lookupExact
  split
  · exact l
  · exact ledger_lookup l h nid pgno subno.toNat _

theorem ledger_walkVisit {s0 s : State} {cp : Option Page} (l : Ledger s0 s (cp.map (·.id))) (g : Good s)
    (wrapped : Bool) (vs : List Visit) : Ledger s0 (walkVisit s cp wrapped vs).1 none := by
  unfold walkVisit
  cases cp with
  | none => exact l
  | some p => exact ledger_unref l g.1 g.2.1

theorem ledger_walkLoop (s0 : State) (nid : Nat) (dir : Int) (stop : Nat) :
    ∀ (fuel : Nat) (s : State) (cp : Option Page) (pgno : Nat) (subno : Int) (wrapped : Bool) (vs : List Visit),
      Good s → Ledger s0 s (cp.map (·.id)) →
      ∃ cp', Ledger s0 (walkLoop nid dir stop fuel s cp pgno subno wrapped vs).1 cp' := by
  intro fuel
  induction fuel with
  | zero => intro s cp pgno subno wrapped vs g l; exact ⟨_, l⟩
  | succ k ih =>
    intro s cp pgno subno wrapped vs g l
    unfold walkLoop
    have g1 := good_walkVisit g cp wrapped vs
    have l1 := ledger_walkVisit l g wrapped vs
    generalize walkVisit s cp wrapped vs = r at g1 l1
    simp only
    split
    · exact ⟨_, l1⟩
    · split
      · exact ⟨_, l1⟩
      · split
        · exact ⟨_, l1⟩
        · exact ⟨_, l1⟩
        · exact ih _ _ _ _ _ _ (good_lookupExact g1 _ _ _) (ledger_lookupExact l1 g1.1 _ _ _)

/-- both shapes of the start look-up -/
theorem ledger_foreachS (exact : Bool) {s : State} (g : Good s) (nid pgno subno : Nat) (dir : Int) (stop fuel : Nat) :
    ∃ cp', Ledger s (s.foreachPageS exact nid pgno subno dir stop fuel).1 cp' := by
  unfold State.foreachPageS
  split
  · exact ⟨_, Ledger.refl s⟩
  · split
    · exact ⟨_, Ledger.refl s⟩
    · split
      · simp only
        split
        · exact ledger_walkLoop s _ _ _ _ _ _ _ _ _ _ (good_lookupExact g _ _ _)
            (ledger_lookupExact (Ledger.refl s) g.1 _ _ _)
        · exact ledger_walkLoop s _ _ _ _ s none _ _ _ _ g (Ledger.refl s)
      · exact ledger_walkLoop s _ _ _ _ _ _ _ _ _ _ (good_getPage g _ _ _ _) (ledger_getPage (Ledger.refl s) g.1 _ _ _ _)

theorem ledger_foreach {s : State} (g : Good s) (nid pgno subno : Nat) (dir : Int) (stop fuel : Nat) :
    ∃ cp', Ledger s (s.foreachPage nid pgno subno dir stop fuel).1 cp' := ledger_foreachS _ g _ _ _ _ _ _

/-- a ledger entry gives: still there, content unchanged, at least as many references -/
theorem ledger_ge {s0 s : State} {cp : Option Nat} (l : Ledger s0 s cp) :
    ∀ q ∈ s0.pages, 0 < q.ref → ∃ q' ∈ s.pages, sameCont q q' ∧ q.ref ≤ q'.ref := by
  intro q hq hr
  obtain ⟨q', hq', c, r⟩ := l q hq hr
  exact ⟨q', hq', c, by omega⟩

/-- FULL: through any operation a held page keeps its content; its reference count changes only by the references
    the operation takes or releases on it; it disappears only by the release of its last reference -/
theorem held_full_step {s : State} (g : Good s) (op : Op) (p : Page) (hp : p ∈ s.pages) (hr : 0 < p.ref) :
    (op = .unref p.id ∧ p.ref = 1) ∨
    ∃ q ∈ (step s op).1.pages, sameCont p q ∧ p.ref ≤ q.ref + (if op = .unref p.id then 1 else 0) := by
  have viaKept : HeldKept s (step s op).1 → (op = .unref p.id ∧ p.ref = 1) ∨
      ∃ q ∈ (step s op).1.pages, sameCont p q ∧ p.ref ≤ q.ref + (if op = .unref p.id then 1 else 0) := by
    intro hk
    obtain ⟨q, hq, b⟩ := hk p hp hr
    exact Or.inr ⟨q, hq, b.cont, by rw [b.ref]; omega⟩
  have viaLedger : (∃ cp', Ledger s (step s op).1 cp') → (op = .unref p.id ∧ p.ref = 1) ∨
      ∃ q ∈ (step s op).1.pages, sameCont p q ∧ p.ref ≤ q.ref + (if op = .unref p.id then 1 else 0) := by
    rintro ⟨cp', l⟩
    obtain ⟨q, hq, c, r⟩ := ledger_ge l p hp hr
    exact Or.inr ⟨q, hq, c, by omega⟩
  obtain ⟨h, hz, hm⟩ := g
  have g : Good s := ⟨h, hz, hm⟩
  cases op with
  | get nid pgno subno mask =>
    apply viaLedger
    unfold step; simp only
    split
    · exact ⟨_, Ledger.refl s⟩
    · exact ⟨_, ledger_getPage (Ledger.refl s) h _ _ _ _⟩
  | ref pid =>
    apply viaLedger
    unfold step; simp only
    split
    · exact ⟨_, Ledger.refl s⟩
    · rename_i p0 hf
      obtain ⟨hp0, rfl⟩ := findPage_some hf
      split
      · exact ⟨_, Ledger.refl s⟩
      · exact ⟨_, ledger_ref (Ledger.refl s) h hp0⟩
  | unref pid =>
    unfold step; simp only
    split
    · exact Or.inr ⟨p, hp, sameCont.rfl' p, by omega⟩
    · split
      · exact Or.inr ⟨p, hp, sameCont.rfl' p, by omega⟩
      · rcases pageUnref_ledger h hz pid p hp hr with ⟨e, e1⟩ | ⟨q, hq, c, r⟩
        · left; exact ⟨by rw [e], e1⟩
        · right
          refine ⟨q, hq, c, ?_⟩
          by_cases e : p.id = pid
          · rw [if_pos e] at r; rw [if_pos (by rw [e])]; omega
          · rw [if_neg e] at r; omega
  | isCached nid pgno subno =>
    apply viaLedger
    unfold step; simp only
    split
    · exact ⟨_, Ledger.refl s⟩
    · have l1 := ledger_getPage (Ledger.refl s) h nid pgno (subno : Int) 0xFFFFFFFF
      have g1 := good_getPage g nid pgno (subno : Int) 0xFFFFFFFF
      split
      · rename_i s' p0 hh
        rw [hh] at l1 g1
        exact ⟨_, ledger_unref l1 g1.1 g1.2.1⟩
      · rename_i s' hh
        rw [hh] at l1
        exact ⟨_, l1⟩
  | «foreach» nid pgno subno back stop =>
    apply viaLedger
    unfold step; simp only
    split
    · exact ⟨_, Ledger.refl s⟩
    · split
      · exact ⟨_, Ledger.refl s⟩
      · exact ledger_foreach g _ _ _ _ _ _
  | put nid a => exact viaKept (held_step g _ trivial)
  | hiSubno nid pgno => exact viaKept (held_step g _ trivial)
  | addNet => exact viaKept (held_step g _ trivial)
  | netRef nid => exact viaKept (held_step g _ trivial)
  | netUnref nid => exact viaKept (held_step g _ trivial)
  | chsw nid => exact viaKept (held_step g _ trivial)
  | statReset nid => exact viaKept (held_step g _ trivial)
  | ptype nid pgno t => exact viaKept (held_step g _ trivial)
  | purge => exact viaKept (held_step g _ trivial)
  | setLimit n => exact viaKept (held_step g _ trivial)

end Zvbi.Cache

namespace Zvbi.Cache

theorem good_runFrom {s : State} (g : Good s) (ops : List Op) : Good (run s ops) := by
  induction ops generalizing s with
  | nil => exact g
  | cons op t ih => exact ih (good_step g op)

/-- over a whole history that does not release a reference on it, a held page stays intact -/
theorem held_history {s : State} (g : Good s) (ops : List Op) (p : Page) (hp : p ∈ s.pages) (hr : 0 < p.ref)
    (hno : ∀ op ∈ ops, op ≠ .unref p.id) :
    ∃ q ∈ (run s ops).pages, sameCont p q ∧ p.ref ≤ q.ref := by
  induction ops generalizing s p with
  | nil => exact ⟨p, hp, sameCont.rfl' p, Nat.le_refl _⟩
  | cons op t ih =>
    have hne : op ≠ .unref p.id := hno op List.mem_cons_self
    rcases held_full_step g op p hp hr with ⟨e, _⟩ | ⟨q, hq, c, r⟩
    · exact absurd e hne
    · rw [if_neg hne] at r
      have hqr : 0 < q.ref := by omega
      obtain ⟨q2, hq2, c2, r2⟩ := ih (good_step g op) q hq hqr
        (fun o ho => by rw [← c.1]; exact hno o (List.mem_cons_of_mem _ ho))
      exact ⟨q2, hq2, c.trans c2, by omega⟩

end Zvbi.Cache
