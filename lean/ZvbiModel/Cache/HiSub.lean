import ZvbiModel.Cache.HiSubCalm
/-!
# 'highest subpage' agrees with the map

`HiInv`: the recorded sub-page range of every network bounds the sub-page numbers of all its allocated pages
(cached versions and replaced versions still held).  `Calm` operations keep it (HiSubCalm.lean); a store keeps it
when the `uint16_t` counter `n_subpages` does not wrap and the sub-page number fits the `uint16_t` range members.
-/
namespace Zvbi.Cache

theorem getStat_fields (n : Net) (pg : Nat) (a b c : Nat) (z : Bool) :
    ({ n with nRef := a, zombie := z, nCached := b, maxCached := c } : Net).getStat pg = n.getStat pg := rfl

theorem addPageNet_rng (pg subno : Nat) (m : Net) :
    rng (addPageNet pg subno m) pg
      = (if ((m.getStat pg).nSub + 1) % 65536 = 1 ∨ subno < (m.getStat pg).subMin then subno % 65536 else (m.getStat pg).subMin,
         if ((m.getStat pg).nSub + 1) % 65536 = 1 ∨ subno > (m.getStat pg).subMax then subno % 65536 else (m.getStat pg).subMax)
    ∧ ∀ pg', pg' ≠ pg → rng (addPageNet pg subno m) pg' = rng m pg' := by
  constructor
  · unfold rng addPageNet
    simp only [getStat_setStat, if_true]
    have e : ∀ (x : Net), x.stat = m.stat → x.defType = m.defType → x.getStat pg = m.getStat pg := by
      intro x e1 e2; unfold Net.getStat; rw [e1, e2]
    have e0 : (if m.nCached + 1 > m.maxCached then
        ({ ({ m with nRef := m.nRef + 1, zombie := false, nCached := m.nCached + 1 } : Net) with maxCached := m.nCached + 1 } : Net)
        else ({ m with nRef := m.nRef + 1, zombie := false, nCached := m.nCached + 1 } : Net)).getStat pg = m.getStat pg := by
      split <;> exact e _ rfl rfl
    simp only [e0]
    by_cases c1 : ((m.getStat pg).nSub + 1) % 65536 > (m.getStat pg).maxSub <;>
    by_cases c2 : ((m.getStat pg).nSub + 1) % 65536 = 1 ∨ subno < (m.getStat pg).subMin <;>
    by_cases c3 : ((m.getStat pg).nSub + 1) % 65536 = 1 ∨ subno > (m.getStat pg).subMax <;>
    simp [c1, c2, c3]
  · intro pg' hne
    unfold rng addPageNet
    simp only [getStat_setStat, if_neg hne]
    have e : ∀ (x : Net), x.stat = m.stat → x.defType = m.defType → x.getStat pg' = m.getStat pg' := by
      intro x e1 e2; unfold Net.getStat; rw [e1, e2]
    have e0 : (if m.nCached + 1 > m.maxCached then
        ({ ({ m with nRef := m.nRef + 1, zombie := false, nCached := m.nCached + 1 } : Net) with maxCached := m.nCached + 1 } : Net)
        else ({ m with nRef := m.nRef + 1, zombie := false, nCached := m.nCached + 1 } : Net)).getStat pg' = m.getStat pg' := by
      split <;> exact e _ rfl rfl
    simp only [e0]

/-- the recorded range bounds every allocated page of the network -/
def HiInv (s : State) : Prop :=
  ∀ n ∈ s.nets, ∀ p ∈ s.pages, p.net = n.id →
    (n.getStat p.pgno).subMin ≤ p.subno ∧ p.subno ≤ (n.getStat p.pgno).subMax

theorem hi_of_calm {s s' : State} (hi : HiInv s) (c : Calm s s') : HiInv s' := by
  intro n' hn' q hq hnet
  rcases c.nets n' hn' with ⟨n, hn, e, r⟩ | hno
  · obtain ⟨p, hp, k⟩ := c.pages q hq
    have := hi n hn p hp (by rw [k.2.1, hnet, e])
    have r1 := r q.pgno
    unfold rng at r1
    simp only [Prod.mk.injEq] at r1
    rw [r1.1, r1.2, ← k.2.2.1, ← k.2.2.2.1]
    exact this
  · exact absurd hnet (hno q hq)

/-- what `_vbi_cache_put_page` does from `replace:` on: victims leave (a `Calm` change of an invariant state), then the
    new page is inserted -/
theorem putReplace_base {s : State} (h : InvW s) {n : Net} (hn : n ∈ s.nets) (a : PutArg) (subno : Nat)
    (avail : Int) {row : List Nat} (hrow : ∀ id ∈ row, id ∈ s.priority) {s' : State} {r : Option Page}
    (hres : s.putReplace n.id a subno avail row = .ok (s', r)) :
    ∃ s0 m, InvW s0 ∧ Calm s s0 ∧ m ∈ s0.nets ∧ m.id = n.id
      ∧ s' = (({ s0 with nCachedPages := s0.nCachedPages + 1 } : State).insertNew m.id a subno).1 := by
  unfold State.putReplace at hres
  simp only at hres
  split at hres
  · rename_i hc
    split at hres
    · cases hres
    · rename_i v hv
      split at hres
      · cases hres
      · rename_i hsz
        simp only [Except.ok.injEq, Prod.mk.injEq] at hres
        obtain ⟨rfl, _⟩ := hres
        have hrow1 : ∃ id, row = [id] := by
          match row, hc.2 with
          | [id], _ => exact ⟨id, rfl⟩
        obtain ⟨id, rfl⟩ := hrow1
        have hv' : s.findPage id = some v := by simpa using hv
        obtain ⟨hvm, rfl⟩ := findPage_some hv'
        have hv0 : v.ref = 0 := by
          obtain ⟨q, hq, e, hq0⟩ := (h.priMem v.id).1 (hrow v.id (by simp))
          rw [← mem_unique h.pidNodup hq hvm e]; exact hq0
        have hnz : v.pri ≠ .zombie := fun e => by have := h.zombieRef v hvm e; omega
        have hbase := freePage_invW h hvm hv0
        have hpos : 0 < s.nCachedPages := by
          have := h.nPages; have : 0 < s.pages.length := List.length_pos_of_mem hvm; omega
        have hsz' : v.size = (pageSize a.func a.x26 a.x28) := by
          by_cases e : v.size = pageSize a.func a.x26 a.x28
          · exact e
          · exact absurd e (by simpa using hsz)
        have est : ({ ((s.unlinkPri v.id).dropPage v.id).netRemovePage v.net v.pgno with
              memUsed := (((s.unlinkPri v.id).dropPage v.id).netRemovePage v.net v.pgno).memUsed
                - (Int.toNat (pageSize a.func a.x26 a.x28 : Int)) } : State)
            = { s.freePage v with nCachedPages := (s.freePage v).nCachedPages + 1 } := by
          apply State.eq_of_fields
          · rw [freePage_pages]; rfl
          · rw [freePage_priority]; rfl
          · rw [freePage_referenced]; rfl
          · rw [freePage_nets]; rfl
          · show s.nCachedPages = (s.freePage v).nCachedPages + 1
            rw [freePage_nCachedPages]; omega
          · show s.memUsed - _ = (s.freePage v).memUsed
            rw [freePage_memUsed, if_pos hnz, hsz']; simp
          · rw [freePage_memLimit]; rfl
          · rw [freePage_nCachedNets]; rfl
          · unfold State.freePage; split <;> rfl
          · rw [freePage_nextPid]; rfl
          · rw [freePage_nextNid]; rfl
        rw [est]
        obtain ⟨m, hm, ek⟩ := net_of_key (freePage_netKey s v) hn
        have eid : m.id = n.id := by simp only [netKey, Prod.mk.injEq] at ek; exact ek.1
        exact ⟨s.freePage v, m, hbase, freePage_calm s v, hm, eid, by rw [eid]⟩
  · split at hres
    · cases hres
    · simp only [Except.ok.injEq, Prod.mk.injEq] at hres
      obtain ⟨rfl, _⟩ := hres
      have sh := foldDelete_shrinks row s
      have cl := foldDelete_calm row s
      generalize row.foldl (fun s id => s.deletePage id) s = sb at sh cl
      obtain ⟨m, hm, ek⟩ := net_of_key sh.key hn
      have eid : m.id = n.id := by simp only [netKey, Prod.mk.injEq] at ek; exact ek.1
      exact ⟨sb, m, sh.invW h, cl, hm, eid, by rw [eid]⟩

theorem putVictim_calm (s : State) (old : Option Page) (avail : Int) : Calm s (s.putVictim old avail).1 := by
  unfold State.putVictim
  split
  · exact Calm.refl s
  · split
    · refine Calm.of_lists ?_ rng_self
      rw [updPage_pages]
      exact sub_updId (fun p => ⟨rfl, rfl, rfl, rfl, fun hh => absurd rfl hh⟩)
    · exact Calm.refl s

/-- result of a store: nothing stored (`Calm`), or `Calm` followed by the insertion of the new page -/
def PutShape (s s' : State) (nid : Nat) (a : PutArg) (k1 : Nat) : Prop :=
  Calm s s' ∨ ∃ s0 m, InvW s0 ∧ Calm s s0 ∧ m ∈ s0.nets ∧ m.id = nid
    ∧ s' = (({ s0 with nCachedPages := s0.nCachedPages + 1 } : State).insertNew m.id a k1).1

theorem putRest_shape {s : State} (h : InvW s) (hz : ZNet s) {cn : Net} (hcn : cn ∈ s.nets) (a : PutArg) (k1 : Nat)
    (old : Option Page) (avail0 : Int) (hold : ∀ o, old = some o → o ∈ s.pages)
    {s' : State} {r : Option Page} (hres : s.putRest cn.id a k1 old avail0 = .ok (s', r)) :
    PutShape s s' cn.id a k1 := by
  unfold State.putRest at hres
  simp only at hres
  obtain ⟨b1, b2, b3, b4, b5, b6, b7⟩ := putVictim_all h hz old avail0 hold
  have cv := putVictim_calm s old avail0
  generalize s.putVictim old avail0 = v at hres b1 b2 b3 b4 b5 b6 b7 cv
  split at hres
  · cases hres
  · simp only [Except.ok.injEq, Prod.mk.injEq] at hres; obtain ⟨rfl, _⟩ := hres
    exact Or.inl cv
  · rename_i avail row hcol
    have hrow : ∀ id ∈ row, id ∈ v.1.priority := by
      intro id hid
      rcases collectAll_row hcol id hid with x | x
      · rw [b4]; exact b7 id x
      · exact x
    have hcn' : cn ∈ v.1.nets := by rw [b3]; exact hcn
    obtain ⟨s0, m, i0, c0, hm, eid, e⟩ := putReplace_base b1 hcn' a k1 avail hrow hres
    exact Or.inr ⟨s0, m, i0, cv.trans c0, hm, eid, e⟩

theorem PutShape.pre {s1 s s' : State} {nid : Nat} {a : PutArg} {k1 : Nat} (c : Calm s1 s) (p : PutShape s s' nid a k1) :
    PutShape s1 s' nid a k1 := by
  rcases p with p | ⟨s0, m, i0, c0, hm, eid, e⟩
  · exact Or.inl (c.trans p)
  · exact Or.inr ⟨s0, m, i0, c.trans c0, hm, eid, e⟩

theorem putTailF_shape (fix : Bool) {s : State} (h : InvW s) (hz : ZNet s) {cn : Net} (hcn : cn ∈ s.nets) (a : PutArg) (k1 k2 : Nat)
    (avail0 : Int) {s' : State} {r : Option Page} (hres : s.putTailF fix cn.id a k1 k2 avail0 = .ok (s', r)) :
    PutShape s s' cn.id a k1 := by
  obtain ⟨a1, a2, a3, a4, a5, _, _, a8, a9⟩ := pageByPgno_all h cn.id a.pgno (k1 &&& k2) k2
  have c0 := pageByPgno_calm s cn.id a.pgno (k1 &&& k2) k2
  have z1 : ZNet (s.pageByPgno cn.id a.pgno (k1 &&& k2) k2).1 := znet_of_key (by rw [a2]) hz
  have hcn0 : cn ∈ (s.pageByPgno cn.id a.pgno (k1 &&& k2) k2).1.nets := by rw [a2]; exact hcn
  cases fix with
  | false =>
    have hres' : s.putTail cn.id a k1 k2 avail0 = .ok (s', r) := hres
    rw [putTail_rest] at hres'
    exact (putRest_shape a1 z1 hcn0 a k1 _ avail0 (fun o ho => (a3 o).2 (a9 o ho).1) hres').pre c0
  | true =>
    have hres' : s.putTailR cn.id a k1 k2 avail0 = .ok (s', r) := hres
    unfold State.putTailR at hres'
    simp only at hres'
    generalize s.pageByPgno cn.id a.pgno (k1 &&& k2) k2 = r0 at hres' a1 a2 a3 a4 a5 a8 a9 c0 z1 hcn0
    split at hres'
    · rename_i o ho
      have hom : o ∈ r0.1.pages := (a3 o).2 (a9 o ho).1
      split at hres'
      · have sh := dropOthers_shrinks r0.1 cn.id a.pgno o.id
        have cd := dropOthers_calm r0.1 cn.id a.pgno o.id
        have hk := dropOthers_keep cn.id a.pgno hom
        generalize r0.1.dropOthers cn.id a.pgno o.id = s1 at hres' sh hk cd
        obtain ⟨m, hm, ek⟩ := net_of_key sh.key hcn0
        have eid : m.id = cn.id := by simp only [netKey, Prod.mk.injEq] at ek; exact ek.1
        rw [← eid] at hres'
        have := putRest_shape (sh.invW a1) (znet_of_key sh.key z1) hm a k1 (some o) _ (fun o' e => by cases e; exact hk) hres'
        rw [eid] at this
        exact this.pre (c0.trans cd)
      · exact (putRest_shape a1 z1 hcn0 a k1 (some o) avail0 (fun o' e => by cases e; exact hom) hres').pre c0
    · exact (putRest_shape a1 z1 hcn0 a k1 none avail0 (fun o' e => by cases e) hres').pre c0

/-- stored sub-page number of the key rule never exceeds the transmitted one -/
theorem putKey_le (ptype pgno subno : Nat) : (putKey ptype pgno subno).1 ≤ subno := by
  unfold putKey
  repeat' split
  all_goals first | exact Nat.le_refl _ | exact Nat.zero_le _

/-- the insertion of the new page keeps `HiInv` while `n_subpages` does not wrap -/
theorem insertNew_hi {s0 : State} (h0 : InvW s0) (hi : HiInv s0) {m : Net} (hm : m ∈ s0.nets) (a : PutArg) (subno : Nat)
    (hsub : subno < 65536)
    (hnw : s0.pages.countP (fun p => p.net = m.id ∧ p.pgno = a.pgno) + 1 < 65536) :
    HiInv (({ s0 with nCachedPages := s0.nCachedPages + 1 } : State).insertNew m.id a subno).1 := by
  have heq := insertNew_eq (s := ({ s0 with nCachedPages := s0.nCachedPages + 1 } : State)) h0.nidNodup hm a subno
  obtain ⟨pid, pnet, ppg, psub, _⟩ := insertNew_page ({ s0 with nCachedPages := s0.nCachedPages + 1 } : State) m.id a subno
  generalize (({ s0 with nCachedPages := s0.nCachedPages + 1 } : State).insertNew m.id a subno).2 = np at heq pid pnet ppg psub
  rw [heq]
  have hns : (m.getStat a.pgno).nSub = s0.pages.countP (fun p => p.net = m.id ∧ p.pgno = a.pgno) := by
    have := h0.nSub m hm a.pgno; omega
  obtain ⟨r1, r2⟩ := addPageNet_rng a.pgno subno m
  intro n' hn' p hp hnet
  have hn2 : n' ∈ updNid s0.nets m.id (addPageNet a.pgno subno) := hn'
  obtain ⟨k, hk, rfl⟩ := mem_updNid.1 hn2
  have hp2 : p = np ∨ p ∈ s0.pages := List.mem_cons.1 hp
  by_cases e : k.id = m.id
  · have hkm : k = m := net_unique h0.nidNodup hk hm e
    subst hkm
    rw [if_pos rfl] at hnet ⊢
    have hnet' : p.net = k.id := by rw [hnet]; exact addPageNet_id _ _ _
    by_cases epg : p.pgno = a.pgno
    · rw [epg]
      unfold rng at r1
      simp only [Prod.mk.injEq] at r1
      rw [r1.1, r1.2, hns]
      have hmod : subno % 65536 = subno := Nat.mod_eq_of_lt hsub
      rcases hp2 with rfl | hp0
      · rw [psub, hmod]
        constructor
        · split
          · exact Nat.le_refl _
          · rename_i hc; omega
        · split
          · exact Nat.le_refl _
          · rename_i hc; omega
      · have hb := hi k hk p hp0 hnet'
        rw [epg] at hb
        have hpos : 0 < s0.pages.countP (fun p => decide (p.net = k.id ∧ p.pgno = a.pgno)) :=
          List.countP_pos_iff.2 ⟨p, hp0, by simp [hnet', epg]⟩
        have hne1 : ¬ (s0.pages.countP (fun p => decide (p.net = k.id ∧ p.pgno = a.pgno)) + 1) % 65536 = 1 := by
          rw [Nat.mod_eq_of_lt hnw]; omega
        rw [hmod]
        constructor
        · split
          · rename_i hc
            rcases hc with hc | hc
            · exact absurd hc hne1
            · omega
          · exact hb.1
        · split
          · rename_i hc
            rcases hc with hc | hc
            · exact absurd hc hne1
            · omega
          · exact hb.2
    · have r2' := r2 p.pgno epg
      unfold rng at r2'
      simp only [Prod.mk.injEq] at r2'
      rw [r2'.1, r2'.2]
      rcases hp2 with rfl | hp0
      · exact absurd ppg epg
      · exact hi k hk p hp0 hnet'
  · rw [if_neg e] at hnet ⊢
    rcases hp2 with rfl | hp0
    · exact absurd (pnet.symm.trans hnet).symm e
    · exact hi k hk p hp0 hnet

/-- `n_subpages` cannot wrap in this state: fewer than 65536 allocated versions of every page number -/
def NoWrap (s : State) : Prop := ∀ n ∈ s.nets, ∀ pg, s.pages.countP (fun p => p.net = n.id ∧ p.pgno = pg) < 65536

/-- the operation stores a sub-page number that fits the `uint16_t` members `subno_min` / `subno_max` -/
def SubOk : Op → Prop
  | .put _ a => a.subno < 65536
  | _ => True

/-- a history on which the 16 bit statistics members are exact: no state on the way has 65536 or more allocated
    versions of one page number, no stored sub-page number exceeds 16 bits (libzvbi stores <= 0x3F7F) -/
def Tame (fix : Bool) : State → List Op → Prop
  | _, [] => True
  | s, op :: t => SubOk op ∧ NoWrap (stepF fix s op).1 ∧ Tame fix (stepF fix s op).1 t

theorem countP_cons_new {l : List Page} {np : Page} (P : Page → Bool) : (np :: l).countP P = l.countP P + (if P np then 1 else 0) := by
  rw [List.countP_cons]

/-- one operation keeps `HiInv` -/
theorem hi_stepF (fix : Bool) {s : State} (g : Good s) (hi : HiInv s) (op : Op) (hs : SubOk op)
    (hnw : NoWrap (stepF fix s op).1) : HiInv (stepF fix s op).1 := by
  cases op with
  | put nid a =>
    revert hnw
    unfold stepF; simp only
    split
    · rename_i s' r hres
      intro hnw
      unfold State.putPageF at hres
      split at hres
      · cases hres
      · rename_i cn hf
        obtain ⟨hcn, rfl⟩ := findNet_some' hf
        split at hres
        · simp only [Except.ok.injEq, Prod.mk.injEq] at hres; obtain ⟨rfl, _⟩ := hres; exact hi
        · split at hres
          · cases hres
          · rcases putTailF_shape fix g.1 g.2.1 hcn a _ _ _ hres with c | ⟨s0, m, i0, c0, hm, eid, e⟩
            · exact hi_of_calm hi c
            · have hk : (putKey (cn.getStat a.pgno).ptype a.pgno a.subno).1 < 65536 :=
                Nat.lt_of_le_of_lt (putKey_le _ _ _) hs
              subst e
              refine insertNew_hi i0 (hi_of_calm hi c0) hm a _ hk ?_
              -- the state after the store has the new page: its count is the old count + 1
              have heq := insertNew_eq (s := ({ s0 with nCachedPages := s0.nCachedPages + 1 } : State)) i0.nidNodup hm a
                (putKey (cn.getStat a.pgno).ptype a.pgno a.subno).1
              obtain ⟨_, pnet, ppg, _⟩ := insertNew_page ({ s0 with nCachedPages := s0.nCachedPages + 1 } : State) m.id a
                (putKey (cn.getStat a.pgno).ptype a.pgno a.subno).1
              have hm' : (addPageNet a.pgno (putKey (cn.getStat a.pgno).ptype a.pgno a.subno).1 m) ∈
                  (({ s0 with nCachedPages := s0.nCachedPages + 1 } : State).insertNew m.id a
                    (putKey (cn.getStat a.pgno).ptype a.pgno a.subno).1).1.nets := by
                rw [heq]
                exact mem_updNid.2 ⟨m, hm, by rw [if_pos rfl]⟩
              have := hnw _ hm' a.pgno
              rw [heq] at this
              simp only [addPageNet_id] at this
              rw [List.countP_cons] at this
              simp only [pnet, ppg, and_self, decide_true, if_true] at this
              exact this
    · intro _; exact hi
  | _ => exact hi_of_calm hi (calm_step g _ (fun nid a e => by cases e))

theorem hi_runF (fix : Bool) (ops : List Op) {s : State} (g : Good s) (hi : HiInv s) (ht : Tame fix s ops) :
    HiInv (runF fix s ops) := by
  induction ops generalizing s with
  | nil => exact hi
  | cons op t ih =>
    obtain ⟨h1, h2, h3⟩ := ht
    exact ih (good_stepF fix g op) (hi_stepF fix g hi op h1 h2) h3

theorem hi_init : HiInv init := by intro n hn; simp [init] at hn

/-- histories of fewer than 65536 operations... are not needed here: `Tame` is stated on the states.  A history
    whose states all hold fewer than 65536 pages is tame when the stored sub-page numbers fit 16 bits. -/
theorem tame_of_small (fix : Bool) : ∀ (ops : List Op) (s : State),
    (∀ op ∈ ops, SubOk op) → (∀ k, k ≤ ops.length → (runF fix s (ops.take k)).pages.length < 65536) → Tame fix s ops := by
  intro ops
  induction ops with
  | nil => intro s _ _; trivial
  | cons op t ih =>
    intro s h1 h2
    refine ⟨h1 op List.mem_cons_self, ?_, ih _ (fun o ho => h1 o (List.mem_cons_of_mem _ ho)) ?_⟩
    · intro n _ pg
      have := h2 1 (by simp)
      have hle : (stepF fix s op).1.pages.countP (fun p => decide (p.net = n.id ∧ p.pgno = pg)) ≤ (stepF fix s op).1.pages.length :=
        List.countP_le_length
      have e : runF fix s (List.take 1 (op :: t)) = (stepF fix s op).1 := rfl
      rw [e] at this
      omega
    · intro k hk
      have := h2 (k + 1) (by simp; omega)
      exact this

end Zvbi.Cache
