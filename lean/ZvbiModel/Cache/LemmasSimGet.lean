import ZvbiModel.Cache.LemmasSimOps
import ZvbiModel.Cache.LemmasGet
/-!
# Look-up followed by the release of the page found (the decoder's pattern) keeps the abstract map (round 6)

`getPage_unref_abs`: from ANY good state, `_vbi_cache_get_page` followed by `cache_page_unref` of the page it returned leaves
the retrievable versions as the look-up left them (`atouch`) - no side condition: the reference the look-up took un-zombies the
network (`cache_page_ref`), and the room the page needs when it is unreferenced again is the room it had before
(`memory_used` went down by its size when it was referenced).  Core Lean only.
-/
namespace Zvbi.Cache
open Zvbi.Gen.Cache

theorem size_le_sum {l : List Page} {p : Page} (hp : p ∈ l) (hr : p.ref = 0) :
    p.size ≤ ((l.filter (fun p => p.ref = 0)).map Page.size).sum := by
  induction l with
  | nil => cases hp
  | cons a t ih =>
    rw [List.filter_cons]
    rcases List.mem_cons.1 hp with rfl | h
    · simp [hr]
    · have := ih h
      split
      · simp only [List.map_cons, List.sum_cons]; omega
      · exact this

/-- after `cache_page_ref`'s un-zombie step the network `x` is not a zombie -/
theorem unzombieNet_live {S : State} (h : InvW S) (x : Nat) :
    ∀ n ∈ (S.unzombieNet x).nets, n.id = x → n.zombie = false := by
  intro n hn e
  unfold State.unzombieNet at hn
  split at hn
  · rename_i n0 hf
    obtain ⟨hn0, e0⟩ := findNet_some' hf
    split at hn
    · have hn' : n ∈ updNid S.nets x (fun n => { n with zombie := false }) := hn
      obtain ⟨m, hm, rfl⟩ := mem_updNid.1 hn'
      by_cases c : m.id = x
      · rw [if_pos c]
      · rw [if_neg c] at e; exact absurd e c
    · rename_i hnz
      have : n = n0 := net_unique h.nidNodup hn hn0 (e.trans e0.symm)
      subst this
      simpa using hnz
  · rename_i hf
    exact absurd e (findNet_none hf n hn)

/-- `cache_page_ref` of a cached page, then `cache_page_unref` of it: the retrievable versions stay -/
theorem pageRef_unref_abs {S : State} (h : InvW S) (hz : ZNet S) (hm : S.memUsed ≤ S.memLimit) {p : Page} (hp : p ∈ S.pages)
    (hnz : p.pri ≠ .zombie) :
    ((S.pageRef p.id).pageUnref p.id).abs = (S.pageRef p.id).abs := by
  obtain ⟨h2, _, c2, d2⟩ := pageRef_all h hz p.id
  have hfp : S.findPage p.id = some p := find_of_mem h.pidNodup hp
  have hm2 : (S.pageRef p.id).memUsed ≤ (S.pageRef p.id).memLimit := by rw [d2]; omega
  have hpages := pageRef_pages S hfp
  -- the page as it is after the reference
  have hq : ∀ q, (S.pageRef p.id).findPage p.id = some q → q = { p with ref := p.ref + 1 } := by
    intro q hq
    obtain ⟨hq2, hqid⟩ := findPage_some hq
    rw [hpages] at hq2
    obtain ⟨p', hp', e⟩ := mem_updId.1 hq2
    by_cases c : p'.id = p.id
    · have : p' = p := mem_unique h.pidNodup hp' hp c
      subst this
      rw [if_pos rfl] at e
      exact e
    · rw [if_neg c] at e
      subst e
      exact absurd hqid c
  apply pageUnref_abs_keep' h2 hm2 p.id
  · intro q hqf hr1
    have e := hq q hqf
    subst e
    have hr0 : p.ref = 0 := by simpa using hr1
    have hS2 : S.pageRef p.id
        = ((S.unzombieNet p.net).refFirst p).updPage p.id (fun p => { p with ref := p.ref + 1 }) := by
      unfold State.pageRef
      rw [hfp]
      simp only [hr0, if_true]
    rw [hS2, (refFirst_fields (S.unzombieNet p.net) p _).2.2.2.1]
    exact live_updNid (fun n => ⟨rfl, rfl⟩) (unzombieNet_live h p.net)
  · intro q hqf hr1 _
    have e := hq q hqf
    subst e
    have hr0 : p.ref = 0 := by simpa using hr1
    have hS2 : S.pageRef p.id
        = ((S.unzombieNet p.net).refFirst p).updPage p.id (fun p => { p with ref := p.ref + 1 }) := by
      unfold State.pageRef
      rw [hfp]
      simp only [hr0, if_true]
    have hmu : (S.pageRef p.id).memUsed = S.memUsed - p.size := by
      rw [hS2, (refFirst_fields (S.unzombieNet p.net) p _).2.2.2.2.1, (unzombieNet_fields S p.net).2.2.2.1]
    have hle : p.size ≤ S.memUsed := by rw [h.mem]; exact size_le_sum hp hr0
    rw [hmu, d2]
    show S.memUsed - p.size + p.size ≤ S.memLimit
    omega

/-- **`_vbi_cache_get_page` + `cache_page_unref` of the page returned**, from any good state, no side condition: the
    retrievable versions are what the look-up left (`atouch` of the store before, `getPage_abs`) -/
theorem getPage_unref_abs {s : State} (g : Good s) (nid pgno : Nat) (subno : Int) (mask : Nat) (q : Page)
    (hq : (s.getPage nid pgno subno mask).2 = some q) :
    ((s.getPage nid pgno subno mask).1.pageUnref q.id).abs = (s.getPage nid pgno subno mask).1.abs := by
  obtain ⟨h, hz, hm⟩ := g
  unfold State.getPage at hq ⊢
  by_cases hv : (!validPgno pgno) = true
  · rw [if_pos hv] at hq; simp at hq
  · by_cases hneg : subno < 0
    · rw [if_neg hv, if_pos hneg] at hq; simp at hq
    · rw [if_neg hv, if_neg hneg] at hq ⊢
      simp only at hq ⊢
      obtain ⟨a, b, c, d, e, _, _, _, f⟩ := pageByPgno_all h nid pgno subno.toNat (if subno.toNat = Gen.Cache.anySubno then 0 else mask)
      generalize s.pageByPgno nid pgno subno.toNat (if subno.toNat = Gen.Cache.anySubno then 0 else mask) = r at a b c d e f hq ⊢
      obtain ⟨s1, o⟩ := r
      cases o with
      | none => cases hq
      | some p =>
        simp only at hq ⊢
        have z1 : ZNet s1 := znet_of_key (by rw [show s1.nets = s.nets from b]) hz
        obtain ⟨hp, hmatch⟩ := f p rfl
        have hp1 : p ∈ s1.pages := (c p).2 hp
        have hnz : p.pri ≠ .zombie := by
          unfold pageMatch at hmatch
          simp only [decide_eq_true_eq] at hmatch
          exact hmatch.1
        have hm1 : s1.memUsed ≤ s1.memLimit := by
          rw [show s1.memUsed = s.memUsed from d, show s1.memLimit = s.memLimit from e]; exact hm
        have hqid : q.id = p.id := (findPage_some hq).2
        rw [hqid]
        exact pageRef_unref_abs a z1 hm1 hp1 hnz

end Zvbi.Cache
