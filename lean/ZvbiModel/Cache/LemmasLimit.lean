import ZvbiModel.Cache.LemmasUpd
/-!
# `delete_surplus_pages` with the memory within the limit

Every pass of `delete_surplus_pages` tests `memory_used <= memory_limit` before it looks at a node, so within the limit
the function returns the state it was given (`vbi_cache_set_memory_limit` with a generous limit evicts nothing).
-/
namespace Zvbi.Cache

theorem surplusPass_within (S : State) (h : S.memUsed ≤ S.memLimit) (pri : Pri) (chk : Bool) (l : List Nat) :
    surplusPass pri chk l S = (S, false) ∨ surplusPass pri chk l S = (S, true) := by
  cases l with
  | nil => exact Or.inl rfl
  | cons a t => right; unfold surplusPass; rw [if_pos h]

/-- `delete_surplus_pages` with the memory within the limit: nothing happens -/
theorem deleteSurplusPages_within (S : State) (h : S.memUsed ≤ S.memLimit) : S.deleteSurplusPages = S := by
  unfold State.deleteSurplusPages
  rcases surplusPass_within S h .normal true S.priority with e1 | e1 <;> rw [e1] <;> simp only [Bool.false_eq_true, if_false, if_true]
  rcases surplusPass_within S h .special true S.priority with e2 | e2 <;> rw [e2] <;> simp only [Bool.false_eq_true, if_false, if_true]
  rcases surplusPass_within S h .normal false S.priority with e3 | e3 <;> rw [e3] <;> simp only [Bool.false_eq_true, if_false, if_true]
  rcases surplusPass_within S h .special false S.priority with e4 | e4 <;> rw [e4]

end Zvbi.Cache
