import ZvbiModel.Cache.HiSub
/-!
# Repaired shape: the cache is a map (unique key inside a page number)
-/
namespace Zvbi.Cache

/-- the death row only grows -/
theorem collectPass_mono (s : State) (pri : Pri) (chk : Bool) (oldId : Option Nat) (needed : Int) :
    ∀ (ids : List Nat) (avail : Int) (row : List Nat) (d : Bool) (avail' : Int) (row' : List Nat),
      collectPass s pri chk oldId needed ids avail row = .ok (d, avail', row') →
      ∀ id ∈ row, id ∈ row' := by
  intro ids
  induction ids with
  | nil =>
    intro avail row d avail' row' h id hid
    simp only [collectPass, Except.ok.injEq, Prod.mk.injEq] at h
    obtain ⟨_, _, rfl⟩ := h; exact hid
  | cons a t ih =>
    intro avail row d avail' row' h id hid
    unfold collectPass at h
    split at h
    · simp only [Except.ok.injEq, Prod.mk.injEq] at h
      obtain ⟨_, _, rfl⟩ := h; exact hid
    · split at h
      · exact ih _ _ _ _ _ h id hid
      · split at h
        · exact ih _ _ _ _ _ h id hid
        · split at h
          · cases h
          · exact ih _ _ _ _ _ h id (List.mem_append_left _ hid)

theorem collectAll_mono {s : State} {oldId : Option Nat} {needed avail : Int} {row : List Nat} {avail' : Int} {row' : List Nat}
    (h : collectAll s oldId needed avail row = .ok (some (avail', row'))) :
    ∀ id ∈ row, id ∈ row' := by
  unfold collectAll at h
  simp only [bind, Except.bind, pure, Except.pure] at h
  split at h
  · simp only [Except.ok.injEq, Option.some.injEq, Prod.mk.injEq] at h
    obtain ⟨_, rfl⟩ := h; exact fun id hid => hid
  · split at h
    · cases h
    · rename_i r1 h1
      obtain ⟨d1, a1, w1⟩ := r1
      have g1 := collectPass_mono s _ _ _ _ _ _ _ _ _ _ h1
      simp only at h
      split at h
      · simp only [Except.ok.injEq, Option.some.injEq, Prod.mk.injEq] at h
        obtain ⟨_, rfl⟩ := h; exact g1
      · split at h
        · cases h
        · rename_i r2 h2
          obtain ⟨d2, a2, w2⟩ := r2
          have g2 := collectPass_mono s _ _ _ _ _ _ _ _ _ _ h2
          simp only at h
          split at h
          · simp only [Except.ok.injEq, Option.some.injEq, Prod.mk.injEq] at h
            obtain ⟨_, rfl⟩ := h; exact fun id hid => g2 id (g1 id hid)
          · split at h
            · cases h
            · rename_i r3 h3
              obtain ⟨d3, a3, w3⟩ := r3
              have g3 := collectPass_mono s _ _ _ _ _ _ _ _ _ _ h3
              simp only at h
              split at h
              · simp only [Except.ok.injEq, Option.some.injEq, Prod.mk.injEq] at h
                obtain ⟨_, rfl⟩ := h; exact fun id hid => g3 id (g2 id (g1 id hid))
              · split at h
                · cases h
                · rename_i r4 h4
                  obtain ⟨d4, a4, w4⟩ := r4
                  have g4 := collectPass_mono s _ _ _ _ _ _ _ _ _ _ h4
                  simp only at h
                  split at h
                  · simp only [Except.ok.injEq, Option.some.injEq, Prod.mk.injEq] at h
                    obtain ⟨_, rfl⟩ := h
                    exact fun id hid => g4 id (g3 id (g2 id (g1 id hid)))
                  · cases h

/-- after `delete_page (id)` the page `id` is gone or a zombie -/
theorem deletePage_gone {s : State} (h : InvW s) (id : Nat) :
    ∀ q ∈ (s.deletePage id).pages, q.id = id → q.pri = .zombie := by
  intro q hq hid
  unfold State.deletePage at hq
  split at hq
  · rename_i hf
    exact absurd hid (find_none hf q hq)
  · rename_i p hf
    obtain ⟨hp, rfl⟩ := findPage_some hf
    split at hq
    · split at hq
      · rw [updPage_pages] at hq
        obtain ⟨p0, hp0, rfl⟩ := mem_updId.1 hq
        split
        · rfl
        · rename_i hne
          split at hid
          · rename_i e; exact absurd e hne
          · exact absurd hid hne
      · rename_i hz
        have : q = p := mem_unique h.pidNodup hq hp hid
        subst this
        exact Classical.not_not.1 hz
    · rw [freePage_pages] at hq
      exact absurd hid (mem_rmId.1 hq).2

/-- a page that is gone or a zombie stays so through `Calm` steps -/
theorem gone_of_calm {s s' : State} (c : Calm s s') {id : Nat} (hg : ∀ q ∈ s.pages, q.id = id → q.pri = .zombie) :
    ∀ q ∈ s'.pages, q.id = id → q.pri = .zombie := by
  intro q hq hid
  obtain ⟨p, hp, k⟩ := c.pages q hq
  have hz := hg p hp (k.1.trans hid)
  exact Classical.not_not.1 (fun hne => k.2.2.2.2 hne hz)

theorem foldDelete_gone (ids : List Nat) {s : State} (h : InvW s) :
    ∀ q ∈ (ids.foldl (fun s id => s.deletePage id) s).pages, q.id ∈ ids → q.pri = .zombie := by
  induction ids generalizing s with
  | nil => intro q _ hid; cases hid
  | cons a t ih =>
    intro q hq hid
    rw [List.foldl_cons] at hq
    rcases List.mem_cons.1 hid with e | e
    · exact gone_of_calm (foldDelete_calm t _) (deletePage_gone h a) q hq e
    · exact ih (deletePage_invW h a) q hq e

/-- `putReplace`: every page on the death row is gone (or a zombie) in the state the new page is inserted into -/
theorem putReplace_gone {s : State} (h : InvW s) {n : Net} (hn : n ∈ s.nets) (a : PutArg) (subno : Nat)
    (avail : Int) {row : List Nat} (hrow : ∀ id ∈ row, id ∈ s.priority) {s' : State} {r : Option Page}
    (hres : s.putReplace n.id a subno avail row = .ok (s', r)) :
    ∃ s0 m, InvW s0 ∧ Calm s s0 ∧ m ∈ s0.nets ∧ m.id = n.id
      ∧ s' = (({ s0 with nCachedPages := s0.nCachedPages + 1 } : State).insertNew m.id a subno).1
      ∧ ∀ q ∈ s0.pages, q.id ∈ row → q.pri = .zombie := by
  unfold State.putReplace at hres
  simp only at hres
  split at hres
  · rename_i hc
    split at hres
    · cases hres
    · rename_i v hv
      split at hres
      · cases hres
      · rename_i hsz
        simp only [Except.ok.injEq, Prod.mk.injEq] at hres
        obtain ⟨rfl, _⟩ := hres
        have hrow1 : ∃ id, row = [id] := by
          match row, hc.2 with
          | [id], _ => exact ⟨id, rfl⟩
        obtain ⟨id, rfl⟩ := hrow1
        have hv' : s.findPage id = some v := by simpa using hv
        obtain ⟨hvm, rfl⟩ := findPage_some hv'
        have hv0 : v.ref = 0 := by
          obtain ⟨q, hq, e, hq0⟩ := (h.priMem v.id).1 (hrow v.id (by simp))
          rw [← mem_unique h.pidNodup hq hvm e]; exact hq0
        have hnz : v.pri ≠ .zombie := fun e => by have := h.zombieRef v hvm e; omega
        have hbase := freePage_invW h hvm hv0
        have hpos : 0 < s.nCachedPages := by
          have := h.nPages; have : 0 < s.pages.length := List.length_pos_of_mem hvm; omega
        have hsz' : v.size = (pageSize a.func a.x26 a.x28) := by
          by_cases e : v.size = pageSize a.func a.x26 a.x28
          · exact e
          · exact absurd e (by simpa using hsz)
        have est : ({ ((s.unlinkPri v.id).dropPage v.id).netRemovePage v.net v.pgno with
              memUsed := (((s.unlinkPri v.id).dropPage v.id).netRemovePage v.net v.pgno).memUsed
                - (Int.toNat (pageSize a.func a.x26 a.x28 : Int)) } : State)
            = { s.freePage v with nCachedPages := (s.freePage v).nCachedPages + 1 } := by
          apply State.eq_of_fields
          · rw [freePage_pages]; rfl
          · rw [freePage_priority]; rfl
          · rw [freePage_referenced]; rfl
          · rw [freePage_nets]; rfl
          · show s.nCachedPages = (s.freePage v).nCachedPages + 1
            rw [freePage_nCachedPages]; omega
          · show s.memUsed - _ = (s.freePage v).memUsed
            rw [freePage_memUsed, if_pos hnz, hsz']; simp
          · rw [freePage_memLimit]; rfl
          · rw [freePage_nCachedNets]; rfl
          · unfold State.freePage; split <;> rfl
          · rw [freePage_nextPid]; rfl
          · rw [freePage_nextNid]; rfl
        rw [est]
        obtain ⟨m, hm, ek⟩ := net_of_key (freePage_netKey s v) hn
        have eid : m.id = n.id := by simp only [netKey, Prod.mk.injEq] at ek; exact ek.1
        refine ⟨s.freePage v, m, hbase, freePage_calm s v, hm, eid, by rw [eid], ?_⟩
        intro q hq hid
        rw [freePage_pages] at hq
        simp only [List.mem_singleton] at hid
        exact absurd hid (mem_rmId.1 hq).2
  · split at hres
    · cases hres
    · simp only [Except.ok.injEq, Prod.mk.injEq] at hres
      obtain ⟨rfl, _⟩ := hres
      have sh := foldDelete_shrinks row s
      have cl := foldDelete_calm row s
      have gn := foldDelete_gone row h
      generalize row.foldl (fun s id => s.deletePage id) s = sb at sh cl gn
      obtain ⟨m, hm, ek⟩ := net_of_key sh.key hn
      have eid : m.id = n.id := by simp only [netKey, Prod.mk.injEq] at ek; exact ek.1
      exact ⟨sb, m, sh.invW h, cl, hm, eid, by rw [eid], gn⟩

/-- death row and replacement: the version found by the look-up (`old`) is gone or a zombie in the state the new page
    is inserted into -/
theorem putRest_gone {s : State} (h : InvW s) (hz : ZNet s) {cn : Net} (hcn : cn ∈ s.nets) (a : PutArg) (k1 : Nat)
    (old : Option Page) (avail0 : Int) (hold : ∀ o, old = some o → o ∈ s.pages)
    {s' : State} {r : Option Page} (hres : s.putRest cn.id a k1 old avail0 = .ok (s', r)) :
    Calm s s' ∨ ∃ s0 m, InvW s0 ∧ Calm s s0 ∧ m ∈ s0.nets ∧ m.id = cn.id
      ∧ s' = (({ s0 with nCachedPages := s0.nCachedPages + 1 } : State).insertNew m.id a k1).1
      ∧ ∀ o, old = some o → ∀ q ∈ s0.pages, q.id = o.id → q.pri = .zombie := by
  unfold State.putRest at hres
  simp only at hres
  obtain ⟨b1, b2, b3, b4, b5, b6, b7⟩ := putVictim_all h hz old avail0 hold
  have cv := putVictim_calm s old avail0
  -- the victim: a zombie now, or the head of the death row
  have hv : ∀ o, old = some o → (∀ q ∈ (s.putVictim old avail0).1.pages, q.id = o.id → q.pri = .zombie)
      ∨ o.id ∈ (s.putVictim old avail0).2.2.2 := by
    intro o ho
    subst ho
    unfold State.putVictim
    simp only
    split
    · left
      intro q hq hid
      rw [updPage_pages] at hq
      obtain ⟨p0, hp0, rfl⟩ := mem_updId.1 hq
      split
      · rfl
      · rename_i hne
        split at hid
        · rename_i e; exact absurd e hne
        · exact absurd hid hne
    · right; simp
  generalize s.putVictim old avail0 = v at hres b1 b2 b3 b4 b5 b6 b7 cv hv
  split at hres
  · cases hres
  · simp only [Except.ok.injEq, Prod.mk.injEq] at hres; obtain ⟨rfl, _⟩ := hres
    exact Or.inl cv
  · rename_i avail row hcol
    have hrow : ∀ id ∈ row, id ∈ v.1.priority := by
      intro id hid
      rcases collectAll_row hcol id hid with x | x
      · rw [b4]; exact b7 id x
      · exact x
    have hcn' : cn ∈ v.1.nets := by rw [b3]; exact hcn
    obtain ⟨s0, m, i0, c0, hm, eid, e, gn⟩ := putReplace_gone b1 hcn' a k1 avail hrow hres
    refine Or.inr ⟨s0, m, i0, cv.trans c0, hm, eid, e, ?_⟩
    intro o ho q hq hid
    rcases hv o ho with hzv | hin
    · exact gone_of_calm c0 hzv q hq hid
    · exact gn q hq (by rw [hid]; exact collectAll_mono hcol _ hin)

/-- at most one retrievable version per (network, page number, key inside the page number) -/
def UKey (s : State) : Prop :=
  ∀ p ∈ s.pages, ∀ q ∈ s.pages, p.pri ≠ .zombie → q.pri ≠ .zombie → p.net = q.net → p.pgno = q.pgno →
    lowKey p.pgno p.subno = lowKey q.pgno q.subno → p.id = q.id

theorem ukey_of_calm {s s' : State} (hu : UKey s) (c : Calm s s') : UKey s' := by
  intro p' hp' q' hq' hpz hqz hnet hpg hlow
  obtain ⟨p, hp, kp⟩ := c.pages p' hp'
  obtain ⟨q, hq, kq⟩ := c.pages q' hq'
  have := hu p hp q hq (kp.2.2.2.2 hpz) (kq.2.2.2.2 hqz) (by rw [kp.2.1, kq.2.1]; exact hnet)
    (by rw [kp.2.2.1, kq.2.2.1]; exact hpg) (by rw [kp.2.2.1, kq.2.2.1, kp.2.2.2.1, kq.2.2.2.1]; exact hlow)
  rw [← kp.1, ← kq.1]; exact this

theorem and_idem (x m : Nat) : (x &&& m) &&& m = x &&& m := by
  rw [Nat.and_assoc, Nat.and_self]

/-- the look-up finds nothing: no retrievable page matches -/
theorem find_none_match {s : State} {nid pgno key mask : Nat} (hf : s.pages.find? (pageMatch nid pgno key mask) = none) :
    ∀ p ∈ s.pages, p.pri ≠ .zombie → p.net = nid → p.pgno = pgno → (p.subno &&& mask) = (key &&& mask) → False := by
  intro p hp hz hn hg hm
  have := List.find?_eq_none.1 hf p hp
  apply this
  unfold pageMatch
  simp [hz, hn, hg, hm]

/-- repaired shape: in the state the new page is inserted into no retrievable version of the page number matches its key -/
theorem putTailR_fresh {s : State} (h : InvW s) (hz : ZNet s) (hu : UKey s) {cn : Net} (hcn : cn ∈ s.nets) (a : PutArg)
    (k1 k2 : Nat) (avail0 : Int) (hk : k2 = 0 ∨ ∀ x, x &&& k2 = lowKey a.pgno x)
    {s' : State} {r : Option Page} (hres : s.putTailR cn.id a k1 k2 avail0 = .ok (s', r)) :
    Calm s s' ∨ ∃ s0 m, InvW s0 ∧ Calm s s0 ∧ m ∈ s0.nets ∧ m.id = cn.id
      ∧ s' = (({ s0 with nCachedPages := s0.nCachedPages + 1 } : State).insertNew m.id a k1).1
      ∧ ∀ q ∈ s0.pages, q.pri ≠ .zombie → q.net = cn.id → q.pgno = a.pgno →
          (k2 = 0 ∨ lowKey a.pgno q.subno = lowKey a.pgno k1) → False := by
  unfold State.putTailR at hres
  simp only at hres
  obtain ⟨a1, a2, a3, a4, a5, _, _, a8, a9⟩ := pageByPgno_all h cn.id a.pgno (k1 &&& k2) k2
  have c0 := pageByPgno_calm s cn.id a.pgno (k1 &&& k2) k2
  have z1 : ZNet (s.pageByPgno cn.id a.pgno (k1 &&& k2) k2).1 := znet_of_key (by rw [a2]) hz
  have hcn0 : cn ∈ (s.pageByPgno cn.id a.pgno (k1 &&& k2) k2).1.nets := by rw [a2]; exact hcn
  -- matching under the mask = the key condition of the statement
  have hmatch : ∀ x, (k2 = 0 ∨ lowKey a.pgno x = lowKey a.pgno k1) → (x &&& k2) = ((k1 &&& k2) &&& k2) := by
    intro x hx
    rw [and_idem]
    rcases hk with rfl | hk
    · simp
    · rcases hx with rfl | hx
      · simp
      · rw [hk x, hk k1]; exact hx
  have hnone : (s.pageByPgno cn.id a.pgno (k1 &&& k2) k2).2 = none →
      ∀ p ∈ s.pages, p.pri ≠ .zombie → p.net = cn.id → p.pgno = a.pgno →
        (k2 = 0 ∨ lowKey a.pgno p.subno = lowKey a.pgno k1) → False := by
    intro hn p hp hpz hpn hpg hx
    rcases pageByPgno_cases s cn.id a.pgno (k1 &&& k2) k2 with ⟨hfo, _⟩ | ⟨o, _, hr0⟩
    · exact find_none_match hfo p hp hpz hpn hpg (hmatch _ hx)
    · rw [hr0] at hn; cases hn
  generalize s.pageByPgno cn.id a.pgno (k1 &&& k2) k2 = r0 at hres a1 a2 a3 a4 a5 a8 a9 c0 z1 hcn0 hnone
  split at hres
  · rename_i o ho
    have hom : o ∈ r0.1.pages := (a3 o).2 (a9 o ho).1
    have hos : o ∈ s.pages := (a9 o ho).1
    have hopm := (a9 o ho).2
    unfold pageMatch at hopm
    simp only [decide_eq_true_eq] at hopm
    obtain ⟨hoz, hopg, hosub, honet⟩ := hopm
    split at hres
    · rename_i hk0
      subst hk0
      -- all other retrievable versions of the page number are deleted first
      have sh := dropOthers_shrinks r0.1 cn.id a.pgno o.id
      have cd := dropOthers_calm r0.1 cn.id a.pgno o.id
      have hkeep := dropOthers_keep cn.id a.pgno hom
      have hgone : ∀ q ∈ (r0.1.dropOthers cn.id a.pgno o.id).pages, q.pri ≠ .zombie → q.net = cn.id → q.pgno = a.pgno →
          q.id = o.id := by
        intro q hq hqz hqn hqg
        obtain ⟨p, hp, kp⟩ := cd.pages q hq
        have hpz := kp.2.2.2.2 hqz
        by_cases e : p.id = o.id
        · rw [← kp.1]; exact e
        · exfalso
          have hin : q.id ∈ (r0.1.pages.filter (fun q => q.pri ≠ .zombie ∧ q.pgno = a.pgno ∧ q.net = cn.id ∧ q.id ≠ o.id)).map (·.id) := by
            refine List.mem_map.2 ⟨p, List.mem_filter.2 ⟨hp, ?_⟩, kp.1⟩
            simp only [decide_eq_true_eq]
            exact ⟨hpz, by rw [kp.2.2.1]; exact hqg, by rw [kp.2.1]; exact hqn, e⟩
          exact hqz (foldDelete_gone _ a1 q hq hin)
      generalize r0.1.dropOthers cn.id a.pgno o.id = s1 at hres sh hkeep cd hgone
      obtain ⟨m, hm, ek⟩ := net_of_key sh.key hcn0
      have eid : m.id = cn.id := by simp only [netKey, Prod.mk.injEq] at ek; exact ek.1
      rw [← eid] at hres
      rcases putRest_gone (sh.invW a1) (znet_of_key sh.key z1) hm a k1 (some o) _ (fun o' e => by cases e; exact hkeep) hres with c | ⟨s0, m', i0, c1, hm', eid', e, gn⟩
      · exact Or.inl ((c0.trans cd).trans c)
      · refine Or.inr ⟨s0, m', i0, (c0.trans cd).trans c1, hm', eid'.trans eid, e, ?_⟩
        intro q hq hqz hqn hqg _
        obtain ⟨p, hp, kp⟩ := c1.pages q hq
        have hid := hgone p hp (kp.2.2.2.2 hqz) (by rw [kp.2.1]; exact hqn) (by rw [kp.2.2.1]; exact hqg)
        exact hqz (gn o rfl q hq (by rw [← kp.1]; exact hid))
    · rename_i hk0
      have hk' : ∀ x, x &&& k2 = lowKey a.pgno x := by
        rcases hk with hk | hk
        · exact absurd hk hk0
        · exact hk
      rcases putRest_gone a1 z1 hcn0 a k1 (some o) avail0 (fun o' e => by cases e; exact hom) hres with c | ⟨s0, m', i0, c1, hm', eid', e, gn⟩
      · exact Or.inl (c0.trans c)
      · refine Or.inr ⟨s0, m', i0, c0.trans c1, hm', eid', e, ?_⟩
        intro q hq hqz hqn hqg hx
        obtain ⟨p, hp, kp⟩ := c1.pages q hq
        have hps : p ∈ s.pages := (a3 p).1 hp
        have hlow : lowKey a.pgno q.subno = lowKey a.pgno k1 := by
          rcases hx with hx | hx
          · exact absurd hx hk0
          · exact hx
        have holow : lowKey a.pgno o.subno = lowKey a.pgno k1 := by
          rw [← hk' o.subno, hosub, and_idem, hk' k1]
        have hid : p.id = o.id := hu p hps o hos (kp.2.2.2.2 hqz) hoz (by rw [kp.2.1, hqn, honet])
          (by rw [kp.2.2.1, hqg, hopg]) (by rw [kp.2.2.1, hqg, hopg, kp.2.2.2.1, hlow, holow])
        exact hqz (gn o rfl q hq (by rw [← kp.1]; exact hid))
  · rename_i hn
    rcases putRest_gone a1 z1 hcn0 a k1 none avail0 (fun o' e => by cases e) hres with c | ⟨s0, m', i0, c1, hm', eid', e, _⟩
    · exact Or.inl (c0.trans c)
    · refine Or.inr ⟨s0, m', i0, c0.trans c1, hm', eid', e, ?_⟩
      intro q hq hqz hqn hqg hx
      obtain ⟨p, hp, kp⟩ := c1.pages q hq
      have hps : p ∈ s.pages := (a3 p).1 hp
      exact hnone hn p hps (kp.2.2.2.2 hqz) (by rw [kp.2.1]; exact hqn) (by rw [kp.2.2.1]; exact hqg)
        (by rw [kp.2.2.2.1]; exact hx)

/-- the mask of the key rule is 0 or the mask of `lowKey` -/
theorem putKey_mask (ptype pgno subno : Nat) :
    (putKey ptype pgno subno).2 = 0 ∨ ∀ x, x &&& (putKey ptype pgno subno).2 = lowKey pgno x := by
  unfold putKey lowKey
  by_cases hb : isBcd pgno = true
  · simp only [hb, if_true]
    repeat' split
    all_goals first | exact Or.inl rfl | exact Or.inr (fun _ => rfl)
  · simp only [hb]
    exact Or.inr (fun _ => rfl)

/-- a store of the repaired shape keeps the keys unique -/
theorem ukey_putPageR {s : State} (g : Good s) (hu : UKey s) (nid : Nat) (a : PutArg) {s' : State} {r : Option Page}
    (hres : s.putPageF true nid a = .ok (s', r)) : UKey s' := by
  unfold State.putPageF at hres
  split at hres
  · cases hres
  · rename_i cn hf
    obtain ⟨hcn, rfl⟩ := findNet_some' hf
    split at hres
    · simp only [Except.ok.injEq, Prod.mk.injEq] at hres; obtain ⟨rfl, _⟩ := hres; exact hu
    · split at hres
      · cases hres
      · have hres' : s.putTailR cn.id a (putKey (cn.getStat a.pgno).ptype a.pgno a.subno).1
            (putKey (cn.getStat a.pgno).ptype a.pgno a.subno).2 ((s.memLimit : Int) - s.memUsed) = .ok (s', r) := hres
        have hk := putKey_mask (cn.getStat a.pgno).ptype a.pgno a.subno
        generalize putKey (cn.getStat a.pgno).ptype a.pgno a.subno = K at hres' hk
        rcases putTailR_fresh g.1 g.2.1 hu hcn a K.1 K.2 _ hk hres' with c | ⟨s0, m, i0, c0, hm, eid, e, fresh⟩
        · exact ukey_of_calm hu c
        · subst e
          have hu0 := ukey_of_calm hu c0
          obtain ⟨pid, pnet, ppg, psub, _⟩ := insertNew_page ({ s0 with nCachedPages := s0.nCachedPages + 1 } : State) m.id a K.1
          have hpages := insertNew_pages ({ s0 with nCachedPages := s0.nCachedPages + 1 } : State) m.id a K.1
          generalize (({ s0 with nCachedPages := s0.nCachedPages + 1 } : State).insertNew m.id a K.1).2 = np at pid pnet ppg psub hpages
          intro p hp q hq hpz hqz hnet hpg hlow
          rw [hpages] at hp hq
          have hfresh : ∀ x ∈ s0.pages, x.pri ≠ .zombie → x.net = np.net → x.pgno = np.pgno →
              lowKey x.pgno x.subno = lowKey np.pgno np.subno → False := by
            intro x hx hxz hxn hxg hxl
            refine fresh x hx hxz (by rw [hxn, pnet, eid]) (by rw [hxg, ppg]) (Or.inr ?_)
            rw [hxg, ppg, psub] at hxl; exact hxl
          rcases List.mem_cons.1 hp with rfl | hp0
          · rcases List.mem_cons.1 hq with rfl | hq0
            · rfl
            · exact absurd (hfresh q hq0 hqz hnet.symm hpg.symm hlow.symm) id
          · rcases List.mem_cons.1 hq with rfl | hq0
            · exact absurd (hfresh p hp0 hpz hnet hpg hlow) id
            · exact hu0 p hp0 q hq0 hpz hqz hnet hpg hlow

theorem ukey_stepR {s : State} (g : Good s) (hu : UKey s) (op : Op) : UKey (stepF true s op).1 := by
  cases op with
  | put nid a =>
    unfold stepF; simp only
    split
    · rename_i s' r hres; exact ukey_putPageR g hu nid a hres
    · exact hu
  | _ => exact ukey_of_calm hu (calm_step g _ (fun nid a e => by cases e))

theorem ukey_runR (ops : List Op) {s : State} (g : Good s) (hu : UKey s) : UKey (runF true s ops) := by
  induction ops generalizing s with
  | nil => exact hu
  | cons op t ih => exact ih (good_stepF true g op) (ukey_stepR g hu op)

theorem ukey_init : UKey init := by intro p hp; simp [init] at hp

/-! ## counting keys -/

theorem nodup_bounded_length : ∀ (n : Nat) (l : List Nat), l.Nodup → (∀ x ∈ l, x < n) → l.length ≤ n := by
  intro n
  induction n with
  | zero =>
    intro l _ hb
    cases l with
    | nil => exact Nat.le_refl _
    | cons a t => exact absurd (hb a List.mem_cons_self) (Nat.not_lt_zero _)
  | succ n ih =>
    intro l hn hb
    by_cases hm : n ∈ l
    · have h1 : (l.erase n).length ≤ n := by
        refine ih _ (hn.erase n) (fun x hx => ?_)
        have hx' := (List.Nodup.mem_erase_iff hn).1 hx
        have := hb x hx'.2
        omega
      have h2 := List.length_erase_of_mem hm
      omega
    · have : l.length ≤ n := ih l hn (fun x hx => by
        have := hb x hx
        have : x ≠ n := fun e => hm (e ▸ hx)
        omega)
      omega

theorem lowKey_lt (pgno x : Nat) : lowKey pgno x < 256 := by
  unfold lowKey
  split
  · have := @Nat.and_le_right x 0xFF; omega
  · have := @Nat.and_le_right x 0xF; omega

/-- the keys of the selected pages of a list with unique ids are pairwise different -/
theorem keys_nodup {l : List Page} (hid : IdsNodup l) (P : Page → Bool) (key : Page → Nat)
    (hinj : ∀ p ∈ l, ∀ q ∈ l, P p = true → P q = true → key p = key q → p.id = q.id) :
    ((l.filter P).map key).Nodup := by
  induction l with
  | nil => simp
  | cons a t ih =>
    have hid' := idsNodup_cons.1 hid
    have iht := ih hid'.2 (fun p hp q hq => hinj p (List.mem_cons_of_mem _ hp) q (List.mem_cons_of_mem _ hq))
    by_cases hPa : P a = true
    · rw [List.filter_cons_of_pos hPa, List.map_cons, List.nodup_cons]
      refine ⟨?_, iht⟩
      intro hmem
      obtain ⟨q, hq, e⟩ := List.mem_map.1 hmem
      have hq' := List.mem_filter.1 hq
      have := hinj a List.mem_cons_self q (List.mem_cons_of_mem _ hq'.1) hPa hq'.2 e.symm
      exact hid'.1 q hq'.1 this.symm
    · rw [List.filter_cons_of_neg hPa]; exact iht

/-- repaired shape: at most 256 retrievable versions of one page number -/
theorem version_bound_of_ukey {s : State} (h : InvW s) (hu : UKey s) (nid pg : Nat) :
    s.pages.countP (fun p => p.net = nid ∧ p.pgno = pg ∧ p.pri ≠ .zombie) ≤ 256 := by
  rw [List.countP_eq_length_filter]
  have hn := keys_nodup h.pidNodup (fun p => decide (p.net = nid ∧ p.pgno = pg ∧ p.pri ≠ .zombie)) (fun p => lowKey p.pgno p.subno)
    (by
      intro p hp q hq hP hQ hk
      simp only [decide_eq_true_eq] at hP hQ
      exact hu p hp q hq hP.2.2 hQ.2.2 (hP.1.trans hQ.1.symm) (hP.2.1.trans hQ.2.1.symm) hk)
  have := nodup_bounded_length 256 _ hn (by
    intro x hx
    obtain ⟨p, _, rfl⟩ := List.mem_map.1 hx
    exact lowKey_lt _ _)
  rw [List.length_map] at this
  exact this

end Zvbi.Cache
