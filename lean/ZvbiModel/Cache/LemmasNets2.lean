import ZvbiModel.Cache.LemmasUpd
/-!
# Network operations keep the invariant
-/
namespace Zvbi.Cache

/-- a change of one network record that does not touch the page counters -/
theorem updNet_invW {s : State} (h : InvW s) (x : Nat) (f : Net → Net) (c' : Nat)
    (hid : ∀ n, (f n).id = n.id)
    (hc : ∀ n ∈ s.nets, n.id = x → (f n).nCached = n.nCached)
    (hr : ∀ n ∈ s.nets, n.id = x → (f n).nRef = n.nRef)
    (hs : ∀ n ∈ s.nets, n.id = x → ∀ pg, ((f n).getStat pg).nSub = (n.getStat pg).nSub)
    (hn : c' = (updNid s.nets x f).countP (fun n => !n.zombie)) :
    InvW { s.updNet x f with nCachedNets := c' } := by
  have aux : ∀ n', n' ∈ updNid s.nets x f ↔ ∃ n ∈ s.nets, n' = if n.id = x then f n else n := fun n' => mem_updNid
  refine ⟨h.pidNodup, h.pidLt, h.priNodup, h.refNodup, h.priMem, h.refMem, h.zombieRef, ?_, ?_, ?_, ?_, ?_, ?_,
    h.nPages, h.mem, hn⟩
  · show ((updNid s.nets x f).map (·.id)).Nodup; rw [map_id_updNid hid]; exact h.nidNodup
  · intro n' hn'; obtain ⟨n, hn, rfl⟩ := (aux n').1 hn'
    have := h.nidLt n hn; show _ < s.nextNid; split <;> simpa [hid] using this
  · intro p hp; obtain ⟨n, hn, e⟩ := h.netOf p hp
    refine ⟨_, (aux _).2 ⟨n, hn, rfl⟩, ?_⟩; split <;> simpa [hid] using e
  · intro n' hn'; obtain ⟨n, hn, rfl⟩ := (aux n').1 hn'
    have := h.nCached n hn
    split
    · rename_i e; rw [hid, hc n hn e]; exact this
    · exact this
  · intro n' hn'; obtain ⟨n, hn, rfl⟩ := (aux n').1 hn'
    have := h.nRef n hn
    split
    · rename_i e; rw [hid, hr n hn e]; exact this
    · exact this
  · intro n' hn' pg; obtain ⟨n, hn, rfl⟩ := (aux n').1 hn'
    have := h.nSub n hn pg
    split
    · rename_i e; rw [hid, hs n hn e]; exact this
    · exact this

/-- the same when `n_cached_networks` stays -/
theorem updNet_invW' {s : State} (h : InvW s) (x : Nat) (f : Net → Net)
    (hid : ∀ n, (f n).id = n.id)
    (hc : ∀ n ∈ s.nets, n.id = x → (f n).nCached = n.nCached)
    (hr : ∀ n ∈ s.nets, n.id = x → (f n).nRef = n.nRef)
    (hs : ∀ n ∈ s.nets, n.id = x → ∀ pg, ((f n).getStat pg).nSub = (n.getStat pg).nSub)
    (hz : ∀ n, (f n).zombie = n.zombie) : InvW (s.updNet x f) := by
  have := updNet_invW h x f s.nCachedNets hid hc hr hs
    (by rw [countP_updNid (fun n => !n.zombie) (fun n => by simp [hz])]; exact h.nNets)
  exact this

theorem findNet_some' {s : State} {x : Nat} {n : Net} (h : s.findNet x = some n) : n ∈ s.nets ∧ n.id = x :=
  findNet_some h

theorem findNet_of_mem' {s : State} (h : InvW s) {n : Net} (hn : n ∈ s.nets) : s.findNet n.id = some n :=
  findNet_of_mem h.nidNodup hn

theorem findPage_of_mem' {s : State} (h : InvW s) {p : Page} (hp : p ∈ s.pages) : s.findPage p.id = some p :=
  find_of_mem h.pidNodup hp

/-! ### `delete_all_pages (ca, cn)` deletes every unreferenced page of `cn` -/

/-- no page with this id is an unreferenced page of network `nid` -/
def Gone (s : State) (nid a : Nat) : Prop := ∀ q ∈ s.pages, q.id = a → ¬ (q.net = nid ∧ q.ref = 0)

theorem gone_of_sub {s s' : State} (hs : ∀ q ∈ s'.pages, ∃ p ∈ s.pages, sameBody p q) {nid a : Nat}
    (h : Gone s nid a) : Gone s' nid a := by
  intro q hq e hc
  obtain ⟨p, hp, b⟩ := hs q hq
  exact h p hp (b.1.trans e) ⟨b.2.1.trans hc.1, b.2.2.2.2.2.2.2.2.trans hc.2⟩

theorem deleteAllPages_step_gone {s : State} (h : InvW s) (nid a : Nat) :
    Gone (match s.findPage a with
      | some p => if p.net = nid then s.deletePage a else s
      | none => s) nid a := by
  split
  · rename_i p hf
    obtain ⟨hp, rfl⟩ := findPage_some hf
    split
    · rename_i hnet
      intro q hq e hc
      obtain ⟨p0, hp0, b⟩ := deletePage_sub s p.id q hq
      have : p0 = p := mem_unique h.pidNodup hp0 hp (b.1.trans e)
      subst this
      have hr0 : p0.ref = 0 := b.2.2.2.2.2.2.2.2.trans hc.2
      unfold State.deletePage at hq; rw [hf] at hq; simp only at hq
      rw [if_neg (by omega)] at hq
      rw [freePage_pages, mem_rmId] at hq; exact hq.2 e
    · rename_i hnet; intro q hq e; have := mem_unique h.pidNodup hq hp e; subst this; exact fun hc => hnet hc.1
  · rename_i hf; intro q hq e; exact absurd e (find_none hf q hq)

theorem deleteAllPages_fold_gone (nid : Nat) (ids : List Nat) (s : State) (h : InvW s) :
    ∀ a ∈ ids, Gone (ids.foldl (fun s id =>
      match s.findPage id with
      | some p => if p.net = nid then s.deletePage id else s
      | none => s) s) nid a := by
  induction ids generalizing s with
  | nil => intro a ha; cases ha
  | cons b t ih =>
    intro a ha
    rw [List.foldl_cons]
    have hstep : Shrinks s (match s.findPage b with
      | some p => if p.net = nid then s.deletePage b else s
      | none => s) := by
      split
      · split
        · exact Shrinks.deletePage s b
        · exact Shrinks.refl s
      · exact Shrinks.refl s
    rcases List.mem_cons.1 ha with rfl | ha'
    · have g := deleteAllPages_step_gone h nid a
      have := deleteAllPages_shrinks
      -- the rest of the loop only removes pages
      have rest : ∀ (t : List Nat) (s1 : State), ∀ q ∈ (t.foldl (fun s id =>
          match s.findPage id with
          | some p => if p.net = nid then s.deletePage id else s
          | none => s) s1).pages, ∃ p ∈ s1.pages, sameBody p q := by
        intro t
        induction t with
        | nil => intro s1 q hq; exact ⟨q, hq, sameBody.rfl' q⟩
        | cons c t' ih' =>
          intro s1 q hq
          rw [List.foldl_cons] at hq
          obtain ⟨p, hp, e⟩ := ih' _ q hq
          have hs1 : Shrinks s1 (match s1.findPage c with
            | some p => if p.net = nid then s1.deletePage c else s1
            | none => s1) := by
            split
            · split
              · exact Shrinks.deletePage s1 c
              · exact Shrinks.refl s1
            · exact Shrinks.refl s1
          obtain ⟨p0, hp0, e0⟩ := hs1.sub p hp
          exact ⟨p0, hp0, e0.trans e⟩
      exact gone_of_sub (rest t _) g
    · exact ih _ (hstep.invW h) a ha'

theorem deleteAllPages_complete {s : State} (h : InvW s) (nid : Nat) :
    ∀ q ∈ (s.deleteAllPages nid).pages, q.net = nid → 0 < q.ref := by
  intro q hq hnet
  have sh := deleteAllPages_shrinks s nid
  obtain ⟨p, hp, b⟩ := sh.sub q hq
  by_cases hr : q.ref = 0
  · have hp0 : p.ref = 0 := b.2.2.2.2.2.2.2.2.trans hr
    have hmem : p.id ∈ s.priority := (h.priMem p.id).2 ⟨p, hp, rfl, hp0⟩
    have := deleteAllPages_fold_gone nid s.priority s h p.id hmem
    exact absurd ⟨hnet, hr⟩ (this q hq b.1.symm)
  · omega

/-! ### delete_network -/

/-- the network record after the loop has the same key fields -/
theorem net_after_shrink {s s' : State} (sh : Shrinks s s') (h : InvW s) {n : Net} (hn : n ∈ s.nets) :
    ∃ n1 ∈ s'.nets, netKey n1 = netKey n := by
  have h' := sh.invW h
  have : netKey n ∈ s'.nets.map netKey := sh.key ▸ List.mem_map_of_mem hn
  obtain ⟨m, hm, e⟩ := List.mem_map.1 this
  exact ⟨m, hm, e⟩

theorem countP_eq_zero_of {l : List Page} {P Q : Page → Bool} (h : ∀ q ∈ l, P q = true → Q q = true)
    (hq : l.countP Q = 0) : l.countP P = 0 := by
  rw [List.countP_eq_zero] at hq ⊢
  intro q hql hp; exact hq q hql (h q hql hp)

theorem deleteNetwork_invW {s : State} (h : InvW s) (nid : Nat) : InvW (s.deleteNetwork nid) := by
  unfold State.deleteNetwork
  split
  · exact h
  · rename_i n hf
    obtain ⟨hn, rfl⟩ := findNet_some' hf
    -- page deletion
    have sh : Shrinks s (if n.nCached > 0 then s.deleteAllPages n.id else s) := by
      split
      · exact deleteAllPages_shrinks s n.id
      · exact Shrinks.refl s
    have hcomplete : ∀ q ∈ (if n.nCached > 0 then s.deleteAllPages n.id else s).pages, q.net = n.id → 0 < q.ref := by
      split
      · exact deleteAllPages_complete h n.id
      · rename_i hc
        intro q hq hnet
        have h1 := h.nCached n hn
        have : 0 < s.pages.countP (fun p => decide (p.net = n.id)) :=
          List.countP_pos_iff.2 ⟨q, hq, by simpa using hnet⟩
        omega
    generalize (if n.nCached > 0 then s.deleteAllPages n.id else s) = s1 at sh hcomplete
    have h1 := sh.invW h
    obtain ⟨n1, hn1, ek⟩ := net_after_shrink sh h hn
    simp only [netKey, Prod.mk.injEq] at ek
    obtain ⟨e1, e2, e3, e4⟩ := ek
    have hcnt : s1.nCachedNets = s1.nets.countP (fun n => !n.zombie) := h1.nNets
    simp only
    split
    · -- still referenced: becomes a zombie
      have key := countP_updNid_one h1.nidNodup hn1 (fun n => { n with zombie := true }) (fun n => !n.zombie)
      rw [e1] at key
      split
      · rename_i hz
        have hz1 : n1.zombie = false := by rw [e4]; simpa using hz
        exact updNet_invW h1 n.id _ (s1.nCachedNets - 1) (fun _ => rfl)
          (fun _ _ _ => rfl) (fun _ _ _ => rfl) (fun _ _ _ _ => rfl) (by simp [hz1] at key; omega)
      · rename_i hz
        have hz1 : n1.zombie = true := by rw [e4]; simpa using hz
        exact updNet_invW h1 n.id _ s1.nCachedNets (fun _ => rfl)
          (fun _ _ _ => rfl) (fun _ _ _ => rfl) (fun _ _ _ _ => rfl) (by simp [hz1] at key; omega)
    · -- unreferenced: unlinked and freed; no page points to it any more
      rename_i href
      have hnone : ∀ q ∈ s1.pages, q.net ≠ n.id := by
        intro q hq hnet
        have hr := h1.nRef n1 hn1
        have : 0 < s1.pages.countP (fun p => decide (p.net = n1.id ∧ 0 < p.ref)) :=
          List.countP_pos_iff.2 ⟨q, hq, by simpa [e1] using ⟨hnet, hcomplete q hq hnet⟩⟩
        omega
      have key := countP_filter_nid h1.nidNodup hn1 (fun n => !n.zombie)
      rw [e1] at key
      have hmem : ∀ m, m ∈ s1.nets.filter (fun m => decide (m.id ≠ n.id)) ↔ m ∈ s1.nets ∧ m.id ≠ n.id := by
        intro m; simp
      have body : ∀ c', c' = (s1.nets.filter (fun m => decide (m.id ≠ n.id))).countP (fun n => !n.zombie) →
          InvW { s1 with nCachedNets := c', nets := s1.nets.filter (fun m => decide (m.id ≠ n.id)) } := by
        intro c' hc'
        refine ⟨h1.pidNodup, h1.pidLt, h1.priNodup, h1.refNodup, h1.priMem, h1.refMem, h1.zombieRef, ?_, ?_, ?_, ?_, ?_, ?_,
          h1.nPages, h1.mem, hc'⟩
        · show ((s1.nets.filter _).map (·.id)).Nodup
          rw [map_id_filter_nid]; exact h1.nidNodup.filter _
        · intro m hm; exact h1.nidLt m ((hmem m).1 hm).1
        · intro q hq; obtain ⟨m, hm, e⟩ := h1.netOf q hq
          exact ⟨m, (hmem m).2 ⟨hm, fun x => hnone q hq (e.symm.trans x)⟩, e⟩
        · intro m hm; exact h1.nCached m ((hmem m).1 hm).1
        · intro m hm; exact h1.nRef m ((hmem m).1 hm).1
        · intro m hm; exact h1.nSub m ((hmem m).1 hm).1
      split
      · rename_i hz
        have hz1 : n1.zombie = false := by rw [e4]; simpa using hz
        exact body (s1.nCachedNets - 1) (by simp only [hz1, Bool.not_false, if_true] at key; omega)
      · rename_i hz
        have hz1 : n1.zombie = true := by rw [e4]; simpa using hz
        exact body s1.nCachedNets (by simp only [hz1, Bool.not_true, Bool.false_eq_true, if_false] at key; omega)

/-- page-level effect of `delete_network`: that of its page loop -/
theorem deleteNetwork_pages {s : State} (nid : Nat) :
    ∃ s1, Shrinks s s1 ∧ (s.deleteNetwork nid).pages = s1.pages ∧ (s.deleteNetwork nid).priority = s1.priority
      ∧ (s.deleteNetwork nid).referenced = s1.referenced ∧ (s.deleteNetwork nid).memUsed = s1.memUsed
      ∧ (s.deleteNetwork nid).nCachedPages = s1.nCachedPages ∧ (s.deleteNetwork nid).nextPid = s1.nextPid := by
  unfold State.deleteNetwork
  split
  · exact ⟨s, Shrinks.refl s, rfl, rfl, rfl, rfl, rfl, rfl⟩
  · rename_i n hf
    obtain ⟨_, rfl⟩ := findNet_some' hf
    refine ⟨if n.nCached > 0 then s.deleteAllPages n.id else s, ?_, ?_⟩
    · split
      · exact deleteAllPages_shrinks s n.id
      · exact Shrinks.refl s
    · simp only; split <;> split <;> exact ⟨rfl, rfl, rfl, rfl, rfl, rfl⟩

theorem deleteNetwork_memLimit (s : State) (nid : Nat) : (s.deleteNetwork nid).memLimit = s.memLimit := by
  unfold State.deleteNetwork
  split
  · rfl
  · rename_i n hf
    obtain ⟨_, rfl⟩ := findNet_some' hf
    have : (if n.nCached > 0 then s.deleteAllPages n.id else s).memLimit = s.memLimit := by
      split
      · exact (deleteAllPages_shrinks s n.id).limit
      · rfl
    simp only; split <;> split <;> exact this

theorem deleteNetwork_nextNid (s : State) (nid : Nat) : (s.deleteNetwork nid).nextNid = s.nextNid := by
  unfold State.deleteNetwork
  split
  · rfl
  · rename_i n hf
    obtain ⟨_, rfl⟩ := findNet_some' hf
    have : (if n.nCached > 0 then s.deleteAllPages n.id else s).nextNid = s.nextNid := by
      split
      · exact (deleteAllPages_shrinks s n.id).nextNid
      · rfl
    simp only; split <;> split <;> exact this

theorem deleteNetwork_nNetsLimit (s : State) (nid : Nat) : (s.deleteNetwork nid).nNetsLimit = s.nNetsLimit := by
  unfold State.deleteNetwork
  split
  · rfl
  · rename_i n hf
    obtain ⟨_, rfl⟩ := findNet_some' hf
    have : ∀ (ids : List Nat) (s : State), (ids.foldl (fun s id =>
        match s.findPage id with
        | some p => if p.net = n.id then s.deletePage id else s
        | none => s) s).nNetsLimit = s.nNetsLimit := by
      intro ids
      induction ids with
      | nil => intro s; rfl
      | cons a t ih =>
        intro s; rw [List.foldl_cons, ih]
        split
        · split
          · unfold State.deletePage; split
            · rfl
            · split
              · split <;> rfl
              · unfold State.freePage; split <;> rfl
          · rfl
        · rfl
    have h2 : (if n.nCached > 0 then s.deleteAllPages n.id else s).nNetsLimit = s.nNetsLimit := by
      split
      · exact this _ _
      · rfl
    simp only; split <;> split <;> exact h2

/-- network-level effect of `delete_network (ca, cn)`: `cn` ends up gone or a referenced zombie,
    every other network record keeps its key fields -/
theorem deleteNetwork_nets {s : State} (h : InvW s) (nid : Nat) :
    ∀ n' ∈ (s.deleteNetwork nid).nets,
      (n'.id = nid → n'.zombie = true ∧ (0 < n'.ref ∨ 0 < n'.nRef)) ∧ (n'.id ≠ nid → ∃ n ∈ s.nets, netKey n = netKey n') := by
  unfold State.deleteNetwork
  split
  · rename_i hf
    intro n' hn'; exact ⟨fun e => absurd e (findNet_none hf n' hn'), fun _ => ⟨n', hn', rfl⟩⟩
  · rename_i n hf
    obtain ⟨hn, rfl⟩ := findNet_some' hf
    have sh : Shrinks s (if n.nCached > 0 then s.deleteAllPages n.id else s) := by
      split
      · exact deleteAllPages_shrinks s n.id
      · exact Shrinks.refl s
    generalize (if n.nCached > 0 then s.deleteAllPages n.id else s) = s1 at sh
    have h1 := sh.invW h
    obtain ⟨n1, hn1, ek⟩ := net_after_shrink sh h hn
    have ek' := ek
    simp only [netKey, Prod.mk.injEq] at ek
    obtain ⟨e1, e2, e3, e4⟩ := ek
    simp only
    have hnets : ∀ (c : State), c.nets = s1.nets →
        ∀ n' ∈ (c.updNet n.id (fun n => { n with zombie := true })).nets,
        n.ref > 0 ∨ n.nRef > 0 →
        (n'.id = n.id → n'.zombie = true ∧ (0 < n'.ref ∨ 0 < n'.nRef)) ∧ (n'.id ≠ n.id → ∃ m ∈ s.nets, netKey m = netKey n') := by
      intro c hc n' hn' href
      rw [updNet_nets, hc, mem_updNid] at hn'
      obtain ⟨m, hm, rfl⟩ := hn'
      split
      · rename_i e
        have : m = n1 := net_unique h1.nidNodup hm hn1 (e.trans e1.symm)
        subst this
        exact ⟨fun _ => ⟨rfl, by show 0 < m.ref ∨ 0 < m.nRef; omega⟩, fun x => absurd e x⟩
      · rename_i e
        exact ⟨fun x => absurd x e, fun _ => mem_of_key sh.key hm⟩
    have hfil : ∀ (c : State), c.nets = s1.nets →
        ∀ n' ∈ ({ c with nets := c.nets.filter (fun m => decide (m.id ≠ n.id)) } : State).nets,
        (n'.id = n.id → n'.zombie = true ∧ (0 < n'.ref ∨ 0 < n'.nRef)) ∧ (n'.id ≠ n.id → ∃ m ∈ s.nets, netKey m = netKey n') := by
      intro c hc n' hn'
      simp only [hc, List.mem_filter, decide_eq_true_eq] at hn'
      exact ⟨fun x => absurd x hn'.2, fun _ => mem_of_key sh.key hn'.1⟩
    split
    · rename_i href
      split
      · exact fun n' hn' => hnets _ rfl n' hn' href
      · exact fun n' hn' => hnets _ rfl n' hn' href
    · split
      · exact fun n' hn' => hfil _ rfl n' hn'
      · exact fun n' hn' => hfil _ rfl n' hn'

/-- after `delete_network (ca, cn)` every zombie network is referenced, if that held for the others before -/
theorem deleteNetwork_znet {s : State} (h : InvW s) (nid : Nat) {P : Nat → Prop} (hz : ZNetOn s P)
    : ZNetOn (s.deleteNetwork nid) (fun x => P x ∨ x = nid) := by
  intro n' hn' hp
  have := deleteNetwork_nets h nid n' hn'
  by_cases e : n'.id = nid
  · exact fun _ => (this.1 e).2
  · obtain ⟨m, hm, ek⟩ := this.2 e
    have e1 : m.id = n'.id := by simp only [netKey, Prod.mk.injEq] at ek; exact ek.1
    exact zok_of_key ek (hz m hm (by rw [e1]; rcases hp with hp | hp; exact hp; exact absurd hp e))

end Zvbi.Cache
