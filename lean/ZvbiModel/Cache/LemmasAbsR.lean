import ZvbiModel.Cache.LemmasAbs2
import ZvbiModel.Cache.LemmasFix
/-!
# `_vbi_cache_put_page`, REPAIRED shape, against the abstract store (no memory pressure): the list form

`putTailR_abs` / `putPageR_abs`: with fixes/C10-put-replaces-all-versions.diff a store is `aputR` on the abstract store,
as a LIST equation (most-recently-used order of the remaining versions included) - the statement left open in
Props/C10Evict.lean as `refines_map_put_repaired_full`.  `putPageF_abs`: both shapes at once (`aputF`).

Method: `absI` = the retrievable versions with their page ids.  `delete_page id` is `filter (id ≠ ·)` on it (freed, or
turned into a zombie when it is still referenced), so the loop `dropOthers` is one filter; the page the look-up found
stays at the head of the chain, and what follows is the analysis of LemmasAbs2.lean (`putRest_abs_head`).
-/
namespace Zvbi.Cache
open Zvbi.Gen.Cache

/-- the retrievable versions of a page list, with the ids of their pages -/
def absI (l : List Page) : List (Nat × Entry) := (l.filter (fun p => p.pri ≠ .zombie)).map (fun p => (p.id, p.entry))

theorem absL_absI (l : List Page) : absL l = (absI l).map (·.2) := by
  unfold absL absI; rw [List.map_map]; rfl

theorem absI_cons (a : Page) (t : List Page) :
    absI (a :: t) = if a.pri ≠ .zombie then (a.id, a.entry) :: absI t else absI t := by
  unfold absI; rw [List.filter_cons]; by_cases h : a.pri = .zombie <;> simp [h]

theorem mem_absI {l : List Page} {y : Nat × Entry} (hy : y ∈ absI l) :
    ∃ q ∈ l, q.pri ≠ .zombie ∧ y = (q.id, q.entry) := by
  unfold absI at hy
  obtain ⟨q, hq, rfl⟩ := List.mem_map.1 hy
  have := List.mem_filter.1 hq
  exact ⟨q, this.1, by simpa using this.2, rfl⟩

theorem absI_rmId (l : List Page) (x : Nat) : absI (rmId l x) = (absI l).filter (fun y => y.1 ≠ x) := by
  induction l with
  | nil => rfl
  | cons a t ih =>
    rw [rmId_cons, absI_cons]
    by_cases e : a.id = x
    · rw [if_pos e, ih]
      by_cases hz : a.pri = .zombie
      · simp [hz]
      · simp [hz, e]
    · rw [if_neg e, absI_cons, ih]
      by_cases hz : a.pri = .zombie
      · simp [hz]
      · simp [hz, e]

theorem absI_updId_zombie (l : List Page) (x : Nat) :
    absI (updId l x (fun p => { p with pri := .zombie })) = (absI l).filter (fun y => y.1 ≠ x) := by
  induction l with
  | nil => rfl
  | cons a t ih =>
    have : updId (a :: t) x (fun p => { p with pri := .zombie })
        = (if a.id = x then { a with pri := .zombie } else a) :: updId t x (fun p => { p with pri := .zombie }) := rfl
    rw [this, absI_cons, absI_cons, ih]
    by_cases e : a.id = x
    · by_cases hz : a.pri = .zombie <;> simp [e, hz]
    · by_cases hz : a.pri = .zombie <;> simp [e, hz]

/-- a zombie is not among the retrievable versions: nothing to filter -/
theorem absI_filter_zombie {l : List Page} (hn : IdsNodup l) {p : Page} (hp : p ∈ l) (hz : p.pri = .zombie) :
    (absI l).filter (fun y => y.1 ≠ p.id) = absI l := by
  apply List.filter_eq_self.2
  intro y hy
  obtain ⟨q, hq, hqz, rfl⟩ := mem_absI hy
  simp only [ne_eq, decide_not, Bool.not_eq_eq_eq_not, Bool.not_true, decide_eq_false_iff_not]
  intro e
  have := mem_unique hn hq hp e
  subst this
  exact hqz hz

/-- `delete_page` on the retrievable versions: the version with that id goes (freed, or made a zombie) -/
theorem deletePage_absI {s : State} (h : InvW s) (id : Nat) :
    absI (s.deletePage id).pages = (absI s.pages).filter (fun y => y.1 ≠ id) := by
  unfold State.deletePage
  split
  · rename_i hf
    symm
    apply List.filter_eq_self.2
    intro y hy
    obtain ⟨q, hq, _, rfl⟩ := mem_absI hy
    have := find_none hf q hq
    simpa using this
  · rename_i p hf
    obtain ⟨hp, rfl⟩ := findPage_some hf
    split
    · split
      · rw [updPage_pages]; exact absI_updId_zombie _ _
      · rename_i hz
        have hz' : p.pri = .zombie := by simpa using hz
        exact (absI_filter_zombie h.pidNodup hp hz').symm
    · rw [freePage_pages]; exact absI_rmId _ _

theorem foldDelete_absI (ids : List Nat) {s : State} (h : InvW s) :
    absI (ids.foldl (fun s id => s.deletePage id) s).pages = (absI s.pages).filter (fun y => decide (y.1 ∉ ids)) := by
  induction ids generalizing s with
  | nil =>
    symm
    apply List.filter_eq_self.2
    intro y _; simp
  | cons x t ih =>
    rw [List.foldl_cons, ih (deletePage_invW h x), deletePage_absI h x, List.filter_filter]
    apply List.filter_congr
    intro y _
    by_cases e1 : y.1 = x <;> by_cases e2 : y.1 ∈ t <;> simp [e1, e2]

/-- `delete_page` of another page leaves the head of the chain where it is -/
theorem deletePage_head {s : State} {o : Page} {base : List Page} (hp : s.pages = o :: base) {id : Nat} (hne : o.id ≠ id) :
    ∃ base', (s.deletePage id).pages = o :: base' := by
  unfold State.deletePage
  split
  · exact ⟨base, hp⟩
  · rename_i p hf
    obtain ⟨_, rfl⟩ := findPage_some hf
    split
    · split
      · rw [updPage_pages, hp]
        refine ⟨updId base p.id (fun p => { p with pri := .zombie }), ?_⟩
        show (if o.id = p.id then _ else o) :: _ = _
        rw [if_neg hne]
        rfl
      · exact ⟨base, hp⟩
    · rw [freePage_pages, hp, rmId_cons, if_neg hne]
      exact ⟨_, rfl⟩

theorem foldDelete_head (ids : List Nat) {s : State} {o : Page} {base : List Page} (hp : s.pages = o :: base)
    (hne : ∀ id ∈ ids, o.id ≠ id) : ∃ base', (ids.foldl (fun s id => s.deletePage id) s).pages = o :: base' := by
  induction ids generalizing s base with
  | nil => exact ⟨base, hp⟩
  | cons x t ih =>
    rw [List.foldl_cons]
    obtain ⟨b1, hb1⟩ := deletePage_head hp (hne x List.mem_cons_self)
    exact ih hb1 (fun id hid => hne id (List.mem_cons_of_mem _ hid))

/-! ## the part of `_vbi_cache_put_page` after the look-up, the page found at the head of the chain -/

theorem putRest_eq (s : State) (nid : Nat) (a : PutArg) (k1 : Nat) (old : Option Page) (avail0 : Int) :
    s.putRest nid a k1 old avail0 = afterVictim nid a k1 (s.putVictim old avail0) := rfl

/-- death row and replacement when the version found is the head of the chain and there is room -/
theorem putRest_abs_head {sv : State} (nid : Nat) (a : PutArg) (k1 : Nat) (avail0 : Int) {o : Page} {base : List Page}
    (hp : sv.pages = o :: base) (hfresh : ∀ q ∈ base, q.id ≠ o.id)
    (havail : avail0 ≥ (pageSize a.func a.x26 a.x28 : Int))
    {s' : State} {r : Option Page} (hres : sv.putRest nid a k1 (some o) avail0 = .ok (s', r)) :
    s'.abs = putEntry nid a k1 :: absL base ∧ r.map Page.entry = some (putEntry nid a k1) := by
  rw [putRest_eq] at hres
  rcases putVictim_cases sv (some o) avail0 with ⟨ho, _⟩ | ⟨o', ho, hr, hv⟩ | ⟨o', ho, hr, hv⟩
  · cases ho
  · cases ho
    rw [hv] at hres
    obtain ⟨t1, t2⟩ := afterVictim_abs nid a k1 none avail0 [] _ havail (Or.inl ⟨rfl, rfl⟩) hres
    refine ⟨?_, t2⟩
    rw [t1]
    congr 1
    rw [updPage_pages, hp]
    have : updId (o :: base) o.id (fun p => { p with pri := .zombie }) = { o with pri := .zombie } :: base := by
      show (if o.id = o.id then _ else o) :: updId base o.id _ = _
      rw [if_pos rfl, updId_of_not_mem hfresh]
    rw [this, absL_cons]; simp
  · cases ho
    rw [hv] at hres
    have havail2 : avail0 + (o.size : Int) ≥ (pageSize a.func a.x26 a.x28 : Int) := by omega
    exact afterVictim_abs nid a k1 (some o.id) _ [o.id] base havail2 (Or.inr ⟨o, rfl, hp, hr, hfresh⟩) hres

/-! ## abstract side -/

theorem extract_none_all {q : Entry → Bool} {a : AStore} (h : extract q a = none) : ∀ e ∈ a, q e = false := by
  induction a with
  | nil => intro e he; cases he
  | cons b t ih =>
    unfold extract at h
    by_cases hb : q b = true
    · simp [hb] at h
    · have hb' : q b = false := by simpa using hb
      simp only [hb', Bool.false_eq_true, if_false, Option.map_eq_none_iff] at h
      intro e he
      rcases List.mem_cons.1 he with rfl | he
      · exact hb'
      · exact ih h e he

/-- under a single-version key that finds nothing the repaired store just adds the new version -/
theorem aputR_none (x : AStore) (e : Entry) (key : Nat)
    (h : extract (fun o : Entry => o.matches e.net e.pgno key 0) x = none) : aputR x e 0 = e :: x := by
  unfold aputR
  rw [if_pos rfl]
  congr 1
  apply List.filter_eq_self.2
  intro o ho
  have := extract_none_all h o ho
  unfold Entry.matches at this
  simp only [Nat.and_zero, decide_true, Bool.true_and, Bool.decide_and, Bool.and_eq_false_imp,
    decide_eq_true_eq, decide_eq_false_iff_not] at this
  simp only [Bool.not_eq_eq_eq_not, Bool.not_true, decide_eq_false_iff_not, not_and]
  exact this

theorem putTailR_eq_of_mask {s : State} (nid : Nat) (a : PutArg) (k1 k2 : Nat) (avail0 : Int) (hk : k2 ≠ 0) :
    s.putTailR nid a k1 k2 avail0 = s.putTail nid a k1 k2 avail0 := by
  rw [putTail_rest]
  unfold State.putTailR
  simp only
  split
  · rename_i o ho; rw [if_neg hk, ho]
  · rename_i ho; rw [ho]

/-- the part of the REPAIRED `_vbi_cache_put_page` after the key was chosen, against the abstract store: `aputR` -/
theorem putTailR_abs {s : State} (h : InvW s) (nid : Nat) (a : PutArg) (k1 k2 : Nat) (avail0 : Int)
    (havail : avail0 ≥ (pageSize a.func a.x26 a.x28 : Int))
    (hroom : ((s.memLimit : Int) - s.memUsed) ≥ (pageSize a.func a.x26 a.x28 : Int))
    {s' : State} {r : Option Page} (hres : s.putTailR nid a k1 k2 avail0 = .ok (s', r)) :
    s'.abs = aputR s.abs (putEntry nid a k1) k2 ∧ r.map Page.entry = some (putEntry nid a k1) := by
  by_cases hk : k2 = 0
  · subst hk
    rcases pageByPgno_cases s nid a.pgno (k1 &&& 0) 0 with ⟨hfo, hr0⟩ | ⟨o, hfo, hr0⟩
    · -- nothing cached under the page number: as found
      have hres' : s.putTail nid a k1 0 avail0 = .ok (s', r) := by
        rw [putTail_rest, hr0]
        unfold State.putTailR at hres
        rw [hr0] at hres
        exact hres
      obtain ⟨t1, t2⟩ := putTail_abs h nid a k1 0 avail0 havail hres'
      refine ⟨?_, t2⟩
      have hx : extract (fun o : Entry => o.matches nid a.pgno (k1 &&& 0) 0) s.abs = none := by
        rw [abs_eq s, extract_absL h.pidNodup, hfo]; rfl
      rw [hx] at t1
      rw [t1]
      exact (aputR_none s.abs (putEntry nid a k1) (k1 &&& 0) hx).symm
    · -- a version was found: all others of the page number are deleted first
      have hom : o ∈ s.pages := List.mem_of_find?_eq_some hfo
      have hmatch : pageMatch nid a.pgno (k1 &&& 0) 0 o = true := List.find?_some hfo
      have hoz : o.pri ≠ .zombie ∧ o.pgno = a.pgno ∧ o.net = nid := by
        unfold pageMatch at hmatch
        simp only [Bool.decide_and, Bool.and_eq_true, decide_eq_true_eq] at hmatch
        exact ⟨hmatch.1, hmatch.2.1, hmatch.2.2.2⟩
      obtain ⟨a1, _⟩ := pageByPgno_all h nid a.pgno (k1 &&& 0) 0
      unfold State.putTailR at hres
      rw [hr0] at hres a1
      simp only [if_true] at hres a1
      -- the state after the look-up
      generalize hs0 : ({ s with pages := o :: rmId s.pages o.id } : State) = s0 at hres a1
      have hp0 : s0.pages = o :: rmId s.pages o.id := by rw [← hs0]
      have a4 : s0.memUsed = s.memUsed := by rw [← hs0]
      have a5 : s0.memLimit = s.memLimit := by rw [← hs0]
      have sh := dropOthers_shrinks s0 nid a.pgno o.id
      -- the ids the loop deletes
      generalize hids : ((s0.pages.filter (fun q => q.pri ≠ .zombie ∧ q.pgno = a.pgno ∧ q.net = nid ∧ q.id ≠ o.id)).map (·.id)) = ids
      have hdrop : s0.dropOthers nid a.pgno o.id = ids.foldl (fun s id => s.deletePage id) s0 := by
        unfold State.dropOthers; rw [hids]
      have hnot : ∀ id ∈ ids, o.id ≠ id := by
        intro id hid e
        rw [← hids] at hid
        obtain ⟨q, hq, rfl⟩ := List.mem_map.1 hid
        have := (List.mem_filter.1 hq).2
        simp only [decide_eq_true_eq] at this
        exact this.2.2.2 e.symm
      obtain ⟨base1, hb1⟩ := foldDelete_head ids hp0 hnot
      have hI := foldDelete_absI ids a1
      rw [← hdrop] at hb1 hI
      have a1' := sh.invW a1
      generalize s0.dropOthers nid a.pgno o.id = s1 at hres sh hb1 hI a1'
      have hfresh : ∀ q ∈ base1, q.id ≠ o.id := by
        have := a1'.pidNodup
        rw [hb1] at this
        exact (idsNodup_cons.1 this).1
      have hav1 : ((s1.memLimit : Int) - s1.memUsed) ≥ (pageSize a.func a.x26 a.x28 : Int) := by
        have e1 := sh.mem; have e2 := sh.limit
        rw [e2, a5]; rw [a4] at e1; omega
      obtain ⟨t1, t2⟩ := putRest_abs_head nid a k1 _ hb1 hfresh hav1 hres
      refine ⟨?_, t2⟩
      rw [t1]
      unfold aputR
      rw [if_pos rfl]
      congr 1
      -- absL base1 = the versions of other page numbers / networks, in order
      rw [hb1, hp0, absI_cons, absI_cons, if_pos hoz.1, if_pos hoz.1] at hI
      have hhead : o.id ∉ ids := fun hm => hnot _ hm rfl
      have hI2 : (o.id, o.entry) :: absI base1
          = (o.id, o.entry) :: (absI (rmId s.pages o.id)).filter (fun y => decide (y.1 ∉ ids)) := by
        rw [hI, List.filter_cons]; simp [hhead]
      have hI' : absI base1 = (absI (rmId s.pages o.id)).filter (fun y => decide (y.1 ∉ ids)) := (List.cons.inj hI2).2
      have hcongr : ∀ y ∈ absI s.pages,
          (decide (y.1 ∉ ids) && decide (y.1 ≠ o.id))
            = !(decide (y.2.pgno = (putEntry nid a k1).pgno ∧ y.2.net = (putEntry nid a k1).net)) := by
        intro y hy
        obtain ⟨q, hq, hqz, rfl⟩ := mem_absI hy
        have hpe : (putEntry nid a k1).pgno = a.pgno := rfl
        have hne : (putEntry nid a k1).net = nid := rfl
        have hqe1 : q.entry.pgno = q.pgno := rfl
        have hqe2 : q.entry.net = q.net := rfl
        simp only [hpe, hne, hqe1, hqe2]
        by_cases hsel : q.pgno = a.pgno ∧ q.net = nid
        · -- a version of the page number: it is `o` or it is on the list of the loop
          have hrhs : (!decide (q.pgno = a.pgno ∧ q.net = nid)) = false := by simp [hsel]
          rw [hrhs]
          by_cases hqo : q.id = o.id
          · simp [hqo]
          · have hin : q.id ∈ ids := by
              rw [← hids]
              refine List.mem_map.2 ⟨q, List.mem_filter.2 ⟨?_, ?_⟩, rfl⟩
              · rw [hp0]; exact List.mem_cons_of_mem _ (mem_rmId.2 ⟨hq, hqo⟩)
              · simp only [decide_eq_true_eq]; exact ⟨hqz, hsel.1, hsel.2, hqo⟩
            simp [hin]
        · have hrhs : (!decide (q.pgno = a.pgno ∧ q.net = nid)) = true := by simp [hsel]
          rw [hrhs]
          have hqo : q.id ≠ o.id := by
            intro e
            have := mem_unique h.pidNodup hq hom e
            subst this
            exact hsel ⟨hoz.2.1, hoz.2.2⟩
          have hnin : q.id ∉ ids := by
            intro hin
            rw [← hids] at hin
            obtain ⟨q', hq', e⟩ := List.mem_map.1 hin
            have hq'' := List.mem_filter.1 hq'
            simp only [decide_eq_true_eq] at hq''
            have hq'm : q' ∈ s.pages := by
              have := hq''.1; rw [hp0] at this
              rcases List.mem_cons.1 this with rfl | hm
              · exact hom
              · exact (mem_rmId.1 hm).1
            have := mem_unique h.pidNodup hq'm hq e
            subst this
            exact hsel ⟨hq''.2.2.1, hq''.2.2.2.1⟩
          simp [hqo, hnin]
      rw [absL_absI, hI', abs_eq, absL_absI, absI_rmId, List.filter_filter, List.filter_map]
      congr 1
      apply List.filter_congr
      intro y hy
      exact hcongr y hy
  · rw [putTailR_eq_of_mask nid a k1 k2 avail0 hk] at hres
    obtain ⟨t1, t2⟩ := putTail_abs h nid a k1 k2 avail0 havail hres
    refine ⟨?_, t2⟩
    rw [t1]; unfold aputR; rw [if_neg hk]; rfl

/-- `_vbi_cache_put_page` of the REPAIRED shape against the abstract store, when memory is not short: under a
    single-version key EVERY version of the page number is replaced, otherwise the version found under the key; the new
    version is the most recent one and is handed out; the order of all other versions is unchanged -/
theorem putPageR_abs {s : State} (h : InvW s) {nid : Nat} {cn : Net} (hf : s.findNet nid = some cn) (a : PutArg)
    (hlow : a.pgno &&& 0xFF ≠ 0xFF) (hrange : 0x100 ≤ a.pgno ∧ a.pgno ≤ 0x8FF)
    (hroom : s.memUsed + pageSize a.func a.x26 a.x28 ≤ s.memLimit)
    {s' : State} {r : Option Page} (hres : s.putPageF true nid a = .ok (s', r)) :
    s'.abs = aputR s.abs (putEntry nid a (putKey (cn.getStat a.pgno).ptype a.pgno a.subno).1)
        (putKey (cn.getStat a.pgno).ptype a.pgno a.subno).2
    ∧ r.map Page.entry = some (putEntry nid a (putKey (cn.getStat a.pgno).ptype a.pgno a.subno).1) := by
  have havail : ((s.memLimit : Int) - s.memUsed) ≥ (pageSize a.func a.x26 a.x28 : Int) := by omega
  unfold State.putPageF at hres
  split at hres
  · cases hres
  · rename_i cn' hf'
    have : cn' = cn := by rw [hf] at hf'; exact (Option.some.inj hf').symm
    subst this
    split at hres
    · rename_i hc; exact absurd hc hlow
    · split at hres
      · rename_i hc; omega
      · simp only at hres
        generalize putKey (cn'.getStat a.pgno).ptype a.pgno a.subno = K at hres ⊢
        exact putTailR_abs h nid a K.1 K.2 _ havail havail hres

/-- the abstract store operation of source shape `fix` (`aput` as found, `aputR` repaired) -/
def aputF (fix : Bool) (a : AStore) (e : Entry) (mask : Nat) : AStore :=
  if fix then aputR a e mask else aput a e mask

theorem aputF_true (a : AStore) (e : Entry) (mask : Nat) : aputF true a e mask = aputR a e mask := rfl
theorem aputF_false (a : AStore) (e : Entry) (mask : Nat) : aputF false a e mask = aput a e mask := rfl

/-- `_vbi_cache_put_page` against the abstract store, BOTH source shapes -/
theorem putPageF_abs (fix : Bool) {s : State} (h : InvW s) {nid : Nat} {cn : Net} (hf : s.findNet nid = some cn) (a : PutArg)
    (hlow : a.pgno &&& 0xFF ≠ 0xFF) (hrange : 0x100 ≤ a.pgno ∧ a.pgno ≤ 0x8FF)
    (hroom : s.memUsed + pageSize a.func a.x26 a.x28 ≤ s.memLimit)
    {s' : State} {r : Option Page} (hres : s.putPageF fix nid a = .ok (s', r)) :
    s'.abs = aputF fix s.abs (putEntry nid a (putKey (cn.getStat a.pgno).ptype a.pgno a.subno).1)
        (putKey (cn.getStat a.pgno).ptype a.pgno a.subno).2
    ∧ r.map Page.entry = some (putEntry nid a (putKey (cn.getStat a.pgno).ptype a.pgno a.subno).1) := by
  cases fix with
  | true =>
    rw [aputF_true]
    exact putPageR_abs h hf a hlow hrange hroom hres
  | false =>
    rw [aputF_false]
    rw [putPageF_false] at hres
    exact putPage_abs h hf a hlow hrange hroom hres

end Zvbi.Cache
