import ZvbiModel.Cache.LemmasAbs2
/-!
# A page held by a caller stays intact
-/
namespace Zvbi.Cache

/-- every referenced page of `s` is still there in `s'`, same content, same reference count -/
def HeldKept (s s' : State) : Prop := ∀ p ∈ s.pages, 0 < p.ref → ∃ q ∈ s'.pages, sameBody p q

theorem HeldKept.refl (s : State) : HeldKept s s := fun p hp _ => ⟨p, hp, sameBody.rfl' p⟩
theorem HeldKept.trans {a b c : State} (h1 : HeldKept a b) (h2 : HeldKept b c) : HeldKept a c := by
  intro p hp hr
  obtain ⟨q, hq, e⟩ := h1 p hp hr
  obtain ⟨q2, hq2, e2⟩ := h2 q hq (by rw [← e.2.2.2.2.2.2.2.2]; exact hr)
  exact ⟨q2, hq2, e.trans e2⟩

theorem putReplace_held {s : State} (h : InvW s) (nid : Nat) (a : PutArg) (subno : Nat)
    (avail : Int) {row : List Nat} (hrow : ∀ id ∈ row, id ∈ s.priority) {s' : State} {r : Option Page}
    (hres : s.putReplace nid a subno avail row = .ok (s', r)) : HeldKept s s' := by
  unfold State.putReplace at hres
  simp only at hres
  split at hres
  · rename_i hc
    split at hres
    · cases hres
    · rename_i v hv
      split at hres
      · cases hres
      · simp only [Except.ok.injEq, Prod.mk.injEq] at hres
        obtain ⟨rfl, _⟩ := hres
        have hrow1 : ∃ id, row = [id] := by
          match row, hc.2 with
          | [id], _ => exact ⟨id, rfl⟩
        obtain ⟨id, rfl⟩ := hrow1
        have hv' : s.findPage id = some v := by simpa using hv
        obtain ⟨hvm, rfl⟩ := findPage_some hv'
        have hv0 : v.ref = 0 := by
          obtain ⟨q, hq, e, hq0⟩ := (h.priMem v.id).1 (hrow v.id (by simp))
          rw [← mem_unique h.pidNodup hq hvm e]; exact hq0
        intro p hp hr
        refine ⟨p, ?_, sameBody.rfl' p⟩
        rw [insertNew_pages]
        refine List.mem_cons_of_mem _ ?_
        show p ∈ rmId s.pages v.id
        rw [mem_rmId]; refine ⟨hp, fun e => ?_⟩
        have := mem_unique h.pidNodup hp hvm e; subst this; omega
  · split at hres
    · cases hres
    · simp only [Except.ok.injEq, Prod.mk.injEq] at hres
      obtain ⟨rfl, _⟩ := hres
      have sh := foldDelete_shrinks row s
      intro p hp hr
      obtain ⟨q, hq, e⟩ := sh.keep h p hp hr
      refine ⟨q, ?_, e⟩
      rw [insertNew_pages]
      exact List.mem_cons_of_mem _ hq

theorem putTail_held {s : State} (h : InvW s) (hz : ZNet s) (nid : Nat) (a : PutArg) (k1 k2 : Nat) (avail0 : Int)
    {s' : State} {r : Option Page} (hres : s.putTail nid a k1 k2 avail0 = .ok (s', r)) : HeldKept s s' := by
  unfold State.putTail at hres
  simp only at hres
  obtain ⟨a1, a2, a3, a4, a5, _, _, a8, a9⟩ := pageByPgno_all h nid a.pgno (k1 &&& k2) k2
  generalize s.pageByPgno nid a.pgno (k1 &&& k2) k2 = r0 at hres a1 a2 a3 a4 a5 a8 a9
  have z1 : ZNet r0.1 := znet_of_key (by rw [a2]) hz
  have k0 : HeldKept s r0.1 := fun p hp _ => ⟨p, (a3 p).2 hp, sameBody.rfl' p⟩
  obtain ⟨b1, b2, b3, b4, b5, b6, b7⟩ := putVictim_all a1 z1 r0.2 avail0 (fun o ho => (a3 o).2 (a9 o ho).1)
  have k1' : HeldKept r0.1 (r0.1.putVictim r0.2 avail0).1 := by
    unfold State.putVictim
    split
    · exact HeldKept.refl _
    · split
      · intro p hp _
        refine ⟨_, (by rw [updPage_pages]; exact mem_updId.2 ⟨p, hp, rfl⟩), ?_⟩
        split
        · exact ⟨rfl, rfl, rfl, rfl, rfl, rfl, rfl, rfl, rfl⟩
        · exact sameBody.rfl' p
      · exact HeldKept.refl _
  generalize r0.1.putVictim r0.2 avail0 = v at hres b1 b2 b3 b4 b5 b6 b7 k1'
  split at hres
  · cases hres
  · simp only [Except.ok.injEq, Prod.mk.injEq] at hres; obtain ⟨rfl, _⟩ := hres
    exact k0.trans k1'
  · rename_i avail row hcol
    have hrow : ∀ id ∈ row, id ∈ v.1.priority := by
      intro id hid
      rcases collectAll_row hcol id hid with x | x
      · rw [b4]; exact b7 id x
      · exact x
    exact (k0.trans k1').trans (putReplace_held b1 nid a _ avail hrow hres)

theorem putPage_held {s : State} (h : InvW s) (hz : ZNet s) (nid : Nat) (a : PutArg) {s' : State} {r : Option Page}
    (hres : s.putPage nid a = .ok (s', r)) : HeldKept s s' := by
  unfold State.putPage at hres
  split at hres
  · cases hres
  · split at hres
    · simp only [Except.ok.injEq, Prod.mk.injEq] at hres; obtain ⟨rfl, _⟩ := hres
      exact HeldKept.refl _
    · split at hres
      · cases hres
      · exact putTail_held h hz nid a _ _ _ hres

theorem held_of_pstep {s s' : State} (h : InvW s) (p : PStep s s') : HeldKept s s' := p.keep h

/-- operations that do not take or release page references: every held page survives them unchanged -/
theorem held_step {s : State} (g : Good s) (op : Op)
    (hop : match op with
      | .get .. | .ref .. | .unref .. | .isCached .. | .foreach .. => False
      | _ => True) : HeldKept s (step s op).1 := by
  obtain ⟨h, hz, hm⟩ := g
  cases op with
  | put nid a =>
    unfold step; simp only
    split
    · rename_i s' p hres; exact putPage_held h hz nid a hres
    · exact HeldKept.refl _
  | get nid pgno subno mask => exact absurd hop id
  | ref pid => exact absurd hop id
  | unref pid => exact absurd hop id
  | isCached nid pgno subno => exact absurd hop id
  | «foreach» nid pgno subno back stop => exact absurd hop id
  | hiSubno nid pgno =>
    unfold step; simp only
    split
    · exact HeldKept.refl _
    · split <;> exact HeldKept.refl _
  | addNet =>
    unfold step; simp only
    exact held_of_pstep h (addNetwork_all h hz).2.2.1
  | netRef nid =>
    unfold step; simp only
    split <;> exact HeldKept.refl _
  | netUnref nid =>
    unfold step; simp only
    split
    · exact HeldKept.refl _
    · exact held_of_pstep h (netUnref_all h hz nid).2.2.1
  | chsw nid =>
    unfold step; simp only
    split
    · exact HeldKept.refl _
    · obtain ⟨a, b, c, _⟩ := netUnref_all h hz nid
      have k1 := held_of_pstep h c
      have k2 := held_of_pstep a (addNetwork_all a b).2.2.1
      exact k1.trans k2
  | statReset nid =>
    unfold step; simp only
    split
    · exact HeldKept.refl _
    · split <;> exact HeldKept.refl _
  | ptype nid pgno t =>
    unfold step; simp only
    split
    · exact HeldKept.refl _
    · split <;> exact HeldKept.refl _
  | purge =>
    unfold step; simp only
    exact held_of_pstep h (purge_all s).2.1
  | setLimit n =>
    unfold step; simp only
    have h' : InvW ({ s with memLimit := n } : State) :=
      ⟨h.pidNodup, h.pidLt, h.priNodup, h.refNodup, h.priMem, h.refMem, h.zombieRef, h.nidNodup, h.nidLt, h.netOf,
       h.nCached, h.nRef, h.nSub, h.nPages, h.mem, h.nNets⟩
    exact (deleteSurplusPages_shrinks ({ s with memLimit := n } : State)).keep h'

end Zvbi.Cache
