import ZvbiModel.Cache.LemmasSpec
/-!
# Look-ups against the abstract store
-/
namespace Zvbi.Cache
open Zvbi.Gen.Cache

/-- the retrievable versions of a page list -/
def absL (l : List Page) : AStore := (l.filter (fun p => p.pri ≠ .zombie)).map Page.entry

theorem abs_eq (s : State) : s.abs = absL s.pages := rfl

theorem absL_cons (a : Page) (t : List Page) :
    absL (a :: t) = if a.pri ≠ .zombie then a.entry :: absL t else absL t := by
  unfold absL; rw [List.filter_cons]; by_cases h : a.pri = .zombie <;> simp [h]

theorem pageMatch_iff (nid pgno subno mask : Nat) (p : Page) :
    pageMatch nid pgno subno mask p = (decide (p.pri ≠ .zombie) && p.entry.matches nid pgno subno mask) := by
  unfold pageMatch Entry.matches Page.entry
  simp only [Bool.decide_and]

/-- `page_by_pgno` on the hash chain is `extract` on the abstract store -/
theorem extract_absL {l : List Page} (hn : IdsNodup l) (nid pgno subno mask : Nat) :
    extract (fun e => e.matches nid pgno subno mask) (absL l) =
      (l.find? (pageMatch nid pgno subno mask)).map (fun p => (p.entry, absL (rmId l p.id))) := by
  induction l with
  | nil => rfl
  | cons a t ih =>
    rw [idsNodup_cons] at hn
    rw [absL_cons, List.find?_cons, pageMatch_iff]
    by_cases hz : a.pri = .zombie
    · -- a zombie is on no hash chain
      have hne : a.pri ≠ .zombie ↔ False := by simp [hz]
      simp only [hz, ne_eq, not_true_eq_false, if_false, decide_false, Bool.false_and]
      rw [ih hn.2]
      cases hf : t.find? (pageMatch nid pgno subno mask) with
      | none => rfl
      | some p =>
        simp only [Option.map_some]
        have hp : p ∈ t := List.mem_of_find?_eq_some hf
        have : a.id ≠ p.id := fun e => hn.1 p hp e.symm
        rw [rmId_cons, if_neg this, absL_cons]; simp [hz]
    · simp only [ne_eq, hz, not_false_eq_true, if_true, decide_true, Bool.true_and]
      unfold extract
      by_cases hm : a.entry.matches nid pgno subno mask = true
      · simp only [hm, if_true, Option.map_some]
        rw [rmId_cons, if_pos rfl, rmId_of_not_mem hn.1]
      · have hm' : a.entry.matches nid pgno subno mask = false := by simpa using hm
        simp only [hm', Bool.false_eq_true, if_false]
        rw [ih hn.2]
        cases hf : t.find? (pageMatch nid pgno subno mask) with
        | none => rfl
        | some p =>
          simp only [Option.map_some]
          have hp : p ∈ t := List.mem_of_find?_eq_some hf
          have : a.id ≠ p.id := fun e => hn.1 p hp e.symm
          rw [rmId_cons, if_neg this, absL_cons]; simp [hz]

theorem absL_updId {l : List Page} (x : Nat) (f : Page → Page) (hp : ∀ p, (f p).pri = p.pri) (he : ∀ p, (f p).entry = p.entry) :
    absL (updId l x f) = absL l := by
  induction l with
  | nil => rfl
  | cons a t ih =>
    have : updId (a :: t) x f = (if a.id = x then f a else a) :: updId t x f := rfl
    rw [this, absL_cons, absL_cons, ih]
    by_cases e : a.id = x <;> simp [e, hp, he]

theorem pageRef_pages (s : State) {p : Page} (hf : s.findPage p.id = some p) :
    (s.pageRef p.id).pages = updId s.pages p.id (fun p => { p with ref := p.ref + 1 }) := by
  unfold State.pageRef
  rw [hf]
  simp only
  split
  · rw [(refFirst_fields _ p _).1, (unzombieNet_fields s p.net).1]
  · rfl

/-- `_vbi_cache_get_page` against the abstract store: the answer is the most recent version matching
    the key under the mask, and that version becomes the most recent one -/
theorem getPage_abs {s : State} (h : InvW s) (nid pgno subno mask : Nat) (hv : validPgno pgno = true) :
    ((s.getPage nid pgno subno mask).2.map Page.entry
        = alookup s.abs nid pgno subno (if subno = anySubno then 0 else mask))
    ∧ (s.getPage nid pgno subno mask).1.abs = atouch s.abs nid pgno subno (if subno = anySubno then 0 else mask) := by
  unfold State.getPage alookup atouch
  simp only [hv, Bool.not_true, Bool.false_eq_true, if_false]
  have hneg : ¬ ((subno : Int) < 0) := by omega
  simp only [hneg, if_false, Int.toNat_natCast]
  rw [abs_eq, extract_absL h.pidNodup]
  unfold State.pageByPgno
  cases hf : s.pages.find? (pageMatch nid pgno subno (if subno = anySubno then 0 else mask)) with
  | none => simp [abs_eq]
  | some p =>
    simp only [Option.map_some]
    have hp : p ∈ s.pages := List.mem_of_find?_eq_some hf
    have hpm := List.find?_some hf
    have hnz : p.pri ≠ .zombie := by
      rw [pageMatch_iff] at hpm; simp at hpm; exact hpm.1
    have h1 := moveFront_invW h hp
    have hf1 : ({ s with pages := p :: rmId s.pages p.id } : State).findPage p.id = some p := by
      unfold State.findPage; simp
    have hpages := pageRef_pages ({ s with pages := p :: rmId s.pages p.id } : State) hf1
    constructor
    · -- the page handed out
      have hmem : ({ p with ref := p.ref + 1 } : Page) ∈ (State.pageRef { s with pages := p :: rmId s.pages p.id } p.id).pages := by
        rw [hpages]; exact mem_updId.2 ⟨p, List.mem_cons_self, by rw [if_pos rfl]⟩
      have hnd : IdsNodup (State.pageRef { s with pages := p :: rmId s.pages p.id } p.id).pages := by
        rw [hpages]; show (List.map _ _).Nodup
        rw [map_id_updId (f := fun p => { p with ref := p.ref + 1 }) (fun _ => rfl)]; exact h1.pidNodup
      have hfind : (State.pageRef { s with pages := p :: rmId s.pages p.id } p.id).findPage p.id
          = some { p with ref := p.ref + 1 } := find_of_mem hnd hmem
      show Option.map Page.entry (State.findPage (State.pageRef { s with pages := p :: rmId s.pages p.id } p.id) p.id) = _
      rw [hfind]
      rfl
    · show (State.pageRef { s with pages := p :: rmId s.pages p.id } p.id).abs = _
      rw [abs_eq, hpages, absL_updId _ (fun p => { p with ref := p.ref + 1 }) (fun _ => rfl) (fun _ => rfl)]
      show absL (p :: rmId s.pages p.id) = _
      rw [absL_cons]
      simp [hnz]

end Zvbi.Cache
