import ZvbiModel.Cache.Model
/-!
# What the property C10 says, in terms the theorems mention

* `Inv` - the bookkeeping is exact: the conjunction the property lists (counters = number of
  stored pages, memory accounting, list membership, zombie states, no dangling pointer).
* `AStore` - the abstract page store: the versions currently retrievable, most recently
  stored or looked-up first.  `alookup` / `aput` are the map operations with the documented
  key rule (`putKey`).
-/
namespace Zvbi.Cache

/-- Structural invariant of the cache, everything except "memory within the limit". -/
structure InvCore (s : State) : Prop where
  /-- page ids (addresses) are unique and were handed out by the allocator -/
  pidNodup : (s.pages.map (·.id)).Nodup
  pidLt : ∀ p ∈ s.pages, p.id < s.nextPid
  /-- each page is on exactly one of the two `pri_node` lists, decided by its reference count -/
  priNodup : s.priority.Nodup
  refNodup : s.referenced.Nodup
  priMem : ∀ id, id ∈ s.priority ↔ ∃ p ∈ s.pages, p.id = id ∧ p.ref = 0
  refMem : ∀ id, id ∈ s.referenced ↔ ∃ p ∈ s.pages, p.id = id ∧ 0 < p.ref
  /-- a zombie page (off the hash chains) exists only while referenced -/
  zombieRef : ∀ p ∈ s.pages, p.pri = .zombie → 0 < p.ref
  /-- networks: unique, and no page points to a network that is not on the list -/
  nidNodup : (s.nets.map (·.id)).Nodup
  nidLt : ∀ n ∈ s.nets, n.id < s.nextNid
  netOf : ∀ p ∈ s.pages, ∃ n ∈ s.nets, n.id = p.net
  /-- per-network counters -/
  nCached : ∀ n ∈ s.nets, n.nCached = s.pages.countP (fun p => p.net = n.id)
  nRef : ∀ n ∈ s.nets, n.nRef = s.pages.countP (fun p => p.net = n.id ∧ 0 < p.ref)
  /-- per-page counter (`uint16_t n_subpages`: exact modulo 65536, see `nsub_exact_partial`) -/
  nSub : ∀ n ∈ s.nets, ∀ pg, (n.getStat pg).nSub
      = s.pages.countP (fun p => p.net = n.id ∧ p.pgno = pg) % 65536
  /-- cache-wide counters -/
  nPages : s.nCachedPages = s.pages.length
  mem : s.memUsed = ((s.pages.filter (fun p => p.ref = 0)).map Page.size).sum
  nNets : s.nCachedNets = s.nets.countP (fun n => !n.zombie)
  /-- a zombie network exists only while it or one of its pages is referenced -/
  zombieNet : ∀ n ∈ s.nets, n.zombie = true → 0 < n.ref ∨ 0 < n.nRef

/-- The invariant of the property: exact bookkeeping and memory within the limit. -/
structure Inv (s : State) : Prop extends InvCore s where
  memLe : s.memUsed ≤ s.memLimit

/-! ## abstract store -/

/-- one retrievable version -/
structure Entry where
  net : Nat
  pgno : Nat
  subno : Nat
  func : Int
  x26 : Nat
  x28 : Nat
  tag : Nat
  deriving DecidableEq, Repr

def Page.entry (p : Page) : Entry :=
  { net := p.net, pgno := p.pgno, subno := p.subno, func := p.func, x26 := p.x26, x28 := p.x28, tag := p.tag }

/-- most recently stored / looked-up first -/
abbrev AStore := List Entry

/-- the retrievable versions of a cache state: what is on the hash chains -/
def State.abs (s : State) : AStore := (s.pages.filter (fun p => p.pri ≠ .zombie)).map Page.entry

def Entry.matches (e : Entry) (nid pgno subno mask : Nat) : Bool :=
  e.pgno = pgno ∧ (e.subno &&& mask) = (subno &&& mask) ∧ e.net = nid

/-- first (= most recent) version satisfying `q`, and the store without it -/
def extract (q : Entry → Bool) : AStore → Option (Entry × AStore)
  | [] => none
  | e :: a => if q e then some (e, a) else (extract q a).map fun (x, r) => (x, e :: r)

/-- look-up: the most recent version matching the key under the mask -/
def alookup (a : AStore) (nid pgno subno mask : Nat) : Option Entry :=
  (extract (fun e => e.matches nid pgno subno mask) a).map (·.1)

/-- a successful look-up makes the version the most recent one; a failed one changes nothing -/
def atouch (a : AStore) (nid pgno subno mask : Nat) : AStore :=
  match extract (fun e => e.matches nid pgno subno mask) a with
  | some (e, r) => e :: r
  | none => a

/-- store: the version found under the key of `putKey` is replaced, the new one is the most recent -/
def aput (a : AStore) (e : Entry) (mask : Nat) : AStore :=
  match extract (fun o => o.matches e.net e.pgno (e.subno &&& mask) mask) a with
  | some (_, r) => e :: r
  | none => e :: a

/-- store, repaired source shape (fixes/C10-put-replaces-all-versions.diff): under a single-version key
    (`mask = 0`) ALL versions of the page number in that network are replaced -/
def aputR (a : AStore) (e : Entry) (mask : Nat) : AStore :=
  if mask = 0 then e :: a.filter (fun o => !(decide (o.pgno = e.pgno ∧ o.net = e.net))) else aput a e mask

/-- key of a version inside its page number: the key classes of `putKey` keep these distinct (repaired shape) -/
def lowKey (pgno subno : Nat) : Nat := if isBcd pgno then subno &&& 0xFF else subno &&& 0xF

end Zvbi.Cache
