import ZvbiModel.Cache.LemmasAbsR
import ZvbiModel.Cache.LemmasLimit
import ZvbiModel.Cache.LemmasTtx
/-!
# The retrievable versions are not disturbed by the release of a page reference (round 6)

What Props/C03Join.lean (`ttx_refined_by_cache_full`) asks of the cache side: the decoder releases every page right
after use (`cache_page_unref`), so a mirrored history interleaves `unref`s; `Sim` (Props/C10Ttx.lean) is about the
retrievable entries `State.abs`.

* `unrefNetCheck_live`: the zombie-network check of `cache_page_unref` does nothing on a network that is not a zombie.
* `memCheck_within`: `if (ca->memory_used > ca->memory_limit) delete_surplus_pages (ca)` does nothing within the limit.
* `pageUnref_abs_keep`: `cache_page_unref` leaves `State.abs` - content AND order - alone when the network of the page
  is not a zombie and the page fits the limit once it is unreferenced (`memory_used + size <= memory_limit`); all three
  branches: a further reference stays, last reference of a cached page (page moves to the priority list, is counted in
  `memory_used`), last reference of a replaced page (zombie: freed, it was not retrievable).
* `stepF_unref_state`: the `.unref` operation of the model is `pageUnref` (the `rej` answers leave the state alone).

* `alookup_atouch_any`: a version a look-up found is the one the next wildcard look-up of that page number finds
  (`page_by_pgno` moves it to the head of its chain wherever it was found - seed C10-f relinks it only from the
  third chain position on).

Core Lean only (imports `LemmasTtx` for `extract_some_sat`).
-/
namespace Zvbi.Cache
open Zvbi.Gen.Cache

/-- a statistics / counter update of one network record keeps "the network `nid` is not a zombie" -/
theorem live_updNid {l : List Net} {x nid : Nat} {f : Net → Net} (hf : ∀ n, (f n).id = n.id ∧ (f n).zombie = n.zombie)
    (hz : ∀ n ∈ l, n.id = nid → n.zombie = false) : ∀ n ∈ updNid l x f, n.id = nid → n.zombie = false := by
  intro n hn e
  obtain ⟨m, hm, rfl⟩ := mem_updNid.1 hn
  by_cases c : m.id = x
  · rw [if_pos c] at e ⊢
    rw [(hf m).2]
    exact hz m hm (by rw [← (hf m).1]; exact e)
  · rw [if_neg c] at e ⊢
    exact hz m hm e

/-- `if (cn->zombie && ...) delete_network (ca, cn)`: nothing happens to a network that is not a zombie -/
theorem unrefNetCheck_live {s : State} (nid : Nat) (hz : ∀ n ∈ s.nets, n.id = nid → n.zombie = false) :
    s.unrefNetCheck nid = s := by
  unfold State.unrefNetCheck
  split
  · rename_i n hf
    obtain ⟨hn, e⟩ := findNet_some' hf
    split
    · rename_i hc
      rw [hz n hn e] at hc
      exact absurd hc.1 (by simp)
    · rfl
  · rfl

/-- `if (ca->memory_used > ca->memory_limit) delete_surplus_pages (ca)`: nothing happens within the limit -/
theorem memCheck_within {s : State} (h : s.memUsed ≤ s.memLimit) : s.memCheck = s := by
  unfold State.memCheck
  rw [if_neg (by omega)]

/-- the tail of `cache_page_unref` (zombie-network check, memory check) on a live network within the limit -/
theorem unrefTail_keep {s : State} (nid : Nat) (hz : ∀ n ∈ s.nets, n.id = nid → n.zombie = false)
    (h : s.memUsed ≤ s.memLimit) : s.unrefTail nid = s := by
  unfold State.unrefTail
  rw [unrefNetCheck_live nid hz, memCheck_within h]

/-- **`cache_page_unref` does not disturb the retrievable versions** (content and most-recently-used order) when the
    network of the page is not a zombie and `memory_used + size <= memory_limit` -/
theorem pageUnref_abs_keep {s : State} (h : InvW s) (id : Nat)
    (hz : ∀ p, s.findPage id = some p → ∀ n ∈ s.nets, n.id = p.net → n.zombie = false)
    (hroom : ∀ p, s.findPage id = some p → s.memUsed + p.size ≤ s.memLimit) :
    (s.pageUnref id).abs = s.abs := by
  unfold State.pageUnref
  split
  · rfl
  · rename_i p hf
    have hzp := hz p hf
    have hr := hroom p hf
    obtain ⟨hp, hid⟩ := findPage_some hf
    split
    · rfl
    · split
      · split
        · rename_i hzomb
          have k := unrefZombie_fields h hp hzomb
          have hz1 : ∀ n ∈ (s.unrefZombie p).nets, n.id = p.net → n.zombie = false := by
            rw [k.2.2.2.1]
            exact live_updNid (fun n => ⟨rfl, rfl⟩) hzp
          have hm1 : (s.unrefZombie p).memUsed ≤ (s.unrefZombie p).memLimit := by
            rw [k.2.2.2.2.1, k.2.2.2.2.2.2.2.2.2]; omega
          rw [unrefTail_keep p.net hz1 hm1, abs_eq, abs_eq, k.1, absL_absI, absL_absI, absI_rmId,
            absI_filter_zombie h.pidNodup hp hzomb]
        · have k := unrefLast_fields s p
          have hz1 : ∀ n ∈ (s.unrefLast p).nets, n.id = p.net → n.zombie = false := by
            rw [k.2.2.2.1]
            exact live_updNid (fun n => ⟨rfl, rfl⟩) hzp
          have hm1 : (s.unrefLast p).memUsed ≤ (s.unrefLast p).memLimit := by
            rw [k.2.2.2.2.1, k.2.2.2.2.2.2.2.2.2]; exact hr
          rw [unrefTail_keep p.net hz1 hm1, abs_eq, abs_eq, k.1]
          exact absL_updId _ _ (fun _ => rfl) (fun _ => rfl)
      · rw [abs_eq, abs_eq, updPage_pages]
        exact absL_updId _ _ (fun _ => rfl) (fun _ => rfl)

/-- the `.unref` operation is `cache_page_unref` (a refused call leaves the state alone, as `pageUnref` does) -/
theorem stepF_unref_state (fix : Bool) (s : State) (pid : Nat) : (stepF fix s (.unref pid)).1 = s.pageUnref pid := by
  show (step s (.unref pid)).1 = s.pageUnref pid
  simp only [step]
  cases hf : s.findPage pid with
  | none => simp [State.pageUnref, hf]
  | some p =>
    by_cases h0 : p.ref = 0
    · simp [State.pageUnref, hf, h0]
    · simp [h0]

/-- abstract store: what a look-up found is what a wildcard look-up (mask 0) of the same page number finds next -/
theorem alookup_atouch_any {a : AStore} {nid pgno subno mask : Nat} {e : Entry}
    (h : alookup a nid pgno subno mask = some e) (sub' : Nat) :
    alookup (atouch a nid pgno subno mask) nid pgno sub' 0 = some e := by
  unfold alookup at h
  unfold atouch
  cases hx : extract (fun e => e.matches nid pgno subno mask) a with
  | none => rw [hx] at h; simp at h
  | some er =>
    obtain ⟨e', r⟩ := er
    rw [hx] at h
    have he : e' = e := by simpa using h
    subst he
    have hs := extract_some_sat hx
    have hm : e'.matches nid pgno sub' 0 = true := by
      simp only [Entry.matches, decide_eq_true_eq] at hs ⊢
      exact ⟨hs.1, by simp, hs.2.2⟩
    simp [alookup, extract, hm]

end Zvbi.Cache
