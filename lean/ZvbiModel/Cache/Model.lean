import ZvbiModel.Generated.CacheLayout
/-!
# Model of the Teletext page cache (src/cache.c, cache-priv.h, dlist.h)

Representation (see NOTES/C10.md for the argument that it is faithful):

* `State.pages` holds one record per allocated `cache_page`.  The sub-sequence of records whose
  `pri ≠ zombie` **is** the hash table: most recently used first.  The 113 hash chains of the C
  code are the restrictions of that sequence to `pgno % 113 = b`; no behaviour of cache.c depends
  on the bucket (every chain walk filters on `cp->pgno == pgno`), so the model keeps one sequence
  and the driver prints it per bucket.  `unlink_node (&cp->hash_node)` and
  `cp->priority = CACHE_PRI_ZOMBIE` occur together at both places in the C code; in the model
  setting `pri := zombie` is that pair of statements.
* `priority` / `referenced` are the two `pri_node` lists as lists of page ids (head first).
* `nets` is `ca->networks` (most recently used first), records inline.  The `_pages[0x800]`
  statistics array is an association list plus the value of never-touched entries (`defType`).
* A pointer is an id; freed objects disappear from `pages` / `nets`, so a dangling id is
  observable (`findPage = none`).
* `unsigned int` counters are `Nat` (they overflow after 2^32 events); the `uint8_t` members
  (since 5e41e82) `uint16_t` members `n_subpages`, `max_subpages`, `subno_min`, `subno_max` of
  `struct ttx_page_stat` are kept modulo 65536, exactly as the C code truncates them; the widths and the
  shape of the statements the translator recognises are pinned by `source_shape` below.
-/
namespace Zvbi.Cache
open Zvbi.Gen.Cache

inductive Pri where
  | zombie | normal | special
  deriving DecidableEq, Repr, Inhabited

/-- `cache_page`; `tag` stands for the payload (national, flags, packet sets, data union). -/
structure Page where
  id : Nat
  net : Nat
  pgno : Nat
  subno : Nat
  func : Int
  x26 : Nat
  x28 : Nat
  ref : Nat
  pri : Pri
  tag : Nat
  deriving DecidableEq, Repr, Inhabited

/-- `struct ttx_page_stat`, the members cache.c touches -/
structure PStat where
  ptype : Nat := 0
  nSub : Nat := 0
  maxSub : Nat := 0
  subMin : Nat := 0
  subMax : Nat := 0
  deriving DecidableEq, Repr, Inhabited

/-- `cache_network` -/
structure Net where
  id : Nat
  ref : Nat := 0
  zombie : Bool := false
  nCached : Nat := 0
  maxCached : Nat := 0
  nRef : Nat := 0
  defType : Nat := 0
  stat : List (Nat × PStat) := []
  deriving DecidableEq, Repr, Inhabited

/-- `struct _vbi_cache` -/
structure State where
  pages : List Page := []
  priority : List Nat := []
  referenced : List Nat := []
  nets : List Net := []
  nCachedPages : Nat := 0
  memUsed : Nat := 0
  memLimit : Nat := memoryLimit0
  nCachedNets : Nat := 0
  nNetsLimit : Nat := nNetworksLimit0
  nextPid : Nat := 0
  nextNid : Nat := 0
  deriving DecidableEq, Repr, Inhabited

/-- `vbi_cache_new` -/
def init : State := {}

/-- What translate/gen_cache.py read from the current source.  The model below is written for exactly
    this shape; if /repo changes (counter widths, the sub-page range rule of `cache_network_add_page`, the
    look-up / clamp / second-wrap statements of `_vbi_cache_foreach_page`) this stops to build. -/
theorem source_shape :
    nSubMod = 65536 ∧ maxSubMod = 65536 ∧ subnoMinMod = 65536 ∧ subnoMaxMod = 65536
    ∧ subRangeRestartsWhenSingle = true ∧ walkExactLookup = true ∧ walkClampsToFirst = true
    ∧ walkStopsAtSecondWrap = true := by decide

/-! ## small helpers -/

/-- `vbi_is_bcd` (32-bit unsigned arithmetic) -/
def isBcd (n : Nat) : Bool :=
  ((((n + 0x06666666) % 4294967296) ^^^ (n ^^^ 0x06666666)) &&& 0x11111110) == 0

/-- `vbi_bcd_digits_greater` -/
def bcdDigitsGreater (bcd maximum : Nat) : Bool :=
  let m := 0xFFFFFFFF - maximum
  ((((bcd + m) % 4294967296) ^^^ bcd ^^^ m) &&& 0x11111110) != 0

/-- `cache_page_size` -/
def pageSize (func : Int) (x26 x28 : Nat) : Nat :=
  if func = fnUnknown ∨ func = fnLop then
    if x28 &&& 0x13 ≠ 0 then hdrSize + extLopSize
    else if x26 ≠ 0 then hdrSize + enhLopSize
    else hdrSize + lopSize
  else if func = fnGpop ∨ func = fnPop then hdrSize + popSize
  else if func = fnGdrcs ∨ func = fnDrcs then hdrSize + drcsSize
  else if func = fnAit then hdrSize + aitSize
  else fullSize

def Page.size (p : Page) : Nat := pageSize p.func p.x26 p.x28

def Net.getStat (n : Net) (pg : Nat) : PStat :=
  (n.stat.lookup pg).getD { ptype := n.defType }

def Net.setStat (n : Net) (pg : Nat) (ps : PStat) : Net :=
  { n with stat := (pg, ps) :: n.stat.filter (fun e => e.1 ≠ pg) }

def State.findPage (s : State) (id : Nat) : Option Page := s.pages.find? (fun p => p.id = id)
def State.findNet (s : State) (nid : Nat) : Option Net := s.nets.find? (fun n => n.id = nid)

def State.updPage (s : State) (id : Nat) (f : Page → Page) : State :=
  { s with pages := s.pages.map (fun p => if p.id = id then f p else p) }

def State.updNet (s : State) (nid : Nat) (f : Net → Net) : State :=
  { s with nets := s.nets.map (fun n => if n.id = nid then f n else n) }

/-- `unlink_node (&cp->pri_node)`: the node leaves whichever of the two lists it is on -/
def State.unlinkPri (s : State) (id : Nat) : State :=
  { s with priority := s.priority.filter (· ≠ id), referenced := s.referenced.filter (· ≠ id) }

/-- the page leaves the store (its `hash_node` is unlinked and the struct is freed or reused) -/
def State.dropPage (s : State) (id : Nat) : State :=
  { s with pages := s.pages.filter (fun p => p.id ≠ id) }

/-- `if (cn->zombie) { ++ca->n_cached_networks; cn->zombie = FALSE; }` -/
def State.unzombieNet (s : State) (nid : Nat) : State :=
  match s.findNet nid with
  | some n => if n.zombie then
      { s.updNet nid (fun n => { n with zombie := false }) with nCachedNets := s.nCachedNets + 1 }
    else s
  | none => s

/-! ## cache_network_remove_page / cache_network_add_page -/

def State.netRemovePage (s : State) (nid pg : Nat) : State :=
  s.updNet nid fun n =>
    let ps := n.getStat pg
    ({ n with nCached := n.nCached - 1 } : Net).setStat pg { ps with nSub := (ps.nSub + 65535) % 65536 }

def State.netAddPage (s : State) (nid pg subno : Nat) : State :=
  let s := s.unzombieNet nid
  s.updNet nid fun n =>
    let n : Net := { n with nCached := n.nCached + 1 }
    let n : Net := if n.nCached > n.maxCached then { n with maxCached := n.nCached } else n
    let ps := n.getStat pg
    let ps : PStat := { ps with nSub := (ps.nSub + 1) % 65536 }
    let ps : PStat := if ps.nSub > ps.maxSub then { ps with maxSub := ps.nSub } else ps
    let ps : PStat := if ps.nSub = 1 ∨ subno < ps.subMin then { ps with subMin := subno % 65536 } else ps
    let ps : PStat := if ps.nSub = 1 ∨ subno > ps.subMax then { ps with subMax := subno % 65536 } else ps
    n.setStat pg ps

/-! ## delete_page, delete_all_pages, delete_surplus_pages -/

/-- the unreferenced-page branch of `delete_page` -/
def State.freePage (s : State) (p : Page) : State :=
  let s := if p.pri ≠ .zombie then { s with memUsed := s.memUsed - p.size } else s
  let s := s.unlinkPri p.id
  let s := s.netRemovePage p.net p.pgno
  let s := s.dropPage p.id
  { s with nCachedPages := s.nCachedPages - 1 }

def State.deletePage (s : State) (id : Nat) : State :=
  match s.findPage id with
  | none => s
  | some p =>
    if p.ref > 0 then
      if p.pri ≠ .zombie then s.updPage id (fun p => { p with pri := .zombie }) else s
    else s.freePage p

/-- `FOR_ALL_NODES (cp, cp1, &ca->priority, pri_node) if (cp->network == cn) delete_page (ca, cp);`
    The loop saves the successor before the body and the body unlinks only `cp`, hence a walk over
    the list as it was at loop entry. -/
def State.deleteAllPages (s : State) (nid : Nat) : State :=
  s.priority.foldl (fun s id =>
    match s.findPage id with
    | some p => if p.net = nid then s.deletePage id else s
    | none => s) s

def State.netRefCount (s : State) (nid : Nat) : Nat :=
  match s.findNet nid with
  | some n => n.ref
  | none => 0

/-- one `FOR_ALL_NODES` pass of `delete_surplus_pages`; `true` = the function returned -/
def surplusPass (pri : Pri) (chkNet : Bool) : List Nat → State → State × Bool
  | [], s => (s, false)
  | id :: rest, s =>
    if s.memUsed ≤ s.memLimit then (s, true)
    else match s.findPage id with
      | some p =>
        if p.pri = pri ∧ (!chkNet ∨ s.netRefCount p.net = 0) then surplusPass pri chkNet rest (s.deletePage id)
        else surplusPass pri chkNet rest s
      | none => surplusPass pri chkNet rest s

def State.deleteSurplusPages (s : State) : State :=
  let (s, d) := surplusPass .normal true s.priority s
  if d then s else
  let (s, d) := surplusPass .special true s.priority s
  if d then s else
  let (s, d) := surplusPass .normal false s.priority s
  if d then s else
  (surplusPass .special false s.priority s).1

/-! ## networks -/

def State.deleteNetwork (s : State) (nid : Nat) : State :=
  match s.findNet nid with
  | none => s
  | some n =>
    let s := if n.nCached > 0 then s.deleteAllPages nid else s
    let s := if !n.zombie then { s with nCachedNets := s.nCachedNets - 1 } else s
    if n.ref > 0 ∨ n.nRef > 0 then s.updNet nid (fun n => { n with zombie := true })
    else { s with nets := s.nets.filter (fun m => m.id ≠ nid) }

/-- `vbi_cache_purge` -/
def State.purge (s : State) : State :=
  (s.nets.map (·.id)).foldl (fun s nid => s.deleteNetwork nid) s

def State.deleteSurplusNets (s : State) : State :=
  (s.nets.map (·.id)).reverse.foldl (fun s nid =>
    match s.findNet nid with
    | none => s
    | some n =>
      if n.ref > 0 ∨ n.nRef > 0 then s
      else if n.zombie ∨ s.nCachedNets > s.nNetsLimit then s.deleteNetwork nid
      else s) s

/-- `recycle_network`: the struct keeps its identity and (in 0.2) its page statistics -/
def State.recycleNetwork (s : State) : Option (State × Net) :=
  match s.nets.reverse.find? (fun n => n.ref = 0 ∧ n.nRef = 0) with
  | none => none
  | some n0 =>
    let s := if n0.nCached > 0 then s.deleteAllPages n0.id else s
    match s.findNet n0.id with
    | none => none
    | some n =>
      let s := { s with nets := s.nets.filter (fun m => m.id ≠ n.id) }
      some (s, { n with ref := 0, zombie := false, nCached := 0, maxCached := 0, nRef := 0 })

/-- `_vbi_cache_add_network (ca, NULL, ...)`; returns the id of the network, reference taken -/
def State.addNetwork (s : State) : State × Nat :=
  let fresh (s : State) : State × Net :=
    ({ s with nextNid := s.nextNid + 1, nCachedNets := s.nCachedNets + 1 }, { id := s.nextNid })
  let (s, n) :=
    if s.nCachedNets < s.nNetsLimit then fresh s
    else match s.recycleNetwork with
      | none => fresh s
      | some r => r
  ({ s with nets := { n with ref := n.ref + 1 } :: s.nets }, n.id)

/-- `cache_network_unref` -/
def State.netUnref (s : State) (nid : Nat) : State :=
  match s.findNet nid with
  | none => s
  | some n =>
    if n.ref = 0 then s
    else if n.ref = 1 then (s.updNet nid (fun n => { n with ref := 0 })).deleteSurplusNets
    else s.updNet nid (fun n => { n with ref := n.ref - 1 })

/-- `cache_network_ref` -/
def State.netRef (s : State) (nid : Nat) : State := s.updNet nid (fun n => { n with ref := n.ref + 1 })

/-- `ttx_page_stat_init` over all of `cn->_pages` (vbi_teletext_channel_switched) -/
def State.statReset (s : State) (nid : Nat) : State :=
  s.updNet nid (fun n => { n with stat := [], defType := unknownPageType })

/-! ## cache_page_ref / cache_page_unref -/

/-- `cache_page_ref`, the statements under `if (0 == cp->ref_count)` after the zombie-network check -/
def State.refFirst (s : State) (p : Page) : State :=
  let s := s.updNet p.net (fun n => { n with nRef := n.nRef + 1 })
  let s := { s with memUsed := s.memUsed - p.size }
  let s := s.unlinkPri p.id
  { s with referenced := s.referenced ++ [p.id] }

def State.pageRef (s : State) (id : Nat) : State :=
  match s.findPage id with
  | none => s
  | some p =>
    let s := if p.ref = 0 then (s.unzombieNet p.net).refFirst p else s
    s.updPage p.id (fun p => { p with ref := p.ref + 1 })

/-- `cache_page_unref`, last reference to a page that is still cached -/
def State.unrefLast (s : State) (p : Page) : State :=
  let s := s.updPage p.id (fun p => { p with ref := 0 })
  let s := s.unlinkPri p.id
  let s := { s with priority := s.priority ++ [p.id], memUsed := s.memUsed + p.size }
  s.updNet p.net (fun n => { n with nRef := n.nRef - 1 })

/-- `cache_page_unref`, last reference to a zombie page -/
def State.unrefZombie (s : State) (p : Page) : State :=
  let s := s.updPage p.id (fun p => { p with ref := 0 })
  let s := s.deletePage p.id
  s.updNet p.net (fun n => { n with nRef := n.nRef - 1 })

/-- `if (cn->zombie && 0 == cn->n_referenced_pages && 0 == cn->ref_count) delete_network (ca, cn);` -/
def State.unrefNetCheck (s : State) (nid : Nat) : State :=
  match s.findNet nid with
  | some n => if n.zombie ∧ n.nRef = 0 ∧ n.ref = 0 then s.deleteNetwork n.id else s
  | none => s

/-- `if (ca->memory_used > ca->memory_limit) delete_surplus_pages (ca);` -/
def State.memCheck (s : State) : State :=
  if s.memUsed > s.memLimit then s.deleteSurplusPages else s

/-- `cache_page_unref`: the zombie-network check and the memory check after the last unref -/
def State.unrefTail (s : State) (nid : Nat) : State := (s.unrefNetCheck nid).memCheck

def State.pageUnref (s : State) (id : Nat) : State :=
  match s.findPage id with
  | none => s
  | some p =>
    if p.ref = 0 then s
    else if p.ref = 1 then
      (if p.pri = .zombie then s.unrefZombie p else s.unrefLast p).unrefTail p.net
    else s.updPage p.id (fun p => { p with ref := p.ref - 1 })

/-! ## page_by_pgno, _vbi_cache_get_page -/

def pageMatch (nid pgno subno mask : Nat) (p : Page) : Bool :=
  p.pri ≠ .zombie ∧ p.pgno = pgno ∧ (p.subno &&& mask) = (subno &&& mask) ∧ p.net = nid

/-- first match on the hash chain, moved to the head of the chain -/
def State.pageByPgno (s : State) (nid pgno subno mask : Nat) : State × Option Page :=
  match s.pages.find? (pageMatch nid pgno subno mask) with
  | none => (s, none)
  | some p => ({ s with pages := p :: s.pages.filter (fun q => q.id ≠ p.id) }, some p)

def validPgno (pgno : Nat) : Bool := 0x100 ≤ pgno ∧ pgno ≤ 0x8FF ∧ pgno &&& 0xFF ≠ 0xFF

/-- `_vbi_cache_get_page`; `subno` is an `int` in C (the page walk passes -1) -/
def State.getPage (s : State) (nid pgno : Nat) (subno : Int) (mask : Nat) : State × Option Page :=
  if !validPgno pgno then (s, none)
  else if subno < 0 then (s, none)   -- `(cp->subno & mask) == subno` never holds for a negative subno
  else
    let sub := subno.toNat
    let mask := if sub = anySubno then 0 else mask
    match s.pageByPgno nid pgno sub mask with
    | (s, none) => (s, none)
    | (s, some p) =>
      let s := s.pageRef p.id
      (s, s.findPage p.id)

/-! ## _vbi_cache_put_page -/

/-- subpage number stored and mask used to find the version to replace -/
def putKey (ptype pgno subno : Nat) : Nat × Nat :=
  if isBcd pgno then
    if subno = 0 then (0, 0)
    else if ptype = clockPageType ∨ subno ≥ 0x100 then
      (if bcdDigitsGreater subno 0x2959 ∨ subno > 0x2300 then 0 else subno, 0)
    else if bcdDigitsGreater subno 0x79 then (0, 0)
    else (subno, 0xFF)
  else (subno, 0xF)

def putPri (pgno subno : Nat) (func : Int) : Pri :=
  if pgno &&& 0xFF = 0 then .special
  else if pgno >>> 4 = pgno &&& 0xFF then .special
  else if func = fnUnknown then .normal
  else if func ≠ fnLop then .special
  else if isBcd pgno ∧ subno > 0 ∧ subno ≤ 0x79 then .special
  else .normal

inductive Err where
  | assertFail (site : String)
  | oob (site : String)
  deriving DecidableEq, Repr

/-- one "find more pages to replace" pass; result: `(done, avail, row)` or the failed assertion -/
def collectPass (s : State) (pri : Pri) (chkNet : Bool) (oldId : Option Nat) (needed : Int) :
    List Nat → Int → List Nat → Except Err (Bool × Int × List Nat)
  | [], avail, row => .ok (false, avail, row)
  | id :: rest, avail, row =>
    if avail ≥ needed then .ok (true, avail, row)
    else match s.findPage id with
      | none => collectPass s pri chkNet oldId needed rest avail row
      | some p =>
        if p.pri ≠ pri ∨ (chkNet ∧ s.netRefCount p.net > 0) ∨ oldId = some id then
          collectPass s pri chkNet oldId needed rest avail row
        else if row.length ≥ deathRowSize then .error (.assertFail "death_row")
        else collectPass s pri chkNet oldId needed rest (avail + p.size) (row ++ [id])

/-- the four passes; `none` = goto failure -/
def collectAll (s : State) (oldId : Option Nat) (needed avail : Int) (row : List Nat) :
    Except Err (Option (Int × List Nat)) := do
  if avail ≥ needed then return some (avail, row)
  let (d, avail, row) ← collectPass s .normal true oldId needed s.priority avail row
  if d then return some (avail, row)
  let (d, avail, row) ← collectPass s .special true oldId needed s.priority avail row
  if d then return some (avail, row)
  let (d, avail, row) ← collectPass s .normal false oldId needed s.priority avail row
  if d then return some (avail, row)
  let (d, avail, row) ← collectPass s .special false oldId needed s.priority avail row
  if d then return some (avail, row)
  -- the C code tests `memory_available >= memory_needed` only at the top of the loop body
  return none

/-- argument of `_vbi_cache_put_page`: the fields of `*cp` that matter -/
structure PutArg where
  pgno : Nat
  subno : Nat
  func : Int
  x26 : Nat
  x28 : Nat
  tag : Nat
  deriving DecidableEq, Repr

/-- everything after the label `replace:` once the victims are out of the way -/
def State.insertNew (s : State) (nid : Nat) (a : PutArg) (subno : Nat) : State × Page :=
  let p : Page := { id := s.nextPid, net := nid, pgno := a.pgno, subno := subno, func := a.func,
                    x26 := a.x26, x28 := a.x28, ref := 1, pri := putPri a.pgno subno a.func, tag := a.tag }
  let s := { s with pages := p :: s.pages, nextPid := s.nextPid + 1 }
  let s := s.updNet nid (fun n => { n with nRef := n.nRef + 1 })
  let s := { s with referenced := s.referenced ++ [p.id] }
  let s := s.netAddPage nid a.pgno subno
  (s, p)

/-- `_vbi_cache_put_page` from the label `replace:` on: the victims on the death row go, the new page comes -/
def State.putReplace (s : State) (nid : Nat) (a : PutArg) (subno : Nat) (avail : Int) (row : List Nat) :
    Except Err (State × Option Page) :=
  let needed : Int := pageSize a.func a.x26 a.x28
  if avail = needed ∧ row.length = 1 then
    -- reuse the struct of the single victim
    match row.head? >>= s.findPage with
    | none => .error (.oob "death_row[0]")
    | some v =>
      if v.size ≠ pageSize a.func a.x26 a.x28 then
        -- memcpy of memory_needed bytes into an allocation of cache_page_size(victim) bytes
        .error (.oob "put_reuse_memcpy")
      else
        let s := s.unlinkPri v.id
        let s := s.dropPage v.id
        let s := s.netRemovePage v.net v.pgno
        let s := { s with memUsed := s.memUsed - needed.toNat }
        let (s, p) := s.insertNew nid a subno
        .ok (s, some p)
  else if ¬ row.Nodup then
    -- the second pair of passes does not skip pages the first pair already put on the
    -- death row: delete_page () would be called twice on the same struct
    .error (.oob "death_row_dup")
  else
    let s := row.foldl (fun s id => s.deletePage id) s
    let s := { s with nCachedPages := s.nCachedPages + 1 }
    let (s, p) := s.insertNew nid a subno
    .ok (s, some p)

/-- the version found under the key: still in use -> zombie; else first replacement candidate.
    Result: state, `old_cp`, memory_available, death row -/
def State.putVictim (s : State) (old : Option Page) (avail : Int) : State × Option Nat × Int × List Nat :=
  match old with
  | none => (s, none, avail, [])
  | some o =>
    if o.ref > 0 then (s.updPage o.id (fun p => { p with pri := .zombie }), none, avail, [])
    else (s, some o.id, avail + o.size, [o.id])

/-- `_vbi_cache_put_page` after the key was chosen: look-up of the version to replace, death row, replacement -/
def State.putTail (s : State) (nid : Nat) (a : PutArg) (k1 k2 : Nat) (avail0 : Int) : Except Err (State × Option Page) :=
  let r := s.pageByPgno nid a.pgno (k1 &&& k2) k2
  let v := r.1.putVictim r.2 avail0
  match collectAll v.1 v.2.1 (pageSize a.func a.x26 a.x28 : Int) v.2.2.1 v.2.2.2 with
  | .error e => .error e
  | .ok none => .ok (v.1, none)
  | .ok (some (avail, row)) => v.1.putReplace nid a k1 avail row

/-- `_vbi_cache_put_page`.  Precondition of the C function (asserted in `cache_network_page_stat`):
    0x100 <= pgno <= 0x8FF; callers guarantee it, the model reports a violation as `assertFail`. -/
def State.putPage (s : State) (nid : Nat) (a : PutArg) : Except Err (State × Option Page) :=
  match s.findNet nid with
  | none => .error (.assertFail "cn")
  | some cn =>
    if a.pgno &&& 0xFF = 0xFF then .ok (s, none)
    else if a.pgno < 0x100 ∨ a.pgno > 0x8FF then .error (.assertFail "page_stat")
    else
      let key := putKey (cn.getStat a.pgno).ptype a.pgno a.subno
      s.putTail nid a key.1 key.2 ((s.memLimit : Int) - s.memUsed)

/-! ## _vbi_cache_foreach_page -/

/-- result of the inner `while` of the walk -/
inductive Seek where
  | at (pgno : Nat) (subno : Int) (wrapped : Bool)   -- next page number with cached subpages in range
  | done                                             -- second wrap-around: `return -1`
  | fuel                                             -- not reached, see `walkSeek_terminates`
  deriving DecidableEq, Repr

/-- the inner `while` of the walk -/
def walkSeek (n : Net) (dir : Int) : Nat → Nat → Int → Bool → Seek
  | 0, _, _, _ => .fuel
  | fuel + 1, pgno, subno, wrapped =>
    let ps := n.getStat pgno
    if ps.nSub = 0 ∨ subno < ps.subMin ∨ subno > ps.subMax then
      -- still on a page number with cached subpages but before their range in walking direction
      if ps.nSub ≠ 0 ∧ dir > 0 ∧ subno < ps.subMin then .at pgno ps.subMin wrapped
      else if ps.nSub ≠ 0 ∧ dir < 0 ∧ subno > ps.subMax then .at pgno ps.subMax wrapped
      else if dir < 0 then
        if pgno - 1 < 0x100 then
          if wrapped then .done else walkSeek n dir fuel 0x8FF (n.getStat 0x8FF).subMax true
        else walkSeek n dir fuel (pgno - 1) (n.getStat (pgno - 1)).subMax wrapped
      else
        if pgno + 1 > 0x8FF then
          if wrapped then .done else walkSeek n dir fuel 0x100 (n.getStat 0x100).subMin true
        else walkSeek n dir fuel (pgno + 1) (n.getStat (pgno + 1)).subMin wrapped
    else .at pgno subno wrapped

structure Visit where
  pgno : Nat
  subno : Nat
  tag : Nat
  wrapped : Bool
  deriving DecidableEq, Repr

/-- `cp = page_by_pgno (ca, cn, pgno, subno, -1); if (NULL != cp) cp = cache_page_ref (cp);` -/
def State.lookupExact (s : State) (nid pgno : Nat) (subno : Int) : State × Option Page :=
  if subno < 0 then (s, none)   -- `(cp->subno & -1) == subno` never holds for a negative subno
  else
    match s.pageByPgno nid pgno subno.toNat 0xFFFFFFFF with
    | (s, none) => (s, none)
    | (s, some p) =>
      let s := s.pageRef p.id
      (s, s.findPage p.id)

/-- `if (cp) { r = callback (cp, wrapped, user_data); cache_page_unref (cp); }` -/
def walkVisit (s : State) (cp : Option Page) (wrapped : Bool) (vs : List Visit) : State × List Visit :=
  match cp with
  | some p => (s.pageUnref p.id, vs ++ [({ pgno := p.pgno, subno := p.subno, tag := p.tag, wrapped := wrapped } : Visit)])
  | none => (s, vs)

/-- the `for (;;)` of the walk.  The callback returns non-zero on its `stop`-th call.
    Result `none` = fuel exhausted (would mean: the C loop does not end). -/
def walkLoop (nid : Nat) (dir : Int) (stop : Nat) :
    Nat → State → Option Page → Nat → Int → Bool → List Visit → State × List Visit × Option Int
  | 0, s, _, _, _, _, vs => (s, vs, none)
  | fuel + 1, s, cp, pgno, subno, wrapped, vs =>
    let r := walkVisit s cp wrapped vs
    if cp.isSome ∧ r.2.length ≥ stop then (r.1, r.2, some 1)
    else
      match r.1.findNet nid with
      | none => (r.1, r.2, none)
      | some n =>
        match walkSeek n dir (2 * nPageStats + 4) pgno (subno + dir) wrapped with
        | .fuel => (r.1, r.2, none)
        | .done => (r.1, r.2, some (-1))
        | .at pgno subno wrapped =>
          let g := r.1.lookupExact nid pgno subno
          walkLoop nid dir stop fuel g.1 g.2 pgno subno wrapped r.2

/-- `_vbi_cache_foreach_page`, start look-up of source shape `exact`:
    `false`: `if ((cp = _vbi_cache_get_page (ca, cn, pgno, subno, -1))) subno = cp->subno; else if (VBI_ANY_SUBNO == subno)
    subno = 0;` (0x3F7F read as the wildcard, finding C17-D7);
    `true` (fixes/C17-turn-3f7f.diff): `cp = NULL; if (pgno >= 0x100 && pgno <= 0x8FF) { cp = page_by_pgno (ca, cn, pgno,
    subno, -1); if (NULL != cp) cp = cache_page_ref (cp); }`, `subno` untouched. -/
def State.foreachPageS (exact : Bool) (s : State) (nid pgno subno : Nat) (dir : Int) (stop fuel : Nat) :
    State × List Visit × Option Int :=
  match s.findNet nid with
  | none => (s, [], none)
  | some n =>
    if n.nCached = 0 then (s, [], some 0)
    else if exact then
      let r := if 0x100 ≤ pgno ∧ pgno ≤ 0x8FF then s.lookupExact nid pgno subno else (s, none)
      walkLoop nid dir stop fuel r.1 r.2 pgno subno false []
    else
      let (s, cp) := s.getPage nid pgno subno 0xFFFFFFFF
      let sub : Int := match cp with
        | some p => p.subno
        | none => if subno = anySubno then 0 else subno
      walkLoop nid dir stop fuel s cp pgno sub false []

/-- `_vbi_cache_foreach_page` of the current source (translate/gen_cache.py reads the shape of the start look-up) -/
def State.foreachPage (s : State) (nid pgno subno : Nat) (dir : Int) (stop fuel : Nat) :
    State × List Visit × Option Int :=
  s.foreachPageS walkStartExact nid pgno subno dir stop fuel

/-! ## the operations of the line protocol -/

inductive Op where
  | put (nid : Nat) (a : PutArg)
  | get (nid pgno subno mask : Nat)
  | ref (pid : Nat)
  | unref (pid : Nat)
  | isCached (nid pgno subno : Nat)
  | hiSubno (nid pgno : Nat)
  | foreach (nid pgno subno : Nat) (back : Bool) (stop : Nat)
  | addNet
  | netRef (nid : Nat)
  | netUnref (nid : Nat)
  | chsw (nid : Nat)
  | statReset (nid : Nat)
  | ptype (nid pgno t : Nat)
  | purge
  | setLimit (n : Nat)
  deriving DecidableEq, Repr

inductive Out where
  | ok
  | page (p : Option Page)
  | net (nid : Nat)
  | num (n : Nat)
  | walk (vs : List Visit) (r : Option Int)
  | rej (why : String)
  | err (e : Err)
  deriving DecidableEq, Repr

/-- at most two passes over the page numbers, each at most `subno_max - subno_min + 1 <= 2^16` look-ups -/
def walkFuel : Nat := 2 * (nPageStats + 1) * 65537 + 8

/-- One API call.  `rej` = the call is outside the contract the harness enforces on the client
    (unknown pointer, page number outside 0x100..0x8FF); the state is unchanged then. -/
def step (s : State) : Op → State × Out
  | .put nid a =>
    match s.putPage nid a with
    | .ok (s', p) => (s', .page p)
    | .error e => (s, .err e)
  | .get nid pgno subno mask =>
    match s.findNet nid with
    | none => (s, .rej "net")
    | some _ => let (s', p) := s.getPage nid pgno subno mask; (s', .page p)
  | .ref pid =>
    match s.findPage pid with
    | none => (s, .rej "page")
    | some p => if p.ref = 0 then (s, .rej "page") else (s.pageRef pid, .ok)
  | .unref pid =>
    match s.findPage pid with
    | none => (s, .rej "page")
    | some p => if p.ref = 0 then (s, .rej "page") else (s.pageUnref pid, .ok)
  | .isCached nid pgno subno =>
    -- vbi_is_cached: get with mask -1, then unref
    match s.findNet nid with
    | none => (s, .rej "net")
    | some _ =>
      match s.getPage nid pgno subno 0xFFFFFFFF with
      | (s', some p) => (s'.pageUnref p.id, .num 1)
      | (s', none) => (s', .num 0)
  | .hiSubno nid pgno =>
    match s.findNet nid with
    | none => (s, .rej "net")
    | some n => if pgno < 0x100 ∨ pgno > 0x8FF then (s, .rej "pgno") else (s, .num (n.getStat pgno).subMax)
  | .foreach nid pgno subno back stop =>
    match s.findNet nid with
    | none => (s, .rej "net")
    | some _ =>
      if pgno < 0x100 ∨ pgno > 0x8FF ∨ stop = 0 then (s, .rej "pgno")
      else
        let (s', vs, r) := s.foreachPage nid pgno subno (if back then -1 else 1) stop walkFuel
        (s', .walk vs r)
  | .addNet => let (s', nid) := s.addNetwork; (s', .net nid)
  | .netRef nid =>
    match s.findNet nid with
    | none => (s, .rej "net")
    | some _ => (s.netRef nid, .ok)
  | .netUnref nid =>
    match s.findNet nid with
    | none => (s, .rej "net")
    | some _ => (s.netUnref nid, .ok)
  | .chsw nid =>
    -- vbi_chsw_reset: cache_network_unref (vbi->cn); vbi->cn = _vbi_cache_add_network (ca, NULL);
    -- vbi_teletext_channel_switched () re-initialises cn->_pages
    match s.findNet nid with
    | none => (s, .rej "net")
    | some _ =>
      let s := s.netUnref nid
      let (s, nid') := s.addNetwork
      (s.statReset nid', .net nid')
  | .statReset nid =>
    -- vbi_teletext_channel_switched runs on a network that was just added (no pages yet)
    match s.findNet nid with
    | none => (s, .rej "net")
    | some n => if n.nCached ≠ 0 then (s, .rej "busy") else (s.statReset nid, .ok)
  | .ptype nid pgno t =>
    match s.findNet nid with
    | none => (s, .rej "net")
    | some _ =>
      if pgno < 0x100 ∨ pgno > 0x8FF then (s, .rej "pgno")
      else (s.updNet nid (fun n => n.setStat pgno { n.getStat pgno with ptype := t % 256 }), .ok)
  | .purge => (s.purge, .ok)
  | .setLimit n =>
    -- vbi_cache_set_memory_limit as compiled for 0.3 (test-only in 0.2: the harness pokes the field)
    (({ s with memLimit := n } : State).deleteSurplusPages, .ok)

def run (s : State) (ops : List Op) : State := ops.foldl (fun s op => (step s op).1) s

/-! ## the two source shapes of `_vbi_cache_put_page` (finding F17 and its repair)

`putTail` / `putPage` / `step` above follow the shape of the source as it was when F17 was found: the look-up
under the key of `putKey` finds ONE version (the most recently used one that matches) and only that one is
replaced.  The repair `fixes/C10-put-replaces-all-versions.diff` adds, for the single-version key classes
(`subno_mask == 0`), a walk over the hash chain that deletes every other cached version of the page number
and recomputes `memory_available`.  translate/gen_cache.py reads which shape the current source has
(`Gen.Cache.putReplacesAllVersions`); `stepF fix` is the model of shape `fix`, `stepCur` the one of the current
source (what the driver runs).  Every theorem of Props/C10*.lean that is not a witness of F17 is stated for
both shapes. -/

/-- `_vbi_cache_put_page` after the look-up of the version to replace: death row, replacement
    (`putTail` is `pageByPgno` followed by this, by `rfl`) -/
def State.putRest (s : State) (nid : Nat) (a : PutArg) (k1 : Nat) (old : Option Page) (avail0 : Int) :
    Except Err (State × Option Page) :=
  let v := s.putVictim old avail0
  match collectAll v.1 v.2.1 (pageSize a.func a.x26 a.x28 : Int) v.2.2.1 v.2.2.2 with
  | .error e => .error e
  | .ok none => .ok (v.1, none)
  | .ok (some (avail, row)) => v.1.putReplace nid a k1 avail row

/-- repaired shape: `FOR_ALL_NODES (cp2, cp3, ca->hash + hash (cp->pgno), hash_node) if (cp2 != old_cp
    && cp2->pgno == cp->pgno && cp2->network == cn) delete_page (ca, cp2);` - the body unlinks only the
    current node, hence a walk over the chain as it was at loop entry -/
def State.dropOthers (s : State) (nid pgno keep : Nat) : State :=
  ((s.pages.filter (fun q => q.pri ≠ .zombie ∧ q.pgno = pgno ∧ q.net = nid ∧ q.id ≠ keep)).map (·.id)).foldl
    (fun s id => s.deletePage id) s

/-- repaired shape of the part of `_vbi_cache_put_page` after the key was chosen -/
def State.putTailR (s : State) (nid : Nat) (a : PutArg) (k1 k2 : Nat) (avail0 : Int) : Except Err (State × Option Page) :=
  let r := s.pageByPgno nid a.pgno (k1 &&& k2) k2
  match r.2 with
  | some o =>
    if k2 = 0 then
      let s1 := r.1.dropOthers nid a.pgno o.id
      s1.putRest nid a k1 (some o) ((s1.memLimit : Int) - s1.memUsed)
    else r.1.putRest nid a k1 (some o) avail0
  | none => r.1.putRest nid a k1 none avail0

def State.putTailF (fix : Bool) (s : State) (nid : Nat) (a : PutArg) (k1 k2 : Nat) (avail0 : Int) :
    Except Err (State × Option Page) :=
  if fix then s.putTailR nid a k1 k2 avail0 else s.putTail nid a k1 k2 avail0

/-- `_vbi_cache_put_page` of source shape `fix` (`false`: as found, `true`: repaired) -/
def State.putPageF (fix : Bool) (s : State) (nid : Nat) (a : PutArg) : Except Err (State × Option Page) :=
  match s.findNet nid with
  | none => .error (.assertFail "cn")
  | some cn =>
    if a.pgno &&& 0xFF = 0xFF then .ok (s, none)
    else if a.pgno < 0x100 ∨ a.pgno > 0x8FF then .error (.assertFail "page_stat")
    else
      let key := putKey (cn.getStat a.pgno).ptype a.pgno a.subno
      s.putTailF fix nid a key.1 key.2 ((s.memLimit : Int) - s.memUsed)

/-- one API call on source shape `fix`; only `put` differs between the shapes -/
def stepF (fix : Bool) (s : State) : Op → State × Out
  | .put nid a =>
    match s.putPageF fix nid a with
    | .ok (s', p) => (s', .page p)
    | .error e => (s, .err e)
  | op => step s op

def runF (fix : Bool) (s : State) (ops : List Op) : State := ops.foldl (fun s op => (stepF fix s op).1) s

/-- the model of the current source -/
def stepCur (s : State) (op : Op) : State × Out := stepF putReplacesAllVersions s op

end Zvbi.Cache
