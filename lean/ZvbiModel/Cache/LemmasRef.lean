import ZvbiModel.Cache.LemmasNets5
/-!
# cache_page_ref / cache_page_unref: the reference status of one page flips
-/
namespace Zvbi.Cache

/-- the counter clauses after page `p` was changed by `f` and its network record by `g` -/
theorem flip_counts {s : State} (h : InvW s) {p : Page} (hp : p ∈ s.pages) (f : Page → Page) (g : Net → Net)
    (hfid : ∀ q, (f q).id = q.id) (hfnet : (f p).net = p.net) (hfpg : (f p).pgno = p.pgno)
    (hgid : ∀ n, (g n).id = n.id) (hgc : ∀ n, (g n).nCached = n.nCached)
    (hgs : ∀ n pg, (g n).getStat pg = n.getStat pg)
    (hgr : ∀ n, n.nRef = s.pages.countP (fun q => q.net = n.id ∧ 0 < q.ref) → n.id = p.net →
      (g n).nRef + (if 0 < p.ref then 1 else 0) = n.nRef + (if 0 < (f p).ref then 1 else 0)) :
    ((updNid s.nets p.net g).map (·.id)).Nodup
    ∧ (∀ n ∈ updNid s.nets p.net g, n.id < s.nextNid)
    ∧ (∀ q ∈ updId s.pages p.id f, ∃ n ∈ updNid s.nets p.net g, n.id = q.net)
    ∧ (∀ n ∈ updNid s.nets p.net g, n.nCached = (updId s.pages p.id f).countP (fun q => q.net = n.id))
    ∧ (∀ n ∈ updNid s.nets p.net g, n.nRef = (updId s.pages p.id f).countP (fun q => q.net = n.id ∧ 0 < q.ref))
    ∧ (∀ n ∈ updNid s.nets p.net g, ∀ pg, (n.getStat pg).nSub
        = (updId s.pages p.id f).countP (fun q => q.net = n.id ∧ q.pgno = pg) % 65536) := by
  have aux2 : ∀ p' ∈ s.pages, p'.id = p.id → p' = p := fun p' hp' e => mem_unique h.pidNodup hp' hp e
  refine ⟨?_, ?_, ?_, ?_, ?_, ?_⟩
  · rw [map_id_updNid hgid]; exact h.nidNodup
  · intro n' hn'; obtain ⟨n, hn, rfl⟩ := mem_updNid.1 hn'
    have := h.nidLt n hn; split <;> simpa [hgid] using this
  · intro q hq; obtain ⟨p', hp', rfl⟩ := mem_updId.1 hq
    obtain ⟨n, hn, e⟩ := h.netOf p' hp'
    refine ⟨_, mem_updNid.2 ⟨n, hn, rfl⟩, ?_⟩
    have e1 : (if n.id = p.net then g n else n).id = n.id := by split <;> simp [hgid]
    rw [e1]
    split
    · rename_i e2; rw [aux2 p' hp' e2] at e ⊢; rw [hfnet]; exact e
    · exact e
  · intro n' hn'; obtain ⟨n, hn, rfl⟩ := mem_updNid.1 hn'
    have e1 : (if n.id = p.net then g n else n).id = n.id := by split <;> simp [hgid]
    have e2 : (if n.id = p.net then g n else n).nCached = n.nCached := by split <;> simp [hgc]
    rw [e1, e2, countP_updId_same h.pidNodup hp (by simp [hfnet])]; exact h.nCached n hn
  · intro n' hn'; obtain ⟨n, hn, rfl⟩ := mem_updNid.1 hn'
    have e1 : (if n.id = p.net then g n else n).id = n.id := by split <;> simp [hgid]
    rw [e1]
    have h1 := h.nRef n hn
    split
    · rename_i e
      have h3 := hgr n h1 e
      have en : p.net = n.id := e.symm
      by_cases c1 : 0 < p.ref <;> by_cases c2 : 0 < (f p).ref
      · have h2 := countP_updId_same h.pidNodup hp (P := fun q => decide (q.net = n.id ∧ 0 < q.ref)) (f := f)
          (by simp [hfnet, en, c1, c2])
        simp only [c1, c2, if_true] at h3; omega
      · have h2 := countP_updId_dec h.pidNodup hp (P := fun q => decide (q.net = n.id ∧ 0 < q.ref)) (f := f)
          (by simp [en, c1]) (by simp [c2])
        simp only [c1, c2, if_true, if_false] at h3; omega
      · have h2 := countP_updId_inc h.pidNodup hp (P := fun q => decide (q.net = n.id ∧ 0 < q.ref)) (f := f)
          (by simp [c1]) (by simp [hfnet, en, c2])
        simp only [c1, c2, if_true, if_false] at h3; omega
      · have h2 := countP_updId_same h.pidNodup hp (P := fun q => decide (q.net = n.id ∧ 0 < q.ref)) (f := f)
          (by simp [hfnet, en, c1, c2])
        simp only [c1, c2, if_false] at h3; omega
    · rename_i e
      have e' : ¬ p.net = n.id := fun x => e x.symm
      have h2 := countP_updId_same h.pidNodup hp (P := fun q => decide (q.net = n.id ∧ 0 < q.ref)) (f := f)
          (by simp [hfnet, e'])
      omega
  · intro n' hn' pg; obtain ⟨n, hn, rfl⟩ := mem_updNid.1 hn'
    have e1 : (if n.id = p.net then g n else n).id = n.id := by split <;> simp [hgid]
    have e2 : ((if n.id = p.net then g n else n).getStat pg) = n.getStat pg := by split <;> simp [hgs]
    rw [e1, e2, countP_updId_same h.pidNodup hp (by simp [hfnet, hfpg])]; exact h.nSub n hn pg

theorem refFirst_fields (s : State) (p : Page) (f : Page → Page) :
    ((s.refFirst p).updPage p.id f).pages = updId s.pages p.id f
    ∧ ((s.refFirst p).updPage p.id f).priority = s.priority.filter (· ≠ p.id)
    ∧ ((s.refFirst p).updPage p.id f).referenced = s.referenced.filter (· ≠ p.id) ++ [p.id]
    ∧ ((s.refFirst p).updPage p.id f).nets = updNid s.nets p.net (fun n => { n with nRef := n.nRef + 1 })
    ∧ ((s.refFirst p).updPage p.id f).memUsed = s.memUsed - p.size
    ∧ ((s.refFirst p).updPage p.id f).nCachedPages = s.nCachedPages
    ∧ ((s.refFirst p).updPage p.id f).nCachedNets = s.nCachedNets
    ∧ ((s.refFirst p).updPage p.id f).nextPid = s.nextPid
    ∧ ((s.refFirst p).updPage p.id f).nextNid = s.nextNid :=
  ⟨rfl, rfl, rfl, rfl, rfl, rfl, rfl, rfl, rfl⟩

/-- first reference to an unreferenced page -/
theorem refFirst_invW {s : State} (h : InvW s) {p : Page} (hp : p ∈ s.pages) (hr : p.ref = 0) :
    InvW ((s.refFirst p).updPage p.id (fun p => { p with ref := p.ref + 1 })) := by
  have hmid := map_id_updId (l := s.pages) (x := p.id) (f := fun p => { p with ref := p.ref + 1 }) (fun _ => rfl)
  obtain ⟨e1, e2, e3, e4, e5, e6, e7, e8, e9⟩ := refFirst_fields s p (fun p => { p with ref := p.ref + 1 })
  have aux2 : ∀ p' ∈ s.pages, p'.id = p.id → p' = p := fun p' hp' e => mem_unique h.pidNodup hp' hp e
  obtain ⟨c1, c2, c3, c4, c5, c6⟩ := flip_counts h hp (fun p => { p with ref := p.ref + 1 })
    (fun n => { n with nRef := n.nRef + 1 }) (fun _ => rfl) rfl rfl (fun _ => rfl) (fun _ => rfl) (fun _ _ => rfl)
    (fun n _ _ => by simp [hr])
  constructor
  · rw [e1, hmid]; exact h.pidNodup
  · intro q hq; rw [e1] at hq; obtain ⟨p', hp', rfl⟩ := mem_updId.1 hq
    rw [e8]; have := h.pidLt p' hp'; split <;> exact this
  · rw [e2]; exact h.priNodup.filter _
  · rw [e3]; exact nodup_append_singleton (h.refNodup.filter _) (by simp)
  · intro id; rw [e2, e1, mem_filter_ne, h.priMem]
    constructor
    · rintro ⟨⟨q, hq, rfl, hq0⟩, hne⟩
      exact ⟨q, mem_updId.2 ⟨q, hq, by rw [if_neg hne]⟩, rfl, hq0⟩
    · rintro ⟨q, hq, rfl, hq0⟩; obtain ⟨p', hp', rfl⟩ := mem_updId.1 hq
      split at hq0
      · simp at hq0
      · rename_i e; rw [if_neg e]; exact ⟨⟨p', hp', rfl, hq0⟩, e⟩
  · intro id; rw [e3, e1, List.mem_append, mem_filter_ne, h.refMem, List.mem_singleton]
    constructor
    · rintro (⟨⟨q, hq, rfl, hq0⟩, hne⟩ | rfl)
      · exact ⟨q, mem_updId.2 ⟨q, hq, by rw [if_neg hne]⟩, rfl, hq0⟩
      · exact ⟨{ p with ref := p.ref + 1 }, mem_updId.2 ⟨p, hp, by rw [if_pos rfl]⟩, rfl, Nat.succ_pos _⟩
    · rintro ⟨q, hq, rfl, hq0⟩; obtain ⟨p', hp', rfl⟩ := mem_updId.1 hq
      split
      · rename_i e; right; exact e
      · rename_i e; rw [if_neg e] at hq0; left; exact ⟨⟨p', hp', rfl, hq0⟩, e⟩
  · intro q hq hz; rw [e1] at hq; obtain ⟨p', hp', rfl⟩ := mem_updId.1 hq
    split at hz
    · rename_i e; rw [if_pos e]; exact Nat.succ_pos _
    · rename_i e; rw [if_neg e]; exact h.zombieRef p' hp' hz
  · rw [e4]; exact c1
  · rw [e4, e9]; exact c2
  · rw [e4, e1]; exact c3
  · rw [e4, e1]; exact c4
  · rw [e4, e1]; exact c5
  · rw [e4, e1]; exact c6
  · rw [e6, e1, length_updId]; exact h.nPages
  · rw [e5, e1]
    have h1 := h.mem
    have h2 := fsum_updId h.pidNodup hp (fun q => decide (q.ref = 0)) Page.size (fun p => { p with ref := p.ref + 1 })
    unfold fsum at h2
    simp only [hr, decide_true, if_true] at h2
    simp at h2; omega
  · rw [e7, e4, countP_updNid (f := fun n => { n with nRef := n.nRef + 1 }) (fun n => !n.zombie) (fun _ => rfl)]; exact h.nNets

theorem refFirst_znet {s : State} {P : Nat → Prop} (hz : ZNetOn s P) (p : Page) (f : Page → Page) :
    ZNetOn ((s.refFirst p).updPage p.id f) P := by
  intro n' hn' hp
  rw [(refFirst_fields s p f).2.2.2.1] at hn'
  obtain ⟨n, hn, rfl⟩ := mem_updNid.1 hn'
  split
  · intro _; right; exact Nat.succ_pos _
  · rename_i e; rw [if_neg e] at hp; exact hz n hn hp

theorem unrefLast_fields (s : State) (p : Page) :
    (s.unrefLast p).pages = updId s.pages p.id (fun p => { p with ref := 0 })
    ∧ (s.unrefLast p).priority = s.priority.filter (· ≠ p.id) ++ [p.id]
    ∧ (s.unrefLast p).referenced = s.referenced.filter (· ≠ p.id)
    ∧ (s.unrefLast p).nets = updNid s.nets p.net (fun n => { n with nRef := n.nRef - 1 })
    ∧ (s.unrefLast p).memUsed = s.memUsed + p.size
    ∧ (s.unrefLast p).nCachedPages = s.nCachedPages
    ∧ (s.unrefLast p).nCachedNets = s.nCachedNets
    ∧ (s.unrefLast p).nextPid = s.nextPid
    ∧ (s.unrefLast p).nextNid = s.nextNid
    ∧ (s.unrefLast p).memLimit = s.memLimit :=
  ⟨rfl, rfl, rfl, rfl, rfl, rfl, rfl, rfl, rfl, rfl⟩

/-- last reference to a page that stays cached -/
theorem unrefLast_invW {s : State} (h : InvW s) {p : Page} (hp : p ∈ s.pages) (hr : p.ref = 1) (hnz : p.pri ≠ .zombie) :
    InvW (s.unrefLast p) := by
  have hmid := map_id_updId (l := s.pages) (x := p.id) (f := fun p => { p with ref := 0 }) (fun _ => rfl)
  obtain ⟨e1, e2, e3, e4, e5, e6, e7, e8, e9, _⟩ := unrefLast_fields s p
  have aux2 : ∀ p' ∈ s.pages, p'.id = p.id → p' = p := fun p' hp' e => mem_unique h.pidNodup hp' hp e
  obtain ⟨c1, c2, c3, c4, c5, c6⟩ := flip_counts h hp (fun p => { p with ref := 0 })
    (fun n => { n with nRef := n.nRef - 1 }) (fun _ => rfl) rfl rfl (fun _ => rfl) (fun _ => rfl) (fun _ _ => rfl)
    (fun n hn e => by
      have : 0 < s.pages.countP (fun q => decide (q.net = n.id ∧ 0 < q.ref)) :=
        List.countP_pos_iff.2 ⟨p, hp, by simp [e, hr]⟩
      simp [hr]; show n.nRef - 1 + 1 = n.nRef; omega)
  constructor
  · rw [e1, hmid]; exact h.pidNodup
  · intro q hq; rw [e1] at hq; obtain ⟨p', hp', rfl⟩ := mem_updId.1 hq
    rw [e8]; have := h.pidLt p' hp'; split <;> exact this
  · rw [e2]; exact nodup_append_singleton (h.priNodup.filter _) (by simp)
  · rw [e3]; exact h.refNodup.filter _
  · intro id; rw [e2, e1, List.mem_append, mem_filter_ne, h.priMem, List.mem_singleton]
    constructor
    · rintro (⟨⟨q, hq, rfl, hq0⟩, hne⟩ | rfl)
      · exact ⟨q, mem_updId.2 ⟨q, hq, by rw [if_neg hne]⟩, rfl, hq0⟩
      · exact ⟨{ p with ref := 0 }, mem_updId.2 ⟨p, hp, by rw [if_pos rfl]⟩, rfl, rfl⟩
    · rintro ⟨q, hq, rfl, hq0⟩; obtain ⟨p', hp', rfl⟩ := mem_updId.1 hq
      split
      · rename_i e; right; exact e
      · rename_i e; rw [if_neg e] at hq0; left; exact ⟨⟨p', hp', rfl, hq0⟩, e⟩
  · intro id; rw [e3, e1, mem_filter_ne, h.refMem]
    constructor
    · rintro ⟨⟨q, hq, rfl, hq0⟩, hne⟩
      exact ⟨q, mem_updId.2 ⟨q, hq, by rw [if_neg hne]⟩, rfl, hq0⟩
    · rintro ⟨q, hq, rfl, hq0⟩; obtain ⟨p', hp', rfl⟩ := mem_updId.1 hq
      split at hq0
      · simp at hq0
      · rename_i e; rw [if_neg e]; exact ⟨⟨p', hp', rfl, hq0⟩, e⟩
  · intro q hq hz; rw [e1] at hq; obtain ⟨p', hp', rfl⟩ := mem_updId.1 hq
    split at hz
    · rename_i e; rw [aux2 p' hp' e] at hz; exact absurd hz hnz
    · rename_i e; rw [if_neg e]; exact h.zombieRef p' hp' hz
  · rw [e4]; exact c1
  · rw [e4, e9]; exact c2
  · rw [e4, e1]; exact c3
  · rw [e4, e1]; exact c4
  · rw [e4, e1]; exact c5
  · rw [e4, e1]; exact c6
  · rw [e6, e1, length_updId]; exact h.nPages
  · rw [e5, e1]
    have h1 := h.mem
    have h2 := fsum_updId h.pidNodup hp (fun q => decide (q.ref = 0)) Page.size (fun p => { p with ref := 0 })
    unfold fsum at h2
    have : ¬ p.ref = 0 := by omega
    simp only [this, decide_false, decide_true, if_true] at h2
    simp at h2
    have : ({ p with ref := 0 } : Page).size = p.size := rfl
    omega
  · rw [e7, e4, countP_updNid (f := fun n => { n with nRef := n.nRef - 1 }) (fun n => !n.zombie) (fun _ => rfl)]; exact h.nNets

/-- after the decrement only the page's network can be an unreferenced zombie -/
theorem unrefLast_znet {s : State} (hz : ZNet s) (p : Page) : ZNetOn (s.unrefLast p) (fun i => i ≠ p.net) := by
  intro n' hn' hp
  rw [(unrefLast_fields s p).2.2.2.1] at hn'
  obtain ⟨n, hn, rfl⟩ := mem_updNid.1 hn'
  split
  · rename_i e; rw [if_pos e] at hp; exact absurd e hp
  · exact hz n hn trivial

end Zvbi.Cache
