import ZvbiModel.Cache.LemmasSimKeep
import ZvbiModel.Cache.LemmasSpec
/-!
# State-level forms for the joint refinement of Props/C03Join.lean (round 6)

`mirrorOp` of Props/C03Join.lean drives the cache.c model with `getPage` + `pageUnref`, `.ptype` + `putPageF` +
`pageUnref`, `.chsw` on arbitrary (good) states, not on `runF .. init ops`; the lemmas here are stated that way.

* `pageUnref_abs_keep'`: `pageUnref_abs_keep` with the hypotheses only where the code reads them: the zombie flag of the
  network and the room only for the LAST reference (`1 == cp->ref_count`), the room only for a page that stays cached.
* `ptype_abs`: writing a page type to the statistics does not touch the pages.
* `abs_filter_empty`: a network without pages has no retrievable version (after `vbi_chsw_reset`: `chsw_empty`).

Core Lean only.
-/
namespace Zvbi.Cache
open Zvbi.Gen.Cache

theorem pageUnref_abs_keep' {s : State} (h : InvW s) (hm : s.memUsed ≤ s.memLimit) (id : Nat)
    (hz : ∀ p, s.findPage id = some p → p.ref = 1 → ∀ n ∈ s.nets, n.id = p.net → n.zombie = false)
    (hroom : ∀ p, s.findPage id = some p → p.ref = 1 → p.pri ≠ .zombie → s.memUsed + p.size ≤ s.memLimit) :
    (s.pageUnref id).abs = s.abs := by
  cases hf : s.findPage id with
  | none => unfold State.pageUnref; rw [hf]
  | some p =>
    by_cases h1 : p.ref = 1
    · by_cases hzb : p.pri = .zombie
      · -- freed: the room is not read; redo the zombie branch with `hm`
        obtain ⟨hp, _⟩ := findPage_some hf
        unfold State.pageUnref
        rw [hf]
        simp only [h1, if_true, hzb]
        have k := unrefZombie_fields h hp hzb
        have hz1 : ∀ n ∈ (s.unrefZombie p).nets, n.id = p.net → n.zombie = false := by
          rw [k.2.2.2.1]
          exact live_updNid (fun n => ⟨rfl, rfl⟩) (hz p hf h1)
        have hm1 : (s.unrefZombie p).memUsed ≤ (s.unrefZombie p).memLimit := by
          rw [k.2.2.2.2.1, k.2.2.2.2.2.2.2.2.2]; exact hm
        have e1 : (1 : Nat) = 0 ↔ False := by decide
        simp only [e1, if_false]
        rw [unrefTail_keep p.net hz1 hm1, abs_eq, abs_eq, k.1, absL_absI, absL_absI, absI_rmId,
          absI_filter_zombie h.pidNodup hp hzb]
      · exact pageUnref_abs_keep h id (fun q hq => by rw [hf] at hq; cases hq; exact hz p hf h1)
          (fun q hq => by rw [hf] at hq; cases hq; exact hroom p hf h1 hzb)
    · unfold State.pageUnref
      rw [hf]
      simp only
      split
      · rfl
      · rw [abs_eq, abs_eq, updPage_pages]
        exact absL_updId _ _ (fun _ => rfl) (fun _ => rfl)

/-- `.ptype` (the decoder writing `page_type` into `cn->_pages[]`) leaves the pages alone -/
theorem ptype_abs (fix : Bool) (s : State) (nid pgno t : Nat) : (stepF fix s (.ptype nid pgno t)).1.abs = s.abs := by
  show (step s (.ptype nid pgno t)).1.abs = s.abs
  simp only [step]
  cases s.findNet nid with
  | none => rfl
  | some n =>
    simp only
    split
    · rfl
    · rfl

/-- no page of network `nid` => no retrievable version of it -/
theorem abs_filter_empty {s : State} {nid : Nat} (h : ∀ q ∈ s.pages, q.net ≠ nid) :
    s.abs.filter (fun e => decide (e.net = nid)) = [] := by
  apply List.filter_eq_nil_iff.2
  intro e he
  unfold State.abs at he
  obtain ⟨q, hq, rfl⟩ := List.mem_map.1 he
  have := h q (List.mem_filter.1 hq).1
  simp only [Page.entry]
  intro hd
  exact this (of_decide_eq_true hd)

end Zvbi.Cache
