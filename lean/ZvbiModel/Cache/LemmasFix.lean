import ZvbiModel.Cache.LemmasHeld2
/-!
# Both source shapes of `_vbi_cache_put_page`: invariant, held pages

`stepF fix` differs from `step` only in `put`; the repaired shape (`fix = true`) adds `dropOthers` (a loop of
`delete_page` calls) between the look-up and the death row.  The lemma chains of LemmasPut2 / LemmasHeld are
re-proved here for the part after the look-up (`putRest`) and composed for both shapes.
-/
namespace Zvbi.Cache

theorem putTail_rest (s : State) (nid : Nat) (a : PutArg) (k1 k2 : Nat) (avail0 : Int) :
    s.putTail nid a k1 k2 avail0
      = (s.pageByPgno nid a.pgno (k1 &&& k2) k2).1.putRest nid a k1 (s.pageByPgno nid a.pgno (k1 &&& k2) k2).2 avail0 := rfl

theorem putVictim_held (s : State) (old : Option Page) (avail : Int) : HeldKept s (s.putVictim old avail).1 := by
  unfold State.putVictim
  split
  · exact HeldKept.refl _
  · split
    · intro p hp _
      refine ⟨_, (by rw [updPage_pages]; exact mem_updId.2 ⟨p, hp, rfl⟩), ?_⟩
      split
      · exact ⟨rfl, rfl, rfl, rfl, rfl, rfl, rfl, rfl, rfl⟩
      · exact sameBody.rfl' p
    · exact HeldKept.refl _

/-- death row and replacement keep the invariant -/
theorem putRest_all {s : State} (h : InvW s) (hz : ZNet s) {cn : Net} (hcn : cn ∈ s.nets) (a : PutArg) (k1 : Nat)
    (old : Option Page) (avail0 : Int) (hold : ∀ o, old = some o → o ∈ s.pages)
    {s' : State} {r : Option Page} (hres : s.putRest cn.id a k1 old avail0 = .ok (s', r)) :
    InvW s' ∧ ZNet s' ∧ s'.memUsed ≤ s.memUsed ∧ s'.memLimit = s.memLimit ∧ HeldKept s s' := by
  unfold State.putRest at hres
  simp only at hres
  obtain ⟨b1, b2, b3, b4, b5, b6, b7⟩ := putVictim_all h hz old avail0 hold
  have k1' := putVictim_held s old avail0
  generalize s.putVictim old avail0 = v at hres b1 b2 b3 b4 b5 b6 b7 k1'
  split at hres
  · cases hres
  · simp only [Except.ok.injEq, Prod.mk.injEq] at hres; obtain ⟨rfl, _⟩ := hres
    exact ⟨b1, b2, by rw [b5]; exact Nat.le_refl _, b6, k1'⟩
  · rename_i avail row hcol
    have hrow : ∀ id ∈ row, id ∈ v.1.priority := by
      intro id hid
      rcases collectAll_row hcol id hid with x | x
      · rw [b4]; exact b7 id x
      · exact x
    have hcn' : cn ∈ v.1.nets := by rw [b3]; exact hcn
    obtain ⟨c1, c2, c3, c4⟩ := putReplace_all b1 b2 hcn' a _ avail hrow hres
    exact ⟨c1, c2, by rw [b5] at c3; exact c3, c4.trans b6, k1'.trans (putReplace_held b1 cn.id a _ avail hrow hres)⟩

/-- `delete_page` of one page leaves every other page alone -/
theorem deletePage_other {s : State} {id : Nat} {q : Page} (hq : q ∈ s.pages) (hne : q.id ≠ id) :
    q ∈ (s.deletePage id).pages := by
  unfold State.deletePage
  split
  · exact hq
  · rename_i p hf
    obtain ⟨_, rfl⟩ := findPage_some hf
    split
    · split
      · rw [updPage_pages]; exact mem_updId.2 ⟨q, hq, by rw [if_neg hne]⟩
      · exact hq
    · rw [freePage_pages]; exact mem_rmId.2 ⟨hq, hne⟩

theorem foldDelete_other (ids : List Nat) (s : State) {q : Page} (hq : q ∈ s.pages) (hne : ∀ id ∈ ids, q.id ≠ id) :
    q ∈ (ids.foldl (fun s id => s.deletePage id) s).pages := by
  induction ids generalizing s with
  | nil => exact hq
  | cons x t ih =>
    rw [List.foldl_cons]
    exact ih _ (deletePage_other hq (hne x List.mem_cons_self)) (fun id hid => hne id (List.mem_cons_of_mem _ hid))

theorem dropOthers_shrinks (s : State) (nid pgno keep : Nat) : Shrinks s (s.dropOthers nid pgno keep) :=
  foldDelete_shrinks _ s

theorem dropOthers_keep {s : State} (nid pgno : Nat) {o : Page} (ho : o ∈ s.pages) : o ∈ (s.dropOthers nid pgno o.id).pages := by
  unfold State.dropOthers
  refine foldDelete_other _ s ho ?_
  intro id hid e
  obtain ⟨q, hq, rfl⟩ := List.mem_map.1 hid
  have := (List.mem_filter.1 hq).2
  simp only [decide_eq_true_eq] at this
  exact this.2.2.2 e.symm

/-- repaired shape after the key was chosen -/
theorem putTailR_all {s : State} (h : InvW s) (hz : ZNet s) {cn : Net} (hcn : cn ∈ s.nets) (a : PutArg) (k1 k2 : Nat) (avail0 : Int)
    {s' : State} {r : Option Page} (hres : s.putTailR cn.id a k1 k2 avail0 = .ok (s', r)) :
    InvW s' ∧ ZNet s' ∧ s'.memUsed ≤ s.memUsed ∧ s'.memLimit = s.memLimit ∧ HeldKept s s' := by
  unfold State.putTailR at hres
  simp only at hres
  obtain ⟨a1, a2, a3, a4, a5, _, _, a8, a9⟩ := pageByPgno_all h cn.id a.pgno (k1 &&& k2) k2
  generalize s.pageByPgno cn.id a.pgno (k1 &&& k2) k2 = r0 at hres a1 a2 a3 a4 a5 a8 a9
  have z1 : ZNet r0.1 := znet_of_key (by rw [a2]) hz
  have k0 : HeldKept s r0.1 := fun p hp _ => ⟨p, (a3 p).2 hp, sameBody.rfl' p⟩
  have hcn0 : cn ∈ r0.1.nets := by rw [a2]; exact hcn
  split at hres
  · rename_i o ho
    have hom : o ∈ r0.1.pages := (a3 o).2 (a9 o ho).1
    split at hres
    · have sh := dropOthers_shrinks r0.1 cn.id a.pgno o.id
      have hk := dropOthers_keep cn.id a.pgno hom
      generalize r0.1.dropOthers cn.id a.pgno o.id = s1 at hres sh hk
      obtain ⟨m, hm, ek⟩ := net_of_key sh.key hcn0
      have eid : m.id = cn.id := by simp only [netKey, Prod.mk.injEq] at ek; exact ek.1
      rw [← eid] at hres
      obtain ⟨c1, c2, c3, c4, c5⟩ := putRest_all (sh.invW a1) (znet_of_key sh.key z1) hm a k1 (some o) _
        (fun o' e => by cases e; exact hk) hres
      exact ⟨c1, c2, Nat.le_trans c3 (by rw [← a4]; exact sh.mem), c4.trans (sh.limit.trans a5),
        (k0.trans (sh.keep a1)).trans c5⟩
    · obtain ⟨c1, c2, c3, c4, c5⟩ := putRest_all a1 z1 hcn0 a k1 (some o) avail0 (fun o' e => by cases e; exact hom) hres
      exact ⟨c1, c2, by rw [a4] at c3; exact c3, c4.trans a5, k0.trans c5⟩
  · obtain ⟨c1, c2, c3, c4, c5⟩ := putRest_all a1 z1 hcn0 a k1 none avail0 (fun o' e => by cases e) hres
    exact ⟨c1, c2, by rw [a4] at c3; exact c3, c4.trans a5, k0.trans c5⟩

theorem putTailF_all (fix : Bool) {s : State} (h : InvW s) (hz : ZNet s) {cn : Net} (hcn : cn ∈ s.nets) (a : PutArg) (k1 k2 : Nat)
    (avail0 : Int) {s' : State} {r : Option Page} (hres : s.putTailF fix cn.id a k1 k2 avail0 = .ok (s', r)) :
    InvW s' ∧ ZNet s' ∧ s'.memUsed ≤ s.memUsed ∧ s'.memLimit = s.memLimit ∧ HeldKept s s' := by
  cases fix with
  | true => exact putTailR_all h hz hcn a k1 k2 avail0 hres
  | false =>
    have hres' : s.putTail cn.id a k1 k2 avail0 = .ok (s', r) := hres
    obtain ⟨c1, c2, c3, c4⟩ := putTail_all h hz hcn a k1 k2 avail0 hres'
    exact ⟨c1, c2, c3, c4, putTail_held h hz cn.id a k1 k2 avail0 hres'⟩

/-- `_vbi_cache_put_page`, both shapes -/
theorem putPageF_all (fix : Bool) {s : State} (h : InvW s) (hz : ZNet s) (nid : Nat) (a : PutArg) {s' : State} {r : Option Page}
    (hres : s.putPageF fix nid a = .ok (s', r)) :
    InvW s' ∧ ZNet s' ∧ s'.memUsed ≤ s.memUsed ∧ s'.memLimit = s.memLimit ∧ HeldKept s s' := by
  unfold State.putPageF at hres
  split at hres
  · cases hres
  · rename_i cn hf
    obtain ⟨hcn, rfl⟩ := findNet_some' hf
    split at hres
    · simp only [Except.ok.injEq, Prod.mk.injEq] at hres; obtain ⟨rfl, _⟩ := hres
      exact ⟨h, hz, Nat.le_refl _, rfl, HeldKept.refl _⟩
    · split at hres
      · cases hres
      · exact putTailF_all fix h hz hcn a _ _ _ hres

theorem putPageF_false (s : State) (nid : Nat) (a : PutArg) : s.putPageF false nid a = s.putPage nid a := rfl

theorem stepF_false (s : State) (op : Op) : stepF false s op = step s op := by
  cases op <;> rfl

theorem runF_false (s : State) (ops : List Op) : runF false s ops = run s ops := by
  induction ops generalizing s with
  | nil => rfl
  | cons op t ih => show runF false (stepF false s op).1 t = run (step s op).1 t; rw [stepF_false]; exact ih _

/-- every operation keeps the invariant, on both source shapes -/
theorem good_stepF (fix : Bool) {s : State} (g : Good s) (op : Op) : Good (stepF fix s op).1 := by
  cases op with
  | put nid a =>
    unfold stepF; simp only
    split
    · rename_i s' p hres
      obtain ⟨c1, c2, c3, c4, _⟩ := putPageF_all fix g.1 g.2.1 nid a hres
      exact ⟨c1, c2, by show s'.memUsed ≤ s'.memLimit; rw [c4]; exact Nat.le_trans c3 g.2.2⟩
    · exact g
  | _ => exact good_step g _

theorem good_runF (fix : Bool) {s : State} (g : Good s) (ops : List Op) : Good (runF fix s ops) := by
  induction ops generalizing s with
  | nil => exact g
  | cons op t ih => exact ih (good_stepF fix g op)

/-- FULL held-page statement on both shapes -/
theorem held_full_stepF (fix : Bool) {s : State} (g : Good s) (op : Op) (p : Page) (hp : p ∈ s.pages) (hr : 0 < p.ref) :
    (op = .unref p.id ∧ p.ref = 1) ∨
    ∃ q ∈ (stepF fix s op).1.pages, sameCont p q ∧ p.ref ≤ q.ref + (if op = .unref p.id then 1 else 0) := by
  cases op with
  | put nid a =>
    right
    have hk : HeldKept s (stepF fix s (.put nid a)).1 := by
      unfold stepF; simp only
      split
      · rename_i s' p' hres; exact (putPageF_all fix g.1 g.2.1 nid a hres).2.2.2.2
      · exact HeldKept.refl _
    obtain ⟨q, hq, b⟩ := hk p hp hr
    exact ⟨q, hq, b.cont, by rw [b.ref]; simp⟩
  | _ => exact held_full_step g _ p hp hr

theorem held_historyF (fix : Bool) {s : State} (g : Good s) (ops : List Op) (p : Page) (hp : p ∈ s.pages) (hr : 0 < p.ref)
    (hno : ∀ op ∈ ops, op ≠ .unref p.id) :
    ∃ q ∈ (runF fix s ops).pages, sameCont p q ∧ p.ref ≤ q.ref := by
  induction ops generalizing s p with
  | nil => exact ⟨p, hp, sameCont.rfl' p, Nat.le_refl _⟩
  | cons op t ih =>
    have hne : op ≠ .unref p.id := hno op List.mem_cons_self
    rcases held_full_stepF fix g op p hp hr with ⟨e, _⟩ | ⟨q, hq, c, r⟩
    · exact absurd e hne
    · rw [if_neg hne] at r
      have hqr : 0 < q.ref := by omega
      obtain ⟨q2, hq2, c2, r2⟩ := ih (good_stepF fix g op) q hq hqr
        (fun o ho => by rw [← c.1]; exact hno o (List.mem_cons_of_mem _ ho))
      exact ⟨q2, hq2, c.trans c2, by omega⟩

end Zvbi.Cache
