import ZvbiModel.Cache.LemmasFix
/-!
# Eviction and the network limit: what may leave the cache

* `recycle_unreferenced`: `recycle_network` picks only a network without references of any kind.
* `LiveKept`: every network that is not a zombie stays on the list, not a zombie; proved for the release of a page
  reference (`pageUnref_liveKept`: finding of seed C10-e) and for the release of a network reference while the number
  of cached networks is within the limit (`netUnref_liveKept`).
-/
namespace Zvbi.Cache

/-- `recycle_network` hands out the struct of a listed network that has neither network nor page references -/
theorem recycle_unreferenced {s s1 : State} {n : Net} (hr : s.recycleNetwork = some (s1, n)) :
    ∃ n0 ∈ s.nets, n0.id = n.id ∧ n0.ref = 0 ∧ n0.nRef = 0 := by
  unfold State.recycleNetwork at hr
  split at hr
  · cases hr
  · rename_i n0 hf0
    have hmem : n0 ∈ s.nets := List.mem_reverse.1 (List.mem_of_find?_eq_some hf0)
    have hp := List.find?_some hf0
    simp only [decide_eq_true_eq] at hp
    simp only at hr
    split at hr
    · cases hr
    · rename_i m hfm
      simp only [Option.some.injEq, Prod.mk.injEq] at hr
      obtain ⟨_, rfl⟩ := hr
      exact ⟨n0, hmem, (findNet_some' hfm).2.symm, hp.1, hp.2⟩

/-- the network `_vbi_cache_add_network (ca, NULL)` hands out is a new one, or one that had no reference of any kind -/
theorem addNetwork_id_unreferenced {s : State} (h : InvW s) :
    ∀ n ∈ s.nets, n.id = s.addNetwork.2 → n.ref = 0 ∧ n.nRef = 0 := by
  have fresh : ∀ n ∈ s.nets, n.id = s.nextNid → n.ref = 0 ∧ n.nRef = 0 := by
    intro n hn e; have := h.nidLt n hn; omega
  unfold State.addNetwork
  simp only
  split
  · exact fresh
  · split
    · exact fresh
    · rename_i r hr
      obtain ⟨s1, m⟩ := r
      obtain ⟨n0, hn0, e0, r0, r1⟩ := recycle_unreferenced hr
      intro n hn e
      have : n = n0 := net_unique h.nidNodup hn hn0 (by rw [e0]; exact e)
      subst this
      exact ⟨r0, r1⟩

/-- every network that is not a zombie stays on the list and stays a non-zombie -/
def LiveKept (s s' : State) : Prop := ∀ n ∈ s.nets, n.zombie = false → ∃ n' ∈ s'.nets, n'.id = n.id ∧ n'.zombie = false

theorem LiveKept.refl (s : State) : LiveKept s s := fun n hn hz => ⟨n, hn, rfl, hz⟩
theorem LiveKept.trans {a b c : State} (h1 : LiveKept a b) (h2 : LiveKept b c) : LiveKept a c := by
  intro n hn hz
  obtain ⟨n1, hn1, e1, z1⟩ := h1 n hn hz
  obtain ⟨n2, hn2, e2, z2⟩ := h2 n1 hn1 z1
  exact ⟨n2, hn2, e2.trans e1, z2⟩

theorem liveKept_of_key {s s' : State} (hk : s'.nets.map netKey = s.nets.map netKey) : LiveKept s s' := by
  intro n hn hz
  obtain ⟨m, hm, ek⟩ := net_of_key hk hn
  simp only [netKey, Prod.mk.injEq] at ek
  exact ⟨m, hm, ek.1, by rw [ek.2.2.2]; exact hz⟩

theorem liveKept_updNid {s s' : State} {x : Nat} {f : Net → Net} (he : s'.nets = updNid s.nets x f)
    (hf : ∀ n, (f n).id = n.id ∧ (f n).zombie = n.zombie) : LiveKept s s' := by
  intro n hn hz
  refine ⟨if n.id = x then f n else n, by rw [he]; exact mem_updNid.2 ⟨n, hn, rfl⟩, ?_, ?_⟩
  · split
    · exact (hf n).1
    · rfl
  · split
    · rw [(hf n).2]; exact hz
    · exact hz

/-- `delete_network (nid)` leaves every other network alone -/
theorem deleteNetwork_liveKept_other (s : State) (nid : Nat) :
    ∀ n ∈ s.nets, n.id ≠ nid → n.zombie = false → ∃ n' ∈ (s.deleteNetwork nid).nets, n'.id = n.id ∧ n'.zombie = false := by
  intro n hn hne hz
  unfold State.deleteNetwork
  split
  · exact ⟨n, hn, rfl, hz⟩
  · rename_i n0 hf
    simp only
    have k1 : (if n0.nCached > 0 then s.deleteAllPages nid else s).nets.map netKey = s.nets.map netKey := by
      split
      · exact (deleteAllPages_shrinks s nid).key
      · rfl
    generalize (if n0.nCached > 0 then s.deleteAllPages nid else s) = s1 at k1
    obtain ⟨m, hm, e, z⟩ := liveKept_of_key k1 n hn hz
    have hm2 : m ∈ (if (!n0.zombie) = true then { s1 with nCachedNets := s1.nCachedNets - 1 } else s1).nets := by
      split <;> exact hm
    generalize (if (!n0.zombie) = true then { s1 with nCachedNets := s1.nCachedNets - 1 } else s1) = s2 at hm2
    split
    · refine ⟨m, ?_, e, z⟩
      rw [updNet_nets]
      exact mem_updNid.2 ⟨m, hm2, by rw [if_neg (by rw [e]; exact hne)]⟩
    · refine ⟨m, ?_, e, z⟩
      exact List.mem_filter.2 ⟨hm2, by simpa [e] using hne⟩

theorem unrefNetCheck_liveKept {s : State} (h : InvW s) (nid : Nat) : LiveKept s (s.unrefNetCheck nid) := by
  intro n hn hz
  unfold State.unrefNetCheck
  split
  · rename_i n0 hf
    obtain ⟨hn0, rfl⟩ := findNet_some' hf
    split
    · rename_i hc
      by_cases e : n.id = n0.id
      · have : n = n0 := net_unique h.nidNodup hn hn0 e
        subst this
        rw [hz] at hc
        exact absurd hc.1 (by simp)
      · exact deleteNetwork_liveKept_other s n0.id n hn e hz
    · exact ⟨n, hn, rfl, hz⟩
  · exact ⟨n, hn, rfl, hz⟩

theorem memCheck_liveKept (s : State) : LiveKept s s.memCheck := by
  unfold State.memCheck
  split
  · exact liveKept_of_key (deleteSurplusPages_shrinks s).key
  · exact LiveKept.refl s

/-- `cache_page_unref` never removes a network that is not a zombie (seed C10-e) -/
theorem pageUnref_liveKept {s : State} (h : InvW s) (hz : ZNet s) (id : Nat) : LiveKept s (s.pageUnref id) := by
  unfold State.pageUnref
  split
  · exact LiveKept.refl s
  · rename_i p hf
    obtain ⟨hp, rfl⟩ := findPage_some hf
    split
    · exact LiveKept.refl s
    · split
      · rename_i hr1
        have tail : ∀ s1 : State, InvW s1 → LiveKept s1 (s1.unrefTail p.net) := by
          intro s1 h1
          unfold State.unrefTail
          exact (unrefNetCheck_liveKept h1 p.net).trans (memCheck_liveKept _)
        split
        · rename_i hzp
          have k := unrefZombie_fields h hp hzp
          refine LiveKept.trans (liveKept_updNid k.2.2.2.1 (fun n => ⟨rfl, rfl⟩)) (tail _ ?_)
          exact unrefZombie_invW h hp hr1 hzp
        · rename_i hzp
          have k := unrefLast_fields s p
          refine LiveKept.trans (liveKept_updNid k.2.2.2.1 (fun n => ⟨rfl, rfl⟩)) (tail _ ?_)
          exact unrefLast_invW h hp hr1 hzp
      · exact liveKept_updNid (s' := s.updPage p.id _) (x := 0) (f := fun n => n) (by
          show s.nets = updNid s.nets 0 (fun n => n)
          unfold updNid; simp) (fun n => ⟨rfl, rfl⟩)

theorem deleteNetwork_counts (s : State) (nid : Nat) :
    (s.deleteNetwork nid).nCachedNets ≤ s.nCachedNets ∧ (s.deleteNetwork nid).nNetsLimit = s.nNetsLimit := by
  refine ⟨?_, deleteNetwork_nNetsLimit s nid⟩
  unfold State.deleteNetwork
  split
  · exact Nat.le_refl _
  · rename_i n0 hf
    simp only
    have k1 : (if n0.nCached > 0 then s.deleteAllPages nid else s).nCachedNets = s.nCachedNets := by
      split
      · exact (deleteAllPages_shrinks s nid).nNets
      · rfl
    generalize (if n0.nCached > 0 then s.deleteAllPages nid else s) = s1 at k1
    have k2 : (if (!n0.zombie) = true then { s1 with nCachedNets := s1.nCachedNets - 1 } else s1).nCachedNets ≤ s.nCachedNets := by
      split
      · show s1.nCachedNets - 1 ≤ _; omega
      · omega
    generalize (if (!n0.zombie) = true then { s1 with nCachedNets := s1.nCachedNets - 1 } else s1) = s2 at k2
    split <;> exact k2

/-- the loop body of `delete_surplus_networks` -/
def surplusStep (s : State) (a : Nat) : State :=
  match s.findNet a with
  | none => s
  | some n =>
    if n.ref > 0 ∨ n.nRef > 0 then s
    else if n.zombie ∨ s.nCachedNets > s.nNetsLimit then s.deleteNetwork a
    else s

theorem deleteSurplusNets_eq (s : State) : s.deleteSurplusNets = (s.nets.map (·.id)).reverse.foldl surplusStep s := rfl

theorem surplusStep_liveKept {s : State} (h : InvW s) (hl : s.nCachedNets ≤ s.nNetsLimit) (a : Nat) :
    LiveKept s (surplusStep s a) ∧ (surplusStep s a).nCachedNets ≤ (surplusStep s a).nNetsLimit ∧ InvW (surplusStep s a) := by
  have hstep : InvW s → InvW (surplusStep s a) := (surplusNets_step s a).1
  refine ⟨?_, ?_, hstep h⟩
  all_goals
    unfold surplusStep
    split
    · first | exact LiveKept.refl s | exact hl
    · rename_i n0 hf
      obtain ⟨hn0, rfl⟩ := findNet_some' hf
      split
      · first | exact LiveKept.refl s | exact hl
      · split
        · rename_i hc
          have hzz : n0.zombie = true := by
            rcases hc with hc | hc
            · exact hc
            · omega
          first
          | (intro n hn hz
             by_cases e : n.id = n0.id
             · have : n = n0 := net_unique h.nidNodup hn hn0 e
               subst this
               rw [hz] at hzz; cases hzz
             · exact deleteNetwork_liveKept_other s n0.id n hn e hz)
          | (obtain ⟨c1, c2⟩ := deleteNetwork_counts s n0.id
             omega)
        · first | exact LiveKept.refl s | exact hl

/-- `delete_surplus_networks` while the number of cached networks is within the limit: only zombies go -/
theorem deleteSurplusNets_liveKept {s : State} (h : InvW s) (hl : s.nCachedNets ≤ s.nNetsLimit) :
    LiveKept s s.deleteSurplusNets := by
  rw [deleteSurplusNets_eq]
  generalize (s.nets.map (·.id)).reverse = ids
  induction ids generalizing s with
  | nil => exact LiveKept.refl s
  | cons a t ih =>
    rw [List.foldl_cons]
    obtain ⟨k1, k2, k3⟩ := surplusStep_liveKept h hl a
    exact k1.trans (ih k3 k2)

/-- `cache_network_unref` while the number of cached networks is within the limit -/
theorem netUnref_liveKept {s : State} (h : InvW s) (hl : s.nCachedNets ≤ s.nNetsLimit) (nid : Nat) :
    LiveKept s (s.netUnref nid) := by
  unfold State.netUnref
  split
  · exact LiveKept.refl s
  · rename_i n hf
    split
    · exact LiveKept.refl s
    · split
      · have k : LiveKept s (s.updNet nid (fun n => { n with ref := 0 })) :=
          liveKept_updNid (updNet_nets s nid _) (fun n => ⟨rfl, rfl⟩)
        refine k.trans (deleteSurplusNets_liveKept ?_ hl)
        exact updNet_invW' h nid _ (fun _ => rfl) (fun _ _ _ => rfl) (fun _ _ _ => rfl) (fun _ _ _ _ => rfl) (fun _ => rfl)
      · exact liveKept_updNid (updNet_nets s nid _) (fun n => ⟨rfl, rfl⟩)

end Zvbi.Cache
