import ZvbiModel.Cache.LemmasStep
/-!
# Channel switch, teardown, memory limit of libzvbi 0.2, look-ups against the abstract store
-/
namespace Zvbi.Cache
open Zvbi.Gen.Cache

/-! ### channel switch -/

theorem statReset_pages (s : State) (x : Nat) : (s.statReset x).pages = s.pages := rfl

/-- after `vbi_chsw_reset` the decoder's network has no page -/
theorem chsw_empty {s : State} (g : Good s) (nid : Nat) (n : Net) (hf : s.findNet nid = some n) :
    ∀ nid', (step s (.chsw nid)).2 = .net nid' → ∀ q ∈ (step s (.chsw nid)).1.pages, q.net ≠ nid' := by
  intro nid' hout
  unfold step at hout ⊢
  simp only [hf] at hout ⊢
  simp only [Out.net.injEq] at hout
  subst hout
  obtain ⟨h, hz, _⟩ := g
  obtain ⟨a, b, _, _⟩ := netUnref_all h hz nid
  obtain ⟨_, _, _, _, _, e⟩ := addNetwork_all a b
  intro q hq
  rw [statReset_pages] at hq
  exact e q hq

/-- a look-up in a network without pages finds nothing -/
theorem getPage_none_of_empty {s : State} {nid : Nat} (he : ∀ q ∈ s.pages, q.net ≠ nid) (pgno : Nat) (subno : Int) (mask : Nat) :
    (s.getPage nid pgno subno mask).2 = none := by
  unfold State.getPage
  split
  · rfl
  · split
    · rfl
    · simp only
      have : s.pages.find? (pageMatch nid pgno subno.toNat (if subno.toNat = anySubno then 0 else mask)) = none := by
        rw [List.find?_eq_none]; intro q hq hm
        unfold pageMatch at hm; simp at hm; exact he q hq hm.2.2.2
      unfold State.pageByPgno; rw [this]

/-! ### teardown -/

theorem deleteNetwork_removes {s : State} (h : InvW s) {n : Net} (hn : n ∈ s.nets) (hr : n.ref = 0) (hnr : n.nRef = 0) :
    ∀ n' ∈ (s.deleteNetwork n.id).nets, n'.id ≠ n.id := by
  unfold State.deleteNetwork
  rw [findNet_of_mem' h hn]
  simp only
  have : ¬ (n.ref > 0 ∨ n.nRef > 0) := by omega
  rw [if_neg this]
  intro n' hn'
  have hn2 : n' ∈ List.filter (fun m => decide (m.id ≠ n.id)) _ := hn'
  simp only [List.mem_filter, decide_eq_true_eq] at hn2
  exact hn2.2

/-- all references released: what `vbi_cache_purge` leaves -/
theorem purge_fold_empty (ids : List Nat) (s : State) (h : InvW s) (hq : ∀ n ∈ s.nets, n.ref = 0 ∧ n.nRef = 0) :
    let s' := ids.foldl (fun s nid => s.deleteNetwork nid) s
    InvW s' ∧ (∀ n ∈ s'.nets, n.ref = 0 ∧ n.nRef = 0) ∧ (∀ n ∈ s'.nets, n.id ∉ ids ∧ n.id ∈ s.nets.map (·.id)) := by
  induction ids generalizing s with
  | nil => exact ⟨h, hq, fun n hn => ⟨by simp, List.mem_map_of_mem hn⟩⟩
  | cons a t ih =>
    simp only [List.foldl_cons]
    have h1 := deleteNetwork_invW h a
    have other := deleteNetwork_nets h a
    have gone : ∀ n' ∈ (s.deleteNetwork a).nets, n'.id ≠ a := by
      intro n' hn' e
      have := (other n' hn').1 e
      -- a network that is still there after its own deletion is referenced: impossible here
      by_cases hfa : ∃ n ∈ s.nets, n.id = a
      · obtain ⟨n, hn, rfl⟩ := hfa
        exact deleteNetwork_removes h hn (hq n hn).1 (hq n hn).2 n' hn' e
      · have : s.deleteNetwork a = s := by
          unfold State.deleteNetwork
          have : s.findNet a = none := by
            unfold State.findNet; rw [List.find?_eq_none]; intro n hn hc; simp at hc; exact hfa ⟨n, hn, hc⟩
          rw [this]
        rw [this] at hn'; exact hfa ⟨n', hn', e⟩
    have hq1 : ∀ n ∈ (s.deleteNetwork a).nets, n.ref = 0 ∧ n.nRef = 0 := by
      intro n' hn'
      obtain ⟨m, hm, ek⟩ := (other n' hn').2 (gone n' hn')
      simp only [netKey, Prod.mk.injEq] at ek
      have := hq m hm; omega
    obtain ⟨i1, i2, i3⟩ := ih (s.deleteNetwork a) h1 hq1
    refine ⟨i1, i2, ?_⟩
    intro n hn
    obtain ⟨x1, x2⟩ := i3 n hn
    obtain ⟨m, hm, e⟩ := List.mem_map.1 x2
    obtain ⟨m0, hm0, ek⟩ := (other m hm).2 (gone m hm)
    simp only [netKey, Prod.mk.injEq] at ek
    refine ⟨?_, List.mem_map.2 ⟨m0, hm0, ek.1.trans e⟩⟩
    intro hc
    rcases List.mem_cons.1 hc with hc | hc
    · exact gone m hm (e.trans hc)
    · exact x1 hc

theorem purge_frees_all {s : State} (g : Good s) (hp : ∀ p ∈ s.pages, p.ref = 0) (hn : ∀ n ∈ s.nets, n.ref = 0) :
    s.purge.pages = [] ∧ s.purge.nets = [] ∧ s.purge.priority = [] ∧ s.purge.referenced = [] := by
  obtain ⟨h, _, _⟩ := g
  have hq : ∀ n ∈ s.nets, n.ref = 0 ∧ n.nRef = 0 := by
    intro n hnn
    refine ⟨hn n hnn, ?_⟩
    rw [h.nRef n hnn, List.countP_eq_zero]
    intro p hpp hc; simp at hc; have := hp p hpp; omega
  obtain ⟨i1, _, i3⟩ := purge_fold_empty (s.nets.map (·.id)) s h hq
  have e : s.purge = (s.nets.map (·.id)).foldl (fun s nid => s.deleteNetwork nid) s := rfl
  rw [← e] at i1 i3
  have hnets : s.purge.nets = [] := by
    cases hl : s.purge.nets with
    | nil => rfl
    | cons a t =>
      have := i3 a (by rw [hl]; exact List.mem_cons_self)
      exact absurd this.2 this.1
  have hpages : s.purge.pages = [] := by
    cases hl : s.purge.pages with
    | nil => rfl
    | cons a t =>
      obtain ⟨n, hnn, _⟩ := i1.netOf a (by rw [hl]; exact List.mem_cons_self)
      rw [hnets] at hnn; cases hnn
  refine ⟨hpages, hnets, ?_, ?_⟩
  · cases hl : s.purge.priority with
    | nil => rfl
    | cons a t =>
      obtain ⟨q, hq', _⟩ := (i1.priMem a).1 (by rw [hl]; exact List.mem_cons_self)
      rw [hpages] at hq'; cases hq'
  · cases hl : s.purge.referenced with
    | nil => rfl
    | cons a t =>
      obtain ⟨q, hq', _⟩ := (i1.refMem a).1 (by rw [hl]; exact List.mem_cons_self)
      rw [hpages] at hq'; cases hq'

/-! ### the memory limit of libzvbi 0.2 -/

theorem pageSize_le (func : Int) (x26 x28 : Nat) : pageSize func x26 x28 ≤ fullSize := by
  unfold pageSize
  simp only [hdrSize, extLopSize, enhLopSize, lopSize, popSize, drcsSize, aitSize, fullSize]
  split
  · split
    · omega
    · split <;> omega
  · split
    · omega
    · split
      · omega
      · split <;> omega

theorem pageSize_ge (func : Int) (x26 x28 : Nat) : hdrSize + aitSize ≤ pageSize func x26 x28 := by
  unfold pageSize
  simp only [hdrSize, extLopSize, enhLopSize, lopSize, popSize, drcsSize, aitSize, fullSize]
  split
  · split
    · omega
    · split <;> omega
  · split
    · omega
    · split
      · omega
      · split <;> omega

theorem fsum_le_length (Q : Page → Bool) (l : List Page) : fsum Q Page.size l ≤ l.length * fullSize := by
  induction l with
  | nil => simp [fsum]
  | cons a t ih =>
    rw [fsum_cons, List.length_cons, Nat.succ_mul]
    have := pageSize_le a.func a.x26 a.x28
    have h2 : (if Q a = true then a.size else 0) ≤ fullSize := by
      split
      · exact this
      · omega
    omega

/-- with at most 0x800 x 80 pages (the bound cache.c itself asserts under CACHE_CONSISTENCY) the
    1 GiB limit of libzvbi 0.2 always leaves room for another page: no eviction, the death row stays empty -/
theorem mem_room_0_2 {s : State} (h : Inv s) (hl : s.memLimit = memoryLimit0) (hn : s.pages.length ≤ 0x800 * 80)
    (func : Int) (x26 x28 : Nat) : s.memUsed + pageSize func x26 x28 ≤ s.memLimit := by
  have h1 : s.memUsed = fsum (fun p => decide (p.ref = 0)) Page.size s.pages := h.mem
  have h2 := fsum_le_length (fun p => decide (p.ref = 0)) s.pages
  have h3 := pageSize_le func x26 x28
  rw [hl, h1]
  simp only [memoryLimit0, fullSize] at *
  have : s.pages.length * 4504 ≤ 0x800 * 80 * 4504 := Nat.mul_le_mul_right _ hn
  omega

/-- the first test of `collectAll` succeeds when there is room: the death row is not extended -/
theorem collectAll_room {s : State} {oldId : Option Nat} {needed avail : Int} {row : List Nat} (h : avail ≥ needed) :
    collectAll s oldId needed avail row = .ok (some (avail, row)) := by
  unfold collectAll
  simp only [bind, Except.bind, pure, Except.pure, h, if_true]

end Zvbi.Cache
