import ZvbiModel.Cache.LemmasNets2
/-!
# delete_surplus_networks, purge, cache_network_unref / ref, add_network
-/
namespace Zvbi.Cache

/-- page-level summary of an operation that only deletes unreferenced pages -/
structure PStep (s s' : State) : Prop where
  sub : ∀ q ∈ s'.pages, ∃ p ∈ s.pages, sameBody p q
  keep : InvW s → ∀ p ∈ s.pages, 0 < p.ref → ∃ q ∈ s'.pages, sameBody p q
  mem : s'.memUsed ≤ s.memUsed
  limit : s'.memLimit = s.memLimit
  nlimit : s'.nNetsLimit = s.nNetsLimit

theorem PStep.refl (s : State) : PStep s s :=
  ⟨fun q hq => ⟨q, hq, sameBody.rfl' q⟩, fun _ p hp _ => ⟨p, hp, sameBody.rfl' p⟩, Nat.le_refl _, rfl, rfl⟩

theorem PStep.trans {a b c : State} (hab : InvW a → InvW b) (h1 : PStep a b) (h2 : PStep b c) : PStep a c :=
  ⟨fun q hq => by
     obtain ⟨p, hp, e⟩ := h2.sub q hq; obtain ⟨p0, hp0, e0⟩ := h1.sub p hp; exact ⟨p0, hp0, e0.trans e⟩,
   fun h p hp hr => by
     obtain ⟨q, hq, e⟩ := h1.keep h p hp hr
     obtain ⟨q2, hq2, e2⟩ := h2.keep (hab h) q hq (by rw [← e.2.2.2.2.2.2.2.2]; exact hr)
     exact ⟨q2, hq2, e.trans e2⟩,
   Nat.le_trans h2.mem h1.mem, h2.limit.trans h1.limit, h2.nlimit.trans h1.nlimit⟩

theorem deleteNetwork_pstep (s : State) (nid : Nat) : PStep s (s.deleteNetwork nid) := by
  obtain ⟨s1, sh, e1, _, _, e4, _, _⟩ := deleteNetwork_pages (s := s) nid
  refine ⟨?_, ?_, ?_, deleteNetwork_memLimit s nid, deleteNetwork_nNetsLimit s nid⟩
  · rw [e1]; exact sh.sub
  · rw [e1]; exact sh.keep
  · rw [e4]; exact sh.mem

/-- a loop of `delete_network` calls over network ids -/
theorem foldNets {step : State → Nat → State}
    (hstep : ∀ s a, (InvW s → InvW (step s a)) ∧ PStep s (step s a)
      ∧ (InvW s → ∀ P, ZNetOn s P → ZNetOn (step s a) (fun i => P i ∨ i = a)) ∧ (step s a).nextNid = s.nextNid) :
    ∀ (ids : List Nat) (s : State),
      (InvW s → InvW (ids.foldl step s)) ∧ PStep s (ids.foldl step s)
      ∧ (InvW s → ∀ P, ZNetOn s P → ZNetOn (ids.foldl step s) (fun i => P i ∨ i ∈ ids))
      ∧ (ids.foldl step s).nextNid = s.nextNid := by
  intro ids
  induction ids with
  | nil =>
    intro s
    exact ⟨id, PStep.refl s, fun _ P hz n hn hp => hz n hn (by simpa using hp), rfl⟩
  | cons a t ih =>
    intro s
    obtain ⟨i1, p1, z1, n1⟩ := hstep s a
    obtain ⟨i2, p2, z2, n2⟩ := ih (step s a)
    rw [List.foldl_cons]
    refine ⟨fun h => i2 (i1 h), PStep.trans i1 p1 p2, ?_, n2.trans n1⟩
    intro h P hz n hn hp
    refine z2 (i1 h) _ (z1 h P hz) n hn ?_
    rcases hp with hp | hp
    · exact Or.inl (Or.inl hp)
    · rcases List.mem_cons.1 hp with e | e
      · exact Or.inl (Or.inr e)
      · exact Or.inr e

theorem purge_all (s : State) :
    (InvW s → InvW s.purge) ∧ PStep s s.purge
      ∧ (InvW s → ∀ P, ZNetOn s P → ZNetOn s.purge (fun i => P i ∨ i ∈ s.nets.map (·.id)))
      ∧ s.purge.nextNid = s.nextNid := by
  unfold State.purge
  exact foldNets (step := fun s nid => s.deleteNetwork nid)
    (fun s a => ⟨fun h => deleteNetwork_invW h a, deleteNetwork_pstep s a,
      fun h P hz => deleteNetwork_znet h a hz, deleteNetwork_nextNid s a⟩) _ s

theorem surplusNets_step (s : State) (a : Nat) :
    let s' := match s.findNet a with
      | none => s
      | some n =>
        if n.ref > 0 ∨ n.nRef > 0 then s
        else if n.zombie ∨ s.nCachedNets > s.nNetsLimit then s.deleteNetwork a
        else s
    (InvW s → InvW s') ∧ PStep s s'
      ∧ (InvW s → ∀ P, ZNetOn s P → ZNetOn s' (fun i => P i ∨ i = a)) ∧ s'.nextNid = s.nextNid := by
  intro s'
  show (InvW s → InvW s') ∧ _
  simp only [s']
  split
  · rename_i hf
    refine ⟨id, PStep.refl s, fun _ P hz n hn hp => ?_, rfl⟩
    rcases hp with hp | hp
    · exact hz n hn hp
    · exact absurd hp (findNet_none hf n hn)
  · rename_i n hf
    obtain ⟨hn, rfl⟩ := findNet_some' hf
    split
    · rename_i href
      refine ⟨id, PStep.refl s, fun h P hz m hm hp => ?_, rfl⟩
      rcases hp with hp | hp
      · exact hz m hm hp
      · have : m = n := net_unique h.nidNodup hm hn hp
        subst this; intro _; omega
    · split
      · exact ⟨fun h => deleteNetwork_invW h n.id, deleteNetwork_pstep s n.id,
          fun h P hz => deleteNetwork_znet h n.id hz, deleteNetwork_nextNid s n.id⟩
      · rename_i hnz
        refine ⟨id, PStep.refl s, fun h P hz m hm hp => ?_, rfl⟩
        rcases hp with hp | hp
        · exact hz m hm hp
        · have : m = n := net_unique h.nidNodup hm hn hp
          subst this; intro hzz; exact absurd (Or.inl hzz) hnz

theorem deleteSurplusNets_all (s : State) :
    (InvW s → InvW s.deleteSurplusNets) ∧ PStep s s.deleteSurplusNets
      ∧ (InvW s → ∀ P, ZNetOn s P → ZNetOn s.deleteSurplusNets (fun i => P i ∨ i ∈ s.nets.map (·.id)))
      ∧ s.deleteSurplusNets.nextNid = s.nextNid := by
  unfold State.deleteSurplusNets
  have := foldNets (step := fun s nid =>
    match s.findNet nid with
    | none => s
    | some n =>
      if n.ref > 0 ∨ n.nRef > 0 then s
      else if n.zombie ∨ s.nCachedNets > s.nNetsLimit then s.deleteNetwork nid
      else s) (fun s a => surplusNets_step s a) (s.nets.map (·.id)).reverse s
  obtain ⟨a, b, c, d⟩ := this
  refine ⟨a, b, fun h P hz n hn hp => c h P hz n hn ?_, d⟩
  rcases hp with hp | hp
  · exact Or.inl hp
  · exact Or.inr (List.mem_reverse.2 hp)

end Zvbi.Cache
