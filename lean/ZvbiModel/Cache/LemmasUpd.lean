import ZvbiModel.Cache.LemmasFree
/-!
# Page updates that keep the reference status; `delete_page`; the deletion loops
-/
namespace Zvbi.Cache

theorem updPage_invW_same {s : State} (h : InvW s) {p : Page} (hp : p ∈ s.pages) (f : Page → Page)
    (hid : ∀ q, (f q).id = q.id) (hnet : (f p).net = p.net) (hpg : (f p).pgno = p.pgno)
    (hsz : (f p).size = p.size) (hr0 : (f p).ref = 0 ↔ p.ref = 0)
    (hz : (f p).pri = .zombie → 0 < (f p).ref) : InvW (s.updPage p.id f) := by
  have hrp : (0 < (f p).ref) ↔ 0 < p.ref := by omega
  have aux : ∀ q, q ∈ (s.updPage p.id f).pages ↔ ∃ p' ∈ s.pages, q = if p'.id = p.id then f p' else p' := by
    intro q; rw [updPage_pages, mem_updId]
  have aux2 : ∀ p' ∈ s.pages, p'.id = p.id → p' = p := fun p' hp' e => mem_unique h.pidNodup hp' hp e
  constructor
  · rw [updPage_pages, map_id_updId hid]; exact h.pidNodup
  · intro q hq; obtain ⟨p', hp', rfl⟩ := (aux q).1 hq
    have := h.pidLt p' hp'; show _ < s.nextPid; split <;> simpa [hid] using this
  · exact h.priNodup
  · exact h.refNodup
  · intro id; rw [show (s.updPage p.id f).priority = s.priority from rfl, h.priMem]
    constructor
    · rintro ⟨q, hq, rfl, hq0⟩
      refine ⟨_, (aux _).2 ⟨q, hq, rfl⟩, ?_, ?_⟩
      · split <;> simp [hid]
      · split
        · rename_i e; rw [aux2 q hq e] at hq0 ⊢; exact hr0.2 hq0
        · exact hq0
    · rintro ⟨q, hq, rfl, hq0⟩; obtain ⟨p', hp', rfl⟩ := (aux q).1 hq
      refine ⟨p', hp', ?_, ?_⟩
      · split <;> simp [hid]
      · split at hq0
        · rename_i e; rw [aux2 p' hp' e] at hq0 ⊢; exact hr0.1 hq0
        · exact hq0
  · intro id; rw [show (s.updPage p.id f).referenced = s.referenced from rfl, h.refMem]
    constructor
    · rintro ⟨q, hq, rfl, hq0⟩
      refine ⟨_, (aux _).2 ⟨q, hq, rfl⟩, ?_, ?_⟩
      · split <;> simp [hid]
      · split
        · rename_i e; rw [aux2 q hq e] at hq0 ⊢; exact hrp.2 hq0
        · exact hq0
    · rintro ⟨q, hq, rfl, hq0⟩; obtain ⟨p', hp', rfl⟩ := (aux q).1 hq
      refine ⟨p', hp', ?_, ?_⟩
      · split <;> simp [hid]
      · split at hq0
        · rename_i e; rw [aux2 p' hp' e] at hq0 ⊢; exact hrp.1 hq0
        · exact hq0
  · intro q hq hzq; obtain ⟨p', hp', rfl⟩ := (aux q).1 hq
    split at hzq <;> rename_i e
    · rw [if_pos e]; rw [aux2 p' hp' e] at hzq ⊢; exact hz hzq
    · rw [if_neg e]; exact h.zombieRef p' hp' hzq
  · exact h.nidNodup
  · exact h.nidLt
  · intro q hq; obtain ⟨p', hp', rfl⟩ := (aux q).1 hq
    obtain ⟨n, hn, e⟩ := h.netOf p' hp'
    refine ⟨n, hn, ?_⟩
    split
    · rename_i e2; rw [aux2 p' hp' e2] at e ⊢; rw [hnet]; exact e
    · exact e
  · intro n hn; rw [updPage_pages, countP_updId_same h.pidNodup hp (by simp [hnet])]; exact h.nCached n hn
  · intro n hn; rw [updPage_pages, countP_updId_same h.pidNodup hp (by simp [hnet, hrp])]; exact h.nRef n hn
  · intro n hn pg; rw [updPage_pages, countP_updId_same h.pidNodup hp (by simp [hnet, hpg])]; exact h.nSub n hn pg
  · rw [updPage_pages, length_updId]; exact h.nPages
  · have h1 := h.mem
    have h2 := fsum_updId_same h.pidNodup hp (Q := fun q => decide (q.ref = 0)) (g := Page.size) (f := f)
      (by simp only [decide_eq_decide]; exact hr0) hsz
    rw [updPage_pages]; unfold fsum at h2; rw [h2]; exact h1
  · exact h.nNets

theorem updPage_netKey (s : State) (x : Nat) (f : Page → Page) : (s.updPage x f).nets.map netKey = s.nets.map netKey := rfl

/-! ### delete_page -/

theorem findPage_some {s : State} {id : Nat} {p : Page} (h : s.findPage id = some p) : p ∈ s.pages ∧ p.id = id :=
  find_some h

theorem deletePage_invW {s : State} (h : InvW s) (id : Nat) : InvW (s.deletePage id) := by
  unfold State.deletePage
  split
  · exact h
  · rename_i p hf
    obtain ⟨hp, rfl⟩ := findPage_some hf
    split
    · rename_i hr
      split
      · exact updPage_invW_same h hp _ (fun _ => rfl) rfl rfl rfl Iff.rfl (fun _ => hr)
      · exact h
    · exact freePage_invW h hp (by omega)

theorem deletePage_netKey (s : State) (id : Nat) : (s.deletePage id).nets.map netKey = s.nets.map netKey := by
  unfold State.deletePage
  split
  · rfl
  · split
    · split <;> rfl
    · exact freePage_netKey _ _

theorem deletePage_memUsed_le (s : State) (id : Nat) : (s.deletePage id).memUsed ≤ s.memUsed := by
  unfold State.deletePage
  split
  · exact Nat.le_refl _
  · split
    · split <;> exact Nat.le_refl _
    · rw [freePage_memUsed]; split <;> omega

theorem deletePage_memLimit (s : State) (id : Nat) : (s.deletePage id).memLimit = s.memLimit := by
  unfold State.deletePage
  split
  · rfl
  · split
    · split <;> rfl
    · exact freePage_memLimit _ _

theorem deletePage_nextNid (s : State) (id : Nat) : (s.deletePage id).nextNid = s.nextNid := by
  unfold State.deletePage
  split
  · rfl
  · split
    · split <;> rfl
    · exact freePage_nextNid _ _

/-- same page, same content, same reference count (only `pri` may differ) -/
def sameBody (p q : Page) : Prop :=
  p.id = q.id ∧ p.net = q.net ∧ p.pgno = q.pgno ∧ p.subno = q.subno ∧ p.func = q.func ∧ p.x26 = q.x26
    ∧ p.x28 = q.x28 ∧ p.tag = q.tag ∧ p.ref = q.ref

theorem sameBody.rfl' (p : Page) : sameBody p p := ⟨rfl, rfl, rfl, rfl, rfl, rfl, rfl, rfl, rfl⟩
theorem sameBody.trans {a b c : Page} (h1 : sameBody a b) (h2 : sameBody b c) : sameBody a c := by
  obtain ⟨a1, a2, a3, a4, a5, a6, a7, a8, a9⟩ := h1
  obtain ⟨b1, b2, b3, b4, b5, b6, b7, b8, b9⟩ := h2
  exact ⟨a1.trans b1, a2.trans b2, a3.trans b3, a4.trans b4, a5.trans b5, a6.trans b6, a7.trans b7, a8.trans b8, a9.trans b9⟩

/-- what a loop of conditional `delete_page` calls preserves -/
structure Shrinks (s s' : State) : Prop where
  invW : InvW s → InvW s'
  key : s'.nets.map netKey = s.nets.map netKey
  mem : s'.memUsed ≤ s.memUsed
  limit : s'.memLimit = s.memLimit
  nextNid : s'.nextNid = s.nextNid
  nNets : s'.nCachedNets = s.nCachedNets
  nlimit : s'.nNetsLimit = s.nNetsLimit
  nextPid : s'.nextPid = s.nextPid
  /-- pages only disappear -/
  sub : ∀ q ∈ s'.pages, ∃ p ∈ s.pages, sameBody p q
  /-- unreferenced pages keep their priority class -/
  subPri : InvW s → ∀ q ∈ s'.pages, q.ref = 0 → ∃ p ∈ s.pages, sameBody p q ∧ p.pri = q.pri
  /-- and never a referenced one -/
  keep : InvW s → ∀ p ∈ s.pages, 0 < p.ref → ∃ q ∈ s'.pages, sameBody p q

theorem Shrinks.refl (s : State) : Shrinks s s :=
  ⟨id, rfl, Nat.le_refl _, rfl, rfl, rfl, rfl, rfl, fun q hq => ⟨q, hq, sameBody.rfl' q⟩,
   fun _ q hq _ => ⟨q, hq, sameBody.rfl' q, rfl⟩, fun _ p hp _ => ⟨p, hp, sameBody.rfl' p⟩⟩
theorem Shrinks.trans {a b c : State} (h1 : Shrinks a b) (h2 : Shrinks b c) : Shrinks a c :=
  ⟨fun h => h2.invW (h1.invW h), h2.key.trans h1.key, Nat.le_trans h2.mem h1.mem, h2.limit.trans h1.limit,
   h2.nextNid.trans h1.nextNid, h2.nNets.trans h1.nNets, h2.nlimit.trans h1.nlimit, h2.nextPid.trans h1.nextPid,
   fun q hq => by
     obtain ⟨p, hp, e⟩ := h2.sub q hq; obtain ⟨p0, hp0, e0⟩ := h1.sub p hp; exact ⟨p0, hp0, e0.trans e⟩,
   fun h q hq hr => by
     obtain ⟨p, hp, e, ep⟩ := h2.subPri (h1.invW h) q hq hr
     obtain ⟨p0, hp0, e0, ep0⟩ := h1.subPri h p hp (e.2.2.2.2.2.2.2.2.trans hr)
     exact ⟨p0, hp0, e0.trans e, ep0.trans ep⟩,
   fun h p hp hr => by
     obtain ⟨q, hq, e⟩ := h1.keep h p hp hr
     obtain ⟨q2, hq2, e2⟩ := h2.keep (h1.invW h) q hq (by rw [← e.2.2.2.2.2.2.2.2]; exact hr)
     exact ⟨q2, hq2, e.trans e2⟩⟩

theorem deletePage_nCachedNets (s : State) (id : Nat) : (s.deletePage id).nCachedNets = s.nCachedNets := by
  unfold State.deletePage
  split
  · rfl
  · split
    · split <;> rfl
    · exact freePage_nCachedNets _ _

theorem deletePage_nNetsLimit (s : State) (id : Nat) : (s.deletePage id).nNetsLimit = s.nNetsLimit := by
  unfold State.deletePage
  split
  · rfl
  · split
    · split <;> rfl
    · unfold State.freePage; split <;> rfl

theorem deletePage_nextPid (s : State) (id : Nat) : (s.deletePage id).nextPid = s.nextPid := by
  unfold State.deletePage
  split
  · rfl
  · split
    · split <;> rfl
    · exact freePage_nextPid _ _

theorem deletePage_sub (s : State) (id : Nat) : ∀ q ∈ (s.deletePage id).pages, ∃ p ∈ s.pages, sameBody p q := by
  unfold State.deletePage
  split
  · exact fun q hq => ⟨q, hq, sameBody.rfl' q⟩
  · split
    · split
      · intro q hq; rw [updPage_pages, mem_updId] at hq; obtain ⟨p, hp, rfl⟩ := hq
        refine ⟨p, hp, ?_⟩; split
        · exact ⟨rfl, rfl, rfl, rfl, rfl, rfl, rfl, rfl, rfl⟩
        · exact sameBody.rfl' p
      · exact fun q hq => ⟨q, hq, sameBody.rfl' q⟩
    · intro q hq; rw [freePage_pages, mem_rmId] at hq; exact ⟨q, hq.1, sameBody.rfl' q⟩

theorem deletePage_subPri {s : State} (h : InvW s) (id : Nat) :
    ∀ q ∈ (s.deletePage id).pages, q.ref = 0 → ∃ p ∈ s.pages, sameBody p q ∧ p.pri = q.pri := by
  unfold State.deletePage
  split
  · exact fun q hq _ => ⟨q, hq, sameBody.rfl' q, rfl⟩
  · rename_i v hf
    obtain ⟨hv, rfl⟩ := findPage_some hf
    split
    · rename_i hr
      split
      · intro q hq hq0; rw [updPage_pages, mem_updId] at hq; obtain ⟨p, hp, rfl⟩ := hq
        split at hq0
        · rename_i e2
          have : p = v := mem_unique h.pidNodup hp hv e2
          subst this
          have : p.ref = 0 := hq0
          omega
        · rename_i e2; rw [if_neg e2]; exact ⟨p, hp, sameBody.rfl' p, rfl⟩
      · exact fun q hq _ => ⟨q, hq, sameBody.rfl' q, rfl⟩
    · intro q hq _; rw [freePage_pages, mem_rmId] at hq; exact ⟨q, hq.1, sameBody.rfl' q, rfl⟩

theorem deletePage_keep {s : State} (h : InvW s) (id : Nat) :
    ∀ p ∈ s.pages, 0 < p.ref → ∃ q ∈ (s.deletePage id).pages, sameBody p q := by
  unfold State.deletePage
  split
  · exact fun p hp _ => ⟨p, hp, sameBody.rfl' p⟩
  · rename_i v hf
    obtain ⟨hv, rfl⟩ := findPage_some hf
    split
    · split
      · intro p hp _
        refine ⟨_, (by rw [updPage_pages, mem_updId]; exact ⟨p, hp, rfl⟩), ?_⟩
        split
        · exact ⟨rfl, rfl, rfl, rfl, rfl, rfl, rfl, rfl, rfl⟩
        · exact sameBody.rfl' p
      · exact fun p hp _ => ⟨p, hp, sameBody.rfl' p⟩
    · rename_i hr
      intro p hp hpr
      refine ⟨p, ?_, sameBody.rfl' p⟩
      rw [freePage_pages, mem_rmId]; refine ⟨hp, fun e => ?_⟩
      have := mem_unique h.pidNodup hp hv e; subst this; omega

theorem Shrinks.deletePage (s : State) (id : Nat) : Shrinks s (s.deletePage id) :=
  ⟨fun h => deletePage_invW h id, deletePage_netKey s id, deletePage_memUsed_le s id, deletePage_memLimit s id,
   deletePage_nextNid s id, deletePage_nCachedNets s id, deletePage_nNetsLimit s id, deletePage_nextPid s id,
   deletePage_sub s id, fun h => deletePage_subPri h id, fun h => deletePage_keep h id⟩

theorem deleteAllPages_shrinks (s : State) (nid : Nat) : Shrinks s (s.deleteAllPages nid) := by
  unfold State.deleteAllPages
  generalize s.priority = ids
  induction ids generalizing s with
  | nil => exact Shrinks.refl s
  | cons a t ih =>
    rw [List.foldl_cons]
    refine Shrinks.trans ?_ (ih _)
    split
    · split
      · exact Shrinks.deletePage s a
      · exact Shrinks.refl s
    · exact Shrinks.refl s

theorem surplusPass_shrinks (pri : Pri) (chk : Bool) (ids : List Nat) (s : State) :
    Shrinks s (surplusPass pri chk ids s).1 := by
  induction ids generalizing s with
  | nil => exact Shrinks.refl s
  | cons a t ih =>
    unfold surplusPass
    split
    · exact Shrinks.refl s
    · split
      · split
        · exact Shrinks.trans (Shrinks.deletePage s a) (ih _)
        · exact ih _
      · exact ih _

theorem surplusPass_done {pri : Pri} {chk : Bool} {ids : List Nat} {s : State}
    (h : (surplusPass pri chk ids s).2 = true) :
    (surplusPass pri chk ids s).1.memUsed ≤ (surplusPass pri chk ids s).1.memLimit := by
  induction ids generalizing s with
  | nil => simp [surplusPass] at h
  | cons a t ih =>
    unfold surplusPass at h ⊢
    split
    · rename_i hle; exact hle
    · rename_i hle
      simp only [hle, if_false] at h
      split
      · split
        · rename_i h1 h2; simp only [h1, h2, if_true] at h; exact ih h
        · rename_i h1 h2; simp only [h1, h2, if_false] at h; exact ih h
      · rename_i h1; simp only [h1] at h; exact ih h

/-- a complete pass (no early return) without the network test leaves no unreferenced page of class `pri`
    among the pages it walked over -/
theorem surplusPass_clean (pri : Pri) (ids : List Nat) (s : State) (h : InvW s)
    (hf : (surplusPass pri false ids s).2 = false) :
    ∀ id ∈ ids, ∀ q ∈ (surplusPass pri false ids s).1.pages, q.id = id → q.ref = 0 → q.pri ≠ pri := by
  induction ids generalizing s with
  | nil => intro id hid; cases hid
  | cons a t ih =>
    intro id hid q hq e hq0
    unfold surplusPass at hf hq
    split at hf
    · cases hf
    · rename_i hle
      rw [if_neg hle] at hq
      -- the state after the body for `a`
      have body : ∀ (s1 : State), Shrinks s s1 →
          (∀ q1 ∈ s1.pages, q1.id = a → q1.ref = 0 → q1.pri ≠ pri) →
          (surplusPass pri false t s1).2 = false →
          q ∈ (surplusPass pri false t s1).1.pages → q.pri ≠ pri := by
        intro s1 sh hclean hf1 hq1
        rcases List.mem_cons.1 hid with rfl | hid'
        · obtain ⟨p1, hp1, b1, bp⟩ := (surplusPass_shrinks pri false t s1).subPri (sh.invW h) q hq1 hq0
          rw [← bp]; exact hclean p1 hp1 (b1.1.trans e) (b1.2.2.2.2.2.2.2.2.trans hq0)
        · exact ih s1 (sh.invW h) hf1 id hid' q hq1 e hq0
      split at hf
      · rename_i p hfp
        obtain ⟨hp, rfl⟩ := findPage_some hfp
        simp only [hfp] at hq
        split at hf
        · rename_i hc
          rw [if_pos hc] at hq
          refine body _ (Shrinks.deletePage s p.id) ?_ hf hq
          intro q1 hq1 e1 h10
          obtain ⟨p0, hp0, b0⟩ := deletePage_sub s p.id q1 hq1
          have : p0 = p := mem_unique h.pidNodup hp0 hp (b0.1.trans e1)
          subst this
          have hr0 : p0.ref = 0 := b0.2.2.2.2.2.2.2.2.trans h10
          exfalso
          unfold State.deletePage at hq1; rw [hfp] at hq1; simp only at hq1
          rw [if_neg (by omega)] at hq1
          rw [freePage_pages, mem_rmId] at hq1; exact hq1.2 e1
        · rename_i hc
          rw [if_neg hc] at hq
          refine body s (Shrinks.refl s) ?_ hf hq
          intro q1 hq1 e1 _ hpri
          have : q1 = p := mem_unique h.pidNodup hq1 hp e1
          subst this
          exact hc ⟨hpri, by simp⟩
      · rename_i hfn
        simp only [hfn] at hq
        refine body s (Shrinks.refl s) ?_ hf hq
        intro q1 hq1 e1; exact absurd e1 (find_none hfn q1 hq1)

theorem deleteSurplusPages_shrinks (s : State) : Shrinks s s.deleteSurplusPages := by
  unfold State.deleteSurplusPages
  have p1 := surplusPass_shrinks .normal true s.priority s
  generalize surplusPass .normal true s.priority s = r1 at p1 ⊢
  obtain ⟨s1, d1⟩ := r1
  simp only
  split
  · exact p1
  · have p2 := surplusPass_shrinks .special true s1.priority s1
    generalize surplusPass .special true s1.priority s1 = r2 at p2 ⊢
    obtain ⟨s2, d2⟩ := r2
    simp only
    split
    · exact p1.trans p2
    · have p3 := surplusPass_shrinks .normal false s2.priority s2
      generalize surplusPass .normal false s2.priority s2 = r3 at p3 ⊢
      obtain ⟨s3, d3⟩ := r3
      simp only
      split
      · exact (p1.trans p2).trans p3
      · exact ((p1.trans p2).trans p3).trans (surplusPass_shrinks .special false s3.priority s3)

end Zvbi.Cache

namespace Zvbi.Cache

/-- two complete passes without the network test free every unreferenced page -/
theorem surplus_two_passes {s2 : State} (h2 : InvW s2)
    (hd3 : (surplusPass .normal false s2.priority s2).2 = false)
    (hd4 : (surplusPass .special false (surplusPass .normal false s2.priority s2).1.priority
              (surplusPass .normal false s2.priority s2).1).2 = false) :
    (surplusPass .special false (surplusPass .normal false s2.priority s2).1.priority
              (surplusPass .normal false s2.priority s2).1).1.memUsed = 0 := by
  have sh3 := surplusPass_shrinks .normal false s2.priority s2
  have c3 := surplusPass_clean .normal s2.priority s2 h2 hd3
  generalize (surplusPass .normal false s2.priority s2).1 = s3 at sh3 c3 hd4 ⊢
  have h3 := sh3.invW h2
  have sh4 := surplusPass_shrinks .special false s3.priority s3
  have c4 := surplusPass_clean .special s3.priority s3 h3 hd4
  generalize (surplusPass .special false s3.priority s3).1 = s4 at sh4 c4 ⊢
  have h4 := sh4.invW h3
  have none0 : ∀ q ∈ s4.pages, ¬ q.ref = 0 := by
    intro q hq hq0
    obtain ⟨p3, hp3, b3, bp3⟩ := sh4.subPri h3 q hq hq0
    have hp30 : p3.ref = 0 := b3.2.2.2.2.2.2.2.2.trans hq0
    have m3 : p3.id ∈ s3.priority := (h3.priMem p3.id).2 ⟨p3, hp3, rfl, hp30⟩
    have n1 : q.pri ≠ .special := c4 p3.id m3 q hq b3.1.symm hq0
    obtain ⟨p2, hp2, b2⟩ := sh3.sub p3 hp3
    have hp20 : p2.ref = 0 := b2.2.2.2.2.2.2.2.2.trans hp30
    have m2 : p2.id ∈ s2.priority := (h2.priMem p2.id).2 ⟨p2, hp2, rfl, hp20⟩
    have n2 : p3.pri ≠ .normal := c3 p2.id m2 p3 hp3 b2.1.symm hp30
    have n3 : q.pri ≠ .zombie := fun e => by have := h4.zombieRef q hq e; omega
    rw [bp3] at n2
    cases hpri : q.pri <;> simp_all
  rw [h4.mem]
  have : s4.pages.filter (fun p => decide (p.ref = 0)) = [] := by
    rw [List.filter_eq_nil_iff]; intro q hq; simpa using none0 q hq
  rw [this]; rfl

/-- `delete_surplus_pages` ends with the memory within the limit -/
theorem deleteSurplusPages_le {s : State} (h : InvW s) :
    s.deleteSurplusPages.memUsed ≤ s.deleteSurplusPages.memLimit := by
  unfold State.deleteSurplusPages
  have p1 := surplusPass_shrinks .normal true s.priority s
  have d1 := @surplusPass_done .normal true s.priority s
  generalize surplusPass .normal true s.priority s = r1 at p1 d1 ⊢
  obtain ⟨s1, f1⟩ := r1
  simp only
  split
  · rename_i hf; exact d1 hf
  · have h1 := p1.invW h
    have p2 := surplusPass_shrinks .special true s1.priority s1
    have d2 := @surplusPass_done .special true s1.priority s1
    generalize surplusPass .special true s1.priority s1 = r2 at p2 d2 ⊢
    obtain ⟨s2, f2⟩ := r2
    simp only
    split
    · rename_i hf; exact d2 hf
    · have h2 := p2.invW h1
      have d3 := @surplusPass_done .normal false s2.priority s2
      have t := @surplus_two_passes s2 h2
      generalize hr3 : surplusPass .normal false s2.priority s2 = r3 at d3 t ⊢
      obtain ⟨s3, f3⟩ := r3
      simp only
      split
      · rename_i hf; exact d3 hf
      · rename_i hf3
        have d4 := @surplusPass_done .special false s3.priority s3
        simp only at t
        by_cases hf4 : (surplusPass .special false s3.priority s3).2 = true
        · exact d4 hf4
        · have := t (by simpa using hf3) (by simpa using hf4)
          rw [this]; exact Nat.zero_le _

end Zvbi.Cache
