import ZvbiModel.Cache.LemmasNets4
/-!
# add_network / recycle_network
-/
namespace Zvbi.Cache

/-- a network no page points to is unlinked -/
theorem removeNet_invW {s1 : State} (h1 : InvW s1) {n1 : Net} (hn1 : n1 ∈ s1.nets)
    (hnone : ∀ q ∈ s1.pages, q.net ≠ n1.id) :
    InvW { s1 with nCachedNets := s1.nCachedNets - (if n1.zombie then 0 else 1),
                   nets := s1.nets.filter (fun m => decide (m.id ≠ n1.id)) } := by
  have key := countP_filter_nid h1.nidNodup hn1 (fun n => !n.zombie)
  have hmem : ∀ m, m ∈ s1.nets.filter (fun m => decide (m.id ≠ n1.id)) ↔ m ∈ s1.nets ∧ m.id ≠ n1.id := by
    intro m; simp
  have hcnt := h1.nNets
  refine ⟨h1.pidNodup, h1.pidLt, h1.priNodup, h1.refNodup, h1.priMem, h1.refMem, h1.zombieRef, ?_, ?_, ?_, ?_, ?_, ?_,
    h1.nPages, h1.mem, ?_⟩
  · show ((s1.nets.filter _).map (·.id)).Nodup
    rw [map_id_filter_nid]; exact h1.nidNodup.filter _
  · intro m hm; exact h1.nidLt m ((hmem m).1 hm).1
  · intro q hq; obtain ⟨m, hm, e⟩ := h1.netOf q hq
    exact ⟨m, (hmem m).2 ⟨hm, fun x => hnone q hq (e.symm.trans x)⟩, e⟩
  · intro m hm; exact h1.nCached m ((hmem m).1 hm).1
  · intro m hm; exact h1.nRef m ((hmem m).1 hm).1
  · intro m hm; exact h1.nSub m ((hmem m).1 hm).1
  · show s1.nCachedNets - _ = (s1.nets.filter _).countP _
    by_cases hz : n1.zombie = true
    · simp only [hz, Bool.not_true, Bool.false_eq_true, if_false, if_true] at key ⊢; omega
    · have hz' : n1.zombie = false := by simpa using hz
      simp only [hz', Bool.not_false, if_true, Bool.false_eq_true, if_false] at key ⊢; omega

/-- a network record without pages is linked at the head of the list -/
theorem consNet_invW {s0 : State} (h0 : InvW s0) (n' : Net) (k : Nat)
    (hk : s0.nextNid ≤ k) (hid : n'.id < k) (hnew : ∀ m ∈ s0.nets, m.id ≠ n'.id)
    (hnone : ∀ q ∈ s0.pages, q.net ≠ n'.id) (hc : n'.nCached = 0) (hr : n'.nRef = 0)
    (hs : ∀ pg, (n'.getStat pg).nSub = 0) (c : Nat) (hcnt : c = s0.nCachedNets + (if n'.zombie then 0 else 1)) :
    InvW { s0 with nextNid := k, nCachedNets := c, nets := n' :: s0.nets } := by
  subst hcnt
  have zero : ∀ (P : Page → Bool), (∀ q ∈ s0.pages, P q = true → q.net = n'.id) → s0.pages.countP P = 0 := by
    intro P hP; rw [List.countP_eq_zero]; intro q hq hpq; exact hnone q hq (hP q hq hpq)
  refine ⟨h0.pidNodup, h0.pidLt, h0.priNodup, h0.refNodup, h0.priMem, h0.refMem, h0.zombieRef, ?_, ?_, ?_, ?_, ?_, ?_,
    h0.nPages, h0.mem, ?_⟩
  · show ((n' :: s0.nets).map (·.id)).Nodup
    rw [List.map_cons, List.nodup_cons]
    refine ⟨?_, h0.nidNodup⟩
    intro hm; obtain ⟨m, hm, e⟩ := List.mem_map.1 hm; exact hnew m hm e
  · intro m hm
    show m.id < k
    rcases List.mem_cons.1 hm with rfl | hm
    · exact hid
    · have := h0.nidLt m hm; omega
  · intro q hq; obtain ⟨m, hm, e⟩ := h0.netOf q hq; exact ⟨m, List.mem_cons_of_mem _ hm, e⟩
  · intro m hm
    rcases List.mem_cons.1 hm with rfl | hm
    · rw [hc]; exact (zero _ (fun q _ hq => by simpa using hq)).symm
    · exact h0.nCached m hm
  · intro m hm
    rcases List.mem_cons.1 hm with rfl | hm
    · rw [hr]; exact (zero _ (fun q _ hq => by simp at hq; exact hq.1)).symm
    · exact h0.nRef m hm
  · intro m hm pg
    rcases List.mem_cons.1 hm with rfl | hm
    · rw [hs, zero _ (fun q _ hq => by simp at hq; exact hq.1)]
    · exact h0.nSub m hm pg
  · show s0.nCachedNets + _ = (n' :: s0.nets).countP _
    rw [List.countP_cons, h0.nNets]
    by_cases hz : n'.zombie = true
    · simp [hz]
    · have hz' : n'.zombie = false := by simpa using hz
      simp [hz']

theorem consNet_znet {s0 : State} {P : Nat → Prop} (hz : ZNetOn s0 P) (n' : Net) (k c : Nat) (hn : ZOk n') :
    ZNetOn { s0 with nextNid := k, nCachedNets := c, nets := n' :: s0.nets } P := by
  intro m hm hp
  rcases List.mem_cons.1 hm with rfl | hm
  · exact hn
  · exact hz m hm hp

theorem getStat_default (x : Nat) (pg : Nat) : (({ id := x } : Net).getStat pg).nSub = 0 := rfl

/-- what `recycle_network` returns -/
theorem recycle_all {s : State} (h : InvW s) (hz : ZNet s) {s1 : State} {n : Net} (hr : s.recycleNetwork = some (s1, n)) :
    ∃ s0, InvW s0 ∧ ZNet s0 ∧ PStep s s0 ∧ s0.nextNid = s.nextNid
      ∧ s1 = { s0 with nCachedNets := s0.nCachedNets + 1 }
      ∧ (∀ m ∈ s0.nets, m.id ≠ n.id) ∧ (∀ q ∈ s0.pages, q.net ≠ n.id)
      ∧ n.id < s.nextNid ∧ n.ref = 0 ∧ n.zombie = false ∧ n.nCached = 0 ∧ n.nRef = 0
      ∧ (∀ pg, (n.getStat pg).nSub = 0) := by
  unfold State.recycleNetwork at hr
  split at hr
  · cases hr
  · rename_i n0 hfind
    have hn0 : n0 ∈ s.nets := List.mem_reverse.1 (List.mem_of_find?_eq_some hfind)
    have hn0p := List.find?_some hfind
    simp only [decide_eq_true_eq] at hn0p
    have sh : Shrinks s (if n0.nCached > 0 then s.deleteAllPages n0.id else s) := by
      split
      · exact deleteAllPages_shrinks s n0.id
      · exact Shrinks.refl s
    have hcomplete : ∀ q ∈ (if n0.nCached > 0 then s.deleteAllPages n0.id else s).pages, q.net = n0.id → 0 < q.ref := by
      split
      · exact deleteAllPages_complete h n0.id
      · rename_i hc
        intro q hq hnet
        have h1 := h.nCached n0 hn0
        have : 0 < s.pages.countP (fun p => decide (p.net = n0.id)) :=
          List.countP_pos_iff.2 ⟨q, hq, by simpa using hnet⟩
        omega
    generalize (if n0.nCached > 0 then s.deleteAllPages n0.id else s) = sA at sh hcomplete hr
    have hA := sh.invW h
    have zA : ZNet sA := znet_of_key sh.key hz
    simp only at hr
    split at hr
    · cases hr
    · rename_i n1 hf1
      obtain ⟨hn1, e1⟩ := findNet_some' hf1
      simp only [Option.some.injEq, Prod.mk.injEq] at hr
      obtain ⟨rfl, rfl⟩ := hr
      -- key fields of n1 = those of n0
      obtain ⟨m, hm, ek⟩ := mem_of_key sh.key hn1
      simp only [netKey, Prod.mk.injEq] at ek
      obtain ⟨k1, k2, k3, k4⟩ := ek
      have : m = n0 := net_unique h.nidNodup hm hn0 (k1.trans e1)
      subst this
      have hnz : n1.zombie = false := by
        have := zA n1 hn1 trivial
        cases hzz : n1.zombie
        · rfl
        · have := this hzz; omega
      have hnone : ∀ q ∈ sA.pages, q.net ≠ n1.id := by
        intro q hq hnet
        have hr' := hA.nRef n1 hn1
        have : 0 < sA.pages.countP (fun p => decide (p.net = n1.id ∧ 0 < p.ref)) :=
          List.countP_pos_iff.2 ⟨q, hq, by simpa using ⟨hnet, hcomplete q hq (hnet.trans e1)⟩⟩
        omega
      have h0 := removeNet_invW hA hn1 hnone
      simp only [hnz, Bool.false_eq_true, if_false] at h0
      have hpos : 0 < sA.nCachedNets := by
        have := hA.nNets
        have : 0 < sA.nets.countP (fun n => !n.zombie) := List.countP_pos_iff.2 ⟨n1, hn1, by simp [hnz]⟩
        omega
      refine ⟨_, h0, ?_, ?_, sh.nextNid, ?_, ?_, hnone, ?_, rfl, rfl, rfl, rfl, ?_⟩
      · intro m hm hp
        have hm' : m ∈ sA.nets.filter (fun m => decide (m.id ≠ n1.id)) := hm
        simp only [List.mem_filter] at hm'
        exact zA m hm'.1 hp
      · exact ⟨sh.sub, sh.keep, sh.mem, sh.limit, sh.nlimit⟩
      · show _ = ({ sA with nCachedNets := sA.nCachedNets - 1 + 1, nets := _ } : State)
        have : sA.nCachedNets - 1 + 1 = sA.nCachedNets := by omega
        rw [this]
      · intro m hm
        have hm' : m ∈ sA.nets.filter (fun m => decide (m.id ≠ n1.id)) := hm
        simp only [List.mem_filter, decide_eq_true_eq] at hm'
        exact hm'.2
      · show n1.id < s.nextNid
        rw [← sh.nextNid]; exact hA.nidLt n1 hn1
      · intro pg
        show (n1.getStat pg).nSub = 0
        rw [hA.nSub n1 hn1 pg]
        have : sA.pages.countP (fun p => decide (p.net = n1.id ∧ p.pgno = pg)) = 0 := by
          rw [List.countP_eq_zero]; intro q hq hc; simp at hc; exact hnone q hq hc.1
        rw [this]

/-- `_vbi_cache_add_network (ca, NULL, ...)` -/
theorem addNetwork_all {s : State} (h : InvW s) (hz : ZNet s) :
    InvW s.addNetwork.1 ∧ ZNet s.addNetwork.1 ∧ PStep s s.addNetwork.1 ∧ s.nextNid ≤ s.addNetwork.1.nextNid
      ∧ (∃ n ∈ s.addNetwork.1.nets, n.id = s.addNetwork.2 ∧ 0 < n.ref ∧ n.nCached = 0)
      ∧ (∀ q ∈ s.addNetwork.1.pages, q.net ≠ s.addNetwork.2) := by
  have fresh : ∀ (hh : True),
      let s' : State := { s with nextNid := s.nextNid + 1, nCachedNets := s.nCachedNets + 1,
                                 nets := { id := s.nextNid, ref := 0 + 1 } :: s.nets }
      InvW s' ∧ ZNet s' ∧ PStep s s' ∧ s.nextNid ≤ s'.nextNid
        ∧ (∃ n ∈ s'.nets, n.id = s.nextNid ∧ 0 < n.ref ∧ n.nCached = 0) ∧ (∀ q ∈ s'.pages, q.net ≠ s.nextNid) := by
    intro _ s'
    have hnone : ∀ q ∈ s.pages, q.net ≠ s.nextNid := by
      intro q hq e; obtain ⟨m, hm, e2⟩ := h.netOf q hq; have := h.nidLt m hm; omega
    refine ⟨?_, ?_, ⟨fun q hq => ⟨q, hq, sameBody.rfl' q⟩, fun _ p hp _ => ⟨p, hp, sameBody.rfl' p⟩, Nat.le_refl _, rfl, rfl⟩,
      Nat.le_succ _, ⟨_, List.mem_cons_self, rfl, Nat.zero_lt_one, rfl⟩, hnone⟩
    · exact consNet_invW h { id := s.nextNid, ref := 0 + 1 } (s.nextNid + 1) (Nat.le_succ _) (Nat.lt_succ_self _)
        (fun m hm e => by have := h.nidLt m hm; have e' : m.id = s.nextNid := e; omega) hnone rfl rfl (fun pg => rfl) _ rfl
    · exact consNet_znet hz _ _ _ (fun hc => by cases hc)
  unfold State.addNetwork
  simp only
  split
  · exact fresh trivial
  · split
    · exact fresh trivial
    · rename_i r hr
      obtain ⟨s1, n⟩ := r
      obtain ⟨s0, h0, z0, p0, e0, rfl, hnew, hnone, hlt, hr0, hzf, hc0, hnr0, hs0⟩ := recycle_all h hz hr
      have hgs : ∀ pg, (({ n with ref := n.ref + 1 } : Net).getStat pg).nSub = 0 := fun pg => hs0 pg
      refine ⟨?_, ?_, ?_, ?_, ⟨_, List.mem_cons_self, rfl, Nat.succ_pos _, hc0⟩, hnone⟩
      · have := consNet_invW h0 { n with ref := n.ref + 1 } s0.nextNid (Nat.le_refl _) (by rw [e0]; exact hlt) hnew hnone hc0 hnr0
          hgs (s0.nCachedNets + 1) (by show _ = _ + (if n.zombie = true then 0 else 1); rw [hzf]; rfl)
        exact this
      · exact consNet_znet z0 _ _ _ (fun hc => by rw [show ({ n with ref := n.ref + 1 } : Net).zombie = n.zombie from rfl, hzf] at hc; cases hc)
      · exact ⟨p0.sub, p0.keep, p0.mem, p0.limit, p0.nlimit⟩
      · show s.nextNid ≤ s0.nextNid; omega

end Zvbi.Cache
