import ZvbiModel.Cache.LemmasPut2
/-!
# every operation keeps the invariant
-/
namespace Zvbi.Cache

/-- working form of `Inv` -/
def Good (s : State) : Prop := InvW s ∧ ZNet s ∧ s.memUsed ≤ s.memLimit

theorem inv_iff_good {s : State} : Inv s ↔ Good s := by
  constructor
  · intro h; have := invCore_iff.1 h.toInvCore; exact ⟨this.1, this.2, h.memLe⟩
  · rintro ⟨a, b, c⟩; exact ⟨invCore_iff.2 ⟨a, b⟩, c⟩

theorem memCheck_le {s : State} (h : InvW s) : s.memCheck.memUsed ≤ s.memCheck.memLimit := by
  unfold State.memCheck
  split
  · exact deleteSurplusPages_le h
  · omega

theorem good_pageUnref {s : State} (g : Good s) (id : Nat) : Good (s.pageUnref id) := by
  obtain ⟨h, hz, hm⟩ := g
  obtain ⟨a, b, c⟩ := pageUnref_all h hz id
  refine ⟨a, b, ?_⟩
  unfold State.pageUnref at *
  split
  · exact hm
  · rename_i p hf
    obtain ⟨hp, rfl⟩ := findPage_some hf
    split
    · exact hm
    · split
      · rename_i hr1
        unfold State.unrefTail
        split
        · rename_i hzp
          exact memCheck_le (unrefNetCheck_all (unrefZombie_invW h hp hr1 hzp) p.net (unrefZombie_znet h hz hp hzp)).1
        · rename_i hzp
          exact memCheck_le (unrefNetCheck_all (unrefLast_invW h hp hr1 hzp) p.net (unrefLast_znet hz p)).1
      · exact hm

theorem good_getPage {s : State} (g : Good s) (nid pgno : Nat) (subno : Int) (mask : Nat) :
    Good (s.getPage nid pgno subno mask).1 := by
  obtain ⟨h, hz, hm⟩ := g
  obtain ⟨a, b, c, d⟩ := getPage_all h hz nid pgno subno mask
  exact ⟨a, b, by rw [d]; omega⟩

theorem good_lookupExact {s : State} (g : Good s) (nid pgno : Nat) (subno : Int) :
    Good (s.lookupExact nid pgno subno).1 := by
  obtain ⟨h, hz, hm⟩ := g
  obtain ⟨a, b, c, d⟩ := lookupExact_all h hz nid pgno subno
  exact ⟨a, b, by rw [d]; omega⟩

theorem good_pageRef {s : State} (g : Good s) (id : Nat) : Good (s.pageRef id) := by
  obtain ⟨h, hz, hm⟩ := g
  obtain ⟨a, b, c, d⟩ := pageRef_all h hz id
  exact ⟨a, b, by rw [d]; omega⟩

theorem good_putPage {s : State} (g : Good s) (nid : Nat) (a : PutArg) {s' : State} {r : Option Page}
    (hres : s.putPage nid a = .ok (s', r)) : Good s' := by
  obtain ⟨h, hz, hm⟩ := g
  obtain ⟨a, b, c, d⟩ := putPage_all h hz nid a hres
  exact ⟨a, b, by rw [d]; omega⟩

theorem good_of_pstep {s s' : State} (g : Good s) (hi : InvW s') (hz : ZNet s') (p : PStep s s') : Good s' :=
  ⟨hi, hz, by rw [p.limit]; exact Nat.le_trans p.mem g.2.2⟩

theorem good_walkVisit {s : State} (g : Good s) (cp : Option Page) (wrapped : Bool) (vs : List Visit) :
    Good (walkVisit s cp wrapped vs).1 := by
  unfold walkVisit
  split
  · exact good_pageUnref g _
  · exact g

theorem good_walkLoop (nid : Nat) (dir : Int) (stop : Nat) :
    ∀ (fuel : Nat) (s : State) (cp : Option Page) (pgno : Nat) (subno : Int) (wrapped : Bool) (vs : List Visit),
      Good s → Good (walkLoop nid dir stop fuel s cp pgno subno wrapped vs).1 := by
  intro fuel
  induction fuel with
  | zero => intro s cp pgno subno wrapped vs g; exact g
  | succ k ih =>
    intro s cp pgno subno wrapped vs g
    unfold walkLoop
    have g1 := good_walkVisit g cp wrapped vs
    generalize walkVisit s cp wrapped vs = r at g1
    simp only
    split
    · exact g1
    · split
      · exact g1
      · split
        · exact g1
        · exact g1
        · exact ih _ _ _ _ _ _ (good_lookupExact g1 _ _ _)

/-- both shapes of the start look-up -/
theorem good_foreachS (exact : Bool) {s : State} (g : Good s) (nid pgno subno : Nat) (dir : Int) (stop fuel : Nat) :
    Good (s.foreachPageS exact nid pgno subno dir stop fuel).1 := by
  unfold State.foreachPageS
  split
  · exact g
  · split
    · exact g
    · split
      · refine good_walkLoop _ _ _ _ _ _ _ _ _ _ ?_
        split
        · exact good_lookupExact g _ _ _
        · exact g
      · exact good_walkLoop _ _ _ _ _ _ _ _ _ _ (good_getPage g _ _ _ _)

theorem good_foreach {s : State} (g : Good s) (nid pgno subno : Nat) (dir : Int) (stop fuel : Nat) :
    Good (s.foreachPage nid pgno subno dir stop fuel).1 := good_foreachS _ g _ _ _ _ _ _

theorem good_step {s : State} (g : Good s) (op : Op) : Good (step s op).1 := by
  obtain ⟨h, hz, hm⟩ := g
  have g : Good s := ⟨h, hz, hm⟩
  cases op with
  | put nid a =>
    unfold step; simp only
    split
    · rename_i s' p hres; exact good_putPage g nid a hres
    · exact g
  | get nid pgno subno mask =>
    unfold step; simp only
    split
    · exact g
    · exact good_getPage g _ _ _ _
  | ref pid =>
    unfold step; simp only
    split
    · exact g
    · split
      · exact g
      · exact good_pageRef g _
  | unref pid =>
    unfold step; simp only
    split
    · exact g
    · split
      · exact g
      · exact good_pageUnref g _
  | isCached nid pgno subno =>
    unfold step; simp only
    split
    · exact g
    · have g1 := good_getPage g nid pgno subno 0xFFFFFFFF
      split
      · rename_i s' p hh; rw [hh] at g1; exact good_pageUnref g1 _
      · rename_i s' hh; rw [hh] at g1; exact g1
  | hiSubno nid pgno =>
    unfold step; simp only
    split
    · exact g
    · split <;> exact g
  | «foreach» nid pgno subno back stop =>
    unfold step; simp only
    split
    · exact g
    · split
      · exact g
      · exact good_foreach g _ _ _ _ _ _
  | addNet =>
    unfold step; simp only
    obtain ⟨a, b, c, _⟩ := addNetwork_all h hz
    exact good_of_pstep g a b c
  | netRef nid =>
    unfold step; simp only
    split
    · exact g
    · obtain ⟨a, b⟩ := netRef_all h hz nid
      exact ⟨a, b, hm⟩
  | netUnref nid =>
    unfold step; simp only
    split
    · exact g
    · obtain ⟨a, b, c, _⟩ := netUnref_all h hz nid
      exact good_of_pstep g a b c
  | chsw nid =>
    unfold step; simp only
    split
    · exact g
    · obtain ⟨a, b, c, _⟩ := netUnref_all h hz nid
      have g1 := good_of_pstep g a b c
      obtain ⟨a2, b2, c2, _, ⟨n, hn, e1, _, e3⟩, _⟩ := addNetwork_all a b
      have g2 := good_of_pstep g1 a2 b2 c2
      obtain ⟨a3, b3⟩ := statReset_all a2 b2 (x := (s.netUnref nid).addNetwork.2) (n := n)
        (by rw [← e1]; exact findNet_of_mem' a2 hn) e3
      exact ⟨a3, b3, g2.2.2⟩
  | statReset nid =>
    unfold step; simp only
    split
    · exact g
    · rename_i n hf
      split
      · exact g
      · rename_i hc
        obtain ⟨a, b⟩ := statReset_all h hz hf (by simpa using hc)
        exact ⟨a, b, hm⟩
  | ptype nid pgno t =>
    unfold step; simp only
    split
    · exact g
    · split
      · exact g
      · obtain ⟨a, b⟩ := ptype_all h hz nid pgno (t % 256)
        exact ⟨a, b, hm⟩
  | purge =>
    unfold step; simp only
    obtain ⟨a, b, c, _⟩ := purge_all s
    refine good_of_pstep g (a h) ?_ b
    intro n hn _; exact c h _ hz n hn (Or.inl trivial)
  | setLimit n =>
    unfold step; simp only
    have h' : InvW ({ s with memLimit := n } : State) :=
      ⟨h.pidNodup, h.pidLt, h.priNodup, h.refNodup, h.priMem, h.refMem, h.zombieRef, h.nidNodup, h.nidLt, h.netOf,
       h.nCached, h.nRef, h.nSub, h.nPages, h.mem, h.nNets⟩
    have sh := deleteSurplusPages_shrinks ({ s with memLimit := n } : State)
    exact ⟨sh.invW h', znet_of_key sh.key hz, deleteSurplusPages_le h'⟩

theorem good_init : Good init := by
  refine ⟨⟨by simp [init], by simp [init], by simp [init], by simp [init], by simp [init], by simp [init],
    by simp [init], by simp [init], by simp [init], by simp [init], by simp [init], by simp [init], by simp [init],
    rfl, rfl, rfl⟩, by intro n hn; simp [init] at hn, by simp [init, Gen.Cache.memoryLimit0]⟩

end Zvbi.Cache
