import ZvbiModel.Cache.LemmasAbsR
import ZvbiModel.Ttx.Model
/-!
# The MRU page list of the Teletext decoder model (`Ttx.Net.cache`) is the abstract store of cache.c

`Zvbi.Ttx` keeps the cached pages of the current network as a plain list (`cacheGet`, `cachePut`).
Here: that list, read through `tstore`, evolves exactly like the abstract store `AStore` to which the cache.c
model refines (`getPage_abs`, `putPage_abs`): same key rule, same wildcard / mask rule, same move-to-front.
-/
namespace Zvbi.Cache
open Zvbi.Gen.Cache

/-- a decoder page as an entry of the abstract store of network `nid`; `enc` abstracts the page content -/
def tentry (nid : Nat) (enc : Ttx.Page → Nat) (p : Ttx.Page) : Entry :=
  { net := nid, pgno := p.pgno, subno := p.subno, func := p.function, x26 := p.x26, x28 := p.x28, tag := enc p }

/-- the decoder's page list as abstract store -/
def tstore (nid : Nat) (enc : Ttx.Page → Nat) (c : List Ttx.Page) : AStore := c.map (tentry nid enc)

theorem tentry_matches (nid : Nat) (enc : Ttx.Page → Nat) (q : Ttx.Page) (pgno key mask : Nat) :
    (tentry nid enc q).matches nid pgno key mask = (q.pgno == pgno && (q.subno &&& mask) == (key &&& mask)) := by
  unfold Entry.matches tentry
  simp only [decide_true, Bool.and_true, Bool.decide_and, beq_iff_eq]
  by_cases h1 : q.pgno = pgno <;> by_cases h2 : q.subno &&& mask = key &&& mask <;> simp [h1, h2]

/-- the chain search of the decoder model is `extract` on the abstract store -/
theorem extract_tstore (nid : Nat) (enc : Ttx.Page → Nat) (c : List Ttx.Page) (pgno key mask : Nat) :
    extract (fun e => e.matches nid pgno key mask) (tstore nid enc c) =
      (c.find? (fun q => q.pgno == pgno && (q.subno &&& mask) == (key &&& mask))).map
        (fun q => (tentry nid enc q, tstore nid enc (c.erase q))) := by
  induction c with
  | nil => rfl
  | cons a t ih =>
    show extract _ (tentry nid enc a :: tstore nid enc t) = _
    unfold extract
    rw [tentry_matches, List.find?_cons]
    by_cases hm : (a.pgno == pgno && (a.subno &&& mask) == (key &&& mask)) = true
    · simp only [hm, if_true, Option.map_some]
      rw [List.erase_cons_head]
    · have hm' : (a.pgno == pgno && (a.subno &&& mask) == (key &&& mask)) = false := by simpa using hm
      simp only [hm', Bool.false_eq_true, if_false]
      rw [ih]
      cases hf : t.find? (fun q => q.pgno == pgno && (q.subno &&& mask) == (key &&& mask)) with
      | none => rfl
      | some q =>
        simp only [Option.map_some]
        have hq := List.find?_some hf
        have hne : a ≠ q := by
          intro e; subst e; rw [hm'] at hq; cases hq
        rw [List.erase_cons_tail (by simpa using hne)]
        rfl

theorem tvalid_eq (pgno : Nat) :
    (pgno < 0x100 || pgno > 0x8FF || pgno &&& 0xFF == 0xFF) = !validPgno pgno := by
  unfold validPgno
  by_cases h1 : pgno < 0x100
  · have : ¬ (0x100 ≤ pgno) := by omega
    simp [h1, this]
  · by_cases h2 : pgno > 0x8FF
    · have : ¬ (pgno ≤ 0x8FF) := by omega
      simp [h2, this]
    · have a : 0x100 ≤ pgno := by omega
      have b : pgno ≤ 0x8FF := by omega
      by_cases h3 : pgno &&& 0xFF = 0xFF <;> simp [h1, h2, h3, a, b]

/-- `Ttx.cacheGet` = look-up + touch on the abstract store (same wildcard rule: `VBI_ANY_SUBNO` => mask 0) -/
theorem tcacheGet_abs (nid : Nat) (enc : Ttx.Page → Nat) (c : List Ttx.Page) (pgno subno mask : Nat)
    (hv : validPgno pgno = true) :
    ((Ttx.cacheGet c pgno subno mask).map (fun r => tentry nid enc r.1)
        = alookup (tstore nid enc c) nid pgno subno (if subno = anySubno then 0 else mask))
    ∧ tstore nid enc (match Ttx.cacheGet c pgno subno mask with | some r => r.2 | none => c)
        = atouch (tstore nid enc c) nid pgno subno (if subno = anySubno then 0 else mask) := by
  unfold Ttx.cacheGet alookup atouch
  rw [tvalid_eq, hv]
  simp only [Bool.not_true, Bool.false_eq_true, if_false]
  have hany : (subno == Ttx.ANY_SUBNO) = decide (subno = anySubno) := by
    have : Ttx.ANY_SUBNO = anySubno := by decide
    rw [this]; by_cases h : subno = anySubno <;> simp [h]
  have hmask : (if (subno == Ttx.ANY_SUBNO) = true then 0 else mask) = (if subno = anySubno then 0 else mask) := by
    rw [hany]; by_cases h : subno = anySubno <;> simp [h]
  rw [hmask, extract_tstore]
  unfold Ttx.cacheFind
  cases hf : c.find? (fun q => q.pgno == pgno && (q.subno &&& (if subno = anySubno then 0 else mask))
      == (subno &&& (if subno = anySubno then 0 else mask))) with
  | none => exact ⟨rfl, rfl⟩
  | some q => exact ⟨rfl, rfl⟩

/-! ### the key rule is the same -/

theorem tisBcd_eq (n : Nat) (h : n < 4294967296) : Ttx.isBcd n = isBcd n := by
  unfold Ttx.isBcd isBcd
  rw [Nat.mod_eq_of_lt h]

theorem tbcdGreater_eq (bcd maximum : Nat) (h : maximum ^^^ 0xFFFFFFFF = 0xFFFFFFFF - maximum) :
    Ttx.bcdDigitsGreater bcd maximum = bcdDigitsGreater bcd maximum := by
  unfold Ttx.bcdDigitsGreater bcdDigitsGreater
  simp only [h]

theorem tputKey_eq (pt pgno subno : Nat) (h : pgno < 4294967296) : Ttx.putKey pt pgno subno = putKey pt pgno subno := by
  unfold Ttx.putKey putKey
  rw [tisBcd_eq pgno h, tbcdGreater_eq subno 0x2959 (by decide), tbcdGreater_eq subno 0x79 (by decide)]
  have hc : Ttx.PT_CLOCK = clockPageType := by decide
  rw [hc]
  by_cases h0 : isBcd pgno = true
  · simp only [h0, if_true]
    by_cases h1 : subno = 0
    · simp [h1]
    · by_cases h2 : pt = clockPageType <;> by_cases h3 : subno ≥ 0x100 <;>
        by_cases h4 : bcdDigitsGreater subno 0x2959 = true <;> by_cases h5 : subno > 0x2300 <;>
        by_cases h6 : bcdDigitsGreater subno 0x79 = true <;> simp [h1, h2, h3, h4, h5, h6]
  · simp [h0]

theorem truncate_fields (p : Ttx.Page) :
    p.truncate.pgno = p.pgno ∧ p.truncate.function = p.function ∧ p.truncate.x26 = p.x26 ∧ p.truncate.x28 = p.x28 := by
  unfold Ttx.Page.truncate
  split
  · split
    · exact ⟨rfl, rfl, rfl, rfl⟩
    · split <;> exact ⟨rfl, rfl, rfl, rfl⟩
  · exact ⟨rfl, rfl, rfl, rfl⟩

/-! ### the store, both source shapes of `_vbi_cache_put_page` (`fix`, finding F17 and its repair) -/

/-- `Ttx.cachePutF fix` after the key `K` was chosen -/
def tcachePutKF (fix : Bool) (c : List Ttx.Page) (K : Nat × Nat) (p : Ttx.Page) : List Ttx.Page :=
  ({ p.truncate with subno := K.1 } : Ttx.Page) ::
    (match Ttx.cacheFind c p.pgno (K.1 &&& K.2) K.2 with
      | some (old, c1) =>
        if fix && K.2 == 0 then (c1.erase old).filter (fun q => q.pgno != p.pgno) else c1.erase old
      | none => c)

theorem tcachePutF_eq (fix : Bool) (c : List Ttx.Page) (pt : Nat) (p : Ttx.Page) :
    Ttx.cachePutF fix c pt p
      = if p.pgno &&& 0xFF == 0xFF then none else some (tcachePutKF fix c (Ttx.putKey pt p.pgno p.subno) p) := by
  unfold Ttx.cachePutF tcachePutKF
  generalize Ttx.putKey pt p.pgno p.subno = K
  obtain ⟨k1, k2⟩ := K
  rfl

theorem filter_erase_of_false (g : Ttx.Page → Bool) (x : Ttx.Page) (hx : g x = false) (l : List Ttx.Page) :
    (l.erase x).filter g = l.filter g := by
  induction l with
  | nil => rfl
  | cons y ys ih =>
    by_cases e : y = x
    · subst e
      rw [List.erase_cons_head, List.filter_cons_of_neg (by simp [hx])]
    · rw [List.erase_cons_tail (by simpa using e)]
      simp only [List.filter_cons, ih]

/-- filtering the abstract store of one network by "another page number" is filtering the decoder's list -/
theorem tstore_filter_pgno (nid : Nat) (enc : Ttx.Page → Nat) (c : List Ttx.Page) (E : Entry) (pg : Nat)
    (hE1 : E.pgno = pg) (hE2 : E.net = nid) :
    (tstore nid enc c).filter (fun o => !(decide (o.pgno = E.pgno ∧ o.net = E.net)))
      = tstore nid enc (c.filter (fun q => q.pgno != pg)) := by
  unfold tstore
  rw [List.filter_map]
  congr 1
  apply List.filter_congr
  intro q _
  show (!(decide ((tentry nid enc q).pgno = E.pgno ∧ (tentry nid enc q).net = E.net))) = (q.pgno != pg)
  have h1 : (tentry nid enc q).pgno = q.pgno := rfl
  have h2 : (tentry nid enc q).net = nid := rfl
  rw [h1, h2, hE1, hE2]
  by_cases h : q.pgno = pg <;> simp [h]

theorem and_zero_eq (x : Nat) : x &&& 0 = 0 := Nat.and_zero x

/-- the decoder's store after the key was chosen = the abstract store operation of the same shape -/
theorem tcachePutKF_abs (fix : Bool) (nid : Nat) (enc : Ttx.Page → Nat) (c : List Ttx.Page) (K : Nat × Nat) (p : Ttx.Page) :
    tstore nid enc (tcachePutKF fix c K p)
      = aputF fix (tstore nid enc c) (tentry nid enc { p.truncate with subno := K.1 }) K.2 := by
  unfold tcachePutKF aputF
  generalize hX : ({ p.truncate with subno := K.1 } : Ttx.Page) = X
  have e2 : X.pgno = p.pgno := by rw [← hX]; exact (truncate_fields p).1
  have e3 : X.subno = K.1 := by rw [← hX]
  by_cases hrep : (fix && K.2 == 0) = true
  · -- repaired shape, single-version key: every version of the page number goes
    have hfix : fix = true := by cases fix <;> simp_all
    have hk : K.2 = 0 := by cases fix <;> simp_all
    subst hfix
    simp only [if_true]
    unfold aputR
    rw [if_pos hk, tstore_filter_pgno nid enc c (tentry nid enc X) p.pgno e2 rfl]
    unfold Ttx.cacheFind
    cases hf : c.find? (fun q => q.pgno == p.pgno && (q.subno &&& K.2) == (K.1 &&& K.2 &&& K.2)) with
    | none =>
      simp only
      have hall : c.filter (fun q => q.pgno != p.pgno) = c := by
        apply List.filter_eq_self.2
        intro q hq
        have := List.find?_eq_none.1 hf q hq
        rw [hk] at this
        simp only [and_zero_eq, beq_self_eq_true, Bool.and_true, beq_iff_eq] at this
        simpa using this
      rw [hall]; rfl
    | some q =>
      simp only [hrep, if_true, List.erase_cons_head]
      have hq := List.find?_some hf
      have hqp : q.pgno = p.pgno := by
        simp only [Bool.and_eq_true, beq_iff_eq] at hq; exact hq.1
      rw [filter_erase_of_false _ q (by simp [hqp]) c]
      rfl
  · have hrep' : (fix && K.2 == 0) = false := by simpa using hrep
    have hsame : (if fix = true then aputR (tstore nid enc c) (tentry nid enc X) K.2
        else aput (tstore nid enc c) (tentry nid enc X) K.2) = aput (tstore nid enc c) (tentry nid enc X) K.2 := by
      cases fix with
      | false => rfl
      | true =>
        have hk : K.2 ≠ 0 := by simpa using hrep'
        simp only [if_true]; unfold aputR; rw [if_neg hk]
    rw [hsame]
    show tstore nid enc (X :: _) = (match extract (fun o : Entry => o.matches nid X.pgno (X.subno &&& K.2) K.2) (tstore nid enc c) with
        | some (_, r) => tentry nid enc X :: r
        | none => tentry nid enc X :: tstore nid enc c)
    rw [e2, e3, extract_tstore]
    unfold Ttx.cacheFind
    cases hf : c.find? (fun q => q.pgno == p.pgno && (q.subno &&& K.2) == (K.1 &&& K.2 &&& K.2)) with
    | none => rfl
    | some q =>
      simp only [Option.map_some, List.erase_cons_head, hrep', Bool.false_eq_true, if_false]
      rfl

/-- the page `Ttx.cachePut` stores -/
def tstored (pt : Nat) (p : Ttx.Page) : Ttx.Page := { p.truncate with subno := (putKey pt p.pgno p.subno).1 }

/-- `Ttx.cachePutF fix` = the abstract store operation of shape `fix`: same key rule; as found (`aput`) the version
    found under the key is replaced, repaired (`aputR`) under a single-version key every version of the page number -/
theorem tcachePutF_abs (fix : Bool) (nid : Nat) (enc : Ttx.Page → Nat) (c : List Ttx.Page) (pt : Nat) (p : Ttx.Page)
    (hp : p.pgno < 4294967296) {c' : List Ttx.Page} (hres : Ttx.cachePutF fix c pt p = some c') :
    p.pgno &&& 0xFF ≠ 0xFF ∧
    tstore nid enc c' = aputF fix (tstore nid enc c) (tentry nid enc (tstored pt p)) (putKey pt p.pgno p.subno).2 := by
  rw [tcachePutF_eq, tputKey_eq pt p.pgno p.subno hp] at hres
  split at hres
  · cases hres
  · rename_i hlow
    refine ⟨by simpa using hlow, ?_⟩
    simp only [Option.some.injEq] at hres
    rw [← hres]
    exact tcachePutKF_abs fix nid enc c (putKey pt p.pgno p.subno) p

/-- the decoder model's store (`Ttx.cachePut`: the shape of the current source) -/
theorem tcachePut_abs (nid : Nat) (enc : Ttx.Page → Nat) (c : List Ttx.Page) (pt : Nat) (p : Ttx.Page)
    (hp : p.pgno < 4294967296) {c' : List Ttx.Page} (hres : Ttx.cachePut c pt p = some c') :
    p.pgno &&& 0xFF ≠ 0xFF ∧
    tstore nid enc c' = aputF putReplacesAllVersions (tstore nid enc c) (tentry nid enc (tstored pt p))
      (putKey pt p.pgno p.subno).2 :=
  tcachePutF_abs _ nid enc c pt p hp hres

/-! ### several networks: the decoder sees the entries of its own network -/

theorem extract_filter (q f : Entry → Bool) (hq : ∀ e, q e = true → f e = true) (a : AStore) :
    extract q (a.filter f) = (extract q a).map (fun r => (r.1, r.2.filter f)) := by
  induction a with
  | nil => rfl
  | cons e t ih =>
    by_cases hf : f e = true
    · rw [List.filter_cons_of_pos hf]
      unfold extract
      by_cases hqe : q e = true
      · simp [hqe]
      · have hqe' : q e = false := by simpa using hqe
        simp only [hqe', Bool.false_eq_true, if_false]
        rw [ih]
        cases extract q t with
        | none => rfl
        | some r => simp [List.filter_cons_of_pos hf]
    · have hf' : f e = false := by simpa using hf
      have hqe : q e = false := by
        cases hh : q e with
        | false => rfl
        | true => rw [hq e hh] at hf'; cases hf'
      rw [List.filter_cons_of_neg (by simpa using hf')]
      conv => rhs; unfold extract
      simp only [hqe, Bool.false_eq_true, if_false]
      rw [ih]
      cases extract q t with
      | none => rfl
      | some r => simp [List.filter_cons_of_neg (show ¬ f e = true by simpa using hf')]

theorem matches_net {e : Entry} {nid pgno subno mask : Nat} (h : e.matches nid pgno subno mask = true) :
    decide (e.net = nid) = true := by
  unfold Entry.matches at h; simp at h; simp [h.2.2]

theorem alookup_filter (a : AStore) (nid pgno subno mask : Nat) :
    alookup (a.filter (fun e => decide (e.net = nid))) nid pgno subno mask = alookup a nid pgno subno mask := by
  unfold alookup
  rw [extract_filter _ _ (fun e h => matches_net h)]
  cases extract (fun e => e.matches nid pgno subno mask) a <;> rfl

theorem extract_some_sat {q : Entry → Bool} {a : AStore} {e : Entry} {t : AStore} (hx : extract q a = some (e, t)) :
    q e = true := by
  induction a generalizing e t with
  | nil => simp [extract] at hx
  | cons b u ih =>
    unfold extract at hx
    by_cases hb : q b = true
    · simp only [hb, if_true, Option.some.injEq, Prod.mk.injEq] at hx; rw [← hx.1]; exact hb
    · have hb' : q b = false := by simpa using hb
      simp only [hb', Bool.false_eq_true, if_false] at hx
      cases hu : extract q u with
      | none => rw [hu] at hx; cases hx
      | some r2 =>
        rw [hu] at hx; simp only [Option.map_some, Option.some.injEq, Prod.mk.injEq] at hx
        obtain ⟨e2, t2⟩ := r2
        exact hx.1 ▸ ih hu

theorem atouch_filter (a : AStore) (nid pgno subno mask : Nat) :
    (atouch a nid pgno subno mask).filter (fun e => decide (e.net = nid))
      = atouch (a.filter (fun e => decide (e.net = nid))) nid pgno subno mask := by
  unfold atouch
  rw [extract_filter _ _ (fun e h => matches_net h)]
  cases hx : extract (fun e => e.matches nid pgno subno mask) a with
  | none => rfl
  | some r =>
    obtain ⟨e, t⟩ := r
    have he : e.matches nid pgno subno mask = true := extract_some_sat hx
    show List.filter _ (e :: t) = e :: List.filter _ t
    have hn : e.net = nid := by simpa using matches_net he
    simp [List.filter_cons, hn]

theorem aput_filter (a : AStore) (e : Entry) (mask : Nat) :
    (aput a e mask).filter (fun x => decide (x.net = e.net)) = aput (a.filter (fun x => decide (x.net = e.net))) e mask := by
  unfold aput
  rw [extract_filter _ _ (fun x h => matches_net h)]
  cases extract (fun o => o.matches e.net e.pgno (e.subno &&& mask) mask) a with
  | none => simp
  | some r => simp

theorem aputR_filter (a : AStore) (e : Entry) (mask : Nat) :
    (aputR a e mask).filter (fun x => decide (x.net = e.net)) = aputR (a.filter (fun x => decide (x.net = e.net))) e mask := by
  unfold aputR
  by_cases hk : mask = 0
  · simp only [hk, if_true]
    rw [List.filter_cons_of_pos (by simp), List.filter_filter, List.filter_filter]
    congr 1
    apply List.filter_congr
    intro x _
    exact Bool.and_comm _ _
  · simp only [hk, if_false]; exact aput_filter a e mask

theorem aputF_filter (fix : Bool) (a : AStore) (e : Entry) (mask : Nat) :
    (aputF fix a e mask).filter (fun x => decide (x.net = e.net))
      = aputF fix (a.filter (fun x => decide (x.net = e.net))) e mask := by
  cases fix
  · exact aput_filter a e mask
  · exact aputR_filter a e mask

theorem good_run (ops : List Op) : Good (run init ops) := by
  suffices h : ∀ s, Good s → Good (run s ops) from h init good_init
  induction ops with
  | nil => intro s h; exact h
  | cons op t ih => intro s h; exact ih _ (good_step h op)

/-- the entry handed out by a put of the decoder page `p` under key `K` -/
theorem putEntry_tentry (nid : Nat) (enc : Ttx.Page → Nat) (p : Ttx.Page) (K : Nat × Nat) (tag : Nat)
    (ht : tag = enc { p.truncate with subno := K.1 }) :
    putEntry nid ⟨p.pgno, p.subno, p.function, p.x26, p.x28, tag⟩ K.1 = tentry nid enc { p.truncate with subno := K.1 } := by
  obtain ⟨f1, f2, f3, f4⟩ := truncate_fields p
  unfold putEntry tentry
  simp only [f1, f2, f3, f4, ht]

theorem tstored_eq (pt : Nat) (p : Ttx.Page) : tstored pt p = { p.truncate with subno := (putKey pt p.pgno p.subno).1 } := by
  unfold tstored; rfl

end Zvbi.Cache
