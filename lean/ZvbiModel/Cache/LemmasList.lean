import ZvbiModel.Cache.Spec
/-!
# List facts used by the cache proofs (records with unique `id`s)
-/
namespace Zvbi.Cache

/-- remove the record with id `x` -/
def rmId (l : List Page) (x : Nat) : List Page := l.filter (fun q => q.id ≠ x)
/-- update the record with id `x` -/
def updId (l : List Page) (x : Nat) (f : Page → Page) : List Page := l.map (fun q => if q.id = x then f q else q)

theorem dropPage_pages (s : State) (x : Nat) : (s.dropPage x).pages = rmId s.pages x := rfl
theorem updPage_pages (s : State) (x : Nat) (f : Page → Page) : (s.updPage x f).pages = updId s.pages x f := rfl

abbrev IdsNodup (l : List Page) : Prop := (l.map (·.id)).Nodup

theorem idsNodup_cons {a : Page} {t : List Page} :
    IdsNodup (a :: t) ↔ (∀ q ∈ t, q.id ≠ a.id) ∧ IdsNodup t := by
  simp only [IdsNodup, List.map_cons, List.nodup_cons, List.mem_map, not_exists, not_and]

theorem mem_unique {l : List Page} (h : IdsNodup l) {p q : Page} (hp : p ∈ l) (hq : q ∈ l)
    (e : p.id = q.id) : p = q := by
  induction l with
  | nil => cases hp
  | cons a t ih =>
    rw [idsNodup_cons] at h
    rcases List.mem_cons.1 hp with rfl | hp' <;> rcases List.mem_cons.1 hq with rfl | hq'
    · rfl
    · exact absurd e.symm (h.1 q hq')
    · exact absurd e (h.1 p hp')
    · exact ih h.2 hp' hq'

theorem find_of_mem {l : List Page} (h : IdsNodup l) {p : Page} (hp : p ∈ l) :
    l.find? (fun q => q.id = p.id) = some p := by
  induction l with
  | nil => cases hp
  | cons a t ih =>
    rw [idsNodup_cons] at h
    rcases List.mem_cons.1 hp with rfl | hp'
    · simp
    · have : a.id ≠ p.id := fun e => h.1 p hp' e.symm
      simp [this, ih h.2 hp']

theorem find_some {l : List Page} {x : Nat} {p : Page} (h : l.find? (fun q => q.id = x) = some p) :
    p ∈ l ∧ p.id = x := by
  have := List.find?_some h
  exact ⟨List.mem_of_find?_eq_some h, by simpa using this⟩

theorem find_none {l : List Page} {x : Nat} (h : l.find? (fun q => q.id = x) = none) :
    ∀ q ∈ l, q.id ≠ x := by
  intro q hq; have := List.find?_eq_none.1 h q hq; simpa using this

theorem mem_rmId {l : List Page} {x : Nat} {q : Page} : q ∈ rmId l x ↔ q ∈ l ∧ q.id ≠ x := by
  simp [rmId]

theorem rmId_of_not_mem {l : List Page} {x : Nat} (h : ∀ q ∈ l, q.id ≠ x) : rmId l x = l := by
  apply List.filter_eq_self.2; intro q hq; simpa using h q hq

theorem rmId_cons (a : Page) (t : List Page) (x : Nat) :
    rmId (a :: t) x = if a.id = x then rmId t x else a :: rmId t x := by
  unfold rmId; rw [List.filter_cons]; by_cases h : a.id = x <;> simp [h]

theorem map_id_rmId (l : List Page) (x : Nat) : (rmId l x).map (·.id) = (l.map (·.id)).filter (· ≠ x) := by
  induction l with
  | nil => rfl
  | cons a t ih => rw [rmId_cons]; by_cases h : a.id = x <;> simp [h, ih]

theorem idsNodup_rmId {l : List Page} (h : IdsNodup l) (x : Nat) : IdsNodup (rmId l x) := by
  unfold IdsNodup; rw [map_id_rmId]; exact h.filter _

theorem mem_updId {l : List Page} {x : Nat} {f : Page → Page} {q : Page} :
    q ∈ updId l x f ↔ ∃ p ∈ l, q = if p.id = x then f p else p := by
  simp [updId, eq_comm]

theorem map_id_updId {l : List Page} {x : Nat} {f : Page → Page} (hf : ∀ p, (f p).id = p.id) :
    (updId l x f).map (·.id) = l.map (·.id) := by
  unfold updId; rw [List.map_map]; apply List.map_congr_left; intro p _
  by_cases h : p.id = x <;> simp [h, hf]

theorem updId_of_not_mem {l : List Page} {x : Nat} {f : Page → Page} (h : ∀ q ∈ l, q.id ≠ x) : updId l x f = l := by
  unfold updId; conv => rhs; rw [← List.map_id l]
  apply List.map_congr_left; intro p hp; simp [h p hp]

theorem length_updId (l : List Page) (x : Nat) (f : Page → Page) : (updId l x f).length = l.length := by
  simp [updId]

/-! ### weights: every counter of the cache is a sum over the pages -/

def wsum (w : Page → Nat) (l : List Page) : Nat := (l.map w).sum

theorem wsum_nil (w : Page → Nat) : wsum w [] = 0 := rfl
theorem wsum_cons (w : Page → Nat) (a : Page) (t : List Page) : wsum w (a :: t) = w a + wsum w t := by
  simp [wsum]

theorem countP_eq_wsum (P : Page → Bool) (l : List Page) :
    l.countP P = wsum (fun p => if P p then 1 else 0) l := by
  induction l with
  | nil => rfl
  | cons a t ih => rw [List.countP_cons, wsum_cons, ih]; omega

theorem sum_filter_eq_wsum (Q : Page → Bool) (g : Page → Nat) (l : List Page) :
    ((l.filter Q).map g).sum = wsum (fun p => if Q p then g p else 0) l := by
  induction l with
  | nil => rfl
  | cons a t ih =>
    rw [List.filter_cons, wsum_cons, ← ih]; by_cases h : Q a <;> simp [h]

theorem length_eq_wsum (l : List Page) : l.length = wsum (fun _ => 1) l := by
  induction l with
  | nil => rfl
  | cons a t ih => rw [List.length_cons, wsum_cons, ih]; omega

theorem wsum_rmId {l : List Page} (h : IdsNodup l) {p : Page} (hp : p ∈ l) (w : Page → Nat) :
    wsum w (rmId l p.id) + w p = wsum w l := by
  induction l with
  | nil => cases hp
  | cons a t ih =>
    rw [idsNodup_cons] at h
    rcases List.mem_cons.1 hp with rfl | hp'
    · rw [rmId_cons, if_pos rfl, rmId_of_not_mem h.1, wsum_cons]; omega
    · have hne : a.id ≠ p.id := fun e => h.1 p hp' e.symm
      rw [rmId_cons, if_neg hne, wsum_cons, wsum_cons]; have := ih h.2 hp'; omega

theorem wsum_updId {l : List Page} (h : IdsNodup l) {p : Page} (hp : p ∈ l) (w : Page → Nat) (f : Page → Page) :
    wsum w (updId l p.id f) + w p = wsum w l + w (f p) := by
  induction l with
  | nil => cases hp
  | cons a t ih =>
    rw [idsNodup_cons] at h
    rcases List.mem_cons.1 hp with rfl | hp'
    · have : updId (p :: t) p.id f = f p :: t := by
        have := updId_of_not_mem (f := f) h.1
        simp only [updId, List.map_cons, if_true] at this ⊢; rw [this]
      rw [this, wsum_cons, wsum_cons]; omega
    · have hne : a.id ≠ p.id := fun e => h.1 p hp' e.symm
      have : updId (a :: t) p.id f = a :: updId t p.id f := by simp [updId, hne]
      rw [this, wsum_cons, wsum_cons]; have := ih h.2 hp'; omega

theorem wsum_congr {l : List Page} {w w' : Page → Nat} (h : ∀ p ∈ l, w p = w' p) : wsum w l = wsum w' l := by
  unfold wsum; rw [List.map_congr_left h]

theorem wsum_zero {l : List Page} {w : Page → Nat} (h : ∀ p ∈ l, w p = 0) : wsum w l = 0 := by
  induction l with
  | nil => rfl
  | cons a t ih =>
    rw [wsum_cons, h a (List.mem_cons_self), ih (fun p hp => h p (List.mem_cons_of_mem _ hp))]

theorem wsum_pos_of_mem {l : List Page} {w : Page → Nat} {p : Page} (hp : p ∈ l) : w p ≤ wsum w l := by
  induction l with
  | nil => cases hp
  | cons a t ih =>
    rw [wsum_cons]
    rcases List.mem_cons.1 hp with rfl | hp'
    · omega
    · have := ih hp'; omega


/-! ### the same for `countP` and for sums over a filter, with the case of the moved page decided -/

theorem countP_rmId_pos {l : List Page} (h : IdsNodup l) {p : Page} (hp : p ∈ l) {P : Page → Bool} (hP : P p = true) :
    (rmId l p.id).countP P + 1 = l.countP P := by
  have := wsum_rmId h hp (fun q => if P q then 1 else 0)
  rw [countP_eq_wsum, countP_eq_wsum]; simp only [hP, if_true] at this; exact this

theorem countP_rmId_neg {l : List Page} (h : IdsNodup l) {p : Page} (hp : p ∈ l) {P : Page → Bool} (hP : P p = false) :
    (rmId l p.id).countP P = l.countP P := by
  have := wsum_rmId h hp (fun q => if P q then 1 else 0)
  rw [countP_eq_wsum, countP_eq_wsum]; simp only [hP] at this; simpa using this

theorem countP_updId {l : List Page} (h : IdsNodup l) {p : Page} (hp : p ∈ l) (P : Page → Bool) (f : Page → Page) :
    (updId l p.id f).countP P + (if P p then 1 else 0) = l.countP P + (if P (f p) then 1 else 0) := by
  have := wsum_updId h hp (fun q => if P q then 1 else 0) f
  rw [countP_eq_wsum, countP_eq_wsum]; exact this

theorem countP_updId_same {l : List Page} (h : IdsNodup l) {p : Page} (hp : p ∈ l) {P : Page → Bool} {f : Page → Page}
    (hP : P (f p) = P p) : (updId l p.id f).countP P = l.countP P := by
  have := countP_updId h hp P f; rw [hP] at this; omega

theorem countP_updId_inc {l : List Page} (h : IdsNodup l) {p : Page} (hp : p ∈ l) {P : Page → Bool} {f : Page → Page}
    (h0 : P p = false) (h1 : P (f p) = true) : (updId l p.id f).countP P = l.countP P + 1 := by
  have := countP_updId h hp P f; rw [h0, h1] at this; simpa using this

theorem countP_updId_dec {l : List Page} (h : IdsNodup l) {p : Page} (hp : p ∈ l) {P : Page → Bool} {f : Page → Page}
    (h0 : P p = true) (h1 : P (f p) = false) : (updId l p.id f).countP P + 1 = l.countP P := by
  have := countP_updId h hp P f; rw [h0, h1] at this; simpa using this

/-- sum of `g` over the records satisfying `Q` -/
def fsum (Q : Page → Bool) (g : Page → Nat) (l : List Page) : Nat := ((l.filter Q).map g).sum

theorem fsum_rmId_pos {l : List Page} (h : IdsNodup l) {p : Page} (hp : p ∈ l) {Q : Page → Bool} (g : Page → Nat)
    (hQ : Q p = true) : fsum Q g (rmId l p.id) + g p = fsum Q g l := by
  have := wsum_rmId h hp (fun q => if Q q then g q else 0)
  unfold fsum; rw [sum_filter_eq_wsum, sum_filter_eq_wsum]; simp only [hQ, if_true] at this; exact this

theorem fsum_rmId_neg {l : List Page} (h : IdsNodup l) {p : Page} (hp : p ∈ l) {Q : Page → Bool} (g : Page → Nat)
    (hQ : Q p = false) : fsum Q g (rmId l p.id) = fsum Q g l := by
  have := wsum_rmId h hp (fun q => if Q q then g q else 0)
  unfold fsum; rw [sum_filter_eq_wsum, sum_filter_eq_wsum]; simp only [hQ] at this; simpa using this

theorem fsum_updId {l : List Page} (h : IdsNodup l) {p : Page} (hp : p ∈ l) (Q : Page → Bool) (g : Page → Nat) (f : Page → Page) :
    fsum Q g (updId l p.id f) + (if Q p then g p else 0) = fsum Q g l + (if Q (f p) then g (f p) else 0) := by
  have := wsum_updId h hp (fun q => if Q q then g q else 0) f
  unfold fsum; rw [sum_filter_eq_wsum, sum_filter_eq_wsum]; exact this

theorem fsum_updId_same {l : List Page} (h : IdsNodup l) {p : Page} (hp : p ∈ l) {Q : Page → Bool} {g : Page → Nat}
    {f : Page → Page} (hQ : Q (f p) = Q p) (hg : g (f p) = g p) : fsum Q g (updId l p.id f) = fsum Q g l := by
  have := fsum_updId h hp Q g f; rw [hQ, hg] at this; omega

theorem fsum_cons (Q : Page → Bool) (g : Page → Nat) (a : Page) (t : List Page) :
    fsum Q g (a :: t) = (if Q a then g a else 0) + fsum Q g t := by
  unfold fsum; rw [List.filter_cons]; by_cases h : Q a <;> simp [h]

theorem length_rmId {l : List Page} (h : IdsNodup l) {p : Page} (hp : p ∈ l) : (rmId l p.id).length + 1 = l.length := by
  have := wsum_rmId h hp (fun _ => 1); rw [length_eq_wsum, length_eq_wsum]; exact this

/-! ### lists of ids -/

theorem mem_filter_ne {l : List Nat} {x y : Nat} : y ∈ l.filter (· ≠ x) ↔ y ∈ l ∧ y ≠ x := by simp

theorem nodup_append_singleton {l : List Nat} {x : Nat} (h : l.Nodup) (hx : x ∉ l) : (l ++ [x]).Nodup := by
  rw [List.nodup_append]; refine ⟨h, by simp, ?_⟩
  intro a ha b hb; simp at hb; subst hb; intro e; exact hx (e ▸ ha)

end Zvbi.Cache
