import ZvbiModel.Cache.LemmasNets3
/-!
# cache_network_unref / ref, add_network, statistics re-initialisation
-/
namespace Zvbi.Cache

/-- an update of network `x` leaves the other records alone -/
theorem updNet_other {s : State} {x : Nat} {f : Net → Net} (hid : ∀ n, (f n).id = n.id) :
    ∀ n' ∈ (s.updNet x f).nets, n'.id ≠ x → n' ∈ s.nets := by
  intro n' hn' hne
  rw [updNet_nets, mem_updNid] at hn'
  obtain ⟨n, hn, rfl⟩ := hn'
  split
  · rename_i e; rw [if_pos e, hid] at hne; exact absurd e hne
  · exact hn

theorem updNet_this {s : State} (h : InvW s) {x : Nat} {f : Net → Net} (hid : ∀ n, (f n).id = n.id) {n : Net}
    (hn : n ∈ s.nets) (hx : n.id = x) : ∀ n' ∈ (s.updNet x f).nets, n'.id = x → n' = f n := by
  intro n' hn' he
  rw [updNet_nets, mem_updNid] at hn'
  obtain ⟨m, hm, rfl⟩ := hn'
  split
  · rename_i e; rw [net_unique h.nidNodup hm hn (e.trans hx.symm)]
  · rename_i e; rw [if_neg e] at he; exact absurd he e

theorem updNet_znet {s : State} (h : InvW s) {x : Nat} {f : Net → Net} (hid : ∀ n, (f n).id = n.id)
    {P : Nat → Prop} (hz : ZNetOn s P) : ZNetOn (s.updNet x f) (fun i => P i ∧ i ≠ x) := by
  intro n' hn' hp
  exact hz n' (updNet_other hid n' hn' hp.2) hp.1

theorem updNet_pstep (s : State) (x : Nat) (f : Net → Net) : PStep s (s.updNet x f) :=
  ⟨fun q hq => ⟨q, hq, sameBody.rfl' q⟩, fun _ p hp _ => ⟨p, hp, sameBody.rfl' p⟩, Nat.le_refl _, rfl, rfl⟩

/-- `cache_network_unref` -/
theorem netUnref_all {s : State} (h : InvW s) (hz : ZNet s) (x : Nat) :
    InvW (s.netUnref x) ∧ ZNet (s.netUnref x) ∧ PStep s (s.netUnref x) ∧ (s.netUnref x).nextNid = s.nextNid := by
  unfold State.netUnref
  split
  · exact ⟨h, hz, PStep.refl s, rfl⟩
  · rename_i n hf
    obtain ⟨hn, rfl⟩ := findNet_some' hf
    split
    · exact ⟨h, hz, PStep.refl s, rfl⟩
    · split
      · have h1 : InvW (s.updNet n.id (fun n => { n with ref := 0 })) :=
          updNet_invW' h n.id _ (fun _ => rfl) (fun _ _ _ => rfl) (fun _ _ _ => rfl) (fun _ _ _ _ => rfl) (fun _ => rfl)
        have z1 := updNet_znet (x := n.id) (f := fun n => { n with ref := 0 }) h (fun _ => rfl) hz
        obtain ⟨a, b, c, d⟩ := deleteSurplusNets_all (s.updNet n.id (fun n => { n with ref := 0 }))
        refine ⟨a h1, ?_, PStep.trans (fun _ => h1) (updNet_pstep s _ _) b, d⟩
        intro m hm _
        refine c h1 _ z1 m hm ?_
        by_cases e : m.id = n.id
        · refine Or.inr ?_
          rw [updNet_nets, map_id_updNid (f := fun n => { n with ref := 0 }) (fun _ => rfl)]
          exact List.mem_map.2 ⟨n, hn, e.symm⟩
        · exact Or.inl ⟨trivial, e⟩
      · rename_i h0 h1'
        refine ⟨updNet_invW' h n.id _ (fun _ => rfl) (fun _ _ _ => rfl) (fun _ _ _ => rfl) (fun _ _ _ _ => rfl) (fun _ => rfl),
          ?_, updNet_pstep s _ _, rfl⟩
        intro m hm _
        by_cases e : m.id = n.id
        · have := updNet_this (f := fun n => { n with ref := n.ref - 1 }) h (fun _ => rfl) hn rfl m hm e
          subst this; intro _; left; show 0 < n.ref - 1; omega
        · exact hz m (updNet_other (f := fun n => { n with ref := n.ref - 1 }) (fun _ => rfl) m hm e) trivial

/-- `cache_network_ref` -/
theorem netRef_all {s : State} (h : InvW s) (hz : ZNet s) (x : Nat) :
    InvW (s.netRef x) ∧ ZNet (s.netRef x) := by
  unfold State.netRef
  refine ⟨updNet_invW' h x _ (fun _ => rfl) (fun _ _ _ => rfl) (fun _ _ _ => rfl) (fun _ _ _ _ => rfl) (fun _ => rfl), ?_⟩
  intro m hm _
  rw [updNet_nets, mem_updNid] at hm
  obtain ⟨n, hn, rfl⟩ := hm
  split
  · intro hzz; have := hz n hn trivial hzz; show 0 < n.ref + 1 ∨ _; omega
  · exact hz n hn trivial

/-- re-initialisation of `cn->_pages` on a network without pages -/
theorem statReset_all {s : State} (h : InvW s) (hz : ZNet s) {x : Nat} {n : Net} (hf : s.findNet x = some n)
    (h0 : n.nCached = 0) : InvW (s.statReset x) ∧ ZNet (s.statReset x) := by
  obtain ⟨hn, rfl⟩ := findNet_some' hf
  unfold State.statReset
  refine ⟨updNet_invW' h n.id _ (fun _ => rfl) (fun _ _ _ => rfl) (fun _ _ _ => rfl) ?_ (fun _ => rfl), ?_⟩
  · intro m hm e pg
    have : m = n := net_unique h.nidNodup hm hn e
    subst this
    have h1 := h.nSub m hm pg
    have h2 := h.nCached m hm
    have : s.pages.countP (fun p => decide (p.net = m.id ∧ p.pgno = pg)) = 0 :=
      countP_eq_zero_of (Q := fun p => decide (p.net = m.id)) (fun q _ hq => by simp at hq ⊢; exact hq.1) (by omega)
    rw [h1, this]; rfl
  · intro m hm _
    rw [updNet_nets, mem_updNid] at hm
    obtain ⟨n', hn', rfl⟩ := hm
    split
    · exact hz n' hn' trivial
    · exact hz n' hn' trivial

/-- a page type is stored in the statistics -/
theorem ptype_all {s : State} (h : InvW s) (hz : ZNet s) (x pg t : Nat) :
    InvW (s.updNet x (fun n => n.setStat pg { n.getStat pg with ptype := t })) ∧
    ZNet (s.updNet x (fun n => n.setStat pg { n.getStat pg with ptype := t })) := by
  refine ⟨updNet_invW' h x _ (fun _ => rfl) (fun _ _ _ => rfl) (fun _ _ _ => rfl) ?_ (fun _ => rfl), ?_⟩
  · intro m _ _ pg'; rw [getStat_setStat]; split
    · rename_i e; rw [e]
    · rfl
  · intro m hm _
    rw [updNet_nets, mem_updNid] at hm
    obtain ⟨n', hn', rfl⟩ := hm
    split
    · exact hz n' hn' trivial
    · exact hz n' hn' trivial

/-- `if (cn->zombie) { ++ca->n_cached_networks; cn->zombie = FALSE; }` -/
theorem unzombieNet_all {s : State} (h : InvW s) {P : Nat → Prop} (hz : ZNetOn s P) (x : Nat) :
    InvW (s.unzombieNet x) ∧ ZNetOn (s.unzombieNet x) P ∧ PStep s (s.unzombieNet x)
      ∧ (∀ n' ∈ (s.unzombieNet x).nets, ∃ n ∈ s.nets, n'.id = n.id ∧ n'.nCached = n.nCached ∧ n'.nRef = n.nRef
          ∧ n'.ref = n.ref ∧ n'.stat = n.stat ∧ n'.defType = n.defType ∧ n'.maxCached = n.maxCached
          ∧ (n'.id = x → n'.zombie = false) ∧ (n'.id ≠ x → n'.zombie = n.zombie)) := by
  unfold State.unzombieNet
  split
  · rename_i n hf
    obtain ⟨hn, rfl⟩ := findNet_some' hf
    split
    · rename_i hzz
      have key := countP_updNid_one h.nidNodup hn (fun n => { n with zombie := false }) (fun n => !n.zombie)
      simp only [hzz, Bool.not_true, Bool.false_eq_true, if_false, Bool.not_false, if_true] at key
      have hi : InvW { s.updNet n.id (fun n => { n with zombie := false }) with nCachedNets := s.nCachedNets + 1 } :=
        updNet_invW h n.id _ _ (fun _ => rfl) (fun _ _ _ => rfl) (fun _ _ _ => rfl) (fun _ _ _ _ => rfl)
          (by have := h.nNets; omega)
      refine ⟨hi, ?_, ⟨fun q hq => ⟨q, hq, sameBody.rfl' q⟩, fun _ p hp _ => ⟨p, hp, sameBody.rfl' p⟩, Nat.le_refl _, rfl, rfl⟩, ?_⟩
      · intro m hm hp
        have hm' : m ∈ updNid s.nets n.id (fun n => { n with zombie := false }) := hm
        rw [mem_updNid] at hm'
        obtain ⟨n', hn', rfl⟩ := hm'
        split
        · intro hc; cases hc
        · rename_i e; rw [if_neg e] at hp; exact hz n' hn' hp
      · intro m hm
        have hm' : m ∈ updNid s.nets n.id (fun n => { n with zombie := false }) := hm
        rw [mem_updNid] at hm'
        obtain ⟨n', hn', rfl⟩ := hm'
        refine ⟨n', hn', ?_⟩
        split
        · rename_i e; exact ⟨rfl, rfl, rfl, rfl, rfl, rfl, rfl, fun _ => rfl, fun x => absurd e x⟩
        · rename_i e; exact ⟨rfl, rfl, rfl, rfl, rfl, rfl, rfl, fun x => absurd x e, fun _ => rfl⟩
    · rename_i hzz
      refine ⟨h, hz, PStep.refl s, fun n' hn' => ⟨n', hn', rfl, rfl, rfl, rfl, rfl, rfl, rfl, ?_, fun _ => rfl⟩⟩
      intro e; have := net_unique h.nidNodup hn' hn e; subst this; simpa using hzz
  · rename_i hf
    exact ⟨h, hz, PStep.refl s, fun n' hn' => ⟨n', hn', rfl, rfl, rfl, rfl, rfl, rfl, rfl,
      fun e => absurd e (findNet_none hf n' hn'), fun _ => rfl⟩⟩

end Zvbi.Cache
