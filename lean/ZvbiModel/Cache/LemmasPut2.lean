import ZvbiModel.Cache.LemmasPut
/-!
# _vbi_cache_put_page: death row and replacement
-/
namespace Zvbi.Cache

/-- the death row only ever holds ids of the priority list (or the initial candidate) -/
theorem collectPass_row (s : State) (pri : Pri) (chk : Bool) (oldId : Option Nat) (needed : Int) :
    ∀ (ids : List Nat) (avail : Int) (row : List Nat) (d : Bool) (avail' : Int) (row' : List Nat),
      collectPass s pri chk oldId needed ids avail row = .ok (d, avail', row') →
      ∀ id ∈ row', id ∈ row ∨ id ∈ ids := by
  intro ids
  induction ids with
  | nil =>
    intro avail row d avail' row' h id hid
    simp only [collectPass, Except.ok.injEq, Prod.mk.injEq] at h
    obtain ⟨_, _, rfl⟩ := h; exact Or.inl hid
  | cons a t ih =>
    intro avail row d avail' row' h id hid
    unfold collectPass at h
    split at h
    · simp only [Except.ok.injEq, Prod.mk.injEq] at h
      obtain ⟨_, _, rfl⟩ := h; exact Or.inl hid
    · split at h
      · rcases ih _ _ _ _ _ h id hid with x | x
        · exact Or.inl x
        · exact Or.inr (List.mem_cons_of_mem _ x)
      · split at h
        · rcases ih _ _ _ _ _ h id hid with x | x
          · exact Or.inl x
          · exact Or.inr (List.mem_cons_of_mem _ x)
        · split at h
          · cases h
          · rcases ih _ _ _ _ _ h id hid with x | x
            · rcases List.mem_append.1 x with x | x
              · exact Or.inl x
              · simp only [List.mem_singleton] at x; subst x; exact Or.inr List.mem_cons_self
            · exact Or.inr (List.mem_cons_of_mem _ x)

theorem collectAll_row {s : State} {oldId : Option Nat} {needed avail : Int} {row : List Nat} {avail' : Int} {row' : List Nat}
    (h : collectAll s oldId needed avail row = .ok (some (avail', row'))) :
    ∀ id ∈ row', id ∈ row ∨ id ∈ s.priority := by
  unfold collectAll at h
  simp only [bind, Except.bind, pure, Except.pure] at h
  split at h
  · simp only [Except.ok.injEq, Option.some.injEq, Prod.mk.injEq] at h
    obtain ⟨_, rfl⟩ := h; exact fun id hid => Or.inl hid
  · split at h
    · cases h
    · rename_i r1 h1
      obtain ⟨d1, a1, w1⟩ := r1
      have g1 := collectPass_row s _ _ _ _ _ _ _ _ _ _ h1
      simp only at h
      split at h
      · simp only [Except.ok.injEq, Option.some.injEq, Prod.mk.injEq] at h
        obtain ⟨_, rfl⟩ := h; exact g1
      · split at h
        · cases h
        · rename_i r2 h2
          obtain ⟨d2, a2, w2⟩ := r2
          have g2 := collectPass_row s _ _ _ _ _ _ _ _ _ _ h2
          simp only at h
          have g12 : ∀ id ∈ w2, id ∈ row ∨ id ∈ s.priority := by
            intro id hid; rcases g2 id hid with x | x
            · exact g1 id x
            · exact Or.inr x
          split at h
          · simp only [Except.ok.injEq, Option.some.injEq, Prod.mk.injEq] at h
            obtain ⟨_, rfl⟩ := h; exact g12
          · split at h
            · cases h
            · rename_i r3 h3
              obtain ⟨d3, a3, w3⟩ := r3
              have g3 := collectPass_row s _ _ _ _ _ _ _ _ _ _ h3
              simp only at h
              have g123 : ∀ id ∈ w3, id ∈ row ∨ id ∈ s.priority := by
                intro id hid; rcases g3 id hid with x | x
                · exact g12 id x
                · exact Or.inr x
              split at h
              · simp only [Except.ok.injEq, Option.some.injEq, Prod.mk.injEq] at h
                obtain ⟨_, rfl⟩ := h; exact g123
              · split at h
                · cases h
                · rename_i r4 h4
                  obtain ⟨d4, a4, w4⟩ := r4
                  have g4 := collectPass_row s _ _ _ _ _ _ _ _ _ _ h4
                  simp only at h
                  split at h
                  · simp only [Except.ok.injEq, Option.some.injEq, Prod.mk.injEq] at h
                    obtain ⟨_, rfl⟩ := h
                    intro id hid; rcases g4 id hid with x | x
                    · exact g123 id x
                    · exact Or.inr x
                  · cases h

end Zvbi.Cache

namespace Zvbi.Cache

theorem foldDelete_shrinks (row : List Nat) (s : State) : Shrinks s (row.foldl (fun s id => s.deletePage id) s) := by
  induction row generalizing s with
  | nil => exact Shrinks.refl s
  | cons a t ih => rw [List.foldl_cons]; exact (Shrinks.deletePage s a).trans (ih _)

theorem net_of_key {s s' : State} (hk : s'.nets.map netKey = s.nets.map netKey) {n : Net} (hn : n ∈ s.nets) :
    ∃ m ∈ s'.nets, netKey m = netKey n := by
  have : netKey n ∈ s'.nets.map netKey := hk ▸ List.mem_map_of_mem hn
  obtain ⟨m, hm, e⟩ := List.mem_map.1 this
  exact ⟨m, hm, e⟩

/-- the zombie clause after `insertNew`: the page's network is no zombie any more -/
theorem insertNew_znet {s : State} (hnd : NidsNodup s.nets) {n : Net} (hn : n ∈ s.nets) {P : Nat → Prop} (hz : ZNetOn s P)
    (a : PutArg) (subno : Nat) : ZNetOn (s.insertNew n.id a subno).1 P := by
  rw [insertNew_eq hnd hn]
  intro m' hm' hp
  have hm2 : m' ∈ updNid s.nets n.id (addPageNet a.pgno subno) := hm'
  obtain ⟨m, hm, rfl⟩ := mem_updNid.1 hm2
  split
  · intro hzz; rw [addPageNet_zombie] at hzz; cases hzz
  · rename_i e; rw [if_neg e] at hp; exact hz m hm hp

theorem insertNew_mem (s : State) (nid : Nat) (a : PutArg) (subno : Nat) :
    (s.insertNew nid a subno).1.memUsed = s.memUsed ∧ (s.insertNew nid a subno).1.memLimit = s.memLimit
    ∧ (s.insertNew nid a subno).1.nNetsLimit = s.nNetsLimit ∧ (s.insertNew nid a subno).1.nextNid = s.nextNid := by
  unfold State.insertNew State.netAddPage State.unzombieNet
  simp only
  split
  · split <;> exact ⟨rfl, rfl, rfl, rfl⟩
  · exact ⟨rfl, rfl, rfl, rfl⟩

/-- `_vbi_cache_put_page` from `replace:` on -/
theorem putReplace_all {s : State} (h : InvW s) (hz : ZNet s) {n : Net} (hn : n ∈ s.nets) (a : PutArg) (subno : Nat)
    (avail : Int) {row : List Nat} (hrow : ∀ id ∈ row, id ∈ s.priority) {s' : State} {r : Option Page}
    (hres : s.putReplace n.id a subno avail row = .ok (s', r)) :
    InvW s' ∧ ZNet s' ∧ s'.memUsed ≤ s.memUsed ∧ s'.memLimit = s.memLimit := by
  unfold State.putReplace at hres
  simp only at hres
  split at hres
  · -- reuse
    rename_i hc
    split at hres
    · cases hres
    · rename_i v hv
      split at hres
      · cases hres
      · rename_i hsz
        simp only [Except.ok.injEq, Prod.mk.injEq] at hres
        obtain ⟨rfl, _⟩ := hres
        -- the victim is an unreferenced page
        have hrow1 : ∃ id, row = [id] := by
          match row, hc.2 with
          | [id], _ => exact ⟨id, rfl⟩
        obtain ⟨id, rfl⟩ := hrow1
        have hv' : s.findPage id = some v := by simpa using hv
        obtain ⟨hvm, rfl⟩ := findPage_some hv'
        have hv0 : v.ref = 0 := by
          obtain ⟨q, hq, e, hq0⟩ := (h.priMem v.id).1 (hrow v.id (by simp))
          rw [← mem_unique h.pidNodup hq hvm e]; exact hq0
        have hnz : v.pri ≠ .zombie := fun e => by have := h.zombieRef v hvm e; omega
        have hbase := freePage_invW h hvm hv0
        have hpos : 0 < s.nCachedPages := by
          have := h.nPages; have : 0 < s.pages.length := List.length_pos_of_mem hvm; omega
        have hsz' : v.size = (pageSize a.func a.x26 a.x28) := by
          by_cases e : v.size = pageSize a.func a.x26 a.x28
          · exact e
          · exact absurd e (by simpa using hsz)
        have est : ({ ((s.unlinkPri v.id).dropPage v.id).netRemovePage v.net v.pgno with
              memUsed := (((s.unlinkPri v.id).dropPage v.id).netRemovePage v.net v.pgno).memUsed
                - (Int.toNat (pageSize a.func a.x26 a.x28 : Int)) } : State)
            = { s.freePage v with nCachedPages := (s.freePage v).nCachedPages + 1 } := by
          apply State.eq_of_fields
          · rw [freePage_pages]; rfl
          · rw [freePage_priority]; rfl
          · rw [freePage_referenced]; rfl
          · rw [freePage_nets]; rfl
          · show s.nCachedPages = (s.freePage v).nCachedPages + 1
            rw [freePage_nCachedPages]; omega
          · show s.memUsed - _ = (s.freePage v).memUsed
            rw [freePage_memUsed, if_pos hnz, hsz']; simp
          · rw [freePage_memLimit]; rfl
          · rw [freePage_nCachedNets]; rfl
          · unfold State.freePage; split <;> rfl
          · rw [freePage_nextPid]; rfl
          · rw [freePage_nextNid]; rfl
        rw [est]
        obtain ⟨m, hm, ek⟩ := net_of_key (freePage_netKey s v) hn
        have eid : m.id = n.id := by simp only [netKey, Prod.mk.injEq] at ek; exact ek.1
        rw [← eid]
        obtain ⟨i1, i2, _, _⟩ := insertNew_mem ({ s.freePage v with nCachedPages := (s.freePage v).nCachedPages + 1 } : State) m.id a subno
        refine ⟨insertNew_invW hbase hm a subno, ?_, ?_, ?_⟩
        · exact insertNew_znet (s := { s.freePage v with nCachedPages := (s.freePage v).nCachedPages + 1 }) hbase.nidNodup hm
            (znet_of_key (s' := { s.freePage v with nCachedPages := (s.freePage v).nCachedPages + 1 }) (freePage_netKey s v) hz) a subno
        · rw [i1]; show (s.freePage v).memUsed ≤ _; rw [freePage_memUsed]; split <;> omega
        · rw [i2]; exact freePage_memLimit s v
  · split at hres
    · cases hres
    · simp only [Except.ok.injEq, Prod.mk.injEq] at hres
      obtain ⟨rfl, _⟩ := hres
      have sh := foldDelete_shrinks row s
      generalize row.foldl (fun s id => s.deletePage id) s = sb at sh
      have hbase := sh.invW h
      obtain ⟨m, hm, ek⟩ := net_of_key sh.key hn
      have eid : m.id = n.id := by simp only [netKey, Prod.mk.injEq] at ek; exact ek.1
      rw [← eid]
      obtain ⟨i1, i2, _, _⟩ := insertNew_mem ({ sb with nCachedPages := sb.nCachedPages + 1 } : State) m.id a subno
      refine ⟨insertNew_invW hbase hm a subno, ?_, ?_, ?_⟩
      · exact insertNew_znet (s := { sb with nCachedPages := sb.nCachedPages + 1 }) hbase.nidNodup hm
          (znet_of_key (s' := { sb with nCachedPages := sb.nCachedPages + 1 }) sh.key hz) a subno
      · rw [i1]; exact sh.mem
      · rw [i2]; exact sh.limit

end Zvbi.Cache

namespace Zvbi.Cache

/-- the candidate found under the key is turned into a zombie or heads the death row -/
theorem putVictim_all {s : State} (h : InvW s) (hz : ZNet s) (old : Option Page) (avail : Int)
    (hold : ∀ o, old = some o → o ∈ s.pages) :
    InvW (s.putVictim old avail).1 ∧ ZNet (s.putVictim old avail).1
    ∧ (s.putVictim old avail).1.nets = s.nets
    ∧ (s.putVictim old avail).1.priority = s.priority
    ∧ (s.putVictim old avail).1.memUsed = s.memUsed
    ∧ (s.putVictim old avail).1.memLimit = s.memLimit
    ∧ (∀ id ∈ (s.putVictim old avail).2.2.2, id ∈ s.priority) := by
  unfold State.putVictim
  split
  · exact ⟨h, hz, rfl, rfl, rfl, rfl, fun id hid => by cases hid⟩
  · rename_i o
    have ho := hold o rfl
    split
    · rename_i hr
      refine ⟨updPage_invW_same h ho _ (fun _ => rfl) rfl rfl rfl Iff.rfl (fun _ => hr),
        znet_of_key (updPage_netKey s o.id _) hz, rfl, rfl, rfl, rfl, fun id hid => by cases hid⟩
    · rename_i hr
      refine ⟨h, hz, rfl, rfl, rfl, rfl, ?_⟩
      intro id hid
      simp only [List.mem_singleton] at hid; subst hid
      exact (h.priMem o.id).2 ⟨o, ho, rfl, by omega⟩

theorem putTail_all {s : State} (h : InvW s) (hz : ZNet s) {cn : Net} (hcn : cn ∈ s.nets) (a : PutArg) (k1 k2 : Nat) (avail0 : Int)
    {s' : State} {r : Option Page} (hres : s.putTail cn.id a k1 k2 avail0 = .ok (s', r)) :
    InvW s' ∧ ZNet s' ∧ s'.memUsed ≤ s.memUsed ∧ s'.memLimit = s.memLimit := by
  unfold State.putTail at hres
  simp only at hres
  obtain ⟨a1, a2, a3, a4, a5, _, _, a8, a9⟩ := pageByPgno_all h cn.id a.pgno (k1 &&& k2) k2
  generalize s.pageByPgno cn.id a.pgno (k1 &&& k2) k2 = r0 at hres a1 a2 a3 a4 a5 a8 a9
  have z1 : ZNet r0.1 := znet_of_key (by rw [a2]) hz
  obtain ⟨b1, b2, b3, b4, b5, b6, b7⟩ := putVictim_all a1 z1 r0.2 avail0 (fun o ho => (a3 o).2 (a9 o ho).1)
  generalize r0.1.putVictim r0.2 avail0 = v at hres b1 b2 b3 b4 b5 b6 b7
  split at hres
  · cases hres
  · simp only [Except.ok.injEq, Prod.mk.injEq] at hres; obtain ⟨rfl, _⟩ := hres
    exact ⟨b1, b2, by rw [b5, a4]; exact Nat.le_refl _, b6.trans a5⟩
  · rename_i avail row hcol
    have hrow : ∀ id ∈ row, id ∈ v.1.priority := by
      intro id hid
      rcases collectAll_row hcol id hid with x | x
      · rw [b4]; exact b7 id x
      · exact x
    have hcn' : cn ∈ v.1.nets := by rw [b3, a2]; exact hcn
    obtain ⟨c1, c2, c3, c4⟩ := putReplace_all b1 b2 hcn' a _ avail hrow hres
    exact ⟨c1, c2, by rw [b5, a4] at c3; exact c3, c4.trans (b6.trans a5)⟩

/-- `_vbi_cache_put_page` -/
theorem putPage_all {s : State} (h : InvW s) (hz : ZNet s) (nid : Nat) (a : PutArg) {s' : State} {r : Option Page}
    (hres : s.putPage nid a = .ok (s', r)) :
    InvW s' ∧ ZNet s' ∧ s'.memUsed ≤ s.memUsed ∧ s'.memLimit = s.memLimit := by
  unfold State.putPage at hres
  split at hres
  · cases hres
  · rename_i cn hf
    obtain ⟨hcn, rfl⟩ := findNet_some' hf
    split at hres
    · simp only [Except.ok.injEq, Prod.mk.injEq] at hres; obtain ⟨rfl, _⟩ := hres
      exact ⟨h, hz, Nat.le_refl _, rfl⟩
    · split at hres
      · cases hres
      · exact putTail_all h hz hcn a _ _ _ hres

end Zvbi.Cache
