import ZvbiModel.Nav.Model
/-!
# Helper lemmas for Props/C01Nav, part 4: flof_links touches row 24 / nav_index / nav_link inside their arrays
-/
namespace Zvbi.Nav
open Zvbi.Gen.C01Nav

/-- tag 0: `acp[idx]` with `acp = pg->text + LAST_ROW`; tag 1: `pg->nav_index[idx]`; tag 2: `lop.link[k]`, `pg->nav_link[k]` -/
def okFlof (a : Nat × Nat) : Prop :=
  (a.1 = 0 ∧ flofLinksBase + a.2 < textLen) ∨ (a.1 = 1 ∧ a.2 < navIndexLen) ∨ (a.1 = 2 ∧ a.2 < navLinkLen ∧ a.2 < lopLinkLen)

theorem flofMark_lt (uni : Nat → Nat) (start i : Nat) :
    ∀ a ∈ flofMark uni start i, (a.1 = 0 ∨ a.1 = 1) ∧ a.2 < i := by
  intro a ha
  unfold flofMark at ha
  have key : ∀ j, j ∈ ((List.range i).filter (fun j => start ≤ j)).reverse → j < i := by
    intro j hj; simp at hj; exact hj.1
  simp only [List.mem_append, List.mem_map, List.mem_flatMap] at ha
  rcases ha with ⟨j, hj, rfl⟩ | ⟨j, hj, ha⟩
  · exact ⟨Or.inl rfl, key j (List.mem_of_mem_take hj)⟩
  · have hlt := key j (List.mem_of_mem_drop hj)
    simp only [List.mem_cons, List.not_mem_nil, or_false] at ha
    rcases ha with rfl | rfl
    · exact ⟨Or.inl rfl, hlt⟩
    · exact ⟨Or.inr rfl, hlt⟩

theorem flofStepLog_ok (fg uni : Nat → Nat) (noPage : Nat → Bool) (s : FlofSt) (i : Nat) (hi : i < flofLinksEnd) :
    ∀ a ∈ flofStepLog fg uni noPage s i, okFlof a := by
  intro a ha
  have e1 : flofLinksEnd = 41 := rfl
  have e2 : flofLinksStop = 40 := rfl
  have e3 : flofLinksBase = 984 := rfl
  have e4 : textLen = 1056 := rfl
  have e5 : navIndexLen = 64 := rfl
  have e6 : flofLinksKeys2 = 4 := rfl
  have e7 : navLinkLen = 6 := rfl
  have e8 : lopLinkLen = 36 := rfl
  have e9 : flofLinksBreak = 40 := rfl
  have self0 : okFlof (0, i) := Or.inl ⟨rfl, by show flofLinksBase + i < textLen; omega⟩
  unfold flofStepLog at ha
  simp only at ha
  split at ha
  · simp only [List.mem_append] at ha
    rcases ha with (ha | ha) | ha
    · split at ha
      · simp at ha
      · simp only [List.mem_singleton] at ha; subst ha; exact self0
    · split at ha
      · rename_i hk
        have k2 : okFlof (2, flofKey s.col) := Or.inr (Or.inr ⟨rfl, by show flofKey s.col < navLinkLen; omega,
          by show flofKey s.col < lopLinkLen; omega⟩)
        simp only [List.mem_cons] at ha
        rcases ha with ha | ha
        · subst ha; exact k2
        · split at ha
          · simp only [List.mem_append, List.mem_singleton] at ha
            rcases ha with ha | ha
            · obtain ⟨ht, hlt⟩ := flofMark_lt uni s.start i a ha
              rcases ht with ht | ht
              · exact Or.inl ⟨ht, by omega⟩
              · exact Or.inr (Or.inl ⟨ht, by omega⟩)
            · subst ha; exact k2
          · simp at ha
      · simp at ha
    · split at ha
      · simp at ha
      · simp only [List.mem_cons, List.not_mem_nil, or_false] at ha
        rcases ha with ha | ha <;> (subst ha; exact self0)
  · simp only [List.mem_append] at ha
    rcases ha with ha | ha
    · split at ha
      · simp at ha
      · simp only [List.mem_singleton] at ha; subst ha; exact self0
    · split at ha
      · simp only [List.mem_singleton] at ha; subst ha; exact self0
      · simp at ha

theorem flofLinksFrom_ok (fg uni : Nat → Nat) (noPage : Nat → Bool) :
    ∀ n i s, i + n ≤ flofLinksEnd → ∀ a ∈ flofLinksFrom fg uni noPage n i s, okFlof a := by
  intro n
  induction n with
  | zero => intro i s _ a ha; simp [flofLinksFrom] at ha
  | succ n ih =>
    intro i s h a ha
    unfold flofLinksFrom at ha
    simp only [List.mem_append] at ha
    rcases ha with ha | ha
    · exact flofStepLog_ok fg uni noPage s i (by omega) a ha
    · split at ha
      · simp at ha
      · exact ih (i + 1) _ (by omega) a ha

end Zvbi.Nav
