import ZvbiModel.Nav.LinkLemmas
/-!
# Lemmas for `Nav/Link.lean`: ait_title (the backward scan over `ait->text[]`), the ledger of vbi_page_title
-/
namespace Zvbi.Nav.Link
open Zvbi.Nav Zvbi.Gen.C01Link

/-- the scan `for (i = 11; i >= 0; i--) if (ait->text[i] > 0x20) break;` ends with `-1 <= i` and reads only `text[0 .. start]` -/
theorem atScan_ok (text : Nat → Nat) : ∀ n (i : Int), -1 ≤ i →
    -1 ≤ (atScan text n i).1 ∧ (atScan text n i).1 ≤ i ∧ ∀ x ∈ (atScan text n i).2, 0 ≤ x ∧ x ≤ i := by
  intro n
  induction n with
  | zero => intro i hi; exact ⟨hi, Int.le_refl _, fun x hx => by cases hx⟩
  | succ n ih =>
    intro i hi
    have s0 : atStop = 0 := rfl
    unfold atScan
    split
    · split
      · exact ⟨hi, Int.le_refl _, fun x hx => by simp at hx; omega⟩
      · obtain ⟨a, b, c⟩ := ih (i - 1) (by omega)
        refine ⟨a, ?_, fun x hx => ?_⟩
        · show (atScan text n (i - 1)).1 ≤ i; omega
        · have hx' : x ∈ i :: (atScan text n (i - 1)).2 := hx
          simp only [List.mem_cons] at hx'
          rcases hx' with rfl | hx'
          · omega
          · have := c x hx'; omega
    · exact ⟨hi, Int.le_refl _, fun x hx => by cases hx⟩

/-- what is in range for an access of ait_title (tags of `atLog`) -/
def okAit (a : Nat × Int) : Prop :=
  if a.1 = 0 then 0 ≤ a.2 ∧ a.2 < (aitTextLen : Int)
  else if a.1 = 1 then 0 ≤ a.2 ∧ a.2 ≤ atStart + 1 ∧ a.2 < (ptBufDoc : Int)
  else if a.1 = 2 then 0 ≤ a.2 ∧ a.2 < (atFonts : Int)
  else (Zvbi.Gen.C01Nav.tuCharLo : Int) ≤ a.2 ∧ a.2 ≤ (Zvbi.Gen.C01Nav.tuCharHi : Int)

theorem atLog_ok (text : Nat → Nat) (h : ∀ k, text k ≤ 0x7F) : ∀ a ∈ atLog text, okAit a := by
  intro a ha
  obtain ⟨s1, s2, s3⟩ := atScan_ok text (atStart + 1).toNat atStart (by decide)
  have c1 : atStart = 11 := rfl
  have c2 : (aitTextLen : Int) = 12 := rfl
  have c3 : (ptBufDoc : Int) = 41 := rfl
  have c4 : atNulOff = 1 := rfl
  have c5 : (atFonts : Int) = 2 := rfl
  have c6 : atCharLo = 32 := rfl
  have c7 : atCharPad = 32 := rfl
  have c8 : (Zvbi.Gen.C01Nav.tuCharLo : Int) = 32 := rfl
  have c9 : (Zvbi.Gen.C01Nav.tuCharHi : Int) = 127 := rfl
  unfold atLog at ha
  simp only [List.mem_append, List.mem_map, List.mem_flatMap, List.mem_range, List.mem_cons,
    List.not_mem_nil, or_false] at ha
  rcases ha with (⟨x, hx, rfl⟩ | rfl) | ⟨k, hk, hm⟩
  · have := s3 x hx
    show 0 ≤ x ∧ x < (aitTextLen : Int)
    omega
  · show 0 ≤ _ ∧ _ ≤ atStart + 1 ∧ _ < (ptBufDoc : Int)
    omega
  · rcases hm with rfl | rfl | rfl | rfl
    · show (0 : Int) ≤ 0 ∧ (0 : Int) < (atFonts : Int)
      omega
    · show 0 ≤ (k : Int) ∧ (k : Int) < (aitTextLen : Int)
      omega
    · show (Zvbi.Gen.C01Nav.tuCharLo : Int) ≤ _ ∧ _ ≤ (Zvbi.Gen.C01Nav.tuCharHi : Int)
      have := h k
      split <;> omega
    · show 0 ≤ (k : Int) ∧ (k : Int) ≤ atStart + 1 ∧ (k : Int) < (ptBufDoc : Int)
      omega

/-- every case releases exactly the references it took -/
theorem ptRefs_balanced (c : PtCase) : (ptRefs c).1 = (ptRefs c).2 ∧ (ptRefs c).1 ≤ 1 := by
  cases c <;> decide

theorem ptLedger_balanced : ∀ cs : List PtCase, (ptLedger cs).1 = (ptLedger cs).2
  | [] => rfl
  | c :: cs => by
    have h := (ptRefs_balanced c).1
    have ih := ptLedger_balanced cs
    unfold ptLedger
    split
    · exact h
    · show (ptRefs c).1 + (ptLedger cs).1 = (ptRefs c).2 + (ptLedger cs).2
      omega

end Zvbi.Nav.Link
