import ZvbiModel.Nav.Model
/-!
# Helper lemmas for Props/C01Nav: the scans of `keyword` stop at the sentinels zap_links puts around the row
-/
namespace Zvbi.Nav
open Zvbi.Gen.C01Nav

theorem lt_length_of_getElem? {α} {l : List α} {i : Nat} {x : α} (h : l[i]? = some x) : i < l.length := by
  rcases List.getElem?_eq_some_iff.mp h with ⟨h, _⟩; exact h

theorem exists_getElem? {α} (l : List α) (i : Nat) (h : i < l.length) : ∃ v, l[i]? = some v :=
  ⟨l[i], List.getElem?_eq_getElem h⟩

/-- a forward scan stops at the latest at a position `e` whose byte fails the predicate, and reads nothing behind it -/
theorem scanFwd_sentinel (p : Nat → Bool) (buf : List Nat) (e x : Nat) (he : buf[e]? = some x) (hx : p x = false) :
    ∀ fuel pos, pos ≤ e → e - pos < fuel →
      ∃ r, scanFwd p buf fuel pos = some r ∧ pos ≤ r ∧ r ≤ e ∧ ∃ y, buf[r]? = some y ∧ p y = false := by
  intro fuel
  induction fuel with
  | zero => intro pos _ h; omega
  | succ f ih =>
    intro pos hpe hf
    have hlen : e < buf.length := lt_length_of_getElem? he
    obtain ⟨v, hv⟩ := exists_getElem? buf pos (by omega)
    unfold scanFwd
    rw [hv]; simp only
    by_cases hp : p v = true
    · rw [if_pos hp]
      have hne : pos ≠ e := by
        intro h; subst h; rw [he] at hv; cases hv; rw [hx] at hp; cases hp
      obtain ⟨r, hr, h1, h2, h3⟩ := ih (pos + 1) (by omega) (by omega)
      exact ⟨r, hr, by omega, h2, h3⟩
    · rw [if_neg hp]
      exact ⟨pos, rfl, Nat.le_refl _, hpe, v, hv, by simpa using hp⟩

/-- a backward scan stops at the latest at `buffer[0]` when that byte fails the predicate -/
theorem scanBack_sentinel (p : Nat → Bool) (buf : List Nat) (x0 : Nat) (h0 : buf[0]? = some x0) (hp : p x0 = false) :
    ∀ q, q < buf.length → ∃ r, scanBack p buf q = some r ∧ r ≤ q := by
  intro q
  induction q with
  | zero =>
    intro _
    refine ⟨0, ?_, Nat.le_refl _⟩
    unfold scanBack; rw [h0]; simp [hp]
  | succ q ih =>
    intro hq
    obtain ⟨v, hv⟩ := exists_getElem? buf (q + 1) hq
    unfold scanBack; rw [hv]; simp only
    by_cases h : p v = true
    · rw [if_pos h]
      obtain ⟨r, hr, hle⟩ := ih (by omega)
      exact ⟨r, hr, by omega⟩
    · rw [if_neg h]; exact ⟨q + 1, rfl, Nat.le_refl _⟩

theorem toLower_space : toLower 0x20 = 0x20 := by decide

/-- `strncasecmp` against a literal without a blank stops at the blank at `e` -/
theorem matchLit_sentinel (buf : List Nat) (e : Nat) (he : buf[e]? = some 0x20) :
    ∀ lit pos, (∀ c ∈ lit, toLower c ≠ 0x20) → pos ≤ e →
      ∃ b, matchLit buf pos lit = some b ∧ (b = true → pos + lit.length ≤ e) := by
  intro lit
  induction lit with
  | nil => intro pos _ h; exact ⟨true, rfl, fun _ => by simpa using h⟩
  | cons c cs ih =>
    intro pos hl hpe
    have hlen : e < buf.length := lt_length_of_getElem? he
    obtain ⟨v, hv⟩ := exists_getElem? buf pos (by omega)
    unfold matchLit; rw [hv]; simp only
    by_cases hm : toLower v = toLower c
    · rw [if_pos hm]
      have hne : pos ≠ e := by
        intro h; subst h; rw [he] at hv; cases hv
        exact hl c (List.mem_cons_self) (by rw [← hm]; exact toLower_space)
      obtain ⟨b, hb, hb2⟩ := ih (pos + 1) (fun c' hc' => hl c' (List.mem_cons_of_mem _ hc')) (by omega)
      exact ⟨b, hb, fun h => by have := hb2 h; simp only [List.length_cons]; omega⟩
    · rw [if_neg hm]; exact ⟨false, rfl, fun h => by cases h⟩

/-- the buffer zap_links builds: `len + 3` bytes, blanks at 0 and `len + 1` -/
structure WF (buf : List Nat) (len : Nat) : Prop where
  length : buf.length = len + 3
  first : buf[0]? = some 0x20
  last : buf[len + 1]? = some 0x20
  fits : len + 3 ≤ zapBufferLen

theorem isDigit_space : isDigit 0x20 = false := by decide
theorem urlCh_space : urlCh 0x20 = false := by decide
theorem backCh_space : backCh 0x20 = false := by decide

/-- what zap_links needs of a `keyword` result at column `col` (1-based position in `buffer[]`) -/
structure Good (col len pre : Nat) (r : Kw) : Prop where
  pos : 1 ≤ r.n
  stays : col + r.n ≤ len + 1
  back : r.back + 1 ≤ col
  url : r.url ≤ pre + len + 1

theorem urlLoop_sentinel (buf : List Nat) (len : Nat) (wf : WF buf len) :
    ∀ fuel pos k l, pos ≤ len + 1 → len + 1 - pos < fuel →
      ∃ res, urlLoop buf fuel pos k l = some res ∧ ∀ e k' l', res = .done e k' l' → pos ≤ e ∧ e ≤ len + 1 := by
  intro fuel
  induction fuel with
  | zero => intro pos _ _ _ h; omega
  | succ f ih =>
    intro pos k l hpe hf
    have hfit := wf.fits
    obtain ⟨e, he, h1, h2, y, hy, hpy⟩ :=
      scanFwd_sentinel urlCh buf (len + 1) 0x20 wf.last urlCh_space scanFuel pos hpe
        (by unfold scanFuel; omega)
    unfold urlLoop; rw [he]; simp only [hy]
    by_cases hd : y = kwDot
    · rw [if_pos hd]
      by_cases hl : l + (e - pos) < 1
      · rw [if_pos hl]; exact ⟨.early, rfl, fun _ _ _ h => by cases h⟩
      · rw [if_neg hl]
        have hne : e ≠ len + 1 := by
          intro h; subst h; rw [wf.last] at hy; cases hy; revert hd; decide
        obtain ⟨res, hres, hb⟩ := ih (e + 1) (k + 1) 0 (by omega) (by omega)
        exact ⟨res, hres, fun e' k' l' h => by have := hb e' k' l' h; omega⟩
    · rw [if_neg hd]
      exact ⟨_, rfl, fun e' k' l' h => by cases h; exact ⟨h1, h2⟩⟩

theorem kwTail_good (buf : List Nat) (len : Nat) (wf : WF buf len) (col i : Nat) (email : Bool) (pre : Nat)
    (hc : 1 ≤ col) (hi : 1 ≤ i) (hci : col + i ≤ len + 1) :
    ∃ r, kwTail buf col i email pre = some r ∧ Good col len pre r := by
  obtain ⟨res, hres, hb⟩ := urlLoop_sentinel buf len wf scanFuel (col + i) 0 0 hci
    (by have := wf.fits; unfold scanFuel; omega)
  unfold kwTail; rw [hres]
  cases res with
  | early => exact ⟨_, rfl, ⟨hi, hci, by simp; omega, by simp <;> omega⟩⟩
  | done e k l =>
    obtain ⟨h1, h2⟩ := hb e k l rfl
    simp only
    by_cases hk : k < 1 ∨ l < 1
    · rw [if_pos hk]; exact ⟨_, rfl, ⟨hi, hci, by simp; omega, by simp <;> omega⟩⟩
    · rw [if_neg hk]
      cases email with
      | false =>
        simp only [Bool.false_eq_true, if_false]
        exact ⟨_, rfl, ⟨by simp; omega, by simp; omega, by simp; omega, by simp; omega⟩⟩
      | true =>
        simp only [if_true]
        have hc0 : col ≠ 0 := by omega
        rw [if_neg hc0]
        obtain ⟨r, hr, hle⟩ := scanBack_sentinel backCh buf 0x20 wf.first backCh_space (col - 1)
          (by have := wf.length; omega)
        rw [hr]; simp only
        by_cases hb0 : col - 1 - r = 0
        · rw [if_pos hb0]; exact ⟨_, rfl, ⟨hi, hci, by simp; omega, by simp <;> omega⟩⟩
        · rw [if_neg hb0]
          refine ⟨_, rfl, ⟨by simp; omega, by simp; omega, by simp; omega, ?_⟩⟩
          simp [kwAtSign]; omega

/-- soundness of a prefix table: no blank in the compared part, count = length >= 1, initial url text at most 7 bytes -/
def PrefOK (ps : List (List Nat × Nat × Bool × Nat)) : Prop :=
  ∀ q ∈ ps, (∀ c ∈ q.1.take q.2.1, toLower c ≠ 0x20) ∧ 1 ≤ q.2.1 ∧ (q.1.take q.2.1).length = q.2.1 ∧ q.2.2.2 ≤ 7

instance (ps) : Decidable (PrefOK ps) := by unfold PrefOK; infer_instance

theorem kwPrefix_sentinel (buf : List Nat) (len : Nat) (wf : WF buf len) (col : Nat) (hcol : col ≤ len + 1) :
    ∀ ps, PrefOK ps →
      ∃ res, kwPrefix buf col ps = some res ∧
        ∀ i email pre, res = some (i, email, pre) → 1 ≤ i ∧ col + i ≤ len + 1 ∧ pre ≤ 7 := by
  intro ps
  induction ps with
  | nil => intro _; exact ⟨none, rfl, fun _ _ _ h => by cases h⟩
  | cons q rest ih =>
    intro hok
    obtain ⟨lit, n, em, pre⟩ := q
    obtain ⟨h1, h2, h3, h4⟩ := hok (lit, n, em, pre) List.mem_cons_self
    obtain ⟨b, hb, hb2⟩ := matchLit_sentinel buf (len + 1) wf.last (lit.take n) col h1 hcol
    unfold kwPrefix; rw [hb]
    cases b with
    | true =>
      refine ⟨_, rfl, fun i email pre' h => ?_⟩
      cases h
      have := hb2 rfl
      simp only at h3 h2 h4
      exact ⟨h2, by omega, h4⟩
    | false =>
      obtain ⟨res, hres, hr⟩ := ih (fun q hq => hok q (List.mem_cons_of_mem _ hq))
      exact ⟨res, hres, hr⟩

theorem kwDigits_good (buf : List Nat) (len : Nat) (wf : WF buf len) (col subno c0 : Nat)
    (hc : 1 ≤ col) (hcl : col ≤ len) (h0 : buf[col]? = some c0) (hd : isDigit c0 = true) :
    ∃ r, kwDigits buf col subno = some r ∧ Good col len 0 r := by
  have hfit := wf.fits
  obtain ⟨e1, he1, h1, h2, y, hy, hpy⟩ :=
    scanFwd_sentinel isDigit buf (len + 1) 0x20 wf.last isDigit_space scanFuel col (by omega)
      (by unfold scanFuel; omega)
  have hgt : col < e1 := by
    rcases Nat.lt_or_ge col e1 with h | h
    · exact h
    · have : e1 = col := by omega
      subst this; rw [h0] at hy; cases hy; rw [hd] at hpy; cases hpy
  obtain ⟨prev, hprev⟩ := exists_getElem? buf (col - 1) (by have := wf.length; omega)
  unfold kwDigits; rw [he1]; simp only
  have hc0 : col ≠ 0 := by omega
  rw [if_neg hc0, hprev]; simp only
  split
  · exact ⟨_, rfl, ⟨by simp; omega, by simp; omega, by simp; omega, by simp <;> omega⟩⟩
  · split
    · exact ⟨_, rfl, ⟨by simp; omega, by simp; omega, by simp; omega, by simp <;> omega⟩⟩
    · rw [hy]; simp only
      split
      · exact ⟨_, rfl, ⟨by simp; omega, by simp; omega, by simp; omega, by simp <;> omega⟩⟩
      · rename_i hsep
        have hne : e1 ≠ len + 1 := by
          intro h; subst h; rw [wf.last] at hy; cases hy; revert hsep; decide
        obtain ⟨e2, he2, g1, g2, _⟩ :=
          scanFwd_sentinel isDigit buf (len + 1) 0x20 wf.last isDigit_space scanFuel (e1 + 1) (by omega)
            (by unfold scanFuel; omega)
        rw [he2]
        exact ⟨_, rfl, ⟨by simp; omega, by simp; omega, by simp; omega, by simp <;> omega⟩⟩

theorem kwPrefixes_ok : PrefOK kwPrefixes := by decide
theorem kwPrefixesAt_ok : PrefOK kwPrefixesAt := by decide

theorem good_mono {col len pre r} (h : Good col len pre r) (hp : pre ≤ 7) : Good col len 7 r :=
  ⟨h.pos, h.stays, h.back, by have := h.url; omega⟩

/-- `keyword` at any column `1 .. len` of a well-formed buffer: no read outside the initialised bytes, no scan bound used
    up, at least one byte consumed, nothing consumed behind the row, `back` stays behind the leading blank, url fits -/
theorem keyword_good (buf : List Nat) (len : Nat) (wf : WF buf len) (col subno : Nat) (hc : 1 ≤ col) (hcl : col ≤ len) :
    ∃ r, keyword buf col subno = some r ∧ Good col len 7 r := by
  obtain ⟨c0, h0⟩ := exists_getElem? buf col (by have := wf.length; omega)
  unfold keyword; rw [h0]; simp only
  by_cases hd : isDigit c0 = true
  · rw [if_pos hd]
    obtain ⟨r, hr, hg⟩ := kwDigits_good buf len wf col subno c0 hc hcl h0 hd
    exact ⟨r, hr, good_mono hg (by omega)⟩
  · rw [if_neg hd]
    obtain ⟨res, hres, hr⟩ := kwPrefix_sentinel buf len wf col (by omega) kwPrefixes kwPrefixes_ok
    rw [hres]
    match res, hr with
    | some (i, email, pre), hr =>
      obtain ⟨a, b, c⟩ := hr i email pre rfl
      obtain ⟨r, hr2, hg⟩ := kwTail_good buf len wf col i email pre hc a b
      exact ⟨r, hr2, good_mono hg c⟩
    | none, _ =>
      simp only
      split
      · obtain ⟨r, hr2, hg⟩ := kwTail_good buf len wf col kwAtLen true kwMailto hc (by decide)
          (by unfold kwAtLen; omega)
        exact ⟨r, hr2, good_mono hg (by decide)⟩
      · obtain ⟨res2, hres2, hr2⟩ := kwPrefix_sentinel buf len wf col (by omega) kwPrefixesAt kwPrefixesAt_ok
        rw [hres2]
        match res2, hr2 with
        | some (i, email, pre), hr2 =>
          obtain ⟨a, b, c⟩ := hr2 i email pre rfl
          obtain ⟨r, hr3, hg⟩ := kwTail_good buf len wf col i email pre hc a b
          exact ⟨r, hr3, good_mono hg c⟩
        | none, _ => exact ⟨_, rfl, ⟨by simp, by simp; omega, by simp; omega, by simp <;> omega⟩⟩

end Zvbi.Nav
