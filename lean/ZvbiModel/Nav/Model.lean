import ZvbiModel.Fmt.Model
import ZvbiModel.Generated.C01Nav
/-!
# Navigation part of src/teletext.c `vbi_format_vt_page`: `zap_links`, `keyword`, `flof_navigation_bar`, `flof_links`,
# `top_label`, `top_index` (cell writes), and the page-level driver of the Level 1 loop with `display_rows`

Conventions (DESIGN.md section 3, CONVENTIONS.md "Model style").  Every array access the C code performs is checked by
the model: a read / store outside the object makes the function return `none` (= `.oob`), as does a loop that uses up its
iteration bound.  Nothing is clamped.  `buffer[]` of zap_links is the list of exactly the bytes the C code initialised
(`len + 3`): a read behind the terminating NUL is a fault too (it would be uninitialised stack - F19's symptom).
`link[]` of zap_links is a list of `Option Bool`, `none` = never written (indeterminate automatic storage).
All numbers (extents, loop bounds, strides, keyword strings, character sets) are the regenerated ones of
`Generated/C01Nav.lean` (translate/gen_c01nav.py).  `ctype.h` is the C locale.
-/
namespace Zvbi.Nav
open Zvbi.Gen.C01Nav

/-! ## ctype.h / string.h in the C locale -/
def isDigit (c : Nat) : Bool := decide (0x30 ≤ c) && decide (c ≤ 0x39)
def isAlnum (c : Nat) : Bool :=
  isDigit c || (decide (0x41 ≤ c) && decide (c ≤ 0x5A)) || (decide (0x61 ≤ c) && decide (c ≤ 0x7A))
def toLower (c : Nat) : Nat := if 0x41 ≤ c ∧ c ≤ 0x5A then c + 32 else c
/-- `strchr (set, c) != NULL` - true for the terminating NUL as well -/
def inSet (set : List Nat) (c : Nat) : Bool := c == 0 || set.contains c
/-- RFC 1738 characters of the URL loop: `isalnum (c) || strchr ("%&/=?+-~:;@_", c)` -/
def urlCh (c : Nat) : Bool := isAlnum c || inSet kwUrlSet c
/-- the backward scan of the e-mail case: `isalnum (c) || strchr ("-~._", c)` -/
def backCh (c : Nat) : Bool := isAlnum c || inSet kwBackSet c

/-! ## scans over `buffer[]` (absolute positions) -/

/-- `while (p (s[i])) i++` from `pos`: the first position whose byte fails `p`; `none` = read outside / bound used up -/
def scanFwd (p : Nat → Bool) (buf : List Nat) : Nat → Nat → Option Nat
  | 0, _ => none
  | f + 1, pos =>
    match buf[pos]? with
    | none => none
    | some x => if p x then scanFwd p buf f (pos + 1) else some pos

/-- `for (; p (s[k - 1]); k--)` from position `q` downwards: the first position whose byte fails `p`;
    `none` = the scan would read `buffer[-1]` -/
def scanBack (p : Nat → Bool) (buf : List Nat) : Nat → Option Nat
  | 0 => match buf[0]? with
    | none => none
    | some x => if p x then none else some 0
  | q + 1 => match buf[q + 1]? with
    | none => none
    | some x => if p x then scanBack p buf q else some (q + 1)

/-- `!strncasecmp (s, lit, n)`: reads `s[0 ..]` up to the first difference -/
def matchLit (buf : List Nat) : Nat → List Nat → Option Bool
  | _, [] => some true
  | pos, c :: cs =>
    match buf[pos]? with
    | none => none
    | some x => if toLower x = toLower c then matchLit buf (pos + 1) cs else some false

/-- `ld->pgno = ld->pgno * 16 + (s[i] & 15)` over the given digits -/
def accHex (ds : List Nat) : Nat := ds.foldl (fun a d => a * 16 + (d &&& 15)) 0

/-- result of `keyword`: the return value, `-*back`, whether `ld->type != VBI_LINK_NONE`, `strlen (ld->url)` -/
structure Kw where
  n : Nat
  back : Nat := 0
  linked : Bool := false
  url : Nat := 0
  deriving Repr, DecidableEq

/-- iteration bound handed to the scans (never reached: `scan_terminates` theorems) -/
def scanFuel : Nat := zapBufferLen + 1

/-- the digit branch of `keyword` -/
def kwDigits (buf : List Nat) (col subno : Nat) : Option Kw :=
  match scanFwd isDigit buf scanFuel col with
  | none => none
  | some e1 =>
    let i := e1 - col
    let ldp := accHex ((buf.drop col).take (min i kwPgnoDigits))
    if col = 0 then none else                      -- `s[-1]`
    match buf[col - 1]? with
    | none => none
    | some prev =>
      if isDigit prev || decide (i > kwLongRun) then some { n := i }
      else if i = kwExact then some { n := i, linked := decide (kwPgLo ≤ ldp) && decide (ldp ≤ kwPgHi) }
      else
        match buf[e1]? with
        | none => none
        | some sep =>
          if !kwSeps.contains sep then some { n := i }
          else
            match scanFwd isDigit buf scanFuel (e1 + 1) with
            | none => none
            | some e2 =>
              let j := e2 - (e1 + 1)
              let lds := accHex ((buf.drop (e1 + 1)).take (min j kwSubDigits))
              some { n := i + 1 + j, linked := !(decide (j > kwSubRunMax) || subno != ldp || decide (lds > kwSubHi)) }

inductive UrlRes where
  | early                      -- `if (l < 1) return i;`
  | done (e k l : Nat)         -- `break` with the cursor at absolute position `e`
  deriving Repr

/-- `for (j = k = l = 0;;) { while (...) { j++; l++; } if (s[i + j] == '.') { ...; j++; k++; } else break; }` -/
def urlLoop (buf : List Nat) : Nat → Nat → Nat → Nat → Option UrlRes
  | 0, _, _, _ => none
  | f + 1, pos, k, l =>
    match scanFwd urlCh buf scanFuel pos with
    | none => none
    | some e =>
      match buf[e]? with
      | none => none
      | some c =>
        let l' := l + (e - pos)
        if c = kwDot then (if l' < 1 then some .early else urlLoop buf f (e + 1) (k + 1) 0)
        else some (.done e k l')

/-- `keyword` behind a recognised prefix of `i` bytes -/
def kwTail (buf : List Nat) (col i : Nat) (email : Bool) (pre : Nat) : Option Kw :=
  match urlLoop buf scanFuel (col + i) 0 0 with
  | none => none
  | some .early => some { n := i, linked := true, url := pre }
  | some (.done e k l) =>
    let j := e - (col + i)
    if k < 1 ∨ l < 1 then some { n := i, url := pre }
    else if email then
      if col = 0 then none else
      match scanBack backCh buf (col - 1) with
      | none => none
      | some r =>
        let bk := col - 1 - r
        if bk = 0 then some { n := i, url := pre }
        else some { n := i + j, back := bk, linked := true, url := pre + bk + kwAtSign + j }
    else some { n := i + j, linked := true, url := pre + (i + j) }

/-- the chain `else if (!strncasecmp ((char *) s, lit, i = n))` -/
def kwPrefix (buf : List Nat) (col : Nat) : List (List Nat × Nat × Bool × Nat) → Option (Option (Nat × Bool × Nat))
  | [] => some none
  | (lit, n, email, pre) :: rest =>
    match matchLit buf col (lit.take n) with
    | none => none
    | some true => some (some (n, email, pre))
    | some false => kwPrefix buf col rest

/-- `keyword (ld, p, column, pgno, subno, &back)`; `subno` is the caller's `pg->subno` -/
def keyword (buf : List Nat) (col subno : Nat) : Option Kw :=
  match buf[col]? with
  | none => none
  | some c0 =>
    if isDigit c0 then kwDigits buf col subno
    else
      match kwPrefix buf col kwPrefixes with
      | none => none
      | some (some (i, email, pre)) => kwTail buf col i email pre
      | some none =>
        if kwAtChars.contains c0 then kwTail buf col kwAtLen true kwMailto
        else
          match kwPrefix buf col kwPrefixesAt with
          | none => none
          | some (some (i, email, pre)) => kwTail buf col i email pre
          | some none => some { n := 1 }

/-! ## zap_links -/

/-- what zap_links reads of a cell -/
structure ZCell where
  unicode : Nat
  size : Nat
  deriving Repr, DecidableEq

/-- `acp[i].size == VBI_OVER_TOP || acp[i].size == VBI_OVER_BOTTOM` -/
def skipped (c : ZCell) : Bool := c.size == sizeVals.getD 4 4 || c.size == sizeVals.getD 5 5

/-- the bytes zap_links stores into `buffer[]`: `' '`, the cells that are not skipped, `' '`, NUL -/
def zapBuffer (cells : List ZCell) : List Nat :=
  zapPads.getD 0 32 :: ((cells.filter (fun c => !skipped c)).map
    (fun c => if zapCharLo ≤ c.unicode ∧ c.unicode ≤ zapCharHi then c.unicode else zapPad))
    ++ [zapPads.getD 1 32, zapPads.getD 2 0]

/-- `for (j = b; j < n; j++) link[i + j] = v;` with lo = i + b, hi = i + n -/
def setRange (link : List (Option Bool)) (lo hi : Nat) (v : Bool) : Option (List (Option Bool)) :=
  if lo < hi ∧ link.length < hi then none
  else some ((List.range link.length).map (fun idx => if lo ≤ idx ∧ idx < hi then some v else link.getD idx none))

/-- `for (i = 0; i < len; i += n) { n = keyword (&ld, buffer, i + 1, ...); for (j = b; j < n; j++) link[i + j] = ...; }` -/
def zapLoop (buf : List Nat) (len subno : Nat) : Nat → Nat → List (Option Bool) → Option (List (Option Bool))
  | 0, _, _ => none
  | f + 1, i, link =>
    if i ≥ len then some link
    else
      match keyword buf (i + zapOffsets.getD 4 1) subno with
      | none => none
      | some r =>
        if r.back > i then none                        -- `link[i + b]` in front of the array
        else if r.url ≥ urlLen then none               -- `ld.url[256]` with the NUL
        else
          match setRange link (i - r.back) (i + r.n) r.linked with
          | none => none
          | some link' => zapLoop buf len subno f (i + r.n) link'

/-- the third loop: `acp[i].link = link[j]; if (skipped) continue; j++;` - `none` inside = an indeterminate value stored -/
def zapAssign (link : List (Option Bool)) : List ZCell → Nat → Option (List (Option Bool))
  | [], _ => some []
  | c :: cs, j =>
    match link[j]? with
    | none => none
    | some v =>
      match zapAssign link cs (if skipped c then j else j + 1) with
      | none => none
      | some vs => some (v :: vs)

/-- `zap_links (pg, row)` on the first `zapCols` cells of the row: the new `link` bit of each cell.
    `cleared` = the source has `memset (link, 0, sizeof (link));` before the keyword loop (both shapes are followed) -/
def zapLinksF (cleared : Bool) (cells : List ZCell) (subno : Nat) : Option (List (Option Bool)) :=
  let cells := cells.take zapCols
  let buf := zapBuffer cells
  if buf.length > zapBufferLen then none else
  let len := buf.length - 3
  match zapLoop buf len subno (zapCols + 1) 0 (List.replicate zapLinkLen (if cleared then some false else none)) with
  | none => none
  | some link => zapAssign link (cells.take zapCols2) 0

/-- the current source -/
def zapLinks (cells : List ZCell) (subno : Nat) : Option (List (Option Bool)) := zapLinksF zapLinkCleared cells subno

/-! ## FLOF -/

/-- `flof_navigation_bar`: indices of the stores into `pg->text[]`, `pg->nav_index[]`, `pg->nav_link[]` -/
def flofBarText : List Nat :=
  (List.range flofFill).map (flofBase + ·) ++
  (List.range flofKeys).flatMap (fun i => (List.range flofDigits).map (fun k => flofBase2 + (i * flofStride + flofOff) + k))
def flofBarNavIndex : List Nat :=
  (List.range flofKeys).flatMap (fun i => (List.range flofDigits).map (fun k => (i * flofStride + flofOff) + k))
def flofBarNavLink : List Nat := List.range flofKeys

/-- state of the scan of `flof_links` over row 24: `col` (C: -1 = `none`) and `start` -/
structure FlofSt where
  col : Option Nat := none
  start : Nat := 0

/-- the inner `for (j = i - 1; j >= start && acp[j].unicode == 0x0020; j--); for (; j >= start; j--) { ... }`:
    positions read (`acp[j]`, tag 0) and written (`acp[j].link` tag 0, `nav_index[j]` tag 1) - among `start .. i - 1` -/
def flofMark (uni : Nat → Nat) (start i : Nat) : List (Nat × Nat) :=
  let js := ((List.range i).filter (fun j => start ≤ j)).reverse      -- j = i-1 .. start
  let trail := (js.takeWhile (fun j => uni j == 0x20)).length
  (js.take (trail + 1)).map (fun j => (0, j)) ++ (js.drop trail).flatMap (fun j => [(0, j), (1, j)])

/-- `k` of `for (k = 0; k < 4; k++) if ((int) flof_link_col[k] == col) break;` -/
def flofKey (col : Option Nat) : Nat :=
  match col with
  | none => flofLinksKeys
  | some c => ([1, 2, 3, 6].findIdx? (· == c)).getD flofLinksKeys

/-- accesses of iteration `i` of `for (i = 0; i < COLUMNS + 1; i++)`: tag 0 = `acp[idx]` (relative to LAST_ROW), tag 1 =
    `nav_index[idx]`, tag 2 = `lop.link[k]` / `nav_link[k]`; `noPage k` = `NO_PAGE (link[k].pgno)` -/
def flofStepLog (fg uni : Nat → Nat) (noPage : Nat → Bool) (s : FlofSt) (i : Nat) : List (Nat × Nat) :=
  let rd : List (Nat × Nat) := if i = flofLinksStop then [] else [(0, i)]
  if i = flofLinksStop ∨ some (fg i &&& 7) ≠ s.col then
    let k := flofKey s.col
    let hit : List (Nat × Nat) :=
      if k < flofLinksKeys2 then (2, k) :: (if !noPage k then flofMark uni s.start i ++ [(2, k)] else []) else []
    rd ++ hit ++ (if i ≥ flofLinksBreak then [] else [(0, i), (0, i)])
  else rd ++ (if s.start = i then [(0, i)] else [])

/-- the new `(col, start)`; `none` = `break` -/
def flofStep (fg uni : Nat → Nat) (s : FlofSt) (i : Nat) : Option FlofSt :=
  if i = flofLinksStop ∨ some (fg i &&& 7) ≠ s.col then
    if i ≥ flofLinksBreak then none
    else some { col := some (fg i &&& 7), start := if uni i = 0x20 then i + 1 else i }
  else some (if s.start = i ∧ uni i = 0x20 then { s with start := s.start + 1 } else s)

/-- all accesses of `flof_links`, iterations `i ..` with `n` iterations left -/
def flofLinksFrom (fg uni : Nat → Nat) (noPage : Nat → Bool) : Nat → Nat → FlofSt → List (Nat × Nat)
  | 0, _, _ => []
  | n + 1, i, s =>
    flofStepLog fg uni noPage s i ++
      (match flofStep fg uni s i with
       | none => []
       | some s' => flofLinksFrom fg uni noPage n (i + 1) s')

def flofLinksLog (fg uni : Nat → Nat) (noPage : Nat → Bool) : List (Nat × Nat) :=
  flofLinksFrom fg uni noPage flofLinksEnd 0 {}

/-! ## TOP -/

/-- `top_label`: relative cell positions (to `LAST_ROW`) written for a title whose last non-blank character is `i`
    (`i = none`: all blank, C: -1), by call parameters `index`, `ff`; the same numbers index `pg->nav_index[]` -/
def topLabelCols (index ff : Nat) (i : Option Nat) : List Nat :=
  let column := index * topStride + topOff
  let i1 := match i with | none => 0 | some v => v + 1        -- i + 1
  let last := topTextLast
  if ff ≠ 0 ∧ i1 ≤ last + 1 - ff then
    let column := column + (last + 1 - ff - i1) / 2
    [column + i1, column + i1 + 1] ++ (if ff > 1 then [column + i1 + 2] else []) ++ (List.range i1).map (column + ·)
  else
    let column := column + (last + 1 - i1) / 2
    (List.range i1).map (column + ·)

/-- `top_index`: relative positions (to the row pointer `acp`) written for one title line -/
def topIndexCols (k0 : Nat) (i : Option Nat) : List Nat :=
  let i1 := match i with | none => 0 | some v => v + 1
  (List.range i1).map (k0 + ·)
    ++ ((List.range (tixDotsLast + 1)).filter (fun k => k0 + i1 - 1 + tixDotsAdd ≤ k))
    ++ (List.range tixDigits).map (· + tixDigitsAt)

/-- the title `_("TOP Index")` in double size: `pg->text[1 * EXT_COLUMNS + 2 + i * 2]` for a string of `n` characters -/
def topIndexTitle (n : Nat) : List Nat :=
  (List.range n).map (fun i => tixTitle.getD 0 1 * tixTitle.getD 1 41 + tixTitle.getD 2 2 + i * tixTitle.getD 3 2)

end Zvbi.Nav
