import ZvbiModel.Nav.Model
/-!
# `vbi_format_vt_page` at Level 1 with `display_rows` and the navigation block: executable composition

`l1Rows` is the Level 1 loop for `display_rows = dr`; `navPage` then runs the navigation block of
src/teletext.c (`zap_links` on rows `1 .. MIN (ROWS - 1, display_rows) - 1`, and for `display_rows >= ROWS` the FLOF
part: `flof_links` when packet 24 was received, else `flof_navigation_bar`) on top of it, using `zapLinks`,
`flofLinksLog`, `flofKey`, `flofBarText`, `flofBarNavIndex`, `flofBarNavLink` of `Nav/Model.lean`.
No TOP (`vbi->cn->have_top` false).  The caller's `vbi_page` is all zero before the call (harness/nav_harness.c).
The stage of lib/nav_util.py diffs `Driver/Nav.lean` against harness/nav_harness.c.
-/
namespace Zvbi.Nav
open Zvbi.Gen.C01Nav Zvbi.Fmt

/-- `for (row = 0; row < display_rows; row++) { ...; if (double_height) { ...; row++; } }`: a double-height row at the
    last displayed row still writes the row below -/
def l1From (p : PageIn) (dr : Nat) : Nat → Nat → List (List Cell)
  | 0, _ => []
  | fuel + 1, row =>
    if row ≥ dr then [] else
    let r := formatRow (rowCtx p row)
    if r.2 then r.1 :: lowerRow r.1 :: l1From p dr fuel (row + 2)
    else r.1 :: l1From p dr fuel (row + 1)

/-- `pg->text` rows written by the Level 1 loop for `display_rows = dr` (rows not formatted do not exist) -/
def l1Rows (p : PageIn) (dr : Nat) : List (List Cell) := l1From p dr rows 0

/-- what the stage observes of a `vbi_char` -/
structure NCell where
  unicode : Nat := 0
  size : Nat := 0
  link : Option Bool := some false        -- `none` = indeterminate
  deriving Repr, DecidableEq

/-- the observable result of `vbi_format_vt_page (.., VBI_WST_LEVEL_1, dr, navigation)` on a zeroed `vbi_page` -/
structure NavOut where
  text : List (List NCell)                 -- rows written (at most 25), 40 cells each
  navIndex : List Nat                      -- nav_index[0..39]
  navLink : List Link                      -- nav_link[0..5]
  deriving Repr

def zcells (row : List Cell) : List ZCell := row.map (fun c => ⟨c.unicode, c.size⟩)

def plainRow (row : List Cell) : List NCell := (row.take columns).map (fun c => { unicode := c.unicode, size := c.size })

/-- `zap_links (pg, row)`; `none` = the model faults -/
def zapRow (row : List Cell) (subno : Nat) : Option (List NCell) :=
  match zapLinks (zcells row) subno with
  | none => none
  | some bits =>
    some (((row.take columns).zip bits).map (fun (c, b) => { unicode := c.unicode, size := c.size, link := b }))

/-- rows `0 ..` of the page after the `zap_links` loop; `.error row` = model fault in that row -/
def zapRows (rows : List (List Cell)) (dr subno : Nat) : Except Nat (List (List NCell)) :=
  let lim := min (Zvbi.Gen.C01Nav.rows - 1) dr
  (rows.zipIdx).mapM (fun (r, i) =>
    if 1 ≤ i ∧ i < lim then
      match zapRow r subno with
      | none => .error i
      | some cs => .ok cs
    else .ok (plainRow r))

/-- `flof_link_col[k]` -/
def flofLinkCol (k : Nat) : Nat := [1, 2, 3, 6].getD k 0

/-- `flof_links`: row 24, nav_index, the keys whose `nav_link` is written -/
def flofLinksRow (row : List Cell) (links : List Link) (navIndex : List Nat) :
    List NCell × List Nat × List Nat :=
  let fg := fun j => (row.getD j {}).fg
  let uni := fun j => (row.getD j {}).unicode
  let np := fun k => noPage (links.getD k ⟨0, 0⟩).pgno
  let log := flofLinksLog fg uni np
  let marked := fun j => log.contains (1, j)
  let cells := ((row.take columns).zipIdx).map (fun (c, j) =>
    ({ unicode := c.unicode, size := c.size, link := some (marked j) } : NCell))
  let idx := (navIndex.zipIdx).map (fun (v, j) => if marked j then flofKey (some (fg j &&& 7)) else v)
  let keys := (List.range flofLinksKeys).filter (fun k =>
    !np k && (List.range columns).any (fun j => fg j &&& 7 == flofLinkCol k))
  (cells, idx, keys)

/-- the character `n` of `flof_navigation_bar` for hex digit `d`: `n = d + '0'; if (n > '9') n += 'A' - '9';` -/
def flofBarChar (d : Nat) : Nat := if d + 0x30 > 0x39 then d + 0x30 + (0x41 - 0x39) else d + 0x30

/-- `flof_navigation_bar`: row 24 (40 cells), nav_index -/
def flofBarRow (links : List Link) (navIndex : List Nat) : List NCell × List Nat :=
  let digitAt (j : Nat) : Option (Nat × Nat) :=        -- (key i, digit k) stored at relative column j
    ((List.range flofKeys).flatMap (fun i => (List.range flofDigits).map (fun k => (i, k)))).find?
      (fun (i, k) => i * flofStride + flofOff + k == j)
  let cells := (List.range columns).map (fun j =>
    match digitAt j with
    | some (i, k) =>
      ({ unicode := flofBarChar (((links.getD i ⟨0, 0⟩).pgno >>> ((flofDigits - 1 - k) * 4)) &&& 15), size := 0,
         link := some (flofBarNavIndex.contains j) } : NCell)
    | none => { unicode := 0x20, size := 0, link := some false })
  let idx := (navIndex.zipIdx).map (fun (v, j) =>
    match digitAt j with
    | some (i, _) => i
    | none => v)
  (cells, idx)

def listSet (l : List α) (i : Nat) (v : α) : List α := (l.zipIdx).map (fun (x, j) => if j = i then v else x)

/-- `vbi->cn->initial_page` of a fresh decoder -/
def initialPage : Link := ⟨0x100, 0x3F7F⟩

/-- the whole call; `.error row` = `zapLinks` faults in that row -/
def navPage (p : PageIn) (dr : Nat) (navigation haveFlof has24 : Bool) (links : List Link) : Except Nat NavOut :=
  let rows := l1Rows p dr
  let zero : Link := ⟨0, 0⟩
  let idx0 := List.replicate columns 0
  let nl0 := List.replicate navLinkLen zero
  if !navigation then .ok { text := rows.map plainRow, navIndex := idx0, navLink := nl0 }
  else
    match zapRows rows dr p.subno with
    | .error r => .error r
    | .ok text =>
      let nl := listSet nl0 5 initialPage
      if dr < Zvbi.Gen.C01Nav.rows ∨ !haveFlof then .ok { text := text, navIndex := idx0, navLink := nl }
      else
        let l5 := links.getD 5 zero
        let nl := if 0x100 ≤ l5.pgno ∧ l5.pgno ≤ 0x899 ∧ l5.pgno &&& 0xFF ≠ 0xFF then listSet nl 5 l5 else nl
        let last := Zvbi.Gen.C01Nav.rows - 1
        if has24 then
          let (cells, idx, keys) := flofLinksRow (rows.getD last []) links idx0
          .ok { text := listSet text last cells, navIndex := idx,
                navLink := keys.foldl (fun acc k => listSet acc k (links.getD k zero)) nl }
        else
          let (cells, idx) := flofBarRow links idx0
          .ok { text := listSet text last cells, navIndex := idx,
                navLink := flofBarNavLink.foldl (fun acc k => listSet acc k (links.getD k zero)) nl }

end Zvbi.Nav
