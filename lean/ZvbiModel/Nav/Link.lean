import ZvbiModel.Nav.Model
import ZvbiModel.Generated.C01Link
/-!
# src/teletext.c `vbi_resolve_link`, `vbi_resolve_home`, `ait_title`, `vbi_page_title` with checked accesses

Extends `Nav/Model.lean` by import (`keyword` is the model of that file).  Conventions as there: every array access the C code
performs is checked, a read / store outside the object makes the function return `none`, nothing is clamped.  `buffer[43]` of
vbi_resolve_link is a list of `Option Nat`, `none` = never written (indeterminate automatic storage): READING such a byte is a
fault, too (`rd`).  `j`, `b`, `row`, `column` are `Int` as in C (`j = b = -1`).  All numbers are the regenerated ones of
`Generated/C01Link.lean` (translate/gen_c01link.py), the statement skeleton of the four functions is pinned by a digest there.
-/
namespace Zvbi.Nav.Link
open Zvbi.Nav Zvbi.Gen.C01Link

/-! ## `buffer[]` with unwritten bytes -/

/-- read `buffer[idx]`: `none` outside the array AND for a byte no store has written yet -/
def rd (buf : List (Option Nat)) (idx : Int) : Option Nat :=
  if idx < 0 then none else
  match buf[idx.toNat]? with
  | some (some v) => some v
  | _ => none

/-- store `buffer[idx] = v`: `none` outside the array -/
def st (buf : List (Option Nat)) (idx : Int) (v : Nat) : Option (List (Option Nat)) :=
  if idx < 0 ∨ (buf.length : Int) ≤ idx then none else some (buf.set idx.toNat (some v))

/-- `!strncasecmp ((char *) buffer + pos, lit, n)` on the automatic buffer: reads up to the first difference -/
def matchO (buf : List (Option Nat)) : Int → List Nat → Option Bool
  | _, [] => some true
  | pos, c :: cs =>
    match rd buf pos with
    | none => none
    | some x => if toLower x = toLower c then matchO buf (pos + 1) cs else some false

/-- the bytes handed to `keyword`: all of them must have been written -/
def allWritten : List (Option Nat) → Option (List Nat)
  | [] => some []
  | none :: _ => none
  | some x :: xs => (allWritten xs).map (x :: ·)

/-! ## vbi_resolve_link: the buffer loop -/

/-- what vbi_resolve_link reads of a cell -/
structure LCell where
  unicode : Nat
  size : Nat
  link : Bool
  deriving Repr, DecidableEq

structure LSt where
  j : Int
  b : Int
  buf : List (Option Nat)
  deriving Repr, DecidableEq

/-- `acp[i].size == VBI_OVER_TOP || acp[i].size == VBI_OVER_BOTTOM` -/
def skippedL (c : LCell) : Bool := c.size == overTop || c.size == overBottom

/-- the block `if (b <= 0) { ... }` behind the store of `ch` into `buffer[j + 1]`: the new `b` -/
def newB (buf : List (Option Nat)) (j b : Int) (ch : Nat) : Option Int :=
  if b ≤ rlBGuard then
    if ch = rlParen ∧ j > rlLookGuard then
      match matchO buf (j + rlStoreOff - rlAtSub) (rlAtLit.take rlAtCnt) with
      | none => none
      | some true => some (j - rlAtB)
      | some false =>
        match matchO buf (j + rlStoreOff - rlASub) (rlALit.take rlACnt) with
        | none => none
        | some true => some (j - rlAB)
        | some false => some b
    else if rlAtChars.contains ch then some j
    else some b
  else some b

/-- `if (i < column && !acp[i].link) j = b = -1;` -/
def rlRestartSt (column : Int) (i : Nat) (c : LCell) (s : LSt) : LSt :=
  if (i : Int) < column ∧ c.link = false then { s with j := rlRestart, b := rlRestart } else s

/-- `(acp[i].unicode >= 0x20 && acp[i].unicode <= 0xFF) ? acp[i].unicode : 0x20` -/
def cellChar (c : LCell) : Nat := if rlCharLo ≤ c.unicode ∧ c.unicode ≤ rlCharHi then c.unicode else rlPad

/-- `buffer[j + 1] = ch; if (b <= 0) { ... } j++;` -/
def rlPut (s : LSt) (ch : Nat) : Option LSt :=
  match st s.buf (s.j + rlStoreOff) ch with
  | none => none
  | some buf =>
    match newB buf s.j s.b ch with
    | none => none
    | some b' => some { j := s.j + 1, b := b', buf := buf }

/-- one iteration of `for (i = j = b = 0; i < COLUMNS; i++)` -/
def rlStep (column : Int) (i : Nat) (c : LCell) (s : LSt) : Option LSt :=
  if skippedL c then some s else rlPut (rlRestartSt column i c s) (cellChar c)

/-- iterations `i ..` with `n` left; `cell i` = `acp[i]` -/
def rlLoop (column : Int) (cell : Nat → LCell) : Nat → Nat → LSt → Option LSt
  | 0, _, s => some s
  | n + 1, i, s =>
    match rlStep column i (cell i) s with
    | none => none
    | some s' => rlLoop column cell n (i + 1) s'

def rlStart : LSt := { j := rlInit, b := rlInit, buf := List.replicate rlBufferLen none }

/-- `buffer[0] = ' '; buffer[j + 1] = ' '; buffer[j + 2] = 0;` and the bytes `buffer[0 .. j + 2]` as `keyword` sees them -/
def rlFinish (s : LSt) : Option (List Nat) :=
  match st s.buf rlIdx0 rlBlank0 with
  | none => none
  | some b1 =>
    match st b1 (s.j + rlEnd1) rlBlank1 with
    | none => none
    | some b2 =>
      match st b2 (s.j + rlEnd2) rlNul with
      | none => none
      | some b3 => if s.j + rlEnd2 + 1 < 0 then none else allWritten (b3.take (s.j + rlEnd2 + 1).toNat)

/-- one `keyword (ld, buffer, col, ...)` call: column in front of the buffer or `ld->url[256]` overrun = fault -/
def kwCall (bytes : List Nat) (col : Int) (subno : Nat) : Option Kw :=
  if col < 0 then none else
  match keyword bytes col.toNat subno with
  | none => none
  | some r => if r.url + 1 ≥ urlLen then none else some r

/-- the text part of vbi_resolve_link (rows 1 .. 23): the results of the first and, if it ran, of the second keyword call -/
def resolveText (column : Int) (cell : Nat → LCell) (subno : Nat) : Option (Kw × Option Kw) :=
  match rlLoop column cell rlCols 0 rlStart with
  | none => none
  | some s =>
    match rlFinish s with
    | none => none
    | some bytes =>
      match kwCall bytes rlKwCol subno with
      | none => none
      | some r1 =>
        if r1.linked then some (r1, none)
        else
          match kwCall bytes (s.b + rlKwOff) subno with
          | none => none
          | some r2 => some (r1, some r2)

/-! ## vbi_resolve_link: entry, vbi_resolve_home -/

/-- accesses of vbi_resolve_link outside `buffer[]`, tag 0 = `pg->text[idx]`, tag 1 = `pg->nav_index[idx]`, tag 2 =
    `pg->nav_link[idx]`; `link` = `acp[column].link` (read only in row 24), `navIdx` = the value found in `nav_index[column]`.
    The `assert` is a precondition of the theorems (a failed assertion aborts). -/
def rlEntryLog (column row : Int) (link : Bool) (navIdx pgno : Int) : List (Nat × Int) :=
  if row = rlNavRow then
    (0, row * rlStride + column) :: (if link then [(1, column), (2, navIdx)] else [])
  else if row < rlRowLo ∨ row > rlRowHi ∨ column ≥ rlColHi ∨ pgno < rlPgnoLo then []
  else (List.range rlCols).map (fun (i : Nat) => ((0 : Nat), row * rlStride + (i : Int)))

def okLink (a : Nat × Int) : Prop :=
  0 ≤ a.2 ∧ a.2 < (if a.1 = 0 then (textLen : Int) else if a.1 = 1 then (navIndexLen : Int) else (navLinkLen : Int))

/-- vbi_resolve_home: the `nav_link[]` elements read -/
def rhLog (pgno : Int) : List Nat := if pgno < rhPgnoLo then [] else [rhIdx, rhIdx]

/-! ## ait_title -/

/-- `for (i = 11; i >= 0; i--) if (ait->text[i] > 0x20) break;` : the final `i` (-1 = all blank) and the `text[]` indices read -/
def atScan (text : Nat → Nat) : Nat → Int → Int × List Int
  | 0, i => (i, [])
  | n + 1, i =>
    if i ≥ atStop then
      if text i.toNat > atBlank then (i, [i])
      else let r := atScan text n (i - 1); (r.1, i :: r.2)
    else (i, [])

/-- accesses of ait_title: tag 0 = `ait->text[idx]`, tag 1 = `buf[idx]` (store), tag 2 = `font[idx]`,
    tag 3 = the character handed to vbi_teletext_unicode -/
def atLog (text : Nat → Nat) : List (Nat × Int) :=
  let r := atScan text (atStart + 1).toNat atStart
  r.2.map (fun i => (0, i)) ++ [(1, r.1 + atNulOff)] ++
    (List.range (r.1 + 1).toNat).flatMap (fun (k : Nat) =>
      [((2 : Nat), (0 : Int)), (0, (k : Int)), (3, (((if text k < atCharLo then atCharPad else text k) : Nat) : Int)), (1, (k : Int))])

/-! ## vbi_page_title: loop bounds and the reference ledger -/

/-- what happens to one BTT link whose function is AIT -/
inductive PtCase where
  | notCached        -- `_vbi_cache_get_page` returned NULL
  | wrongFunction    -- a page, but not an AIT page
  | found            -- the title is in this page: ait_title, `return TRUE`
  | notFound         -- no title with this pgno in the page
  deriving Repr, DecidableEq

/-- references taken (successful `_vbi_cache_get_page`) and released (`cache_page_unref`) by one case -/
def ptRefs : PtCase → Nat × Nat
  | .notCached => (0, ptUnrefNotCached)
  | .wrongFunction => (1, ptUnrefWrongFunction)
  | .found => (1, ptUnrefFound)
  | .notFound => (1, ptUnrefNotFound)

/-- the ledger over the cases the loop meets, up to and including the first `found` (which returns) -/
def ptLedger : List PtCase → Nat × Nat
  | [] => (0, 0)
  | c :: cs =>
    let r := ptRefs c
    if c = .found then r else let t := ptLedger cs; (r.1 + t.1, r.2 + t.2)

end Zvbi.Nav.Link
