import ZvbiModel.Nav.Link
import ZvbiModel.Nav.Lemmas
/-!
# Lemmas for `Nav/Link.lean`: the buffer loop of vbi_resolve_link keeps `-1 <= b <= j <= i`, every byte `buffer[1 .. j]` written;
# the finished buffer is well-formed for the keyword lemmas; `keyword` on a blank (column 0 and column `len + 1`)
-/
namespace Zvbi.Nav.Link
open Zvbi.Nav Zvbi.Gen.C01Link

/-- the bytes `buffer[1 .. j]` have been written -/
def Written (buf : List (Option Nat)) (j : Int) : Prop :=
  ∀ k : Nat, 1 ≤ k → (k : Int) ≤ j → ∃ v, buf[k]? = some (some v)

theorem rd_written {buf : List (Option Nat)} {j : Int} (h : Written buf j) (p : Int) (h1 : 1 ≤ p) (h2 : p ≤ j) :
    ∃ v, rd buf p = some v := by
  obtain ⟨v, hv⟩ := h p.toNat (by omega) (by omega)
  refine ⟨v, ?_⟩
  unfold rd
  rw [if_neg (by omega), hv]

theorem matchO_ok (buf : List (Option Nat)) (j : Int) (h : Written buf j) :
    ∀ (lit : List Nat) (p : Int), 1 ≤ p → p + (lit.length : Int) ≤ j + 1 → ∃ b, matchO buf p lit = some b := by
  intro lit
  induction lit with
  | nil => intro p _ _; exact ⟨true, rfl⟩
  | cons c cs ih =>
    intro p h1 h2
    simp only [List.length_cons] at h2
    obtain ⟨v, hv⟩ := rd_written h p h1 (by omega)
    unfold matchO; rw [hv]; simp only
    split
    · exact ih (p + 1) (by omega) (by omega)
    · exact ⟨false, rfl⟩

/-- the look-back block never reads in front of `buffer[1]` nor an unwritten byte, and leaves `-1 <= b <= j` -/
theorem newB_ok (buf : List (Option Nat)) (j b : Int) (ch : Nat) (h : Written buf j) (hb1 : -1 ≤ b) (hb2 : b ≤ j)
    (hj : -1 ≤ j) : ∃ b', newB buf j b ch = some b' ∧ -1 ≤ b' ∧ b' ≤ j := by
  -- what the proof needs of the regenerated numbers: with `j > guard` both look-back pointers are at `buffer[1]` or behind,
  -- the compared bytes end at `buffer[j]`, and the new `b` is -1 or more
  have a1 : 1 ≤ (rlLookGuard + 1) + rlStoreOff - rlAtSub := by decide
  have a2 : rlStoreOff - rlAtSub + ((rlAtLit.take rlAtCnt).length : Int) ≤ 1 := by decide
  have a3 : -1 ≤ (rlLookGuard + 1) - rlAtB ∧ 0 ≤ rlAtB := by decide
  have c1 : 1 ≤ (rlLookGuard + 1) + rlStoreOff - rlASub := by decide
  have c2 : rlStoreOff - rlASub + ((rlALit.take rlACnt).length : Int) ≤ 1 := by decide
  have c3 : -1 ≤ (rlLookGuard + 1) - rlAB ∧ 0 ≤ rlAB := by decide
  unfold newB
  split
  · split
    · rename_i hg
      obtain ⟨r1, hr1⟩ := matchO_ok buf j h (rlAtLit.take rlAtCnt) (j + rlStoreOff - rlAtSub) (by omega) (by omega)
      obtain ⟨r2, hr2⟩ := matchO_ok buf j h (rlALit.take rlACnt) (j + rlStoreOff - rlASub) (by omega) (by omega)
      rw [hr1]
      cases r1 with
      | true => exact ⟨_, rfl, by omega, by omega⟩
      | false =>
        simp only; rw [hr2]
        cases r2 with
        | true => exact ⟨_, rfl, by omega, by omega⟩
        | false => exact ⟨_, rfl, hb1, hb2⟩
    · split
      · exact ⟨_, rfl, hj, Int.le_refl _⟩
      · exact ⟨_, rfl, hb1, hb2⟩
  · exact ⟨_, rfl, hb1, hb2⟩

/-- loop invariant; `lo` = 0 between iterations, -1 behind the restart -/
structure Inv (lo : Int) (i : Nat) (s : LSt) : Prop where
  len : s.buf.length = rlBufferLen
  j1 : lo ≤ s.j
  j2 : s.j ≤ i
  b1 : -1 ≤ s.b
  b2 : s.b ≤ s.j
  wr : Written s.buf s.j

theorem st_some (buf : List (Option Nat)) (idx : Int) (v : Nat) (h0 : 0 ≤ idx) (h1 : idx < buf.length) :
    st buf idx v = some (buf.set idx.toNat (some v)) := by
  unfold st; rw [if_neg (by omega)]

theorem rlStart_inv : Inv 0 0 rlStart :=
  ⟨by simp [rlStart], by decide, by decide, by decide, by decide, fun k h1 h2 => by
    have : rlStart.j = 0 := rfl
    omega⟩

theorem rlRestart_inv (column : Int) (i : Nat) (c : LCell) (s : LSt) (h : Inv 0 i s) :
    Inv (-1) i (rlRestartSt column i c s) := by
  have r : rlRestart = -1 := rfl
  unfold rlRestartSt
  split
  · exact ⟨h.len, by simp only; omega, by simp only; omega, by simp only; omega, by simp only; omega,
      fun k h1 h2 => by simp only at h2; omega⟩
  · exact ⟨h.len, by have := h.j1; omega, h.j2, h.b1, h.b2, h.wr⟩

theorem rlPut_inv (i : Nat) (s : LSt) (ch : Nat) (hi : i < rlCols) (h : Inv (-1) i s) :
    ∃ s', rlPut s ch = some s' ∧ Inv 0 (i + 1) s' := by
  have o : rlStoreOff = 1 := rfl
  have cl : rlCols + 3 ≤ rlBufferLen := by decide
  have hlen := h.len
  have hj1 := h.j1
  have hj2 := h.j2
  have hidx : (s.j + rlStoreOff).toNat < s.buf.length := by omega
  unfold rlPut
  rw [st_some _ _ _ (by omega) (by omega)]
  simp only
  have hw : Written (s.buf.set (s.j + rlStoreOff).toNat (some ch)) (s.j + 1) := by
    intro k k1 k2
    by_cases hk : (s.j + rlStoreOff).toNat = k
    · exact ⟨ch, by rw [← hk, List.getElem?_set_self hidx]⟩
    · obtain ⟨w, hw⟩ := h.wr k k1 (by omega)
      exact ⟨w, by rw [List.getElem?_set_ne hk]; exact hw⟩
  have hw0 : Written (s.buf.set (s.j + rlStoreOff).toNat (some ch)) s.j :=
    fun k k1 k2 => hw k k1 (by omega)
  obtain ⟨b', hb, hb1, hb2⟩ := newB_ok _ s.j s.b ch hw0 h.b1 h.b2 h.j1
  rw [hb]
  exact ⟨_, rfl, ⟨by simp only [List.length_set]; exact hlen, by simp only; omega, by simp only; omega, hb1,
    by simp only; omega, hw⟩⟩

theorem rlStep_inv (column : Int) (i : Nat) (c : LCell) (s : LSt) (hi : i < rlCols) (h : Inv 0 i s) :
    ∃ s', rlStep column i c s = some s' ∧ Inv 0 (i + 1) s' := by
  unfold rlStep
  split
  · exact ⟨s, rfl, ⟨h.len, h.j1, by have := h.j2; omega, h.b1, h.b2, h.wr⟩⟩
  · exact rlPut_inv i _ _ hi (rlRestart_inv column i c s h)

theorem rlLoop_inv (column : Int) (cell : Nat → LCell) :
    ∀ n i s, i + n ≤ rlCols → Inv 0 i s → ∃ s', rlLoop column cell n i s = some s' ∧ Inv 0 (i + n) s' := by
  intro n
  induction n with
  | zero => intro i s _ h; exact ⟨s, rfl, h⟩
  | succ n ih =>
    intro i s hn h
    obtain ⟨s1, h1, hi1⟩ := rlStep_inv column i (cell i) s (by omega) h
    obtain ⟨s2, h2, hi2⟩ := ih (i + 1) s1 (by omega) hi1
    unfold rlLoop; rw [h1]; simp only
    exact ⟨s2, h2, by rw [show i + (n + 1) = i + 1 + n by omega]; exact hi2⟩

theorem allWritten_ok : ∀ (l : List (Option Nat)), (∀ k, k < l.length → ∃ v, l[k]? = some (some v)) →
    ∃ bs, allWritten l = some bs ∧ bs.length = l.length ∧ ∀ (k v : Nat), l[k]? = some (some v) → bs[k]? = some v
  | [], _ => ⟨[], rfl, rfl, fun k v h => by simp at h⟩
  | none :: xs, h => by obtain ⟨v, hv⟩ := h 0 (by simp); simp at hv
  | some x :: xs, h => by
    obtain ⟨bs, h1, h2, h3⟩ := allWritten_ok xs (fun k hk => by
      obtain ⟨v, hv⟩ := h (k + 1) (by simp; omega)
      exact ⟨v, by simpa using hv⟩)
    refine ⟨x :: bs, by simp [allWritten, h1], by simp [h2], fun k v hk => ?_⟩
    cases k with
    | zero => simp at hk; simp [hk]
    | succ k => simp at hk; simp; exact h3 k v hk

/-- the finished buffer: blank, `j` written bytes, blank, NUL - the shape the keyword lemmas are stated for -/
theorem rlFinish_ok (s : LSt) (i : Nat) (hi : i ≤ rlCols) (h : Inv 0 i s) :
    ∃ bytes, rlFinish s = some bytes ∧ WF bytes s.j.toNat := by
  obtain ⟨n, hn⟩ := Int.eq_ofNat_of_zero_le h.j1
  have hlen := h.len
  have hj2 := h.j2
  have c1 : rlCols + 3 ≤ rlBufferLen := by decide
  have c2 : rlCols + 3 ≤ Zvbi.Gen.C01Nav.zapBufferLen := by decide
  have c3 : rlEnd1 = 1 := rfl
  have c4 : rlEnd2 = 2 := rfl
  have hn40 : n ≤ rlCols := by omega
  have e0 : st s.buf rlIdx0 rlBlank0 = some (s.buf.set 0 (some 0x20)) := by
    rw [st_some _ _ _ (by decide) (by rw [hlen]; have : rlIdx0 = 0 := rfl; omega)]; rfl
  have t1 : (s.j + rlEnd1).toNat = n + 1 := by omega
  have t2 : (s.j + rlEnd2).toNat = n + 2 := by omega
  have t3 : (s.j + rlEnd2 + 1).toNat = n + 3 := by omega
  have e1 : st (s.buf.set 0 (some 0x20)) (s.j + rlEnd1) rlBlank1 = some ((s.buf.set 0 (some 0x20)).set (n + 1) (some 0x20)) := by
    rw [st_some _ _ _ (by omega) (by rw [List.length_set, hlen]; omega), t1]; rfl
  have e2 : st ((s.buf.set 0 (some 0x20)).set (n + 1) (some 0x20)) (s.j + rlEnd2) rlNul
      = some (((s.buf.set 0 (some 0x20)).set (n + 1) (some 0x20)).set (n + 2) (some 0)) := by
    rw [st_some _ _ _ (by omega) (by rw [List.length_set, List.length_set, hlen]; omega), t2]; rfl
  unfold rlFinish
  rw [e0]; simp only
  rw [e1]; simp only
  rw [e2]; simp only
  rw [if_neg (by omega), t3]
  generalize hb3 : ((s.buf.set 0 (some 0x20)).set (n + 1) (some 0x20)).set (n + 2) (some 0) = b3
  have l3 : b3.length = rlBufferLen := by rw [← hb3]; simp only [List.length_set]; omega
  have key : ∀ k, k < n + 3 → ∃ v, b3[k]? = some (some v) ∧ (k = 0 → v = 0x20) ∧ (k = n + 1 → v = 0x20) := by
    intro k hk
    rw [← hb3]
    by_cases k2 : k = n + 2
    · subst k2
      exact ⟨0, by rw [List.getElem?_set_self (by simp only [List.length_set]; omega)], by omega, by omega⟩
    · rw [List.getElem?_set_ne (by omega)]
      by_cases k1 : k = n + 1
      · subst k1
        exact ⟨0x20, by rw [List.getElem?_set_self (by simp only [List.length_set]; omega)], fun _ => rfl, fun _ => rfl⟩
      · rw [List.getElem?_set_ne (by omega)]
        by_cases k0 : k = 0
        · subst k0
          exact ⟨0x20, by rw [List.getElem?_set_self (by omega)], fun _ => rfl, fun _ => rfl⟩
        · rw [List.getElem?_set_ne (by omega)]
          obtain ⟨v, hv⟩ := h.wr k (by omega) (by omega)
          exact ⟨v, hv, by omega, by omega⟩
  have tk : ∀ k, k < n + 3 → (b3.take (n + 3))[k]? = b3[k]? := by
    intro k hk; rw [List.getElem?_take]; rw [if_pos hk]
  have tl : (b3.take (n + 3)).length = n + 3 := by rw [List.length_take]; omega
  obtain ⟨bs, hbs, hl, hv⟩ := allWritten_ok (b3.take (n + 3)) (fun k hk => by
    rw [tl] at hk
    obtain ⟨v, hv, _⟩ := key k hk
    exact ⟨v, by rw [tk k hk]; exact hv⟩)
  refine ⟨bs, hbs, ?_⟩
  have jn : s.j.toNat = n := by omega
  rw [jn]
  refine ⟨by rw [hl, tl], ?_, ?_, by omega⟩
  · obtain ⟨v, hv0, hv1, _⟩ := key 0 (by omega)
    have := hv 0 v (by rw [tk 0 (by omega)]; exact hv0)
    rw [this, hv1 rfl]
  · obtain ⟨v, hv0, _, hv2⟩ := key (n + 1) (by omega)
    have := hv (n + 1) v (by rw [tk (n + 1) (by omega)]; exact hv0)
    rw [this, hv2 rfl]

/-! ## `keyword` on a blank: column 0 (in front of the row) and column `len + 1` (behind it) -/

theorem kwPrefix_blank (buf : List Nat) (col : Nat) (h : buf[col]? = some 0x20) :
    ∀ ps, PrefOK ps → kwPrefix buf col ps = some none := by
  intro ps
  induction ps with
  | nil => intro _; rfl
  | cons q rest ih =>
    intro hok
    obtain ⟨lit, n, em, pre⟩ := q
    obtain ⟨h1, h2, h3, _⟩ := hok (lit, n, em, pre) List.mem_cons_self
    simp only at h1 h2 h3
    unfold kwPrefix
    generalize hl : lit.take n = t at h1 h3
    cases t with
    | nil => simp at h3; omega
    | cons c cs =>
      have hc : toLower c ≠ 0x20 := h1 c (by simp)
      have hm : matchLit buf col (c :: cs) = some false := by
        unfold matchLit; rw [h]; simp only
        rw [if_neg (by rw [toLower_space]; exact fun e => hc e.symm)]
      rw [hm]
      exact ih (fun q hq => hok q (List.mem_cons_of_mem _ hq))

/-- on a blank `keyword` looks at nothing but that byte (no `s[-1]`, no scan) and returns 1 -/
theorem keyword_blank (buf : List Nat) (col subno : Nat) (h : buf[col]? = some 0x20) :
    keyword buf col subno = some { n := 1 } := by
  unfold keyword; rw [h]; simp only
  rw [if_neg (by decide)]
  rw [kwPrefix_blank buf col h _ kwPrefixes_ok]; simp only
  rw [if_neg (by decide)]
  rw [kwPrefix_blank buf col h _ kwPrefixesAt_ok]

/-- a `keyword` call of vbi_resolve_link at any column `0 .. len + 1` of a well-formed buffer -/
theorem kwCall_ok (bytes : List Nat) (len : Nat) (wf : WF bytes len) (col : Int) (subno : Nat) (h0 : 0 ≤ col)
    (h1 : col ≤ len + 1) :
    ∃ r, kwCall bytes col subno = some r ∧ 1 ≤ r.n ∧ col.toNat + r.n ≤ len + 2 ∧ r.back ≤ col.toNat ∧ r.url + 1 < urlLen := by
  have hf := wf.fits
  have z : Zvbi.Gen.C01Nav.zapBufferLen = 43 := rfl
  have u : urlLen = 256 := rfl
  unfold kwCall
  rw [if_neg (by omega)]
  by_cases c0 : col.toNat = 0
  · rw [c0, keyword_blank bytes 0 subno wf.first]; simp only
    rw [if_neg (by show ¬ (0 + 1 ≥ urlLen); omega)]
    refine ⟨{ n := 1 }, rfl, Nat.le_refl 1, ?_, Nat.zero_le _, ?_⟩
    · show 0 + 1 ≤ len + 2; omega
    · show 0 + 1 < urlLen; omega
  · by_cases c1 : col.toNat = len + 1
    · rw [c1, keyword_blank bytes (len + 1) subno wf.last]; simp only
      rw [if_neg (by show ¬ (0 + 1 ≥ urlLen); omega)]
      refine ⟨{ n := 1 }, rfl, Nat.le_refl 1, ?_, Nat.zero_le _, ?_⟩
      · show len + 1 + 1 ≤ len + 2; omega
      · show 0 + 1 < urlLen; omega
    · obtain ⟨r, hr, hg⟩ := keyword_good bytes len wf col.toNat subno (by omega) (by omega)
      have := hg.url
      have := hg.stays
      have := hg.back
      rw [hr]; simp only
      rw [if_neg (by omega)]
      exact ⟨r, rfl, hg.pos, by omega, by omega, by omega⟩

end Zvbi.Nav.Link
