import ZvbiModel.Nav.Lemmas2
/-!
# Helper lemmas for Props/C01Nav, part 3: every entry of the Level 1 access log is in range
-/
namespace Zvbi.Nav
open Zvbi.Fmt Zvbi.Gen.C01Nav

theorem peek0 : l1PeekLasts.getD 0 0 = 39 := rfl
theorem peek1 : l1PeekLasts.getD 1 0 = 39 := rfl
theorem lower0 : l1LowerStrides.getD 0 0 = 41 := rfl
theorem lower1 : l1LowerStrides.getD 1 0 = 41 := rfl
theorem lower2 : l1LowerStrides.getD 2 0 = 41 := rfl

/-- unfold the regenerated constants, then linear arithmetic -/
macro "nav_omega" : tactic => `(tactic|
  (simp only [l1Stride, l1RowSkip, l1HdrCols, l1WideLast, l1CharCtl, l1Col40, l1ColLoop, l1LowerLoop, textLen, rawLen,
     hdrBufLen, opacityLen, fontLen, intBits, peek0, peek1, lower0, lower1, lower2] at *
   omega))

theorem dh_row (cx : RowCtx) (h : (formatRow cx).2 = true) : 0 < cx.row ∧ cx.row < 23 := by
  have h1 : (runCols cx 40).doubleHeight = true := h
  rw [doubleHeight_inv] at h1
  obtain ⟨j, _, hj⟩ := List.any_eq_true.mp h1
  have h2 : L1Spec.rowOK cx = true := by
    revert hj; cases (L1Spec.rowOK cx) <;> simp
  simpa [L1Spec.rowOK] using h2

theorem colAcc_ok (p : PageIn) (row col : Nat) (s : RowSt) (hr : row ≤ 24) (hc : col < 40) :
    ∀ a ∈ colAcc (rowCtx p row) s row col, okAcc a := by
  intro a ha
  have hcode : (rowCtx p row).code col ≤ 0x7F := codeAt_le p row col
  have c1 : l1HdrCols = 8 := rfl
  have c2 : l1RowSkip = 40 := rfl
  have c3 : l1Stride = 41 := rfl
  have c4 : l1WideLast = 39 := rfl
  have c5 : l1CharCtl = 31 := rfl
  unfold colAcc at ha
  simp only [List.mem_append] at ha
  rcases ha with (((ha | ha) | ha) | ha) | ha
  · split at ha
    · rename_i h
      simp only [List.mem_singleton] at ha; subst ha
      show col < hdrBufLen
      have : hdrBufLen = 16 := rfl
      nav_omega
    · simp only [List.mem_singleton] at ha; subst ha
      show l1RowSkip * row + col < rawLen
      have : rawLen = 1040 := rfl
      nav_omega
  · split at ha
    · simp at ha
    · split at ha
      · simp at ha
      · rename_i h1 h2
        have hlo : tuCharLo ≤ (rowCtx p row).code col := by
          have : tuCharLo = 32 := rfl
          omega
        have hhi : (rowCtx p row).code col ≤ tuCharHi := by
          have : tuCharHi = 127 := rfl
          omega
        refine tuAcc_ok _ ?_ _ hlo hhi a ha
        split <;> exact charsetDesignation_ok _ _
  · split at ha
    · simp at ha
    · simp only [List.mem_cons] at ha
      have t : textLen = 1056 := rfl
      rcases ha with ha | ha
      · subst ha; show l1Stride * row + col < textLen; nav_omega
      · split at ha
        · simp only [List.mem_singleton] at ha; subst ha
          show l1Stride * row + col + 1 < textLen; nav_omega
        · simp at ha
  · split at ha
    · simp only [List.mem_cons, List.not_mem_nil, or_false] at ha
      rcases ha with ha | ha
      · subst ha
        show l1RowSkip * row + col + 1 < rawLen
        have : rawLen = 1040 := rfl
        nav_omega
      · subst ha
        show (if row > 0 then 1 else 0) < opacityLen
        have : opacityLen = 2 := rfl
        split <;> omega
    · simp at ha
  · split at ha
    · simp only [List.mem_singleton] at ha; subst ha
      show (if _ then 0 else 1) < fontLen
      have : fontLen = 2 := rfl
      split <;> omega
    · simp at ha

theorem rowAcc_ok (p : PageIn) (row : Nat) (hr : row ≤ 24) : ∀ a ∈ rowAcc (rowCtx p row) row, okAcc a := by
  intro a ha
  unfold rowAcc at ha
  simp only [List.mem_cons, List.mem_flatMap, List.mem_range] at ha
  rcases ha with ha | ha | ha | ⟨col, hcol, ha⟩
  · subst ha
    show (if row > 0 then 1 else 0) < opacityLen
    have : opacityLen = 2 := rfl
    split <;> omega
  · subst ha; show 0 < fontLen; decide
  · subst ha
    show l1Stride * row + l1Col40 < textLen
    have : textLen = 1056 := rfl
    have : l1Stride = 41 := rfl
    have : l1Col40 = 40 := rfl
    nav_omega
  · exact colAcc_ok p row col _ hr (by have : l1ColLoop = 40 := rfl; omega) a ha

theorem lowerAcc_ok (cells : List Cell) (row : Nat) (hr : row < 23) :
    ∀ fuel col, ∀ a ∈ lowerAcc cells row fuel col, okAcc a := by
  intro fuel
  have c1 : l1LowerLoop = 41 := rfl
  have c2 : l1Stride = 41 := rfl
  have t : textLen = 1056 := rfl
  have d0 : l1LowerStrides.getD 0 0 = 41 := rfl
  have d1 : l1LowerStrides.getD 1 0 = 41 := rfl
  have d2 : l1LowerStrides.getD 2 0 = 41 := rfl
  induction fuel with
  | zero => intro col a ha; simp [lowerAcc] at ha
  | succ f ih =>
    intro col a ha
    unfold lowerAcc at ha
    split at ha
    · simp at ha
    · rename_i hcol
      simp only [List.mem_cons] at ha
      rcases ha with ha | ha
      · subst ha; show l1Stride * row + col < textLen; nav_omega
      · split at ha
        · simp only [List.mem_cons] at ha
          rcases ha with ha | ha | ha
          · subst ha; show l1Stride * row + l1LowerStrides.getD 1 0 + col < textLen; nav_omega
          · subst ha; show l1Stride * row + l1LowerStrides.getD 2 0 + (col + 1) < textLen; nav_omega
          · exact ih _ a ha
        · simp only [List.mem_cons] at ha
          rcases ha with ha | ha
          · subst ha; show l1Stride * row + l1LowerStrides.getD 0 0 + col < textLen; nav_omega
          · exact ih _ a ha

theorem pageAcc_ok (p : PageIn) (dr : Nat) (hdr : dr ≤ 25) :
    ∀ fuel row, ∀ a ∈ pageAcc p dr fuel row, okAcc a := by
  intro fuel
  induction fuel with
  | zero => intro row a ha; simp [pageAcc] at ha
  | succ f ih =>
    intro row a ha
    unfold pageAcc at ha
    split at ha
    · simp at ha
    · rename_i hrow
      simp only [List.mem_append] at ha
      rcases ha with ha | ha
      · exact rowAcc_ok p row (by omega) a ha
      · split at ha
        · rename_i hdh
          have hrr := dh_row (rowCtx p row) hdh
          have hrow2 : (rowCtx p row).row = row := rfl
          rw [hrow2] at hrr
          simp only [List.mem_append, List.mem_cons] at ha
          rcases ha with ha | ha | ha
          · exact lowerAcc_ok _ row hrr.2 _ _ a ha
          · subst ha
            show row + 1 < intBits - 1
            have : intBits = 32 := rfl
            nav_omega
          · exact ih _ a ha
        · exact ih _ a ha

theorem saturate_le (dr : Int) : 1 ≤ saturate dr ∧ saturate dr ≤ 25 := by
  unfold saturate
  have a : satLo = 1 := rfl
  have b : satHi = 25 := rfl
  split
  · omega
  · split
    · omega
    · omega

end Zvbi.Nav
