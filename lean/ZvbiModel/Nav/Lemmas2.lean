import ZvbiModel.Nav.Lemmas
import ZvbiModel.Nav.L1
import ZvbiModel.Fmt.LemmasInv
/-!
# Helper lemmas for Props/C01Nav, part 2: the loops of zap_links; the Level 1 access log
-/
namespace Zvbi.Nav
open Zvbi.Fmt Zvbi.Gen.C01Nav

/-! ## zap_links -/

theorem setRange_some (link : List (Option Bool)) (lo hi : Nat) (v : Bool) (h : hi ≤ link.length) :
    ∃ l', setRange link lo hi v = some l' ∧ l'.length = link.length := by
  unfold setRange
  rw [if_neg (by omega)]
  exact ⟨_, rfl, by simp⟩

theorem zapLoop_ok (buf : List Nat) (len : Nat) (wf : WF buf len) (subno : Nat) :
    ∀ fuel i link, i ≤ len → len - i < fuel → link.length = zapLinkLen →
      ∃ l', zapLoop buf len subno fuel i link = some l' ∧ l'.length = zapLinkLen := by
  intro fuel
  induction fuel with
  | zero => intro i _ _ h; omega
  | succ f ih =>
    intro i link hi hf hl
    unfold zapLoop
    by_cases hge : i ≥ len
    · rw [if_pos hge]; exact ⟨link, rfl, hl⟩
    · rw [if_neg hge]
      have hoff : zapOffsets.getD 4 1 = 1 := rfl
      rw [hoff]
      obtain ⟨r, hr, hg⟩ := keyword_good buf len wf (i + 1) subno (by omega) (by omega)
      rw [hr]; simp only
      have h1 := hg.back; have h2 := hg.stays; have h3 := hg.pos; have h4 := hg.url; have h5 := wf.fits
      have hz : zapBufferLen = 43 := rfl
      rw [if_neg (by omega), if_neg (by unfold urlLen; omega)]
      obtain ⟨l', hl', hlen⟩ := setRange_some link (i - r.back) (i + r.n) r.linked
        (by rw [hl]; unfold zapLinkLen; omega)
      rw [hl']; simp only
      exact ih (i + r.n) l' (by omega) (by omega) (by rw [hlen, hl])

theorem zapAssign_ok (link : List (Option Bool)) :
    ∀ cells j, j + cells.length ≤ link.length →
      ∃ vs, zapAssign link cells j = some vs ∧ vs.length = cells.length := by
  intro cells
  induction cells with
  | nil => intro j _; exact ⟨[], rfl, rfl⟩
  | cons c cs ih =>
    intro j hj
    simp only [List.length_cons] at hj
    obtain ⟨v, hv⟩ := exists_getElem? link j (by omega)
    unfold zapAssign; rw [hv]; simp only
    obtain ⟨vs, hvs, hl⟩ := ih (if skipped c then j else j + 1) (by split <;> omega)
    rw [hvs]; exact ⟨v :: vs, rfl, by simp [hl]⟩

theorem zapBuffer_wf (cells : List ZCell) (h : cells.length ≤ zapCols) :
    WF (zapBuffer cells) (cells.filter (fun c => !skipped c)).length := by
  have hf : (cells.filter (fun c => !skipped c)).length ≤ cells.length := List.length_filter_le _ _
  have hz : zapCols = 40 := rfl
  refine ⟨?_, ?_, ?_, ?_⟩
  · simp [zapBuffer]
  · simp [zapBuffer, zapPads]
  · simp [zapBuffer, zapPads, List.getElem?_append_right]
  · have : zapBufferLen = 43 := rfl
    omega

/-- zap_links on any row content: no fault, one (possibly indeterminate) link value per cell -/
theorem zapLinksF_ok (cleared : Bool) (cells : List ZCell) (subno : Nat) :
    ∃ vs, zapLinksF cleared cells subno = some vs ∧ vs.length = min zapCols cells.length := by
  have hz : zapCols = 40 := rfl
  have hz2 : zapCols2 = 40 := rfl
  have hlen : (cells.take zapCols).length ≤ zapCols := by simp; omega
  have wf := zapBuffer_wf (cells.take zapCols) hlen
  unfold zapLinksF
  simp only
  rw [if_neg (by rw [wf.length]; have := wf.fits; omega)]
  have hl3 : (zapBuffer (cells.take zapCols)).length - 3
      = ((cells.take zapCols).filter (fun c => !skipped c)).length := by rw [wf.length]; omega
  rw [hl3]
  have hf : ((cells.take zapCols).filter (fun c => !skipped c)).length ≤ (cells.take zapCols).length :=
    List.length_filter_le _ _
  obtain ⟨l', hl', hlen'⟩ := zapLoop_ok _ _ wf subno (zapCols + 1) 0
    (List.replicate zapLinkLen (if cleared then some false else none))
    (by omega) (by omega) (by simp)
  rw [hl']; simp only
  obtain ⟨vs, hvs, hvl⟩ := zapAssign_ok l' ((cells.take zapCols).take zapCols2) 0
    (by rw [hlen']; simp [zapLinkLen]; omega)
  refine ⟨vs, hvs, ?_⟩
  rw [hvl]; simp [hz, hz2] <;> omega

theorem zapLinks_ok (cells : List ZCell) (subno : Nat) :
    ∃ vs, zapLinks cells subno = some vs ∧ vs.length = min zapCols cells.length :=
  zapLinksF_ok zapLinkCleared cells subno

/-! ### with `link[]` cleared every stored value is determined -/

def AllSome (l : List (Option Bool)) : Prop := ∀ v ∈ l, v.isSome = true

theorem setRange_allSome (link : List (Option Bool)) (lo hi : Nat) (v : Bool) (h : AllSome link) :
    ∀ l', setRange link lo hi v = some l' → AllSome l' := by
  intro l' hl'
  unfold setRange at hl'
  split at hl'
  · cases hl'
  · cases hl'
    intro x hx
    simp only [List.mem_map, List.mem_range] at hx
    obtain ⟨idx, hidx, rfl⟩ := hx
    split
    · rfl
    · have : link.getD idx none = link[idx] := by simp [List.getD, List.getElem?_eq_getElem hidx]
      rw [this]; exact h _ (List.getElem_mem hidx)

theorem zapLoop_allSome (buf : List Nat) (len subno : Nat) :
    ∀ fuel i link, AllSome link → ∀ l', zapLoop buf len subno fuel i link = some l' → AllSome l' := by
  intro fuel
  induction fuel with
  | zero => intro i link _ l' h; simp [zapLoop] at h
  | succ f ih =>
    intro i link hl l' h
    unfold zapLoop at h
    split at h
    · cases h; exact hl
    · split at h
      · cases h
      · split at h
        · cases h
        · split at h
          · cases h
          · split at h
            · cases h
            · rename_i link' hset
              exact ih _ link' (setRange_allSome _ _ _ _ hl link' hset) l' h

theorem zapAssign_allSome (link : List (Option Bool)) (hl : AllSome link) :
    ∀ cells j vs, zapAssign link cells j = some vs → AllSome vs := by
  intro cells
  induction cells with
  | nil => intro j vs h; simp [zapAssign] at h; subst h; intro v hv; cases hv
  | cons c cs ih =>
    intro j vs h
    unfold zapAssign at h
    split at h
    · cases h
    · rename_i v hv
      split at h
      · cases h
      · rename_i vs' hvs
        cases h
        intro x hx
        rcases List.mem_cons.mp hx with rfl | hx
        · exact hl _ (List.mem_of_getElem? hv)
        · exact ih _ vs' hvs x hx

/-- repaired shape: every link attribute zap_links stores is a value the function computed -/
theorem zapLinksF_cleared_allSome (cells : List ZCell) (subno : Nat) :
    ∀ vs, zapLinksF true cells subno = some vs → AllSome vs := by
  intro vs h
  unfold zapLinksF at h
  simp only at h
  split at h
  · cases h
  · split at h
    · cases h
    · rename_i link hlink
      refine zapAssign_allSome link ?_ _ _ vs h
      refine zapLoop_allSome _ _ _ _ _ _ ?_ link hlink
      intro v hv
      simp at hv
      rw [hv.2]; rfl

/-! ## Level 1 -/

theorem hexDigit_le (d : Nat) (h : d < 16) : hexDigit d ≤ 0x7F := by
  unfold hexDigit; split <;> omega

theorem hexDigits_le : ∀ fuel n, ∀ x ∈ hexDigits fuel n, x ≤ 0x7F := by
  intro fuel
  induction fuel with
  | zero => intro n x h; simp [hexDigits] at h
  | succ f ih =>
    intro n x h
    unfold hexDigits at h
    split at h
    · simp at h; subst h; exact hexDigit_le _ (by omega)
    · simp only [List.mem_append, List.mem_singleton] at h
      rcases h with h | h
      · exact ih _ x h
      · subst h; exact hexDigit_le _ (Nat.mod_lt _ (by omega))

theorem hdrBuf_le (pgno subno : Nat) : ∀ x ∈ hdrBuf pgno subno, x ≤ 0x7F := by
  intro x h
  unfold hdrBuf at h
  have hs : (subno &&& 0xff) < 256 := by
    have := @Nat.and_le_right subno 0xff; omega
  simp only [List.cons_append, List.mem_cons, List.mem_append, List.not_mem_nil, or_false] at h
  rcases h with h | h | h | h | h | h | h
  · omega
  · exact hexDigits_le _ _ x h
  · omega
  · subst h; exact hexDigit_le _ (by omega)
  · subst h; exact hexDigit_le _ (Nat.mod_lt _ (by omega))
  · omega
  · omega

/-- the C variable `raw` is a 7-bit value at every position of every page -/
theorem codeAt_le (p : PageIn) (row col : Nat) : codeAt p row col ≤ 0x7F := by
  unfold codeAt
  split
  · cases hg : (hdrBuf p.pgno p.subno)[col]? with
    | none => simp [List.getD, hg]
    | some v =>
      have : v ∈ hdrBuf p.pgno p.subno := List.mem_of_getElem? hg
      simp [List.getD, hg]; exact hdrBuf_le _ _ v this
  · unfold Zvbi.Hamm.unpar8
    split
    · split at *
      · rename_i h; cases h
        have := @Nat.and_le_right (p.raw (40 * row + col)) 127; omega
      · rename_i h; cases h
    · omega

/-- a font the formatter can select: G0 set known to vbi_teletext_unicode, national subset below 14 -/
def FontOK (f : Font) : Prop := (f.g0 = kLatinG0 ∨ (tuTable f.g0).isSome) ∧ f.subset < tuSubsetLimit ∧ f.subset < nationalRows

theorem fonts_ok : ∀ idx < 88, (Zvbi.Gen.Fmt.fontG0 idx ≠ 0 ∨ idx = 0) → FontOK (fontOf idx) := by
  unfold FontOK fontOf; decide +kernel

theorem charsetDesignation_ok (c n : Nat) : FontOK (fontOf (charsetDesignation c n)) := by
  unfold charsetDesignation
  simp only
  split
  · rename_i h
    simp only [validCharset, Bool.and_eq_true, decide_eq_true_eq, bne_iff_ne, ne_eq] at h
    exact fonts_ok _ h.1 (Or.inl h.2)
  · split
    · rename_i h
      simp only [validCharset, Bool.and_eq_true, decide_eq_true_eq, bne_iff_ne, ne_eq] at h
      exact fonts_ok _ h.1 (Or.inl h.2)
    · exact fonts_ok 0 (by omega) (Or.inr rfl)

/-- table facts: for a character in 0x20 .. 0x7F every table index is inside its table -/
def tuTabOK (s c : Nat) : Bool :=
  match tuTable s with
  | some (guard, base) => decide (c ≥ guard → base ≤ c ∧ c - base < tableLen s)
  | none => true

theorem tu_tables_ok : ∀ s < 16, ∀ c < 128, tuCharLo ≤ c → tuTabOK s c = true := by decide +kernel

theorem tuTable_lt (s : Nat) (h : (tuTable s).isSome) : s < 16 := by
  rcases Nat.lt_or_ge s 16 with h1 | h1
  · exact h1
  · exfalso; revert h; unfold tuTable
    repeat (first | rw [if_neg (by omega)])
    simp

theorem tuAcc_ok (f : Font) (hf : FontOK f) (c : Nat) (h1 : tuCharLo ≤ c) (h2 : c ≤ tuCharHi) :
    ∀ a ∈ tuAcc f.g0 f.subset c, okAcc a := by
  intro a ha
  unfold tuAcc at ha
  rcases List.mem_append.mp ha with ha | ha
  · rcases List.mem_append.mp ha with ha | ha
    · simp only [List.mem_cons, List.not_mem_nil, or_false] at ha
      rcases ha with ha | ha
      · subst ha; exact ⟨h1, h2⟩
      · subst ha; exact hf.1
    · split at ha
      · simp at ha; subst ha; exact hf.2
      · simp at ha
  · have hc : c < 128 := by have : tuCharHi = 127 := rfl; omega
    cases heq : tuTable f.g0 with
    | none => rw [heq] at ha; simp at ha
    | some gb =>
      obtain ⟨g, b⟩ := gb
      rw [heq] at ha
      have hs : f.g0 < 16 := tuTable_lt _ (by rw [heq]; rfl)
      have := tu_tables_ok f.g0 hs c hc h1
      unfold tuTabOK at this; rw [heq] at this
      simp only [decide_eq_true_eq] at this
      simp only [List.mem_ite_nil_right, List.mem_singleton] at ha
      obtain ⟨hg, ha⟩ := ha
      subst ha; exact (this hg).2

end Zvbi.Nav
