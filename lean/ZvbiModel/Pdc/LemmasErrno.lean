import ZvbiModel.Pdc.Errno
import ZvbiModel.Pdc.LemmasFwd
/-!
# helper lemmas for Props/C14Errno.lean: the error-kind functions of Pdc/Errno.lean refine the value model
-/
namespace Zvbi.Pdc

theorem clampE_ok (r : Option Int) (t : Int) (h : clampE r = .ok t) : clampResult r = t ∧ t ≠ -1 := by
  unfold clampE at h
  split at h
  · cases h
  · cases h; exact ⟨rfl, by assumption⟩

theorem clampE_err (r : Option Int) (k : Err) (h : clampE r = .error k) : clampResult r = -1 ∧ k = .overflow := by
  unfold clampE at h
  split at h
  · cases h; exact ⟨by assumption, rfl⟩
  · cases h

/-- `_vbi_timegm` with the error kind computes the same value and world as the value model; an error
is (time_t) -1, a success is not. -/
theorem vbiTimegmE_refines (cfg : Cfg) (L : Libc) (w : World) (tm : Tm) :
    (vbiTimegmE cfg L w tm).2 = (vbiTimegm cfg L w tm).2
    ∧ (∀ t, (vbiTimegmE cfg L w tm).1 = .ok t → (vbiTimegm cfg L w tm).1 = t ∧ t ≠ -1)
    ∧ (∀ k, (vbiTimegmE cfg L w tm).1 = .error k → (vbiTimegm cfg L w tm).1 = -1 ∧ (k = .overflow ∨ k = .noMem)) := by
  unfold vbiTimegmE vbiTimegm
  by_cases hc : cfg.haveTimegm = true
  · simp only [hc, if_true]
    exact ⟨by first | rfl | trivial, fun t h => clampE_ok _ t h, fun k h => ⟨(clampE_err _ k h).1, Or.inl (clampE_err _ k h).2⟩⟩
  · simp only [hc]
    rcases hct : changeTz L w "UTC" with ⟨ok, old, w1⟩
    cases ok
    · simp
    · simp only [Bool.not_true]
      rcases hmk : libcMktime L w1 tm with ⟨r, w2⟩
      rcases hrs : restoreTz L w2 old true with ⟨rok, w3⟩
      cases rok
      · simp
      · simp only [Bool.not_true]
        exact ⟨by first | rfl | trivial, fun t h => clampE_ok _ t h, fun k h => ⟨(clampE_err _ k h).1, Or.inl (clampE_err _ k h).2⟩⟩

theorem ltoFromTmE_refines (cfg : Cfg) (L : Libc) (w : World) (tm : Tm) (pil : Nat) (east : Int) :
    toLtoRes (ltoFromTmE cfg L w tm pil east).1 = (ltoFromTm cfg L w tm pil east).1
    ∧ (ltoFromTmE cfg L w tm pil east).2 = (ltoFromTm cfg L w tm pil east).2
    ∧ (ltoFromTmE cfg L w tm pil east).1 ≠ .error .noTime := by
  unfold ltoFromTmE ltoFromTm
  cases hmm : tmMonMdayFromPil tm pil with
  | none => exact ⟨rfl, rfl, by simp⟩
  | some tm1 =>
    by_cases hl : tmLeapDayCheck tm1 = true
    · simp only [hl, Bool.not_true]
      obtain ⟨hw, hok, herr⟩ := vbiTimegmE_refines cfg L w
        { tm1 with hour := (pilHour pil : Int), min := (pilMinute pil : Int), sec := 0 }
      rcases hE : vbiTimegmE cfg L w { tm1 with hour := (pilHour pil : Int), min := (pilMinute pil : Int), sec := 0 } with ⟨rE, wE⟩
      rcases hV : vbiTimegm cfg L w { tm1 with hour := (pilHour pil : Int), min := (pilMinute pil : Int), sec := 0 } with ⟨rV, wV⟩
      rw [hE, hV] at hw hok herr
      simp only at hw hok herr
      subst hw
      cases rE with
      | ok t =>
        obtain ⟨h1, h2⟩ := hok t rfl
        subst h1
        simp only [h2, if_false]
        by_cases hg : guardOut cfg rV east = true
        · simp [hg, toLtoRes]
        · simp [hg, toLtoRes]
      | error k =>
        obtain ⟨h1, h2⟩ := herr k rfl
        subst h1
        rcases h2 with rfl | rfl <;> simp [toLtoRes]
    · have hl' : tmLeapDayCheck tm1 = false := by simpa using hl
      simp [hl', toLtoRes]

end Zvbi.Pdc
