import ZvbiModel.Pdc.LemmasMain
/-!
# Validity windows on the offset path (`vbi_pil_lto_validity_window`)
-/
namespace Zvbi.Pdc
set_option linter.unusedSimpArgs false

/-- `pil & VBI_PIL (15, 31, 0, 0)` keeps month and day and clears hour and minute -/
theorem pil_mask_fields (pil : Nat) :
    pilMonth (pil &&& mkPil 15 31 0 0) = pilMonth pil ∧ pilDay (pil &&& mkPil 15 31 0 0) = pilDay pil
    ∧ pilHour (pil &&& mkPil 15 31 0 0) = 0 ∧ pilMinute (pil &&& mkPil 15 31 0 0) = 0 := by
  have hM : mkPil 15 31 0 0 = 1046528 := by decide
  rw [hM]
  unfold pilMonth pilDay pilHour pilMinute
  refine ⟨?_, ?_, ?_, ?_⟩
  · rw [Nat.shiftRight_and_distrib, Nat.and_assoc]; rfl
  · rw [Nat.shiftRight_and_distrib, Nat.and_assoc]; rfl
  · rw [Nat.shiftRight_and_distrib, Nat.and_assoc]
    have : (1046528 >>> 6 &&& 31 : Nat) = 0 := by decide
    rw [this, Nat.and_zero]
  · rw [Nat.and_assoc]
    have : (1046528 &&& 63 : Nat) = 0 := by decide
    rw [this, Nat.and_zero]

theorem tmMonMday_congr (tm : Tm) (p q : Nat) (hm : pilMonth p = pilMonth q) (hd : pilDay p = pilDay q) :
    tmMonMdayFromPil tm p = tmMonMdayFromPil tm q := by
  unfold tmMonMdayFromPil; rw [hm, hd]

theorem classify_date (pil : Nat) (h : classifyPil pil = .date) :
    1 ≤ pilMonth pil ∧ pilMonth pil ≤ 12 ∧ 1 ≤ pilDay pil ∧ (pilDay pil : Int) ≤ daysInMonth True (pilMonth pil) := by
  unfold classifyPil at h
  dsimp only at h
  split at h
  · cases h
  · rename_i h0
    split at h
    · rename_i h12
      have hm : 1 ≤ pilMonth pil ∧ pilMonth pil ≤ 12 := ⟨by omega, h12⟩
      rw [monthDaysOf_eq _ hm.1 hm.2] at h
      dsimp only at h
      have := daysInMonth_range True (pilMonth pil : Int)
      split at h
      · rename_i hd; exact ⟨hm.1, hm.2, hd.1, by omega⟩
      · cases h
    · split at h
      · cases h
      · split at h
        · cases h
        · split at h <;> cases h

theorem PilValid_mask (pil : Nat) (h : classifyPil pil = .date) : PilValid (pil &&& mkPil 15 31 0 0) := by
  obtain ⟨m, d, hh, mi⟩ := pil_mask_fields pil
  obtain ⟨h1, h2, h3, h4⟩ := classify_date pil h
  unfold PilValid; rw [m, d, hh, mi]
  exact ⟨h1, h2, h3, h4, by decide, by decide⟩

/-- shape of a date window on the offset path -/
theorem lto_window_shape (cfg : Cfg) (L : Libc) (w : World) (pil : Nat) (start east b e : Int)
    (hcl : classifyPil pil = .date)
    (h : (vbiPilLtoValidityWindow cfg L w pil start east).1 = some (b, e)) :
    ((validPilLtoToTime cfg L w (pil &&& mkPil 15 31 0 0) start east).1 = .invalidPil ∧ b = TIME_MIN ∧ e = TIME_MAX)
    ∨ ∃ t, (validPilLtoToTime cfg L w (pil &&& mkPil 15 31 0 0) start east).1 = .ok t
        ∧ b = t - (if pilHour pil < 4 then 4 * 60 * 60 else 0) ∧ e = t + 28 * 60 * 60
        ∧ t ≤ TIME_MAX - 28 * 60 * 60 ∧ (pilHour pil < 4 → guardWin cfg t = false) ∧ t ≠ -1 := by
  unfold vbiPilLtoValidityWindow at h
  rw [hcl] at h
  dsimp only at h
  unfold validPilLtoValidityWindow at h
  dsimp only at h
  split at h
  · rename_i heq; cases h; exact Or.inl ⟨heq, rfl, rfl⟩
  · cases h
  · rename_i t heq
    right
    refine ⟨t, heq, ?_⟩
    split at h
    · cases h
    rename_i hm1
    split at h
    · cases h
    · rename_i hmax
      split at h
      · rename_i h4
        split at h
        · cases h
        · rename_i hg; cases h
          exact ⟨by rw [if_pos h4], rfl, by omega, fun _ => by simpa using hg, hm1⟩
      · rename_i h4; cases h
        exact ⟨by rw [if_neg h4]; omega, rfl, by omega, fun h => absurd h h4, hm1⟩

theorem secsFromTm_hm (tm : Tm) (h mi : Int) :
    secsFromTm { tm with hour := h, min := mi, sec := 0 } = secsFromTm { tm with hour := 0, min := 0, sec := 0 } + h * 3600 + mi * 60 := by
  unfold secsFromTm; dsimp only; omega

/-! ## windows in a zone given by name (`valid_pil_validity_window`) -/

theorem winFromTm_val (L : Libc) (w : World) (tm : Tm) (old : Option String) (tzGiven : Bool) (pil : Nat) (b e : Int)
    (h : (winFromTm L w tm old tzGiven pil).1 = some (b, e)) :
    ∃ tm1, tmMonMdayFromPil tm pil = some tm1 ∧
      ((tmLeapDayCheck tm1 = false ∧ b = TIME_MIN ∧ e = TIME_MAX)
       ∨ (tmLeapDayCheck tm1 = true
          ∧ (L.zoneOf w.env).fromLocal (if pilHour pil < 4
                then { tm1 with mday := tm1.mday - 1, hour := 20, min := 0, sec := 0, isdst := -1 }
                else { tm1 with hour := 0, min := 0, sec := 0, isdst := -1 }) = some b
          ∧ (L.zoneOf w.env).fromLocal { tm1 with mday := tm1.mday + 1, hour := 4, min := 0, sec := 0, isdst := -1 } = some e)) := by
  unfold winFromTm at h
  split at h
  · cases h
  · rename_i tm1 heq
    refine ⟨tm1, heq, ?_⟩
    split at h
    · rename_i hl
      left
      dsimp only at h
      split at h
      · cases h
      · cases h; exact ⟨by simpa using hl, rfl, rfl⟩
    · rename_i hl
      right
      dsimp only at h
      by_cases h4 : pilHour pil < 4
      · simp only [h4, ↓reduceIte] at h ⊢
        split at h
        · cases h
        · rename_i hA
          split at h
          · cases h
          · rename_i hB
            split at h
            · cases h
            · cases h
              have vA := vbiMktime_val L w _ hA
              have vB := vbiMktime_val L _ _ hB
              rw [vbiMktime_env] at vB
              exact ⟨by simpa using hl, vA, vB⟩
      · simp only [h4, ↓reduceIte] at h ⊢
        split at h
        · cases h
        · rename_i hA
          split at h
          · cases h
          · rename_i hB
            split at h
            · cases h
            · cases h
              have vA := vbiMktime_val L w _ hA
              have vB := vbiMktime_val L _ _ hB
              rw [vbiMktime_env] at vB
              exact ⟨by simpa using hl, vA, vB⟩

theorem secsFromTm_day (tm : Tm) (d h : Int) :
    secsFromTm { tm with mday := d, hour := h, min := 0, sec := 0, isdst := -1 }
      = secsFromTm { tm with mday := tm.mday, hour := 0, min := 0, sec := 0, isdst := -1 } + (d - tm.mday) * 86400 + h * 3600 := by
  unfold secsFromTm; dsimp only; omega

/-- in a fixed-offset zone a date window has the EN 300 231 length and is ordered -/
theorem tz_window_fixed (cfg : Cfg) (L : Libc) (w : World) (pil : Nat) (start east b e : Int) (tz : Option String)
    (hc : w.Consistent) (htz : tz ≠ some "UTC") (hz : L.zoneOf (effectiveTz w tz) = fixedZone east)
    (hcl : classifyPil pil = .date) (h : (vbiPilValidityWindow cfg L w pil start tz).1 = some (b, e)) :
    (b = TIME_MIN ∧ e = TIME_MAX)
    ∨ (b < e ∧ e - b = (if pilHour pil < 4 then 32 else 28) * 60 * 60) := by
  unfold vbiPilValidityWindow at h
  rw [hcl] at h
  dsimp only at h
  unfold validPilValidityWindow at h
  rw [if_neg htz] at h
  have hl := localtimeTz_spec L w start tz hc
  split at h
  · cases h
  · rename_i tm old w1 heq
    have hm := (hl.1 tm (by rw [heq])).1
    rw [heq] at hm
    obtain ⟨tm1, _, hcase⟩ := winFromTm_val L w1 tm old tz.isSome pil b e h
    rcases hcase with ⟨_, hb, he⟩ | ⟨_, hb, he⟩
    · exact Or.inl ⟨hb, he⟩
    · right
      rw [hm.env_eq, hz] at hb he
      have eb := (fixedZone_fromLocal east b _ hb).1
      have ee := (fixedZone_fromLocal east e _ he).1
      rw [secsFromTm_day] at ee
      split at eb
      · rename_i h4
        rw [secsFromTm_day] at eb
        rw [if_pos h4]; omega
      · rename_i h4
        have := secsFromTm_day tm1 tm1.mday 0
        rw [this] at eb
        rw [if_neg h4]; omega

end Zvbi.Pdc
