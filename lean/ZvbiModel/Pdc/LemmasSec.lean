import ZvbiModel.Pdc.LemmasMain
/-!
# Month starts are 28..31 days apart: the nearest-year rule in seconds
-/
namespace Zvbi.Pdc
set_option linter.unusedSimpArgs false

/-- day number of the first day of month index `i` (months since year 1900) -/
def monthStart (i : Int) : Int := daysFromCivil (1900 + i / 12) (i % 12 + 1) 1

theorem year_step (Y : Int) :
    365 ≤ (Y / 400 * 146097 + doeOf (Y % 400) 0) - ((Y - 1) / 400 * 146097 + doeOf ((Y - 1) % 400) 0)
    ∧ (Y / 400 * 146097 + doeOf (Y % 400) 0) - ((Y - 1) / 400 * 146097 + doeOf ((Y - 1) % 400) 0) ≤ 366 := by
  unfold doeOf
  by_cases h : Y % 400 = 0
  · have e1 : (Y - 1) / 400 = Y / 400 - 1 := by omega
    have e2 : (Y - 1) % 400 = 399 := by omega
    rw [e1, e2, h]; omega
  · have e1 : (Y - 1) / 400 = Y / 400 := by omega
    have e2 : (Y - 1) % 400 = Y % 400 - 1 := by omega
    rw [e1, e2]
    have : 0 ≤ Y % 400 ∧ Y % 400 ≤ 399 := by omega
    generalize Y % 400 = r at *
    omega

theorem monthStart_step (i : Int) : 28 ≤ monthStart (i + 1) - monthStart i ∧ monthStart (i + 1) - monthStart i ≤ 31 := by
  unfold monthStart
  have hm : i % 12 = 0 ∨ i % 12 = 1 ∨ i % 12 = 2 ∨ i % 12 = 3 ∨ i % 12 = 4 ∨ i % 12 = 5 ∨ i % 12 = 6 ∨ i % 12 = 7
      ∨ i % 12 = 8 ∨ i % 12 = 9 ∨ i % 12 = 10 ∨ i % 12 = 11 := by omega
  generalize hY : 1900 + i / 12 = Y
  have hys := year_step Y
  rcases hm with h | h | h | h | h | h | h | h | h | h | h | h
  all_goals (
    first
    | (have e1 : (i + 1) / 12 = i / 12 := by omega
       have e2 : (i + 1) % 12 = i % 12 + 1 := by omega
       rw [e1, e2, h, hY]
       unfold daysFromCivil doyOf doeOf at *
       simp only [Int.reduceAdd, Int.reduceMod, Int.reduceMul, Int.reduceDiv, Int.reduceLE, ↓reduceIte, Int.reduceSub] at *
       omega)
    | (have e1 : (i + 1) / 12 = i / 12 + 1 := by omega
       have e2 : (i + 1) % 12 = 0 := by omega
       have e3 : 1900 + (i / 12 + 1) = Y + 1 := by omega
       rw [e1, e2, h, e3]
       unfold daysFromCivil doyOf doeOf
       simp only [Int.reduceAdd, Int.reduceMod, Int.reduceMul, Int.reduceDiv, Int.reduceLE, ↓reduceIte, Int.reduceSub]
       have : Y + 1 - 1 = Y := by omega
       rw [this]; omega))

theorem monthStart_add (i : Int) (n : Nat) :
    28 * (n : Int) ≤ monthStart (i + n) - monthStart i ∧ monthStart (i + n) - monthStart i ≤ 31 * (n : Int) := by
  induction n with
  | zero => simp
  | succ n ih =>
    have hs := monthStart_step (i + n)
    have e : i + ((n + 1 : Nat) : Int) = i + (n : Int) + 1 := by omega
    rw [e]
    have : ((n + 1 : Nat) : Int) = (n : Int) + 1 := by omega
    rw [this]
    omega

theorem secsFromTm_monthStart (tm : Tm) (hv : tm.validCivil) :
    monthStart tm.monthIndex * 86400 ≤ secsFromTm tm ∧ secsFromTm tm < (monthStart tm.monthIndex + 31) * 86400 := by
  obtain ⟨hm0, hm1, hd0, hd1, hh0, hh1, hmi0, hmi1, hs0, hs1⟩ := hv
  have hd31 := (daysInMonth_range (isLeap (tm.year + 1900)) (tm.mon + 1)).2
  unfold monthStart Tm.monthIndex secsFromTm
  dsimp only
  have e1 : (12 * tm.year + tm.mon) / 12 = tm.year := by omega
  have e2 : (12 * tm.year + tm.mon) % 12 = tm.mon := by omega
  have e3 : tm.mon / 12 = 0 := by omega
  have e4 : tm.mon % 12 = tm.mon := by omega
  have e5 : tm.year + 1900 + 0 = 1900 + tm.year := by omega
  rw [e1, e2, e3, e4, e5]
  generalize daysFromCivil (1900 + tm.year) (tm.mon + 1) 1 = D
  omega

/-- two valid civil times whose months are at most 6 back / 5 ahead are less than 217 days apart -/
theorem seconds_bound (a b : Tm) (ha : a.validCivil) (hb : b.validCivil)
    (h0 : -6 ≤ b.monthIndex - a.monthIndex) (h1 : b.monthIndex - a.monthIndex ≤ 5) :
    -(217 * 86400) < secsFromTm b - secsFromTm a ∧ secsFromTm b - secsFromTm a < 217 * 86400 := by
  obtain ⟨a0, a1⟩ := secsFromTm_monthStart a ha
  obtain ⟨b0, b1⟩ := secsFromTm_monthStart b hb
  generalize a.monthIndex = i at *
  generalize b.monthIndex = j at *
  by_cases hk : i ≤ j
  · have := monthStart_add i (j - i).toNat
    have e : i + ((j - i).toNat : Int) = j := by omega
    rw [e] at this
    have hn : ((j - i).toNat : Int) ≤ 5 := by omega
    omega
  · have := monthStart_add j (i - j).toNat
    have e : j + ((i - j).toNat : Int) = i := by omega
    rw [e] at this
    have hn : ((i - j).toNat : Int) ≤ 6 := by omega
    omega

end Zvbi.Pdc
