import ZvbiModel.Pdc.LemmasVal
/-!
# Core results the property theorems are projections of
-/
namespace Zvbi.Pdc
set_option linter.unusedSimpArgs false

/-! ## fixed-offset zones satisfy the zone laws -/

theorem fixedZone_toLocal (e t : Int) (tm : Tm) (h : (fixedZone e).toLocal t = some tm) :
    tm = tmFromSecs (t + e) ∧ convertible e t = true := by
  unfold fixedZone at h; dsimp only at h
  split at h
  · rename_i hc; cases h; exact ⟨rfl, hc⟩
  · cases h

theorem fixedZone_fromLocal (e t : Int) (tm : Tm) (h : (fixedZone e).fromLocal tm = some t) :
    t = secsFromTm tm - e ∧ convertible e t = true := by
  unfold fixedZone at h; dsimp only at h
  split at h
  · rename_i hc; cases h
    simp only [Bool.and_eq_true] at hc
    exact ⟨rfl, hc.1⟩
  · cases h

theorem fitsInt_iff (x : Int) : fitsInt x = true ↔ INT_MIN ≤ x ∧ x ≤ INT_MAX := by
  unfold fitsInt; simp

theorem fixedZone_lawful (e : Int) : (fixedZone e).Lawful where
  mon_range t tm h := by
    obtain ⟨rfl, _⟩ := fixedZone_toLocal e t tm h
    have := (secsFromTm_tmFromSecs (t + e)).2
    exact ⟨this.1, this.2.1⟩
  year_int t tm h := by
    obtain ⟨rfl, hc⟩ := fixedZone_toLocal e t tm h
    unfold convertible at hc
    simp only [Bool.and_eq_true] at hc
    exact (fitsInt_iff _).1 hc.2

/-- in a fixed-offset zone every valid civil time exists and mktime finds it -/
theorem fixedZone_soundAt (e : Int) (tm : Tm) (hv : tm.validCivil) : (fixedZone e).SoundAt tm := by
  intro t h
  obtain ⟨rfl, hc⟩ := fixedZone_fromLocal e t tm h
  refine ⟨tmFromSecs (secsFromTm tm - e + e), ?_, ?_⟩
  · unfold fixedZone; dsimp only; rw [if_pos hc]
  · have : secsFromTm tm - e + e = secsFromTm tm := by omega
    rw [this]; exact tmFromSecs_secsFromTm tm hv

theorem fixedZone_followsOffsets (e : Int) : (fixedZone e).FollowsOffsets (fun _ => e) where
  localtime t tm h := by
    obtain ⟨rfl, _⟩ := fixedZone_toLocal e t tm h
    exact ⟨rfl, rfl, rfl, rfl, rfl, rfl⟩
  year_int := (fixedZone_lawful e).year_int
  mktime_converts tm t h := by
    obtain ⟨_, hc⟩ := fixedZone_fromLocal e t tm h
    exact ⟨tmFromSecs (t + e), by unfold fixedZone; dsimp only; rw [if_pos hc]⟩
  mktime_hit tm t _ h _ := by
    obtain ⟨rfl, _⟩ := fixedZone_fromLocal e t tm h
    omega
  mktime_gap tm t _ h := by
    obtain ⟨rfl, _⟩ := fixedZone_fromLocal e t tm h
    exact ⟨secsFromTm tm - e, by omega, by omega, by omega⟩

/-! ## the tm handed to mktime/timegm is a real date showing the PIL -/

theorem pilTm_valid (tm0 tm1 : Tm) (pil : Nat) (isdst : Int) (hv : PilValid pil) (hm0 : 0 ≤ tm0.mon) (hm1 : tm0.mon ≤ 11)
    (hy0 : 1 ≤ tm0.year + 1900) (hy1 : tm0.year + 1901 ≤ INT_MAX)
    (h1 : tmMonMdayFromPil tm0 pil = some tm1) (h2 : tmLeapDayCheck tm1 = true) :
    let tmX : Tm := { tm1 with hour := (pilHour pil : Int), min := (pilMinute pil : Int), sec := 0, isdst := isdst }
    tmX.validCivil ∧ tmX.hasPil pil
    ∧ -6 ≤ tmX.monthIndex - tm0.monthIndex ∧ tmX.monthIndex - tm0.monthIndex ≤ 5
    ∧ (pilMonth pil = 2 → pilDay pil = 29 → isLeap (tmX.year + 1900)) := by
  obtain ⟨hp0, hp1, hd0, hd1, hh, hmi⟩ := hv
  obtain ⟨s1, s2, _, _, _, _, s7, s8, _, s10, s11⟩ := tmMonMday_spec tm0 tm1 pil hm0 hm1 hp0 hp1 h1
  unfold INT_MAX at hy1
  have hmon : tm1.mon + 1 = (pilMonth pil : Int) := s1
  have hvalid := leapCheck_valid tm1 (by omega) (by omega) (by omega) (by rw [hmon, s2]; exact hd1) (by omega) (by omega) h2
  intro tmX
  refine ⟨⟨by show 0 ≤ tm1.mon; omega, by show tm1.mon ≤ 11; omega, by show 1 ≤ tm1.mday; omega, hvalid,
      by show (0:Int) ≤ (pilHour pil : Int); omega, by show (pilHour pil : Int) ≤ 23; omega,
      by show (0:Int) ≤ (pilMinute pil : Int); omega, by show (pilMinute pil : Int) ≤ 59; omega,
      by show (0:Int) ≤ 0; omega, by show (0:Int) ≤ 59; omega⟩,
    ⟨s1, s2, rfl, rfl, rfl⟩, s7, s8, ?_⟩
  intro hm hd
  exact leapCheck_feb29 tm1 (by omega) (by omega) (by omega) (by omega) h2

/-! ## vbi_pil_to_time in an arbitrary zone -/

theorem pil_to_time_core (cfg : Cfg) (L : Libc) (w : World) (pil : Nat) (start : Int) (tz : Option String)
    (hc : w.Consistent) (htz : tz ≠ some "UTC")
    (hlaw : (L.zoneOf (effectiveTz w tz)).Lawful)
    (hsound : ∀ tm : Tm, tm.validCivil → tm.hasPil pil → (L.zoneOf (effectiveTz w tz)).SoundAt tm)
    (hyear : ∀ tms, (L.zoneOf (effectiveTz w tz)).toLocal (refTime L start) = some tms →
      1 ≤ tms.year + 1900 ∧ tms.year + 1901 ≤ INT_MAX)
    (hr : (vbiPilToTime cfg L w pil start tz).1 ≠ -1) :
    ∃ tms tmr, (L.zoneOf (effectiveTz w tz)).toLocal (refTime L start) = some tms
      ∧ (L.zoneOf (effectiveTz w tz)).toLocal (vbiPilToTime cfg L w pil start tz).1 = some tmr
      ∧ tmr.hasPil pil
      ∧ -6 ≤ tmr.monthIndex - tms.monthIndex ∧ tmr.monthIndex - tms.monthIndex ≤ 5
      ∧ (pilMonth pil = 2 → pilDay pil = 29 → isLeap (tmr.year + 1900)) := by
  obtain ⟨hv, tm0, tm1, h0, h1, h2, h3⟩ := vbiPilToTime_val cfg L w pil start tz hc htz hr
  have hv' := (pilIsValidDate_iff pil).1 hv
  have hmon := hlaw.mon_range _ _ h0
  have hy := hyear _ h0
  obtain ⟨v1, v2, v3, v4, v5⟩ := pilTm_valid tm0 tm1 pil (-1) hv' hmon.1 hmon.2 hy.1 hy.2 h1 h2
  obtain ⟨tmr, hr1, hr2⟩ := hsound _ v1 v2 _ h3
  obtain ⟨e1, e2, e3, e4, e5, e6⟩ := hr2
  refine ⟨tm0, tmr, h0, hr1, ?_, ?_, ?_, ?_⟩
  · unfold Tm.hasPil at v2 ⊢; rw [e2, e3, e4, e5, e6]; exact v2
  · unfold Tm.monthIndex at v3 ⊢; rw [e1, e2]; exact v3
  · unfold Tm.monthIndex at v4 ⊢; rw [e1, e2]; exact v4
  · rw [e1]; exact v5

/-- the part of `pil_to_time_core` that needs no assumption on mktime -/
theorem pil_to_time_pre (cfg : Cfg) (L : Libc) (w : World) (pil : Nat) (start : Int) (tz : Option String)
    (hc : w.Consistent) (htz : tz ≠ some "UTC")
    (hlaw : (L.zoneOf (effectiveTz w tz)).Lawful)
    (hyear : ∀ tms, (L.zoneOf (effectiveTz w tz)).toLocal (refTime L start) = some tms →
      1 ≤ tms.year + 1900 ∧ tms.year + 1901 ≤ INT_MAX)
    (hr : (vbiPilToTime cfg L w pil start tz).1 ≠ -1) :
    ∃ tms tmP, (L.zoneOf (effectiveTz w tz)).toLocal (refTime L start) = some tms
      ∧ tmP.validCivil ∧ tmP.hasPil pil
      ∧ -6 ≤ tmP.monthIndex - tms.monthIndex ∧ tmP.monthIndex - tms.monthIndex ≤ 5
      ∧ (pilMonth pil = 2 → pilDay pil = 29 → isLeap (tmP.year + 1900))
      ∧ (L.zoneOf (effectiveTz w tz)).fromLocal tmP = some (vbiPilToTime cfg L w pil start tz).1 := by
  obtain ⟨hv, tm0, tm1, h0, h1, h2, h3⟩ := vbiPilToTime_val cfg L w pil start tz hc htz hr
  have hv' := (pilIsValidDate_iff pil).1 hv
  have hmon := hlaw.mon_range _ _ h0
  have hy := hyear _ h0
  obtain ⟨v1, v2, v3, v4, v5⟩ := pilTm_valid tm0 tm1 pil (-1) hv' hmon.1 hmon.2 hy.1 hy.2 h1 h2
  exact ⟨tm0, _, h0, v1, v2, v3, v4, v5, h3⟩

theorem Tm.sameCivil.trans {a b c : Tm} (h1 : a.sameCivil b) (h2 : b.sameCivil c) : a.sameCivil c :=
  ⟨h1.1.trans h2.1, h1.2.1.trans h2.2.1, h1.2.2.1.trans h2.2.2.1, h1.2.2.2.1.trans h2.2.2.2.1,
   h1.2.2.2.2.1.trans h2.2.2.2.2.1, h1.2.2.2.2.2.trans h2.2.2.2.2.2⟩

theorem Tm.sameCivil.hasPil {a b : Tm} {pil : Nat} (h : a.sameCivil b) (hb : b.hasPil pil) : a.hasPil pil := by
  obtain ⟨_, e2, e3, e4, e5, e6⟩ := h
  unfold Tm.hasPil at hb ⊢; rw [e2, e3, e4, e5, e6]; exact hb

theorem Zone.FollowsOffsets.lawful {Z : Zone} {off : Int → Int} (h : Z.FollowsOffsets off) : Z.Lawful where
  mon_range t tm ht := by
    obtain ⟨_, e2, _⟩ := h.localtime t tm ht
    have := (secsFromTm_tmFromSecs (t + off t)).2
    rw [e2]; exact ⟨this.1, this.2.1⟩
  year_int := h.year_int

/-- `vbi_pil_to_time` in a zone with DST, gap/overlap rule explicit -/
theorem pil_to_time_dst (cfg : Cfg) (L : Libc) (w : World) (pil : Nat) (start : Int) (tz : Option String) (off : Int → Int)
    (hc : w.Consistent) (htz : tz ≠ some "UTC")
    (hz : (L.zoneOf (effectiveTz w tz)).FollowsOffsets off)
    (hyear : ∀ tms, (L.zoneOf (effectiveTz w tz)).toLocal (refTime L start) = some tms →
      1 ≤ tms.year + 1900 ∧ tms.year + 1901 ≤ INT_MAX)
    (hr : (vbiPilToTime cfg L w pil start tz).1 ≠ -1) :
    ∃ tms tmP tmr, (L.zoneOf (effectiveTz w tz)).toLocal (refTime L start) = some tms
      ∧ tmP.validCivil ∧ tmP.hasPil pil
      ∧ -6 ≤ tmP.monthIndex - tms.monthIndex ∧ tmP.monthIndex - tms.monthIndex ≤ 5
      ∧ (pilMonth pil = 2 → pilDay pil = 29 → isLeap (tmP.year + 1900))
      ∧ (L.zoneOf (effectiveTz w tz)).toLocal (vbiPilToTime cfg L w pil start tz).1 = some tmr
      ∧ ((∃ t0, t0 + off t0 = secsFromTm tmP) → tmr.sameCivil tmP)
      ∧ (∃ t', (vbiPilToTime cfg L w pil start tz).1 - 172800 ≤ t' ∧ t' ≤ (vbiPilToTime cfg L w pil start tz).1 + 172800
          ∧ tmr.sameCivil (tmFromSecs (secsFromTm tmP + (off (vbiPilToTime cfg L w pil start tz).1 - off t')))) := by
  obtain ⟨tms, tmP, h0, v1, v2, v3, v4, v5, h3⟩ := pil_to_time_pre cfg L w pil start tz hc htz hz.lawful hyear hr
  obtain ⟨tmr, hr1⟩ := hz.mktime_converts _ _ h3
  have hloc := hz.localtime _ _ hr1
  refine ⟨tms, tmP, tmr, h0, v1, v2, v3, v4, v5, hr1, ?_, ?_⟩
  · intro hex
    have := hz.mktime_hit _ _ v1 h3 hex
    rw [this] at hloc
    exact hloc.trans (tmFromSecs_secsFromTm tmP v1)
  · obtain ⟨t', g1, g2, g3⟩ := hz.mktime_gap _ _ v1 h3
    refine ⟨t', g1, g2, ?_⟩
    have : (vbiPilToTime cfg L w pil start tz).1 + off (vbiPilToTime cfg L w pil start tz).1
        = secsFromTm tmP + (off (vbiPilToTime cfg L w pil start tz).1 - off t') := by omega
    rw [this] at hloc
    exact hloc

/-! ## vbi_pil_lto_to_time on the concrete calendar -/

theorem utcZone_toLocal (t : Int) (tm : Tm) (h : utcZone.toLocal t = some tm) : tm = tmFromSecs t := by
  have := (fixedZone_toLocal 0 t tm h).1
  rwa [Int.add_zero] at this

theorem utcZone_fromLocal (t : Int) (tm : Tm) (h : utcZone.fromLocal tm = some t) : t = secsFromTm tm := by
  have := (fixedZone_fromLocal 0 t tm h).1
  rwa [Int.sub_zero] at this

theorem lto_core (cfg : Cfg) (L : Libc) (w : World) (pil : Nat) (start east t : Int) (hutc : UtcIsCalendar cfg L)
    (hv : PilValid pil)
    (hyear : 1 ≤ (tmFromSecs (refTime L start + east)).year + 1900 ∧ (tmFromSecs (refTime L start + east)).year + 1901 ≤ INT_MAX)
    (h : (validPilLtoToTime cfg L w pil start east).1 = .ok t) :
    ∃ tm1, tmMonMdayFromPil (tmFromSecs (refTime L start + east)) pil = some tm1
      ∧ t + east = secsFromTm { tm1 with hour := (pilHour pil : Int), min := (pilMinute pil : Int), sec := 0 }
      ∧ (tmFromSecs (t + east)).hasPil pil
      ∧ -6 ≤ (tmFromSecs (t + east)).monthIndex - (tmFromSecs (refTime L start + east)).monthIndex
      ∧ (tmFromSecs (t + east)).monthIndex - (tmFromSecs (refTime L start + east)).monthIndex ≤ 5
      ∧ (pilMonth pil = 2 → pilDay pil = 29 → isLeap ((tmFromSecs (t + east)).year + 1900))
      ∧ guardIn cfg (refTime L start) east = false ∧ guardOut cfg (t + east) east = false
      ∧ TIME_MIN < t + east ∧ t + east < TIME_MAX := by
  obtain ⟨tm0, w1, h0, hgi, h1⟩ := validPilLtoToTime_val cfg L w pil start east t h
  obtain ⟨tm1, r, h2, h3, h4, hgo, rfl, hr0, hr1⟩ := ltoFromTm_val cfg L w1 tm0 pil east t hutc h1
  have e0 := utcZone_toLocal _ _ h0
  subst e0
  have er := utcZone_fromLocal _ _ h4
  have hval := (secsFromTm_tmFromSecs (refTime L start + east)).2
  obtain ⟨v1, v2, v3, v4, v5⟩ := pilTm_valid _ tm1 pil (tm1.isdst) hv hval.1 hval.2.1 hyear.1 hyear.2 h2 h3
  have hrt := tmFromSecs_secsFromTm _ v1
  have hte : r - east + east = r := by omega
  rw [hte]
  obtain ⟨e1, e2, e3, e4, e5, e6⟩ := hrt
  refine ⟨tm1, h2, er, ?_, ?_, ?_, ?_, hgi, hgo, hr0, hr1⟩
  · rw [er]; unfold Tm.hasPil at v2 ⊢; rw [e2, e3, e4, e5, e6]; exact v2
  · rw [er]; unfold Tm.monthIndex at v3 ⊢; rw [e1, e2]; exact v3
  · rw [er]; unfold Tm.monthIndex at v4 ⊢; rw [e1, e2]; exact v4
  · rw [er, e1]; exact v5

end Zvbi.Pdc
