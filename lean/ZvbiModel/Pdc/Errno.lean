import ZvbiModel.Pdc.Model
/-!
# errno of the PIL -> time functions of src/pdc.c (C14, round 5)

`Model.lean` computes return values and the TZ / heap state.  This file adds what the C code leaves
in `errno`: the *error kind*.  The file-local functions report it to their callers
(`valid_pil_lto_validity_window` tests `VBI_ERR_INVALID_PIL == errno`), the public 0.2 API
(`VBI_VERSION_MINOR == 2`, regenerated: `Generated.versionMinor`) resets errno to 0 on every path
that reaches libc and leaves it untouched on the paths that return early.

libc convention (established by the interposers of harness/pdc_harness.c, allowed by POSIX): a libc
call that succeeds leaves errno as it was; a failing `strdup`/`setenv` sets ENOMEM, a failing
`localtime_r`/`gmtime_r`/`mktime` sets EOVERFLOW (`mktime` returning (time_t) -1 counts as failing:
the C code cannot tell either); `time()` fails without setting errno.

`validPilLtoToTimeE` is `valid_pil_lto_to_time` with the result type `Except Err Int`; it is written
out statement by statement (not derived from `validPilLtoToTime`), the two are related by the
refinement theorem `validPilLtoToTimeE_refines` (Props/C14Errno.lean).
-/
namespace Zvbi.Pdc

/-- the error kinds the C code distinguishes through errno -/
inductive Err
  | invalidPil   -- VBI_ERR_INVALID_PIL
  | noTime       -- VBI_ERR_NO_TIME
  | overflow     -- EOVERFLOW
  | noMem        -- ENOMEM (strdup / setenv)
deriving DecidableEq, Repr

/-- the value of errno for an error kind (constants regenerated from the C source / this platform) -/
def Err.toErrno : Err → Int
  | .invalidPil => Generated.errInvalidPil
  | .noTime => Generated.errNoTime
  | .overflow => Generated.eOverflow
  | .noMem => Generated.eNoMem

/-- forgetting the kind: the result type of `Model.lean` -/
def toLtoRes : Except Err Int → LtoRes
  | .ok t => .ok t
  | .error .invalidPil => .invalidPil
  | .error _ => .fail

/-- errno after a call that returned `r` when errno was 0 at its start (success leaves 0) -/
def errnoOf : Except Err Int → Int
  | .ok _ => 0
  | .error k => k.toErrno

/-- `_vbi_mktime` / the tail of `_vbi_timegm`: a clamped or failed result is EOVERFLOW -/
def clampE (r : Option Int) : Except Err Int :=
  if clampResult r = -1 then .error .overflow else .ok (clampResult r)

/-- `_vbi_timegm` with the error kind -/
def vbiTimegmE (cfg : Cfg) (L : Libc) (w : World) (tm : Tm) : Except Err Int × World :=
  if cfg.haveTimegm then (clampE (utcZone.fromLocal tm), w)
  else
    let (ok, old, w) := changeTz L w "UTC"
    if !ok then (.error .noMem, w)                      -- change_tz: ENOMEM (strdup or setenv)
    else
      let (r, w) := libcMktime L w tm
      let (rok, w) := restoreTz L w old true
      if !rok then (.error .noMem, w)                   -- restore_tz: ENOMEM
      else (clampE r, w)                                -- errno = saved_errno

/-- `valid_pil_lto_to_time` from the broken-down reference time on, with the error kind -/
def ltoFromTmE (cfg : Cfg) (L : Libc) (w : World) (tm : Tm) (pil : Nat) (east : Int) : Except Err Int × World :=
  match tmMonMdayFromPil tm pil with
  | none => (.error .overflow, w)                       -- errno = EOVERFLOW
  | some tm =>
    if !tmLeapDayCheck tm then (.error .invalidPil, w)  -- errno = VBI_ERR_INVALID_PIL
    else
      let tm := { tm with hour := (pilHour pil : Int), min := (pilMinute pil : Int), sec := 0 }
      let (r, w) := vbiTimegmE cfg L w tm
      match r with
      | .error k => (.error k, w)
      | .ok r =>
        if guardOut cfg r east then (.error .overflow, w)   -- errno = EOVERFLOW
        else (.ok (r - east), w)

/-- `valid_pil_lto_to_time` with the error kind (errno = 0 at the start) -/
def validPilLtoToTimeE (cfg : Cfg) (L : Libc) (w : World) (pil : Nat) (start east : Int) : Except Err Int × World :=
  let (start, w) := startOrNow L w start
  if start = -1 then (.error .noTime, w)                -- time() failed, errno was 0: VBI_ERR_NO_TIME
  else if guardIn cfg start east then (.error .overflow, w)
  else
    let start := start + east
    let (f, w) := w.call L .gmtime
    match (if f then none else utcZone.toLocal start) with
    | none => (.error .overflow, w)                     -- gmtime_r: EOVERFLOW
    | some tm => ltoFromTmE cfg L w tm pil east

/-- `valid_pil_lto_validity_window`: (window or FALSE, errno, world) -/
def validPilLtoValidityWindowE (cfg : Cfg) (L : Libc) (w : World) (pil : Nat) (start east : Int) :
    Option (Int × Int) × Int × World :=
  let (r, w) := validPilLtoToTimeE cfg L w (pil &&& mkPil 15 31 0 0) start east
  match r with
  | .error .invalidPil => (some (TIME_MIN, TIME_MAX), Err.invalidPil.toErrno, w)
  | .error k => (none, k.toErrno, w)
  | .ok t =>
    if t = -1 then (none, 0, w)                         -- read as failure, errno is not INVALID_PIL
    else if t > TIME_MAX - 28 * 60 * 60 then (none, Err.overflow.toErrno, w)
    else if pilHour pil < 4 then
      if guardWin cfg t then (none, Err.overflow.toErrno, w)
      else (some (t - 4 * 60 * 60, t + 28 * 60 * 60), 0, w)
    else (some (t, t + 28 * 60 * 60), 0, w)

/-- errno left by `localtime_tz` (which starts with `errno = 0`) -/
def localtimeTzRestErrno (L : Libc) (w : World) (t : Int) (old : Option String) (tzGiven : Bool) : Int :=
  let (t, w) := startOrNow L w t
  if t = -1 then
    if !(restoreTz L w old tzGiven).1 then Err.noMem.toErrno else Err.noTime.toErrno
  else
    let (f, w) := w.call L .localtime
    match (if f then none else (L.zoneOf w.libc).toLocal t) with
    | none => if !(restoreTz L w old tzGiven).1 then Err.noMem.toErrno else Err.overflow.toErrno
    | some _ => 0

def localtimeTzErrno (L : Libc) (w : World) (t : Int) (tz : Option String) : Int :=
  match tz with
  | some z =>
    let (ok, old, w) := changeTz L w z
    if !ok then Err.noMem.toErrno else localtimeTzRestErrno L w t old true
  | none => localtimeTzRestErrno L w t none false

/-- errno after the public `vbi_pty_validity_window` (0.2 API): 0, except that a failing `restore_tz`
after a failed `mktime` returns without the reset (ENOMEM stays) -/
def vbiPtyValidityWindowErrno (L : Libc) (w : World) (lastTransm : Int) (tz : Option String) : Int :=
  if tz = some "UTC" then 0
  else
    match localtimeTz L w lastTransm tz with
    | (none, _, _) => 0
    | (some tm, old, w) =>
      let tm := { tm with mday := tm.mday + (4 * 7 + 1), hour := 4, min := 0, sec := 0, isdst := -1 }
      let (stop, w) := vbiMktime L w tm
      if stop = -1 then
        if !(restoreTz L w old tz.isSome).1 then Err.noMem.toErrno else 0
      else 0

/-- errno after the public conversions `vbi_pil_lto_to_time` / `vbi_pil_to_time` (0.2 API): always 0 -/
def convErrno : Int := 0

/-- errno after the public window functions (0.2 API): untouched (`e0`) on the early indefinite
returns, 0 on every other path -/
def winErrno (pil : Nat) (e0 : Int) : Int :=
  match classifyPil pil with
  | .indefinite => e0
  | _ => 0

end Zvbi.Pdc
