import ZvbiModel.Pdc.Calendar
import ZvbiModel.Generated.PdcCfg
/-!
# Model of the PIL -> time conversion of src/pdc.c (C14)

Functions follow the C code statement by statement:
`vbi_pil_is_valid_date`, `tm_mon_mday_from_pil`, `is_leap_year`, `tm_leap_day_check`,
`restore_tz`, `change_tz`, `localtime_tz`, `_vbi_mktime`, `_vbi_timegm` (both variants),
`valid_pil_lto_to_time`, `vbi_pil_lto_to_time`, `vbi_pil_to_time`, `pty_utc_validity_window`,
`vbi_pty_validity_window`, `valid_pil_lto_validity_window`, `vbi_pil_lto_validity_window`,
`valid_pil_validity_window`, `vbi_pil_validity_window`.

libc is a parameter (`Libc`): which call of which function fails (failure injection), the clock,
and for every value of the TZ environment variable a `Zone` (`localtime_r`/`mktime`).  The process
state the property is about is `World`: the TZ variable, the value libc's time zone state was
derived from (last `tzset`), the number of live `strdup` blocks, and a flag recording that
`restore_tz` hit the documented ENOMEM exception.
-/
namespace Zvbi.Pdc

def TIME_MAX : Int := 9223372036854775807
def TIME_MIN : Int := -9223372036854775808
def INT_MAX : Int := 2147483647
def INT_MIN : Int := -2147483648

/-! ## PIL fields (pdc.h) -/

def pilMonth (pil : Nat) : Nat := (pil >>> 11) &&& 15
def pilDay (pil : Nat) : Nat := (pil >>> 15) &&& 31
def pilHour (pil : Nat) : Nat := (pil >>> 6) &&& 31
def pilMinute (pil : Nat) : Nat := pil &&& 63
def mkPil (month day hour minute : Nat) : Nat :=
  (day <<< 15) ||| (month <<< 11) ||| (hour <<< 6) ||| minute

def PIL_TIMER_CONTROL : Nat := mkPil 15 0 31 63
def PIL_INHIBIT_TERMINATE : Nat := mkPil 15 0 30 63
def PIL_INTERRUPTION : Nat := mkPil 15 0 29 63
def PIL_CONTINUE : Nat := mkPil 15 0 28 63
def PIL_NSPV : Nat := mkPil 15 15 31 63

/-- `month_days[12]` -/
def monthDays : List Nat := Generated.monthDays

/-- `month_days[month - 1]` guarded the way the C code guards it (`month - 1 < 12` unsigned) -/
def monthDaysOf (month : Nat) : Option Nat :=
  if 1 ≤ month ∧ month ≤ 12 then monthDays[month - 1]? else none

/-- `vbi_pil_is_valid_date` (unsigned `x - 1 < n` written as `1 ≤ x ∧ x ≤ n`) -/
def pilIsValidDate (pil : Nat) : Bool :=
  match monthDaysOf (pilMonth pil) with
  | none => false
  | some md => decide (1 ≤ pilDay pil ∧ pilDay pil ≤ md) && decide (pilHour pil < 24) && decide (pilMinute pil < 60)

/-- C `(unsigned int) x` -/
def toU32 (x : Int) : Nat := (x % 4294967296).toNat

/-- `tm_mon_mday_from_pil`: nearest-year rule. `none` = FALSE (tm_year would overflow). -/
def tmMonMdayFromPil (tm : Tm) (pil : Nat) : Option Tm :=
  let month0 : Nat := (pilMonth pil + 4294967295) % 4294967296      -- VBI_PIL_MONTH (pil) - 1, unsigned
  let monU : Nat := toU32 tm.mon
  if month0 ≥ (monU + 6) % 4294967296 then
    if tm.year ≤ INT_MIN then none
    else some { tm with year := tm.year - 1, mon := (month0 : Int), mday := (pilDay pil : Int) }
  else if (month0 + 6) % 4294967296 < monU then
    if tm.year ≥ INT_MAX then none
    else some { tm with year := tm.year + 1, mon := (month0 : Int), mday := (pilDay pil : Int) }
  else some { tm with mon := (month0 : Int), mday := (pilDay pil : Int) }

/-- `is_leap_year (unsigned int year)` -/
def isLeapYearU (year : Nat) : Bool :=
  if year % 4 ≠ 0 then false
  else if year % 400 = 0 then true
  else year % 100 ≠ 0

/-- `tm_leap_day_check`; the argument of `is_leap_year` is `tm_year + 1900` converted to unsigned -/
def tmLeapDayCheck (tm : Tm) : Bool :=
  tm.mon ≠ 1 || tm.mday ≤ 28 || isLeapYearU (toU32 (tm.year + 1900))

/-! ## libc and the process state -/

structure Zone where
  /-- `localtime_r` in this zone; `none` = NULL (year does not fit `int`) -/
  toLocal : Int → Option Tm
  /-- `mktime` in this zone; `none` = (time_t) -1 -/
  fromLocal : Tm → Option Int

def fitsInt (x : Int) : Bool := decide (INT_MIN ≤ x ∧ x ≤ INT_MAX)

/-- glibc converts an instant in a POSIX-string zone in two steps (`__offtime` with offset 0, then
with the zone offset); both broken-down years must fit `int` -/
def convertible (east t : Int) : Bool :=
  fitsInt (tmFromSecs t).year && fitsInt (tmFromSecs (t + east)).year

/-- a zone with a constant offset east of UTC, on the concrete calendar -/
def fixedZone (east : Int) : Zone where
  toLocal t := if convertible east t then some (tmFromSecs (t + east)) else none
  fromLocal tm :=
    let t := secsFromTm tm - east
    if convertible east t && decide (TIME_MIN ≤ t ∧ t ≤ TIME_MAX) then some t else none

def utcZone : Zone := fixedZone 0

inductive Site | strdup | setenv | time | localtime | gmtime | mktime
deriving DecidableEq, Repr

/-- libc's behaviour: a parameter of every theorem -/
structure Libc where
  /-- the k-th call (1-based, counted per site within one API call) fails -/
  fails : Site → Nat → Bool
  /-- what `time()` returns when it does not fail -/
  now : Int
  /-- the zone libc derives from a value of TZ (`none` = unset) -/
  zoneOf : Option String → Zone

structure World where
  /-- the TZ environment variable -/
  env : Option String
  /-- the TZ value libc's zone state (tzname, timezone, ...) was last derived from -/
  libc : Option String
  /-- live blocks obtained from strdup -/
  heap : Nat
  /-- `restore_tz` took its ENOMEM branch -/
  restoreFailed : Bool
  calls : Site → Nat

/-- count a call of `s` and say whether libc makes it fail -/
def World.call (L : Libc) (w : World) (s : Site) : Bool × World :=
  let k := w.calls s + 1
  (L.fails s k, { w with calls := fun x => if x = s then k else w.calls x })

/-- `restore_tz (&old_tz, tz)`; `tzGiven` = (NULL != tz) -/
def restoreTz (L : Libc) (w : World) (oldTz : Option String) (tzGiven : Bool) : Bool × World :=
  if !tzGiven then (true, w)
  else match oldTz with
    | none => (true, { w with env := none, libc := none })                 -- unsetenv; tzset
    | some old =>
      let (f, w) := w.call L .setenv
      if f then (false, { w with heap := w.heap - 1, restoreFailed := true })  -- free; return FALSE
      else (true, { w with env := some old, libc := some old, heap := w.heap - 1 })  -- free; tzset

/-- `change_tz (&old_tz, tz)`: (success, old_tz, world) -/
def changeTz (L : Libc) (w : World) (tz : String) : Bool × Option String × World :=
  match w.env with
  | some s =>
    let (f, w) := w.call L .strdup
    if f then (false, none, w)
    else
      let w := { w with heap := w.heap + 1 }
      let (f, w) := w.call L .setenv
      if f then (false, none, { w with heap := w.heap - 1 })
      else (true, some s, { w with env := some tz, libc := some tz })
  | none =>
    let (f, w) := w.call L .setenv
    if f then (false, none, w)
    else (true, none, { w with env := some tz, libc := some tz })

/-- `start`, or the clock if `start` is (time_t) -1; -1 = time() failed -/
def startOrNow (L : Libc) (w : World) (start : Int) : Int × World :=
  if start = -1 then
    let (f, w) := w.call L .time
    (if f then (-1 : Int) else L.now, w)
  else (start, w)

/-- `localtime_tz` after the optional `change_tz`: time(), localtime_r, restore on failure -/
def localtimeTzRest (L : Libc) (w : World) (t : Int) (old : Option String) (tzGiven : Bool) :
    Option Tm × Option String × World :=
  let (t, w) := startOrNow L w t
  if t = -1 then
    let (_, w) := restoreTz L w old tzGiven
    (none, none, w)
  else
    let (f, w) := w.call L .localtime
    match (if f then none else (L.zoneOf w.libc).toLocal t) with
    | none =>
      let (_, w) := restoreTz L w old tzGiven
      (none, none, w)
    | some tm => (some tm, old, w)

/-- `localtime_tz (&tm, &old_tz, t, tz)`: (tm or FALSE, old_tz, world) -/
def localtimeTz (L : Libc) (w : World) (t : Int) (tz : Option String) : Option Tm × Option String × World :=
  match tz with
  | some z =>
    let (ok, old, w) := changeTz L w z
    if !ok then (none, none, w) else localtimeTzRest L w t old true
  | none => localtimeTzRest L w t none false

/-- libc `mktime`: calls tzset, then converts in the zone of the current TZ -/
def libcMktime (L : Libc) (w : World) (tm : Tm) : Option Int × World :=
  let (f, w) := w.call L .mktime
  if f then (none, w)
  else
    let w := { w with libc := w.env }
    ((L.zoneOf w.env).fromLocal tm, w)

def clampResult (r : Option Int) : Int :=
  match r with
  | none => -1
  | some r => if r ≤ TIME_MIN ∨ r ≥ TIME_MAX then -1 else r

/-- `_vbi_mktime` -/
def vbiMktime (L : Libc) (w : World) (tm : Tm) : Int × World :=
  let (r, w) := libcMktime L w tm
  (clampResult r, w)

/-- `_vbi_timegm`: with HAVE_TIMEGM libc's timegm, else TZ=UTC + mktime + restore -/
def vbiTimegm (cfg : Cfg) (L : Libc) (w : World) (tm : Tm) : Int × World :=
  if cfg.haveTimegm then (clampResult (utcZone.fromLocal tm), w)
  else
    let (ok, old, w) := changeTz L w "UTC"
    if !ok then (-1, w)
    else
      let (r, w) := libcMktime L w tm
      let (rok, w) := restoreTz L w old true
      if !rok then (-1, w) else (clampResult r, w)

inductive LtoRes
  | ok (t : Int)
  | invalidPil      -- (time_t) -1 with errno = VBI_ERR_INVALID_PIL
  | fail            -- (time_t) -1 with any other errno
deriving DecidableEq, Repr

def LtoRes.toTime : LtoRes → Int
  | .ok t => t
  | _ => -1

/-- lower/upper guard before `start += seconds_east` (pdc.c:652-664) -/
def guardIn (cfg : Cfg) (start east : Int) : Bool :=
  if east < 0 then decide (start < (if cfg.epochIn then -east else TIME_MIN - east))
  else decide (start > TIME_MAX - east)

/-- lower/upper guard before `start - seconds_east` (pdc.c:688-700) -/
def guardOut (cfg : Cfg) (r east : Int) : Bool :=
  if east > 0 then decide (r < (if cfg.epochOut then east else TIME_MIN + east))
  else decide (r > TIME_MAX + east)

/-- `valid_pil_lto_to_time` from the broken-down reference time on -/
def ltoFromTm (cfg : Cfg) (L : Libc) (w : World) (tm : Tm) (pil : Nat) (east : Int) : LtoRes × World :=
  match tmMonMdayFromPil tm pil with
  | none => (.fail, w)
  | some tm =>
    if !tmLeapDayCheck tm then (.invalidPil, w)
    else
      let tm := { tm with hour := (pilHour pil : Int), min := (pilMinute pil : Int), sec := 0 }
      let (r, w) := vbiTimegm cfg L w tm
      if r = -1 then (.fail, w)
      else if guardOut cfg r east then (.fail, w)
      else (.ok (r - east), w)

/-- `valid_pil_lto_to_time` -/
def validPilLtoToTime (cfg : Cfg) (L : Libc) (w : World) (pil : Nat) (start east : Int) : LtoRes × World :=
  let (start, w) := startOrNow L w start
  if start = -1 then (.fail, w)
  else if guardIn cfg start east then (.fail, w)
  else
    let start := start + east
    let (f, w) := w.call L .gmtime
    match (if f then none else utcZone.toLocal start) with
    | none => (.fail, w)
    | some tm => ltoFromTm cfg L w tm pil east

/-- `vbi_pil_lto_to_time` -/
def vbiPilLtoToTime (cfg : Cfg) (L : Libc) (w : World) (pil : Nat) (start east : Int) : Int × World :=
  if !pilIsValidDate pil then (-1, w)
  else
    let (r, w) := validPilLtoToTime cfg L w pil start east
    (r.toTime, w)

/-- `vbi_pil_to_time` from the broken-down reference time on -/
def toTimeFromTm (L : Libc) (w : World) (tm : Tm) (old : Option String) (tzGiven : Bool) (pil : Nat) : Int × World :=
  match tmMonMdayFromPil tm pil with
  | none => let (_, w) := restoreTz L w old tzGiven; (-1, w)
  | some tm =>
    if !tmLeapDayCheck tm then let (_, w) := restoreTz L w old tzGiven; (-1, w)
    else
      let tm := { tm with hour := (pilHour pil : Int), min := (pilMinute pil : Int), sec := 0, isdst := -1 }
      let (r, w) := vbiMktime L w tm
      if r = -1 then let (_, w) := restoreTz L w old tzGiven; (-1, w)
      else
        let (rok, w) := restoreTz L w old tzGiven
        if !rok then (-1, w) else (r, w)

/-- `vbi_pil_to_time` -/
def vbiPilToTime (cfg : Cfg) (L : Libc) (w : World) (pil : Nat) (start : Int) (tz : Option String) : Int × World :=
  if !pilIsValidDate pil then (-1, w)
  else if tz = some "UTC" then
    let (r, w) := validPilLtoToTime cfg L w pil start 0
    (r.toTime, w)
  else
    match localtimeTz L w start tz with
    | (none, _, w) => (-1, w)
    | (some tm, old, w) => toTimeFromTm L w tm old tz.isSome pil

/-! ## validity windows -/

/-- `pty_utc_validity_window` -/
def ptyUtcValidityWindow (L : Libc) (w : World) (time : Int) : Option (Int × Int) × World :=
  let (f, w) := w.call L .gmtime
  match (if f then none else utcZone.toLocal time) with
  | none => (none, w)
  | some tm =>
    let ssm := tm.hour * 3600 + tm.min * 60 + tm.sec
    let duration := 4 * 7 * 24 * 60 * 60 + (24 + 4) * 60 * 60 - ssm
    if time > TIME_MAX - duration then (none, w)
    else (some (time, time + duration), w)

/-- `vbi_pty_validity_window` from the broken-down time on -/
def ptyFromTm (L : Libc) (w : World) (tm : Tm) (old : Option String) (tzGiven : Bool) (lastTransm : Int) :
    Option (Int × Int) × World :=
  let tm := { tm with mday := tm.mday + (4 * 7 + 1), hour := 4, min := 0, sec := 0, isdst := -1 }
  let (stop, w) := vbiMktime L w tm
  if stop = -1 then let (_, w) := restoreTz L w old tzGiven; (none, w)
  else
    let (rok, w) := restoreTz L w old tzGiven
    if !rok then (none, w) else (some (lastTransm, stop), w)

/-- `vbi_pty_validity_window` -/
def vbiPtyValidityWindow (L : Libc) (w : World) (lastTransm : Int) (tz : Option String) : Option (Int × Int) × World :=
  if tz = some "UTC" then ptyUtcValidityWindow L w lastTransm
  else
    match localtimeTz L w lastTransm tz with
    | (none, _, w) => (none, w)
    | (some tm, old, w) => ptyFromTm L w tm old tz.isSome lastTransm

/-- lower guard before `t - 4 * 60 * 60` (pdc.c:1117) -/
def guardWin (cfg : Cfg) (t : Int) : Bool :=
  decide (t < (if cfg.epochWin then 4 * 60 * 60 else TIME_MIN + 4 * 60 * 60))

/-- `valid_pil_lto_validity_window` -/
def validPilLtoValidityWindow (cfg : Cfg) (L : Libc) (w : World) (pil : Nat) (start east : Int) :
    Option (Int × Int) × World :=
  let (r, w) := validPilLtoToTime cfg L w (pil &&& mkPil 15 31 0 0) start east
  match r with
  | .invalidPil => (some (TIME_MIN, TIME_MAX), w)
  | .fail => (none, w)
  | .ok t =>
    -- `(time_t) -1 == t` is read as failure even when -1 is the converted value (sentinel of the
    -- documented interface; errno is not VBI_ERR_INVALID_PIL then): return FALSE
    if t = -1 then (none, w)
    else if t > TIME_MAX - 28 * 60 * 60 then (none, w)
    else if pilHour pil < 4 then
      if guardWin cfg t then (none, w)
      else (some (t - 4 * 60 * 60, t + 28 * 60 * 60), w)
    else (some (t, t + 28 * 60 * 60), w)

/-- the part of `vbi_pil_lto_validity_window` / `vbi_pil_validity_window` that does not depend on
the zone: `some r` = decided here, `none` = go on to the date branch (`valid`) -/
inductive WinClass | unallocated | indefinite | date | nspv
deriving DecidableEq, Repr

def classifyPil (pil : Nat) : WinClass :=
  let month := pilMonth pil
  if month = 0 then .unallocated
  else if month ≤ 12 then
    match monthDaysOf month with
    | some md => if 1 ≤ pilDay pil ∧ pilDay pil ≤ md then .date else .indefinite
    | none => .indefinite
  else if month ≤ 14 then .indefinite
  else if pil = PIL_TIMER_CONTROL ∨ pil = PIL_INHIBIT_TERMINATE ∨ pil = PIL_INTERRUPTION ∨ pil = PIL_CONTINUE then .indefinite
  else if pil = PIL_NSPV then .nspv
  else .unallocated

/-- `vbi_pil_lto_validity_window` -/
def vbiPilLtoValidityWindow (cfg : Cfg) (L : Libc) (w : World) (pil : Nat) (start east : Int) :
    Option (Int × Int) × World :=
  match classifyPil pil with
  | .unallocated => (none, w)
  | .indefinite => (some (TIME_MIN, TIME_MAX), w)
  | .date => validPilLtoValidityWindow cfg L w pil start east
  | .nspv => ptyUtcValidityWindow L w start

/-- `valid_pil_validity_window` from the broken-down reference time on -/
def winFromTm (L : Libc) (w : World) (tm : Tm) (old : Option String) (tzGiven : Bool) (pil : Nat) :
    Option (Int × Int) × World :=
  match tmMonMdayFromPil tm pil with
  | none => let (_, w) := restoreTz L w old tzGiven; (none, w)
  | some tm =>
    if !tmLeapDayCheck tm then
      let (rok, w) := restoreTz L w old tzGiven
      if !rok then (none, w) else (some (TIME_MIN, TIME_MAX), w)
    else
      let tm := { tm with hour := 0, min := 0, sec := 0, isdst := -1 }
      let tm2 := tm
      let tm := if pilHour pil < 4 then { tm with mday := tm.mday - 1, hour := 20 } else tm
      let (start, w) := vbiMktime L w tm
      if start = -1 then let (_, w) := restoreTz L w old tzGiven; (none, w)
      else
        let tm2 := { tm2 with mday := tm2.mday + 1, hour := 4 }
        let (stop, w) := vbiMktime L w tm2
        if stop = -1 then let (_, w) := restoreTz L w old tzGiven; (none, w)
        else
          let (rok, w) := restoreTz L w old tzGiven
          if !rok then (none, w) else (some (start, stop), w)

/-- `valid_pil_validity_window` -/
def validPilValidityWindow (cfg : Cfg) (L : Libc) (w : World) (pil : Nat) (start : Int) (tz : Option String) :
    Option (Int × Int) × World :=
  if tz = some "UTC" then validPilLtoValidityWindow cfg L w pil start 0
  else
    match localtimeTz L w start tz with
    | (none, _, w) => (none, w)
    | (some tm, old, w) => winFromTm L w tm old tz.isSome pil

/-- `vbi_pil_validity_window` -/
def vbiPilValidityWindow (cfg : Cfg) (L : Libc) (w : World) (pil : Nat) (start : Int) (tz : Option String) :
    Option (Int × Int) × World :=
  match classifyPil pil with
  | .unallocated => (none, w)
  | .indefinite => (some (TIME_MIN, TIME_MAX), w)
  | .date => validPilValidityWindow cfg L w pil start tz
  | .nspv => vbiPtyValidityWindow L w start tz

end Zvbi.Pdc
