import ZvbiModel.Pdc.Spec
/-!
# The TZ save / switch / restore dance: every path either puts everything back or reports failure
-/
namespace Zvbi.Pdc
set_option linter.unusedSimpArgs false

@[simp] theorem call_env (L : Libc) (w : World) (s : Site) : (w.call L s).2.env = w.env := rfl
@[simp] theorem call_libc (L : Libc) (w : World) (s : Site) : (w.call L s).2.libc = w.libc := rfl
@[simp] theorem call_heap (L : Libc) (w : World) (s : Site) : (w.call L s).2.heap = w.heap := rfl
@[simp] theorem call_rf (L : Libc) (w : World) (s : Site) : (w.call L s).2.restoreFailed = w.restoreFailed := rfl
theorem call_fst (L : Libc) (w : World) (s : Site) : (w.call L s).1 = L.fails s (w.calls s + 1) := rfl

theorem TzUntouched.refl (w : World) (h : w.restoreFailed = false) : TzUntouched w w := ⟨rfl, rfl, rfl, h⟩

theorem TzUntouched.trans {a b c : World} (h1 : TzUntouched a b) (h2 : TzUntouched b c) : TzUntouched a c :=
  ⟨h2.1.trans h1.1, h2.2.1.trans h1.2.1, h2.2.2.1.trans h1.2.2.1, h2.2.2.2⟩

theorem TzUntouched.call {a b : World} (L : Libc) (s : Site) (h : TzUntouched a b) : TzUntouched a (b.call L s).2 :=
  ⟨h.1, h.2.1, h.2.2.1, h.2.2.2⟩

theorem TzUntouched.consistent {a b : World} (ha : a.Consistent) (h : TzUntouched a b) : b.Consistent :=
  ⟨by rw [h.2.1, h.1]; exact ha.1, h.2.2.2⟩

theorem RestoreFailed.of_untouched {L : Libc} {a b c : World} (h1 : TzUntouched a b) (h2 : RestoreFailed L b c) :
    RestoreFailed L a c := ⟨h2.1, h2.2.1.trans h1.2.2.1, h2.2.2⟩

/-- the state between `change_tz` and `restore_tz` -/
def Mid (w0 w : World) (old tz : Option String) : Prop :=
  w.restoreFailed = false ∧
  match tz with
  | some z => w.env = some z ∧ w.libc = some z ∧ old = w0.env ∧ w.heap = w0.heap + (if w0.env.isSome then 1 else 0)
  | none => w.env = w0.env ∧ w.libc = w0.env ∧ old = none ∧ w.heap = w0.heap

theorem Mid.call {w0 w : World} {old tz : Option String} (L : Libc) (s : Site) (h : Mid w0 w old tz) :
    Mid w0 (w.call L s).2 old tz := by
  cases tz <;> exact h

theorem restoreTz_mid (L : Libc) {w0 w : World} {old tz : Option String} (hc : w0.Consistent) (h : Mid w0 w old tz) :
    ((restoreTz L w old tz.isSome).1 = true ∧ TzUntouched w0 (restoreTz L w old tz.isSome).2)
    ∨ ((restoreTz L w old tz.isSome).1 = false ∧ RestoreFailed L w0 (restoreTz L w old tz.isSome).2) := by
  obtain ⟨hrf, h⟩ := h
  cases tz with
  | none =>
    left
    simp only [restoreTz, Option.isSome_none, Bool.not_false, if_true, Bool.false_eq_true, ↓reduceIte]
    exact ⟨trivial, h.1, h.2.1.trans hc.1.symm, h.2.2.2, hrf⟩
  | some z =>
    obtain ⟨he, hl, ho, hh⟩ := h
    cases old with
    | none =>
      left
      simp only [restoreTz, Option.isSome_some, Bool.not_true, Bool.false_eq_true, ↓reduceIte]
      refine ⟨trivial, ?_, ?_, ?_, hrf⟩
      · exact ho
      · show none = w0.libc; rw [hc.1]; exact ho
      · show w.heap = w0.heap; rw [hh, ← ho]; simp
    | some o =>
      simp only [restoreTz, Option.isSome_some, Bool.not_true, Bool.false_eq_true, ↓reduceIte]
      have hh' : w.heap = w0.heap + 1 := by rw [hh, ← ho]; simp
      by_cases hf : (w.call L .setenv).1 = true
      · right
        simp only [hf, if_true, Bool.false_eq_true, ↓reduceIte]
        refine ⟨trivial, rfl, ?_, ?_⟩
        · show (w.call L .setenv).2.heap - 1 = w0.heap; simp [hh']
        · exact ⟨w.calls .setenv + 1, hf⟩
      · left
        simp only [hf, Bool.false_eq_true, ↓reduceIte]
        refine ⟨trivial, ?_, ?_, ?_, ?_⟩
        · exact ho
        · show some o = w0.libc; rw [hc.1]; exact ho
        · show (w.call L .setenv).2.heap - 1 = w0.heap; simp [hh']
        · show (w.call L .setenv).2.restoreFailed = false; simpa using hrf

theorem changeTz_spec (L : Libc) (w : World) (z : String) (hrf : w.restoreFailed = false) :
    ((changeTz L w z).1 = true ∧ Mid w (changeTz L w z).2.2 (changeTz L w z).2.1 (some z))
    ∨ ((changeTz L w z).1 = false ∧ TzUntouched w (changeTz L w z).2.2) := by
  unfold changeTz
  cases he : w.env with
  | none =>
    dsimp only
    by_cases hf : (w.call L .setenv).1 = true
    · right; simp only [hf, if_true, Bool.false_eq_true, ↓reduceIte]; exact ⟨trivial, he ▸ rfl, rfl, rfl, hrf⟩
    · left; simp only [hf, Bool.false_eq_true, ↓reduceIte]
      refine ⟨trivial, hrf, rfl, rfl, he.symm, ?_⟩
      simp [he]
  | some s =>
    dsimp only
    by_cases hf : (w.call L .strdup).1 = true
    · right; simp only [hf, if_true, Bool.false_eq_true, ↓reduceIte]; exact ⟨trivial, he ▸ rfl, rfl, rfl, hrf⟩
    · simp only [hf, Bool.false_eq_true, ↓reduceIte]
      generalize hw1 : ({ (w.call L .strdup).2 with heap := (w.call L .strdup).2.heap + 1 } : World) = w1
      have e1 : w1.env = w.env := by subst hw1; rfl
      have l1 : w1.libc = w.libc := by subst hw1; rfl
      have h1 : w1.heap = w.heap + 1 := by subst hw1; rfl
      have r1 : w1.restoreFailed = false := by subst hw1; exact hrf
      by_cases hf2 : (w1.call L .setenv).1 = true
      · right; simp only [hf2, if_true, Bool.false_eq_true, ↓reduceIte]
        refine ⟨trivial, ?_, ?_, ?_, ?_⟩
        · show (w1.call L .setenv).2.env = w.env; simpa using e1
        · show (w1.call L .setenv).2.libc = w.libc; simpa using l1
        · show (w1.call L .setenv).2.heap - 1 = w.heap; simp [h1]
        · show (w1.call L .setenv).2.restoreFailed = false; simpa using r1
      · left; simp only [hf2, Bool.false_eq_true, ↓reduceIte]
        refine ⟨trivial, ?_, rfl, rfl, he.symm, ?_⟩
        · show (w1.call L .setenv).2.restoreFailed = false; simpa using r1
        · show (w1.call L .setenv).2.heap = w.heap + _; simp [h1, he]

/-! ## mktime between change and restore -/

theorem libcMktime_env (L : Libc) (w : World) (tm : Tm) : (libcMktime L w tm).2.env = w.env := by
  unfold libcMktime; dsimp only; split <;> rfl

theorem libcMktime_mid (L : Libc) {w0 w : World} {old tz : Option String} (tm : Tm) (h : Mid w0 w old tz) :
    Mid w0 (libcMktime L w tm).2 old tz := by
  unfold libcMktime; dsimp only
  split
  · exact h.call L .mktime
  · obtain ⟨hrf, h⟩ := h
    refine ⟨hrf, ?_⟩
    cases tz with
    | none => exact ⟨h.1, h.1, h.2.2⟩
    | some z => exact ⟨h.1, h.1, h.2.2⟩

theorem libcMktime_val (L : Libc) (w : World) (tm : Tm) (r : Int) (h : (libcMktime L w tm).1 = some r) :
    (L.zoneOf w.env).fromLocal tm = some r := by
  unfold libcMktime at h; dsimp only at h
  split at h
  · cases h
  · exact h

theorem clampResult_ne (r : Option Int) (h : clampResult r ≠ -1) : r = some (clampResult r) ∧ TIME_MIN < clampResult r ∧ clampResult r < TIME_MAX := by
  unfold clampResult at h ⊢
  cases r with
  | none => exact absurd rfl h
  | some x =>
    dsimp only at h ⊢
    split at h
    · exact absurd rfl h
    · rename_i hx
      rw [if_neg hx]
      exact ⟨rfl, by omega, by omega⟩

theorem vbiMktime_mid (L : Libc) {w0 w : World} {old tz : Option String} (tm : Tm) (h : Mid w0 w old tz) :
    Mid w0 (vbiMktime L w tm).2 old tz := libcMktime_mid L tm h

theorem vbiMktime_env (L : Libc) (w : World) (tm : Tm) : (vbiMktime L w tm).2.env = w.env := libcMktime_env L w tm

theorem vbiMktime_val (L : Libc) (w : World) (tm : Tm) (h : (vbiMktime L w tm).1 ≠ -1) :
    (L.zoneOf w.env).fromLocal tm = some (vbiMktime L w tm).1 :=
  libcMktime_val L w tm _ (clampResult_ne _ h).1

/-! ## localtime_tz -/

/-- the reference time the conversion works with: `start`, or the clock when `start` is (time_t) -1 -/
def refTime (L : Libc) (t : Int) : Int := if t = -1 then L.now else t

theorem startOrNow_world (L : Libc) (w : World) (t : Int) :
    (startOrNow L w t).2 = w ∨ (startOrNow L w t).2 = (w.call L .time).2 := by
  unfold startOrNow; split
  · exact Or.inr rfl
  · exact Or.inl rfl

theorem startOrNow_val (L : Libc) (w : World) (t : Int) (h : (startOrNow L w t).1 ≠ -1) :
    (startOrNow L w t).1 = refTime L t := by
  unfold startOrNow refTime at *
  split
  · rename_i ht; rw [if_pos ht] at h; dsimp only at h ⊢
    split
    · rename_i hf; rw [if_pos hf] at h; exact absurd rfl h
    · rfl
  · rfl

theorem startOrNow_mid (L : Libc) {w0 w : World} {old tz : Option String} (t : Int) (h : Mid w0 w old tz) :
    Mid w0 (startOrNow L w t).2 old tz := by
  rcases startOrNow_world L w t with e | e <;> rw [e]
  · exact h
  · exact h.call L .time

theorem startOrNow_untouched (L : Libc) {w0 w : World} (t : Int) (h : TzUntouched w0 w) :
    TzUntouched w0 (startOrNow L w t).2 := by
  rcases startOrNow_world L w t with e | e <;> rw [e]
  · exact h
  · exact h.call L .time

/-- what a (tm or FALSE, old_tz, world) result of `localtime_tz` guarantees -/
def LocaltimeOk (L : Libc) (w0 : World) (t : Int) (tz : Option String) (r : Option Tm × Option String × World) : Prop :=
  (∀ tm, r.1 = some tm → Mid w0 r.2.2 r.2.1 tz ∧ (L.zoneOf (effectiveTz w0 tz)).toLocal (refTime L t) = some tm)
  ∧ (r.1 = none → TzUntouched w0 r.2.2 ∨ RestoreFailed L w0 r.2.2)

theorem localtimeTzRest_spec (L : Libc) (w0 w1 : World) (t : Int) (old tz : Option String) (hc : w0.Consistent)
    (hmid : Mid w0 w1 old tz) : LocaltimeOk L w0 t tz (localtimeTzRest L w1 t old tz.isSome) := by
  unfold localtimeTzRest
  dsimp only
  have hmid2 : Mid w0 (startOrNow L w1 t).2 old tz := startOrNow_mid L t hmid
  have ht' := startOrNow_val L w1 t
  generalize (startOrNow L w1 t).2 = w2 at *
  generalize (startOrNow L w1 t).1 = t' at *
  have hrest : ∀ w, Mid w0 w old tz →
      LocaltimeOk L w0 t tz (none, none, (restoreTz L w old tz.isSome).2) := by
    intro w hm
    refine ⟨(fun tm h => nomatch h), fun _ => ?_⟩
    rcases restoreTz_mid L hc hm with ⟨_, h⟩ | ⟨_, h⟩
    · exact Or.inl h
    · exact Or.inr h
  by_cases h1 : t' = -1
  · simp only [h1, ↓reduceIte]; exact hrest _ hmid2
  · simp only [h1, ↓reduceIte]
    have hzone : L.zoneOf (w2.call L .localtime).2.libc = L.zoneOf (effectiveTz w0 tz) := by
      have hm := hmid2.call L .localtime
      cases tz with
      | none => rw [hm.2.2.1]; rfl
      | some z => rw [hm.2.2.1]; rfl
    generalize hq : (if (w2.call L .localtime).1 = true then none else (L.zoneOf (w2.call L .localtime).2.libc).toLocal t') = q
    cases q with
    | none => exact hrest _ (hmid2.call L .localtime)
    | some tm =>
      refine ⟨fun tm' h => ?_, fun h => nomatch h⟩
      cases h
      refine ⟨hmid2.call L .localtime, ?_⟩
      split at hq
      · cases hq
      · rw [← ht' h1, ← hzone]; exact hq

theorem localtimeTz_spec (L : Libc) (w0 : World) (t : Int) (tz : Option String) (hc : w0.Consistent) :
    LocaltimeOk L w0 t tz (localtimeTz L w0 t tz) := by
  unfold localtimeTz
  cases tz with
  | none =>
    dsimp only
    exact localtimeTzRest_spec L w0 w0 t none none hc ⟨hc.2, rfl, hc.1, rfl, rfl⟩
  | some z =>
    dsimp only
    rcases changeTz_spec L w0 z hc.2 with ⟨hok, hmid⟩ | ⟨hok, hun⟩
    · simp only [hok, Bool.not_true, Bool.false_eq_true, ↓reduceIte]
      exact localtimeTzRest_spec L w0 _ t _ (some z) hc hmid
    · simp only [hok, Bool.not_false, ↓reduceIte]
      exact ⟨(fun tm h => nomatch h), fun _ => Or.inl hun⟩

/-! ## the public functions -/

/-- after a call: everything is as before, or `restore_tz` failed and the call reports failure -/
def TzOutcome (L : Libc) (w0 w' : World) (failed : Prop) : Prop :=
  TzUntouched w0 w' ∨ (RestoreFailed L w0 w' ∧ failed)

theorem TzOutcome.of_untouched {L : Libc} {a b c : World} {p : Prop} (h1 : TzUntouched a b) (h2 : TzOutcome L b c p) :
    TzOutcome L a c p := by
  rcases h2 with h | ⟨h, hp⟩
  · exact Or.inl (h1.trans h)
  · exact Or.inr ⟨RestoreFailed.of_untouched h1 h, hp⟩

theorem vbiTimegm_tz (cfg : Cfg) (L : Libc) (w0 : World) (tm : Tm) (hc : w0.Consistent) :
    TzOutcome L w0 (vbiTimegm cfg L w0 tm).2 ((vbiTimegm cfg L w0 tm).1 = -1) := by
  unfold vbiTimegm
  split
  · exact Or.inl (TzUntouched.refl _ hc.2)
  · dsimp only
    rcases changeTz_spec L w0 "UTC" hc.2 with ⟨hok, hmid⟩ | ⟨hok, hun⟩
    · simp only [hok, Bool.not_true, Bool.false_eq_true, ↓reduceIte]
      have hm2 := libcMktime_mid L tm hmid
      rcases restoreTz_mid L hc hm2 with ⟨hr, h⟩ | ⟨hr, h⟩
      · simp only [Option.isSome_some] at hr h
        simp only [hr, Bool.not_true, Bool.false_eq_true, ↓reduceIte]
        exact Or.inl h
      · simp only [Option.isSome_some] at hr h
        simp only [hr, Bool.not_false, ↓reduceIte]
        exact Or.inr ⟨h, trivial⟩
    · simp only [hok, Bool.not_false, ↓reduceIte]
      exact Or.inl hun

theorem ltoFromTm_tz (cfg : Cfg) (L : Libc) (w0 : World) (tm : Tm) (pil : Nat) (east : Int) (hc : w0.Consistent) :
    TzOutcome L w0 (ltoFromTm cfg L w0 tm pil east).2 ((ltoFromTm cfg L w0 tm pil east).1 = .fail) := by
  unfold ltoFromTm
  have hrefl := TzUntouched.refl w0 hc.2
  split
  · exact Or.inl hrefl
  · split
    · exact Or.inl hrefl
    · dsimp only
      rename_i tm1 _ _
      have hto := vbiTimegm_tz cfg L w0
        { tm1 with hour := (pilHour pil : Int), min := (pilMinute pil : Int), sec := 0 } hc
      split
      · rcases hto with h1 | ⟨h1, _⟩
        · exact Or.inl h1
        · exact Or.inr ⟨h1, rfl⟩
      · rename_i hne
        have hun : TzUntouched w0 (vbiTimegm cfg L w0
            { tm1 with hour := (pilHour pil : Int), min := (pilMinute pil : Int), sec := 0 }).2 := by
          rcases hto with h1 | ⟨_, h2⟩
          · exact h1
          · exact absurd h2 hne
        split <;> exact Or.inl hun

theorem validPilLtoToTime_tz (cfg : Cfg) (L : Libc) (w0 : World) (pil : Nat) (start east : Int) (hc : w0.Consistent) :
    TzOutcome L w0 (validPilLtoToTime cfg L w0 pil start east).2 ((validPilLtoToTime cfg L w0 pil start east).1 = .fail) := by
  unfold validPilLtoToTime
  dsimp only
  have hu1 : TzUntouched w0 (startOrNow L w0 start).2 := startOrNow_untouched L start (TzUntouched.refl w0 hc.2)
  generalize (startOrNow L w0 start).2 = w1 at *
  generalize (startOrNow L w0 start).1 = s' at *
  split
  · exact Or.inl hu1
  split
  · exact Or.inl hu1
  have hu2 : TzUntouched w0 (w1.call L .gmtime).2 := hu1.call L .gmtime
  split
  · exact Or.inl hu2
  · exact TzOutcome.of_untouched hu2 (ltoFromTm_tz cfg L _ _ pil east (hu2.consistent hc))

theorem restore_outcome (L : Libc) {w0 w : World} {old tz : Option String} (hc : w0.Consistent) (hm : Mid w0 w old tz) :
    TzOutcome L w0 (restoreTz L w old tz.isSome).2 True := by
  rcases restoreTz_mid L hc hm with ⟨_, h⟩ | ⟨_, h⟩
  · exact Or.inl h
  · exact Or.inr ⟨h, trivial⟩

theorem TzOutcome.mono {L : Libc} {a b : World} {p q : Prop} (h : TzOutcome L a b p) (hpq : p → q) : TzOutcome L a b q := by
  rcases h with h | ⟨h, hp⟩
  · exact Or.inl h
  · exact Or.inr ⟨h, hpq hp⟩

theorem toTimeFromTm_tz (L : Libc) {w0 w : World} {old tz : Option String} (tm : Tm) (pil : Nat) (hc : w0.Consistent)
    (hm : Mid w0 w old tz) :
    TzOutcome L w0 (toTimeFromTm L w tm old tz.isSome pil).2 ((toTimeFromTm L w tm old tz.isSome pil).1 = -1) := by
  unfold toTimeFromTm
  split
  · exact (restore_outcome L hc hm).mono (fun _ => rfl)
  · split
    · exact (restore_outcome L hc hm).mono (fun _ => rfl)
    · dsimp only
      rename_i tm1 _ _
      have hm2 := vbiMktime_mid L { tm1 with hour := (pilHour pil : Int), min := (pilMinute pil : Int), sec := 0, isdst := -1 } hm
      split
      · exact (restore_outcome L hc hm2).mono (fun _ => rfl)
      · rcases restoreTz_mid L hc hm2 with ⟨hr, h⟩ | ⟨hr, h⟩
        · simp only [hr, Bool.not_true, Bool.false_eq_true, ↓reduceIte]; exact Or.inl h
        · simp only [hr, Bool.not_false, ↓reduceIte]; exact Or.inr ⟨h, trivial⟩

theorem winFromTm_tz (L : Libc) {w0 w : World} {old tz : Option String} (tm : Tm) (pil : Nat) (hc : w0.Consistent)
    (hm : Mid w0 w old tz) :
    TzOutcome L w0 (winFromTm L w tm old tz.isSome pil).2 ((winFromTm L w tm old tz.isSome pil).1 = none) := by
  unfold winFromTm
  split
  · exact (restore_outcome L hc hm).mono (fun _ => rfl)
  · split
    · rcases restoreTz_mid L hc hm with ⟨hr, h⟩ | ⟨hr, h⟩
      · simp only [hr, Bool.not_true, Bool.false_eq_true, ↓reduceIte]; exact Or.inl h
      · simp only [hr, Bool.not_false, ↓reduceIte]; exact Or.inr ⟨h, trivial⟩
    · dsimp only
      rename_i tm1 _ _
      generalize hA : (if pilHour pil < 4 then
          ({ tm1 with hour := 20, min := 0, sec := 0, isdst := -1, mday := tm1.mday - 1 } : Tm)
          else { tm1 with hour := 0, min := 0, sec := 0, isdst := -1 }) = tmA
      have hm2 := vbiMktime_mid L tmA hm
      split
      · exact (restore_outcome L hc hm2).mono (fun _ => rfl)
      · have hm3 := vbiMktime_mid L { tm1 with mday := tm1.mday + 1, hour := 4, min := 0, sec := 0, isdst := -1 } hm2
        split
        · exact (restore_outcome L hc hm3).mono (fun _ => rfl)
        · rcases restoreTz_mid L hc hm3 with ⟨hr, h⟩ | ⟨hr, h⟩
          · simp only [hr, Bool.not_true, Bool.false_eq_true, ↓reduceIte]; exact Or.inl h
          · simp only [hr, Bool.not_false, ↓reduceIte]; exact Or.inr ⟨h, trivial⟩

theorem ptyFromTm_tz (L : Libc) {w0 w : World} {old tz : Option String} (tm : Tm) (t : Int) (hc : w0.Consistent)
    (hm : Mid w0 w old tz) :
    TzOutcome L w0 (ptyFromTm L w tm old tz.isSome t).2 ((ptyFromTm L w tm old tz.isSome t).1 = none) := by
  unfold ptyFromTm
  dsimp only
  have hm2 := vbiMktime_mid L { tm with mday := tm.mday + (4 * 7 + 1), hour := 4, min := 0, sec := 0, isdst := -1 } hm
  split
  · exact (restore_outcome L hc hm2).mono (fun _ => rfl)
  · rcases restoreTz_mid L hc hm2 with ⟨hr, h⟩ | ⟨hr, h⟩
    · simp only [hr, Bool.not_true, Bool.false_eq_true, ↓reduceIte]; exact Or.inl h
    · simp only [hr, Bool.not_false, ↓reduceIte]; exact Or.inr ⟨h, trivial⟩

theorem vbiPilLtoToTime_tz (cfg : Cfg) (L : Libc) (w0 : World) (pil : Nat) (start east : Int) (hc : w0.Consistent) :
    TzOutcome L w0 (vbiPilLtoToTime cfg L w0 pil start east).2 ((vbiPilLtoToTime cfg L w0 pil start east).1 = -1) := by
  unfold vbiPilLtoToTime
  split
  · exact Or.inl (TzUntouched.refl w0 hc.2)
  · dsimp only
    exact (validPilLtoToTime_tz cfg L w0 pil start east hc).mono (fun h => by rw [h]; rfl)

theorem vbiPilToTime_tz (cfg : Cfg) (L : Libc) (w0 : World) (pil : Nat) (start : Int) (tz : Option String)
    (hc : w0.Consistent) :
    TzOutcome L w0 (vbiPilToTime cfg L w0 pil start tz).2 ((vbiPilToTime cfg L w0 pil start tz).1 = -1) := by
  unfold vbiPilToTime
  split
  · exact Or.inl (TzUntouched.refl w0 hc.2)
  split
  · dsimp only
    exact (validPilLtoToTime_tz cfg L w0 pil start 0 hc).mono (fun h => by rw [h]; rfl)
  · have hl := localtimeTz_spec L w0 start tz hc
    split
    · rename_i heq
      rcases hl.2 (by rw [heq]) with h | h
      · rw [heq] at h; exact Or.inl h
      · rw [heq] at h; exact Or.inr ⟨h, rfl⟩
    · rename_i tm old w heq
      have := (hl.1 tm (by rw [heq])).1
      rw [heq] at this
      exact toTimeFromTm_tz L tm pil hc this

theorem ptyUtcValidityWindow_tz (L : Libc) (w0 : World) (t : Int) (hc : w0.Consistent) :
    TzUntouched w0 (ptyUtcValidityWindow L w0 t).2 := by
  unfold ptyUtcValidityWindow
  dsimp only
  have h := (TzUntouched.refl w0 hc.2).call L .gmtime
  split
  · exact h
  · split <;> exact h

theorem vbiPtyValidityWindow_tz (L : Libc) (w0 : World) (t : Int) (tz : Option String) (hc : w0.Consistent) :
    TzOutcome L w0 (vbiPtyValidityWindow L w0 t tz).2 ((vbiPtyValidityWindow L w0 t tz).1 = none) := by
  unfold vbiPtyValidityWindow
  split
  · exact Or.inl (ptyUtcValidityWindow_tz L w0 t hc)
  · have hl := localtimeTz_spec L w0 t tz hc
    split
    · rename_i heq
      rcases hl.2 (by rw [heq]) with h | h
      · rw [heq] at h; exact Or.inl h
      · rw [heq] at h; exact Or.inr ⟨h, rfl⟩
    · rename_i tm old w heq
      have := (hl.1 tm (by rw [heq])).1
      rw [heq] at this
      exact ptyFromTm_tz L tm t hc this

theorem validPilLtoValidityWindow_tz (cfg : Cfg) (L : Libc) (w0 : World) (pil : Nat) (start east : Int) (hc : w0.Consistent) :
    TzOutcome L w0 (validPilLtoValidityWindow cfg L w0 pil start east).2
      ((validPilLtoValidityWindow cfg L w0 pil start east).1 = none) := by
  unfold validPilLtoValidityWindow
  dsimp only
  have h := validPilLtoToTime_tz cfg L w0 (pil &&& mkPil 15 31 0 0) start east hc
  split
  · rename_i heq; rw [heq] at h
    rcases h with h | ⟨_, h2⟩
    · exact Or.inl h
    · cases h2
  · exact h.mono (fun _ => rfl)
  · rename_i t heq; rw [heq] at h
    have hu : TzUntouched w0 (validPilLtoToTime cfg L w0 (pil &&& mkPil 15 31 0 0) start east).2 := by
      rcases h with h | ⟨_, h2⟩
      · exact h
      · cases h2
    split
    · exact Or.inl hu
    split
    · exact Or.inl hu
    · split
      · split <;> exact Or.inl hu
      · exact Or.inl hu

theorem vbiPilLtoValidityWindow_tz (cfg : Cfg) (L : Libc) (w0 : World) (pil : Nat) (start east : Int) (hc : w0.Consistent) :
    TzOutcome L w0 (vbiPilLtoValidityWindow cfg L w0 pil start east).2
      ((vbiPilLtoValidityWindow cfg L w0 pil start east).1 = none) := by
  unfold vbiPilLtoValidityWindow
  split
  · exact Or.inl (TzUntouched.refl w0 hc.2)
  · exact Or.inl (TzUntouched.refl w0 hc.2)
  · exact validPilLtoValidityWindow_tz cfg L w0 pil start east hc
  · exact Or.inl (ptyUtcValidityWindow_tz L w0 start hc)

theorem validPilValidityWindow_tz (cfg : Cfg) (L : Libc) (w0 : World) (pil : Nat) (start : Int) (tz : Option String)
    (hc : w0.Consistent) :
    TzOutcome L w0 (validPilValidityWindow cfg L w0 pil start tz).2
      ((validPilValidityWindow cfg L w0 pil start tz).1 = none) := by
  unfold validPilValidityWindow
  split
  · exact validPilLtoValidityWindow_tz cfg L w0 pil start 0 hc
  · have hl := localtimeTz_spec L w0 start tz hc
    split
    · rename_i heq
      rcases hl.2 (by rw [heq]) with h | h
      · rw [heq] at h; exact Or.inl h
      · rw [heq] at h; exact Or.inr ⟨h, rfl⟩
    · rename_i tm old w heq
      have := (hl.1 tm (by rw [heq])).1
      rw [heq] at this
      exact winFromTm_tz L tm pil hc this

theorem vbiPilValidityWindow_tz (cfg : Cfg) (L : Libc) (w0 : World) (pil : Nat) (start : Int) (tz : Option String)
    (hc : w0.Consistent) :
    TzOutcome L w0 (vbiPilValidityWindow cfg L w0 pil start tz).2
      ((vbiPilValidityWindow cfg L w0 pil start tz).1 = none) := by
  unfold vbiPilValidityWindow
  split
  · exact Or.inl (TzUntouched.refl w0 hc.2)
  · exact Or.inl (TzUntouched.refl w0 hc.2)
  · exact validPilValidityWindow_tz cfg L w0 pil start tz hc
  · exact vbiPtyValidityWindow_tz L w0 start tz hc

end Zvbi.Pdc
