import ZvbiModel.Pdc.Model
/-!
# Spec vocabulary for C14: what "right year and instant" and "TZ untouched" mean

Short declarative notions the theorems of `Props/C14.lean` are stated with.
`isLeap` and `daysInMonth` (Gregorian calendar) live in `Calendar.lean`.
-/
namespace Zvbi.Pdc

/-- same calendar date and time of day -/
def Tm.sameCivil (a b : Tm) : Prop :=
  a.year = b.year ∧ a.mon = b.mon ∧ a.mday = b.mday ∧ a.hour = b.hour ∧ a.min = b.min ∧ a.sec = b.sec

/-- a broken-down time that names a real Gregorian date and time of day -/
def Tm.validCivil (tm : Tm) : Prop :=
  0 ≤ tm.mon ∧ tm.mon ≤ 11 ∧ 1 ≤ tm.mday ∧ tm.mday ≤ daysInMonth (isLeap (tm.year + 1900)) (tm.mon + 1)
  ∧ 0 ≤ tm.hour ∧ tm.hour ≤ 23 ∧ 0 ≤ tm.min ∧ tm.min ≤ 59 ∧ 0 ≤ tm.sec ∧ tm.sec ≤ 59

/-- the local time `tm` shows the PIL's month, day, hour and minute (and second 0) -/
def Tm.hasPil (tm : Tm) (pil : Nat) : Prop :=
  tm.mon + 1 = pilMonth pil ∧ tm.mday = pilDay pil ∧ tm.hour = pilHour pil ∧ tm.min = pilMinute pil ∧ tm.sec = 0

/-- months since year 1900 -/
def Tm.monthIndex (tm : Tm) : Int := 12 * tm.year + tm.mon

/-- the spec of `vbi_pil_is_valid_date`, written from EN 300 231 (29 February allowed: no year) -/
def PilValid (pil : Nat) : Prop :=
  1 ≤ pilMonth pil ∧ pilMonth pil ≤ 12 ∧ 1 ≤ pilDay pil
  ∧ (pilDay pil : Int) ≤ daysInMonth True (pilMonth pil) ∧ pilHour pil < 24 ∧ pilMinute pil < 60

instance (pil : Nat) : Decidable (PilValid pil) := by unfold PilValid; infer_instance

/-- mktime's contract at one local time: when it succeeds, the instant it returns shows that local
time in the zone.  True in every zone for local times that exist (not inside a DST gap). -/
def Zone.SoundAt (Z : Zone) (tm : Tm) : Prop :=
  ∀ t, Z.fromLocal tm = some t → ∃ tm', Z.toLocal t = some tm' ∧ tm'.sameCivil tm

/-- what every libc zone guarantees about `localtime_r` -/
structure Zone.Lawful (Z : Zone) : Prop where
  mon_range : ∀ t tm, Z.toLocal t = some tm → 0 ≤ tm.mon ∧ tm.mon ≤ 11
  year_int : ∀ t tm, Z.toLocal t = some tm → INT_MIN ≤ tm.year ∧ tm.year ≤ INT_MAX

/-- A zone described by its offset from UTC at every instant (`off t` seconds east at instant `t`),
with glibc's `mktime` behaviour for `tm_isdst = -1` written out:
* `localtime_r` shows the civil time of `t + off t`;
* overlap / ordinary case: if some instant shows the requested local time, `mktime` returns such an
  instant (either one when the local time occurs twice);
* gap case: in any case the result is the requested local time minus an offset the zone uses within
  two days of the result - so inside a DST gap the result shows the local time moved by the jump.
Validated against libc for a list of zoneinfo zones on every run of the check (`mkrule` probes). -/
structure Zone.FollowsOffsets (Z : Zone) (off : Int → Int) : Prop where
  localtime : ∀ t tm, Z.toLocal t = some tm → tm.sameCivil (tmFromSecs (t + off t))
  year_int : ∀ t tm, Z.toLocal t = some tm → INT_MIN ≤ tm.year ∧ tm.year ≤ INT_MAX
  mktime_converts : ∀ tm t, Z.fromLocal tm = some t → ∃ tm', Z.toLocal t = some tm'
  mktime_hit : ∀ tm t, tm.validCivil → Z.fromLocal tm = some t →
    (∃ t0, t0 + off t0 = secsFromTm tm) → t + off t = secsFromTm tm
  mktime_gap : ∀ tm t, tm.validCivil → Z.fromLocal tm = some t →
    ∃ t', t - 172800 ≤ t' ∧ t' ≤ t + 172800 ∧ t + off t' = secsFromTm tm

/-- libc's zone state matches the environment and no restore has failed (state between API calls) -/
def World.Consistent (w : World) : Prop := w.libc = w.env ∧ w.restoreFailed = false

/-- the process's TZ variable, libc zone state and heap are exactly what they were -/
def TzUntouched (w w' : World) : Prop :=
  w'.env = w.env ∧ w'.libc = w.libc ∧ w'.heap = w.heap ∧ w'.restoreFailed = false

/-- the documented exception: `restore_tz`'s setenv failed (ENOMEM) -/
def RestoreFailed (L : Libc) (w w' : World) : Prop :=
  w'.restoreFailed = true ∧ w'.heap = w.heap ∧ ∃ k, L.fails .setenv k = true

/-- the zone libc converts in during a call with argument `tz` -/
def effectiveTz (w : World) (tz : Option String) : Option String :=
  match tz with
  | some z => some z
  | none => w.env

end Zvbi.Pdc
