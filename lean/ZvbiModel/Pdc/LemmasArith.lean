import ZvbiModel.Pdc.Spec
import ZvbiModel.Pdc.LemmasCal
/-!
# Arithmetic of the PIL conversion: validity, nearest-year rule, leap day, calendar round trip on `Tm`
-/
namespace Zvbi.Pdc
set_option linter.unusedSimpArgs false

/-! ## PIL fields -/

theorem pilMonth_lt (pil : Nat) : pilMonth pil < 16 := by
  unfold pilMonth; exact Nat.lt_of_le_of_lt Nat.and_le_right (by decide)
theorem pilDay_lt (pil : Nat) : pilDay pil < 32 := by
  unfold pilDay; exact Nat.lt_of_le_of_lt Nat.and_le_right (by decide)
theorem pilHour_lt (pil : Nat) : pilHour pil < 32 := by
  unfold pilHour; exact Nat.lt_of_le_of_lt Nat.and_le_right (by decide)
theorem pilMinute_lt (pil : Nat) : pilMinute pil < 64 := by
  unfold pilMinute; exact Nat.lt_of_le_of_lt Nat.and_le_right (by decide)

/-- `month_days[m-1]` (from the C source) is the length of month m in a leap year -/
theorem monthDaysOf_eq (m : Nat) (h1 : 1 ≤ m) (h12 : m ≤ 12) : monthDaysOf m = some (daysInMonth True (m : Int)).toNat := by
  have : m = 1 ∨ m = 2 ∨ m = 3 ∨ m = 4 ∨ m = 5 ∨ m = 6 ∨ m = 7 ∨ m = 8 ∨ m = 9 ∨ m = 10 ∨ m = 11 ∨ m = 12 := by omega
  rcases this with rfl | rfl | rfl | rfl | rfl | rfl | rfl | rfl | rfl | rfl | rfl | rfl <;> decide

theorem monthDaysOf_none (m : Nat) (h : ¬ (1 ≤ m ∧ m ≤ 12)) : monthDaysOf m = none := by
  unfold monthDaysOf; rw [if_neg h]

theorem daysInMonth_range (leap : Prop) [Decidable leap] (m : Int) : 28 ≤ daysInMonth leap m ∧ daysInMonth leap m ≤ 31 := by
  unfold daysInMonth; split <;> (try split) <;> omega

/-- `vbi_pil_is_valid_date` decides the EN 300 231 notion of a real date and time -/
theorem pilIsValidDate_iff (pil : Nat) : pilIsValidDate pil = true ↔ PilValid pil := by
  unfold pilIsValidDate PilValid
  by_cases hm : 1 ≤ pilMonth pil ∧ pilMonth pil ≤ 12
  · rw [monthDaysOf_eq _ hm.1 hm.2]
    have := daysInMonth_range True (pilMonth pil : Int)
    simp only [Bool.and_eq_true, decide_eq_true_eq]
    constructor
    · rintro ⟨⟨⟨h1, h2⟩, h3⟩, h4⟩; exact ⟨hm.1, hm.2, h1, by omega, h3, h4⟩
    · rintro ⟨_, _, h1, h2, h3, h4⟩; exact ⟨⟨⟨h1, by omega⟩, h3⟩, h4⟩
  · rw [monthDaysOf_none _ hm]
    constructor
    · intro h; cases h
    · rintro ⟨h1, h2, _⟩; exact absurd ⟨h1, h2⟩ hm

/-! ## nearest-year rule -/

theorem tmMonMday_spec (tm tm' : Tm) (pil : Nat) (hm0 : 0 ≤ tm.mon) (hm1 : tm.mon ≤ 11)
    (hp0 : 1 ≤ pilMonth pil) (hp1 : pilMonth pil ≤ 12) (h : tmMonMdayFromPil tm pil = some tm') :
    tm'.mon + 1 = pilMonth pil ∧ tm'.mday = pilDay pil ∧ tm'.hour = tm.hour ∧ tm'.min = tm.min ∧ tm'.sec = tm.sec
    ∧ tm'.isdst = tm.isdst
    ∧ -6 ≤ tm'.monthIndex - tm.monthIndex ∧ tm'.monthIndex - tm.monthIndex ≤ 5
    ∧ (INT_MIN ≤ tm.year ∧ tm.year ≤ INT_MAX → INT_MIN ≤ tm'.year ∧ tm'.year ≤ INT_MAX)
    ∧ tm.year - 1 ≤ tm'.year ∧ tm'.year ≤ tm.year + 1 := by
  unfold tmMonMdayFromPil at h
  dsimp only at h
  have hmu : toU32 tm.mon = tm.mon.toNat := by unfold toU32; omega
  have h0 : (pilMonth pil + 4294967295) % 4294967296 = pilMonth pil - 1 := by omega
  rw [hmu, h0] at h
  unfold INT_MIN INT_MAX at h
  unfold Tm.monthIndex INT_MIN INT_MAX
  split at h
  · split at h
    · cases h
    · cases h; dsimp only; omega
  · split at h
    · split at h
      · cases h
      · cases h; dsimp only; omega
    · cases h; dsimp only; omega

/-- no other year puts the PIL's month within [-6, +5] months of the reference month -/
theorem nearest_year_unique (a b y : Int) (mon : Int) (h : -6 ≤ 12 * a + mon - b ∧ 12 * a + mon - b ≤ 5) (hy : y ≠ a) :
    ¬ (-6 ≤ 12 * y + mon - b ∧ 12 * y + mon - b ≤ 5) := by omega

/-! ## leap day -/

theorem isLeapYearU_iff (y : Int) (h0 : 0 ≤ y) (h1 : y < 4294967296) : isLeapYearU (toU32 y) = true ↔ isLeap y := by
  unfold isLeapYearU isLeap toU32
  have e : ((y % 4294967296).toNat : Int) = y := by omega
  generalize (y % 4294967296).toNat = n at e
  subst e
  split
  · simp; omega
  · split
    · simp; omega
    · simp; omega

/-- after the leap-day check the date is a real Gregorian date -/
theorem leapCheck_valid (tm : Tm) (hm0 : 0 ≤ tm.mon) (hm1 : tm.mon ≤ 11) (hd0 : 1 ≤ tm.mday)
    (hd1 : tm.mday ≤ daysInMonth True (tm.mon + 1)) (hy0 : 0 ≤ tm.year + 1900) (hy1 : tm.year + 1900 < 4294967296)
    (h : tmLeapDayCheck tm = true) : tm.mday ≤ daysInMonth (isLeap (tm.year + 1900)) (tm.mon + 1) := by
  unfold tmLeapDayCheck at h
  simp only [Bool.or_eq_true, decide_eq_true_eq, bne_iff_ne, ne_eq] at h
  unfold daysInMonth at hd1 ⊢
  by_cases hf : tm.mon + 1 = 2
  · rw [if_pos hf] at hd1 ⊢
    simp only [if_true] at hd1
    by_cases hl : isLeap (tm.year + 1900)
    · rw [if_pos hl]; exact hd1
    · rw [if_neg hl]
      rcases h with (h | h) | h
      · omega
      · exact h
      · exact absurd ((isLeapYearU_iff _ hy0 hy1).1 h) hl
  · rw [if_neg hf] at hd1 ⊢; exact hd1

theorem leapCheck_feb29 (tm : Tm) (hm : tm.mon = 1) (hd : tm.mday = 29) (hy0 : 0 ≤ tm.year + 1900)
    (hy1 : tm.year + 1900 < 4294967296) (h : tmLeapDayCheck tm = true) : isLeap (tm.year + 1900) := by
  unfold tmLeapDayCheck at h
  simp only [Bool.or_eq_true, decide_eq_true_eq, bne_iff_ne, ne_eq] at h
  rcases h with (h | h) | h
  · exact absurd hm h
  · omega
  · exact (isLeapYearU_iff _ hy0 hy1).1 h

/-! ## the concrete calendar on `Tm` -/

theorem daysFromCivil_add_day (y m d : Int) : daysFromCivil y m 1 + (d - 1) = daysFromCivil y m d := by
  unfold daysFromCivil doeOf doyOf; dsimp only; omega

/-- a valid civil time survives timegm followed by gmtime -/
theorem tmFromSecs_secsFromTm (tm : Tm) (hv : tm.validCivil) : (tmFromSecs (secsFromTm tm)).sameCivil tm := by
  obtain ⟨hm0, hm1, hd0, hd1, hh0, hh1, hmi0, hmi1, hs0, hs1⟩ := hv
  have e12 : tm.mon / 12 = 0 := by omega
  have em : tm.mon % 12 + 1 = tm.mon + 1 := by omega
  have hrt := civilFromDays_daysFromCivil (tm.year + 1900) (tm.mon + 1) tm.mday (by omega) (by omega) hd0 hd1
  unfold secsFromTm
  dsimp only
  rw [e12, em, Int.add_zero, daysFromCivil_add_day]
  generalize hD : daysFromCivil (tm.year + 1900) (tm.mon + 1) tm.mday = D at *
  unfold tmFromSecs Tm.sameCivil
  dsimp only
  have eD : (D * 86400 + tm.hour * 3600 + tm.min * 60 + tm.sec) / 86400 = D := by omega
  have eR : (D * 86400 + tm.hour * 3600 + tm.min * 60 + tm.sec) % 86400 = tm.hour * 3600 + tm.min * 60 + tm.sec := by omega
  rw [eD, eR, hrt]
  dsimp only
  refine ⟨by omega, by omega, rfl, by omega, by omega, by omega⟩

/-- gmtime followed by timegm is the identity, and gmtime produces valid civil times -/
theorem secsFromTm_tmFromSecs (t : Int) : secsFromTm (tmFromSecs t) = t ∧ (tmFromSecs t).validCivil := by
  obtain ⟨h1, hm0, hm1, hd0, hd1⟩ := daysFromCivil_civilFromDays (t / 86400)
  unfold tmFromSecs secsFromTm Tm.validCivil
  dsimp only
  obtain ⟨y, m, d, hc⟩ : ∃ y m d, civilFromDays (t / 86400) = (y, m, d) := ⟨_, _, _, rfl⟩
  simp only [hc] at h1 hm0 hm1 hd0 hd1 ⊢
  have e12 : (m - 1) / 12 = 0 := by omega
  have em : (m - 1) % 12 + 1 = m := by omega
  have ey : y - 1900 + 1900 + (m - 1) / 12 = y := by omega
  have em' : m - 1 + 1 = m := by omega
  have ey' : y - 1900 + 1900 = y := by omega
  rw [ey, em, daysFromCivil_add_day, h1, em', ey']
  refine ⟨by omega, by omega, by omega, hd0, hd1, by omega, by omega, by omega, by omega, by omega, by omega⟩

end Zvbi.Pdc
