import ZvbiModel.Pdc.LemmasTz
import ZvbiModel.Pdc.LemmasArith
/-!
# What a successful conversion computed (value characterisations, independent of the failure paths)
-/
namespace Zvbi.Pdc
set_option linter.unusedSimpArgs false

/-- libc's UTC is the concrete calendar (or libc's timegm is used and modelled by it) -/
def UtcIsCalendar (cfg : Cfg) (L : Libc) : Prop := cfg.haveTimegm = true ∨ L.zoneOf (some "UTC") = utcZone

theorem Mid.env_eq {w0 w : World} {old tz : Option String} (h : Mid w0 w old tz) : w.env = effectiveTz w0 tz := by
  cases tz with
  | none => exact h.2.1
  | some z => exact h.2.1

theorem changeTz_env (L : Libc) (w : World) (z : String) (h : (changeTz L w z).1 = true) :
    (changeTz L w z).2.2.env = some z := by
  unfold changeTz at h ⊢
  cases he : w.env with
  | none =>
    rw [he] at h
    dsimp only at h ⊢
    by_cases hf : (w.call L .setenv).1 = true
    · simp [hf] at h
    · simp [hf]
  | some s =>
    rw [he] at h
    dsimp only at h ⊢
    by_cases hf : (w.call L .strdup).1 = true
    · simp [hf] at h
    · simp only [hf, Bool.false_eq_true, ↓reduceIte] at h ⊢
      split
      · rename_i hf2; rw [if_pos hf2] at h; cases h
      · rfl

theorem vbiTimegm_val (cfg : Cfg) (L : Libc) (w : World) (tm : Tm) (hutc : UtcIsCalendar cfg L)
    (h : (vbiTimegm cfg L w tm).1 ≠ -1) :
    utcZone.fromLocal tm = some (vbiTimegm cfg L w tm).1
    ∧ TIME_MIN < (vbiTimegm cfg L w tm).1 ∧ (vbiTimegm cfg L w tm).1 < TIME_MAX := by
  unfold vbiTimegm at h ⊢
  split
  · rename_i hc; rw [if_pos hc] at h
    exact clampResult_ne _ h
  · rename_i hc; rw [if_neg hc] at h
    have hz : L.zoneOf (some "UTC") = utcZone := by
      rcases hutc with h1 | h1
      · exact absurd h1 hc
      · exact h1
    dsimp only at h ⊢
    by_cases hok : (changeTz L w "UTC").1 = true
    · simp only [hok, Bool.not_true, Bool.false_eq_true, ↓reduceIte] at h ⊢
      by_cases hr : (restoreTz L (libcMktime L (changeTz L w "UTC").2.2 tm).2 (changeTz L w "UTC").2.1 true).1 = true
      · simp only [hr, Bool.not_true, Bool.false_eq_true, ↓reduceIte] at h ⊢
        have := clampResult_ne _ h
        refine ⟨?_, this.2⟩
        have hv := libcMktime_val L _ tm _ this.1
        rw [changeTz_env L w "UTC" hok, hz] at hv
        exact hv
      · simp only [hr, Bool.not_false, ↓reduceIte] at h
        exact absurd rfl h
    · simp only [hok, Bool.not_false, ↓reduceIte] at h
      exact absurd rfl h

theorem ltoFromTm_val (cfg : Cfg) (L : Libc) (w : World) (tm : Tm) (pil : Nat) (east t : Int) (hutc : UtcIsCalendar cfg L)
    (h : (ltoFromTm cfg L w tm pil east).1 = .ok t) :
    ∃ tm1 r, tmMonMdayFromPil tm pil = some tm1 ∧ tmLeapDayCheck tm1 = true
      ∧ utcZone.fromLocal { tm1 with hour := (pilHour pil : Int), min := (pilMinute pil : Int), sec := 0 } = some r
      ∧ guardOut cfg r east = false ∧ t = r - east ∧ TIME_MIN < r ∧ r < TIME_MAX := by
  unfold ltoFromTm at h
  split at h
  · cases h
  · rename_i tm1 heq
    split at h
    · cases h
    · rename_i hl
      dsimp only at h
      split at h
      · cases h
      · rename_i hne
        split at h
        · cases h
        · rename_i hg
          cases h
          have hv := vbiTimegm_val cfg L w _ hutc hne
          exact ⟨tm1, _, heq, by simpa using hl, hv.1, by simpa using hg, rfl, hv.2⟩

theorem validPilLtoToTime_val (cfg : Cfg) (L : Libc) (w : World) (pil : Nat) (start east t : Int)
    (h : (validPilLtoToTime cfg L w pil start east).1 = .ok t) :
    ∃ tm0 w1, utcZone.toLocal (refTime L start + east) = some tm0 ∧ guardIn cfg (refTime L start) east = false
      ∧ (ltoFromTm cfg L w1 tm0 pil east).1 = .ok t := by
  unfold validPilLtoToTime at h
  dsimp only at h
  have hs := startOrNow_val L w start
  generalize (startOrNow L w start).1 = s' at *
  generalize (startOrNow L w start).2 = w1 at *
  split at h
  · cases h
  · rename_i hne
    split at h
    · cases h
    · rename_i hg
      split at h
      · cases h
      · rename_i tm0 heq
        refine ⟨tm0, _, ?_, ?_, h⟩
        · split at heq
          · cases heq
          · rw [← hs hne]; exact heq
        · rw [← hs hne]; simpa using hg

theorem toTimeFromTm_val (L : Libc) (w : World) (tm : Tm) (old : Option String) (tzGiven : Bool) (pil : Nat)
    (h : (toTimeFromTm L w tm old tzGiven pil).1 ≠ -1) :
    ∃ tm1, tmMonMdayFromPil tm pil = some tm1 ∧ tmLeapDayCheck tm1 = true
      ∧ (L.zoneOf w.env).fromLocal { tm1 with hour := (pilHour pil : Int), min := (pilMinute pil : Int), sec := 0, isdst := -1 }
          = some (toTimeFromTm L w tm old tzGiven pil).1 := by
  unfold toTimeFromTm at h ⊢
  split
  · rename_i heq; rw [heq] at h; exact absurd rfl h
  · rename_i tm1 heq
    rw [heq] at h
    dsimp only at h ⊢
    split
    · rename_i hl; rw [if_pos hl] at h; exact absurd rfl h
    · rename_i hl; rw [if_neg hl] at h
      split
      · rename_i hr; rw [if_pos hr] at h; exact absurd rfl h
      · rename_i hr; rw [if_neg hr] at h
        split
        · rename_i hk; rw [if_pos hk] at h; exact absurd rfl h
        · exact ⟨tm1, heq, by simpa using hl, vbiMktime_val L w _ hr⟩

theorem vbiPilToTime_val (cfg : Cfg) (L : Libc) (w0 : World) (pil : Nat) (start : Int) (tz : Option String)
    (hc : w0.Consistent) (htz : tz ≠ some "UTC") (h : (vbiPilToTime cfg L w0 pil start tz).1 ≠ -1) :
    pilIsValidDate pil = true ∧ ∃ tm0 tm1,
      (L.zoneOf (effectiveTz w0 tz)).toLocal (refTime L start) = some tm0
      ∧ tmMonMdayFromPil tm0 pil = some tm1 ∧ tmLeapDayCheck tm1 = true
      ∧ (L.zoneOf (effectiveTz w0 tz)).fromLocal
          { tm1 with hour := (pilHour pil : Int), min := (pilMinute pil : Int), sec := 0, isdst := -1 }
          = some (vbiPilToTime cfg L w0 pil start tz).1 := by
  unfold vbiPilToTime at h ⊢
  split
  · rename_i hv; rw [if_pos hv] at h; exact absurd rfl h
  · rename_i hv; rw [if_neg hv] at h
    try rw [if_neg htz] at h
    try rw [if_neg htz]
    refine ⟨by simpa using hv, ?_⟩
    have hl := localtimeTz_spec L w0 start tz hc
    split
    · rename_i heq; rw [heq] at h; exact absurd rfl h
    · rename_i tm old w heq
      rw [heq] at h
      have hm := hl.1 tm (by rw [heq])
      rw [heq] at hm
      obtain ⟨tm1, h1, h2, h3⟩ := toTimeFromTm_val L w tm old tz.isSome pil h
      rw [hm.1.env_eq] at h3
      exact ⟨tm, tm1, hm.2, h1, h2, h3⟩

end Zvbi.Pdc
