/-!
# A concrete calendar: proleptic Gregorian days-from-civil / civil-from-days

This is the model of *libc* (`gmtime_r`, `timegm`, and `localtime_r`/`mktime` in a zone with a
fixed UTC offset), not of zvbi code.  `ZvbiModel/Pdc/Model.lean` is written against the abstract
`Zone` interface; this file supplies the instance used by the driver for UTC and fixed-offset
zones, and `LemmasCal.lean` proves its laws (round trips, month lengths).

`/` and `%` on `Int` are floor division / non-negative remainder for positive divisors.
-/
namespace Zvbi.Pdc

/-- broken-down time, the fields of `struct tm` that pdc.c reads or writes -/
structure Tm where
  year : Int   -- tm_year: years since 1900
  mon : Int    -- tm_mon: 0..11
  mday : Int
  hour : Int
  min : Int
  sec : Int
  isdst : Int
deriving DecidableEq, Repr, Inhabited

/-- Gregorian leap year -/
def isLeap (y : Int) : Prop := y % 4 = 0 ∧ (y % 100 ≠ 0 ∨ y % 400 = 0)
instance (y : Int) : Decidable (isLeap y) := by unfold isLeap; infer_instance

/-- days in civil month `m` (1..12) -/
def daysInMonth (leap : Prop) [Decidable leap] (m : Int) : Int :=
  if m = 2 then (if leap then 29 else 28)
  else if m = 4 ∨ m = 6 ∨ m = 9 ∨ m = 11 then 30 else 31

/-! The year is cut at 1 March (so the leap day is the last day), 400-year eras of 146097 days,
centuries of 36524 days (the fourth has one more), 4-year cycles of 1461 days (the last of a short
century has one less), years of 365 days (the fourth has one more).  Same scheme as the well known
days-from-civil algorithm, written with explicit steps so that each step can be proved. -/

/-- day of the March-based year (0 = 1 March) of month `m` (1..12), day `d` -/
def doyOf (m d : Int) : Int := (153 * ((m + 9) % 12) + 2) / 5 + d - 1

/-- day of the era (0..146096) of year-of-era `yoe` (0..399) and day of year `doy` -/
def doeOf (yoe doy : Int) : Int := yoe * 365 + yoe / 4 - yoe / 100 + doy

/-- days since 1970-01-01 of year `y`, month `m` (1..12), day `d` (any integer: days simply add) -/
def daysFromCivil (y m d : Int) : Int :=
  let y' := if m ≤ 2 then y - 1 else y
  let era := y' / 400
  let yoe := y' % 400
  era * 146097 + doeOf yoe (doyOf m d) - 719468

/-- (year of era, day of year) of a day of the era -/
def splitDoe (doe : Int) : Int × Int :=
  let c := if doe / 36524 ≥ 4 then 3 else doe / 36524
  let doc := doe - c * 36524
  let q := doc / 1461
  let doq := doc % 1461
  let yq := if doq / 365 ≥ 4 then 3 else doq / 365
  (c * 100 + q * 4 + yq, doq - yq * 365)

/-- (month 1..12, day 1..31) of a day of the March-based year -/
def monthDay (doy : Int) : Int × Int :=
  let mp := (5 * doy + 2) / 153
  (if mp < 10 then mp + 3 else mp - 9, doy - (153 * mp + 2) / 5 + 1)

/-- inverse of `daysFromCivil`: (year, month 1..12, day 1..31) -/
def civilFromDays (z : Int) : Int × Int × Int :=
  let z := z + 719468
  let era := z / 146097
  let yd := splitDoe (z % 146097)
  let md := monthDay yd.2
  (yd.1 + era * 400 + (if md.1 ≤ 2 then 1 else 0), md.1, md.2)

/-- what glibc's `timegm` computes: fields are normalised arithmetically (month carries into the
year, days/hours/minutes/seconds simply add) -/
def secsFromTm (tm : Tm) : Int :=
  let y := tm.year + 1900 + tm.mon / 12
  let m := tm.mon % 12 + 1
  (daysFromCivil y m 1 + (tm.mday - 1)) * 86400 + tm.hour * 3600 + tm.min * 60 + tm.sec

/-- what `gmtime_r` computes (without the `int` range check on `tm_year`) -/
def tmFromSecs (t : Int) : Tm :=
  let days := t / 86400
  let rem := t % 86400
  let c := civilFromDays days
  { year := c.1 - 1900, mon := c.2.1 - 1, mday := c.2.2,
    hour := rem / 3600, min := rem % 3600 / 60, sec := rem % 60, isdst := 0 }

end Zvbi.Pdc
