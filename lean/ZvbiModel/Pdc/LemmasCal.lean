import ZvbiModel.Pdc.Calendar
/-!
# Laws of the concrete calendar (`Calendar.lean`): both round trips and month lengths
-/
namespace Zvbi.Pdc

/-- the March-based year `yoe` of an era ends with a leap day iff civil year yoe+1 is leap -/
def leapM (yoe : Int) : Prop := (yoe + 1) % 4 = 0 ∧ ((yoe + 1) % 100 ≠ 0 ∨ (yoe + 1) % 400 = 0)
instance (y : Int) : Decidable (leapM y) := by unfold leapM; infer_instance

theorem daysInMonth_mono (p q : Prop) [Decidable p] [Decidable q] (h : p → q) (m : Int) :
    daysInMonth p m ≤ daysInMonth q m := by
  unfold daysInMonth
  split
  · by_cases hp : p <;> by_cases hq : q <;> simp [hp, hq]
    exact absurd (h hp) hq
  · exact Int.le_refl _

/-! ## year of era -/

theorem splitDoe_doeOf (yoe doy : Int) (h0 : 0 ≤ yoe) (h1 : yoe ≤ 399) (d0 : 0 ≤ doy)
    (d1 : doy ≤ 365) (dl : doy = 365 → leapM yoe) :
    splitDoe (doeOf yoe doy) = (yoe, doy) ∧ 0 ≤ doeOf yoe doy ∧ doeOf yoe doy ≤ 146096 := by
  -- digits of yoe
  obtain ⟨c, q, yq, hc0, hc3, hq0, hq24, hy0, hy3, rfl⟩ :
      ∃ c q yq : Int, 0 ≤ c ∧ c ≤ 3 ∧ 0 ≤ q ∧ q ≤ 24 ∧ 0 ≤ yq ∧ yq ≤ 3 ∧ yoe = c * 100 + q * 4 + yq :=
    ⟨yoe / 100, yoe % 100 / 4, yoe % 4, by omega, by omega, by omega, by omega, by omega, by omega, by omega⟩
  have e4 : (c * 100 + q * 4 + yq) / 4 = 25 * c + q := by omega
  have e100 : (c * 100 + q * 4 + yq) / 100 = c := by omega
  have hleap : doy = 365 → yq = 3 ∧ (q = 24 → c = 3) := by
    intro h; have := dl h; unfold leapM at this; omega
  have hdoe : doeOf (c * 100 + q * 4 + yq) doy = 36524 * c + 1461 * q + 365 * yq + doy := by
    unfold doeOf; rw [e4, e100]; omega
  rw [hdoe]
  refine ⟨?_, by omega, by omega⟩
  unfold splitDoe
  have hc : (if (36524 * c + 1461 * q + 365 * yq + doy) / 36524 ≥ 4 then 3
      else (36524 * c + 1461 * q + 365 * yq + doy) / 36524) = c := by
    split <;> omega
  simp only [hc]
  have hdoc : 36524 * c + 1461 * q + 365 * yq + doy - c * 36524 = 1461 * q + 365 * yq + doy := by omega
  rw [hdoc]
  have hq : (1461 * q + 365 * yq + doy) / 1461 = q := by omega
  have hdoq : (1461 * q + 365 * yq + doy) % 1461 = 365 * yq + doy := by omega
  rw [hq, hdoq]
  have hyq : (if (365 * yq + doy) / 365 ≥ 4 then 3 else (365 * yq + doy) / 365) = yq := by
    split <;> omega
  simp only [hyq]
  congr 1 <;> omega

theorem doeOf_splitDoe (doe : Int) (h0 : 0 ≤ doe) (h1 : doe ≤ 146096) :
    doeOf (splitDoe doe).1 (splitDoe doe).2 = doe ∧ 0 ≤ (splitDoe doe).1 ∧ (splitDoe doe).1 ≤ 399
    ∧ 0 ≤ (splitDoe doe).2 ∧ (splitDoe doe).2 ≤ 365 ∧ ((splitDoe doe).2 = 365 → leapM (splitDoe doe).1) := by
  unfold splitDoe
  dsimp only
  generalize hc : (if doe / 36524 ≥ 4 then 3 else doe / 36524) = c
  have hc0 : 0 ≤ c ∧ c ≤ 3 := by split at hc <;> omega
  have hdoc : 0 ≤ doe - c * 36524 ∧ doe - c * 36524 ≤ 36524 ∧ (doe - c * 36524 = 36524 → c = 3) := by
    split at hc <;> omega
  generalize hdd : doe - c * 36524 = doc at hdoc ⊢
  have hq : 0 ≤ doc / 1461 ∧ doc / 1461 ≤ 24 := by omega
  have hdoq : 0 ≤ doc % 1461 ∧ doc % 1461 ≤ 1460 ∧ doc = 1461 * (doc / 1461) + doc % 1461 := by omega
  have hq24 : doc / 1461 = 24 → doc % 1461 = 1460 → c = 3 := by omega
  generalize doc / 1461 = q at *
  generalize doc % 1461 = doq at *
  generalize hyq : (if doq / 365 ≥ 4 then 3 else doq / 365) = yq
  have hy : 0 ≤ yq ∧ yq ≤ 3 ∧ 0 ≤ doq - yq * 365 ∧ doq - yq * 365 ≤ 365 ∧ (doq - yq * 365 = 365 → yq = 3 ∧ doq = 1460) := by
    split at hyq <;> omega
  have e4 : (c * 100 + q * 4 + yq) / 4 = 25 * c + q := by omega
  have e100 : (c * 100 + q * 4 + yq) / 100 = c := by omega
  refine ⟨?_, by omega, by omega, by omega, by omega, ?_⟩
  · unfold doeOf; rw [e4, e100]; omega
  · intro h; unfold leapM; omega

/-! ## month and day -/

theorem monthDay_doyOf (leap : Prop) [Decidable leap] (m d : Int) (hm0 : 1 ≤ m) (hm1 : m ≤ 12)
    (hd0 : 1 ≤ d) (hd1 : d ≤ daysInMonth leap m) :
    monthDay (doyOf m d) = (m, d) ∧ 0 ≤ doyOf m d ∧ doyOf m d ≤ 365 ∧ (doyOf m d = 365 → m = 2 ∧ d = 29) := by
  have hm : m = 1 ∨ m = 2 ∨ m = 3 ∨ m = 4 ∨ m = 5 ∨ m = 6 ∨ m = 7 ∨ m = 8 ∨ m = 9 ∨ m = 10 ∨ m = 11 ∨ m = 12 := by omega
  have hd31 : d ≤ 31 := by
    unfold daysInMonth at hd1; split at hd1 <;> (try split at hd1) <;> omega
  rcases hm with rfl | rfl | rfl | rfl | rfl | rfl | rfl | rfl | rfl | rfl | rfl | rfl <;>
  · simp [daysInMonth] at hd1
    unfold doyOf monthDay
    simp only [Int.reduceAdd, Int.reduceMod, Int.reduceMul, Int.reduceDiv]
    (try split at hd1) <;>
    (refine ⟨?_, by omega, by omega, ?_⟩
     · apply Prod.ext
       · dsimp only; split <;> omega
       · dsimp only; omega
     · intro h; first | (exfalso; omega) | exact ⟨by first | rfl | trivial, by omega⟩)

theorem doyOf_monthDay (doy : Int) (h0 : 0 ≤ doy) (h1 : doy ≤ 365) :
    doyOf (monthDay doy).1 (monthDay doy).2 = doy ∧ 1 ≤ (monthDay doy).1 ∧ (monthDay doy).1 ≤ 12
    ∧ 1 ≤ (monthDay doy).2 ∧ (monthDay doy).2 ≤ daysInMonth (doy = 365) (monthDay doy).1
    ∧ (doy = 365 → (monthDay doy).1 = 2) := by
  unfold monthDay
  dsimp only
  have hmp : 0 ≤ (5 * doy + 2) / 153 ∧ (5 * doy + 2) / 153 ≤ 11 := by omega
  generalize hq : (5 * doy + 2) / 153 = mp at *
  have hmp' : mp = 0 ∨ mp = 1 ∨ mp = 2 ∨ mp = 3 ∨ mp = 4 ∨ mp = 5 ∨ mp = 6 ∨ mp = 7 ∨ mp = 8 ∨ mp = 9 ∨ mp = 10 ∨ mp = 11 := by omega
  rcases hmp' with rfl | rfl | rfl | rfl | rfl | rfl | rfl | rfl | rfl | rfl | rfl | rfl <;>
  · unfold doyOf daysInMonth
    simp only [Int.reduceAdd, Int.reduceSub, Int.reduceMod, Int.reduceMul, Int.reduceDiv, Int.reduceLT, if_true, if_false,
      Int.reduceEq, or_self, or_false, false_or, Int.reduceLE]
    (repeat' apply And.intro) <;> first | trivial | omega | (intro _; trivial) | (intro _; omega) | (split <;> omega)

/-! ## the two round trips -/

/-- civil -> days -> civil: every valid Gregorian date is recovered -/
theorem civilFromDays_daysFromCivil (y m d : Int) (hm0 : 1 ≤ m) (hm1 : m ≤ 12) (hd0 : 1 ≤ d)
    (hd1 : d ≤ daysInMonth (isLeap y) m) : civilFromDays (daysFromCivil y m d) = (y, m, d) := by
  obtain ⟨hmd, hdoy0, hdoy1, hdoy365⟩ := monthDay_doyOf (isLeap y) m d hm0 hm1 hd0 hd1
  unfold daysFromCivil
  dsimp only
  generalize hy' : (if m ≤ 2 then y - 1 else y) = y'
  have hyoe : 0 ≤ y' % 400 ∧ y' % 400 ≤ 399 := by omega
  have hleap : doyOf m d = 365 → leapM (y' % 400) := by
    intro h
    obtain ⟨rfl, rfl⟩ := hdoy365 h
    have hl : isLeap y := by
      simp [daysInMonth] at hd1
      split at hd1
      · assumption
      · omega
    simp at hy'
    unfold isLeap at hl; unfold leapM; omega
  obtain ⟨hsplit, hdoe0, hdoe1⟩ := splitDoe_doeOf (y' % 400) (doyOf m d) hyoe.1 hyoe.2 hdoy0 hdoy1 hleap
  unfold civilFromDays
  dsimp only
  have e1 : (y' / 400 * 146097 + doeOf (y' % 400) (doyOf m d) - 719468 + 719468) / 146097 = y' / 400 := by omega
  have e2 : (y' / 400 * 146097 + doeOf (y' % 400) (doyOf m d) - 719468 + 719468) % 146097 = doeOf (y' % 400) (doyOf m d) := by omega
  rw [e1, e2, hsplit]
  dsimp only
  rw [hmd]
  dsimp only
  congr 1
  split at hy' <;> split <;> omega

/-- days -> civil -> days, and the civil date produced is a valid Gregorian date -/
theorem daysFromCivil_civilFromDays (z : Int) :
    daysFromCivil (civilFromDays z).1 (civilFromDays z).2.1 (civilFromDays z).2.2 = z
    ∧ 1 ≤ (civilFromDays z).2.1 ∧ (civilFromDays z).2.1 ≤ 12 ∧ 1 ≤ (civilFromDays z).2.2
    ∧ (civilFromDays z).2.2 ≤ daysInMonth (isLeap (civilFromDays z).1) (civilFromDays z).2.1 := by
  unfold civilFromDays
  dsimp only
  have hdoe : 0 ≤ (z + 719468) % 146097 ∧ (z + 719468) % 146097 ≤ 146096 := by omega
  obtain ⟨h1, hy0, hy1, hd0, hd1, hl⟩ := doeOf_splitDoe ((z + 719468) % 146097) hdoe.1 hdoe.2
  obtain ⟨yoe, doy, hyd⟩ : ∃ yoe doy, splitDoe ((z + 719468) % 146097) = (yoe, doy) := ⟨_, _, rfl⟩
  simp only [hyd] at h1 hy0 hy1 hd0 hd1 hl ⊢
  obtain ⟨g1, gm0, gm1, gd0, gd1, g365⟩ := doyOf_monthDay doy hd0 hd1
  obtain ⟨m, d, hmd⟩ : ∃ m d, monthDay doy = (m, d) := ⟨_, _, rfl⟩
  simp only [hmd] at g1 gm0 gm1 gd0 gd1 g365 ⊢
  refine ⟨?_, gm0, gm1, gd0, ?_⟩
  · unfold daysFromCivil
    dsimp only
    have ey : (if m ≤ 2 then yoe + (z + 719468) / 146097 * 400 + (if m ≤ 2 then 1 else 0) - 1
        else yoe + (z + 719468) / 146097 * 400 + (if m ≤ 2 then 1 else 0)) = yoe + (z + 719468) / 146097 * 400 := by
      split <;> omega
    rw [ey]
    have e1 : (yoe + (z + 719468) / 146097 * 400) / 400 = (z + 719468) / 146097 := by omega
    have e2 : (yoe + (z + 719468) / 146097 * 400) % 400 = yoe := by omega
    rw [e1, e2, g1, h1]; omega
  · -- the leap flag of the civil year agrees with "day of year = 365"
    have hflag : doy = 365 → isLeap (yoe + (z + 719468) / 146097 * 400 + (if m ≤ 2 then 1 else 0)) := by
      intro h
      have hm2 := g365 h
      have := hl h
      unfold leapM at this; unfold isLeap; subst hm2; simp; omega
    exact Int.le_trans gd1 (daysInMonth_mono _ _ hflag m)

end Zvbi.Pdc
