import ZvbiModel.Pdc.LemmasMain
/-!
# Completeness direction: without libc failures every stage of the offset conversion succeeds
-/
namespace Zvbi.Pdc
set_option linter.unusedSimpArgs false

/-- libc never fails (no ENOMEM, the clock works, conversions succeed when representable) -/
def NoFailures (L : Libc) : Prop := ∀ s k, L.fails s k = false

theorem call_nofail {L : Libc} (hnf : NoFailures L) (w : World) (s : Site) : (w.call L s).1 = false := hnf _ _

theorem changeTz_ok {L : Libc} (hnf : NoFailures L) (w : World) (z : String) : (changeTz L w z).1 = true := by
  unfold changeTz
  cases w.env with
  | none => dsimp only; rw [call_nofail hnf]; rfl
  | some s => dsimp only; rw [call_nofail hnf]; simp only [Bool.false_eq_true, ↓reduceIte]; rw [call_nofail hnf]; rfl

theorem restoreTz_ok {L : Libc} (hnf : NoFailures L) (w : World) (old : Option String) (g : Bool) :
    (restoreTz L w old g).1 = true := by
  unfold restoreTz
  split
  · rfl
  · cases old with
    | none => rfl
    | some o => dsimp only; rw [call_nofail hnf]; rfl

theorem libcMktime_ok {L : Libc} (hnf : NoFailures L) (w : World) (tm : Tm) :
    (libcMktime L w tm).1 = (L.zoneOf w.env).fromLocal tm := by
  unfold libcMktime; dsimp only; rw [call_nofail hnf]; rfl

theorem clampResult_some (r : Int) (h0 : TIME_MIN < r) (h1 : r < TIME_MAX) : clampResult (some r) = r := by
  unfold clampResult; dsimp only; rw [if_neg]; omega

theorem vbiTimegm_fwd (cfg : Cfg) {L : Libc} (hnf : NoFailures L) (hutc : UtcIsCalendar cfg L) (w : World) (tm : Tm) (r : Int)
    (h : utcZone.fromLocal tm = some r) (h0 : TIME_MIN < r) (h1 : r < TIME_MAX) : (vbiTimegm cfg L w tm).1 = r := by
  unfold vbiTimegm
  split
  · dsimp only; rw [h]; exact clampResult_some r h0 h1
  · rename_i hc
    have hz : L.zoneOf (some "UTC") = utcZone := by
      rcases hutc with h' | h'
      · exact absurd h' hc
      · exact h'
    dsimp only
    have hok := changeTz_ok hnf w "UTC"
    simp only [hok, Bool.not_true, Bool.false_eq_true, ↓reduceIte]
    rw [restoreTz_ok hnf]
    simp only [Bool.not_true, Bool.false_eq_true, ↓reduceIte]
    rw [libcMktime_ok hnf, changeTz_env L w "UTC" hok, hz, h]
    exact clampResult_some r h0 h1

/-! ## ranges -/

theorem doeOf_range (yoe doy : Int) (h0 : 0 ≤ yoe) (h1 : yoe ≤ 399) (d0 : 0 ≤ doy) (d1 : doy ≤ 400) :
    0 ≤ doeOf yoe doy ∧ doeOf yoe doy ≤ 146200 := by
  unfold doeOf; omega

/-- a civil time whose year fits `int` is far inside the 64-bit time_t range -/
theorem secsFromTm_bound (tm : Tm) (hv : tm.validCivil) (hy0 : INT_MIN ≤ tm.year) (hy1 : tm.year ≤ INT_MAX) :
    -(7 * 10 ^ 16) ≤ secsFromTm tm ∧ secsFromTm tm ≤ 7 * 10 ^ 16 := by
  obtain ⟨hm0, hm1, hd0, hd1, hh0, hh1, hmi0, hmi1, hs0, hs1⟩ := hv
  have hd31 := (daysInMonth_range (isLeap (tm.year + 1900)) (tm.mon + 1)).2
  unfold INT_MIN at hy0; unfold INT_MAX at hy1
  have e12 : tm.mon / 12 = 0 := by omega
  have em : tm.mon % 12 + 1 = tm.mon + 1 := by omega
  unfold secsFromTm daysFromCivil
  dsimp only
  rw [e12, em, Int.add_zero]
  generalize hy' : (if tm.mon + 1 ≤ 2 then tm.year + 1900 - 1 else tm.year + 1900) = y'
  have hyr : tm.year + 1899 ≤ y' ∧ y' ≤ tm.year + 1900 := by split at hy' <;> omega
  have hdoy : 0 ≤ doyOf (tm.mon + 1) 1 ∧ doyOf (tm.mon + 1) 1 ≤ 400 := by unfold doyOf; omega
  have hdoe := doeOf_range (y' % 400) (doyOf (tm.mon + 1) 1) (by omega) (by omega) hdoy.1 hdoy.2
  generalize doeOf (y' % 400) (doyOf (tm.mon + 1) 1) = doe at hdoe
  have hera : -5368710 ≤ y' / 400 ∧ y' / 400 ≤ 5368714 := by omega
  generalize y' / 400 = era at hera
  omega

theorem tmMonMday_some (tm : Tm) (pil : Nat) (hm0 : 0 ≤ tm.mon) (hm1 : tm.mon ≤ 11) (hy0 : INT_MIN < tm.year)
    (hy1 : tm.year < INT_MAX) : ∃ tm1, tmMonMdayFromPil tm pil = some tm1 := by
  unfold tmMonMdayFromPil
  dsimp only
  split
  · rw [if_neg (by omega)]; exact ⟨_, rfl⟩
  · split
    · rw [if_neg (by omega)]; exact ⟨_, rfl⟩
    · exact ⟨_, rfl⟩

theorem leapCheck_true (tm : Tm) (hy0 : 0 ≤ tm.year + 1900) (hy1 : tm.year + 1900 < 4294967296)
    (hd : tm.mon = 1 → tm.mday ≤ 29) (hl : tm.mon = 1 → tm.mday = 29 → isLeap (tm.year + 1900)) :
    tmLeapDayCheck tm = true := by
  unfold tmLeapDayCheck
  simp only [Bool.or_eq_true, decide_eq_true_eq, bne_iff_ne, ne_eq]
  by_cases hm : tm.mon = 1
  · by_cases h28 : tm.mday ≤ 28
    · exact Or.inl (Or.inr h28)
    · exact Or.inr ((isLeapYearU_iff _ hy0 hy1).2 (hl hm (by have := hd hm; omega)))
  · exact Or.inl (Or.inl hm)

theorem leapCheck_false (tm : Tm) (hy0 : 0 ≤ tm.year + 1900) (hy1 : tm.year + 1900 < 4294967296)
    (hm : tm.mon = 1) (hd : tm.mday = 29) (hl : ¬ isLeap (tm.year + 1900)) : tmLeapDayCheck tm = false := by
  cases h : tmLeapDayCheck tm with
  | false => rfl
  | true => exact absurd (leapCheck_feb29 tm hm hd hy0 hy1 h) hl

theorem utcZone_toLocal_some (t : Int) (hy : fitsInt (tmFromSecs t).year = true) : utcZone.toLocal t = some (tmFromSecs t) := by
  unfold utcZone fixedZone convertible
  dsimp only
  rw [Int.add_zero, hy]; rfl

theorem utcZone_fromLocal_some (tm : Tm) (hv : tm.validCivil) (hy0 : INT_MIN ≤ tm.year) (hy1 : tm.year ≤ INT_MAX) :
    utcZone.fromLocal tm = some (secsFromTm tm) := by
  have hb := secsFromTm_bound tm hv hy0 hy1
  have hrt := (tmFromSecs_secsFromTm tm hv).1
  have hfit : fitsInt (tmFromSecs (secsFromTm tm)).year = true := by rw [hrt]; exact (fitsInt_iff _).2 ⟨hy0, hy1⟩
  unfold utcZone fixedZone convertible
  dsimp only
  rw [Int.sub_zero, Int.add_zero, hfit]
  unfold TIME_MIN TIME_MAX
  simp only [Bool.and_self, Bool.true_and, decide_eq_true_eq]
  rw [if_pos (by omega)]

theorem startOrNow_fwd {L : Libc} (hnf : NoFailures L) (w : World) (t : Int) : (startOrNow L w t).1 = refTime L t := by
  unfold startOrNow refTime
  split
  · dsimp only; rw [call_nofail hnf]; rfl
  · rfl

theorem secsFromTm_sec0_ne (tm : Tm) (h : tm.sec = 0) : secsFromTm tm ≠ -1 := by
  unfold secsFromTm; dsimp only; rw [h]
  generalize daysFromCivil (tm.year + 1900 + tm.mon / 12) (tm.mon % 12 + 1) 1 + (tm.mday - 1) = D
  omega

theorem guardOut_false (cfg : Cfg) (r east : Int) (hout : cfg.epochOut = false) (hr0 : -(7 * 10 ^ 16) ≤ r) (hr1 : r ≤ 7 * 10 ^ 16)
    (he0 : INT_MIN ≤ east) (he1 : east ≤ INT_MAX) : guardOut cfg r east = false := by
  unfold guardOut INT_MIN INT_MAX TIME_MIN TIME_MAX at *
  rw [hout]
  split <;> simp <;> omega

theorem guardIn_false (cfg : Cfg) (s east : Int) (hin : cfg.epochIn = false) (hr0 : -(7 * 10 ^ 16) ≤ s + east)
    (hr1 : s + east ≤ 7 * 10 ^ 16) (he0 : INT_MIN ≤ east) (he1 : east ≤ INT_MAX) : guardIn cfg s east = false := by
  unfold guardIn INT_MIN INT_MAX TIME_MIN TIME_MAX at *
  rw [hin]
  split <;> simp <;> omega

/-- from the broken-down reference time on, without failures: the result is decided by the calendar alone -/
theorem ltoFromTm_fwd (cfg : Cfg) {L : Libc} (w : World) (tm0 : Tm) (pil : Nat) (east : Int)
    (hout : cfg.epochOut = false) (hnf : NoFailures L) (hutc : UtcIsCalendar cfg L) (hv : PilValid pil)
    (hm0 : 0 ≤ tm0.mon) (hm1 : tm0.mon ≤ 11) (hy0 : 1 ≤ tm0.year + 1900) (hy1 : tm0.year + 1902 ≤ INT_MAX)
    (he0 : INT_MIN ≤ east) (he1 : east ≤ INT_MAX) :
    ∃ tm1, tmMonMdayFromPil tm0 pil = some tm1 ∧
      (ltoFromTm cfg L w tm0 pil east).1 =
        if pilMonth pil = 2 ∧ pilDay pil = 29 ∧ ¬ isLeap (tm1.year + 1900) then .invalidPil
        else .ok (secsFromTm { tm1 with hour := (pilHour pil : Int), min := (pilMinute pil : Int), sec := 0 } - east) := by
  have hI : INT_MAX = 2147483647 := rfl
  have hI' : INT_MIN = -2147483648 := rfl
  obtain ⟨tm1, h1⟩ := tmMonMday_some tm0 pil hm0 hm1 (by omega) (by omega)
  refine ⟨tm1, h1, ?_⟩
  obtain ⟨hp0, hp1, hd0, hd1, hh, hmi⟩ := hv
  obtain ⟨s1, s2, _, _, _, _, _, _, _, s10, s11⟩ := tmMonMday_spec tm0 tm1 pil hm0 hm1 hp0 hp1 h1
  have hd29 : tm1.mon = 1 → tm1.mday ≤ 29 := by
    intro hm
    have : (pilMonth pil : Int) = 2 := by omega
    rw [this] at hd1
    simp [daysInMonth] at hd1
    omega
  unfold ltoFromTm
  rw [h1]
  dsimp only
  by_cases hbad : pilMonth pil = 2 ∧ pilDay pil = 29 ∧ ¬ isLeap (tm1.year + 1900)
  · rw [if_pos hbad]
    have := leapCheck_false tm1 (by omega) (by omega) (by omega) (by omega) hbad.2.2
    simp [this]
  · rw [if_neg hbad]
    have hlc := leapCheck_true tm1 (by omega) (by omega) hd29 (by
      intro hm hd
      apply Classical.byContradiction
      intro hl
      exact hbad ⟨by omega, by omega, hl⟩)
    obtain ⟨v1, _, _⟩ := pilTm_valid tm0 tm1 pil tm1.isdst ⟨hp0, hp1, hd0, hd1, hh, hmi⟩ hm0 hm1 hy0 (by omega) h1 hlc
    have hfrom := utcZone_fromLocal_some _ v1 (by show INT_MIN ≤ tm1.year; omega) (by show tm1.year ≤ INT_MAX; omega)
    have hb := secsFromTm_bound _ v1 (by show INT_MIN ≤ tm1.year; omega) (by show tm1.year ≤ INT_MAX; omega)
    generalize hr : secsFromTm { tm1 with hour := (pilHour pil : Int), min := (pilMinute pil : Int), sec := 0, isdst := tm1.isdst } = r at *
    have hne : r ≠ -1 := by rw [← hr]; exact secsFromTm_sec0_ne _ rfl
    have htg := vbiTimegm_fwd cfg hnf hutc w _ r hfrom (by unfold TIME_MIN; omega) (by unfold TIME_MAX; omega)
    simp only [hlc, Bool.not_true, Bool.false_eq_true, ↓reduceIte]
    rw [htg, if_neg hne, guardOut_false cfg r east hout hb.1 hb.2 he0 he1]
    simp only [Bool.false_eq_true, ↓reduceIte]

theorem lto_succeeds (cfg : Cfg) (L : Libc) (w : World) (pil : Nat) (start east : Int)
    (hin : cfg.epochIn = false) (hout : cfg.epochOut = false)
    (hnf : NoFailures L) (hutc : UtcIsCalendar cfg L) (hv : PilValid pil) (href : refTime L start ≠ -1)
    (he0 : INT_MIN ≤ east) (he1 : east ≤ INT_MAX)
    (hy0 : 1 ≤ (tmFromSecs (refTime L start + east)).year + 1900)
    (hy1 : (tmFromSecs (refTime L start + east)).year + 1902 ≤ INT_MAX) :
    ∃ tm1, tmMonMdayFromPil (tmFromSecs (refTime L start + east)) pil = some tm1 ∧
      (vbiPilLtoToTime cfg L w pil start east).1 =
        if pilMonth pil = 2 ∧ pilDay pil = 29 ∧ ¬ isLeap (tm1.year + 1900) then -1
        else secsFromTm { tm1 with hour := (pilHour pil : Int), min := (pilMinute pil : Int), sec := 0 } - east := by
  have hI : INT_MAX = 2147483647 := rfl
  have hI' : INT_MIN = -2147483648 := rfl
  obtain ⟨hsec, hval⟩ := secsFromTm_tmFromSecs (refTime L start + east)
  have hb := secsFromTm_bound _ hval (by omega) (by omega)
  rw [hsec] at hb
  have hgi := guardIn_false cfg (refTime L start) east hin hb.1 hb.2 he0 he1
  have hfit : fitsInt (tmFromSecs (refTime L start + east)).year = true := (fitsInt_iff _).2 ⟨by omega, by omega⟩
  obtain ⟨tm1, h1, hres⟩ := ltoFromTm_fwd cfg ((startOrNow L w start).2.call L .gmtime).2 (tmFromSecs (refTime L start + east))
    pil east hout hnf hutc hv hval.1 hval.2.1 hy0 hy1 he0 he1
  refine ⟨tm1, h1, ?_⟩
  have hvd : pilIsValidDate pil = true := (pilIsValidDate_iff pil).2 hv
  unfold vbiPilLtoToTime
  simp only [hvd, Bool.not_true, Bool.false_eq_true, ↓reduceIte]
  unfold validPilLtoToTime
  dsimp only
  rw [startOrNow_fwd hnf, if_neg href, hgi]
  simp only [Bool.false_eq_true, ↓reduceIte]
  rw [call_nofail hnf]
  simp only [Bool.false_eq_true, ↓reduceIte]
  rw [utcZone_toLocal_some _ hfit]
  dsimp only
  rw [hres]
  split <;> rfl

end Zvbi.Pdc
