import ZvbiModel.Net.XdsStr
import ZvbiModel.Net.LemmasGap
/-!
# The VPS programme id is announced on a complete double reception

`vbi_decode_vps` compares the freshly decoded `vbi_program_id` with `vbi->vps_pid` by `memcmp` over the
whole struct.  In the model that is equality of the record `Pid`; `pid_eq_iff_fields` spells it out as
the nine fields the decoders write, i.e. the model's record has no field the comparison leaves out, and
the C struct has nothing else that could differ (`tape_delayed` and the reserved members are zero in
both operands after `CLEAR`; no padding: `layout` op of the correspondence).
-/
namespace Zvbi.Net
open Zvbi.Hamm Zvbi.Codec Zvbi.Gen

theorem pid_eq_iff_fields (p q : Pid) : p = q ↔ pidFields p = pidFields q := by
  constructor
  · intro h; rw [h]
  · intro h
    cases p; cases q
    simp only [pidFields, List.cons.injEq, and_true] at h
    obtain ⟨h1, h2, h3, h4, h5, h6, h7, h8, h9⟩ := h
    subst h1 h2 h3 h4 h5 h6 h7 h8 h9
    rfl

theorem chswReset_vpsPid (s : State) (id : Nat) : (chswReset s id).1.vpsPid = s.vpsPid := by
  simp only [chswReset]; repeat' split
  all_goals simp

theorem chswReset_mask (s : State) (id : Nat) : (chswReset s id).1.mask = s.mask := by
  simp only [chswReset]; repeat' split
  all_goals simp

theorem announce_mask (cfg : Cfg) (c : Carrier) (v : Nat) (s : State) : (announce cfg c v s).1.mask = s.mask := by
  simp only [announce]
  repeat' split
  all_goals simp [chswReset_mask, markDone_mask]

theorem announce_no_extra (cfg : Cfg) (c : Carrier) (v : Nat) (s : State) : ∀ e ∈ (announce cfg c v s).2, Ev.isExtra e = false := by
  simp only [announce, chswReset]
  repeat' split
  all_goals (intro e he; simp at he; try (rcases he with x | x | x | x) <;> simp_all [Ev.isExtra])

/-- what the announce branch of `vbi_decode_vps` does with the label, by the three cases of the C text -/
theorem rxVps_announce_branch (cfg : Cfg) (s : State) (b : Buf) (h1 : decodeVpsCni b = s.net.cniVps) (h2 : pending cfg .vps s) :
    let a := announce cfg .vps (decodeVpsCni b) s
    rxVps cfg s b =
      if hasBit s.mask VBI_EVENT_PROG_ID then
        if decodeVpsPdc b ≠ s.vpsPid then ({ a.1 with vpsPid := decodeVpsPdc b }, a.2)
        else (a.1, a.2 ++ [Ev.progId (decodeVpsPdc b)])
      else (a.1, a.2) := by
  simp only [rxVps, h1, h2, ne_eq, not_true_eq_false, if_false, if_true]
  rw [← h1, announce_mask, announce_vpsPid]

/-- a PROG_ID event from a VPS line: the label of this line, equal as a complete record to the stored one, the
    CNI stored, a change pending and a PROG_ID handler registered -/
theorem rxVps_progId_full (cfg : Cfg) (s : State) (b : Buf) (p : Pid) (h : Ev.progId p ∈ (rxVps cfg s b).2) :
    p = decodeVpsPdc b ∧ s.vpsPid = decodeVpsPdc b ∧ decodeVpsCni b = s.net.cniVps ∧ pending cfg .vps s ∧
    hasBit s.mask VBI_EVENT_PROG_ID = true := by
  have base := rxVps_progId cfg s b p h
  refine ⟨base.1, base.2.1, base.2.2, ?_, ?_⟩
  · by_cases h2 : pending cfg .vps s
    · exact h2
    · exfalso
      have h1 := base.2.2
      simp [rxVps, h1, h2] at h
  · by_cases h2 : pending cfg .vps s
    · have e := rxVps_announce_branch cfg s b base.2.2 h2
      simp only [] at e
      rw [e] at h
      by_cases hb : hasBit s.mask VBI_EVENT_PROG_ID = true
      · exact hb
      · exfalso
        rw [if_neg hb] at h
        exact absurd (announce_no_extra cfg .vps _ s _ h) (by simp [Ev.isExtra])
    · exfalso
      have h1 := base.2.2
      simp [rxVps, h1, h2] at h

/-- the label a VPS line leaves in `vbi->vps_pid` whenever the line is looked at -/
theorem rxVps_stores (cfg : Cfg) (s : State) (b : Buf)
    (h : decodeVpsCni b ≠ s.net.cniVps ∨ (pending cfg .vps s ∧ hasBit s.mask VBI_EVENT_PROG_ID = true)) :
    (rxVps cfg s b).1.vpsPid = decodeVpsPdc b := by
  by_cases h1 : decodeVpsCni b = s.net.cniVps
  · rcases h with h | ⟨h2, hb⟩
    · exact absurd h1 h
    · have e := rxVps_announce_branch cfg s b h1 h2
      simp only [] at e
      rw [e, if_pos hb]
      by_cases hp : decodeVpsPdc b = s.vpsPid
      · simp only [ne_eq, hp, not_true_eq_false, if_false]
        rw [announce_vpsPid]
      · simp [hp]
  · simp [rxVps, h1]

theorem rxVps_mask (cfg : Cfg) (s : State) (b : Buf) : (rxVps cfg s b).1.mask = s.mask := by
  by_cases h1 : decodeVpsCni b = s.net.cniVps
  · by_cases h2 : pending cfg .vps s
    · have e := rxVps_announce_branch cfg s b h1 h2
      simp only [] at e
      rw [e]
      repeat' split
      all_goals simp [announce_mask]
    · simp [rxVps, h1, h2]
  · simp [rxVps, h1, markChange_mask]

/-- after the announce branch nothing is pending on the VPS carrier -/
theorem announce_not_pending (cfg : Cfg) (c : Carrier) (v : Nat) (s : State) : ¬ pending cfg c (announce cfg c v s).1 := by
  simp only [announce]
  exact markDone_not_pending _ _ _ _

theorem rxVps_announce_cycle (cfg : Cfg) (s : State) (b : Buf) (h1 : decodeVpsCni b = s.net.cniVps) (h2 : pending cfg .vps s) :
    ¬ pending cfg .vps (rxVps cfg s b).1 := by
  have e := rxVps_announce_branch cfg s b h1 h2
  simp only [] at e
  rw [e]
  have c := announce_not_pending cfg .vps (decodeVpsCni b) s
  repeat' split
  all_goals first
    | exact c
    | (rw [pending_congr cfg .vps (announce cfg .vps (decodeVpsCni b) s).1 _ rfl rfl]; exact c)

/-! ## between two VPS lines -/

/-- atoms that neither store a label nor start a debounce cycle: heads of `vbi_decode` (with or without
    time-outs), `vbi_channel_switched`, WSS lines, Teletext pages -/
def Atom.pidQuiet : Atom → Bool
  | .tick _ => true
  | .chsw => true
  | .line _ (.wss _ _) => true
  | .line _ (.page _) => true
  | _ => false

theorem prologue_vpsPid_mask (s : State) (t : Nat) : (prologue s t).1.vpsPid = s.vpsPid ∧ (prologue s t).1.mask = s.mask := by
  simp only [prologue]
  repeat' split
  all_goals simp [chswReset_vpsPid, chswReset_mask]

theorem rxWss_vpsPid (s : State) (b0 b1 t : Nat) : (rxWss s b0 b1 t).1.vpsPid = s.vpsPid := by
  simp only [rxWss]
  repeat' split
  all_goals simp

/-- across such an atom the stored label and the mask stay, and no cycle becomes pending -/
def PidStay (cfg : Cfg) (s s' : State) : Prop :=
  s'.vpsPid = s.vpsPid ∧ s'.mask = s.mask ∧ (¬ pending cfg .vps s → ¬ pending cfg .vps s')

theorem pidStay_of_net (cfg : Cfg) (s s' : State) (h1 : s'.vpsPid = s.vpsPid) (h2 : s'.mask = s.mask)
    (h3 : (s'.net = s.net ∧ s'.deb = s.deb) ∨ (s'.net = {} ∧ s'.deb = {})) : PidStay cfg s s' := by
  refine ⟨h1, h2, ?_⟩
  rcases h3 with e | e
  · rw [pending_congr cfg .vps s s' e.1 e.2]; exact id
  · intro _
    unfold pending; rw [e.1, e.2]
    split <;> decide

theorem prologue_net_deb (s : State) (t : Nat) :
    ((prologue s t).1.net = s.net ∧ (prologue s t).1.deb = s.deb) ∨ ((prologue s t).1.net = {} ∧ (prologue s t).1.deb = {}) := by
  simp only [prologue, chswReset]
  repeat' split
  all_goals simp

theorem stepAtom_pidStay (cfg : Cfg) (s : State) (a : Atom) (h : a.pidQuiet = true) : PidStay cfg s (stepAtom cfg s a).1 := by
  cases a with
  | tick t => exact pidStay_of_net cfg _ _ (prologue_vpsPid_mask s t).1 (prologue_vpsPid_mask s t).2 (prologue_net_deb s t)
  | mask m => simp [Atom.pidQuiet] at h
  | chsw => exact ⟨rfl, rfl, id⟩
  | line t l =>
    cases l with
    | vps b => simp [Atom.pidQuiet] at h
    | ttx b => simp [Atom.pidQuiet] at h
    | xds ty bytes => simp [Atom.pidQuiet] at h
    | cpr c0 => simp [Atom.pidQuiet] at h
    | wss b0 b1 =>
      simp only [stepAtom, rxLine]
      exact pidStay_of_net cfg _ _ (rxWss_vpsPid s b0 b1 t) (rxWss_keeps s b0 b1 t).2.2.2.1 (Or.inl ⟨(rxWss_keeps s b0 b1 t).1, rxWss_deb s b0 b1 t⟩)
    | page pgno =>
      simp only [stepAtom]
      rcases rxLine_page cfg t s pgno with e | e <;> rw [e] <;> exact ⟨rfl, rfl, id⟩

theorem runAtoms_pidStay (cfg : Cfg) : ∀ (mid : List Atom) (s : State), (∀ a ∈ mid, a.pidQuiet = true) →
    PidStay cfg s (runAtoms cfg s mid).1 := by
  intro mid
  induction mid with
  | nil => intro s _; exact ⟨rfl, rfl, id⟩
  | cons a as ih =>
    intro s hf
    simp only [runAtoms]
    have h1 := stepAtom_pidStay cfg s a (hf a (List.mem_cons_self ..))
    have h2 := ih (stepAtom cfg s a).1 (fun x hx => hf x (List.mem_cons_of_mem _ hx))
    exact ⟨h2.1.trans h1.1, h2.2.1.trans h1.2.1, fun h => h2.2.2 (h1.2.2 h)⟩

/-- two VPS lines with any ticks (time-outs included), channel switches, WSS lines and pages between them:
    a PROG_ID event at the second needs the two labels equal as complete records -/
theorem vps_pid_needs_equal_repeat (cfg : Cfg) (s0 : State) (t1 t2 : Nat) (b1 b2 : Buf) (mid : List Atom)
    (hmid : ∀ a ∈ mid, a.pidQuiet = true) (p : Pid)
    (h : Ev.progId p ∈ (stepAtom cfg (runAtoms cfg (stepAtom cfg s0 (.line t1 (.vps b1))).1 mid).1 (.line t2 (.vps b2))).2) :
    decodeVpsPdc b1 = decodeVpsPdc b2 ∧ p = decodeVpsPdc b2 := by
  simp only [stepAtom, rxLine] at h hmid ⊢
  have st := runAtoms_pidStay cfg mid (rxVps cfg s0 b1).1 hmid
  have f := rxVps_progId_full cfg _ b2 p h
  refine ⟨?_, f.1⟩
  rw [st.1] at f
  by_cases h1 : decodeVpsCni b1 = s0.net.cniVps
  · by_cases h2 : pending cfg .vps s0
    · by_cases hb : hasBit s0.mask VBI_EVENT_PROG_ID = true
      · rw [rxVps_stores cfg s0 b1 (Or.inr ⟨h2, hb⟩)] at f
        exact f.2.1
      · exfalso
        have hm := f.2.2.2.2
        rw [st.2.1, rxVps_mask] at hm
        exact hb hm
    · exfalso
      have e : (rxVps cfg s0 b1).1 = s0 := by simp [rxVps, h1, h2]
      rw [e] at st f
      exact st.2.2 h2 f.2.2.2.1
  · rw [rxVps_stores cfg s0 b1 (Or.inl h1)] at f
    exact f.2.1

/-! ## all histories: the stored label is the complete label of some VPS line received earlier -/

/-- the labels of the VPS lines of a history -/
def vpsLabels : List Atom → List Pid
  | [] => []
  | .line _ (.vps b) :: as => decodeVpsPdc b :: vpsLabels as
  | _ :: as => vpsLabels as

theorem rxVps_vpsPid_cases (cfg : Cfg) (s : State) (b : Buf) :
    (rxVps cfg s b).1.vpsPid = s.vpsPid ∨ (rxVps cfg s b).1.vpsPid = decodeVpsPdc b := by
  by_cases h1 : decodeVpsCni b = s.net.cniVps
  · by_cases h2 : pending cfg .vps s
    · have e := rxVps_announce_branch cfg s b h1 h2
      simp only [] at e
      rw [e]
      repeat' split
      all_goals simp [announce_vpsPid]
    · left; simp [rxVps, h1, h2]
  · right; simp [rxVps, h1]

theorem cniRx_vpsPid (cfg : Cfg) (c : Carrier) (v : Nat) (s : State) : (cniRx cfg c v s).1.vpsPid = s.vpsPid := by
  simp only [cniRx]
  repeat' split
  all_goals simp [announce_vpsPid, markChange_vpsPid]

theorem rxTtx_vpsPid (cfg : Cfg) (s : State) (b : Buf) : (rxTtx cfg s b).1.vpsPid = s.vpsPid := by
  rw [(rxTtx_eq cfg s b).1]
  cases ttxCni s.mask b with
  | none => rfl
  | some p => exact cniRx_vpsPid cfg p.1 p.2 s

theorem rxXds_vpsPid (g : Bool) (s : State) (ty : Nat) (bytes : List Nat) : (rxXds g s ty bytes).1.vpsPid = s.vpsPid := by
  simp only [rxXds]
  repeat' split
  all_goals simp [chswReset_vpsPid]

theorem eventEnable_vpsPid (k : Bool) (s : State) (m : Nat) : (eventEnable k s m).vpsPid = s.vpsPid ∨ (eventEnable k s m).vpsPid = {} := by
  simp only [eventEnable]
  repeat' split
  all_goals simp

theorem stepAtom_vpsPid (cfg : Cfg) (s : State) (a : Atom) :
    (stepAtom cfg s a).1.vpsPid = s.vpsPid ∨ (stepAtom cfg s a).1.vpsPid = {} ∨ (stepAtom cfg s a).1.vpsPid ∈ vpsLabels [a] := by
  cases a with
  | tick t => left; exact (prologue_vpsPid_mask s t).1
  | mask m => rcases eventEnable_vpsPid _ s m with e | e
              · left; exact e
              · right; left; exact e
  | chsw => left; rfl
  | line t l =>
    cases l with
    | vps b =>
      rcases rxVps_vpsPid_cases cfg s b with e | e
      · left; exact e
      · right; right; simp only [stepAtom, rxLine, vpsLabels]; rw [e]; exact List.mem_cons_self ..
    | ttx b => left; exact rxTtx_vpsPid cfg s b
    | xds ty bytes => left; exact rxXds_vpsPid _ s ty bytes
    | wss b0 b1 => left; exact rxWss_vpsPid s b0 b1 t
    | cpr c0 => left; exact (rxCpr_rest s c0).2.1
    | page pgno =>
      left
      simp only [stepAtom]
      rcases rxLine_page cfg t s pgno with e | e <;> rw [e]

theorem vpsLabels_cons (a : Atom) (as : List Atom) : vpsLabels (a :: as) = vpsLabels [a] ++ vpsLabels as := by
  cases a with
  | line t l => cases l <;> simp [vpsLabels]
  | _ => simp [vpsLabels]

theorem runAtoms_vpsPid (cfg : Cfg) : ∀ (atoms : List Atom) (s : State),
    (runAtoms cfg s atoms).1.vpsPid = s.vpsPid ∨ (runAtoms cfg s atoms).1.vpsPid = {} ∨
    (runAtoms cfg s atoms).1.vpsPid ∈ vpsLabels atoms := by
  intro atoms
  induction atoms with
  | nil => intro s; left; rfl
  | cons a as ih =>
    intro s
    simp only [runAtoms]
    rw [vpsLabels_cons]
    rcases ih (stepAtom cfg s a).1 with e | e | e
    · rw [e]
      rcases stepAtom_vpsPid cfg s a with f | f | f
      · left; exact f
      · right; left; exact f
      · right; right; exact List.mem_append_left _ f
    · right; left; exact e
    · right; right; exact List.mem_append_right _ e

end Zvbi.Net
