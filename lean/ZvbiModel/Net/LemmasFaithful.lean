import ZvbiModel.Net.LemmasChange
/-!
# Faithful values of LOCAL_TIME / PROG_ID (8/30), the XDS announcement, concrete witnesses
-/
namespace Zvbi.Net
open Zvbi.Hamm Zvbi.Codec Zvbi.Gen

/-- where an event of a Teletext line can come from -/
def TtxEvOk (b : Buf) (q : List Ev) (e : Ev) : Prop :=
  e ∈ q ∨ (∃ t east, e = Ev.localTime t east ∧ decode8301LocalTime b = some (t, east)) ∨
  (∃ p, e = Ev.progId p ∧ decode8302Pdc b = some p)

theorem tail830_ok (b : Buf) (d : Nat) (s : State) (evs : List Ev) : ∀ e ∈ (tail830 b d s evs).2, TtxEvOk b evs e := by
  unfold tail830
  intro e he
  repeat' split at he
  all_goals first
    | exact Or.inl he
    | (rcases List.mem_append.mp he with x | x
       · exact Or.inl x
       · simp at x
         first
           | exact Or.inr (Or.inl ⟨_, _, x, by assumption⟩)
           | exact Or.inr (Or.inr ⟨_, x, by assumption⟩))

theorem rxTtx_ok (cfg : Cfg) (s : State) (b : Buf) :
    ∀ e ∈ (rxTtx cfg s b).2, TtxEvOk b (cniStep cfg s (ttxCni s.mask b)).2 e := by
  have nil : ∀ (q : List Ev), ∀ e ∈ (s, ([] : List Ev)).2, TtxEvOk b q e := by intro q e he; cases he
  unfold rxTtx ttxCni
  cases h0 : unham16p (bt b 0) (bt b 1) with
  | none => exact nil _
  | some pmag =>
    simp only []
    by_cases hp : pmag &&& 15 = 0
    · simp only [hp, if_true]
      unfold parse830
      cases hd : unham8 (bt b 2) with
      | none => exact nil _
      | some d =>
        simp only []
        by_cases h4 : d > 4
        · simp only [h4, if_true]; exact nil _
        · simp only [h4, if_false]
          by_cases hl : (hasBit s.mask VBI_EVENT_TTX_PAGE && !pageLinkOk b) = true
          · simp only [hl, if_true]; exact nil _
          · simp only [hl]
            by_cases hb : hasBit s.mask (VBI_EVENT_NETWORK ||| VBI_EVENT_NETWORK_ID) = true
            · simp only [hb, if_true]
              unfold parseBsd
              by_cases g4 : d ≥ 4
              · simp only [g4, if_true]
                exact tail830_ok b d s []
              · simp only [g4, if_false]
                by_cases g1 : d ≤ 1
                · simp only [g1, if_true]
                  exact tail830_ok b d _ _
                · simp only [g1, if_false]
                  cases hc : bsdCni2 b with
                  | none => exact nil _
                  | some cni => exact tail830_ok b d _ _
            · simp only [hb]
              exact tail830_ok b d s []
    · simp only [hp, if_false]; exact nil _

theorem rxTtx_localTime (cfg : Cfg) (s : State) (b : Buf) (t east : Int) (h : Ev.localTime t east ∈ (rxTtx cfg s b).2) :
    decode8301LocalTime b = some (t, east) := by
  rcases rxTtx_ok cfg s b _ h with x | ⟨t', e', x, y⟩ | ⟨p, x, _⟩
  · have ne : ∀ e ∈ (cniStep cfg s (ttxCni s.mask b)).2, Ev.isExtra e = false := by
      cases ttxCni s.mask b with
      | none => intro e he; cases he
      | some p => exact cniRx_no_extra cfg p.1 p.2 s
    exact absurd (ne _ x) (by simp [Ev.isExtra])
  · injection x with a b'; rw [a, b']; exact y
  · cases x

theorem rxTtx_progId (cfg : Cfg) (s : State) (b : Buf) (p : Pid) (h : Ev.progId p ∈ (rxTtx cfg s b).2) :
    decode8302Pdc b = some p := by
  rcases rxTtx_ok cfg s b _ h with x | ⟨t', e', x, _⟩ | ⟨p', x, y⟩
  · have ne : ∀ e ∈ (cniStep cfg s (ttxCni s.mask b)).2, Ev.isExtra e = false := by
      cases ttxCni s.mask b with
      | none => intro e he; cases he
      | some p => exact cniRx_no_extra cfg p.1 p.2 s
    exact absurd (ne _ x) (by simp [Ev.isExtra])
  · cases x
  · injection x with a; rw [a]; exact y

/-! ## XDS network name -/

theorem chswReset_events_identified (s : State) (id : Nat) (h : id ≠ 0) :
    (chswReset s id).2 = (if s.aspectSource > 0 then [Ev.aspect (chswAspect s.aspectSource)] else []) := by
  simp [chswReset, h]

/-- an XDS announcement carries the received name and the check sum of call letters or name; it needs
    the same name stored (received before) and a pending change -/
theorem rxXds_announce (g : Bool) (s : State) (ty : Nat) (bytes : List Nat) (n : Network)
    (h : Ev.network n ∈ (rxXds g s ty bytes).2 ∨ Ev.networkId n ∈ (rxXds g s ty bytes).2) :
    ty = 1 ∧ (xdsStrfu s.net.name bytes).2 = false ∧ s.net.cycle = 1 ∧ n.name = s.net.name ∧
    n.name = (xdsStrfu s.net.name bytes).1 ∧
    n.nuid = xdsNuid (if s.net.call ≠ [] then s.net.call else s.net.name) := by
  have key : ∀ (s : State) (str : List Nat), (chswReset s (xdsNuid str)).1.net = s.net :=
    fun s str => (chswReset_identified s _ (xdsNuid_ne_zero str)).1
  have kev : ∀ (s : State) (str : List Nat), (chswReset s (xdsNuid str)).2 =
      (if s.aspectSource > 0 then [Ev.aspect (chswAspect s.aspectSource)] else []) :=
    fun s str => chswReset_events_identified s _ (xdsNuid_ne_zero str)
  by_cases t1 : ty = 1
  · by_cases hq : (xdsStrfu s.net.name bytes).2 = true
    · simp [rxXds, t1, hq] at h
    · have hq' : (xdsStrfu s.net.name bytes).2 = false := by simpa using hq
      have same := xdsStrfu_same _ _ hq'
      by_cases hc : s.net.cycle = 1
      · refine ⟨t1, hq', hc, ?_⟩
        simp only [rxXds, t1, if_true, hq', same, hc] at h
        by_cases hg : (g && decide (xdsNuid (if s.net.call ≠ [] then s.net.call else s.net.name) = s.net.nuid)) = true
        · simp only [hg, if_true] at h
          simp at h
          simp at hg
          rw [h]
          refine ⟨rfl, same.symm, ?_⟩
          simpa using hg.2.symm
        · simp only [hg] at h
          by_cases hn : s.net.nuid = 0
          · simp [hn] at h
            have : n = { s.net with name := s.net.name, nuid := xdsNuid (if s.net.call ≠ [] then s.net.call else s.net.name) } := by
              simpa [hc] using h
            rw [this]; exact ⟨rfl, same.symm, rfl⟩
          · by_cases ha : s.aspectSource > 0
            · simp [hn, key, kev, ha] at h
              have : n = { s.net with name := s.net.name, nuid := xdsNuid (if s.net.call ≠ [] then s.net.call else s.net.name) } := by
                simpa [hc] using h
              rw [this]; exact ⟨rfl, same.symm, rfl⟩
            · simp [hn, key, kev, ha] at h
              have : n = { s.net with name := s.net.name, nuid := xdsNuid (if s.net.call ≠ [] then s.net.call else s.net.name) } := by
                simpa [hc] using h
              rw [this]; exact ⟨rfl, same.symm, rfl⟩
      · simp [rxXds, t1, hq', hc] at h
  · by_cases t2 : ty = 2
    · simp only [rxXds, t2] at h
      revert h
      simp only [show ¬ (2 = 1) by decide, if_false, if_true]
      split <;> simp
    · simp [rxXds, t1, t2] at h

/-- with the comparison `sum != n->nuid` in place (fixes/xds-name-reannounce.diff) an XDS name that yields the
    identified station's id raises no NETWORK event and keeps the cache -/
theorem rxXds_guarded_same (s : State) (bytes : List Nat)
    (hid : xdsNuid (if s.net.call ≠ [] then s.net.call else (xdsStrfu s.net.name bytes).1) = s.net.nuid) :
    NoNetwork (rxXds true s 1 bytes).2 ∧ (rxXds true s 1 bytes).1.cached = s.cached ∧
    (rxXds true s 1 bytes).1.net.nuid = s.net.nuid := by
  simp only [rxXds, if_true]
  repeat' split
  all_goals first
    | exact ⟨NoNetwork_nil, rfl, rfl⟩
    | (refine ⟨?_, rfl, rfl⟩; intro e he; simp at he; rw [he]; rfl)
    | (exfalso; simp_all)

end Zvbi.Net
