import ZvbiModel.Net.LemmasRepeat
/-!
# WSS: an aspect is announced only after four identical words with valid parity
-/
namespace Zvbi.Net
open Zvbi.Hamm Zvbi.Codec Zvbi.Gen

theorem runAtoms_append (cfg : Cfg) : ∀ (a b : List Atom) (s : State),
    (runAtoms cfg s (a ++ b)).1 = (runAtoms cfg (runAtoms cfg s a).1 b).1 := by
  intro a
  induction a with
  | nil => intro b s; rfl
  | cons x xs ih => intro b s; simp only [List.cons_append, runAtoms]; exact ih b _

/-- the WSS registers are untouched, or cleared by a reset -/
def WssStay (s s' : State) : Prop :=
  (s'.wssLast = s.wssLast ∧ s'.wssRep = s.wssRep ∧ s'.wssTime = s.wssTime) ∨
  (s'.wssLast = (0, 0) ∧ s'.wssRep = 0 ∧ s'.wssTime = 0)

theorem WssStay.refl (s : State) : WssStay s s := Or.inl ⟨rfl, rfl, rfl⟩

theorem WssStay.trans {a b c : State} (h1 : WssStay a b) (h2 : WssStay b c) : WssStay a c := by
  rcases h2 with ⟨x, y, z⟩ | h
  · rcases h1 with ⟨x', y', z'⟩ | ⟨x', y', z'⟩
    · exact Or.inl ⟨x.trans x', y.trans y', z.trans z'⟩
    · exact Or.inr ⟨x.trans x', y.trans y', z.trans z'⟩
  · exact Or.inr h

theorem chswReset_wss (s : State) (id : Nat) :
    (chswReset s id).1.wssLast = (0, 0) ∧ (chswReset s id).1.wssRep = 0 ∧ (chswReset s id).1.wssTime = 0 := by
  simp only [chswReset]
  repeat' split
  all_goals simp

theorem cniRx_wss (cfg : Cfg) (c : Carrier) (v : Nat) (s : State) : WssStay s (cniRx cfg c v s).1 := by
  apply cniRx_cases cfg c v s (fun r => WssStay s r.1)
  · intro _; exact Or.inl ⟨markChange_wssLast .., markChange_wssRep .., markChange_wssTime ..⟩
  · intro _ _; exact WssStay.refl s
  · intro _ _ _; exact Or.inl ⟨markDone_wssLast .., markDone_wssRep .., markDone_wssTime ..⟩
  · intro _ _ _ _; exact Or.inl ⟨markDone_wssLast .., markDone_wssRep .., markDone_wssTime ..⟩
  · intro _ _ _ _ _; exact Or.inr ⟨markDone_wssLast .., markDone_wssRep .., markDone_wssTime ..⟩
  · intro _ _ _ _ _; exact Or.inr ⟨markDone_wssLast .., markDone_wssRep .., markDone_wssTime ..⟩

theorem rxXds_wss (g : Bool) (s : State) (ty : Nat) (bytes : List Nat) : WssStay s (rxXds g s ty bytes).1 := by
  have key := chswReset_wss
  simp only [rxXds, WssStay]
  repeat' split
  all_goals first
    | (left; exact ⟨rfl, rfl, rfl⟩)
    | (right; simp [key])

theorem prologue_wss (s : State) (t : Nat) : WssStay s (prologue s t).1 := by
  have key := chswReset_wss
  simp only [prologue, WssStay]
  repeat' split
  all_goals first
    | (left; exact ⟨rfl, rfl, rfl⟩)
    | (right; simp [key])

theorem eventEnable_wss (k : Bool) (s : State) (m : Nat) : WssStay s (eventEnable k s m) := by
  simp only [eventEnable, WssStay]
  repeat' split
  all_goals (left; exact ⟨rfl, rfl, rfl⟩)

theorem stepAtom_wss (cfg : Cfg) (s : State) (a : Atom) (h : a.wssFree = true) : WssStay s (stepAtom cfg s a).1 := by
  cases a with
  | tick t => exact prologue_wss s t
  | mask m => exact eventEnable_wss _ s m
  | chsw => exact Or.inl ⟨rfl, rfl, rfl⟩
  | line t l =>
    simp only [stepAtom]
    cases l with
    | wss b0 b1 => simp [Atom.wssFree, Line.isWss] at h
    | cpr c0 => exact Or.inl ⟨(rxCpr_rest s c0).2.2.1, (rxCpr_rest s c0).2.2.2.1, (rxCpr_rest s c0).2.2.2.2⟩
    | page pgno =>
      simp only [rxLine]
      split <;> exact Or.inl ⟨rfl, rfl, rfl⟩
    | xds ty bytes => exact rxXds_wss _ s ty bytes
    | vps b =>
      have k := rxLine_cniStep cfg t s (.vps b) (Or.inl ⟨b, rfl⟩)
      have w := cniRx_wss cfg .vps (decodeVpsCni b) s
      simp only [lineCni, cniStep] at k
      unfold WssStay at w ⊢
      rw [k.2.2.2.2.2.1, k.2.2.2.2.2.2.1, k.2.2.2.2.2.2.2.1]
      exact w
    | ttx b =>
      have k := rxLine_cniStep cfg t s (.ttx b) (Or.inr ⟨b, rfl⟩)
      have w : WssStay s (cniStep cfg s (lineCni s.mask (.ttx b))).1 := by
        cases lineCni s.mask (.ttx b) with
        | none => exact WssStay.refl s
        | some p => exact cniRx_wss cfg p.1 p.2 s
      unfold WssStay at w ⊢
      rw [k.2.2.2.2.2.1, k.2.2.2.2.2.2.1, k.2.2.2.2.2.2.2.1]
      exact w

theorem runAtoms_wss (cfg : Cfg) : ∀ (mid : List Atom) (s : State), (∀ a ∈ mid, a.wssFree = true) →
    WssStay s (runAtoms cfg s mid).1 := by
  intro mid
  induction mid with
  | nil => intro s _; exact WssStay.refl s
  | cons a as ih =>
    intro s hf
    simp only [runAtoms]
    exact WssStay.trans (stepAtom_wss cfg s a (hf a (List.mem_cons_self ..)))
      (ih _ (fun x hx => hf x (List.mem_cons_of_mem _ hx)))

/-- one accepted WSS word -/
theorem rxWss_accept (s : State) (b0 b1 t : Nat) (ht : s.wssTime ≤ t) :
    (rxWss s b0 b1 t).1.wssLast = (b0, b1) ∧ (rxWss s b0 b1 t).1.wssTime = t ∧
    ((rxWss s b0 b1 t).1.wssRep = 0 ∨ (s.wssLast = (b0, b1) ∧ (rxWss s b0 b1 t).1.wssRep = s.wssRep + 1)) := by
  have nt : ¬ t < s.wssTime := by omega
  by_cases hl : (b0, b1) = s.wssLast
  · simp only [rxWss, nt, if_false, hl, ne_eq, not_true_eq_false]
    repeat' split
    all_goals simp
  · simp [rxWss, nt, hl]

/-- an ASPECT event needs the same word stored, seen at least three times before, and valid parity -/
theorem rxWss_event (s : State) (b0 b1 t : Nat) (a : Aspect) (h : Ev.aspect a ∈ (rxWss s b0 b1 t).2) :
    s.wssTime ≤ t ∧ s.wssLast = (b0, b1) ∧ 2 ≤ s.wssRep ∧ wssParityOk b0 = true ∧ a = wssAspect b0 b1 ∧
    a ≠ s.aspect := by
  simp only [rxWss] at h
  repeat' split at h
  all_goals first
    | (simp at h; done)
    | skip
  rename_i h1 h2 h3 h4 h5
  simp at h
  refine ⟨by omega, ?_, ?_, ?_, h, ?_⟩
  · simp at h2; exact h2.symm
  · simp at h3; omega
  · simpa using h4
  · rw [h]; simpa using h5

theorem wssParity_zero : wssParityOk 0 = false := by decide

/-- Full-strength repeat rule for WSS: four accepted words in time order, arbitrary other lines,
    ticks, resets and mask changes in between; an ASPECT event at the fourth needs all four
    identical and the parity of the aspect bits valid. -/
theorem wss_needs_four (cfg : Cfg) (s0 : State) (w1 w2 w3 w4 : Nat × Nat) (t1 t2 t3 t4 : Nat)
    (m1 m2 m3 : List Atom) (f1 : ∀ a ∈ m1, a.wssFree = true) (f2 : ∀ a ∈ m2, a.wssFree = true)
    (f3 : ∀ a ∈ m3, a.wssFree = true) (h0 : s0.wssTime ≤ t1) (h12 : t1 ≤ t2) (h23 : t2 ≤ t3)
    (a : Aspect)
    (hev : Ev.aspect a ∈ (stepAtom cfg (runAtoms cfg s0
        (Atom.line t1 (.wss w1.1 w1.2) :: m1 ++ Atom.line t2 (.wss w2.1 w2.2) :: m2 ++
         Atom.line t3 (.wss w3.1 w3.2) :: m3)).1 (.line t4 (.wss w4.1 w4.2))).2) :
    w1 = w2 ∧ w2 = w3 ∧ w3 = w4 ∧ wssParityOk w4.1 = true ∧ a = wssAspect w4.1 w4.2 := by
  -- name the intermediate states
  have e : (runAtoms cfg s0 (Atom.line t1 (.wss w1.1 w1.2) :: m1 ++ Atom.line t2 (.wss w2.1 w2.2) :: m2 ++
         Atom.line t3 (.wss w3.1 w3.2) :: m3)).1 =
      (runAtoms cfg (rxWss (runAtoms cfg (rxWss (runAtoms cfg (rxWss s0 w1.1 w1.2 t1).1 m1).1 w2.1 w2.2 t2).1 m2).1 w3.1 w3.2 t3).1 m3).1 := by
    rw [show (Atom.line t1 (.wss w1.1 w1.2) :: m1 ++ Atom.line t2 (.wss w2.1 w2.2) :: m2 ++ Atom.line t3 (.wss w3.1 w3.2) :: m3)
        = ([Atom.line t1 (.wss w1.1 w1.2)] ++ m1) ++ (([Atom.line t2 (.wss w2.1 w2.2)] ++ m2) ++ ([Atom.line t3 (.wss w3.1 w3.2)] ++ m3)) by simp]
    simp only [runAtoms_append]
    rfl
  rw [e] at hev
  simp only [stepAtom, rxLine] at hev
  generalize hA : (rxWss s0 w1.1 w1.2 t1).1 = sA at hev
  generalize hA' : (runAtoms cfg sA m1).1 = sA' at hev
  generalize hB : (rxWss sA' w2.1 w2.2 t2).1 = sB at hev
  generalize hB' : (runAtoms cfg sB m2).1 = sB' at hev
  generalize hC : (rxWss sB' w3.1 w3.2 t3).1 = sC at hev
  generalize hC' : (runAtoms cfg sC m3).1 = sC' at hev
  have ev := rxWss_event sC' w4.1 w4.2 t4 a hev
  have nz : w4 ≠ (0, 0) := by
    intro z
    have : w4.1 = 0 := by rw [z]
    rw [this, wssParity_zero] at ev
    exact absurd ev.2.2.2.1 (by simp)
  -- stay relations
  have s1 : WssStay sA sA' := by rw [← hA']; exact runAtoms_wss cfg m1 sA f1
  have s2 : WssStay sB sB' := by rw [← hB']; exact runAtoms_wss cfg m2 sB f2
  have s3 : WssStay sC sC' := by rw [← hC']; exact runAtoms_wss cfg m3 sC f3
  -- accepted words
  have a1 := rxWss_accept s0 w1.1 w1.2 t1 h0
  rw [hA] at a1
  have tA' : sA'.wssTime ≤ t2 := by
    rcases s1 with ⟨_, _, z⟩ | ⟨_, _, z⟩
    · rw [z, a1.2.1]; exact h12
    · rw [z]; exact Nat.zero_le _
  have a2 := rxWss_accept sA' w2.1 w2.2 t2 tA'
  rw [hB] at a2
  have tB' : sB'.wssTime ≤ t3 := by
    rcases s2 with ⟨_, _, z⟩ | ⟨_, _, z⟩
    · rw [z, a2.2.1]; exact h23
    · rw [z]; exact Nat.zero_le _
  have a3 := rxWss_accept sB' w3.1 w3.2 t3 tB'
  rw [hC] at a3
  -- unwind from the event
  have lastC' : sC'.wssLast = w4 := ev.2.1
  have repC' : 2 ≤ sC'.wssRep := ev.2.2.1
  have hC3 : sC.wssLast = w4 ∧ 2 ≤ sC.wssRep := by
    rcases s3 with ⟨x, y, _⟩ | ⟨x, _, _⟩
    · exact ⟨x ▸ lastC', y ▸ repC'⟩
    · exact absurd (x ▸ lastC').symm nz
  have w34 : w3 = w4 := by rw [← hC3.1]; exact a3.1.symm
  have hB3 : sB'.wssLast = w3 ∧ 1 ≤ sB'.wssRep := by
    rcases a3.2.2 with z | ⟨z1, z2⟩
    · have := hC3.2; omega
    · refine ⟨z1, ?_⟩
      have := hC3.2; omega
  have hB2 : sB.wssLast = w3 ∧ 1 ≤ sB.wssRep := by
    rcases s2 with ⟨x, y, _⟩ | ⟨x, _, _⟩
    · exact ⟨x ▸ hB3.1, y ▸ hB3.2⟩
    · exact absurd (show w4 = (0, 0) by rw [← w34, ← hB3.1, x]) nz
  have w23 : w2 = w3 := by rw [← hB2.1]; exact a2.1.symm
  have hA2 : sA'.wssLast = w2 := by
    rcases a2.2.2 with z | ⟨z1, _⟩
    · have := hB2.2; omega
    · exact z1
  have hA1 : sA.wssLast = w2 := by
    rcases s1 with ⟨x, _, _⟩ | ⟨x, _, _⟩
    · exact x ▸ hA2
    · exact absurd (show w4 = (0, 0) by rw [← w34, ← w23, ← hA2, x]) nz
  have w12 : w1 = w2 := by rw [← hA1]; exact a1.1.symm
  exact ⟨w12, w23, w34, ev.2.2.2.1, ev.2.2.2.2.1⟩

end Zvbi.Net
