import ZvbiModel.Net.LemmasStable
/-!
# An identifier is announced only on a reception equal to the previous one of the same carrier
-/
namespace Zvbi.Net
open Zvbi.Hamm Zvbi.Codec Zvbi.Gen

theorem lineCni_some_kind (mask : Nat) (l : Line) (p : Carrier × Nat) (h : lineCni mask l = some p) :
    (∃ b, l = .vps b) ∨ (∃ b, l = .ttx b) := by
  cases l with
  | vps b => exact Or.inl ⟨b, rfl⟩
  | ttx b => exact Or.inr ⟨b, rfl⟩
  | wss _ _ => simp [lineCni] at h
  | xds _ _ => simp [lineCni] at h
  | page _ => simp [lineCni] at h
  | cpr _ => simp [lineCni] at h

theorem ttxCni_carrier (mask : Nat) (b : Buf) (c : Carrier) (v : Nat) (h : ttxCni mask b = some (c, v)) : c ≠ .vps := by
  unfold ttxCni at h
  repeat' split at h
  all_goals first
    | (simp at h; done)
    | (simp at h; intro e; rw [e] at h; simp at h; done)
    | (simp [Option.map] at h; intro e; rw [e] at h; split at h <;> simp at h)
    | skip

theorem xdsNuid_ne_zero (str : List Nat) : xdsNuid str ≠ 0 := by
  unfold xdsNuid
  intro h
  simp only [] at h
  have := @Nat.right_le_or ((List.foldl (fun sum c => sum >>> 7 ^^^ hcrc ((sum ^^^ c) &&& 0x7F)) 0 str) &&& (2 ^ 31 - 1)) (2 ^ 30)
  rw [h] at this
  omega

theorem prologue_net (s : State) (t : Nat) : (prologue s t).1.net = s.net ∨ (prologue s t).1.net = {} := by
  simp only [prologue, chswReset]
  repeat' split
  all_goals simp

theorem eventEnable_net (k : Bool) (s : State) (m : Nat) : (eventEnable k s m).net = s.net ∨ (eventEnable k s m).net = {} := by
  simp only [eventEnable]
  repeat' split
  all_goals simp

theorem rxXds_cni (g : Bool) (s : State) (ty : Nat) (bytes : List Nat) (c : Carrier) :
    cniOf c (rxXds g s ty bytes).1.net = cniOf c s.net := by
  have key : ∀ (s : State) (str : List Nat), (chswReset s (xdsNuid str)).1.net = s.net :=
    fun s str => (chswReset_identified s _ (xdsNuid_ne_zero str)).1
  simp only [rxXds]
  repeat' split
  all_goals (cases c <;> simp [cniOf, key])

/-- an atom that is no reception on carrier `c` leaves the value stored for `c` alone, or wipes it -/
theorem stepAtom_cni_other (cfg : Cfg) (s : State) (a : Atom) (c : Carrier) (h : a.freeOf c = true) :
    cniOf c (stepAtom cfg s a).1.net = cniOf c s.net ∨ cniOf c (stepAtom cfg s a).1.net = 0 := by
  cases a with
  | tick t =>
    rcases prologue_net s t with e | e
    · left; simp only [stepAtom]; rw [e]
    · right; simp only [stepAtom]; rw [e]; cases c <;> rfl
  | mask m =>
    rcases eventEnable_net _ s m with e | e
    · left; simp only [stepAtom]; rw [e]
    · right; simp only [stepAtom]; rw [e]; cases c <;> rfl
  | chsw => left; rfl
  | line t l =>
    simp only [stepAtom]
    cases l with
    | wss b0 b1 => left; rw [show (rxLine cfg t s (.wss b0 b1)).1.net = s.net from (rxWss_keeps s b0 b1 t).1]
    | cpr c0 => left; rw [show (rxLine cfg t s (.cpr c0)).1.net = s.net from (rxCpr_keeps s c0).1]
    | page pgno =>
      left
      simp only [rxLine]
      split <;> rfl
    | xds ty bytes => left; exact rxXds_cni _ s ty bytes c
    | vps b =>
      have k := rxLine_cniStep cfg t s (.vps b) (Or.inl ⟨b, rfl⟩)
      rw [k.1]
      simp only [lineCni, cniStep]
      have hc : c ≠ .vps := by
        intro e; rw [e] at h; simp [Atom.freeOf, Line.freeOf] at h
      exact cniRx_cni_other cfg .vps c _ s hc
    | ttx b =>
      have k := rxLine_cniStep cfg t s (.ttx b) (Or.inr ⟨b, rfl⟩)
      rw [k.1]
      have hc : c = .vps := by
        simp [Atom.freeOf, Line.freeOf] at h; exact h
      cases hq : lineCni s.mask (.ttx b) with
      | none => left; rfl
      | some p =>
        obtain ⟨c', v⟩ := p
        simp only [cniStep]
        have hne : c ≠ c' := by
          rw [hc]; exact fun e => ttxCni_carrier s.mask b c' v hq e.symm
        exact cniRx_cni_other cfg c' c v s hne

theorem runAtoms_cni_other (cfg : Cfg) (c : Carrier) (u : Nat) :
    ∀ (mid : List Atom) (s : State), (∀ a ∈ mid, a.freeOf c = true) → (cniOf c s.net = u ∨ cniOf c s.net = 0) →
      (cniOf c (runAtoms cfg s mid).1.net = u ∨ cniOf c (runAtoms cfg s mid).1.net = 0) := by
  intro mid
  induction mid with
  | nil => intro s _ h; exact h
  | cons a as ih =>
    intro s hf h
    simp only [runAtoms]
    apply ih
    · exact fun x hx => hf x (List.mem_cons_of_mem _ hx)
    · rcases stepAtom_cni_other cfg s a c (hf a (List.mem_cons_self ..)) with e | e
      · rw [e]; exact h
      · right; exact e

/-- a line whose reception differs from the stored value announces nothing -/
theorem line_differs_silent (cfg : Cfg) (t : Nat) (s : State) (l : Line) (c : Carrier) (v : Nat)
    (h : lineCni s.mask l = some (c, v)) (hd : v ≠ cniOf c s.net) : Silent (rxLine cfg t s l).2 := by
  have k := rxLine_cniStep cfg t s l (lineCni_some_kind _ _ _ h)
  obtain ⟨extra, hev, hex⟩ := k.2.2.2.2.2.2.2.2
  rw [hev, h]
  simp only [cniStep, cniRx_change cfg c v s hd]
  exact Silent_append Silent_nil (Silent_extra hex)

theorem needs_repeat_window (cfg : Cfg) (c : Carrier) (u v : Nat) (hne : u ≠ v) (hv0 : v ≠ 0)
    (s0 : State) (t1 : Nat) (l1 : Line) (h1 : lineCni s0.mask l1 = some (c, u))
    (mid : List Atom) (hmid : ∀ a ∈ mid, a.freeOf c = true) (t2 : Nat) (l2 : Line)
    (h2 : lineCni (runAtoms cfg (stepAtom cfg s0 (.line t1 l1)).1 mid).1.mask l2 = some (c, v)) :
    Silent (stepAtom cfg (runAtoms cfg (stepAtom cfg s0 (.line t1 l1)).1 mid).1 (.line t2 l2)).2 := by
  have k := rxLine_cniStep cfg t1 s0 l1 (lineCni_some_kind _ _ _ h1)
  have a1 : cniOf c (stepAtom cfg s0 (.line t1 l1)).1.net = u ∨ cniOf c (stepAtom cfg s0 (.line t1 l1)).1.net = 0 := by
    simp only [stepAtom]
    rw [k.1, h1]
    exact cniRx_cni_self cfg c u s0
  have a2 := runAtoms_cni_other cfg c u mid _ hmid a1
  simp only [stepAtom]
  apply line_differs_silent cfg t2 _ l2 c v h2
  rcases a2 with e | e
  · rw [e]; exact fun x => hne x.symm
  · rw [e]; exact hv0

end Zvbi.Net
