import ZvbiModel.Net.Lemmas
/-!
# Isolated corrupted words are harmless when all carriers of the station resolve to one id
-/
namespace Zvbi.Net
open Zvbi.Hamm Zvbi.Codec Zvbi.Gen

theorem NoNetwork_append {a b : List Ev} (ha : NoNetwork a) (hb : NoNetwork b) : NoNetwork (a ++ b) := by
  intro e he
  rcases List.mem_append.mp he with h | h
  · exact ha e h
  · exact hb e h

theorem setCni_nuid (c : Carrier) (n : Network) (v : Nat) : (setCni c n v).nuid = n.nuid := by
  cases c <;> rfl

theorem NoNetwork_nil : NoNetwork [] := by intro e he; cases he

theorem NoNetwork_extra {extra : List Ev} (h : ∀ e ∈ extra, Ev.isExtra e = true) : NoNetwork extra :=
  fun e he => (extra_not_network e (h e he)).1

theorem Silent_append {a b : List Ev} (ha : Silent a) (hb : Silent b) : Silent (a ++ b) := by
  intro e he
  rcases List.mem_append.mp he with h | h
  · exact ha e h
  · exact hb e h

theorem Silent_nil : Silent [] := by intro e he; cases he

theorem Silent_extra {extra : List Ev} (h : ∀ e ∈ extra, Ev.isExtra e = true) : Silent extra :=
  fun e he => extra_not_network e (h e he)

theorem rxWss_deb (s : State) (b0 b1 t : Nat) : (rxWss s b0 b1 t).1.deb = s.deb := by
  simp only [rxWss]
  repeat' split
  all_goals rfl

/-- the invariant carried through a history of station values and isolated glitches -/
structure GInv (st : Carrier → Nat) (id mask : Nat) (lg : Carrier → Option Nat) (s : State) : Prop where
  nuid : s.net.nuid = id
  cd : s.chswcd = 0
  mask : s.mask = mask
  stored : ∀ c, cniOf c s.net = st c ∨ lg c = some (cniOf c s.net)

/-- one debounce step on a station value -/
theorem ginv_good (cfg : Cfg) (st : Carrier → Nat) (id mask : Nat)
    (lg : Carrier → Option Nat) (s : State) (c : Carrier) (hagree : (cfg.lk c (st c)).1 = id) (inv : GInv st id mask lg s) :
    GInv st id mask (fun c' => if c' = c then none else lg c') (cniRx cfg c (st c) s).1 ∧
    NoNetwork (cniRx cfg c (st c) s).2 ∧ (cniRx cfg c (st c) s).1.cached = s.cached := by
  by_cases h : st c = cniOf c s.net
  · by_cases h2 : pending cfg c s
    · have h3 : (cfg.lk c (st c)).1 = s.net.nuid := by rw [hagree, inv.nuid]
      rw [cniRx_same cfg c (st c) s h h2 h3]
      refine ⟨⟨by rw [markDone_nuid]; exact inv.nuid, by rw [markDone_chswcd]; exact inv.cd,
               by rw [markDone_mask]; exact inv.mask, ?_⟩, ?_, by rw [markDone_cached]⟩
      · intro c'
        simp only [markDone_cniOf, cniOf_name]
        by_cases hc : c' = c
        · left; rw [hc]; exact h.symm
        · simp only [hc, if_false]; exact inv.stored c'
      · intro e he; simp at he; rw [he]; rfl
    · rw [cniRx_idle cfg c (st c) s h h2]
      refine ⟨⟨inv.nuid, inv.cd, inv.mask, ?_⟩, NoNetwork_nil, rfl⟩
      intro c'
      by_cases hc : c' = c
      · left; rw [hc]; exact h.symm
      · simp only [hc, if_false]; exact inv.stored c'
  · rw [cniRx_change cfg c (st c) s h]
    refine ⟨⟨by rw [markChange_nuid]; exact inv.nuid, by rw [markChange_chswcd]; exact inv.cd,
             by rw [markChange_mask]; exact inv.mask, ?_⟩, NoNetwork_nil, by rw [markChange_cached]⟩
    intro c'
    by_cases hc : c' = c
    · left; rw [hc]; exact markChange_cniOf_self cfg c (st c) s
    · simp only [hc, if_false]; rw [markChange_cniOf_other cfg c (st c) s c' hc]; exact inv.stored c'

/-- one debounce step on a deviating value that is not the one stored -/
theorem ginv_glitch (cfg : Cfg) (st : Carrier → Nat) (id mask : Nat)
    (lg : Carrier → Option Nat) (s : State) (c : Carrier) (v : Nat) (hv : v ≠ st c) (hlg : lg c ≠ some v)
    (inv : GInv st id mask lg s) :
    GInv st id mask (fun c' => if c' = c then some v else lg c') (cniRx cfg c v s).1 ∧
    NoNetwork (cniRx cfg c v s).2 ∧ (cniRx cfg c v s).1.cached = s.cached := by
  have h : v ≠ cniOf c s.net := by
    intro e
    rcases inv.stored c with h1 | h1
    · exact hv (e.trans h1)
    · exact hlg (by rw [h1, e])
  rw [cniRx_change cfg c v s h]
  refine ⟨⟨by rw [markChange_nuid]; exact inv.nuid, by rw [markChange_chswcd]; exact inv.cd,
           by rw [markChange_mask]; exact inv.mask, ?_⟩, NoNetwork_nil, by rw [markChange_cached]⟩
  intro c'
  by_cases hc : c' = c
  · right; rw [hc]; simp [markChange_cniOf_self]
  · simp only [hc, if_false]; rw [markChange_cniOf_other cfg c v s c' hc]; exact inv.stored c'

theorem ginv_transport (st : Carrier → Nat) (id mask : Nat) (lg : Carrier → Option Nat) (s s' : State)
    (inv : GInv st id mask lg s) (hn : s'.net = s.net) (hc : s'.chswcd = s.chswcd) (hm : s'.mask = s.mask) :
    GInv st id mask lg s' :=
  ⟨by rw [hn]; exact inv.nuid, by rw [hc]; exact inv.cd, by rw [hm]; exact inv.mask, by rw [hn]; exact inv.stored⟩

/-! ### the per-carrier shape (F11 repaired): no hypothesis about ids -/

/-- invariant of the per-carrier shape: every carrier has announced (or never needed to announce) the station's
    value, and a repeat is awaited only while a deviating word is the stored one -/
structure PInv (cfg : Cfg) (st : Carrier → Nat) (id mask : Nat) (lg : Carrier → Option Nat) (s : State) : Prop where
  nuid : s.net.nuid = id
  cd : s.chswcd = 0
  mask : s.mask = mask
  stored : ∀ c, cniOf c s.net = st c ∨ lg c = some (cniOf c s.net)
  ann : ∀ c, annOf c s.deb = st c
  pend : ∀ c, pending cfg c s → cniOf c s.net ≠ st c

theorem pinv_good (cfg : Cfg) (hp : cfg.perCarrier = true) (st : Carrier → Nat) (id mask : Nat)
    (lg : Carrier → Option Nat) (s : State) (c : Carrier) (inv : PInv cfg st id mask lg s) :
    PInv cfg st id mask (fun c' => if c' = c then none else lg c') (cniRx cfg c (st c) s).1 ∧
    Silent (cniRx cfg c (st c) s).2 ∧ (cniRx cfg c (st c) s).1.cached = s.cached := by
  by_cases h : st c = cniOf c s.net
  · have h2 : ¬ pending cfg c s := fun hpnd => inv.pend c hpnd h.symm
    rw [cniRx_idle cfg c (st c) s h h2]
    refine ⟨⟨inv.nuid, inv.cd, inv.mask, ?_, inv.ann, inv.pend⟩, Silent_nil, rfl⟩
    intro c'
    by_cases hc : c' = c
    · left; rw [hc]; exact h.symm
    · simp only [hc, if_false]; exact inv.stored c'
  · rw [cniRx_change cfg c (st c) s h]
    refine ⟨⟨by rw [markChange_nuid]; exact inv.nuid, by rw [markChange_chswcd]; exact inv.cd,
             by rw [markChange_mask]; exact inv.mask, ?_, ?_, ?_⟩, Silent_nil, by rw [markChange_cached]⟩
    · intro c'
      by_cases hc : c' = c
      · left; rw [hc]; exact markChange_cniOf_self cfg c (st c) s
      · simp only [hc, if_false]; rw [markChange_cniOf_other cfg c (st c) s c' hc]; exact inv.stored c'
    · intro c'; rw [markChange_annOf]; exact inv.ann c'
    · intro c' hpnd
      by_cases hc : c' = c
      · subst hc
        have := (markChange_pending_self cfg c' (st c') s).mp hpnd
        rcases this with e | e
        · rw [hp] at e; cases e
        · exact absurd (inv.ann c').symm e
      · rw [markChange_pending_other cfg c (st c) s c' hc hp] at hpnd
        rw [markChange_cniOf_other cfg c (st c) s c' hc]; exact inv.pend c' hpnd

theorem pinv_glitch (cfg : Cfg) (hp : cfg.perCarrier = true) (st : Carrier → Nat) (id mask : Nat)
    (lg : Carrier → Option Nat) (s : State) (c : Carrier) (v : Nat) (hv : v ≠ st c) (hlg : lg c ≠ some v)
    (inv : PInv cfg st id mask lg s) :
    PInv cfg st id mask (fun c' => if c' = c then some v else lg c') (cniRx cfg c v s).1 ∧
    Silent (cniRx cfg c v s).2 ∧ (cniRx cfg c v s).1.cached = s.cached := by
  have h : v ≠ cniOf c s.net := by
    intro e
    rcases inv.stored c with h1 | h1
    · exact hv (e.trans h1)
    · exact hlg (by rw [h1, e])
  rw [cniRx_change cfg c v s h]
  refine ⟨⟨by rw [markChange_nuid]; exact inv.nuid, by rw [markChange_chswcd]; exact inv.cd,
           by rw [markChange_mask]; exact inv.mask, ?_, ?_, ?_⟩, Silent_nil, by rw [markChange_cached]⟩
  · intro c'
    by_cases hc : c' = c
    · right; rw [hc]; simp [markChange_cniOf_self]
    · simp only [hc, if_false]; rw [markChange_cniOf_other cfg c v s c' hc]; exact inv.stored c'
  · intro c'; rw [markChange_annOf]; exact inv.ann c'
  · intro c' hpnd
    by_cases hc : c' = c
    · subst hc; rw [markChange_cniOf_self]; exact hv
    · rw [markChange_pending_other cfg c v s c' hc hp] at hpnd
      rw [markChange_cniOf_other cfg c v s c' hc]; exact inv.pend c' hpnd

theorem pinv_transport (cfg : Cfg) (st : Carrier → Nat) (id mask : Nat) (lg : Carrier → Option Nat) (s s' : State)
    (inv : PInv cfg st id mask lg s) (hn : s'.net = s.net) (hc : s'.chswcd = s.chswcd) (hm : s'.mask = s.mask)
    (hd : s'.deb = s.deb) : PInv cfg st id mask lg s' :=
  ⟨by rw [hn]; exact inv.nuid, by rw [hc]; exact inv.cd, by rw [hm]; exact inv.mask, by rw [hn]; exact inv.stored,
   by rw [hd]; exact inv.ann,
   by intro c hpnd; rw [hn]; apply inv.pend c; unfold pending at hpnd ⊢; rw [hn, hd] at hpnd; exact hpnd⟩

/-- The induction over atom histories, for any invariant `I` that lives on (network record, countdown, mask,
    per-carrier state), with step lemmas for a station value and for an isolated deviating word, and any
    predicate `Q` on event lists that holds for the empty list and for PROG_ID / LOCAL_TIME / ASPECT events and
    is closed under concatenation. -/
theorem glitch_run_gen (cfg : Cfg) (st : Carrier → Nat) (ok : Carrier → Bool) (id mask : Nat)
    (I : (Carrier → Option Nat) → State → Prop) (Q : List Ev → Prop)
    (Qnil : Q []) (Qapp : ∀ a b, Q a → Q b → Q (a ++ b))
    (Qfree : ∀ l : List Ev, (∀ e ∈ l, e.isNetwork = false ∧ e.isNetworkId = false) → Q l)
    (Ifacts : ∀ lg s, I lg s → s.net.nuid = id ∧ s.chswcd = 0 ∧ s.mask = mask)
    (Itrans : ∀ lg s s', I lg s → s'.net = s.net → s'.chswcd = s.chswcd → s'.mask = s.mask → s'.deb = s.deb → I lg s')
    (Igood : ∀ lg s c, ok c = true → I lg s → I (fun c' => if c' = c then none else lg c') (cniRx cfg c (st c) s).1 ∧
      Q (cniRx cfg c (st c) s).2 ∧ (cniRx cfg c (st c) s).1.cached = s.cached)
    (Iglitch : ∀ lg s c v, v ≠ st c → lg c ≠ some v → I lg s →
      I (fun c' => if c' = c then some v else lg c') (cniRx cfg c v s).1 ∧
      Q (cniRx cfg c v s).2 ∧ (cniRx cfg c v s).1.cached = s.cached) :
    ∀ (atoms : List Atom) (s : State) (lg : Carrier → Option Nat), I lg s →
      RegularFrom s.time atoms → NoRepeatedGlitch st ok mask lg atoms →
      Q (runAtoms cfg s atoms).2 ∧ s.cached ⊆ (runAtoms cfg s atoms).1.cached ∧
      (runAtoms cfg s atoms).1.net.nuid = id := by
  have Qextra : ∀ extra : List Ev, (∀ e ∈ extra, Ev.isExtra e = true) → Q extra :=
    fun extra h => Qfree extra (fun e he => extra_not_network e (h e he))
  intro atoms
  induction atoms with
  | nil => intro s lg inv _ _; exact ⟨Qnil, List.Subset.refl _, (Ifacts lg s inv).1⟩
  | cons a as ih =>
    intro s lg inv hreg hg
    have hcd := (Ifacts lg s inv).2.1
    have hmask := (Ifacts lg s inv).2.2
    cases a with
    | tick t =>
      simp only [RegularFrom] at hreg
      simp only [NoRepeatedGlitch] at hg
      have hp := prologue_regular s t hcd hreg.1
      simp only [runAtoms, stepAtom, hp]
      have inv' : I lg { s with time := if t > s.time then t else s.time } :=
        Itrans lg s _ inv rfl rfl rfl rfl
      have r := ih _ lg inv' hreg.2 hg
      exact ⟨Qapp _ _ Qnil r.1, r.2.1, r.2.2⟩
    | mask m => simp [NoRepeatedGlitch] at hg
    | chsw => simp [NoRepeatedGlitch] at hg
    | line t l =>
      simp only [RegularFrom] at hreg
      simp only [NoRepeatedGlitch] at hg
      simp only [runAtoms, stepAtom]
      cases l with
      | xds ty bytes => exact absurd hg.1 (by simp)
      | wss b0 b1 =>
        have k := rxWss_keeps s b0 b1 t
        have hg2 := hg.2
        simp only [lineCni] at hg2
        have inv' : I lg (rxLine cfg t s (.wss b0 b1)).1 :=
          Itrans lg s _ inv k.1 k.2.2.1 k.2.2.2.1 (rxWss_deb s b0 b1 t)
        have ht : (rxLine cfg t s (.wss b0 b1)).1.time = s.time := k.2.2.2.2.1
        have r := ih _ lg inv' (by rw [ht]; exact hreg) hg2
        refine ⟨Qapp _ _ (Qfree _ k.2.2.2.2.2) r.1, ?_, r.2.2⟩
        have hc : (rxLine cfg t s (.wss b0 b1)).1.cached = s.cached := k.2.1
        rw [← hc]; exact r.2.1
      | cpr c0 =>
        have k := rxCpr_keeps s c0
        have hg2 := hg.2
        simp only [lineCni] at hg2
        have inv' : I lg (rxLine cfg t s (.cpr c0)).1 :=
          Itrans lg s _ inv k.1 k.2.2.1 k.2.2.2.1 (rxCpr_rest s c0).1
        have ht : (rxLine cfg t s (.cpr c0)).1.time = s.time := k.2.2.2.2.1
        have r := ih _ lg inv' (by rw [ht]; exact hreg) hg2
        refine ⟨Qapp _ _ (Qfree _ k.2.2.2.2.2) r.1, ?_, r.2.2⟩
        have hc : (rxLine cfg t s (.cpr c0)).1.cached = s.cached := k.2.1
        rw [← hc]; exact r.2.1
      | page pgno =>
        have hg2 := hg.2
        simp only [lineCni] at hg2
        rcases (rxLine_page cfg t s pgno).symm with e | e
        · rw [e]
          have inv' : I lg { s with cached := if s.cached.contains pgno then s.cached else pgno :: s.cached } :=
            Itrans lg s _ inv rfl rfl rfl rfl
          have r := ih _ lg inv' hreg hg2
          refine ⟨Qapp _ _ Qnil r.1, ?_, r.2.2⟩
          refine List.Subset.trans ?_ r.2.1
          intro x hx
          simp only []
          split
          · exact hx
          · exact List.mem_cons_of_mem _ hx
        · rw [e]
          have r := ih _ lg inv hreg hg2
          exact ⟨Qapp _ _ Qnil r.1, r.2.1, r.2.2⟩
      | vps b =>
        have k := rxLine_cniStep cfg t s (.vps b) (Or.inl ⟨b, rfl⟩)
        have kd := rxLine_cniStep_deb cfg t s (.vps b) (Or.inl ⟨b, rfl⟩)
        have hg2 := hg.2
        rw [← hmask] at hg2
        obtain ⟨extra, hev, hex⟩ := k.2.2.2.2.2.2.2.2
        generalize hq : lineCni s.mask (Line.vps b) = q at k kd hg2 hev
        cases q with
        | none => simp [lineCni] at hq
        | some p =>
          obtain ⟨c, v⟩ := p
          simp only [cniStep] at k kd hev
          simp only [] at hg2
          by_cases hv : v = st c
          · simp only [hv, if_true] at hg2
            have g := Igood lg s c hg2.1 inv
            rw [hv] at k kd hev
            have inv' : I (fun c' => if c' = c then none else lg c') (rxLine cfg t s (.vps b)).1 :=
              Itrans _ _ _ g.1 k.1 k.2.2.1 (by rw [k.2.2.2.1, cniRx_mask]) kd
            have r := ih _ _ inv' (by rw [k.2.2.2.2.1]; exact hreg) (by have := hg2.2; rw [hmask] at this; exact this)
            refine ⟨?_, ?_, r.2.2⟩
            · rw [hev]; exact Qapp _ _ (Qapp _ _ g.2.1 (Qextra _ hex)) r.1
            · have hc : (rxLine cfg t s (.vps b)).1.cached = s.cached := by rw [k.2.1, g.2.2]
              rw [← hc]; exact r.2.1
          · simp only [hv, if_false] at hg2
            have g := Iglitch lg s c v hv hg2.1 inv
            have inv' : I (fun c' => if c' = c then some v else lg c') (rxLine cfg t s (.vps b)).1 :=
              Itrans _ _ _ g.1 k.1 k.2.2.1 (by rw [k.2.2.2.1, cniRx_mask]) kd
            have r := ih _ _ inv' (by rw [k.2.2.2.2.1]; exact hreg) (by have := hg2.2; rw [hmask] at this; exact this)
            refine ⟨?_, ?_, r.2.2⟩
            · rw [hev]; exact Qapp _ _ (Qapp _ _ g.2.1 (Qextra _ hex)) r.1
            · have hc : (rxLine cfg t s (.vps b)).1.cached = s.cached := by rw [k.2.1, g.2.2]
              rw [← hc]; exact r.2.1
      | ttx b =>
        have k := rxLine_cniStep cfg t s (.ttx b) (Or.inr ⟨b, rfl⟩)
        have kd := rxLine_cniStep_deb cfg t s (.ttx b) (Or.inr ⟨b, rfl⟩)
        have hg2 := hg.2
        rw [← hmask] at hg2
        obtain ⟨extra, hev, hex⟩ := k.2.2.2.2.2.2.2.2
        generalize hq : lineCni s.mask (Line.ttx b) = q at k kd hg2 hev
        cases q with
        | none =>
          simp only [cniStep] at k kd hev
          simp only [] at hg2
          have inv' : I lg (rxLine cfg t s (.ttx b)).1 :=
            Itrans _ _ _ inv k.1 k.2.2.1 k.2.2.2.1 kd
          have r := ih _ _ inv' (by rw [k.2.2.2.2.1]; exact hreg) (by rw [hmask] at hg2; exact hg2)
          refine ⟨?_, ?_, r.2.2⟩
          · rw [hev]; exact Qapp _ _ (Qapp _ _ Qnil (Qextra _ hex)) r.1
          · have hc : (rxLine cfg t s (.ttx b)).1.cached = s.cached := k.2.1
            rw [← hc]; exact r.2.1
        | some p =>
          obtain ⟨c, v⟩ := p
          simp only [cniStep] at k kd hev
          simp only [] at hg2
          by_cases hv : v = st c
          · simp only [hv, if_true] at hg2
            have g := Igood lg s c hg2.1 inv
            rw [hv] at k kd hev
            have inv' : I (fun c' => if c' = c then none else lg c') (rxLine cfg t s (.ttx b)).1 :=
              Itrans _ _ _ g.1 k.1 k.2.2.1 (by rw [k.2.2.2.1, cniRx_mask]) kd
            have r := ih _ _ inv' (by rw [k.2.2.2.2.1]; exact hreg) (by have := hg2.2; rw [hmask] at this; exact this)
            refine ⟨?_, ?_, r.2.2⟩
            · rw [hev]; exact Qapp _ _ (Qapp _ _ g.2.1 (Qextra _ hex)) r.1
            · have hc : (rxLine cfg t s (.ttx b)).1.cached = s.cached := by rw [k.2.1, g.2.2]
              rw [← hc]; exact r.2.1
          · simp only [hv, if_false] at hg2
            have g := Iglitch lg s c v hv hg2.1 inv
            have inv' : I (fun c' => if c' = c then some v else lg c') (rxLine cfg t s (.ttx b)).1 :=
              Itrans _ _ _ g.1 k.1 k.2.2.1 (by rw [k.2.2.2.1, cniRx_mask]) kd
            have r := ih _ _ inv' (by rw [k.2.2.2.2.1]; exact hreg) (by have := hg2.2; rw [hmask] at this; exact this)
            refine ⟨?_, ?_, r.2.2⟩
            · rw [hev]; exact Qapp _ _ (Qapp _ _ g.2.1 (Qextra _ hex)) r.1
            · have hc : (rxLine cfg t s (.ttx b)).1.cached = s.cached := by rw [k.2.1, g.2.2]
              rw [← hc]; exact r.2.1

/-- either shape, with the hypothesis that the carriers received with their station value resolve to one id -/
theorem glitch_run (cfg : Cfg) (st : Carrier → Nat) (ok : Carrier → Bool) (id mask : Nat)
    (hagree : ∀ c, ok c = true → (cfg.lk c (st c)).1 = id) :
    ∀ (atoms : List Atom) (s : State) (lg : Carrier → Option Nat), GInv st id mask lg s →
      RegularFrom s.time atoms → NoRepeatedGlitch st ok mask lg atoms →
      NoNetwork (runAtoms cfg s atoms).2 ∧ s.cached ⊆ (runAtoms cfg s atoms).1.cached ∧
      (runAtoms cfg s atoms).1.net.nuid = id :=
  glitch_run_gen cfg st ok id mask (GInv st id mask) NoNetwork NoNetwork_nil (fun _ _ => NoNetwork_append)
    (fun _ h e he => (h e he).1)
    (fun _ _ inv => ⟨inv.nuid, inv.cd, inv.mask⟩)
    (fun lg s s' inv hn hc hm _ => ginv_transport st id mask lg s s' inv hn hc hm)
    (fun lg s c hok inv => ginv_good cfg st id mask lg s c (hagree c hok) inv)
    (fun lg s c v hv hlg inv => ginv_glitch cfg st id mask lg s c v hv hlg inv)

/-- the per-carrier shape: no hypothesis about ids, and not even NETWORK_ID is raised -/
theorem glitch_run_per (cfg : Cfg) (hp : cfg.perCarrier = true) (st : Carrier → Nat) (id mask : Nat) :
    ∀ (atoms : List Atom) (s : State) (lg : Carrier → Option Nat), PInv cfg st id mask lg s →
      RegularFrom s.time atoms → NoRepeatedGlitch st (fun _ => true) mask lg atoms →
      Silent (runAtoms cfg s atoms).2 ∧ s.cached ⊆ (runAtoms cfg s atoms).1.cached ∧
      (runAtoms cfg s atoms).1.net.nuid = id :=
  glitch_run_gen cfg st (fun _ => true) id mask (PInv cfg st id mask) Silent Silent_nil (fun _ _ => Silent_append)
    (fun _ h => h)
    (fun _ _ inv => ⟨inv.nuid, inv.cd, inv.mask⟩)
    (fun lg s s' inv hn hc hm hd => pinv_transport cfg st id mask lg s s' inv hn hc hm hd)
    (fun lg s c _ inv => pinv_good cfg hp st id mask lg s c inv)
    (fun lg s c v hv hlg inv => pinv_glitch cfg hp st id mask lg s c v hv hlg inv)

end Zvbi.Net
