import ZvbiModel.Net.Lemmas
/-!
# Isolated corrupted words are harmless when all carriers of the station resolve to one id
-/
namespace Zvbi.Net
open Zvbi.Hamm Zvbi.Codec Zvbi.Gen

theorem NoNetwork_append {a b : List Ev} (ha : NoNetwork a) (hb : NoNetwork b) : NoNetwork (a ++ b) := by
  intro e he
  rcases List.mem_append.mp he with h | h
  · exact ha e h
  · exact hb e h

theorem setCni_nuid (c : Carrier) (n : Network) (v : Nat) : (setCni c n v).nuid = n.nuid := by
  cases c <;> rfl

theorem NoNetwork_nil : NoNetwork [] := by intro e he; cases he

theorem NoNetwork_extra {extra : List Ev} (h : ∀ e ∈ extra, Ev.isExtra e = true) : NoNetwork extra :=
  fun e he => (extra_not_network e (h e he)).1

/-- the invariant carried through a history of station values and isolated glitches -/
structure GInv (st : Carrier → Nat) (id mask : Nat) (lg : Carrier → Option Nat) (s : State) : Prop where
  nuid : s.net.nuid = id
  cd : s.chswcd = 0
  mask : s.mask = mask
  stored : ∀ c, cniOf c s.net = st c ∨ lg c = some (cniOf c s.net)

/-- one debounce step on a station value -/
theorem ginv_good (lk : Lookup) (st : Carrier → Nat) (id mask : Nat)
    (lg : Carrier → Option Nat) (s : State) (c : Carrier) (hagree : (lk c (st c)).1 = id) (inv : GInv st id mask lg s) :
    GInv st id mask (fun c' => if c' = c then none else lg c') (cniRx lk c (st c) s).1 ∧
    NoNetwork (cniRx lk c (st c) s).2 ∧ (cniRx lk c (st c) s).1.cached = s.cached := by
  by_cases h : st c = cniOf c s.net
  · by_cases h2 : s.net.cycle = 1
    · have h3 : (lk c (st c)).1 = s.net.nuid := by rw [hagree, inv.nuid]
      rw [cniRx_same lk c (st c) s h h2 h3]
      refine ⟨⟨inv.nuid, inv.cd, inv.mask, ?_⟩, ?_, rfl⟩
      · intro c'
        simp only [cniOf_name_cycle]
        by_cases hc : c' = c
        · left; rw [hc]; exact h.symm
        · simp only [hc, if_false]; exact inv.stored c'
      · intro e he; simp at he; rw [he]; rfl
    · rw [cniRx_idle lk c (st c) s h h2]
      refine ⟨⟨inv.nuid, inv.cd, inv.mask, ?_⟩, NoNetwork_nil, rfl⟩
      intro c'
      by_cases hc : c' = c
      · left; rw [hc]; exact h.symm
      · simp only [hc, if_false]; exact inv.stored c'
  · rw [cniRx_change lk c (st c) s h]
    refine ⟨⟨by show (setCni c s.net (st c)).nuid = id; rw [setCni_nuid]; exact inv.nuid, inv.cd, inv.mask, ?_⟩, NoNetwork_nil, rfl⟩
    intro c'
    simp only [cniOf_cycle]
    by_cases hc : c' = c
    · left; rw [hc]; exact cniOf_setCni_self c s.net (st c)
    · simp only [hc, if_false]; rw [cniOf_setCni_other c c' s.net (st c) hc]; exact inv.stored c'

/-- one debounce step on a deviating value that is not the one stored -/
theorem ginv_glitch (lk : Lookup) (st : Carrier → Nat) (id mask : Nat)
    (lg : Carrier → Option Nat) (s : State) (c : Carrier) (v : Nat) (hv : v ≠ st c) (hlg : lg c ≠ some v)
    (inv : GInv st id mask lg s) :
    GInv st id mask (fun c' => if c' = c then some v else lg c') (cniRx lk c v s).1 ∧
    NoNetwork (cniRx lk c v s).2 ∧ (cniRx lk c v s).1.cached = s.cached := by
  have h : v ≠ cniOf c s.net := by
    intro e
    rcases inv.stored c with h1 | h1
    · exact hv (e.trans h1)
    · exact hlg (by rw [h1, e])
  rw [cniRx_change lk c v s h]
  refine ⟨⟨by show (setCni c s.net v).nuid = id; rw [setCni_nuid]; exact inv.nuid, inv.cd, inv.mask, ?_⟩, NoNetwork_nil, rfl⟩
  intro c'
  simp only [cniOf_cycle]
  by_cases hc : c' = c
  · right; rw [hc]; simp [cniOf_setCni_self]
  · simp only [hc, if_false]; rw [cniOf_setCni_other c c' s.net v hc]; exact inv.stored c'

theorem ginv_transport (st : Carrier → Nat) (id mask : Nat) (lg : Carrier → Option Nat) (s s' : State)
    (inv : GInv st id mask lg s) (hn : s'.net = s.net) (hc : s'.chswcd = s.chswcd) (hm : s'.mask = s.mask) :
    GInv st id mask lg s' :=
  ⟨by rw [hn]; exact inv.nuid, by rw [hc]; exact inv.cd, by rw [hm]; exact inv.mask, by rw [hn]; exact inv.stored⟩

theorem glitch_run (cfg : Cfg) (st : Carrier → Nat) (ok : Carrier → Bool) (id mask : Nat)
    (hagree : ∀ c, ok c = true → (cfg.lk c (st c)).1 = id) :
    ∀ (atoms : List Atom) (s : State) (lg : Carrier → Option Nat), GInv st id mask lg s →
      RegularFrom s.time atoms → NoRepeatedGlitch st ok mask lg atoms →
      NoNetwork (runAtoms cfg s atoms).2 ∧ s.cached ⊆ (runAtoms cfg s atoms).1.cached ∧
      (runAtoms cfg s atoms).1.net.nuid = id := by
  intro atoms
  induction atoms with
  | nil => intro s lg inv _ _; exact ⟨NoNetwork_nil, List.Subset.refl _, inv.nuid⟩
  | cons a as ih =>
    intro s lg inv hreg hg
    cases a with
    | tick t =>
      simp only [RegularFrom] at hreg
      simp only [NoRepeatedGlitch] at hg
      have hp := prologue_regular s t inv.cd hreg.1
      simp only [runAtoms, stepAtom, hp]
      have inv' : GInv st id mask lg { s with time := if t > s.time then t else s.time } :=
        ginv_transport st id mask lg s _ inv rfl rfl rfl
      have r := ih _ lg inv' hreg.2 hg
      exact ⟨NoNetwork_append NoNetwork_nil r.1, r.2.1, r.2.2⟩
    | mask m => simp [NoRepeatedGlitch] at hg
    | chsw => simp [NoRepeatedGlitch] at hg
    | line t l =>
      simp only [RegularFrom] at hreg
      simp only [NoRepeatedGlitch] at hg
      simp only [runAtoms, stepAtom]
      cases l with
      | xds ty bytes => exact absurd hg.1 (by simp)
      | wss b0 b1 =>
        have k := rxWss_keeps s b0 b1 t
        have hg2 := hg.2
        simp only [lineCni] at hg2
        have inv' : GInv st id mask lg (rxLine cfg t s (.wss b0 b1)).1 :=
          ginv_transport st id mask lg s _ inv k.1 k.2.2.1 k.2.2.2.1
        have ht : (rxLine cfg t s (.wss b0 b1)).1.time = s.time := k.2.2.2.2.1
        have r := ih _ lg inv' (by rw [ht]; exact hreg) hg2
        refine ⟨NoNetwork_append (fun e he => (k.2.2.2.2.2 e he).1) r.1, ?_, r.2.2⟩
        have hc : (rxLine cfg t s (.wss b0 b1)).1.cached = s.cached := k.2.1
        rw [← hc]; exact r.2.1
      | page pgno =>
        have hg2 := hg.2
        simp only [lineCni] at hg2
        rcases (rxLine_page cfg t s pgno).symm with e | e
        · rw [e]
          have inv' : GInv st id mask lg { s with cached := if s.cached.contains pgno then s.cached else pgno :: s.cached } :=
            ginv_transport st id mask lg s _ inv rfl rfl rfl
          have r := ih _ lg inv' hreg hg2
          refine ⟨NoNetwork_append NoNetwork_nil r.1, ?_, r.2.2⟩
          refine List.Subset.trans ?_ r.2.1
          intro x hx
          simp only []
          split
          · exact hx
          · exact List.mem_cons_of_mem _ hx
        · rw [e]
          have r := ih _ lg inv hreg hg2
          exact ⟨NoNetwork_append NoNetwork_nil r.1, r.2.1, r.2.2⟩
      | vps b =>
        have k := rxLine_cniStep cfg t s (.vps b) (Or.inl ⟨b, rfl⟩)
        have hg2 := hg.2
        rw [← inv.mask] at hg2
        obtain ⟨extra, hev, hex⟩ := k.2.2.2.2.2.2.2.2
        generalize hq : lineCni s.mask (Line.vps b) = q at k hg2 hev
        cases q with
        | none => simp [lineCni] at hq
        | some p =>
          obtain ⟨c, v⟩ := p
          simp only [cniStep] at k hev
          simp only [] at hg2
          by_cases hv : v = st c
          · simp only [hv, if_true] at hg2
            have g := ginv_good cfg.lk st id mask lg s c (hagree c hg2.1) inv
            rw [hv] at k hev
            have inv' : GInv st id mask (fun c' => if c' = c then none else lg c') (rxLine cfg t s (.vps b)).1 :=
              ginv_transport st id mask _ _ _ g.1 k.1 k.2.2.1 (by rw [k.2.2.2.1, cniRx_mask])
            have r := ih _ _ inv' (by rw [k.2.2.2.2.1]; exact hreg) (by have := hg2.2; rw [inv.mask] at this; exact this)
            refine ⟨?_, ?_, r.2.2⟩
            · rw [hev]; exact NoNetwork_append (NoNetwork_append g.2.1 (NoNetwork_extra hex)) r.1
            · have hc : (rxLine cfg t s (.vps b)).1.cached = s.cached := by rw [k.2.1, g.2.2]
              rw [← hc]; exact r.2.1
          · simp only [hv, if_false] at hg2
            have g := ginv_glitch cfg.lk st id mask lg s c v hv hg2.1 inv
            have inv' : GInv st id mask (fun c' => if c' = c then some v else lg c') (rxLine cfg t s (.vps b)).1 :=
              ginv_transport st id mask _ _ _ g.1 k.1 k.2.2.1 (by rw [k.2.2.2.1, cniRx_mask])
            have r := ih _ _ inv' (by rw [k.2.2.2.2.1]; exact hreg) (by have := hg2.2; rw [inv.mask] at this; exact this)
            refine ⟨?_, ?_, r.2.2⟩
            · rw [hev]; exact NoNetwork_append (NoNetwork_append g.2.1 (NoNetwork_extra hex)) r.1
            · have hc : (rxLine cfg t s (.vps b)).1.cached = s.cached := by rw [k.2.1, g.2.2]
              rw [← hc]; exact r.2.1
      | ttx b =>
        have k := rxLine_cniStep cfg t s (.ttx b) (Or.inr ⟨b, rfl⟩)
        have hg2 := hg.2
        rw [← inv.mask] at hg2
        obtain ⟨extra, hev, hex⟩ := k.2.2.2.2.2.2.2.2
        generalize hq : lineCni s.mask (Line.ttx b) = q at k hg2 hev
        cases q with
        | none =>
          simp only [cniStep] at k hev
          simp only [] at hg2
          have inv' : GInv st id mask lg (rxLine cfg t s (.ttx b)).1 :=
            ginv_transport st id mask _ _ _ inv k.1 k.2.2.1 k.2.2.2.1
          have r := ih _ _ inv' (by rw [k.2.2.2.2.1]; exact hreg) (by rw [inv.mask] at hg2; exact hg2)
          refine ⟨?_, ?_, r.2.2⟩
          · rw [hev]; exact NoNetwork_append (NoNetwork_append NoNetwork_nil (NoNetwork_extra hex)) r.1
          · have hc : (rxLine cfg t s (.ttx b)).1.cached = s.cached := k.2.1
            rw [← hc]; exact r.2.1
        | some p =>
          obtain ⟨c, v⟩ := p
          simp only [cniStep] at k hev
          simp only [] at hg2
          by_cases hv : v = st c
          · simp only [hv, if_true] at hg2
            have g := ginv_good cfg.lk st id mask lg s c (hagree c hg2.1) inv
            rw [hv] at k hev
            have inv' : GInv st id mask (fun c' => if c' = c then none else lg c') (rxLine cfg t s (.ttx b)).1 :=
              ginv_transport st id mask _ _ _ g.1 k.1 k.2.2.1 (by rw [k.2.2.2.1, cniRx_mask])
            have r := ih _ _ inv' (by rw [k.2.2.2.2.1]; exact hreg) (by have := hg2.2; rw [inv.mask] at this; exact this)
            refine ⟨?_, ?_, r.2.2⟩
            · rw [hev]; exact NoNetwork_append (NoNetwork_append g.2.1 (NoNetwork_extra hex)) r.1
            · have hc : (rxLine cfg t s (.ttx b)).1.cached = s.cached := by rw [k.2.1, g.2.2]
              rw [← hc]; exact r.2.1
          · simp only [hv, if_false] at hg2
            have g := ginv_glitch cfg.lk st id mask lg s c v hv hg2.1 inv
            have inv' : GInv st id mask (fun c' => if c' = c then some v else lg c') (rxLine cfg t s (.ttx b)).1 :=
              ginv_transport st id mask _ _ _ g.1 k.1 k.2.2.1 (by rw [k.2.2.2.1, cniRx_mask])
            have r := ih _ _ inv' (by rw [k.2.2.2.2.1]; exact hreg) (by have := hg2.2; rw [inv.mask] at this; exact this)
            refine ⟨?_, ?_, r.2.2⟩
            · rw [hev]; exact NoNetwork_append (NoNetwork_append g.2.1 (NoNetwork_extra hex)) r.1
            · have hc : (rxLine cfg t s (.ttx b)).1.cached = s.cached := by rw [k.2.1, g.2.2]
              rw [← hc]; exact r.2.1

end Zvbi.Net
