import ZvbiModel.Net.LemmasGap
/-!
# Every field of the ASPECT event raised by `vbi_chsw_reset`, and what `aspect_source` records

`vbi_chsw_reset` (vbi.c:529) announces "full format" when it forgets an aspect ratio: lines 23..310 when the
record came from a 625-line WSS word (`aspect_source == 1`), lines 22..262 otherwise (CPR-1204 word,
`aspect_source == 2`; XDS, 3, is not fed).  `SrcInv` is the invariant that ties the source number to the
line kind that stored the record; it holds along every history (`runAtoms_srcInv`).
-/
namespace Zvbi.Net
open Zvbi.Hamm Zvbi.Codec Zvbi.Gen

/-- across a step the aspect record and its source stay, or a reset cleared the source -/
def AspStay (s s' : State) : Prop :=
  (s'.aspect = s.aspect ∧ s'.aspectSource = s.aspectSource) ∨ s'.aspectSource = 0

theorem chswReset_src (s : State) (id : Nat) : (chswReset s id).1.aspectSource = 0 := by
  simp only [chswReset]
  repeat' split
  all_goals simp

/-- the ASPECT events of `vbi_chsw_reset`: exactly one, iff a source is recorded, with the record `chswAspect` -/
theorem chswReset_aspect_events (s : State) (id : Nat) (a : Aspect) :
    Ev.aspect a ∈ (chswReset s id).2 ↔ (s.aspectSource > 0 ∧ a = chswAspect s.aspectSource) := by
  unfold chswReset
  by_cases hid : id = 0 <;> by_cases hn : s.net.nuid = 0 <;> by_cases hs : s.aspectSource > 0 <;> simp [hid, hn, hs]

theorem cniRx_asp (cfg : Cfg) (c : Carrier) (v : Nat) (s : State) : AspStay s (cniRx cfg c v s).1 := by
  apply cniRx_cases cfg c v s (fun r => AspStay s r.1)
  · intro _; exact Or.inl ⟨markChange_aspect .., markChange_aspectSource ..⟩
  · intro _ _; exact Or.inl ⟨rfl, rfl⟩
  · intro _ _ _; exact Or.inl ⟨markDone_aspect .., markDone_aspectSource ..⟩
  · intro _ _ _ _; exact Or.inl ⟨markDone_aspect .., markDone_aspectSource ..⟩
  · intro _ _ _ _ _; exact Or.inr (markDone_aspectSource ..)
  · intro _ _ _ _ _; exact Or.inr (markDone_aspectSource ..)

theorem rxXds_asp (g : Bool) (s : State) (ty : Nat) (bytes : List Nat) : AspStay s (rxXds g s ty bytes).1 := by
  have key := chswReset_src
  simp only [rxXds, AspStay]
  repeat' split
  all_goals first
    | (left; exact ⟨rfl, rfl⟩)
    | (right; simp [key])

theorem prologue_asp (s : State) (t : Nat) : AspStay s (prologue s t).1 := by
  have key := chswReset_src
  simp only [prologue, AspStay]
  repeat' split
  all_goals first
    | (left; exact ⟨rfl, rfl⟩)
    | (right; simp [key])

theorem eventEnable_asp (k : Bool) (s : State) (m : Nat) : AspStay s (eventEnable k s m) := by
  simp only [eventEnable, AspStay]
  repeat' split
  all_goals first
    | (left; exact ⟨rfl, rfl⟩)
    | (right; rfl)

/-- lines that store an aspect record: WSS-625 and CPR-1204 words -/
def Line.aspFree : Line → Bool
  | .wss _ _ => false
  | .cpr _ => false
  | _ => true

def Atom.aspFree : Atom → Bool
  | .line _ l => l.aspFree
  | _ => true

theorem stepAtom_asp (cfg : Cfg) (s : State) (a : Atom) (h : a.aspFree = true) : AspStay s (stepAtom cfg s a).1 := by
  cases a with
  | tick t => exact prologue_asp s t
  | mask m => exact eventEnable_asp _ s m
  | chsw => exact Or.inl ⟨rfl, rfl⟩
  | line t l =>
    simp only [stepAtom]
    cases l with
    | wss b0 b1 => simp [Atom.aspFree, Line.aspFree] at h
    | cpr c0 => simp [Atom.aspFree, Line.aspFree] at h
    | page pgno =>
      simp only [rxLine]
      split <;> exact Or.inl ⟨rfl, rfl⟩
    | xds ty bytes => exact rxXds_asp _ s ty bytes
    | vps b =>
      have e := (rxVps_eq cfg s b).1
      have w := cniRx_asp cfg .vps (decodeVpsCni b) s
      have ea : (rxVps cfg s b).1.aspect = (cniRx cfg .vps (decodeVpsCni b) s).1.aspect := by rw [e]
      have es : (rxVps cfg s b).1.aspectSource = (cniRx cfg .vps (decodeVpsCni b) s).1.aspectSource := by rw [e]
      unfold AspStay at w ⊢
      simp only [rxLine]
      rw [ea, es]
      exact w
    | ttx b =>
      have e := (rxTtx_eq cfg s b).1
      have w : AspStay s (cniStep cfg s (ttxCni s.mask b)).1 := by
        cases ttxCni s.mask b with
        | none => exact Or.inl ⟨rfl, rfl⟩
        | some p => exact cniRx_asp cfg p.1 p.2 s
      simp only [rxLine]
      rw [e]
      exact w

/-- what `aspect_source` records: 0 = nothing to forget, 1 = the record was stored by a WSS-625 word,
    2 = by a CPR-1204 word -/
def SrcInv (s : State) : Prop :=
  s.aspectSource = 0 ∨ (s.aspectSource = 1 ∧ ∃ b0 b1, s.aspect = wssAspect b0 b1) ∨
  (s.aspectSource = 2 ∧ ∃ b0, s.aspect = cprAspect b0)

theorem SrcInv_of_stay {s s' : State} (h : AspStay s s') (i : SrcInv s) : SrcInv s' := by
  rcases h with ⟨ha, hs⟩ | h0
  · unfold SrcInv
    rw [ha, hs]
    exact i
  · exact Or.inl h0

theorem rxWss_srcInv (s : State) (b0 b1 t : Nat) (i : SrcInv s) : SrcInv (rxWss s b0 b1 t).1 := by
  simp only [rxWss]
  repeat' split
  all_goals first
    | exact i
    | exact Or.inr (Or.inl ⟨rfl, b0, b1, rfl⟩)

theorem rxCpr_srcInv (s : State) (b0 : Nat) (i : SrcInv s) : SrcInv (rxCpr s b0).1 := by
  simp only [rxCpr]
  repeat' split
  all_goals first
    | exact i
    | exact Or.inr (Or.inr ⟨rfl, b0, rfl⟩)

theorem stepAtom_srcInv (cfg : Cfg) (s : State) (a : Atom) (i : SrcInv s) : SrcInv (stepAtom cfg s a).1 := by
  by_cases h : a.aspFree = true
  · exact SrcInv_of_stay (stepAtom_asp cfg s a h) i
  · cases a with
    | line t l =>
      simp only [stepAtom]
      cases l with
      | wss b0 b1 => exact rxWss_srcInv s b0 b1 t i
      | cpr c0 => exact rxCpr_srcInv s c0 i
      | vps b => exact absurd rfl h
      | ttx b => exact absurd rfl h
      | xds ty bytes => exact absurd rfl h
      | page p => exact absurd rfl h
    | tick t => exact absurd rfl h
    | mask m => exact absurd rfl h
    | chsw => exact absurd rfl h

theorem runAtoms_srcInv (cfg : Cfg) : ∀ (atoms : List Atom) (s : State), SrcInv s → SrcInv (runAtoms cfg s atoms).1 := by
  intro atoms
  induction atoms with
  | nil => intro s i; exact i
  | cons a as ih =>
    intro s i
    simp only [runAtoms]
    exact ih _ (stepAtom_srcInv cfg s a i)

/-- events of a WSS-625 / CPR-1204 word: none, or ASPECT followed by PROG_INFO with the same record -/
theorem rxWss_events (s : State) (b0 b1 t : Nat) :
    (rxWss s b0 b1 t).2 = [] ∨ (rxWss s b0 b1 t).2 = [Ev.aspect (wssAspect b0 b1), Ev.progInfo (wssAspect b0 b1)] := by
  simp only [rxWss]
  repeat' split
  all_goals simp

theorem rxCpr_events (s : State) (b0 : Nat) :
    ((rxCpr s b0).2 = [] ∧ cprAspect b0 = s.aspect ∧ (rxCpr s b0).1 = s) ∨
    ((rxCpr s b0).2 = [Ev.aspect (cprAspect b0), Ev.progInfo (cprAspect b0)] ∧ cprAspect b0 ≠ s.aspect ∧
     (rxCpr s b0).1.aspect = cprAspect b0 ∧ (rxCpr s b0).1.aspectSource = 2) := by
  unfold rxCpr
  by_cases hne : cprAspect b0 = s.aspect
  · left; simp [hne]
  · right; simp [hne]

/-- the reception an 8/30 format 1 packet constitutes carries the CNI of bytes 9 / 10 -/
theorem ttxCni_p8301 (mask : Nat) (b : Buf) (v : Nat) (h : ttxCni mask b = some (.p8301, v)) : v = decode8301Cni b := by
  unfold ttxCni at h
  repeat' split at h
  all_goals first
    | (cases h; done)
    | (cases h; rfl)
    | (simp [Option.map] at h; done)
    | (simp [Option.map] at h; split at h <;> simp at h)

end Zvbi.Net
