import ZvbiModel.Net.LemmasFaithful
/-!
# The channel-switch countdown: idle after every reset; a station change across a time-stamp gap
-/
namespace Zvbi.Net
open Zvbi.Hamm Zvbi.Codec Zvbi.Gen

/-- `vbi_chsw_reset` always leaves the countdown idle (vbi.c:553-557) -/
theorem chswReset_idle (s : State) (id : Nat) : (chswReset s id).1.chswcd = 0 := by
  simp only [chswReset]
  repeat' split
  all_goals simp

theorem runAtoms_append_events (cfg : Cfg) : ∀ (a b : List Atom) (s : State),
    (runAtoms cfg s (a ++ b)).2 = (runAtoms cfg s a).2 ++ (runAtoms cfg (runAtoms cfg s a).1 b).2 := by
  intro a
  induction a with
  | nil => intro b s; simp [runAtoms]
  | cons x xs ih => intro b s; simp only [List.cons_append, runAtoms, ih, List.append_assoc]

theorem countNetwork_silent (evs : List Ev) (h : Silent evs) : countNetwork evs = 0 := by
  simp only [countNetwork, List.length_eq_zero_iff, List.filter_eq_nil_iff]
  intro e he
  simp [(h e he).1]

/-- a tick while the countdown is not at 1 raises nothing and touches only clock and countdown; from an idle
    countdown or one at 3 or more the countdown is afterwards idle or at 2 or more (a gap arms it with 40) -/
theorem prologue_nofire (s : State) (t : Nat) (h : s.chswcd ≠ 1) :
    (prologue s t).2 = [] ∧ (prologue s t).1.net = s.net ∧ (prologue s t).1.cached = s.cached ∧
    (prologue s t).1.mask = s.mask ∧ (prologue s t).1.time = timeAfter s.time (.tick t) ∧
    ((s.chswcd = 0 ∨ 3 ≤ s.chswcd) → (prologue s t).1.chswcd ≠ 1) := by
  simp only [prologue, timeAfter]
  by_cases hbad : (decide (s.time > 0) && (decide (t < s.time + 25000) || decide (t > s.time + 50000))) = true
  · simp only [hbad, if_true]
    refine ⟨by simp, by simp, by simp, by simp, by simp, ?_⟩
    intro hc
    by_cases z : s.chswcd = 0
    · simp [z]
    · simp only [z, if_false]; omega
  · simp only [hbad]
    by_cases h0 : s.chswcd > 0
    · have h1 : ¬ (s.chswcd - 1 = 0) := by omega
      simp only [h0, if_true, h1, if_false]
      refine ⟨by simp, by simp, by simp, by simp, by simp, ?_⟩
      intro hc
      show s.chswcd - 1 ≠ 1
      omega
    · simp only [h0]
      refine ⟨by simp, by simp, by simp, by simp, by simp, ?_⟩
      intro _
      show s.chswcd ≠ 1
      exact h

theorem prologue_nofire_deb (s : State) (t : Nat) (h : s.chswcd ≠ 1) : (prologue s t).1.deb = s.deb := by
  simp only [prologue]
  by_cases hbad : (decide (s.time > 0) && (decide (t < s.time + 25000) || decide (t > s.time + 50000))) = true
  · simp [hbad]
  · simp only [hbad]
    by_cases h0 : s.chswcd > 0
    · have h1 : ¬ (s.chswcd - 1 = 0) := by omega
      simp [h0, h1]
    · simp [h0]

theorem pending_congr (cfg : Cfg) (c : Carrier) (s s' : State) (hn : s'.net = s.net) (hd : s'.deb = s.deb) :
    pending cfg c s' ↔ pending cfg c s := by
  unfold pending; rw [hn, hd]

/-- after an announcement on carrier `c` nothing is pending anywhere, provided (per-carrier shape only) nothing
    else was pending before: no XDS name and no other carrier -/
theorem markDone_idle (cfg : Cfg) (c : Carrier) (v : Nat) (s : State)
    (h : cfg.perCarrier = true → (s.net.cycle ≠ 1 ∧ ∀ c', c' ≠ c → cycOf c' s.deb ≠ 1)) :
    (markDone cfg c v s).net.cycle ≠ 1 ∧ ∀ c', cfg.perCarrier = true → cycOf c' (markDone cfg c v s).deb ≠ 1 := by
  cases hp : cfg.perCarrier
  · refine ⟨by rw [markDone_cycle_shared cfg c v s hp]; decide, fun _ e => by cases e⟩
  · have hh := h hp
    refine ⟨by rw [markDone_net_cycle cfg c v s hp]; exact hh.1, ?_⟩
    intro c' _
    simp only [markDone, hp, if_true, cycOf_setAnn]
    by_cases hc : c' = c
    · rw [hc, cycOf_setCyc_self]; decide
    · rw [cycOf_setCyc_other c c' _ _ hc]; exact hh.2 c' hc

/-- Station change across a gap.  From a state with an identified station and a countdown that is idle or
    has at least three frames to go: a tick with ANY time stamp (a gap arms the countdown), the new CNI `b`,
    another tick with any time stamp, `b` again (id different from the old one; known to the table, or any id
    once the callers pass "identified", F35 repaired).  The change raises
    exactly one NETWORK event, empties the cache and cancels the countdown; over any regular history that
    follows in which every reception equals what is now stored, nothing more is announced, the countdown
    stays idle (no second reset 40 frames later) and every page cached for the new station stays cached.
    In the per-carrier shape "nothing else is pending" is a hypothesis (`hper`): `b` is not the value this carrier
    announced last, no XDS name and no other carrier waits for its repeat - the shared cycle made the last two
    automatic (and F11 possible). -/
theorem change_over_gap (cfg : Cfg) (s : State) (t0 t1 : Nat) (l1 l2 : Line) (c : Carrier) (b : Nat) (quiet : List Atom)
    (hcd : s.chswcd = 0 ∨ 3 ≤ s.chswcd)
    (h1 : lineCni s.mask l1 = some (c, b)) (h2 : lineCni s.mask l2 = some (c, b)) (hb : b ≠ cniOf c s.net)
    (hid : (cfg.lk c b).1 ≠ s.net.nuid) (hold : s.net.nuid ≠ 0) (hnew : cfg.chswIdent = true ∨ (cfg.lk c b).1 ≠ 0)
    (hper : cfg.perCarrier = true → b ≠ annOf c s.deb ∧ s.net.cycle ≠ 1 ∧ ∀ c', c' ≠ c → cycOf c' s.deb ≠ 1)
    (hreg : RegularFrom (runAtoms cfg s [.tick t0, .line t0 l1, .tick t1, .line t1 l2]).1.time quiet)
    (hq : ∀ a ∈ quiet, SameAsStored (runAtoms cfg s [.tick t0, .line t0 l1, .tick t1, .line t1 l2]).1.net s.mask a) :
    countNetwork (runAtoms cfg s ([.tick t0, .line t0 l1, .tick t1, .line t1 l2] ++ quiet)).2 = 1 ∧
    (runAtoms cfg s [.tick t0, .line t0 l1, .tick t1, .line t1 l2]).1.cached = [] ∧
    (runAtoms cfg s [.tick t0, .line t0 l1, .tick t1, .line t1 l2]).1.chswcd = 0 ∧
    (runAtoms cfg s ([.tick t0, .line t0 l1, .tick t1, .line t1 l2] ++ quiet)).1.net.nuid = (cfg.lk c b).1 ∧
    (runAtoms cfg s ([.tick t0, .line t0 l1, .tick t1, .line t1 l2] ++ quiet)).1.chswcd = 0 ∧
    (∀ q1 q2, quiet = q1 ++ q2 →
      (runAtoms cfg s ([.tick t0, .line t0 l1, .tick t1, .line t1 l2] ++ q1)).1.cached ⊆
      (runAtoms cfg s ([.tick t0, .line t0 l1, .tick t1, .line t1 l2] ++ quiet)).1.cached) := by
  -- tick t0
  have hne1 : s.chswcd ≠ 1 := by omega
  have p0 := prologue_nofire s t0 hne1
  have p0d := prologue_nofire_deb s t0 hne1
  generalize hsa : (prologue s t0).1 = sa at p0 p0d
  have p0e : (prologue s t0).2 = [] := p0.1
  have sacd : sa.chswcd ≠ 1 := p0.2.2.2.2.2 hcd
  -- line l1: the new value differs from the stored one
  have hl1 : lineCni sa.mask l1 = some (c, b) := by rw [p0.2.2.2.1]; exact h1
  have k1 := rxLine_cniStep cfg t0 sa l1 (lineCni_some_kind _ _ (c, b) hl1)
  have k1d := rxLine_cniStep_deb cfg t0 sa l1 (lineCni_some_kind _ _ (c, b) hl1)
  obtain ⟨x1, hev1, hex1⟩ := k1.2.2.2.2.2.2.2.2
  have hb' : b ≠ cniOf c sa.net := by rw [p0.2.1]; exact hb
  rw [hl1] at k1 hev1 k1d
  simp only [cniStep, cniRx_change cfg c b sa hb'] at k1 hev1 k1d
  generalize hsb : (rxLine cfg t0 sa l1).1 = sb at k1 k1d
  -- tick t1
  have sbcd : sb.chswcd ≠ 1 := by rw [k1.2.2.1, markChange_chswcd]; exact sacd
  have p1 := prologue_nofire sb t1 sbcd
  have p1d := prologue_nofire_deb sb t1 sbcd
  generalize hsc : (prologue sb t1).1 = sc at p1 p1d
  have p1e : (prologue sb t1).2 = [] := p1.1
  -- line l2: the station change
  have hscnet : sc.net = (markChange cfg c b sa).net := by rw [p1.2.1, k1.1]
  have hscdeb : sc.deb = (markChange cfg c b sa).deb := by rw [p1d, k1d]
  have hscmask : sc.mask = s.mask := by rw [p1.2.2.2.1, k1.2.2.2.1, p0.2.2.2.1]
  have hl2 : lineCni sc.mask l2 = some (c, b) := by rw [hscmask]; exact h2
  have q := rxLine_cniStep cfg t1 sc l2 (lineCni_some_kind _ _ (c, b) hl2)
  have qd := rxLine_cniStep_deb cfg t1 sc l2 (lineCni_some_kind _ _ (c, b) hl2)
  obtain ⟨x2, hev2, hex2⟩ := q.2.2.2.2.2.2.2.2
  rw [hl2] at q hev2 qd
  simp only [cniStep] at q hev2 qd
  have g1 : b = cniOf c sc.net := by rw [hscnet, markChange_cniOf_self]
  have g2 : pending cfg c sc := by
    rw [pending_congr cfg c _ sc hscnet hscdeb, markChange_pending_self]
    cases hp : cfg.perCarrier
    · exact Or.inl rfl
    · right; rw [p0d]; exact (hper hp).1
  have g3 : (cfg.lk c b).1 ≠ sc.net.nuid := by rw [hscnet, markChange_nuid, p0.2.1]; exact hid
  have g4 : sc.net.nuid ≠ 0 := by rw [hscnet, markChange_nuid, p0.2.1]; exact hold
  have f := cniRx_switch_facts cfg c b sc g1 g2 g3 g4 hnew
  generalize hsd : (rxLine cfg t1 sc l2).1 = sd at q qd
  -- the four atoms together
  have hrun : runAtoms cfg s [.tick t0, .line t0 l1, .tick t1, .line t1 l2] =
      (sd, (prologue s t0).2 ++ ((rxLine cfg t0 sa l1).2 ++ ((prologue sb t1).2 ++ ((rxLine cfg t1 sc l2).2 ++ [])))) := by
    simp only [runAtoms, stepAtom, hsa, hsb, hsc, hsd]
  have hcount : countNetwork (runAtoms cfg s [.tick t0, .line t0 l1, .tick t1, .line t1 l2]).2 = 1 := by
    rw [hrun]
    simp only [p0e, p1e, hev1, hev2, List.nil_append, List.append_nil]
    rw [countNetwork_append, countNetwork_extra x1 hex1, countNetwork_append, f.1, countNetwork_extra x2 hex2]
  have hsdnet : sd.net = (cniRx cfg c b sc).1.net := q.1
  have hsddeb : sd.deb = (cniRx cfg c b sc).1.deb := qd
  have hsw := cniRx_switch cfg c b sc g1 g2 g3 g4 hnew
  have hidle : sd.net.cycle ≠ 1 ∧ ∀ c', cfg.perCarrier = true → cycOf c' sd.deb ≠ 1 := by
    rw [hsdnet, hsddeb, hsw]
    apply markDone_idle
    intro hp
    have hh := hper hp
    refine ⟨?_, ?_⟩
    · show sc.net.cycle ≠ 1
      rw [hscnet, markChange_net_per cfg c b sa hp]
      have : (setCni c sa.net b).cycle = sa.net.cycle := by cases c <;> rfl
      rw [this, p0.2.1]; exact hh.2.1
    · intro c' hc
      show cycOf c' sc.deb ≠ 1
      rw [hscdeb]
      simp only [markChange, hp, if_true]
      rw [cycOf_setCyc_other c c' _ _ hc, p0d]; exact hh.2.2 c' hc
  have hsdcd : sd.chswcd = 0 := by
    rw [q.2.2.1, hsw, markDone_chswcd]
  have hsdmask : sd.mask = s.mask := by rw [q.2.2.2.1, hscmask]
  rw [hrun] at hreg hq
  simp only [] at hreg hq
  have st := stable_run cfg sd.net sd.deb s.mask hidle.1 hidle.2 quiet sd rfl rfl hsdcd hsdmask hreg hq
  have e1 : ∀ q1 : List Atom, (runAtoms cfg s ([.tick t0, .line t0 l1, .tick t1, .line t1 l2] ++ q1)).1 = (runAtoms cfg sd q1).1 := by
    intro q1; rw [runAtoms_append, hrun]
  refine ⟨?_, ?_, ?_, ?_, ?_, ?_⟩
  · rw [runAtoms_append_events, countNetwork_append, hcount, hrun, countNetwork_silent _ st.1]
  · rw [hrun]; show sd.cached = []; rw [q.2.1]; exact f.2.2.1
  · rw [hrun]; exact hsdcd
  · rw [e1, st.2.1, hsdnet]; exact f.2.2.2.1
  · rw [e1]; exact st.2.2.1
  · intro q1 q2 e
    rw [e1, e1]
    exact st.2.2.2.2.1 q1 q2 e

end Zvbi.Net
