import ZvbiModel.Net.LemmasFaithful
/-!
# The channel-switch countdown: idle after every reset; a station change across a time-stamp gap
-/
namespace Zvbi.Net
open Zvbi.Hamm Zvbi.Codec Zvbi.Gen

/-- `vbi_chsw_reset` always leaves the countdown idle (vbi.c:553-557) -/
theorem chswReset_idle (s : State) (id : Nat) : (chswReset s id).1.chswcd = 0 := by
  simp only [chswReset]
  repeat' split
  all_goals simp

theorem runAtoms_append_events (cfg : Cfg) : ∀ (a b : List Atom) (s : State),
    (runAtoms cfg s (a ++ b)).2 = (runAtoms cfg s a).2 ++ (runAtoms cfg (runAtoms cfg s a).1 b).2 := by
  intro a
  induction a with
  | nil => intro b s; simp [runAtoms]
  | cons x xs ih => intro b s; simp only [List.cons_append, runAtoms, ih, List.append_assoc]

theorem countNetwork_silent (evs : List Ev) (h : Silent evs) : countNetwork evs = 0 := by
  simp only [countNetwork, List.length_eq_zero_iff, List.filter_eq_nil_iff]
  intro e he
  simp [(h e he).1]

/-- a tick while the countdown is not at 1 raises nothing and touches only clock and countdown; from an idle
    countdown or one at 3 or more the countdown is afterwards idle or at 2 or more (a gap arms it with 40) -/
theorem prologue_nofire (s : State) (t : Nat) (h : s.chswcd ≠ 1) :
    (prologue s t).2 = [] ∧ (prologue s t).1.net = s.net ∧ (prologue s t).1.cached = s.cached ∧
    (prologue s t).1.mask = s.mask ∧ (prologue s t).1.time = timeAfter s.time (.tick t) ∧
    ((s.chswcd = 0 ∨ 3 ≤ s.chswcd) → (prologue s t).1.chswcd ≠ 1) := by
  simp only [prologue, timeAfter]
  by_cases hbad : (decide (s.time > 0) && (decide (t < s.time + 25000) || decide (t > s.time + 50000))) = true
  · simp only [hbad, if_true]
    refine ⟨by simp, by simp, by simp, by simp, by simp, ?_⟩
    intro hc
    by_cases z : s.chswcd = 0
    · simp [z]
    · simp only [z, if_false]; omega
  · simp only [hbad]
    by_cases h0 : s.chswcd > 0
    · have h1 : ¬ (s.chswcd - 1 = 0) := by omega
      simp only [h0, if_true, h1, if_false]
      refine ⟨by simp, by simp, by simp, by simp, by simp, ?_⟩
      intro hc
      show s.chswcd - 1 ≠ 1
      omega
    · simp only [h0]
      refine ⟨by simp, by simp, by simp, by simp, by simp, ?_⟩
      intro _
      show s.chswcd ≠ 1
      exact h

/-- Station change across a gap.  From a state with an identified station and a countdown that is idle or
    has at least three frames to go: a tick with ANY time stamp (a gap arms the countdown), the new CNI `b`,
    another tick with any time stamp, `b` again (known id, different from the old one).  The change raises
    exactly one NETWORK event, empties the cache and cancels the countdown; over any regular history that
    follows in which every reception equals what is now stored, nothing more is announced, the countdown
    stays idle (no second reset 40 frames later) and every page cached for the new station stays cached. -/
theorem change_over_gap (cfg : Cfg) (s : State) (t0 t1 : Nat) (l1 l2 : Line) (c : Carrier) (b : Nat) (quiet : List Atom)
    (hcd : s.chswcd = 0 ∨ 3 ≤ s.chswcd)
    (h1 : lineCni s.mask l1 = some (c, b)) (h2 : lineCni s.mask l2 = some (c, b)) (hb : b ≠ cniOf c s.net)
    (hid : (cfg.lk c b).1 ≠ s.net.nuid) (hold : s.net.nuid ≠ 0) (hnew : (cfg.lk c b).1 ≠ 0)
    (hreg : RegularFrom (runAtoms cfg s [.tick t0, .line t0 l1, .tick t1, .line t1 l2]).1.time quiet)
    (hq : ∀ a ∈ quiet, SameAsStored (runAtoms cfg s [.tick t0, .line t0 l1, .tick t1, .line t1 l2]).1.net s.mask a) :
    countNetwork (runAtoms cfg s ([.tick t0, .line t0 l1, .tick t1, .line t1 l2] ++ quiet)).2 = 1 ∧
    (runAtoms cfg s [.tick t0, .line t0 l1, .tick t1, .line t1 l2]).1.cached = [] ∧
    (runAtoms cfg s [.tick t0, .line t0 l1, .tick t1, .line t1 l2]).1.chswcd = 0 ∧
    (runAtoms cfg s ([.tick t0, .line t0 l1, .tick t1, .line t1 l2] ++ quiet)).1.net.nuid = (cfg.lk c b).1 ∧
    (runAtoms cfg s ([.tick t0, .line t0 l1, .tick t1, .line t1 l2] ++ quiet)).1.chswcd = 0 ∧
    (∀ q1 q2, quiet = q1 ++ q2 →
      (runAtoms cfg s ([.tick t0, .line t0 l1, .tick t1, .line t1 l2] ++ q1)).1.cached ⊆
      (runAtoms cfg s ([.tick t0, .line t0 l1, .tick t1, .line t1 l2] ++ quiet)).1.cached) := by
  -- tick t0
  have hne1 : s.chswcd ≠ 1 := by omega
  have p0 := prologue_nofire s t0 hne1
  generalize hsa : (prologue s t0).1 = sa at p0
  have p0e : (prologue s t0).2 = [] := p0.1
  have sacd : sa.chswcd ≠ 1 := p0.2.2.2.2.2 hcd
  -- line l1: the new value differs from the stored one
  have k1 := rxLine_cniStep cfg t0 sa l1 (lineCni_some_kind _ _ (c, b) (show lineCni sa.mask l1 = some (c, b) by rw [p0.2.2.2.1]; exact h1))
  obtain ⟨x1, hev1, hex1⟩ := k1.2.2.2.2.2.2.2.2
  have hb' : b ≠ cniOf c sa.net := by rw [p0.2.1]; exact hb
  rw [show lineCni sa.mask l1 = some (c, b) by rw [p0.2.2.2.1]; exact h1] at k1 hev1
  simp only [cniStep, cniRx_change cfg.lk c b sa hb'] at k1 hev1
  generalize hsb : (rxLine cfg t0 sa l1).1 = sb at k1
  -- tick t1
  have sbcd : sb.chswcd ≠ 1 := by rw [k1.2.2.1]; exact sacd
  have p1 := prologue_nofire sb t1 sbcd
  generalize hsc : (prologue sb t1).1 = sc at p1
  have p1e : (prologue sb t1).2 = [] := p1.1
  -- line l2: the station change
  have hscnet : sc.net = { setCni c s.net b with cycle := 1 } := by rw [p1.2.1, k1.1, p0.2.1]
  have hscmask : sc.mask = s.mask := by rw [p1.2.2.2.1, k1.2.2.2.1, p0.2.2.2.1]
  have q := rxLine_cniStep cfg t1 sc l2 (lineCni_some_kind _ _ (c, b) (show lineCni sc.mask l2 = some (c, b) by rw [hscmask]; exact h2))
  obtain ⟨x2, hev2, hex2⟩ := q.2.2.2.2.2.2.2.2
  rw [show lineCni sc.mask l2 = some (c, b) by rw [hscmask]; exact h2] at q hev2
  simp only [cniStep] at q hev2
  have f := cniRx_switch_facts cfg.lk c b sc
    (by rw [hscnet, cniOf_cycle, cniOf_setCni_self])
    (by rw [hscnet])
    (by rw [hscnet]; show (cfg.lk c b).1 ≠ (setCni c s.net b).nuid; rw [setCni_nuid]; exact hid)
    (by rw [hscnet]; show (setCni c s.net b).nuid ≠ 0; rw [setCni_nuid]; exact hold) hnew
  generalize hsd : (rxLine cfg t1 sc l2).1 = sd at q
  -- the four atoms together
  have hrun : runAtoms cfg s [.tick t0, .line t0 l1, .tick t1, .line t1 l2] =
      (sd, (prologue s t0).2 ++ ((rxLine cfg t0 sa l1).2 ++ ((prologue sb t1).2 ++ ((rxLine cfg t1 sc l2).2 ++ [])))) := by
    simp only [runAtoms, stepAtom, hsa, hsb, hsc, hsd]
  have hcount : countNetwork (runAtoms cfg s [.tick t0, .line t0 l1, .tick t1, .line t1 l2]).2 = 1 := by
    rw [hrun]
    simp only [p0e, p1e, hev1, hev2, List.nil_append, List.append_nil]
    rw [countNetwork_append, countNetwork_extra x1 hex1, countNetwork_append, f.1, countNetwork_extra x2 hex2]
  have hsdnet : sd.net = (cniRx cfg.lk c b sc).1.net := q.1
  have hsdcycle : sd.net.cycle ≠ 1 := by rw [hsdnet, f.2.2.2.2.1]; decide
  have hsdcd : sd.chswcd = 0 := by
    rw [q.2.2.1]
    have := f  -- the switch resets, the reset leaves the countdown idle
    rw [cniRx_switch cfg.lk c b sc (by rw [hscnet, cniOf_cycle, cniOf_setCni_self]) (by rw [hscnet])
      (by rw [hscnet]; show (cfg.lk c b).1 ≠ (setCni c s.net b).nuid; rw [setCni_nuid]; exact hid)
      (by rw [hscnet]; show (setCni c s.net b).nuid ≠ 0; rw [setCni_nuid]; exact hold) hnew]
  have hsdmask : sd.mask = s.mask := by rw [q.2.2.2.1, hscmask]
  rw [hrun] at hreg hq
  simp only [] at hreg hq
  have st := stable_run cfg sd.net s.mask hsdcycle quiet sd rfl hsdcd hsdmask hreg hq
  have e1 : ∀ q1 : List Atom, (runAtoms cfg s ([.tick t0, .line t0 l1, .tick t1, .line t1 l2] ++ q1)).1 = (runAtoms cfg sd q1).1 := by
    intro q1; rw [runAtoms_append, hrun]
  refine ⟨?_, ?_, ?_, ?_, ?_, ?_⟩
  · rw [runAtoms_append_events, countNetwork_append, hcount, hrun, countNetwork_silent _ st.1]
  · rw [hrun]; show sd.cached = []; rw [q.2.1]; exact f.2.2.1
  · rw [hrun]; exact hsdcd
  · rw [e1, st.2.1, hsdnet]; exact f.2.2.2.1
  · rw [e1]; exact st.2.2.1
  · intro q1 q2 e
    rw [e1, e1]
    exact st.2.2.2.2 q1 q2 e

end Zvbi.Net
