import ZvbiModel.Net.Model
/-!
# `xds_strfu` (caption.c:110) on the raw destination buffer, and the layout facts it relies on

`Net/Model.lean` keeps `vbi_network.name` / `.call` as C strings (the bytes before the first NUL) and
models `xds_strfu` as "filter the received bytes, compare with the stored string" (`xdsStrfu`).  The C
function does not compare strings: it walks the destination `signed char` array, ORs `*d ^ c` into
`neq` for every byte it overwrites, ORs in the byte it replaces by the terminator, and never looks at
the old terminator.  Stale bytes behind the old terminator are read.  This file models exactly that,
statement by statement, on the raw array; `Net/XdsStrLemmas.lean` proves that the result is the string
comparison `xdsStrfu` computes (so the abstraction in `Net/Model.lean` is sound for every buffer
content) and that the store stays inside the destination.

```c
static int xds_strfu(signed char *d, const uint8_t *s, int len)
{
	int c, neq = 0;
	for (; len > 0 && *s <= 0x20; s++, len--);
	for (; len > 0; s++, len--) {
		c = MAX((uint8_t) 0x20, *s);
		neq |= *d ^ c;
		*d++ = c;
	}
	neq |= *d;
	*d = 0;
	return neq;
}
```

The destination is the list of bytes (0..255, as stored) from the pointer `d` to the end of the object
`d` points into; moving the pointer is taking the tail; an access with the list exhausted is the overrun
(`none`).  `int` values are kept as 32-bit two's complement patterns (`sext8`: a `signed char` read
into an `int`).
-/
namespace Zvbi.Net

/-- `sizeof (((vbi_network *) 0)->name)`; cross-checked with the compiled struct by the `layout` op -/
def nameSize : Nat := 64
/-- `sizeof (((vbi_network *) 0)->call)` -/
def callSize : Nat := 40
/-- `sizeof (((xds_sub_packet *) 0)->buffer)`: the longest `len` `xds_decoder` is called with -/
def xdsMaxLen : Nat := 32

/-- a stored byte read through `signed char *` and promoted to `int` (32-bit pattern) -/
def sext8 (b : Nat) : Nat := if b % 256 ≥ 128 then b % 256 + 0xFFFFFF00 else b % 256

/-- the first loop: skip leading bytes up to 0x20 -/
def strfuSkip (s : List Nat) : List Nat := s.dropWhile (· ≤ 0x20)

/-- the copy loop followed by `neq |= *d; *d = 0; return neq`.  `d` = destination from the current
    pointer on, `s` = the bytes still to copy.  Result: the destination from the same pointer on after
    the call and `neq`; `none` = `*d` addressed past the end of the destination. -/
def strfuCopy (neq : Nat) : List Nat → List Nat → Option (List Nat × Nat)
  | [], _ => none
  | x :: rest, [] => some (0 :: rest, neq ||| sext8 x)
  | x :: rest, c :: cs =>
    let c' := max 0x20 (c % 256)
    match strfuCopy (neq ||| (sext8 x ^^^ c')) rest cs with
    | none => none
    | some (r, n) => some (c' :: r, n)

/-- `xds_strfu (d, s, len)` with `len = s.length` -/
def strfu (d s : List Nat) : Option (List Nat × Nat) := strfuCopy 0 d (strfuSkip s)

/-- the C string an array holds -/
def cstr (d : List Nat) : List Nat := d.takeWhile (· != 0)

/-- what the sender's bytes become: leading bytes up to 0x20 dropped, later ones raised to 0x20 -/
def xdsFilter (s : List Nat) : List Nat := (s.dropWhile (· ≤ 0x20)).map (fun c => max 0x20 c)

/-- the fields of `vbi_program_id` the decoders write (everything before `tape_delayed`); the rest of the
    struct (`tape_delayed`, `_reserved2`, `_reserved3`) is zero after `CLEAR` in both operands of the
    `memcmp` in `vbi_decode_vps`, and the struct has no padding (`layout` op: `pidpad=0`) -/
def pidFields (p : Zvbi.Codec.Pid) : List Nat :=
  [p.channel, p.cniType, p.cni, p.pil, p.luf, p.mi, p.prf, p.pcsAudio, p.pty]

/-- the `layout` line of the correspondence -/
def layoutLine : String :=
  s!"ok name={nameSize} call={callSize} xdsbuf={xdsMaxLen} pidfields={(pidFields {}).length} pidpad=0"

end Zvbi.Net
