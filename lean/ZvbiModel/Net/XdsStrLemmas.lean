import ZvbiModel.Net.XdsStr
import ZvbiModel.Net.LemmasGap
/-!
# `xds_strfu` on the raw array computes the comparison of the complete strings

Core Lean only.  `strfuCopy_spec` is the loop invariant (induction over the bytes to copy, for every
destination content and every value of `neq` so far); `strfu_spec` instantiates it for the whole call.
-/
namespace Zvbi.Net
open Zvbi.Hamm Zvbi.Codec Zvbi.Gen

theorem xor_eq_zero_iff' (a b : Nat) : a ^^^ b = 0 ↔ a = b := by
  constructor
  · intro h
    apply Nat.eq_of_testBit_eq
    intro i
    have h2 : (a ^^^ b).testBit i = false := by rw [h]; exact Nat.zero_testBit i
    rw [Nat.testBit_xor] at h2
    cases ha : a.testBit i <;> cases hb : b.testBit i <;> simp [ha, hb] at h2 ⊢
  · intro h; rw [h]; exact Nat.xor_self b

/-- a stored byte read as `signed char` is zero only if the byte is -/
theorem sext8_eq_zero (x : Nat) (hx : x < 256) : sext8 x = 0 ↔ x = 0 := by
  unfold sext8
  rw [Nat.mod_eq_of_lt hx]
  split <;> omega

/-- a stored byte read as `signed char` equals a 7-bit character only if the byte does -/
theorem sext8_xor_eq_zero (x c : Nat) (hx : x < 256) (hc : c < 128) : sext8 x ^^^ c = 0 ↔ x = c := by
  rw [xor_eq_zero_iff']
  unfold sext8
  rw [Nat.mod_eq_of_lt hx]
  split <;> omega

theorem cstr_cons (x : Nat) (rest : List Nat) : cstr (x :: rest) = if x = 0 then [] else x :: cstr rest := by
  unfold cstr
  rw [List.takeWhile_cons]
  by_cases h : x = 0 <;> simp [h]

/-- the text in front of a terminator is the C string, whatever follows -/
theorem cstr_append_nul (f rest : List Nat) (hf : ∀ c ∈ f, c ≠ 0) : cstr (f ++ 0 :: rest) = f := by
  induction f with
  | nil => simp [cstr]
  | cons c cs ih =>
    have hc : c ≠ 0 := hf c (List.mem_cons_self ..)
    rw [List.cons_append, cstr_cons, if_neg hc, ih (fun x hx => hf x (List.mem_cons_of_mem _ hx))]

/-- loop invariant of the copy loop plus the two statements after it -/
theorem strfuCopy_spec : ∀ (cs d : List Nat) (neq : Nat), (∀ c ∈ cs, c < 128) → (∀ x ∈ d, x < 256) → cs.length < d.length →
    ∃ n, strfuCopy neq d cs = some (cs.map (fun c => max 0x20 c) ++ 0 :: d.drop (cs.length + 1), n) ∧
      (n ≠ 0 ↔ (neq ≠ 0 ∨ cstr d ≠ cs.map (fun c => max 0x20 c))) := by
  intro cs
  induction cs with
  | nil =>
    intro d neq _ hd hlen
    cases d with
    | nil => simp at hlen
    | cons x rest =>
      have hx : x < 256 := hd x (List.mem_cons_self ..)
      refine ⟨neq ||| sext8 x, by simp [strfuCopy], ?_⟩
      rw [cstr_cons, Ne, Nat.or_eq_zero_iff, sext8_eq_zero x hx]
      by_cases h0 : x = 0 <;> by_cases hn : neq = 0 <;> simp [h0, hn]
  | cons c cs ih =>
    intro d neq hcs hd hlen
    cases d with
    | nil => simp at hlen
    | cons x rest =>
      have hx : x < 256 := hd x (List.mem_cons_self ..)
      have hc : c < 128 := hcs c (List.mem_cons_self ..)
      have hcm : c % 256 = c := Nat.mod_eq_of_lt (by omega)
      have hc' : max 0x20 c < 128 := by omega
      have hc0 : max 0x20 c ≠ 0 := by omega
      obtain ⟨n, hn, hiff⟩ := ih rest (neq ||| (sext8 x ^^^ max 0x20 c))
        (fun y hy => hcs y (List.mem_cons_of_mem _ hy)) (fun y hy => hd y (List.mem_cons_of_mem _ hy))
        (by simp at hlen; omega)
      refine ⟨n, ?_, ?_⟩
      · simp only [strfuCopy, hcm, hn]
        simp
      · have e2 : cstr (x :: rest) = (c :: cs).map (fun c => max 0x20 c) ↔
            (x = max 0x20 c ∧ cstr rest = cs.map (fun c => max 0x20 c)) := by
          rw [cstr_cons, List.map_cons]
          by_cases hx0 : x = 0
          · rw [if_pos hx0]
            constructor
            · intro h; exact absurd h (by simp)
            · intro h; exact absurd (hx0 ▸ h.1).symm hc0
          · rw [if_neg hx0]; simp
        rw [hiff]
        simp only [Ne, Nat.or_eq_zero_iff, sext8_xor_eq_zero x _ hx hc', e2]
        by_cases a : neq = 0 <;> by_cases b : x = max 0x20 c <;>
          by_cases d : cstr rest = cs.map (fun c => max 0x20 c) <;> simp [a, b, d]

theorem xdsFilter_eq (s : List Nat) : xdsFilter s = (strfuSkip s).map (fun c => max 0x20 c) := rfl

theorem xdsFilter_length_le (s : List Nat) : (xdsFilter s).length ≤ s.length := by
  rw [xdsFilter_eq, List.length_map]
  unfold strfuSkip
  exact (List.dropWhile_sublist _).length_le

theorem xdsFilter_ne_zero (s : List Nat) : ∀ c ∈ xdsFilter s, c ≠ 0 := by
  intro c hc
  rw [xdsFilter_eq] at hc
  obtain ⟨y, _, rfl⟩ := List.mem_map.mp hc
  omega

/-- `xdsStrfu` of `Net/Model.lean` is "filter, compare the complete strings" -/
theorem xdsStrfu_eq (old buf : List Nat) : xdsStrfu old buf = (xdsFilter buf, xdsFilter buf != old) := rfl

/-- the whole call: result, array afterwards, for every array content -/
theorem strfu_spec (d s : List Nat) (hs : ∀ c ∈ s, c < 128) (hd : ∀ x ∈ d, x < 256) (hlen : (xdsFilter s).length < d.length) :
    ∃ n, strfu d s = some (xdsFilter s ++ 0 :: d.drop ((xdsFilter s).length + 1), n) ∧ (n ≠ 0 ↔ cstr d ≠ xdsFilter s) := by
  have hsk : ∀ c ∈ strfuSkip s, c < 128 := fun c hc => hs c ((List.dropWhile_sublist _).subset hc)
  have hl : (strfuSkip s).length < d.length := by
    rw [xdsFilter_eq, List.length_map] at hlen; exact hlen
  obtain ⟨n, hn, hiff⟩ := strfuCopy_spec (strfuSkip s) d 0 hsk hd hl
  refine ⟨n, ?_, ?_⟩
  · unfold strfu
    rw [hn, xdsFilter_eq, List.length_map]
  · rw [hiff, xdsFilter_eq]
    simp

/-- the model reports the overrun: a text that does not fit, terminator included, addresses past the array -/
theorem strfuCopy_overrun : ∀ (cs d : List Nat) (neq : Nat), d.length ≤ cs.length → strfuCopy neq d cs = none := by
  intro cs
  induction cs with
  | nil => intro d neq h; cases d with
    | nil => rfl
    | cons x r => simp at h
  | cons c cs ih =>
    intro d neq h
    cases d with
    | nil => rfl
    | cons x r =>
      simp only [strfuCopy]
      rw [ih r _ (by simp at h; omega)]

/-! ## histories: the stored name between two name packets -/

/-- atoms that cannot store a name someone transmitted: everything except VPS / Teletext lines (they
    write the table's name) and XDS network-name packets -/
def Atom.nameFree : Atom → Bool
  | .line _ (.vps _) => false
  | .line _ (.ttx _) => false
  | .line _ (.xds ty _) => ty != 1
  | _ => true

/-- the stored name is still `u`, or it was wiped and nothing is pending -/
def NameInv (u : List Nat) (n : Network) : Prop := n.name = u ∨ (n.name = [] ∧ n.cycle ≠ 1)

theorem nameInv_empty (u : List Nat) : NameInv u ({} : Network) := Or.inr ⟨rfl, by decide⟩

theorem rxXds_name_stored (g : Bool) (s : State) (bytes : List Nat) :
    (rxXds g s 1 bytes).1.net.name = xdsFilter bytes := by
  have key : ∀ (s : State) (str : List Nat), (chswReset s (xdsNuid str)).1.net = s.net :=
    fun s str => (chswReset_identified s _ (xdsNuid_ne_zero str)).1
  by_cases h1 : (xdsFilter bytes != s.net.name) = true
  · simp [rxXds, xdsStrfu_eq, h1]
  · by_cases h2 : s.net.cycle = 1
    · by_cases h3 : (g && decide (xdsNuid (if s.net.call ≠ [] then s.net.call else xdsFilter bytes) = s.net.nuid)) = true
      · simp only [rxXds, xdsStrfu_eq, h1, h2, if_true]
        simp only [Bool.false_eq_true, if_false]
        rw [if_pos h3]
      · simp only [rxXds, xdsStrfu_eq, h1, h2, if_true]
        simp only [Bool.false_eq_true, if_false]
        rw [if_neg h3]
        by_cases h4 : s.net.nuid = 0 <;> simp [h4, key]
    · simp [rxXds, xdsStrfu_eq, h1, h2]

theorem rxXds_other_nameInv (g : Bool) (s : State) (ty : Nat) (bytes : List Nat) (hty : ty ≠ 1) (u : List Nat)
    (hi : NameInv u s.net) : NameInv u (rxXds g s ty bytes).1.net := by
  unfold rxXds
  rw [if_neg hty]
  by_cases h2 : ty = 2
  · rw [if_pos h2]
    simp only []
    split
    · exact Or.inr ⟨rfl, by simp⟩
    · exact hi
  · rw [if_neg h2]; exact hi

theorem stepAtom_nameInv (cfg : Cfg) (s : State) (a : Atom) (h : a.nameFree = true) (u : List Nat)
    (hi : NameInv u s.net) : NameInv u (stepAtom cfg s a).1.net := by
  cases a with
  | tick t =>
    simp only [stepAtom]
    rcases prologue_net s t with e | e <;> rw [e]
    · exact hi
    · exact nameInv_empty u
  | mask m =>
    simp only [stepAtom]
    rcases eventEnable_net _ s m with e | e <;> rw [e]
    · exact hi
    · exact nameInv_empty u
  | chsw => exact hi
  | line t l =>
    cases l with
    | vps b => simp [Atom.nameFree] at h
    | ttx b => simp [Atom.nameFree] at h
    | wss b0 b1 =>
      simp only [stepAtom, rxLine]
      rw [(rxWss_keeps s b0 b1 t).1]; exact hi
    | cpr c0 =>
      simp only [stepAtom, rxLine]
      rw [(rxCpr_keeps s c0).1]; exact hi
    | page pgno =>
      simp only [stepAtom]
      rcases rxLine_page cfg t s pgno with e | e <;> rw [e] <;> exact hi
    | xds ty bytes =>
      simp only [stepAtom, rxLine]
      exact rxXds_other_nameInv _ s ty bytes (by simpa [Atom.nameFree] using h) u hi

theorem runAtoms_nameInv (cfg : Cfg) (u : List Nat) : ∀ (mid : List Atom) (s : State),
    (∀ a ∈ mid, a.nameFree = true) → NameInv u s.net → NameInv u (runAtoms cfg s mid).1.net := by
  intro mid
  induction mid with
  | nil => intro s _ h; exact h
  | cons a as ih =>
    intro s hf h
    simp only [runAtoms]
    exact ih _ (fun x hx => hf x (List.mem_cons_of_mem _ hx))
      (stepAtom_nameInv cfg s a (hf a (List.mem_cons_self ..)) u h)

/-- two name packets with anything but names / VPS / Teletext between them: an announcement at the second
    needs the two complete filtered strings to be equal -/
theorem name_needs_equal_repeat (cfg : Cfg) (s0 : State) (t1 t2 : Nat) (u v : List Nat) (mid : List Atom)
    (hmid : ∀ a ∈ mid, a.nameFree = true) (n : Network)
    (h : Ev.network n ∈ (stepAtom cfg (runAtoms cfg (stepAtom cfg s0 (.line t1 (.xds 1 u))).1 mid).1 (.line t2 (.xds 1 v))).2 ∨
         Ev.networkId n ∈ (stepAtom cfg (runAtoms cfg (stepAtom cfg s0 (.line t1 (.xds 1 u))).1 mid).1 (.line t2 (.xds 1 v))).2) :
    xdsFilter u = xdsFilter v ∧ n.name = xdsFilter v := by
  have i1 : NameInv (xdsFilter u) (stepAtom cfg s0 (.line t1 (.xds 1 u))).1.net := by
    left; simp only [stepAtom, rxLine]; exact rxXds_name_stored _ s0 u
  have i2 := runAtoms_nameInv cfg (xdsFilter u) mid _ hmid i1
  simp only [stepAtom, rxLine] at h
  have a := rxXds_announce _ _ 1 v n h
  have hst := xdsStrfu_same _ _ a.2.1
  rw [xdsStrfu_eq] at hst
  simp only [] at hst
  refine ⟨?_, ?_⟩
  · rcases i2 with e | e
    · rw [← e]; exact hst.symm
    · exact absurd a.2.2.1 e.2
  · rw [a.2.2.2.2.1, xdsStrfu_eq]

end Zvbi.Net
