import ZvbiModel.Net.LemmasWss
/-!
# Station change, faithful event values, frames as atom lists
-/
namespace Zvbi.Net
open Zvbi.Hamm Zvbi.Codec Zvbi.Gen

theorem countNetwork_append (a b : List Ev) : countNetwork (a ++ b) = countNetwork a + countNetwork b := by
  simp [countNetwork, List.filter_append]

theorem countNetwork_extra (extra : List Ev) (h : ∀ e ∈ extra, Ev.isExtra e = true) : countNetwork extra = 0 := by
  simp only [countNetwork, List.length_eq_zero_iff, List.filter_eq_nil_iff]
  intro e he
  simp [(extra_not_network e (h e he)).1]

theorem frameRaw_eq_runAtoms (cfg : Cfg) (s : State) (t : Nat) (ls : List Line) :
    frameRaw cfg s t ls = runAtoms cfg s (frameAtoms t ls) := by
  have h : ∀ (ls : List Line) (s : State), rxLines cfg t s ls = runAtoms cfg s (ls.map (Atom.line t)) := by
    intro ls
    induction ls with
    | nil => intro s; rfl
    | cons l ls ih => intro s; simp only [rxLines, List.map, runAtoms, stepAtom, ih]
  simp only [frameRaw, frameAtoms, runAtoms, stepAtom, h]

/-- the debounce step that changes the identified station: one NETWORK event, cache flushed.  With the callers
    passing "identified" (F35 repaired) this covers a CNI missing from the table as well. -/
theorem cniRx_switch_facts (cfg : Cfg) (c : Carrier) (v : Nat) (s : State) (h : v = cniOf c s.net) (h2 : pending cfg c s)
    (h3 : (cfg.lk c v).1 ≠ s.net.nuid) (h4 : s.net.nuid ≠ 0) (h5 : cfg.chswIdent = true ∨ (cfg.lk c v).1 ≠ 0) :
    countNetwork (cniRx cfg c v s).2 = 1 ∧
    (∀ n, (Ev.network n ∈ (cniRx cfg c v s).2 ∨ Ev.networkId n ∈ (cniRx cfg c v s).2) →
       n.nuid = (cfg.lk c v).1 ∧ cniOf c n = v) ∧
    (cniRx cfg c v s).1.cached = [] ∧ (cniRx cfg c v s).1.net.nuid = (cfg.lk c v).1 ∧ ¬ pending cfg c (cniRx cfg c v s).1 ∧
    cniOf c (cniRx cfg c v s).1.net = v := by
  rw [cniRx_switch cfg c v s h h2 h3 h4 h5]
  refine ⟨?_, ?_, by rw [markDone_cached], by rw [markDone_nuid], markDone_not_pending _ _ _ _, ?_⟩
  · by_cases ha : s.aspectSource > 0 <;> simp [countNetwork, ha] <;> rfl
  · intro n hn
    have : n = { s.net with name := lkName cfg c v, nuid := (cfg.lk c v).1 } := by
      by_cases ha : s.aspectSource > 0 <;> simp [ha] at hn <;> first | exact hn | exact hn.elim id id
    rw [this]
    exact ⟨rfl, by rw [h]; cases c <;> rfl⟩
  · simp only [markDone_cniOf, cniOf_name_nuid]; exact h.symm

/-- events of the debounce carry the received value and the table's answer: all cases once the callers pass
    "identified" (F35 repaired); before, all cases except "identified station replaced by an unknown CNI" -/
theorem cniRx_faithful (cfg : Cfg) (c : Carrier) (v : Nat) (s : State)
    (hx : cfg.chswIdent = true ∨ ¬ ((cfg.lk c v).1 = 0 ∧ s.net.nuid ≠ 0)) (n : Network)
    (hn : Ev.network n ∈ (cniRx cfg c v s).2 ∨ Ev.networkId n ∈ (cniRx cfg c v s).2) :
    cniOf c n = v ∧ n.nuid = (cfg.lk c v).1 ∧ n.name = lkName cfg c v ∧ cniOf c s.net = v ∧ pending cfg c s := by
  by_cases h : v = cniOf c s.net
  · by_cases h2 : pending cfg c s
    · by_cases h3 : (cfg.lk c v).1 = s.net.nuid
      · rw [cniRx_same cfg c v s h h2 h3] at hn
        simp at hn
        rw [hn]
        exact ⟨by rw [h]; cases c <;> rfl, h3.symm, rfl, h.symm, h2⟩
      · by_cases h4 : s.net.nuid = 0
        · rw [cniRx_first cfg c v s h h2 h3 h4] at hn
          have : n = { s.net with name := lkName cfg c v, nuid := (cfg.lk c v).1 } := by
            simp at hn; first | exact hn | exact hn.elim id id
          rw [this]
          exact ⟨by rw [h]; cases c <;> rfl, rfl, rfl, h.symm, h2⟩
        · have h5 : cfg.chswIdent = true ∨ (cfg.lk c v).1 ≠ 0 := by
            rcases hx with hx | hx
            · exact Or.inl hx
            · exact Or.inr (fun e => hx ⟨e, h4⟩)
          have f := cniRx_switch_facts cfg c v s h h2 h3 h4 h5
          have g := f.2.1 n hn
          refine ⟨g.2, g.1, ?_, h.symm, h2⟩
          rw [cniRx_switch cfg c v s h h2 h3 h4 h5] at hn
          have : n = { s.net with name := lkName cfg c v, nuid := (cfg.lk c v).1 } := by
            by_cases ha : s.aspectSource > 0 <;> simp [ha] at hn <;> first | exact hn | exact hn.elim id id
          rw [this]
    · rw [cniRx_idle cfg c v s h h2] at hn; simp at hn
  · rw [cniRx_change cfg c v s h] at hn; simp at hn

/-- F35 (was F17) in the model, unrepaired call shape: replacing an identified station by an unknown CNI raises
    NETWORK twice and wipes the stored CNIs, so the NETWORK_ID that follows carries 0 instead of the received value -/
theorem cniRx_unknown_facts (cfg : Cfg) (c : Carrier) (v : Nat) (s : State) (h : v = cniOf c s.net) (h2 : pending cfg c s)
    (h4 : s.net.nuid ≠ 0) (h5 : (cfg.lk c v).1 = 0) (hI : cfg.chswIdent = false) :
    countNetwork (cniRx cfg c v s).2 = 2 ∧ Ev.networkId {} ∈ (cniRx cfg c v s).2 ∧ cniOf c (cniRx cfg c v s).1.net = 0 := by
  rw [cniRx_unknown cfg c v s h h2 h4 h5 hI]
  refine ⟨?_, ?_, by simp [markDone_cniOf, cniOf_empty]⟩
  · by_cases ha : s.aspectSource > 0 <;> simp [countNetwork, ha] <;> rfl
  · simp

theorem mem_extra_of_network {q extra : List Ev} (hex : ∀ e ∈ extra, Ev.isExtra e = true) (n : Network)
    (h : Ev.network n ∈ q ++ extra ∨ Ev.networkId n ∈ q ++ extra) : Ev.network n ∈ q ∨ Ev.networkId n ∈ q := by
  rcases h with h | h
  · rcases List.mem_append.mp h with x | x
    · exact Or.inl x
    · exact absurd (hex _ x) (by simp [Ev.isExtra])
  · rcases List.mem_append.mp h with x | x
    · exact Or.inr x
    · exact absurd (hex _ x) (by simp [Ev.isExtra])

/-! ## PROG_ID, LOCAL_TIME -/

theorem cniRx_no_extra (cfg : Cfg) (c : Carrier) (v : Nat) (s : State) : ∀ e ∈ (cniRx cfg c v s).2, Ev.isExtra e = false := by
  apply cniRx_cases cfg c v s (fun r => ∀ e ∈ r.2, Ev.isExtra e = false)
  all_goals intros
  all_goals (rename_i e he; simp at he; try (rcases he with x | x | x | x) <;> simp_all [Ev.isExtra])

theorem announce_vpsPid (cfg : Cfg) (c : Carrier) (v : Nat) (s : State) : (announce cfg c v s).1.vpsPid = s.vpsPid := by
  have vp : ∀ (s : State) (id : Nat), (chswReset s id).1.vpsPid = s.vpsPid := by
    intro s id; simp only [chswReset]; repeat' split
    all_goals simp
  simp only [announce]
  repeat' split
  all_goals simp [vp, markDone_vpsPid]

theorem rxVps_progId (cfg : Cfg) (s : State) (b : Buf) (p : Pid) (h : Ev.progId p ∈ (rxVps cfg s b).2) :
    p = decodeVpsPdc b ∧ s.vpsPid = decodeVpsPdc b ∧ decodeVpsCni b = s.net.cniVps := by
  have ne := cniRx_no_extra cfg .vps (decodeVpsCni b) s
  unfold rxVps at h
  by_cases h1 : decodeVpsCni b = s.net.cniVps
  · by_cases h2 : pending cfg .vps s
    · have q : cniRx cfg .vps (decodeVpsCni b) s = announce cfg .vps (decodeVpsCni b) s := by
        simp [cniRx, cniOf, h1, h2]
      rw [q] at ne
      have pv := announce_vpsPid cfg .vps (decodeVpsCni b) s
      simp only [h1, h2, ne_eq, not_true_eq_false, if_false, if_true] at h
      rw [← h1] at h
      split at h
      · split at h
        · exact absurd (ne _ h) (by simp [Ev.isExtra])
        · rename_i hp
          rcases List.mem_append.mp h with x | x
          · exact absurd (ne _ x) (by simp [Ev.isExtra])
          · simp at x
            refine ⟨x, ?_, h1⟩
            rw [← pv]
            simp at hp
            exact hp.symm
      · exact absurd (ne _ h) (by simp [Ev.isExtra])
    · simp [h1, h2] at h
  · simp [h1] at h

end Zvbi.Net
