import ZvbiModel.Net.LemmasWss
/-!
# Station change, faithful event values, frames as atom lists
-/
namespace Zvbi.Net
open Zvbi.Hamm Zvbi.Codec Zvbi.Gen

theorem countNetwork_append (a b : List Ev) : countNetwork (a ++ b) = countNetwork a + countNetwork b := by
  simp [countNetwork, List.filter_append]

theorem countNetwork_extra (extra : List Ev) (h : ∀ e ∈ extra, Ev.isExtra e = true) : countNetwork extra = 0 := by
  simp only [countNetwork, List.length_eq_zero_iff, List.filter_eq_nil_iff]
  intro e he
  simp [(extra_not_network e (h e he)).1]

theorem frameRaw_eq_runAtoms (cfg : Cfg) (s : State) (t : Nat) (ls : List Line) :
    frameRaw cfg s t ls = runAtoms cfg s (frameAtoms t ls) := by
  have h : ∀ (ls : List Line) (s : State), rxLines cfg t s ls = runAtoms cfg s (ls.map (Atom.line t)) := by
    intro ls
    induction ls with
    | nil => intro s; rfl
    | cons l ls ih => intro s; simp only [rxLines, List.map, runAtoms, stepAtom, ih]
  simp only [frameRaw, frameAtoms, runAtoms, stepAtom, h]

/-- the debounce step that changes the identified station: one NETWORK event, cache flushed -/
theorem cniRx_switch_facts (lk : Lookup) (c : Carrier) (v : Nat) (s : State) (h : v = cniOf c s.net) (h2 : s.net.cycle = 1)
    (h3 : (lk c v).1 ≠ s.net.nuid) (h4 : s.net.nuid ≠ 0) (h5 : (lk c v).1 ≠ 0) :
    countNetwork (cniRx lk c v s).2 = 1 ∧
    (∀ n, (Ev.network n ∈ (cniRx lk c v s).2 ∨ Ev.networkId n ∈ (cniRx lk c v s).2) →
       n.nuid = (lk c v).1 ∧ cniOf c n = v) ∧
    (cniRx lk c v s).1.cached = [] ∧ (cniRx lk c v s).1.net.nuid = (lk c v).1 ∧ (cniRx lk c v s).1.net.cycle = 2 ∧
    cniOf c (cniRx lk c v s).1.net = v := by
  rw [cniRx_switch lk c v s h h2 h3 h4 h5]
  refine ⟨?_, ?_, rfl, rfl, rfl, ?_⟩
  · by_cases ha : s.aspectSource > 0 <;> simp [countNetwork, ha] <;> rfl
  · intro n hn
    have : n = { s.net with name := lkName lk c v, nuid := (lk c v).1 } := by
      by_cases ha : s.aspectSource > 0 <;> simp [ha] at hn <;> first | exact hn | exact hn.elim id id
    rw [this]
    exact ⟨rfl, by rw [h]; cases c <;> rfl⟩
  · simp only [cniOf_name_nuid_cycle]; exact h.symm

/-- events of the debounce carry the received value and the table's answer (all cases except
    "identified station replaced by an unknown CNI", F17) -/
theorem cniRx_faithful (lk : Lookup) (c : Carrier) (v : Nat) (s : State)
    (hx : ¬ ((lk c v).1 = 0 ∧ s.net.nuid ≠ 0)) (n : Network)
    (hn : Ev.network n ∈ (cniRx lk c v s).2 ∨ Ev.networkId n ∈ (cniRx lk c v s).2) :
    cniOf c n = v ∧ n.nuid = (lk c v).1 ∧ n.name = lkName lk c v ∧ cniOf c s.net = v ∧ s.net.cycle = 1 := by
  by_cases h : v = cniOf c s.net
  · by_cases h2 : s.net.cycle = 1
    · by_cases h3 : (lk c v).1 = s.net.nuid
      · rw [cniRx_same lk c v s h h2 h3] at hn
        simp at hn
        rw [hn]
        exact ⟨by rw [h]; cases c <;> rfl, h3.symm, rfl, h.symm, h2⟩
      · by_cases h4 : s.net.nuid = 0
        · rw [cniRx_first lk c v s h h2 h3 h4] at hn
          have : n = { s.net with name := lkName lk c v, nuid := (lk c v).1 } := by
            simp at hn; first | exact hn | exact hn.elim id id
          rw [this]
          exact ⟨by rw [h]; cases c <;> rfl, rfl, rfl, h.symm, h2⟩
        · by_cases h5 : (lk c v).1 = 0
          · exact absurd ⟨h5, h4⟩ hx
          · have f := cniRx_switch_facts lk c v s h h2 h3 h4 h5
            have g := f.2.1 n hn
            refine ⟨g.2, g.1, ?_, h.symm, h2⟩
            rw [cniRx_switch lk c v s h h2 h3 h4 h5] at hn
            have : n = { s.net with name := lkName lk c v, nuid := (lk c v).1 } := by
              by_cases ha : s.aspectSource > 0 <;> simp [ha] at hn <;> first | exact hn | exact hn.elim id id
            rw [this]
    · rw [cniRx_idle lk c v s h h2] at hn; simp at hn
  · rw [cniRx_change lk c v s h] at hn; simp at hn

/-- F17 in the model: replacing an identified station by an unknown CNI raises NETWORK twice and wipes the
    stored CNIs, so the NETWORK_ID that follows carries 0 instead of the received value -/
theorem cniRx_unknown_facts (lk : Lookup) (c : Carrier) (v : Nat) (s : State) (h : v = cniOf c s.net) (h2 : s.net.cycle = 1)
    (h4 : s.net.nuid ≠ 0) (h5 : (lk c v).1 = 0) :
    countNetwork (cniRx lk c v s).2 = 2 ∧ Ev.networkId {} ∈ (cniRx lk c v s).2 ∧ cniOf c (cniRx lk c v s).1.net = 0 := by
  rw [cniRx_unknown lk c v s h h2 h4 h5]
  refine ⟨?_, ?_, by simp [cniOf_empty]⟩
  · by_cases ha : s.aspectSource > 0 <;> simp [countNetwork, ha] <;> rfl
  · simp

theorem mem_extra_of_network {q extra : List Ev} (hex : ∀ e ∈ extra, Ev.isExtra e = true) (n : Network)
    (h : Ev.network n ∈ q ++ extra ∨ Ev.networkId n ∈ q ++ extra) : Ev.network n ∈ q ∨ Ev.networkId n ∈ q := by
  rcases h with h | h
  · rcases List.mem_append.mp h with x | x
    · exact Or.inl x
    · exact absurd (hex _ x) (by simp [Ev.isExtra])
  · rcases List.mem_append.mp h with x | x
    · exact Or.inr x
    · exact absurd (hex _ x) (by simp [Ev.isExtra])

/-! ## PROG_ID, LOCAL_TIME -/

theorem cniRx_no_extra (lk : Lookup) (c : Carrier) (v : Nat) (s : State) : ∀ e ∈ (cniRx lk c v s).2, Ev.isExtra e = false := by
  simp only [cniRx, announce, chswReset]
  repeat' split
  all_goals (intro e he; simp at he; try (rcases he with x | x | x | x) <;> simp_all [Ev.isExtra])

theorem rxVps_progId (lk : Lookup) (s : State) (b : Buf) (p : Pid) (h : Ev.progId p ∈ (rxVps lk s b).2) :
    p = decodeVpsPdc b ∧ s.vpsPid = decodeVpsPdc b ∧ decodeVpsCni b = s.net.cniVps := by
  have vp : ∀ (s : State) (id : Nat), (chswReset s id).1.vpsPid = s.vpsPid := by
    intro s id; simp only [chswReset]; repeat' split
    all_goals simp
  have ne := cniRx_no_extra lk .vps (decodeVpsCni b) s
  unfold rxVps at h
  by_cases h1 : decodeVpsCni b = s.net.cniVps
  · by_cases h2 : s.net.cycle = 1
    · have q : cniRx lk .vps (decodeVpsCni b) s = announce lk .vps (decodeVpsCni b) s := by
        simp [cniRx, cniOf, h1, h2]
      rw [q] at ne
      have pv : (announce lk .vps (decodeVpsCni b) s).1.vpsPid = s.vpsPid := by
        simp only [announce]
        repeat' split
        all_goals simp [vp]
      simp only [h1, h2, ne_eq, not_true_eq_false, if_false, if_true] at h
      rw [← h1] at h
      split at h
      · split at h
        · exact absurd (ne _ h) (by simp [Ev.isExtra])
        · rename_i hp
          rcases List.mem_append.mp h with x | x
          · exact absurd (ne _ x) (by simp [Ev.isExtra])
          · simp at x
            refine ⟨x, ?_, h1⟩
            rw [← pv]
            simp at hp
            exact hp.symm
      · exact absurd (ne _ h) (by simp [Ev.isExtra])
    · simp [h1, h2] at h
  · simp [h1] at h

end Zvbi.Net
