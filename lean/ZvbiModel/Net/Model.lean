import ZvbiModel.Hamm.Model
import ZvbiModel.Codec.Model
import ZvbiModel.Generated.CniTable
import ZvbiModel.Generated.NetFlags
/-!
# Model of the network / programme / time / aspect announcement paths (C13)

Follows, statement by statement,
* `src/packet.c`  `station_lookup`, `vbi_decode_vps`, `parse_bsd`, `parse_8_30` and the part of
  `vbi_decode_teletext` that leads to them (packets 30/31 only),
* `src/wss.c`     `vbi_decode_wss_625`, `vbi_decode_wss_cpr1204`,
* `src/vbi.c`     `vbi_event_enable`, `vbi_decode` (time check, `chswcd` countdown),
  `vbi_chsw_reset`, `vbi_channel_switched`, `vbi_send_event` (one handler: delivery = mask test),
* `src/caption.c` `xds_decoder` class 2 (channel) types 1 (network name) and 2 (call letters),
  `xds_strfu`, `init_hcrc`.

Not modelled here (other components): the XDS packet assembly (`xds_separator`, C09) - an `xds`
line is a complete, checksum-valid packet fed inside one frame; Teletext page assembly (C02) and
the cache (C10) - a `page` line is a complete page fed inside one frame and the model keeps
the set of page numbers cached for the *current* network (`cached`), which `vbi_chsw_reset`
empties because it replaces `vbi->cn`.  The one part of `store_lop` that touches this model's state
is kept: pages up to 199 are not stored while the channel-switch countdown runs.

Times are integer microseconds.  The C code compares doubles; the two boundary deltas (exactly
25000 and 50000 us) are refused on both sides (`rej time`) so that rounding cannot matter.

The station table is a parameter `lk` of every function (`stationLookup` built from the
generated table is what `step` uses), so the theorems hold for every table.

Three code-shape facts are parameters as well (`Cfg`), read from the current source on every run
(translate/gen_net.py, translate/gen_netflags.py), so the model follows the tree with or without
the corresponding repair:
* `xdsGuard`   - caption.c compares the new XDS id with `n->nuid` before it resets (F36, repaired);
* `perCarrier` - F11: `false` = ONE `n->cycle` debounces VPS, 8/30 format 1, 8/30 format 2 (and XDS)
  together; `true` (fixes/C13-cni-cycle-per-carrier.diff) = `vbi->cni_cycle[]` / `vbi->cni_announced[]`,
  one repeat cycle and one "CNI announced last" per carrier, `n->cycle` left to XDS;
* `chswIdent`  - F35: `false` = the three CNI paths call `vbi_chsw_reset (vbi, id)` where `id` may be 0
  (CNI missing from the table), which wipes `vbi->network` and raises a NETWORK event of its own;
  `true` (fixes/C13-unknown-cni-identified.diff) = they pass "identified".
-/
namespace Zvbi.Net
open Zvbi.Hamm Zvbi.Codec Zvbi.Gen

inductive Carrier | vps | p8301 | p8302
deriving DecidableEq, Repr

/-- `vbi_aspect_ratio`; `ratio` is an enum: 0 = 0.0, 1 = 1.0, 2 = 3/4 -/
structure Aspect where
  first : Int := 0
  last : Int := 0
  ratio : Nat := 0
  film : Nat := 0
  subt : Nat := 0
deriving DecidableEq, Repr

def VBI_SUBT_UNKNOWN : Nat := 3
/-- `vbi_reset_prog_info`, aspect part -/
def aspectReset : Aspect := { first := -1, last := -1, ratio := 0, film := 0, subt := VBI_SUBT_UNKNOWN }

/-- `vbi_network` (strings are the bytes before the first NUL) -/
structure Network where
  nuid : Nat := 0
  name : List Nat := []
  call : List Nat := []
  cniVps : Nat := 0
  cni8301 : Nat := 0
  cni8302 : Nat := 0
  cycle : Nat := 0
deriving DecidableEq, Repr

inductive Ev
  | network (n : Network)
  | networkId (n : Network)
  | progId (p : Pid)
  | localTime (t : Int) (east : Int)
  | aspect (a : Aspect)
  | progInfo (a : Aspect)
deriving DecidableEq, Repr

def Ev.type : Ev → Nat
  | .network _ => VBI_EVENT_NETWORK
  | .networkId _ => VBI_EVENT_NETWORK_ID
  | .progId _ => VBI_EVENT_PROG_ID
  | .localTime _ _ => VBI_EVENT_LOCAL_TIME
  | .aspect _ => VBI_EVENT_ASPECT
  | .progInfo _ => VBI_EVENT_PROG_INFO

/-- `vbi->cni_cycle[]`, `vbi->cni_announced[]` (vbi.h, private; indexed by `vbi_cni_type`): exist in
    the source only in the per-carrier shape; the shared-cycle shape never reads them -/
structure Deb where
  cycVps : Nat := 0
  cyc8301 : Nat := 0
  cyc8302 : Nat := 0
  annVps : Nat := 0
  ann8301 : Nat := 0
  ann8302 : Nat := 0
deriving DecidableEq, Repr

structure State where
  mask : Nat := 0            -- vbi->event_mask (= mask of the single handler)
  time : Nat := 0            -- vbi->time, microseconds
  chswcd : Nat := 0
  net : Network := {}        -- vbi->network.ev.network
  vpsPid : Pid := {}
  wssLast : Nat × Nat := (0, 0)
  wssRep : Nat := 0
  wssTime : Nat := 0
  aspect : Aspect := {}      -- vbi->prog_info[0].aspect (calloc: zero)
  aspectSource : Nat := 0
  cached : List Nat := []    -- page numbers cached in vbi->cn
  deb : Deb := {}            -- vbi->cni_cycle[], vbi->cni_announced[]
deriving DecidableEq, Repr

def init : State := {}

/-! ## station_lookup (packet.c:1081) -/

abbrev Lookup := Carrier → Nat → Nat × List Nat

/-- what the model takes from the translator: the station table look-up and one code-shape fact
    (`xdsGuard`: does the XDS network-name path compare the new id with `n->nuid` before it resets
    and raises NETWORK, as the three CNI paths do?  `false` on the tree this was written against) -/
structure Cfg where
  lk : Lookup
  xdsGuard : Bool
  /-- F11 repaired: one repeat cycle and one announced CNI per carrier (packet.c uses `vbi->cni_cycle[]`) -/
  perCarrier : Bool := false
  /-- F35 repaired: the CNI paths call `vbi_chsw_reset (vbi, TRUE)` -/
  chswIdent : Bool := false
  /-- vbi_event_enable resets `prog_info[]` / `aspect_source` only when NEITHER of ASPECT / PROG_INFO was enabled
      before (the inner test `!(vbi->event_mask & (VBI_EVENT_ASPECT | VBI_EVENT_PROG_INFO))`, vbi.c:159) -/
  enableKeepsInfo : Bool := true

def findBy (f : CniEntry → Nat) (cni : Nat) : List CniEntry → Option CniEntry
  | [] => none
  | e :: es => if f e = cni then some e else findBy f cni es

def stationLookupIn (tbl : List CniEntry) (c : Carrier) (cni : Nat) : Nat × List Nat :=
  if cni = 0 then (0, []) else
  let res (o : Option CniEntry) : Nat × List Nat := match o with
    | some e => (e.id, e.name)
    | none => (0, [])
  match c with
  | .p8301 => res (findBy (·.cni1) cni tbl)
  | .p8302 =>
    match findBy (·.cni2) cni tbl with
    | some e => (e.id, e.name)
    | none => res (findBy (·.cni4) (cni &&& 0x0FFF) tbl)   -- falls through to the VPS search (also when the masked value is 0)
  | .vps => res (findBy (·.cni4) cni tbl)

def stationLookup : Lookup := stationLookupIn cniTable

def cfg0 : Cfg := { lk := stationLookup, xdsGuard := Zvbi.Gen.xdsNuidGuard,
                    perCarrier := Zvbi.Gen.Net.cniCyclePerCarrier, chswIdent := Zvbi.Gen.Net.chswCallersIdentified,
                    enableKeepsInfo := Zvbi.Gen.Net.enableKeepsProgInfo }

/-! ## vbi_send_event with a single handler -/

def hasBit (m b : Nat) : Bool := m &&& b != 0

def deliver (mask : Nat) (evs : List Ev) : List Ev := evs.filter (fun e => hasBit mask e.type)

/-! ## vbi_chsw_reset (vbi.c:495) -/

def chswAspect (src : Nat) : Aspect :=
  { first := if src = 1 then 23 else 22, last := if src = 1 then 310 else 262, ratio := 1, film := 0, subt := VBI_SUBT_UNKNOWN }

def chswReset (s : State) (identified : Nat) : State × List Ev :=
  let old := s.net.nuid
  let s := { s with cached := [] }                       -- vbi->cn replaced by a fresh network
  let (s, e1) : State × List Ev :=
    if identified = 0 then
      let s := { s with net := {}, deb := {} }          -- memset (&vbi->network), CLEAR (cni_cycle / cni_announced)
      (s, if old ≠ 0 then [Ev.network s.net] else [])
    else (s, [])
  let e2 : List Ev := if s.aspectSource > 0 then [Ev.aspect (chswAspect s.aspectSource)] else []
  ({ s with aspect := aspectReset, aspectSource := 0, wssLast := (0, 0), wssRep := 0, wssTime := 0, chswcd := 0 },
   e1 ++ e2)

/-! ## the CNI debounce shared (textually triplicated) by VPS, 8/30-1, 8/30-2 -/

def cniOf (c : Carrier) (n : Network) : Nat :=
  match c with
  | .vps => n.cniVps
  | .p8301 => n.cni8301
  | .p8302 => n.cni8302

def setCni (c : Carrier) (n : Network) (v : Nat) : Network :=
  match c with
  | .vps => { n with cniVps := v }
  | .p8301 => { n with cni8301 := v }
  | .p8302 => { n with cni8302 := v }

def cycOf (c : Carrier) (d : Deb) : Nat :=
  match c with
  | .vps => d.cycVps
  | .p8301 => d.cyc8301
  | .p8302 => d.cyc8302

def annOf (c : Carrier) (d : Deb) : Nat :=
  match c with
  | .vps => d.annVps
  | .p8301 => d.ann8301
  | .p8302 => d.ann8302

def setCyc (c : Carrier) (d : Deb) (k : Nat) : Deb :=
  match c with
  | .vps => { d with cycVps := k }
  | .p8301 => { d with cyc8301 := k }
  | .p8302 => { d with cyc8302 := k }

def setAnn (c : Carrier) (d : Deb) (v : Nat) : Deb :=
  match c with
  | .vps => { d with annVps := v }
  | .p8301 => { d with ann8301 := v }
  | .p8302 => { d with ann8302 := v }

/-- `n->cycle == 1` resp. `vbi->cni_cycle[c] == 1`: a changed CNI waits for its repeat -/
def pending (cfg : Cfg) (c : Carrier) (s : State) : Prop :=
  if cfg.perCarrier then cycOf c s.deb = 1 else s.net.cycle = 1
instance (cfg : Cfg) (c : Carrier) (s : State) : Decidable (pending cfg c s) := by unfold pending; infer_instance

/-- the `if (cni != n->cni_x)` branch: `n->cni_x = cni; n->cycle = 1;` resp.
    `n->cni_x = cni; vbi->cni_cycle[c] = (cni != vbi->cni_announced[c]);` -/
def markChange (cfg : Cfg) (c : Carrier) (v : Nat) (s : State) : State :=
  if cfg.perCarrier then
    { s with net := setCni c s.net v, deb := setCyc c s.deb (if v ≠ annOf c s.deb then 1 else 0) }
  else { s with net := { setCni c s.net v with cycle := 1 } }

/-- `n->cycle = 2;` resp. `vbi->cni_cycle[c] = 2; vbi->cni_announced[c] = cni;` -/
def markDone (cfg : Cfg) (c : Carrier) (v : Nat) (s : State) : State :=
  if cfg.perCarrier then { s with deb := setAnn c (setCyc c s.deb 2) v }
  else { s with net := { s.net with cycle := 2 } }

/-- the `else if (cycle == 1)` branch: lookup, name, NETWORK (+ reset) if the id changed,
    NETWORK_ID, cycle = 2 -/
def announce (cfg : Cfg) (c : Carrier) (v : Nat) (s : State) : State × List Ev :=
  let id := (cfg.lk c v).1
  let s := { s with net := { s.net with name := if id = 0 then [] else (cfg.lk c v).2.take 62 } }
  let (s, e1) : State × List Ev :=
    if id ≠ s.net.nuid then
      let (s, e0) : State × List Ev :=
        if s.net.nuid ≠ 0 then chswReset s (if cfg.chswIdent then 1 else id) else (s, [])
      let s := { s with net := { s.net with nuid := id } }
      (s, e0 ++ [Ev.network s.net])
    else (s, [])
  (markDone cfg c v s, e1 ++ [Ev.networkId s.net])

/-- the `if (cni != n->cni_x) ... else if (cycle == 1) ...` skeleton -/
def cniRx (cfg : Cfg) (c : Carrier) (v : Nat) (s : State) : State × List Ev :=
  if v ≠ cniOf c s.net then (markChange cfg c v s, [])
  else if pending cfg c s then announce cfg c v s
  else (s, [])

/-! ## vbi_decode_vps (packet.c:1168) -/

def rxVps (cfg : Cfg) (s : State) (b : Buf) : State × List Ev :=
  let cni := decodeVpsCni b
  if cni ≠ s.net.cniVps then
    ({ markChange cfg .vps cni s with vpsPid := decodeVpsPdc b }, [])
  else if pending cfg .vps s then
    let (s, evs) := announce cfg .vps cni s
    if hasBit s.mask VBI_EVENT_PROG_ID then
      let pid := decodeVpsPdc b
      if pid ≠ s.vpsPid then ({ s with vpsPid := pid }, evs)
      else (s, evs ++ [Ev.progId pid])
    else (s, evs)
  else (s, [])

/-! ## vbi_decode_teletext -> parse_8_30 -> parse_bsd (packet.c:2107, 1242) -/

/-- CNI of a format-2 packet as `parse_bsd` computes it; `none` = Hamming error (`return FALSE`) -/
def bsdCni2 (b : Buf) : Option Nat :=
  match unham16p (bt b 8) (bt b 9), unham16p (bt b 10) (bt b 11), unham16p (bt b 12) (bt b 13),
        unham16p (bt b 14) (bt b 15), unham16p (bt b 16) (bt b 17), unham16p (bt b 18) (bt b 19),
        unham16p (bt b 20) (bt b 21) with
  | some _, some t1, some t2, some _, some t4, some t5, some _ =>
    let b1 := rev8 t1; let b2 := rev8 t2; let b4 := rev8 t4; let b5 := rev8 t5
    let cni := ((b4 &&& 0x03) <<< 10) + ((b5 &&& 0xC0) <<< 2) + (b2 &&& 0xC0) + (b5 &&& 0x3F) + ((b1 &&& 0x0F) <<< 12)
    some (if cni = 0x0DC3 then (if b2 &&& 0x10 != 0 then 0x0DC2 else 0x0DC1) else cni)
  | _, _, _, _, _, _, _ => none

/-- `parse_bsd` for packet 30; `none` = FALSE -/
def parseBsd (cfg : Cfg) (s : State) (b : Buf) (designation : Nat) : Option (State × List Ev) :=
  if designation ≥ 4 then some (s, [])
  else if designation ≤ 1 then some (cniRx cfg .p8301 (decode8301Cni b) s)
  else match bsdCni2 b with
    | none => none
    | some cni => some (cniRx cfg .p8302 cni s)

/-- `unham_page_link` succeeds (its result, the initial page, is not part of this model) -/
def pageLinkOk (b : Buf) : Bool :=
  (unham16p (bt b 3) (bt b 4)).isSome && (unham16p (bt b 5) (bt b 6)).isSome && (unham16p (bt b 7) (bt b 8)).isSome

def parse830 (cfg : Cfg) (s : State) (b : Buf) : State × List Ev :=
  match unham8 (bt b 2) with
  | none => (s, [])
  | some designation =>
    if designation > 4 then (s, []) else
    if hasBit s.mask VBI_EVENT_TTX_PAGE && !pageLinkOk b then (s, []) else
    let r : Option (State × List Ev) :=
      if hasBit s.mask (VBI_EVENT_NETWORK ||| VBI_EVENT_NETWORK_ID) then parseBsd cfg s b designation else some (s, [])
    match r with
    | none => (s, [])
    | some (s, evs) =>
      if designation < 2 then
        if hasBit s.mask VBI_EVENT_LOCAL_TIME then
          match decode8301LocalTime b with
          | none => (s, evs)
          | some (t, east) => (s, evs ++ [Ev.localTime t east])
        else (s, evs)
      else
        if hasBit s.mask VBI_EVENT_PROG_ID then
          match decode8302Pdc b with
          | none => (s, evs)
          | some pid => (s, evs ++ [Ev.progId pid])
        else (s, evs)

/-- packet number of a Teletext line (`none`: Hamming error in the address) -/
def ttxPacket (b : Buf) : Option Nat := (unham16p (bt b 0) (bt b 1)).map (· >>> 3)

/-- `vbi_decode_teletext` restricted to packets 30 and 31 (the frame op is refused otherwise) -/
def rxTtx (cfg : Cfg) (s : State) (b : Buf) : State × List Ev :=
  match unham16p (bt b 0) (bt b 1) with
  | none => (s, [])
  | some pmag => if pmag &&& 15 = 0 then parse830 cfg s b else (s, [])

/-! ## vbi_decode_wss_625 (wss.c:34) -/

def wssParityOk (b0 : Nat) : Bool :=
  let p := b0 &&& 15
  let p := p ^^^ (p >>> 2)
  let p := p ^^^ (p >>> 1)
  p &&& 1 != 0

def wssAspect (b0 b1 : Nat) : Aspect :=
  let flr : Int × Int × Nat :=
    match b0 &&& 7 with
    | 0 => (23, 310, 1)
    | 6 => (23, 310, 1)
    | 1 => (41, 292, 1)
    | 2 => (23, 274, 1)
    | 3 => (59, 273, 1)
    | 5 => (59, 273, 1)
    | 4 => (23, 237, 1)
    | _ => (23, 310, 2)
  { first := flr.1, last := flr.2.1, ratio := flr.2.2, film := if b0 &&& 0x10 != 0 then 1 else 0,
    subt := (b1 >>> 1) &&& 3 }

def rxWss (s : State) (b0 b1 : Nat) (t : Nat) : State × List Ev :=
  if t < s.wssTime then (s, []) else
  let s := { s with wssTime := t }
  if (b0, b1) ≠ s.wssLast then ({ s with wssLast := (b0, b1), wssRep := 0 }, []) else
  let s := { s with wssRep := s.wssRep + 1 }
  if s.wssRep < 3 then (s, []) else
  if !wssParityOk b0 then (s, []) else
  let r := wssAspect b0 b1
  if r ≠ s.aspect then ({ s with aspect := r, aspectSource := 1 }, [Ev.aspect r, Ev.progInfo r])
  else (s, [])

/-! ## vbi_decode_wss_cpr1204 (wss.c:160) -/

/-- the aspect a CPR-1204 (525-line WSS) word encodes: `buf[0]` bit 7 = anamorphic 16:9, bit 6 = letterbox;
    nothing else of the three bytes is read -/
def cprAspect (b0 : Nat) : Aspect :=
  { first := if b0 &&& 0x40 != 0 then 72 else 22, last := if b0 &&& 0x40 != 0 then 212 else 262,
    ratio := if b0 &&& 0x80 != 0 then 2 else 1, film := 0, subt := VBI_SUBT_UNKNOWN }

/-- `vbi_decode_wss_cpr1204`: no repeat counter, no parity; announced whenever the record differs from the stored one -/
def rxCpr (s : State) (b0 : Nat) : State × List Ev :=
  let r := cprAspect b0
  if r ≠ s.aspect then ({ s with aspect := r, aspectSource := 2 }, [Ev.aspect r, Ev.progInfo r])
  else (s, [])

/-! ## xds_decoder, class XDS_CHANNEL (caption.c:488) -/

/-- `hcrc[i]` of `init_hcrc` -/
def hcrc (i : Nat) : Nat :=
  (List.range 7).foldl (fun sum j => if i &&& (1 <<< j) != 0 then sum ^^^ (0x48000000 >>> j) else sum) 0

/-- `xds_strfu`: new string and `neq != 0` -/
def xdsStrfu (old : List Nat) (buf : List Nat) : List Nat × Bool :=
  let new := (buf.dropWhile (· ≤ 0x20)).map (fun c => max 0x20 c)
  (new, new != old)

def xdsNuid (str : List Nat) : Nat :=
  let sum := str.foldl (fun sum c => (sum >>> 7) ^^^ hcrc ((sum ^^^ c) &&& 0x7F)) 0
  (sum &&& (2 ^ 31 - 1)) ||| 2 ^ 30

def rxXds (guard : Bool) (s : State) (ty : Nat) (buf : List Nat) : State × List Ev :=
  if ty = 1 then
    let (name, neq) := xdsStrfu s.net.name buf
    let s := { s with net := { s.net with name := name } }
    if neq then ({ s with net := { s.net with cycle := 1 } }, [])
    else if s.net.cycle = 1 then
      let sum := xdsNuid (if s.net.call ≠ [] then s.net.call else s.net.name)
      if guard && sum = s.net.nuid then
        -- (only with fixes/xds-name-reannounce.diff) same station: NETWORK_ID only
        ({ s with net := { s.net with cycle := 3 } }, [Ev.networkId s.net])
      else
        let (s, e0) : State × List Ev := if s.net.nuid ≠ 0 then chswReset s sum else (s, [])
        let s := { s with net := { s.net with nuid := sum } }
        ({ s with net := { s.net with cycle := 3 } }, e0 ++ [Ev.network s.net, Ev.networkId s.net])
    else (s, [])
  else if ty = 2 then
    let (call, neq) := xdsStrfu s.net.call buf
    let s := { s with net := { s.net with call := call } }
    if neq && s.net.cycle != 1 then ({ s with net := { s.net with name := [], cycle := 0 } }, [])
    else (s, [])
  else (s, [])

/-! ## vbi_decode (vbi.c:423) -/

inductive Line
  | vps (b : Buf)
  | ttx (b : Buf)
  | wss (b0 b1 : Nat)
  | xds (ty : Nat) (bytes : List Nat)
  | page (pgno : Nat)
  | cpr (b0 : Nat)            -- VBI_SLICED_WSS_CPR1204, first of its three bytes
deriving DecidableEq, Repr

/-- time check and `chswcd` countdown at the head of `vbi_decode` -/
def prologue (s : State) (t : Nat) : State × List Ev :=
  let bad : Bool := s.time > 0 && (t < s.time + 25000 || t > s.time + 50000)
  let (s, evs) : State × List Ev :=
    if bad then ({ s with chswcd := if s.chswcd = 0 then 40 else s.chswcd }, [])
    else if s.chswcd > 0 then
      (if s.chswcd - 1 = 0 then chswReset { s with chswcd := 0 } 0 else ({ s with chswcd := s.chswcd - 1 }, []))
    else (s, [])
  ({ s with time := if t > s.time then t else s.time }, evs)

def rxLine (cfg : Cfg) (t : Nat) (s : State) (l : Line) : State × List Ev :=
  match l with
  | .vps b => rxVps cfg s b
  | .ttx b => rxTtx cfg s b
  | .wss b0 b1 => rxWss s b0 b1 t
  | .xds ty bytes => rxXds cfg.xdsGuard s ty bytes
  | .page pgno =>
    -- store_lop (packet.c:1523): a page up to 199 takes part in the rolling-header test; the harness'
    -- header text carries no page number, so `same_header` is inconclusive (-2) and while the
    -- channel-switch countdown runs the page is dropped (`if (vbi->chswcd > 0) return TRUE`)
    if hasBit s.mask VBI_EVENT_TTX_PAGE && !(pgno ≤ 0x199 && s.chswcd > 0) then
      ({ s with cached := if s.cached.contains pgno then s.cached else pgno :: s.cached }, [])
    else (s, [])
  | .cpr b0 => rxCpr s b0

def rxLines (cfg : Cfg) (t : Nat) (s : State) : List Line → State × List Ev
  | [] => (s, [])
  | l :: ls =>
    let (s1, e1) := rxLine cfg t s l
    let (s2, e2) := rxLines cfg t s1 ls
    (s2, e1 ++ e2)

/-- one call of `vbi_decode`: all events raised (before the handler's mask filter) -/
def frameRaw (cfg : Cfg) (s : State) (t : Nat) (ls : List Line) : State × List Ev :=
  let (s1, e1) := prologue s t
  let (s2, e2) := rxLines cfg t s1 ls
  (s2, e1 ++ e2)

/-- one call of `vbi_decode`: events the handler sees -/
def frame (cfg : Cfg) (s : State) (t : Nat) (ls : List Line) : State × List Ev :=
  let r := frameRaw cfg s t ls
  (r.1, deliver s.mask r.2)

/-! ## vbi_event_enable (vbi.c:141) through vbi_event_handler_register with one handler -/

def eventEnable (keeps : Bool) (s : State) (m : Nat) : State :=
  let act := m &&& (0xFFFF ^^^ (s.mask &&& 0xFFFF))
  let s := if hasBit act (VBI_EVENT_NETWORK ||| VBI_EVENT_NETWORK_ID) then { s with net := {}, deb := {} } else s
  let s := if hasBit act (VBI_EVENT_ASPECT ||| VBI_EVENT_PROG_INFO) &&
              (!keeps || !hasBit s.mask (VBI_EVENT_ASPECT ||| VBI_EVENT_PROG_INFO))
           then { s with aspect := aspectReset, aspectSource := 0 } else s
  let s := if hasBit act VBI_EVENT_PROG_ID then { s with vpsPid := {} } else s
  { s with mask := m }

/-! ## ops of the line protocol -/

inductive Op
  | mask (m : Nat)
  | frame (t : Nat) (ls : List Line)
  | chsw                      -- vbi_channel_switched
  | cached (pgno : Nat)       -- vbi_is_cached (pgno, VBI_ANY_SUBNO)
  | state
  | note                      -- scenario annotation for the oracle; no effect
deriving Repr

inductive Out
  | evs (l : List Ev)
  | bool (b : Bool)
  | dump (s : State)
  | rej (why : String)
deriving Repr

/-- masks the model covers -/
def maskAllowed : Nat :=
  VBI_EVENT_TTX_PAGE ||| VBI_EVENT_CAPTION ||| VBI_EVENT_NETWORK ||| VBI_EVENT_ASPECT ||| VBI_EVENT_PROG_INFO |||
  VBI_EVENT_NETWORK_ID ||| VBI_EVENT_LOCAL_TIME ||| VBI_EVENT_PROG_ID

def timeLimit : Nat := 2 ^ 40

/-- the two deltas at which the C double comparison could round either way -/
def timeAmbiguous (s : State) (t : Nat) : Bool :=
  s.time > 0 && (t = s.time + 25000 || t = s.time + 50000)

/-- bytes of an XDS packet body the harness can transmit: first of a pair 0x20..0x7F, second 0x01..0x7F -/
def xdsBytesOk : List Nat → Bool
  | [] => true
  | [a] => 0x20 ≤ a && a ≤ 0x7F
  | a :: b :: rest => 0x20 ≤ a && a ≤ 0x7F && 1 ≤ b && b ≤ 0x7F && xdsBytesOk rest

def lineOk : Line → Bool
  | .vps b => b.length = 13
  | .ttx b => b.length = 42 && (match ttxPacket b with | some p => p ≥ 30 | none => true)
  | .wss _ _ => true
  | .xds ty bytes => (ty = 1 || ty = 2) && 1 ≤ bytes.length && bytes.length ≤ 32 && xdsBytesOk bytes
  | .page pgno => 0x100 ≤ pgno && pgno ≤ 0x8FF && pgno % 16 ≤ 9 && (pgno / 16) % 16 ≤ 9
  | .cpr _ => true

def stepWith (cfg : Cfg) (s : State) (op : Op) : State × Out :=
  match op with
  | .mask m => if m &&& maskAllowed = m then (eventEnable cfg.enableKeepsInfo s m, .evs []) else (s, .rej "mask")
  | .frame t ls =>
    if t ≥ timeLimit || timeAmbiguous s t then (s, .rej "time")
    else if !ls.all lineOk then (s, .rej "kind")
    else let r := frame cfg s t ls; (r.1, .evs r.2)
  | .chsw => ({ s with chswcd := 1 }, .evs [])
  | .cached pgno => (s, .bool (s.cached.contains pgno))
  | .state => (s, .dump s)
  | .note => (s, .evs [])

def step : State → Op → State × Out := stepWith cfg0

/-- run a history, collecting the outputs -/
def runWith (cfg : Cfg) (s : State) : List Op → State × List Out
  | [] => (s, [])
  | op :: ops =>
    let (s1, o) := stepWith cfg s op
    let (s2, os) := runWith cfg s1 ops
    (s2, o :: os)

end Zvbi.Net
