import ZvbiModel.Net.Model
/-!
# Vocabulary of the C13 theorems

Histories are lists of *atoms*: the head of a `vbi_decode` call (`tick`, time check and
countdown) and its sliced lines are separate atoms, so a frame is just `tick t` followed by
its lines (`frameRaw_eq_runAtoms`) and every interleaving of carriers inside and across
frames is a list of atoms.  Statements about all atom lists are therefore statements about
all frame histories.
-/
namespace Zvbi.Net
open Zvbi.Hamm Zvbi.Codec Zvbi.Gen

inductive Atom
  | tick (t : Nat)               -- head of vbi_decode at time t
  | line (t : Nat) (l : Line)    -- one sliced line of the frame with time stamp t
  | mask (m : Nat)               -- handler (re)registered with mask m
  | chsw                         -- vbi_channel_switched
deriving Repr

/-- all events raised (before the handler's mask filter) -/
def stepAtom (cfg : Cfg) (s : State) : Atom → State × List Ev
  | .tick t => prologue s t
  | .line t l => rxLine cfg t s l
  | .mask m => (eventEnable cfg.enableKeepsInfo s m, [])
  | .chsw => ({ s with chswcd := 1 }, [])

def runAtoms (cfg : Cfg) (s : State) : List Atom → State × List Ev
  | [] => (s, [])
  | a :: as =>
    let r1 := stepAtom cfg s a
    let r2 := runAtoms cfg r1.1 as
    (r2.1, r1.2 ++ r2.2)

def frameAtoms (t : Nat) (ls : List Line) : List Atom := Atom.tick t :: ls.map (Atom.line t)

/-! ## events -/

def Ev.isNetwork : Ev → Bool
  | .network _ => true
  | _ => false

def Ev.isNetworkId : Ev → Bool
  | .networkId _ => true
  | _ => false

def Ev.isAspect : Ev → Bool
  | .aspect _ => true
  | _ => false

/-- events that are neither NETWORK nor NETWORK_ID (PROG_ID, LOCAL_TIME of the same line) -/
def Ev.isExtra : Ev → Bool
  | .progId _ => true
  | .localTime _ _ => true
  | _ => false

/-- the name `station_lookup` leaves in `n->name` -/
def lkName (cfg : Cfg) (c : Carrier) (v : Nat) : List Nat := if (cfg.lk c v).1 = 0 then [] else (cfg.lk c v).2.take 62

/-- result of the debounce for the reception a line constitutes -/
def cniStep (cfg : Cfg) (s : State) : Option (Carrier × Nat) → State × List Ev
  | some (c, v) => cniRx cfg c v s
  | none => (s, [])

/-- number of NETWORK events -/
def countNetwork (evs : List Ev) : Nat := (evs.filter Ev.isNetwork).length

/-- no NETWORK and no NETWORK_ID event -/
def Silent (evs : List Ev) : Prop := ∀ e ∈ evs, e.isNetwork = false ∧ e.isNetworkId = false

/-- no NETWORK event (a NETWORK_ID repeating the known station is allowed) -/
def NoNetwork (evs : List Ev) : Prop := ∀ e ∈ evs, e.isNetwork = false

/-! ## what a line transmits -/

/-- the (carrier, CNI) pair `parse_8_30`/`parse_bsd` hand to the debounce for a packet 8/30,
    `none` if the packet never gets there (Hamming error, other packet, BSDATA events off) -/
def ttxCni (mask : Nat) (b : Buf) : Option (Carrier × Nat) :=
  match unham16p (bt b 0) (bt b 1) with
  | none => none
  | some pmag =>
    if pmag &&& 15 = 0 then
      match unham8 (bt b 2) with
      | none => none
      | some designation =>
        if designation > 4 then none else
        if hasBit mask VBI_EVENT_TTX_PAGE && !pageLinkOk b then none else
        if hasBit mask (VBI_EVENT_NETWORK ||| VBI_EVENT_NETWORK_ID) then
          if designation ≥ 4 then none
          else if designation ≤ 1 then some (.p8301, decode8301Cni b)
          else (bsdCni2 b).map (fun v => (Carrier.p8302, v))
        else none
    else none

/-- the reception a line constitutes for the CNI debounce -/
def lineCni (mask : Nat) : Line → Option (Carrier × Nat)
  | .vps b => some (.vps, decodeVpsCni b)
  | .ttx b => ttxCni mask b
  | _ => none

/-- the line cannot be a reception on carrier `c` (syntactic: VPS lines for `vps`, Teletext lines for both 8/30 formats) -/
def Line.freeOf (c : Carrier) : Line → Bool
  | .vps _ => c != .vps
  | .ttx _ => c == .vps
  | _ => true

def Atom.freeOf (c : Carrier) : Atom → Bool
  | .line _ l => l.freeOf c
  | _ => true

def Line.isWss : Line → Bool
  | .wss _ _ => true
  | _ => false

def Atom.wssFree : Atom → Bool
  | .line _ l => !l.isWss
  | _ => true

/-! ## regular timing: no frame is dropped, so the countdown never starts -/

/-- every `tick` comes 25..50 ms after the latest time seen (or is the first) -/
def RegularFrom : Nat → List Atom → Prop
  | _, [] => True
  | time, .tick t :: as => (time = 0 ∨ (time + 25000 ≤ t ∧ t ≤ time + 50000)) ∧ RegularFrom (if t > time then t else time) as
  | time, _ :: as => RegularFrom time as

/-! ## the station as the sender sees it -/

/-- CNI lines, WSS lines, page lines and ticks only; every CNI reception carries the station's value for
    its carrier (then the carrier must be one whose value resolves to the station's id: `ok c`), or a
    deviating value that is not the one stored for that carrier (`lg c` = the deviating value received
    last on carrier `c`, if the last one deviated): "isolated corrupted words", any number of them, on
    any carrier, in any interleaving, but never the same wrong value twice in a row on one carrier. -/
def NoRepeatedGlitch (st : Carrier → Nat) (ok : Carrier → Bool) (mask : Nat) : (Carrier → Option Nat) → List Atom → Prop
  | _, [] => True
  | lg, .tick _ :: as => NoRepeatedGlitch st ok mask lg as
  | lg, .line _ l :: as =>
    (match l with
     | .xds _ _ => False
     | _ => True) ∧
    (match lineCni mask l with
     | none => NoRepeatedGlitch st ok mask lg as
     | some (c, v) =>
       if v = st c then ok c = true ∧ NoRepeatedGlitch st ok mask (fun c' => if c' = c then none else lg c') as
       else lg c ≠ some v ∧ NoRepeatedGlitch st ok mask (fun c' => if c' = c then some v else lg c') as)
  | _, _ :: _ => False

/-- every reception equals what the decoder has stored (`n`), nothing else happens -/
def SameAsStored (n : Network) (mask : Nat) : Atom → Prop
  | .tick _ => True
  | .line _ l =>
    match l with
    | .xds ty bytes =>
      (ty = 1 → (xdsStrfu n.name bytes).2 = false) ∧ (ty = 2 → (xdsStrfu n.call bytes).2 = false)
    | _ => ∀ c v, lineCni mask l = some (c, v) → v = cniOf c n
  | _ => False

end Zvbi.Net
