import ZvbiModel.Net.LemmasGlitch
/-!
# While every reception equals what is stored nothing is announced; the repeat rule
-/
namespace Zvbi.Net
open Zvbi.Hamm Zvbi.Codec Zvbi.Gen

theorem Silent_nil : Silent [] := by intro e he; cases he

theorem Silent_append {a b : List Ev} (ha : Silent a) (hb : Silent b) : Silent (a ++ b) := by
  intro e he
  rcases List.mem_append.mp he with h | h
  · exact ha e h
  · exact hb e h

theorem Silent_extra {extra : List Ev} (h : ∀ e ∈ extra, Ev.isExtra e = true) : Silent extra :=
  fun e he => extra_not_network e (h e he)

theorem xdsStrfu_same (old buf : List Nat) (h : (xdsStrfu old buf).2 = false) : (xdsStrfu old buf).1 = old := by
  simp only [xdsStrfu] at h ⊢
  simpa using h

/-- an XDS name / call-letters packet equal to what is stored, nothing pending: no effect -/
theorem rxXds_same (g : Bool) (s : State) (ty : Nat) (bytes : List Nat) (hc : s.net.cycle ≠ 1)
    (h1 : ty = 1 → (xdsStrfu s.net.name bytes).2 = false) (h2 : ty = 2 → (xdsStrfu s.net.call bytes).2 = false) :
    rxXds g s ty bytes = (s, []) := by
  unfold rxXds
  by_cases t1 : ty = 1
  · have e := xdsStrfu_same _ _ (h1 t1)
    simp only [t1, if_true, h1 t1, e, hc, if_false]
    simp
  · by_cases t2 : ty = 2
    · have e := xdsStrfu_same _ _ (h2 t2)
      simp only [t1, t2, if_true, if_false, h2 t2, e]
      simp
    · simp [t1, t2]

theorem stable_run (cfg : Cfg) (n : Network) (mask : Nat) (hn : n.cycle ≠ 1) :
    ∀ (atoms : List Atom) (s : State), s.net = n → s.chswcd = 0 → s.mask = mask →
      RegularFrom s.time atoms → (∀ a ∈ atoms, SameAsStored n mask a) →
      Silent (runAtoms cfg s atoms).2 ∧ (runAtoms cfg s atoms).1.net = n ∧ s.cached ⊆ (runAtoms cfg s atoms).1.cached := by
  intro atoms
  induction atoms with
  | nil => intro s h _ _ _ _; exact ⟨Silent_nil, h, List.Subset.refl _⟩
  | cons a as ih =>
    intro s hnet hcd hm hreg hq
    have hqa := hq a (List.mem_cons_self ..)
    have hqs : ∀ a ∈ as, SameAsStored n mask a := fun x hx => hq x (List.mem_cons_of_mem _ hx)
    cases a with
    | mask m => exact absurd hqa (by simp [SameAsStored])
    | chsw => exact absurd hqa (by simp [SameAsStored])
    | tick t =>
      simp only [RegularFrom] at hreg
      have hp := prologue_regular s t hcd hreg.1
      simp only [runAtoms, stepAtom, hp]
      have r := ih { s with time := if t > s.time then t else s.time } hnet hcd hm hreg.2 hqs
      exact ⟨Silent_append Silent_nil r.1, r.2.1, r.2.2⟩
    | line t l =>
      simp only [RegularFrom] at hreg
      simp only [runAtoms, stepAtom]
      cases l with
      | xds ty bytes =>
        simp only [SameAsStored] at hqa
        have e : rxLine cfg t s (.xds ty bytes) = (s, []) := by
          simp only [rxLine]
          exact rxXds_same _ s ty bytes (by rw [hnet]; exact hn) (by rw [hnet]; exact hqa.1) (by rw [hnet]; exact hqa.2)
        rw [e]
        have r := ih s hnet hcd hm hreg hqs
        exact ⟨Silent_append Silent_nil r.1, r.2.1, r.2.2⟩
      | wss b0 b1 =>
        have k := rxWss_keeps s b0 b1 t
        have r := ih (rxLine cfg t s (.wss b0 b1)).1 (k.1.trans hnet) (k.2.2.1.trans hcd) (k.2.2.2.1.trans hm)
          (by rw [show (rxLine cfg t s (.wss b0 b1)).1.time = s.time from k.2.2.2.2.1]; exact hreg) hqs
        refine ⟨Silent_append (fun e he => k.2.2.2.2.2 e he) r.1, r.2.1, ?_⟩
        have hc : (rxLine cfg t s (.wss b0 b1)).1.cached = s.cached := k.2.1
        rw [← hc]; exact r.2.2
      | page pgno =>
        by_cases hb : hasBit s.mask VBI_EVENT_TTX_PAGE = true
        · have e : rxLine cfg t s (.page pgno) =
              ({ s with cached := if s.cached.contains pgno then s.cached else pgno :: s.cached }, []) := by
            simp [rxLine, hb]
          rw [e]
          have r := ih { s with cached := if s.cached.contains pgno then s.cached else pgno :: s.cached } hnet hcd hm hreg hqs
          refine ⟨Silent_append Silent_nil r.1, r.2.1, ?_⟩
          refine List.Subset.trans ?_ r.2.2
          intro x hx
          simp only []
          split
          · exact hx
          · exact List.mem_cons_of_mem _ hx
        · have e : rxLine cfg t s (.page pgno) = (s, []) := by simp [rxLine, hb]
          rw [e]
          have r := ih s hnet hcd hm hreg hqs
          exact ⟨Silent_append Silent_nil r.1, r.2.1, r.2.2⟩
      | vps b =>
        have k := rxLine_cniStep cfg t s (.vps b) (Or.inl ⟨b, rfl⟩)
        obtain ⟨extra, hev, hex⟩ := k.2.2.2.2.2.2.2.2
        have hv : decodeVpsCni b = cniOf .vps s.net := by
          simp only [SameAsStored] at hqa
          rw [hnet]; exact hqa .vps (decodeVpsCni b) (by simp [lineCni])
        have e := cniRx_idle cfg.lk .vps (decodeVpsCni b) s hv (by rw [hnet]; exact hn)
        simp only [lineCni, cniStep, e] at k hev
        have r := ih (rxLine cfg t s (.vps b)).1 (k.1.trans hnet) (k.2.2.1.trans hcd) (k.2.2.2.1.trans hm)
          (by rw [k.2.2.2.2.1]; exact hreg) hqs
        refine ⟨?_, r.2.1, ?_⟩
        · rw [hev]; exact Silent_append (Silent_append Silent_nil (Silent_extra hex)) r.1
        · rw [← k.2.1]; exact r.2.2
      | ttx b =>
        have k := rxLine_cniStep cfg t s (.ttx b) (Or.inr ⟨b, rfl⟩)
        obtain ⟨extra, hev, hex⟩ := k.2.2.2.2.2.2.2.2
        have hs : cniStep cfg.lk s (lineCni s.mask (.ttx b)) = (s, []) := by
          cases hq' : lineCni s.mask (.ttx b) with
          | none => rfl
          | some p =>
            obtain ⟨c, v⟩ := p
            simp only [SameAsStored] at hqa
            have hv : v = cniOf c s.net := by rw [hnet]; exact hqa c v (by rw [← hm]; exact hq')
            exact cniRx_idle cfg.lk c v s hv (by rw [hnet]; exact hn)
        rw [hs] at k hev
        have r := ih (rxLine cfg t s (.ttx b)).1 (k.1.trans hnet) (k.2.2.1.trans hcd) (k.2.2.2.1.trans hm)
          (by rw [k.2.2.2.2.1]; exact hreg) hqs
        refine ⟨?_, r.2.1, ?_⟩
        · rw [hev]; exact Silent_append (Silent_append Silent_nil (Silent_extra hex)) r.1
        · rw [← k.2.1]; exact r.2.2

end Zvbi.Net
