import ZvbiModel.Net.LemmasGlitch
/-!
# While every reception equals what is stored nothing is announced; the repeat rule
-/
namespace Zvbi.Net
open Zvbi.Hamm Zvbi.Codec Zvbi.Gen

theorem xdsStrfu_same (old buf : List Nat) (h : (xdsStrfu old buf).2 = false) : (xdsStrfu old buf).1 = old := by
  simp only [xdsStrfu] at h ⊢
  simpa using h

/-- an XDS name / call-letters packet equal to what is stored, nothing pending: no effect -/
theorem rxXds_same (g : Bool) (s : State) (ty : Nat) (bytes : List Nat) (hc : s.net.cycle ≠ 1)
    (h1 : ty = 1 → (xdsStrfu s.net.name bytes).2 = false) (h2 : ty = 2 → (xdsStrfu s.net.call bytes).2 = false) :
    rxXds g s ty bytes = (s, []) := by
  unfold rxXds
  by_cases t1 : ty = 1
  · have e := xdsStrfu_same _ _ (h1 t1)
    simp only [t1, if_true, h1 t1, e, hc, if_false]
    simp
  · by_cases t2 : ty = 2
    · have e := xdsStrfu_same _ _ (h2 t2)
      simp only [t1, t2, if_true, if_false, h2 t2, e]
      simp
    · simp [t1, t2]

/-- clock after an atom -/
def timeAfter (time : Nat) : Atom → Nat
  | .tick t => if t > time then t else time
  | _ => time

theorem RegularFrom_tail (time : Nat) (a : Atom) (as : List Atom) (h : RegularFrom time (a :: as)) :
    RegularFrom (timeAfter time a) as := by
  cases a <;> simp only [RegularFrom, timeAfter] at h ⊢
  · exact h.2
  all_goals exact h

/-- one atom of a stable history: nothing announced, record / countdown / mask unchanged, no page lost -/
theorem stable_step (cfg : Cfg) (n : Network) (d : Deb) (mask : Nat) (hn : n.cycle ≠ 1)
    (hnp : ∀ c, cfg.perCarrier = true → cycOf c d ≠ 1) (s : State) (a : Atom) (as : List Atom)
    (hnet : s.net = n) (hdeb : s.deb = d) (hcd : s.chswcd = 0) (hm : s.mask = mask)
    (hreg : RegularFrom s.time (a :: as)) (hqa : SameAsStored n mask a) :
    Silent (stepAtom cfg s a).2 ∧ (stepAtom cfg s a).1.net = n ∧ (stepAtom cfg s a).1.chswcd = 0 ∧
    (stepAtom cfg s a).1.mask = mask ∧ (stepAtom cfg s a).1.time = timeAfter s.time a ∧
    s.cached ⊆ (stepAtom cfg s a).1.cached ∧ (stepAtom cfg s a).1.deb = d := by
  have np : ∀ c, ¬ pending cfg c s := by
    intro c
    unfold pending
    split
    · rename_i hp; rw [hdeb]; exact hnp c hp
    · rw [hnet]; exact hn
  cases a with
  | mask m => exact absurd hqa (by simp [SameAsStored])
  | chsw => exact absurd hqa (by simp [SameAsStored])
  | tick t =>
    simp only [RegularFrom] at hreg
    have hp := prologue_regular s t hcd hreg.1
    simp only [stepAtom, hp, timeAfter]
    refine ⟨Silent_nil, hnet, hcd, hm, ?_, List.Subset.refl _, hdeb⟩
    first | rfl | trivial
  | line t l =>
    simp only [stepAtom, timeAfter]
    cases l with
    | xds ty bytes =>
      simp only [SameAsStored] at hqa
      have e : rxLine cfg t s (.xds ty bytes) = (s, []) := by
        simp only [rxLine]
        exact rxXds_same _ s ty bytes (by rw [hnet]; exact hn) (by rw [hnet]; exact hqa.1) (by rw [hnet]; exact hqa.2)
      rw [e]
      exact ⟨Silent_nil, hnet, hcd, hm, rfl, List.Subset.refl _, hdeb⟩
    | wss b0 b1 =>
      have k := rxWss_keeps s b0 b1 t
      refine ⟨fun e he => k.2.2.2.2.2 e he, k.1.trans hnet, k.2.2.1.trans hcd, k.2.2.2.1.trans hm, k.2.2.2.2.1, ?_,
        (rxWss_deb s b0 b1 t).trans hdeb⟩
      have hc : (rxLine cfg t s (.wss b0 b1)).1.cached = s.cached := k.2.1
      rw [hc]; exact List.Subset.refl _
    | cpr c0 =>
      have k := rxCpr_keeps s c0
      refine ⟨fun e he => k.2.2.2.2.2 e he, k.1.trans hnet, k.2.2.1.trans hcd, k.2.2.2.1.trans hm, k.2.2.2.2.1, ?_,
        (rxCpr_rest s c0).1.trans hdeb⟩
      have hc : (rxLine cfg t s (.cpr c0)).1.cached = s.cached := k.2.1
      rw [hc]; exact List.Subset.refl _
    | page pgno =>
      rcases (rxLine_page cfg t s pgno) with e | e
      · rw [e]; exact ⟨Silent_nil, hnet, hcd, hm, rfl, List.Subset.refl _, hdeb⟩
      · rw [e]
        refine ⟨Silent_nil, hnet, hcd, hm, rfl, ?_, hdeb⟩
        intro x hx
        simp only []
        split
        · exact hx
        · exact List.mem_cons_of_mem _ hx
    | vps b =>
      have k := rxLine_cniStep cfg t s (.vps b) (Or.inl ⟨b, rfl⟩)
      obtain ⟨extra, hev, hex⟩ := k.2.2.2.2.2.2.2.2
      have hv : decodeVpsCni b = cniOf .vps s.net := by
        simp only [SameAsStored] at hqa
        rw [hnet]; exact hqa .vps (decodeVpsCni b) (by simp [lineCni])
      have kd := rxLine_cniStep_deb cfg t s (.vps b) (Or.inl ⟨b, rfl⟩)
      have e := cniRx_idle cfg .vps (decodeVpsCni b) s hv (np .vps)
      simp only [lineCni, cniStep, e] at k hev kd
      refine ⟨?_, k.1.trans hnet, k.2.2.1.trans hcd, k.2.2.2.1.trans hm, k.2.2.2.2.1, ?_, kd.trans hdeb⟩
      · rw [hev]; exact Silent_append Silent_nil (Silent_extra hex)
      · rw [k.2.1]; exact List.Subset.refl _
    | ttx b =>
      have k := rxLine_cniStep cfg t s (.ttx b) (Or.inr ⟨b, rfl⟩)
      obtain ⟨extra, hev, hex⟩ := k.2.2.2.2.2.2.2.2
      have hs : cniStep cfg s (lineCni s.mask (.ttx b)) = (s, []) := by
        cases hq' : lineCni s.mask (.ttx b) with
        | none => rfl
        | some p =>
          obtain ⟨c, v⟩ := p
          simp only [SameAsStored] at hqa
          have hv : v = cniOf c s.net := by rw [hnet]; exact hqa c v (by rw [← hm]; exact hq')
          exact cniRx_idle cfg c v s hv (np c)
      have kd := rxLine_cniStep_deb cfg t s (.ttx b) (Or.inr ⟨b, rfl⟩)
      rw [hs] at k hev kd
      refine ⟨?_, k.1.trans hnet, k.2.2.1.trans hcd, k.2.2.2.1.trans hm, k.2.2.2.2.1, ?_, kd.trans hdeb⟩
      · rw [hev]; exact Silent_append Silent_nil (Silent_extra hex)
      · rw [k.2.1]; exact List.Subset.refl _

/-- a stable history: nothing announced, record unchanged, countdown idle, and a page once cached stays cached -/
theorem stable_run (cfg : Cfg) (n : Network) (d : Deb) (mask : Nat) (hn : n.cycle ≠ 1)
    (hnp : ∀ c, cfg.perCarrier = true → cycOf c d ≠ 1) :
    ∀ (atoms : List Atom) (s : State), s.net = n → s.deb = d → s.chswcd = 0 → s.mask = mask →
      RegularFrom s.time atoms → (∀ a ∈ atoms, SameAsStored n mask a) →
      Silent (runAtoms cfg s atoms).2 ∧ (runAtoms cfg s atoms).1.net = n ∧ (runAtoms cfg s atoms).1.chswcd = 0 ∧
      (runAtoms cfg s atoms).1.mask = mask ∧
      (∀ q1 q2, atoms = q1 ++ q2 → (runAtoms cfg s q1).1.cached ⊆ (runAtoms cfg s atoms).1.cached) ∧
      (runAtoms cfg s atoms).1.deb = d := by
  intro atoms
  induction atoms with
  | nil =>
    intro s h hd hcd hm _ _
    refine ⟨Silent_nil, h, hcd, hm, ?_, hd⟩
    intro q1 q2 e
    have : q1 = [] := by
      cases q1 with
      | nil => rfl
      | cons x xs => simp at e
    rw [this]; exact List.Subset.refl _
  | cons a as ih =>
    intro s hnet hd hcd hm hreg hq
    have st := stable_step cfg n d mask hn hnp s a as hnet hd hcd hm hreg (hq a (List.mem_cons_self ..))
    have r := ih (stepAtom cfg s a).1 st.2.1 st.2.2.2.2.2.2 st.2.2.1 st.2.2.2.1
      (by rw [st.2.2.2.2.1]; exact RegularFrom_tail s.time a as hreg)
      (fun x hx => hq x (List.mem_cons_of_mem _ hx))
    simp only [runAtoms]
    refine ⟨Silent_append st.1 r.1, r.2.1, r.2.2.1, r.2.2.2.1, ?_, r.2.2.2.2.2⟩
    intro q1 q2 e
    cases q1 with
    | nil =>
      simp only [runAtoms]
      exact List.Subset.trans st.2.2.2.2.2.1 (r.2.2.2.2.1 [] as rfl)
    | cons x xs =>
      simp only [List.cons_append, List.cons.injEq] at e
      rw [← e.1]
      simp only [runAtoms]
      exact r.2.2.2.2.1 xs q2 e.2

end Zvbi.Net
