import ZvbiModel.Net.Spec
/-!
# Helper lemmas for the C13 theorems (no Mathlib needed)
-/
namespace Zvbi.Net
open Zvbi.Hamm Zvbi.Codec Zvbi.Gen

/-! ## vbi_chsw_reset -/

theorem chswReset_identified (s : State) (id : Nat) (h : id ≠ 0) :
    (chswReset s id).1.net = s.net ∧ (chswReset s id).1.cached = [] ∧ (chswReset s id).1.chswcd = 0 ∧
    (chswReset s id).1.mask = s.mask ∧ (chswReset s id).1.time = s.time ∧ (chswReset s id).1.vpsPid = s.vpsPid ∧
    (∀ e ∈ (chswReset s id).2, e = Ev.aspect (chswAspect s.aspectSource)) := by
  unfold chswReset
  simp only [h, if_false]
  refine ⟨by simp, by simp, by simp, by simp, by simp, by simp, ?_⟩
  intro e he
  by_cases hs : s.aspectSource > 0 <;> simp [hs] at he
  exact he

theorem chswReset_zero (s : State) :
    (chswReset s 0).1.net = {} ∧ (chswReset s 0).1.cached = [] ∧ (chswReset s 0).1.chswcd = 0 ∧
    (chswReset s 0).1.mask = s.mask ∧ (chswReset s 0).1.time = s.time ∧
    (chswReset s 0).1.wssLast = (0, 0) ∧ (chswReset s 0).1.wssRep = 0 ∧ (chswReset s 0).1.wssTime = 0 := by
  unfold chswReset
  simp

/-! ## the debounce skeleton, case by case -/

theorem cniRx_change (lk : Lookup) (c : Carrier) (v : Nat) (s : State) (h : v ≠ cniOf c s.net) :
    cniRx lk c v s = ({ s with net := { setCni c s.net v with cycle := 1 } }, []) := by
  simp [cniRx, h]

theorem cniRx_idle (lk : Lookup) (c : Carrier) (v : Nat) (s : State) (h : v = cniOf c s.net) (h2 : s.net.cycle ≠ 1) :
    cniRx lk c v s = (s, []) := by
  simp [cniRx, h.symm, h2]

theorem cniRx_same (lk : Lookup) (c : Carrier) (v : Nat) (s : State) (h : v = cniOf c s.net) (h2 : s.net.cycle = 1)
    (h3 : (lk c v).1 = s.net.nuid) :
    cniRx lk c v s = ({ s with net := { s.net with name := lkName lk c v, cycle := 2 } },
                      [Ev.networkId { s.net with name := lkName lk c v }]) := by
  simp [cniRx, announce, lkName, h.symm, h2, h3]

theorem cniRx_first (lk : Lookup) (c : Carrier) (v : Nat) (s : State) (h : v = cniOf c s.net) (h2 : s.net.cycle = 1)
    (h3 : (lk c v).1 ≠ s.net.nuid) (h4 : s.net.nuid = 0) :
    cniRx lk c v s = ({ s with net := { s.net with name := lkName lk c v, nuid := (lk c v).1, cycle := 2 } },
                      [Ev.network { s.net with name := lkName lk c v, nuid := (lk c v).1 },
                       Ev.networkId { s.net with name := lkName lk c v, nuid := (lk c v).1 }]) := by
  have h3' : (lk c v).1 ≠ 0 := by rw [h4] at h3; exact h3
  simp [cniRx, announce, lkName, h.symm, h2, h3', h4]

theorem cniRx_switch (lk : Lookup) (c : Carrier) (v : Nat) (s : State) (h : v = cniOf c s.net) (h2 : s.net.cycle = 1)
    (h3 : (lk c v).1 ≠ s.net.nuid) (h4 : s.net.nuid ≠ 0) (h5 : (lk c v).1 ≠ 0) :
    cniRx lk c v s =
      ({ s with net := { s.net with name := lkName lk c v, nuid := (lk c v).1, cycle := 2 }, cached := [],
                aspect := aspectReset, aspectSource := 0, wssLast := (0, 0), wssRep := 0, wssTime := 0, chswcd := 0 },
       (if s.aspectSource > 0 then [Ev.aspect (chswAspect s.aspectSource)] else []) ++
         [Ev.network { s.net with name := lkName lk c v, nuid := (lk c v).1 },
          Ev.networkId { s.net with name := lkName lk c v, nuid := (lk c v).1 }]) := by
  simp [cniRx, announce, lkName, chswReset, h.symm, h2, h3, h4, h5]

theorem cniRx_unknown (lk : Lookup) (c : Carrier) (v : Nat) (s : State) (h : v = cniOf c s.net) (h2 : s.net.cycle = 1)
    (h4 : s.net.nuid ≠ 0) (h5 : (lk c v).1 = 0) :
    cniRx lk c v s =
      ({ s with net := { cycle := 2 }, cached := [],
                aspect := aspectReset, aspectSource := 0, wssLast := (0, 0), wssRep := 0, wssTime := 0, chswcd := 0 },
       [Ev.network {}] ++ (if s.aspectSource > 0 then [Ev.aspect (chswAspect s.aspectSource)] else []) ++
         [Ev.network {}, Ev.networkId {}]) := by
  have h3 : ¬ (0 = s.net.nuid) := fun e => h4 e.symm
  simp [cniRx, announce, chswReset, h.symm, h2, h3, h4, h5]

/-! ## what the debounce does to the stored CNIs -/

theorem cniOf_setCni_self (c : Carrier) (n : Network) (v : Nat) : cniOf c (setCni c n v) = v := by
  cases c <;> rfl

theorem cniOf_setCni_other (c c' : Carrier) (n : Network) (v : Nat) (h : c' ≠ c) : cniOf c' (setCni c n v) = cniOf c' n := by
  cases c <;> cases c' <;> first | rfl | exact absurd rfl h

theorem cniOf_cycle (c : Carrier) (n : Network) (k : Nat) : cniOf c { n with cycle := k } = cniOf c n := by
  cases c <;> rfl

theorem cniOf_name_cycle (c : Carrier) (n : Network) (nm : List Nat) (k : Nat) :
    cniOf c { n with name := nm, cycle := k } = cniOf c n := by
  cases c <;> rfl

theorem cniOf_name_nuid_cycle (c : Carrier) (n : Network) (nm : List Nat) (i k : Nat) :
    cniOf c { n with name := nm, nuid := i, cycle := k } = cniOf c n := by
  cases c <;> rfl

theorem cniOf_empty (c : Carrier) (k : Nat) : cniOf c { cycle := k } = 0 := by
  cases c <;> rfl

/-- after a reception of `v` on carrier `c` the stored value of `c` is `v`, or everything was wiped -/
theorem cniRx_cni_self (lk : Lookup) (c : Carrier) (v : Nat) (s : State) :
    cniOf c (cniRx lk c v s).1.net = v ∨ cniOf c (cniRx lk c v s).1.net = 0 := by
  by_cases h : v = cniOf c s.net
  · by_cases h2 : s.net.cycle = 1
    · by_cases h3 : (lk c v).1 = s.net.nuid
      · rw [cniRx_same lk c v s h h2 h3]; left; simp [cniOf_name_cycle, h]
      · by_cases h4 : s.net.nuid = 0
        · rw [cniRx_first lk c v s h h2 h3 h4]; left; simp [cniOf_name_nuid_cycle, h]
        · by_cases h5 : (lk c v).1 = 0
          · rw [cniRx_unknown lk c v s h h2 h4 h5]; right; simp [cniOf_empty]
          · rw [cniRx_switch lk c v s h h2 h3 h4 h5]; left; simp [cniOf_name_nuid_cycle, h]
    · rw [cniRx_idle lk c v s h h2]; left; exact h.symm
  · rw [cniRx_change lk c v s h]; left; simp [cniOf_cycle, cniOf_setCni_self]

/-- a reception on carrier `c` leaves the stored value of another carrier alone, or everything was wiped -/
theorem cniRx_cni_other (lk : Lookup) (c c' : Carrier) (v : Nat) (s : State) (hc : c' ≠ c) :
    cniOf c' (cniRx lk c v s).1.net = cniOf c' s.net ∨ cniOf c' (cniRx lk c v s).1.net = 0 := by
  by_cases h : v = cniOf c s.net
  · by_cases h2 : s.net.cycle = 1
    · by_cases h3 : (lk c v).1 = s.net.nuid
      · rw [cniRx_same lk c v s h h2 h3]; left; simp [cniOf_name_cycle]
      · by_cases h4 : s.net.nuid = 0
        · rw [cniRx_first lk c v s h h2 h3 h4]; left; simp [cniOf_name_nuid_cycle]
        · by_cases h5 : (lk c v).1 = 0
          · rw [cniRx_unknown lk c v s h h2 h4 h5]; right; simp [cniOf_empty]
          · rw [cniRx_switch lk c v s h h2 h3 h4 h5]; left; simp [cniOf_name_nuid_cycle]
    · rw [cniRx_idle lk c v s h h2]; left; rfl
  · rw [cniRx_change lk c v s h]; left; simp [cniOf_cycle, cniOf_setCni_other _ _ _ _ hc]

/-! ## lines and the debounce -/

theorem rxVps_eq (lk : Lookup) (s : State) (b : Buf) :
    (rxVps lk s b).1 = { (cniRx lk .vps (decodeVpsCni b) s).1 with vpsPid := (rxVps lk s b).1.vpsPid } ∧
    ∃ extra, (rxVps lk s b).2 = (cniRx lk .vps (decodeVpsCni b) s).2 ++ extra ∧ ∀ e ∈ extra, Ev.isExtra e = true := by
  by_cases h1 : decodeVpsCni b = s.net.cniVps
  · by_cases h2 : s.net.cycle = 1
    · simp only [rxVps, cniRx, cniOf, h1, h2, ne_eq, not_true_eq_false, if_false, if_true]
      split
      · split
        · exact ⟨rfl, [], by simp, by simp⟩
        · exact ⟨rfl, [_], rfl, by simp [Ev.isExtra]⟩
      · exact ⟨rfl, [], by simp, by simp⟩
    · simp [rxVps, cniRx, cniOf, h1, h2]
  · simp [rxVps, cniRx, cniOf, setCni, h1]

/-- the part of `parse_8_30` after `parse_bsd` -/
def tail830 (b : Buf) (designation : Nat) (s : State) (evs : List Ev) : State × List Ev :=
  if designation < 2 then
    if hasBit s.mask VBI_EVENT_LOCAL_TIME then
      match decode8301LocalTime b with
      | none => (s, evs)
      | some (t, east) => (s, evs ++ [Ev.localTime t east])
    else (s, evs)
  else
    if hasBit s.mask VBI_EVENT_PROG_ID then
      match decode8302Pdc b with
      | none => (s, evs)
      | some pid => (s, evs ++ [Ev.progId pid])
    else (s, evs)

theorem tail830_eq (b : Buf) (d : Nat) (s : State) (evs : List Ev) :
    (tail830 b d s evs).1 = s ∧ ∃ extra, (tail830 b d s evs).2 = evs ++ extra ∧ ∀ e ∈ extra, Ev.isExtra e = true := by
  unfold tail830
  split
  · split
    · split
      · exact ⟨rfl, [], by simp, by simp⟩
      · exact ⟨rfl, [_], rfl, by simp [Ev.isExtra]⟩
    · exact ⟨rfl, [], by simp, by simp⟩
  · split
    · split
      · exact ⟨rfl, [], by simp, by simp⟩
      · exact ⟨rfl, [_], rfl, by simp [Ev.isExtra]⟩
    · exact ⟨rfl, [], by simp, by simp⟩

theorem rxTtx_eq (lk : Lookup) (s : State) (b : Buf) :
    (rxTtx lk s b).1 = (cniStep lk s (ttxCni s.mask b)).1 ∧
    ∃ extra, (rxTtx lk s b).2 = (cniStep lk s (ttxCni s.mask b)).2 ++ extra ∧ ∀ e ∈ extra, Ev.isExtra e = true := by
  have nil : (s, ([] : List Ev)).1 = (cniStep lk s none).1 ∧
      ∃ extra, (s, ([] : List Ev)).2 = (cniStep lk s none).2 ++ extra ∧ ∀ e ∈ extra, Ev.isExtra e = true :=
    ⟨rfl, [], rfl, by simp⟩
  unfold rxTtx ttxCni
  cases h0 : unham16p (bt b 0) (bt b 1) with
  | none => exact nil
  | some pmag =>
    simp only []
    by_cases hp : pmag &&& 15 = 0
    · simp only [hp, if_true]
      unfold parse830
      cases hd : unham8 (bt b 2) with
      | none => exact nil
      | some d =>
        simp only []
        by_cases h4 : d > 4
        · simp only [h4, if_true]; exact nil
        · simp only [h4, if_false]
          by_cases hl : (hasBit s.mask VBI_EVENT_TTX_PAGE && !pageLinkOk b) = true
          · simp only [hl, if_true]; exact nil
          · simp only [hl]
            by_cases hb : hasBit s.mask (VBI_EVENT_NETWORK ||| VBI_EVENT_NETWORK_ID) = true
            · simp only [hb, if_true]
              unfold parseBsd
              by_cases g4 : d ≥ 4
              · simp only [g4, if_true]
                exact tail830_eq b d s []
              · simp only [g4, if_false]
                by_cases g1 : d ≤ 1
                · simp only [g1, if_true]
                  exact tail830_eq b d _ _
                · simp only [g1, if_false]
                  cases hc : bsdCni2 b with
                  | none => exact nil
                  | some cni => exact tail830_eq b d _ _
            · simp only [hb]
              exact tail830_eq b d s []
    · simp only [hp, if_false]; exact nil

theorem extra_not_network (e : Ev) (h : Ev.isExtra e = true) : e.isNetwork = false ∧ e.isNetworkId = false := by
  cases e <;> simp_all [Ev.isExtra, Ev.isNetwork, Ev.isNetworkId]

theorem cniRx_mask (lk : Lookup) (c : Carrier) (v : Nat) (s : State) : (cniRx lk c v s).1.mask = s.mask := by
  simp only [cniRx, announce, chswReset]
  repeat' split
  all_goals simp

theorem cniRx_time (lk : Lookup) (c : Carrier) (v : Nat) (s : State) : (cniRx lk c v s).1.time = s.time := by
  simp only [cniRx, announce, chswReset]
  repeat' split
  all_goals simp

theorem cniStep_mask (lk : Lookup) (s : State) (o : Option (Carrier × Nat)) : (cniStep lk s o).1.mask = s.mask := by
  cases o with
  | none => rfl
  | some p => exact cniRx_mask lk p.1 p.2 s

theorem cniStep_time (lk : Lookup) (s : State) (o : Option (Carrier × Nat)) : (cniStep lk s o).1.time = s.time := by
  cases o with
  | none => rfl
  | some p => exact cniRx_time lk p.1 p.2 s

/-- a VPS or Teletext line is the debounce step of the reception it constitutes, plus PROG_ID / LOCAL_TIME events -/
theorem rxLine_cniStep (cfg : Cfg) (t : Nat) (s : State) (l : Line) (h : (∃ b, l = .vps b) ∨ (∃ b, l = .ttx b)) :
    (rxLine cfg t s l).1.net = (cniStep cfg.lk s (lineCni s.mask l)).1.net ∧
    (rxLine cfg t s l).1.cached = (cniStep cfg.lk s (lineCni s.mask l)).1.cached ∧
    (rxLine cfg t s l).1.chswcd = (cniStep cfg.lk s (lineCni s.mask l)).1.chswcd ∧
    (rxLine cfg t s l).1.mask = s.mask ∧ (rxLine cfg t s l).1.time = s.time ∧
    (rxLine cfg t s l).1.wssLast = (cniStep cfg.lk s (lineCni s.mask l)).1.wssLast ∧
    (rxLine cfg t s l).1.wssRep = (cniStep cfg.lk s (lineCni s.mask l)).1.wssRep ∧
    (rxLine cfg t s l).1.wssTime = (cniStep cfg.lk s (lineCni s.mask l)).1.wssTime ∧
    ∃ extra, (rxLine cfg t s l).2 = (cniStep cfg.lk s (lineCni s.mask l)).2 ++ extra ∧ ∀ e ∈ extra, Ev.isExtra e = true := by
  rcases h with ⟨b, rfl⟩ | ⟨b, rfl⟩
  · have h := rxVps_eq cfg.lk s b
    simp only [rxLine, lineCni, cniStep]
    refine ⟨?_, ?_, ?_, ?_, ?_, ?_, ?_, ?_, h.2⟩
    · rw [h.1]
    · rw [h.1]
    · rw [h.1]
    · rw [h.1]; exact cniRx_mask _ _ _ _
    · rw [h.1]; exact cniRx_time _ _ _ _
    · rw [h.1]
    · rw [h.1]
    · rw [h.1]
  · have h := rxTtx_eq cfg.lk s b
    simp only [rxLine, lineCni]
    refine ⟨?_, ?_, ?_, ?_, ?_, ?_, ?_, ?_, h.2⟩
    · rw [h.1]
    · rw [h.1]
    · rw [h.1]
    · rw [h.1]; exact cniStep_mask _ _ _
    · rw [h.1]; exact cniStep_time _ _ _
    · rw [h.1]
    · rw [h.1]
    · rw [h.1]

/-- a page line stores the page or does nothing -/
theorem rxLine_page (cfg : Cfg) (t : Nat) (s : State) (pgno : Nat) :
    rxLine cfg t s (.page pgno) = (s, []) ∨
    rxLine cfg t s (.page pgno) = ({ s with cached := if s.cached.contains pgno then s.cached else pgno :: s.cached }, []) := by
  simp only [rxLine]
  split
  · right; rfl
  · left; rfl

theorem rxWss_keeps (s : State) (b0 b1 t : Nat) :
    (rxWss s b0 b1 t).1.net = s.net ∧ (rxWss s b0 b1 t).1.cached = s.cached ∧ (rxWss s b0 b1 t).1.chswcd = s.chswcd ∧
    (rxWss s b0 b1 t).1.mask = s.mask ∧ (rxWss s b0 b1 t).1.time = s.time ∧
    ∀ e ∈ (rxWss s b0 b1 t).2, e.isNetwork = false ∧ e.isNetworkId = false := by
  simp only [rxWss]
  repeat' split
  all_goals simp [Ev.isNetwork, Ev.isNetworkId]

/-- a regular tick with no countdown running only advances the clock -/
theorem prologue_regular (s : State) (t : Nat) (hcd : s.chswcd = 0)
    (hreg : s.time = 0 ∨ (s.time + 25000 ≤ t ∧ t ≤ s.time + 50000)) :
    prologue s t = ({ s with time := if t > s.time then t else s.time }, []) := by
  have hbad : (decide (s.time > 0) && (decide (t < s.time + 25000) || decide (t > s.time + 50000))) = false := by
    rcases hreg with h | ⟨h1, h2⟩
    · simp [h]
    · have a : ¬ t < s.time + 25000 := by omega
      have b : ¬ t > s.time + 50000 := by omega
      simp [a, b]
  simp [prologue, hbad, hcd]

end Zvbi.Net
