import ZvbiModel.Net.Spec
/-!
# Helper lemmas for the C13 theorems (no Mathlib needed)
-/
namespace Zvbi.Net
open Zvbi.Hamm Zvbi.Codec Zvbi.Gen

/-! ## vbi_chsw_reset -/

theorem chswReset_identified (s : State) (id : Nat) (h : id ≠ 0) :
    (chswReset s id).1.net = s.net ∧ (chswReset s id).1.cached = [] ∧ (chswReset s id).1.chswcd = 0 ∧
    (chswReset s id).1.mask = s.mask ∧ (chswReset s id).1.time = s.time ∧ (chswReset s id).1.vpsPid = s.vpsPid ∧
    (∀ e ∈ (chswReset s id).2, e = Ev.aspect (chswAspect s.aspectSource)) := by
  unfold chswReset
  simp only [h, if_false]
  refine ⟨by simp, by simp, by simp, by simp, by simp, by simp, ?_⟩
  intro e he
  by_cases hs : s.aspectSource > 0 <;> simp [hs] at he
  exact he

theorem chswReset_zero (s : State) :
    (chswReset s 0).1.net = {} ∧ (chswReset s 0).1.cached = [] ∧ (chswReset s 0).1.chswcd = 0 ∧
    (chswReset s 0).1.mask = s.mask ∧ (chswReset s 0).1.time = s.time ∧
    (chswReset s 0).1.wssLast = (0, 0) ∧ (chswReset s 0).1.wssRep = 0 ∧ (chswReset s 0).1.wssTime = 0 := by
  unfold chswReset
  simp

theorem chswReset_identified_deb (s : State) (id : Nat) (h : id ≠ 0) : (chswReset s id).1.deb = s.deb := by
  unfold chswReset
  simp [h]

theorem chswReset_zero_deb (s : State) : (chswReset s 0).1.deb = {} := by
  unfold chswReset
  simp

/-- `vbi_chsw_reset` looks at its second argument only in `if (identified == 0)` -/
theorem chswReset_nonzero (s : State) (id : Nat) (h : id ≠ 0) : chswReset s id = chswReset s 1 := by
  unfold chswReset
  simp [h]

/-! ## the two shapes of the cycle bookkeeping (`markChange`, `markDone`, `pending`) -/

section marks
variable (cfg : Cfg) (c : Carrier) (v : Nat) (s : State)

theorem cycOf_setCyc_self (d : Deb) (k : Nat) : cycOf c (setCyc c d k) = k := by cases c <;> rfl
theorem cycOf_setCyc_other (c' : Carrier) (d : Deb) (k : Nat) (h : c' ≠ c) : cycOf c' (setCyc c d k) = cycOf c' d := by
  cases c <;> cases c' <;> first | rfl | exact absurd rfl h
theorem cycOf_setAnn (c' : Carrier) (d : Deb) (k : Nat) : cycOf c' (setAnn c d k) = cycOf c' d := by
  cases c <;> cases c' <;> rfl
theorem annOf_setCyc (c' : Carrier) (d : Deb) (k : Nat) : annOf c' (setCyc c d k) = annOf c' d := by
  cases c <;> cases c' <;> rfl
theorem annOf_setAnn_self (d : Deb) (k : Nat) : annOf c (setAnn c d k) = k := by cases c <;> rfl
theorem annOf_setAnn_other (c' : Carrier) (d : Deb) (k : Nat) (h : c' ≠ c) : annOf c' (setAnn c d k) = annOf c' d := by
  cases c <;> cases c' <;> first | rfl | exact absurd rfl h

theorem markDone_nuid : (markDone cfg c v s).net.nuid = s.net.nuid := by
  unfold markDone; split <;> rfl
theorem markDone_name : (markDone cfg c v s).net.name = s.net.name := by
  unfold markDone; split <;> rfl
theorem markDone_call : (markDone cfg c v s).net.call = s.net.call := by
  unfold markDone; split <;> rfl
theorem markDone_cniOf (c' : Carrier) : cniOf c' (markDone cfg c v s).net = cniOf c' s.net := by
  unfold markDone; split
  · rfl
  · cases c' <;> rfl
theorem markDone_cached : (markDone cfg c v s).cached = s.cached := by unfold markDone; split <;> rfl
theorem markDone_chswcd : (markDone cfg c v s).chswcd = s.chswcd := by unfold markDone; split <;> rfl
theorem markDone_mask : (markDone cfg c v s).mask = s.mask := by unfold markDone; split <;> rfl
theorem markDone_time : (markDone cfg c v s).time = s.time := by unfold markDone; split <;> rfl
theorem markDone_wssLast : (markDone cfg c v s).wssLast = s.wssLast := by unfold markDone; split <;> rfl
theorem markDone_wssRep : (markDone cfg c v s).wssRep = s.wssRep := by unfold markDone; split <;> rfl
theorem markDone_wssTime : (markDone cfg c v s).wssTime = s.wssTime := by unfold markDone; split <;> rfl
theorem markDone_aspect : (markDone cfg c v s).aspect = s.aspect := by unfold markDone; split <;> rfl
theorem markDone_aspectSource : (markDone cfg c v s).aspectSource = s.aspectSource := by unfold markDone; split <;> rfl
theorem markDone_vpsPid : (markDone cfg c v s).vpsPid = s.vpsPid := by unfold markDone; split <;> rfl
/-- right after the announcement nothing is pending on that carrier -/
theorem markDone_not_pending : ¬ pending cfg c (markDone cfg c v s) := by
  unfold pending markDone
  cases cfg.perCarrier <;> simp [cycOf_setAnn, cycOf_setCyc_self]
/-- in the shared-cycle shape nothing is pending on ANY carrier; in the per-carrier shape the others keep their state -/
theorem markDone_pending_other (c' : Carrier) (h : c' ≠ c) :
    pending cfg c' (markDone cfg c v s) → (cfg.perCarrier = true ∧ pending cfg c' s) := by
  unfold pending markDone
  cases cfg.perCarrier <;> simp [cycOf_setAnn, cycOf_setCyc_other _ _ _ _ h]
theorem markDone_annOf_self (h : cfg.perCarrier = true) : annOf c (markDone cfg c v s).deb = v := by
  simp [markDone, h, annOf_setAnn_self]
theorem markDone_annOf_other (c' : Carrier) (h : c' ≠ c) : annOf c' (markDone cfg c v s).deb = annOf c' s.deb := by
  unfold markDone; split
  · simp [annOf_setAnn_other _ _ _ _ h, annOf_setCyc]
  · rfl
theorem markDone_net_cycle (h : cfg.perCarrier = true) : (markDone cfg c v s).net = s.net := by
  simp [markDone, h]
theorem markDone_cycle_shared (h : cfg.perCarrier = false) : (markDone cfg c v s).net.cycle = 2 := by
  simp [markDone, h]

theorem markChange_nuid : (markChange cfg c v s).net.nuid = s.net.nuid := by
  unfold markChange; split <;> cases c <;> rfl
theorem markChange_name : (markChange cfg c v s).net.name = s.net.name := by
  unfold markChange; split <;> cases c <;> rfl
theorem markChange_call : (markChange cfg c v s).net.call = s.net.call := by
  unfold markChange; split <;> cases c <;> rfl
theorem markChange_cniOf_self : cniOf c (markChange cfg c v s).net = v := by
  unfold markChange; split <;> cases c <;> rfl
theorem markChange_cniOf_other (c' : Carrier) (h : c' ≠ c) : cniOf c' (markChange cfg c v s).net = cniOf c' s.net := by
  unfold markChange; split <;> cases c <;> cases c' <;> first | rfl | exact absurd rfl h
theorem markChange_cached : (markChange cfg c v s).cached = s.cached := by unfold markChange; split <;> rfl
theorem markChange_chswcd : (markChange cfg c v s).chswcd = s.chswcd := by unfold markChange; split <;> rfl
theorem markChange_mask : (markChange cfg c v s).mask = s.mask := by unfold markChange; split <;> rfl
theorem markChange_time : (markChange cfg c v s).time = s.time := by unfold markChange; split <;> rfl
theorem markChange_wssLast : (markChange cfg c v s).wssLast = s.wssLast := by unfold markChange; split <;> rfl
theorem markChange_wssRep : (markChange cfg c v s).wssRep = s.wssRep := by unfold markChange; split <;> rfl
theorem markChange_wssTime : (markChange cfg c v s).wssTime = s.wssTime := by unfold markChange; split <;> rfl
theorem markChange_aspect : (markChange cfg c v s).aspect = s.aspect := by unfold markChange; split <;> rfl
theorem markChange_aspectSource : (markChange cfg c v s).aspectSource = s.aspectSource := by unfold markChange; split <;> rfl
theorem markChange_vpsPid : (markChange cfg c v s).vpsPid = s.vpsPid := by unfold markChange; split <;> rfl
theorem markChange_annOf (c' : Carrier) : annOf c' (markChange cfg c v s).deb = annOf c' s.deb := by
  unfold markChange; split
  · simp [annOf_setCyc]
  · rfl
/-- after a change the carrier waits for the repeat - in the per-carrier shape only if the new value is not the
    one announced last (a deviating word that is over leaves nothing pending) -/
theorem markChange_pending_self :
    pending cfg c (markChange cfg c v s) ↔ (cfg.perCarrier = false ∨ v ≠ annOf c s.deb) := by
  unfold pending markChange
  cases cfg.perCarrier
  · cases c <;> simp [setCni]
  · by_cases h : v = annOf c s.deb <;> simp [cycOf_setCyc_self, h]
theorem markChange_pending_other (c' : Carrier) (h : c' ≠ c) (hp : cfg.perCarrier = true) :
    pending cfg c' (markChange cfg c v s) ↔ pending cfg c' s := by
  simp [pending, markChange, hp, cycOf_setCyc_other _ _ _ _ h]
theorem markChange_net_shared (h : cfg.perCarrier = false) :
    (markChange cfg c v s).net = { setCni c s.net v with cycle := 1 } := by
  simp [markChange, h]
theorem markChange_net_per (h : cfg.perCarrier = true) : (markChange cfg c v s).net = setCni c s.net v := by
  simp [markChange, h]

end marks

/-! ## the debounce skeleton, case by case -/

theorem cniRx_change (cfg : Cfg) (c : Carrier) (v : Nat) (s : State) (h : v ≠ cniOf c s.net) :
    cniRx cfg c v s = (markChange cfg c v s, []) := by
  simp [cniRx, h]

theorem cniRx_idle (cfg : Cfg) (c : Carrier) (v : Nat) (s : State) (h : v = cniOf c s.net) (h2 : ¬ pending cfg c s) :
    cniRx cfg c v s = (s, []) := by
  simp [cniRx, h.symm, h2]

theorem cniRx_same (cfg : Cfg) (c : Carrier) (v : Nat) (s : State) (h : v = cniOf c s.net) (h2 : pending cfg c s)
    (h3 : (cfg.lk c v).1 = s.net.nuid) :
    cniRx cfg c v s = (markDone cfg c v { s with net := { s.net with name := lkName cfg c v } },
                      [Ev.networkId { s.net with name := lkName cfg c v }]) := by
  simp [cniRx, announce, lkName, h.symm, h2, h3]

theorem cniRx_first (cfg : Cfg) (c : Carrier) (v : Nat) (s : State) (h : v = cniOf c s.net) (h2 : pending cfg c s)
    (h3 : (cfg.lk c v).1 ≠ s.net.nuid) (h4 : s.net.nuid = 0) :
    cniRx cfg c v s = (markDone cfg c v { s with net := { s.net with name := lkName cfg c v, nuid := (cfg.lk c v).1 } },
                      [Ev.network { s.net with name := lkName cfg c v, nuid := (cfg.lk c v).1 },
                       Ev.networkId { s.net with name := lkName cfg c v, nuid := (cfg.lk c v).1 }]) := by
  have h3' : (cfg.lk c v).1 ≠ 0 := by rw [h4] at h3; exact h3
  simp [cniRx, announce, lkName, h.symm, h2, h3', h4]

/-- an identified station replaced by another one: by a known one (`id ≠ 0`) in either shape of the call, by ANY
    CNI once the callers pass "identified" (F35 repaired) -/
theorem cniRx_switch (cfg : Cfg) (c : Carrier) (v : Nat) (s : State) (h : v = cniOf c s.net) (h2 : pending cfg c s)
    (h3 : (cfg.lk c v).1 ≠ s.net.nuid) (h4 : s.net.nuid ≠ 0) (h5 : cfg.chswIdent = true ∨ (cfg.lk c v).1 ≠ 0) :
    cniRx cfg c v s =
      (markDone cfg c v
        { s with net := { s.net with name := lkName cfg c v, nuid := (cfg.lk c v).1 }, cached := [], aspect := aspectReset, aspectSource := 0, wssLast := (0, 0), wssRep := 0, wssTime := 0, chswcd := 0 },
       (if s.aspectSource > 0 then [Ev.aspect (chswAspect s.aspectSource)] else []) ++
         [Ev.network { s.net with name := lkName cfg c v, nuid := (cfg.lk c v).1 },
          Ev.networkId { s.net with name := lkName cfg c v, nuid := (cfg.lk c v).1 }]) := by
  have hid : (if cfg.chswIdent = true then 1 else (cfg.lk c v).1) ≠ 0 := by
    rcases h5 with h5 | h5
    · simp [h5]
    · split <;> simp [h5]
  simp [cniRx, announce, lkName, chswReset, hid, h.symm, h2, h3, h4]

/-- F35, unrepaired call shape: an identified station replaced by a CNI missing from the table -/
theorem cniRx_unknown (cfg : Cfg) (c : Carrier) (v : Nat) (s : State) (h : v = cniOf c s.net) (h2 : pending cfg c s)
    (h4 : s.net.nuid ≠ 0) (h5 : (cfg.lk c v).1 = 0) (hI : cfg.chswIdent = false) :
    cniRx cfg c v s =
      (markDone cfg c v
        { s with net := {}, deb := {}, cached := [], aspect := aspectReset, aspectSource := 0, wssLast := (0, 0), wssRep := 0, wssTime := 0, chswcd := 0 },
       [Ev.network {}] ++ (if s.aspectSource > 0 then [Ev.aspect (chswAspect s.aspectSource)] else []) ++
         [Ev.network {}, Ev.networkId {}]) := by
  have h3 : ¬ (0 = s.net.nuid) := fun e => h4 e.symm
  simp [cniRx, announce, chswReset, h.symm, h2, h3, h4, h5, hI]

/-! ## what the debounce does to the stored CNIs -/

theorem cniOf_setCni_self (c : Carrier) (n : Network) (v : Nat) : cniOf c (setCni c n v) = v := by
  cases c <;> rfl

theorem cniOf_setCni_other (c c' : Carrier) (n : Network) (v : Nat) (h : c' ≠ c) : cniOf c' (setCni c n v) = cniOf c' n := by
  cases c <;> cases c' <;> first | rfl | exact absurd rfl h

theorem cniOf_cycle (c : Carrier) (n : Network) (k : Nat) : cniOf c { n with cycle := k } = cniOf c n := by
  cases c <;> rfl

theorem cniOf_name (c : Carrier) (n : Network) (nm : List Nat) : cniOf c { n with name := nm } = cniOf c n := by
  cases c <;> rfl

theorem cniOf_name_nuid (c : Carrier) (n : Network) (nm : List Nat) (i : Nat) :
    cniOf c { n with name := nm, nuid := i } = cniOf c n := by
  cases c <;> rfl

theorem cniOf_empty (c : Carrier) : cniOf c {} = 0 := by
  cases c <;> rfl

/-- the case split every lemma about one debounce step uses -/
theorem cniRx_cases (cfg : Cfg) (c : Carrier) (v : Nat) (s : State) (P : State × List Ev → Prop)
    (hchange : v ≠ cniOf c s.net → P (markChange cfg c v s, []))
    (hidle : v = cniOf c s.net → ¬ pending cfg c s → P (s, []))
    (hsame : v = cniOf c s.net → pending cfg c s → (cfg.lk c v).1 = s.net.nuid →
      P (markDone cfg c v { s with net := { s.net with name := lkName cfg c v } },
         [Ev.networkId { s.net with name := lkName cfg c v }]))
    (hfirst : v = cniOf c s.net → pending cfg c s → (cfg.lk c v).1 ≠ s.net.nuid → s.net.nuid = 0 →
      P (markDone cfg c v { s with net := { s.net with name := lkName cfg c v, nuid := (cfg.lk c v).1 } },
         [Ev.network { s.net with name := lkName cfg c v, nuid := (cfg.lk c v).1 },
          Ev.networkId { s.net with name := lkName cfg c v, nuid := (cfg.lk c v).1 }]))
    (hswitch : v = cniOf c s.net → pending cfg c s → (cfg.lk c v).1 ≠ s.net.nuid → s.net.nuid ≠ 0 →
      (cfg.chswIdent = true ∨ (cfg.lk c v).1 ≠ 0) →
      P (markDone cfg c v
          { s with net := { s.net with name := lkName cfg c v, nuid := (cfg.lk c v).1 }, cached := [], aspect := aspectReset, aspectSource := 0, wssLast := (0, 0), wssRep := 0, wssTime := 0, chswcd := 0 },
         (if s.aspectSource > 0 then [Ev.aspect (chswAspect s.aspectSource)] else []) ++
           [Ev.network { s.net with name := lkName cfg c v, nuid := (cfg.lk c v).1 },
            Ev.networkId { s.net with name := lkName cfg c v, nuid := (cfg.lk c v).1 }]))
    (hunknown : v = cniOf c s.net → pending cfg c s → s.net.nuid ≠ 0 → (cfg.lk c v).1 = 0 → cfg.chswIdent = false →
      P (markDone cfg c v
          { s with net := {}, deb := {}, cached := [], aspect := aspectReset, aspectSource := 0, wssLast := (0, 0), wssRep := 0, wssTime := 0, chswcd := 0 },
         [Ev.network {}] ++ (if s.aspectSource > 0 then [Ev.aspect (chswAspect s.aspectSource)] else []) ++
           [Ev.network {}, Ev.networkId {}])) :
    P (cniRx cfg c v s) := by
  by_cases h : v = cniOf c s.net
  · by_cases h2 : pending cfg c s
    · by_cases h3 : (cfg.lk c v).1 = s.net.nuid
      · rw [cniRx_same cfg c v s h h2 h3]; exact hsame h h2 h3
      · by_cases h4 : s.net.nuid = 0
        · rw [cniRx_first cfg c v s h h2 h3 h4]; exact hfirst h h2 h3 h4
        · by_cases h5 : (cfg.lk c v).1 = 0
          · cases hI : cfg.chswIdent
            · rw [cniRx_unknown cfg c v s h h2 h4 h5 hI]; exact hunknown h h2 h4 h5 hI
            · rw [cniRx_switch cfg c v s h h2 h3 h4 (Or.inl hI)]; exact hswitch h h2 h3 h4 (Or.inl hI)
          · rw [cniRx_switch cfg c v s h h2 h3 h4 (Or.inr h5)]; exact hswitch h h2 h3 h4 (Or.inr h5)
    · rw [cniRx_idle cfg c v s h h2]; exact hidle h h2
  · rw [cniRx_change cfg c v s h]; exact hchange h

/-- after a reception of `v` on carrier `c` the stored value of `c` is `v`, or everything was wiped -/
theorem cniRx_cni_self (cfg : Cfg) (c : Carrier) (v : Nat) (s : State) :
    cniOf c (cniRx cfg c v s).1.net = v ∨ cniOf c (cniRx cfg c v s).1.net = 0 := by
  apply cniRx_cases cfg c v s (fun r => cniOf c r.1.net = v ∨ cniOf c r.1.net = 0)
  · intro _; left; exact markChange_cniOf_self cfg c v s
  · intro h _; left; exact h.symm
  · intro h _ _; left; simp only [markDone_cniOf, cniOf_name]; exact h.symm
  · intro h _ _ _; left; simp only [markDone_cniOf, cniOf_name_nuid]; exact h.symm
  · intro h _ _ _ _; left; simp only [markDone_cniOf, cniOf_name_nuid]; exact h.symm
  · intro _ _ _ _ _; right; simp only [markDone_cniOf, cniOf_empty]

/-- a reception on carrier `c` leaves the stored value of another carrier alone, or everything was wiped -/
theorem cniRx_cni_other (cfg : Cfg) (c c' : Carrier) (v : Nat) (s : State) (hc : c' ≠ c) :
    cniOf c' (cniRx cfg c v s).1.net = cniOf c' s.net ∨ cniOf c' (cniRx cfg c v s).1.net = 0 := by
  apply cniRx_cases cfg c v s (fun r => cniOf c' r.1.net = cniOf c' s.net ∨ cniOf c' r.1.net = 0)
  · intro _; left; exact markChange_cniOf_other cfg c v s c' hc
  · intro _ _; left; rfl
  · intro _ _ _; left; simp only [markDone_cniOf, cniOf_name]
  · intro _ _ _ _; left; simp only [markDone_cniOf, cniOf_name_nuid]
  · intro _ _ _ _ _; left; simp only [markDone_cniOf, cniOf_name_nuid]
  · intro _ _ _ _ _; right; simp only [markDone_cniOf, cniOf_empty]

/-! ## lines and the debounce -/

theorem rxVps_eq (cfg : Cfg) (s : State) (b : Buf) :
    (rxVps cfg s b).1 = { (cniRx cfg .vps (decodeVpsCni b) s).1 with vpsPid := (rxVps cfg s b).1.vpsPid } ∧
    ∃ extra, (rxVps cfg s b).2 = (cniRx cfg .vps (decodeVpsCni b) s).2 ++ extra ∧ ∀ e ∈ extra, Ev.isExtra e = true := by
  by_cases h1 : decodeVpsCni b = s.net.cniVps
  · by_cases h2 : pending cfg .vps s
    · simp only [rxVps, cniRx, cniOf, h1, h2, ne_eq, not_true_eq_false, if_false, if_true]
      split
      · split
        · exact ⟨rfl, [], by simp, by simp⟩
        · exact ⟨rfl, [_], rfl, by simp [Ev.isExtra]⟩
      · exact ⟨rfl, [], by simp, by simp⟩
    · simp [rxVps, cniRx, cniOf, h1, h2]
  · simp [rxVps, cniRx, cniOf, h1]

/-- the part of `parse_8_30` after `parse_bsd` -/
def tail830 (b : Buf) (designation : Nat) (s : State) (evs : List Ev) : State × List Ev :=
  if designation < 2 then
    if hasBit s.mask VBI_EVENT_LOCAL_TIME then
      match decode8301LocalTime b with
      | none => (s, evs)
      | some (t, east) => (s, evs ++ [Ev.localTime t east])
    else (s, evs)
  else
    if hasBit s.mask VBI_EVENT_PROG_ID then
      match decode8302Pdc b with
      | none => (s, evs)
      | some pid => (s, evs ++ [Ev.progId pid])
    else (s, evs)

theorem tail830_eq (b : Buf) (d : Nat) (s : State) (evs : List Ev) :
    (tail830 b d s evs).1 = s ∧ ∃ extra, (tail830 b d s evs).2 = evs ++ extra ∧ ∀ e ∈ extra, Ev.isExtra e = true := by
  unfold tail830
  split
  · split
    · split
      · exact ⟨rfl, [], by simp, by simp⟩
      · exact ⟨rfl, [_], rfl, by simp [Ev.isExtra]⟩
    · exact ⟨rfl, [], by simp, by simp⟩
  · split
    · split
      · exact ⟨rfl, [], by simp, by simp⟩
      · exact ⟨rfl, [_], rfl, by simp [Ev.isExtra]⟩
    · exact ⟨rfl, [], by simp, by simp⟩

theorem rxTtx_eq (cfg : Cfg) (s : State) (b : Buf) :
    (rxTtx cfg s b).1 = (cniStep cfg s (ttxCni s.mask b)).1 ∧
    ∃ extra, (rxTtx cfg s b).2 = (cniStep cfg s (ttxCni s.mask b)).2 ++ extra ∧ ∀ e ∈ extra, Ev.isExtra e = true := by
  have nil : (s, ([] : List Ev)).1 = (cniStep cfg s none).1 ∧
      ∃ extra, (s, ([] : List Ev)).2 = (cniStep cfg s none).2 ++ extra ∧ ∀ e ∈ extra, Ev.isExtra e = true :=
    ⟨rfl, [], rfl, by simp⟩
  unfold rxTtx ttxCni
  cases h0 : unham16p (bt b 0) (bt b 1) with
  | none => exact nil
  | some pmag =>
    simp only []
    by_cases hp : pmag &&& 15 = 0
    · simp only [hp, if_true]
      unfold parse830
      cases hd : unham8 (bt b 2) with
      | none => exact nil
      | some d =>
        simp only []
        by_cases h4 : d > 4
        · simp only [h4, if_true]; exact nil
        · simp only [h4, if_false]
          by_cases hl : (hasBit s.mask VBI_EVENT_TTX_PAGE && !pageLinkOk b) = true
          · simp only [hl, if_true]; exact nil
          · simp only [hl]
            by_cases hb : hasBit s.mask (VBI_EVENT_NETWORK ||| VBI_EVENT_NETWORK_ID) = true
            · simp only [hb, if_true]
              unfold parseBsd
              by_cases g4 : d ≥ 4
              · simp only [g4, if_true]
                exact tail830_eq b d s []
              · simp only [g4, if_false]
                by_cases g1 : d ≤ 1
                · simp only [g1, if_true]
                  exact tail830_eq b d _ _
                · simp only [g1, if_false]
                  cases hc : bsdCni2 b with
                  | none => exact nil
                  | some cni => exact tail830_eq b d _ _
            · simp only [hb]
              exact tail830_eq b d s []
    · simp only [hp, if_false]; exact nil

theorem extra_not_network (e : Ev) (h : Ev.isExtra e = true) : e.isNetwork = false ∧ e.isNetworkId = false := by
  cases e <;> simp_all [Ev.isExtra, Ev.isNetwork, Ev.isNetworkId]

theorem cniRx_mask (cfg : Cfg) (c : Carrier) (v : Nat) (s : State) : (cniRx cfg c v s).1.mask = s.mask := by
  apply cniRx_cases cfg c v s (fun r => r.1.mask = s.mask) <;> intros <;> simp [markDone_mask, markChange_mask]

theorem cniRx_time (cfg : Cfg) (c : Carrier) (v : Nat) (s : State) : (cniRx cfg c v s).1.time = s.time := by
  apply cniRx_cases cfg c v s (fun r => r.1.time = s.time) <;> intros <;> simp [markDone_time, markChange_time]

theorem cniStep_mask (cfg : Cfg) (s : State) (o : Option (Carrier × Nat)) : (cniStep cfg s o).1.mask = s.mask := by
  cases o with
  | none => rfl
  | some p => exact cniRx_mask cfg p.1 p.2 s

theorem cniStep_time (cfg : Cfg) (s : State) (o : Option (Carrier × Nat)) : (cniStep cfg s o).1.time = s.time := by
  cases o with
  | none => rfl
  | some p => exact cniRx_time cfg p.1 p.2 s

/-- a VPS or Teletext line is the debounce step of the reception it constitutes, plus PROG_ID / LOCAL_TIME events -/
theorem rxLine_cniStep (cfg : Cfg) (t : Nat) (s : State) (l : Line) (h : (∃ b, l = .vps b) ∨ (∃ b, l = .ttx b)) :
    (rxLine cfg t s l).1.net = (cniStep cfg s (lineCni s.mask l)).1.net ∧
    (rxLine cfg t s l).1.cached = (cniStep cfg s (lineCni s.mask l)).1.cached ∧
    (rxLine cfg t s l).1.chswcd = (cniStep cfg s (lineCni s.mask l)).1.chswcd ∧
    (rxLine cfg t s l).1.mask = s.mask ∧ (rxLine cfg t s l).1.time = s.time ∧
    (rxLine cfg t s l).1.wssLast = (cniStep cfg s (lineCni s.mask l)).1.wssLast ∧
    (rxLine cfg t s l).1.wssRep = (cniStep cfg s (lineCni s.mask l)).1.wssRep ∧
    (rxLine cfg t s l).1.wssTime = (cniStep cfg s (lineCni s.mask l)).1.wssTime ∧
    ∃ extra, (rxLine cfg t s l).2 = (cniStep cfg s (lineCni s.mask l)).2 ++ extra ∧ ∀ e ∈ extra, Ev.isExtra e = true := by
  rcases h with ⟨b, rfl⟩ | ⟨b, rfl⟩
  · have h := rxVps_eq cfg s b
    simp only [rxLine, lineCni, cniStep]
    refine ⟨?_, ?_, ?_, ?_, ?_, ?_, ?_, ?_, h.2⟩
    · rw [h.1]
    · rw [h.1]
    · rw [h.1]
    · rw [h.1]; exact cniRx_mask _ _ _ _
    · rw [h.1]; exact cniRx_time _ _ _ _
    · rw [h.1]
    · rw [h.1]
    · rw [h.1]
  · have h := rxTtx_eq cfg s b
    simp only [rxLine, lineCni]
    refine ⟨?_, ?_, ?_, ?_, ?_, ?_, ?_, ?_, h.2⟩
    · rw [h.1]
    · rw [h.1]
    · rw [h.1]
    · rw [h.1]; exact cniStep_mask _ _ _
    · rw [h.1]; exact cniStep_time _ _ _
    · rw [h.1]
    · rw [h.1]
    · rw [h.1]

theorem rxLine_cniStep_deb (cfg : Cfg) (t : Nat) (s : State) (l : Line) (h : (∃ b, l = .vps b) ∨ (∃ b, l = .ttx b)) :
    (rxLine cfg t s l).1.deb = (cniStep cfg s (lineCni s.mask l)).1.deb := by
  rcases h with ⟨b, rfl⟩ | ⟨b, rfl⟩
  · have h := rxVps_eq cfg s b
    simp only [rxLine, lineCni, cniStep]
    rw [h.1]
  · have h := rxTtx_eq cfg s b
    simp only [rxLine, lineCni]
    rw [h.1]

/-- a page line stores the page or does nothing -/
theorem rxLine_page (cfg : Cfg) (t : Nat) (s : State) (pgno : Nat) :
    rxLine cfg t s (.page pgno) = (s, []) ∨
    rxLine cfg t s (.page pgno) = ({ s with cached := if s.cached.contains pgno then s.cached else pgno :: s.cached }, []) := by
  simp only [rxLine]
  split
  · right; rfl
  · left; rfl

theorem rxWss_keeps (s : State) (b0 b1 t : Nat) :
    (rxWss s b0 b1 t).1.net = s.net ∧ (rxWss s b0 b1 t).1.cached = s.cached ∧ (rxWss s b0 b1 t).1.chswcd = s.chswcd ∧
    (rxWss s b0 b1 t).1.mask = s.mask ∧ (rxWss s b0 b1 t).1.time = s.time ∧
    ∀ e ∈ (rxWss s b0 b1 t).2, e.isNetwork = false ∧ e.isNetworkId = false := by
  simp only [rxWss]
  repeat' split
  all_goals simp [Ev.isNetwork, Ev.isNetworkId]

/-- a CPR-1204 word touches the aspect record and its source only -/
theorem rxCpr_keeps (s : State) (b0 : Nat) :
    (rxCpr s b0).1.net = s.net ∧ (rxCpr s b0).1.cached = s.cached ∧ (rxCpr s b0).1.chswcd = s.chswcd ∧
    (rxCpr s b0).1.mask = s.mask ∧ (rxCpr s b0).1.time = s.time ∧
    ∀ e ∈ (rxCpr s b0).2, e.isNetwork = false ∧ e.isNetworkId = false := by
  simp only [rxCpr]
  repeat' split
  all_goals simp [Ev.isNetwork, Ev.isNetworkId]

theorem rxCpr_rest (s : State) (b0 : Nat) :
    (rxCpr s b0).1.deb = s.deb ∧ (rxCpr s b0).1.vpsPid = s.vpsPid ∧ (rxCpr s b0).1.wssLast = s.wssLast ∧
    (rxCpr s b0).1.wssRep = s.wssRep ∧ (rxCpr s b0).1.wssTime = s.wssTime := by
  simp only [rxCpr]
  repeat' split
  all_goals simp

/-- a regular tick with no countdown running only advances the clock -/
theorem prologue_regular (s : State) (t : Nat) (hcd : s.chswcd = 0)
    (hreg : s.time = 0 ∨ (s.time + 25000 ≤ t ∧ t ≤ s.time + 50000)) :
    prologue s t = ({ s with time := if t > s.time then t else s.time }, []) := by
  have hbad : (decide (s.time > 0) && (decide (t < s.time + 25000) || decide (t > s.time + 50000))) = false := by
    rcases hreg with h | ⟨h1, h2⟩
    · simp [h]
    · have a : ¬ t < s.time + 25000 := by omega
      have b : ¬ t > s.time + 50000 := by omega
      simp [a, b]
  simp [prologue, hbad, hcd]

end Zvbi.Net
