import ZvbiModel.Xds.DecHist
/-!
# `Dec` over packet histories, part 2: network fields, the uniform `Field` view, `Undisturbed`, and the
# induction over histories (lemmas for `Props/C09Hist.lean`)
-/
namespace Zvbi.Xds
namespace Dec
open Zvbi.Gen.Xds

/-! ## network fields -/

inductive NetF where
  | name | call | delay
deriving DecidableEq, Repr

def NetF.typ : NetF → Nat
  | .name => 1 | .call => 2 | .delay => 3

def nview : NetF → Net → List Int
  | .name, n => ofNats (cstr n.name)
  | .call, n => ofNats (cstr n.call)
  | .delay, n => [(n.tapeDelay : Int)]

/-- network name / call letters: the text; tape delay: minutes -/
def ndecode (f : NetF) (d : List Nat) (nx : Nat) : Option (List Int) :=
  match f with
  | .name => some (ofNats (text d))
  | .call => some (ofNats (text d))
  | .delay => if d.length ≠ 2 then none else some [(((byteAt d nx 1 &&& 31) * 60 + (byteAt d nx 0 &&& 63) : Nat) : Int)]

/-- call letters that differ from the stored ones while no changed network name is pending: the stored
    network name is forgotten -/
def callClears (v : Info) (d : List Nat) : Bool := (strfuArr v.net.call d).neq && v.net.cycle != 1

theorem netFeed_view {v : Info} (hv : Wf v) (f : NetF) (typ : Nat) (d : List Nat) (nx : Nat) (h32 : d.length ≤ 32) :
    nview f (netFeed v typ d nx).1.net =
      if typ = f.typ then (match ndecode f d nx with | some val => val | none => nview f v.net)
      else if f = .name ∧ typ = 2 ∧ callClears v d = true then [] else nview f v.net := by
  have kn := (strfuArr_spec v.net.name d (by rw [hv.name]; have := text_length_le d; simp only [nameExt]; omega)).2.2
  have kc := (strfuArr_spec v.net.call d (by rw [hv.call]; have := text_length_le d; simp only [callExt]; omega)).2.2
  have hn0 : cstr (v.net.name.set 0 0) = [] := cstr_set_zero _ (by rw [hv.name]; decide)
  by_cases h1 : typ = 1
  · subst h1
    cases f
    · simp only [NetF.typ, if_true, ndecode, nview, netFeed_name hv d nx h32]
    all_goals
      simp only [NetF.typ, show ¬ (1 = 2) by decide, show ¬ (1 = 3) by decide, if_false, reduceCtorEq, false_and]
      unfold netFeed; simp only []
      repeat' split
      all_goals simp [nview, chswReset]
  · by_cases h2 : typ = 2
    · subst h2
      cases f
      · simp only [NetF.typ, show ¬ (2 = 1) by decide, if_false, true_and, callClears]
        unfold netFeed; simp only []
        split
        · rename_i h; simp only [h, if_true, nview, hn0]; rfl
        · rename_i h; simp only [h, Bool.false_eq_true, if_false, nview]
      · simp only [NetF.typ, if_true, ndecode, nview, netFeed_call hv d nx h32]
      · simp only [NetF.typ, show ¬ (2 = 3) by decide, if_false, reduceCtorEq, false_and]
        unfold netFeed; simp only []
        split <;> simp [nview]
    · by_cases h3 : typ = 3
      · subst h3
        cases f
        all_goals
          simp only [NetF.typ, show ¬ (3 = 1) by decide, show ¬ (3 = 2) by decide, if_true, if_false, reduceCtorEq, false_and, and_false, ndecode]
          unfold netFeed; simp only []
          split <;> simp [nview]
      · have e : netFeed v typ d nx = (v, {}) := by
          unfold netFeed; split <;> simp_all
        rw [e]
        cases f <;> simp [NetF.typ, h1, h2, h3]

/-! ## every field `xds_decoder` exposes, uniformly -/

/-- a field group: one of the ten groups of the current (0) or future (1) programme, or a network field -/
inductive Field where
  | prog (cls : Fin 2) (g : Grp)
  | net (f : NetF)
deriving DecidableEq, Repr

/-- what the application reads -/
def fview : Field → Info → List Int
  | .prog c g, v => view g (v.pi c.val)
  | .net f, v => nview f v.net

/-- the decoding of packet `p` for the field: `none` unless `p` is a packet of the field's (class, type)
    with 1..32 bytes that `xds_decoder` accepts -/
def fdecode : Field → Pkt → Nat → Option (List Int)
  | .prog c g, p, nx => progDecode c.val g p nx
  | .net f, p, nx =>
    if p.data.length = 0 ∨ p.data.length > 32 then none
    else if p.cls = 2 ∧ p.sub = f.typ then ndecode f p.data nx else none

/-- does the call `xds_decoder (p)` in state `v` erase the field (a flush that reaches it)? -/
def ferased : Field → Info → Pkt → Nat → Bool
  | .prog c _, v, p, nx => flushes v p nx c.val
  | .net .name, v, p, _ => decide (¬(p.data.length = 0 ∨ p.data.length > 32)) && p.cls == 2 && p.sub == 2 && callClears v p.data
  | .net _, _, _, _ => false

/-- the field after a flush -/
def funknown : Field → List Int
  | .prog _ g => unknown g
  | .net .delay => [0]
  | .net _ => []

/-- the source shape the field law needs: the aspect ratio is stored in the programme of the packet's
    own class (`aspectAlwaysCurrent = false`, since 201beae; generated flag) -/
def Field.shapeOK : Field → Prop
  | .prog _ .aspect => aspectAlwaysCurrent = false
  | _ => True

/-- THE one-call law: own accepted packet -> its decoding; a flush reaching the field -> unknown;
    any other call -> unchanged -/
theorem step_field {v : Info} (hv : Wf v) (ha : AWf v) (f : Field) (hs : f.shapeOK) (p : Pkt) (nx : Nat) :
    fview f (step v p nx).1 =
      match fdecode f p nx with
      | some val => val
      | none => if ferased f v p nx then funknown f else fview f v := by
  cases f with
  | prog c g =>
    exact step_view hv ha c.val (by omega) g (by intro e; subst e; exact hs) p nx
  | net f =>
    simp only [fview, fdecode, funknown]
    by_cases hl : p.data.length = 0 ∨ p.data.length > 32
    · rw [step_assert v p nx hl, if_pos hl]
      cases f
      · simp only [ferased, decide_eq_false (fun h : ¬(p.data.length = 0 ∨ p.data.length > 32) => h hl), Bool.false_and,
          Bool.false_eq_true, if_false]
      · simp [ferased]
      · simp [ferased]
    · rw [if_neg hl]
      unfold step; rw [if_neg hl]
      by_cases hp : p.cls ≤ 1
      · rw [if_pos hp, feed_net]
        have h2 : ¬ p.cls = 2 := by omega
        cases f <;> simp [ferased, h2]
      · rw [if_neg hp]
        by_cases h2 : p.cls = 2
        · rw [if_pos h2, netFeed_view hv f p.sub p.data nx (by omega)]
          by_cases ht : p.sub = f.typ
          · simp only [ht, h2, and_self, if_true]
            cases hd : ndecode f p.data nx with
            | some val => rfl
            | none =>
              cases f <;> simp [ndecode] at hd
              simp [ferased]
          · simp only [ht, h2, and_false, if_false]
            cases f
            · simp only [ferased, hl, true_and, h2]
              by_cases h22 : p.sub = 2 <;> simp [h22]
            · simp [ferased]
            · simp [ferased]
        · rw [if_neg h2]
          cases f <;> simp [ferased, h2]

theorem fview_init (f : Field) : fview f init = funknown f := by
  cases f with
  | prog c g => exact view_init g c.val
  | net f => cases f <;> decide

/-! ## histories -/

/-- no call of the history, run from state `v`, touches field `f`: none is an accepted packet of `f`'s
    (class, type) and none is a flush that reaches `f` -/
def Undisturbed (f : Field) : Info → List (Pkt × Nat) → Prop
  | _, [] => True
  | v, q :: qs => fdecode f q.1 q.2 = none ∧ ferased f v q.1 q.2 = false ∧ Undisturbed f (step v q.1 q.2).1 qs

theorem run_cons (v : Info) (c : Pkt × Nat) (cs : List (Pkt × Nat)) :
    (run v (c :: cs)).1 = (run (step v c.1 c.2).1 cs).1 := rfl

theorem run_append : ∀ (a b : List (Pkt × Nat)) (v : Info), (run v (a ++ b)).1 = (run (run v a).1 b).1
  | [], _, _ => rfl
  | c :: a, b, v => by
    simp only [List.cons_append, run_cons]
    exact run_append a b _

theorem run_inv : ∀ (hist : List (Pkt × Nat)) {v : Info}, Wf v → AWf v → Wf (run v hist).1 ∧ AWf (run v hist).1
  | [], _, h, a => ⟨h, a⟩
  | c :: cs, v, h, a => by
    rw [run_cons]
    exact run_inv cs (step_wf' h c.1 c.2) (step_awf a c.1 c.2)

theorem run_undisturbed (f : Field) (hs : f.shapeOK) : ∀ (post : List (Pkt × Nat)) {v : Info}, Wf v → AWf v →
    Undisturbed f v post → fview f (run v post).1 = fview f v
  | [], _, _, _, _ => rfl
  | q :: qs, v, h, a, hu => by
    obtain ⟨h1, h2, h3⟩ := hu
    rw [run_cons, run_undisturbed f hs qs (step_wf' h q.1 q.2) (step_awf a q.1 q.2) h3, step_field h a f hs, h1]
    simp [h2]

/-- field `f` is not the kind of thing packet `q` can touch, judged from `q`'s class and type alone:
    not `f`'s own (class, type), not a programme id / programme name of the same class, not a network
    name (2/1) - for the network name field: not call letters (2/2) either -/
def StaticallyApart : Field → Pkt → Prop
  | .prog c g, q => ¬(q.cls = c.val ∧ (q.sub = g.typ ∨ q.sub = 1 ∨ q.sub = 3)) ∧ ¬(q.cls = 2 ∧ q.sub = 1)
  | .net f, q => ¬(q.cls = 2 ∧ (q.sub = f.typ ∨ (f = .name ∧ q.sub = 2)))

instance (f : Field) (q : Pkt) : Decidable (StaticallyApart f q) := by
  cases f <;> simp only [StaticallyApart] <;> infer_instance

theorem apart_step (f : Field) (v : Info) (q : Pkt) (nx : Nat) (h : StaticallyApart f q) :
    fdecode f q nx = none ∧ ferased f v q nx = false := by
  cases f with
  | prog c g =>
    obtain ⟨h1, h2⟩ := h
    refine ⟨?_, ?_⟩
    · simp only [fdecode, progDecode]
      split
      · rfl
      · split
        · rename_i hh; exact absurd ⟨hh.1, Or.inl hh.2⟩ h1
        · rfl
    · simp only [ferased, flushes]
      split
      · rfl
      · split
        · rename_i hc
          have n1 : ¬ q.sub = 1 := fun e => h1 ⟨hc, Or.inr (Or.inl e)⟩
          have n3 : ¬ q.sub = 3 := fun e => h1 ⟨hc, Or.inr (Or.inr e)⟩
          simp [n1, n3]
        · split
          · rename_i hc2
            have n1 : ¬ q.sub = 1 := fun e => h2 ⟨hc2, e⟩
            cases hw : (netFeed v q.sub q.data nx).2.chsw with
            | true => exact absurd ((netFeed_frame v q.sub q.data nx).1 hw) n1
            | false => rfl
          · rfl
  | net f =>
    simp only [StaticallyApart] at h
    refine ⟨?_, ?_⟩
    · simp only [fdecode]
      split
      · rfl
      · split
        · rename_i hh; exact absurd ⟨hh.1, Or.inl hh.2⟩ h
        · rfl
    · cases f
      · simp only [ferased]
        by_cases hc : q.cls = 2
        · have : ¬ q.sub = 2 := fun e => h ⟨hc, Or.inr ⟨rfl, e⟩⟩
          simp [this]
        · simp [hc]
      · rfl
      · rfl

theorem undisturbed_of_apart (f : Field) : ∀ (post : List (Pkt × Nat)) (v : Info),
    (∀ q ∈ post, StaticallyApart f q.1) → Undisturbed f v post
  | [], _, _ => trivial
  | q :: qs, v, h =>
    ⟨(apart_step f v q.1 q.2 (h q (by simp))).1, (apart_step f v q.1 q.2 (h q (by simp))).2,
     undisturbed_of_apart f qs _ (fun q' hq' => h q' (by simp [hq']))⟩

end Dec
end Zvbi.Xds
