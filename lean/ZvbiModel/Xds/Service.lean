import ZvbiModel.Xds.Model
/-!
# Model of the service decoder `xds_decoder` (src/caption.c 146-581): what it does with the packets
# the separator hands it (property C09, clause "programme / network information equals the decoded
# content of the delivered packets, announced after the documented repeat")

Covered statement by statement: classes current/future (`vbi_program_info`, `cc.info_cycle[]`)
types 1 programme id, 2 length, 3 name, 4 type, 5 rating, 8 CGMS-A, 0x10..0x17 description, the
"first occurrence sets a bit, second occurrence with the same data announces" epilogue,
`flush_prog_info`, `vbi_reset_prog_info`; class channel (`vbi_network`) types 1 name, 2 call letters,
3 tape delay via `Sep.netDecode`, with the NETWORK / NETWORK_ID events and the decoder reset.
Not covered: types 6 audio services, 7 caption services, 9 aspect ratio (pointers into static
tables, a second event type): a packet of these types sets `lost`, after which the model makes no
claim about programme-info events (the driver says so and the check stops comparing them).

Conventions: `info_cycle[class]` is a bit mask indexed by the packet type; it is modelled as the list
of types whose bit is set (`|= 1 << t` = insert, `& (1 << t)` = membership, `= 0` = `[]`).
`signed char` / `int` fields that hold -1 for "unknown" are `Int`.  `type_id[33]` keeps stale
entries behind its terminator exactly like the C array.  Assumes a handler for PROG_INFO or ASPECT is
registered (`vbi->event_mask`), as in the harness.
-/
namespace Zvbi.Xds
namespace Svc
open Sep

/-- the modelled part of `vbi_program_info` -/
structure PI where
  month : Int := -1
  day : Int := -1
  hour : Int := -1
  min : Int := -1
  tapeDelayed : Bool := false
  lengthHour : Int := -1
  lengthMin : Int := -1
  elapsedHour : Int := -1
  elapsedMin : Int := -1
  elapsedSec : Int := -1
  title : List Nat := []
  typeEia : Bool := false
  typeId : List Nat := List.replicate 33 0
  ratingAuth : Nat := 0
  ratingId : Nat := 0
  ratingDlsv : Nat := 0
  cgms : Int := -1
  description : List (List Nat) := List.replicate 8 []
deriving Repr, DecidableEq

/-- `vbi_reset_prog_info`: everything back to "unknown" except `rating_id`, `rating_dlsv`, `type_id[]`,
    which the function does not touch -/
def PI.reset (p : PI) : PI := { ratingId := p.ratingId, ratingDlsv := p.ratingDlsv, typeId := p.typeId }

inductive Ev where
  | progInfo (future : Nat) (pi : PI)
  | network (name call : List Nat) (nuid tapeDelay : Nat)
  | networkId
deriving Repr, DecidableEq

structure State where
  cur : PI := {}
  fut : PI := {}
  cycCur : List Nat := []
  cycFut : List Nat := []
  lost : Bool := false
deriving Repr, DecidableEq

def init : State := {}

def State.pi (v : State) (cls : Nat) : PI := if cls = 0 then v.cur else v.fut
def State.cyc (v : State) (cls : Nat) : List Nat := if cls = 0 then v.cycCur else v.cycFut
def State.setPi (v : State) (cls : Nat) (p : PI) : State := if cls = 0 then { v with cur := p } else { v with fut := p }
def State.setCyc (v : State) (cls : Nat) (c : List Nat) : State :=
  if cls = 0 then { v with cycCur := c } else { v with cycFut := c }

/-- `flush_prog_info` (the aspect ratio is never changed by a modelled packet, so no ASPECT event) -/
def flush (v : State) (cls : Nat) : State := (v.setPi cls (v.pi cls).reset).setCyc cls []

/-- `xds_strfu` as a pure function: the stored string -/
def strfuText (s : List Nat) : List Nat := (strfu [] s).1

def byte (data : List Nat) (i : Nat) : Nat := data.getD i 0

/-- epilogue of the current/future branch: `if (neq) cycle |= 1 << type; else if (cycle & (1 << type))
    { send PROG_INFO; cycle = 0; }` -/
def epilogue (v : State) (cls typ : Nat) (neq : Bool) : State × List Ev :=
  if neq then (v.setCyc cls (typ :: v.cyc cls), [])
  else if (v.cyc cls).contains typ then (v.setCyc cls [], [Ev.progInfo cls (v.pi cls)])
  else (v, [])

/-- `case 4`: `type_id[]` with its stale tail -/
def typeUpdate (old : List Nat) (data : List Nat) : List Nat × Bool :=
  let r := (List.range data.length).foldl
    (fun (a : List Nat × Bool) i => (a.1.set i (byte data i), a.2 || (a.1.getD i 0 != byte data i))) (old, false)
  (r.1.set data.length 0, r.2 || (r.1.getD data.length 0 != 0))

/-- `case 5`: (auth, id, dlsv) or `none` for the `return`s; `zero` = the branch assigned
    `pi->rating_dlsv = 0` before comparing -/
def ratingDecode (b0 b1 : Nat) : Option (Nat × Nat × Nat × Bool) :=
  let r := b0 &&& 7
  let g := b1 &&& 7
  let dlsv := (if b0 &&& 0x20 != 0 then 8 else 0) ||| (if b1 &&& 0x08 != 0 then 4 else 0)
    ||| (if b1 &&& 0x10 != 0 then 2 else 0) ||| (if b1 &&& 0x20 != 0 then 1 else 0)
  if b0 &&& 0x08 = 0 then (if r = 0 then none else some (1, r, 0, true))
  else if b0 &&& 0x10 = 0 then some (2, g, dlsv, false)
  else if b1 &&& 0x08 = 0 then
    (if b0 &&& 0x20 = 0 then (if g > 6 then none else some (3, g, 0, true))
     else (if g > 5 then none else some (4, g, 0, true)))
  else none

/-- `xds_decoder`, `case XDS_CURRENT / XDS_FUTURE` -/
def feed (v : State) (p : Pkt) : State × List Ev :=
  let cls := p.cls
  let d := p.data
  let n := d.length
  let pi := v.pi cls
  match p.sub with
  | 1 =>
    if n ≠ 4 then (v, []) else
    let month := byte d 3 &&& 15
    let day := byte d 2 &&& 31
    let hour := byte d 1 &&& 31
    let mi := byte d 0 &&& 63
    if month = 0 ∨ month > 12 ∨ day = 0 ∨ day > 31 ∨ hour > 23 ∨ mi > 59 then (v, []) else
    let td := byte d 3 &&& 0x10 != 0
    let neq := pi.month != ((month : Int) - 1) || pi.day != ((day : Int) - 1) || pi.hour != (hour : Int) || pi.min != (mi : Int)
    let v1 := v.setPi cls { pi with tapeDelayed := td }
    if neq then
      let v2 := flush v1 cls
      let v3 := v2.setPi cls { v2.pi cls with month := (month : Int) - 1, day := (day : Int) - 1, hour := hour, min := mi,
                                               tapeDelayed := td }
      epilogue v3 cls 1 true
    else epilogue v1 cls 1 false
  | 2 =>
    if n < 2 ∨ n > 6 then (v, []) else
    let lhour : Int := ((byte d 1 &&& 63 : Nat) : Int)
    let lmin : Int := ((byte d 0 &&& 63 : Nat) : Int)
    let ehour : Int := if n ≥ 3 then ((byte d 3 &&& 63 : Nat) : Int) else -1
    let emin : Int := if n ≥ 3 then ((byte d 2 &&& 63 : Nat) : Int) else -1
    let esec : Int := if n ≥ 5 then ((byte d 4 &&& 63 : Nat) : Int) else 0
    if lmin > 59 ∨ emin > 59 ∨ esec > 59 then (v, []) else
    let neq := pi.lengthHour != lhour || pi.lengthMin != lmin || pi.elapsedHour != ehour || pi.elapsedMin != emin
      || pi.elapsedSec != esec
    epilogue (v.setPi cls { pi with lengthHour := lhour, lengthMin := lmin, elapsedHour := ehour, elapsedMin := emin,
                                      elapsedSec := esec }) cls 2 neq
  | 3 =>
    if n < 2 then (v, []) else
    let (t, neq) := strfu pi.title d
    let v1 := v.setPi cls { pi with title := t }
    if neq then epilogue v1 cls 3 true
    else if !(v1.cyc cls).contains 3 then epilogue v1 cls 3 false
    else if !(v1.cyc cls).contains 1 then
      -- second occurrence without PIN: everything else is forgotten
      let v2 := flush v1 cls
      let v3 := (v2.setPi cls { v2.pi cls with title := t }).setCyc cls [3]
      epilogue v3 cls 3 false
    else epilogue v1 cls 3 false
  | 4 =>
    let (ids, neq1) := typeUpdate pi.typeId d
    -- when the C block declares its own `int neq` (`Gen.Xds.svcTypeNeqShadowed`, read from the source)
    -- the epilogue sees the outer `neq`, which is still 0
    epilogue (v.setPi cls { pi with typeEia := true, typeId := ids }) cls 4
      (if Gen.Xds.svcTypeNeqShadowed then false else (!pi.typeEia || neq1))
  | 5 =>
    if n ≠ 2 then (v, []) else
    match ratingDecode (byte d 0) (byte d 1) with
    | none => (v, [])
    | some (auth, r, dlsv, zero) =>
      let pi1 := if zero then { pi with ratingDlsv := 0 } else pi
      let neq := pi1.ratingAuth != auth || pi1.ratingId != r || pi1.ratingDlsv != dlsv
      let pi2 := if neq then { pi1 with ratingAuth := auth, ratingId := r, ratingDlsv := dlsv } else pi1
      epilogue (v.setPi cls pi2) cls 5 neq
  | 8 =>
    if n ≠ 1 then (v, []) else
    let c : Int := ((byte d 0 &&& 63 : Nat) : Int)
    epilogue (v.setPi cls { pi with cgms := c }) cls 8 (pi.cgms != c)
  | t =>
    if 0x10 ≤ t ∧ t ≤ 0x17 then
      let line := t &&& 7
      let (s, neq) := strfu (pi.description.getD line []) d
      epilogue (v.setPi cls { pi with description := pi.description.set line s }) cls t neq
    else if t = 6 ∨ t = 7 ∨ t = 9 then ({ v with lost := true }, [])
    else (v, [])

/-- events of `case XDS_CHANNEL` (the state change itself is `Sep.netDecode`) -/
def netEvents (n : Net) (p : Pkt) : List Ev :=
  if p.cls = 2 ∧ p.sub = 1 then
    let (t, neq) := strfu n.name p.data
    if neq then []
    else if n.cycle = 1 then
      let n' := (netDecode n p).1
      (if n'.nuid != n.nuid then [Ev.network t n.call n'.nuid n.tapeDelay] else []) ++ [Ev.networkId]
    else []
  else []

/-- `xds_decoder` on one delivered packet, given the network state before the call -/
def decode (n : Net) (v : State) (p : Pkt) : State × List Ev :=
  if p.cls ≤ 1 then feed v p
  else if p.cls = 2 then
    -- vbi_chsw_reset: both programme infos and both cycles are reset
    let v' := if (netDecode n p).2 then { v with cur := v.cur.reset, fut := v.fut.reset, cycCur := [], cycFut := [] } else v
    (v', netEvents n p)
  else (v, [])

/-- line 284 of `vbi_decode_caption` with the service decoder behind the separator -/
def step (ec : Bool) (s : Sep.State × State) (b : Nat × Nat) : (Sep.State × State) × Sep.Out × List Ev :=
  let r := Sep.step ec s.1 b
  match r.2.dec with
  | none => ((r.1, s.2), r.2, [])
  | some p =>
    let d := decode s.1.net s.2 p
    ((r.1, d.1), r.2, d.2)

def run (ec : Bool) : (Sep.State × State) → List (Nat × Nat) → (Sep.State × State) × List Ev
  | s, [] => (s, [])
  | s, b :: bs =>
    let r := step ec s b
    let r2 := run ec r.1 bs
    (r2.1, r.2.2 ++ r2.2)

end Svc
end Zvbi.Xds
