import ZvbiModel.Xds.Dec
import ZvbiModel.Xds.LemmasSep
/-!
# Lemmas about `Dec` (model of `xds_decoder`), part 1: the write loop, array extents, error sites
-/
namespace Zvbi.Xds
namespace Dec
open Zvbi.Gen.Xds

/-! ## the write loop -/

theorem putc_in (w : Wr) (c : Nat) (h : w.idx < w.arr.length) :
    putc w c = { w with arr := w.arr.set w.idx c, idx := w.idx + 1, neq := w.neq || (w.arr.getD w.idx 0 != c) } := by
  simp [putc, h]

/-- a run of `putc` that stays inside the array: no error, same extent, the bytes land where the
    cursor was -/
theorem foldl_putc : ∀ (cs : List Nat) (w : Wr), w.idx + cs.length ≤ w.arr.length →
    (cs.foldl putc w).oob = w.oob ∧ (cs.foldl putc w).arr.length = w.arr.length ∧
    (cs.foldl putc w).idx = w.idx + cs.length ∧
    (cs.foldl putc w).arr = w.arr.take w.idx ++ cs ++ w.arr.drop (w.idx + cs.length)
  | [], w, _ => by simp
  | c :: cs, w, h => by
    have hi : w.idx < w.arr.length := by simp only [List.length_cons] at h; omega
    simp only [List.foldl_cons, putc_in w c hi]
    obtain ⟨a1, a2, a3, a4⟩ := foldl_putc cs
      { w with arr := w.arr.set w.idx c, idx := w.idx + 1, neq := w.neq || (w.arr.getD w.idx 0 != c) }
      (by simp only [List.length_set, List.length_cons] at h ⊢; omega)
    refine ⟨a1, by simpa using a2, by simp only [a3, List.length_cons]; omega, ?_⟩
    rw [a4]
    simp only [List.length_cons, List.take_set, List.drop_set]
    have e1 : ¬ (w.idx + 1 + cs.length ≤ w.idx) := by omega
    have e2 : w.idx + 1 + cs.length = w.idx + (cs.length + 1) := by omega
    rw [List.take_succ_eq_append_getElem hi, List.set_append_right _ _ (by simp [List.length_take]; omega)]
    simp [List.length_take, Nat.min_eq_left (Nat.le_of_lt hi), e2]

/-- every byte `xds_strfu` stores before its terminator is at least 0x20 -/
theorem text_ge (s : List Nat) : ∀ c ∈ text s, 0x20 ≤ c := by
  intro c hc
  simp only [text, List.mem_map] at hc
  obtain ⟨a, _, rfl⟩ := hc
  exact Nat.le_max_left _ _

theorem text_length_le (s : List Nat) : (text s).length ≤ s.length := by
  simp only [text, List.length_map]
  exact (List.dropWhile_sublist _).length_le

theorem cstr_append_zero (t rest : List Nat) (h : ∀ c ∈ t, 0x20 ≤ c) : cstr (t ++ 0 :: rest) = t := by
  induction t with
  | nil => simp [cstr]
  | cons a t ih =>
    have ha : 0x20 ≤ a := h a (by simp)
    have : (a != 0) = true := by simp; omega
    simp only [cstr, List.cons_append, List.takeWhile_cons, this, if_true] at ih ⊢
    rw [ih (fun c hc => h c (by simp [hc]))]

/-- `xds_strfu` into an array with room for the text and its terminator: every index is inside the
    array, the extent is kept, and the array then holds exactly the text as C string -/
theorem strfuArr_spec (d s : List Nat) (h : (text s).length < d.length) :
    (strfuArr d s).oob = false ∧ (strfuArr d s).arr.length = d.length ∧ cstr (strfuArr d s).arr = text s := by
  obtain ⟨a1, a2, _, a4⟩ := foldl_putc (text s ++ [0]) { arr := d } (by simp; omega)
  refine ⟨a1, a2, ?_⟩
  simp only [strfuArr, a4, List.take_zero, List.nil_append, List.append_assoc, List.singleton_append]
  exact cstr_append_zero _ _ (text_ge s)

/-- the same for any extent: the extent is kept whatever happens -/
theorem foldl_putc_length : ∀ (cs : List Nat) (w : Wr), (cs.foldl putc w).arr.length = w.arr.length
  | [], _ => rfl
  | c :: cs, w => by
    simp only [List.foldl_cons]
    rw [foldl_putc_length cs]
    unfold putc; split <;> simp

theorem strfuArr_length (d s : List Nat) : (strfuArr d s).arr.length = d.length := foldl_putc_length _ _

/-! ## extents are invariant, no error site is reachable -/

structure PIWf (p : PI) : Prop where
  title : p.title.length = titleExt
  typeId : p.typeId.length = typeExt
  descN : p.description.length = 8
  desc : ∀ l ∈ p.description, l.length = descExt

structure Wf (v : Info) : Prop where
  pi0 : PIWf v.pi0
  pi1 : PIWf v.pi1
  name : v.net.name.length = nameExt
  call : v.net.call.length = callExt

theorem piwf_init : PIWf {} := ⟨by simp [titleExt], by simp [typeExt], by simp, by
  intro l hl; simp only [List.mem_replicate] at hl; simp [hl.2, descExt]⟩

theorem wf_init : Wf init := ⟨piwf_init, piwf_init, by simp [init, nameExt], by simp [init, callExt]⟩

theorem piwf_reset {p : PI} (h : PIWf p) : PIWf p.reset :=
  ⟨by simp [PI.reset, h.title], h.typeId, by simp [PI.reset, h.descN], by
    intro l hl
    simp only [PI.reset, List.mem_map] at hl
    obtain ⟨l', hl', rfl⟩ := hl
    simp [h.desc l' hl']⟩

theorem wf_pi {v : Info} (h : Wf v) (cls : Nat) : PIWf (v.pi cls) := by
  unfold Info.pi; split
  · exact h.pi0
  · exact h.pi1

theorem wf_setPi {v : Info} (h : Wf v) (cls : Nat) {p : PI} (hp : PIWf p) : Wf (v.setPi cls p) := by
  unfold Info.setPi; split
  · exact ⟨hp, h.pi1, h.name, h.call⟩
  · exact ⟨h.pi0, hp, h.name, h.call⟩

theorem wf_setCyc {v : Info} (h : Wf v) (cls : Nat) (c : List Nat) : Wf (v.setCyc cls c) := by
  unfold Info.setCyc; split <;> exact ⟨h.pi0, h.pi1, h.name, h.call⟩

theorem wf_flush {v : Info} (h : Wf v) (cls : Nat) : Wf (flush v cls).1 :=
  wf_setCyc (wf_setPi h cls (piwf_reset (wf_pi h cls))) cls []

theorem wf_fin {v : Info} (h : Wf v) (cls typ : Nat) (neq : Bool) (pre : List Ev) (err : Option String) :
    Wf (fin v cls typ neq pre err).1 ∧ (fin v cls typ neq pre err).2.err = err := by
  refine ⟨?_, rfl⟩
  simp only [fin, epilogue]
  split
  · exact wf_setCyc h _ _
  · split
    · exact wf_setCyc h _ _
    · exact h

/-- a record update that leaves the arrays alone -/
theorem piwf_keep {p q : PI} (h : PIWf p) (e1 : q.title = p.title) (e2 : q.typeId = p.typeId)
    (e3 : q.description = p.description) : PIWf q :=
  ⟨by rw [e1]; exact h.title, by rw [e2]; exact h.typeId, by rw [e3]; exact h.descN, by rw [e3]; exact h.desc⟩

/-- `xds_strfu (pi->title, buffer, length)` with at most 32 bytes -/
theorem wf_title {v : Info} (h : Wf v) (cls : Nat) (d : List Nat) (hd : d.length ≤ 32) :
    Wf (v.setPi cls { v.pi cls with title := (strfuArr (v.pi cls).title d).arr }) ∧
    (strfuArr (v.pi cls).title d).oob = false := by
  have hp := wf_pi h cls
  obtain ⟨o1, o2, _⟩ := strfuArr_spec (v.pi cls).title d (by
    rw [hp.title]; have := text_length_le d; simp only [titleExt]; omega)
  exact ⟨wf_setPi h cls ⟨by rw [o2, hp.title], hp.typeId, hp.descN, hp.desc⟩, o1⟩

theorem errIf_false (site : String) : errIf false site = none := rfl

theorem wf_aspSrc {v : Info} (h : Wf v) (a : Nat) : Wf { v with aspSrc := a } := ⟨h.pi0, h.pi1, h.name, h.call⟩
theorem wf_chLang {v : Info} (h : Wf v) (l : List Nat) : Wf { v with chLang := l } := ⟨h.pi0, h.pi1, h.name, h.call⟩

/-- one call for class current / future with at most 32 bytes: extents kept, no error site -/
theorem feed_wf {v : Info} (h : Wf v) (cls typ : Nat) (d : List Nat) (nx : Nat) (hd : d.length ≤ 32) :
    Wf (feed v cls typ d nx).1 ∧ (feed v cls typ d nx).2.err = none := by
  have hp := wf_pi h cls
  unfold feed
  simp only []
  split
  · -- 1
    have h1 : ∀ b, Wf (v.setPi cls { v.pi cls with tapeDelayed := b }) :=
      fun b => wf_setPi h cls (piwf_keep hp rfl rfl rfl)
    repeat' split
    all_goals first
      | exact ⟨h, rfl⟩
      | exact wf_fin (h1 _) _ _ _ _ _
      | (refine wf_fin (wf_setPi (wf_flush (h1 _) cls) cls ?_) _ _ _ _ _
         exact piwf_keep (wf_pi (wf_flush (h1 _) cls) cls) rfl rfl rfl)
  · -- 2
    repeat' split
    all_goals first
      | exact ⟨h, rfl⟩
      | (refine wf_fin (wf_setPi h cls ?_) _ _ _ _ _; exact piwf_keep hp rfl rfl rfl)
  · -- 3
    split
    · exact ⟨h, rfl⟩
    · obtain ⟨hv1, o1⟩ := wf_title h cls d hd
      rw [o1]
      split
      · exact wf_fin hv1 _ _ _ _ _
      · split
        · exact wf_fin hv1 _ _ _ _ _
        · split
          · have hf := wf_flush hv1 cls
            obtain ⟨hv3, q1⟩ := wf_title hf cls d hd
            rw [q1]
            exact wf_fin (wf_setCyc hv3 cls [3]) _ _ _ _ _
          · exact wf_fin hv1 _ _ _ _ _
  · -- 4
    obtain ⟨a1, a2, _, _⟩ := foldl_putc (d ++ [0]) { arr := (v.pi cls).typeId, neq := !(v.pi cls).typeEia }
      (by simp [hp.typeId, typeExt]; omega)
    rw [a1]
    refine wf_fin (wf_setPi h cls ?_) _ _ _ _ _
    exact ⟨hp.title, by rw [a2]; exact hp.typeId, hp.descN, hp.desc⟩
  · -- 5
    repeat' split
    all_goals first
      | exact ⟨h, rfl⟩
      | (refine wf_fin (wf_setPi h cls ?_) _ _ _ _ _; exact piwf_keep hp rfl rfl rfl)
  · -- 6
    repeat' split
    all_goals first
      | exact ⟨h, rfl⟩
      | (refine wf_fin (wf_setPi h cls ?_) _ _ _ _ _; exact piwf_keep hp rfl rfl rfl)
  · -- 7
    split
    · exact ⟨h, rfl⟩
    · refine wf_fin (wf_setPi (wf_chLang h _) cls ?_) _ _ _ _ _
      exact piwf_keep hp rfl rfl rfl
  · -- 8
    repeat' split
    all_goals first
      | exact ⟨h, rfl⟩
      | (refine wf_fin (wf_setPi h cls ?_) _ _ _ _ _; exact piwf_keep hp rfl rfl rfl)
  · -- 9
    repeat' split
    all_goals first
      | exact ⟨h, rfl⟩
      | exact wf_fin h _ _ _ _ _
      | (refine wf_fin (wf_aspSrc (wf_setPi h _ ?_) 3) _ _ _ _ _; exact piwf_keep (wf_pi h _) rfl rfl rfl)
      | (refine wf_fin (wf_setPi h _ ?_) _ _ _ _ _; exact piwf_keep (wf_pi h _) rfl rfl rfl)
  · -- description
    split
    · have hline : typ &&& 7 < 8 := by
        have : typ &&& 7 ≤ 7 := Nat.and_le_right
        omega
      have hl : typ &&& 7 < (v.pi cls).description.length := by rw [hp.descN]; exact hline
      have hget : ((v.pi cls).description.getD (typ &&& 7) []).length = descExt := by
        have : (v.pi cls).description.getD (typ &&& 7) [] = (v.pi cls).description[typ &&& 7] := by
          simp [List.getD_eq_getElem?_getD, List.getElem?_eq_getElem hl]
        rw [this]
        exact hp.desc _ (List.getElem_mem hl)
      obtain ⟨o1, o2, _⟩ := strfuArr_spec ((v.pi cls).description.getD (typ &&& 7) []) d
        (by rw [hget]; have := text_length_le d; simp only [descExt]; omega)
      have hnot : decide ((v.pi cls).description.length ≤ typ &&& 7) = false := by
        rw [hp.descN]; simp; omega
      rw [o1, hnot]
      refine wf_fin (wf_setPi h cls ?_) _ _ _ _ _
      refine ⟨hp.title, hp.typeId, by simp [hp.descN], ?_⟩
      intro l hl'
      rcases List.mem_or_eq_of_mem_set hl' with hl' | rfl
      · exact hp.desc l hl'
      · rw [o2, hget]
    · exact ⟨h, rfl⟩

theorem wf_chswReset {v : Info} (h : Wf v) : Wf (chswReset v).1 :=
  ⟨piwf_reset h.pi0, piwf_reset h.pi1, h.name, h.call⟩

/-- one call for class channel with at most 32 bytes -/
theorem netFeed_wf {v : Info} (h : Wf v) (typ : Nat) (d : List Nat) (nx : Nat) (hd : d.length ≤ 32) :
    Wf (netFeed v typ d nx).1 ∧ (netFeed v typ d nx).2.err = none := by
  have htl := text_length_le d
  have hr := wf_chswReset h
  unfold netFeed
  simp only []
  split
  · obtain ⟨o1, o2, _⟩ := strfuArr_spec v.net.name d (by rw [h.name]; simp only [nameExt]; omega)
    have hn : (strfuArr v.net.name d).arr.length = nameExt := by rw [o2, h.name]
    rw [o1]
    repeat' split
    all_goals first
      | exact ⟨⟨h.pi0, h.pi1, hn, h.call⟩, rfl⟩
      | exact ⟨⟨hr.pi0, hr.pi1, hn, h.call⟩, rfl⟩
  · obtain ⟨o1, o2, _⟩ := strfuArr_spec v.net.call d (by rw [h.call]; simp only [callExt]; omega)
    have hc : (strfuArr v.net.call d).arr.length = callExt := by rw [o2, h.call]
    have hn : (v.net.name.set 0 0).length = nameExt := by simp [h.name]
    rw [o1]
    repeat' split
    all_goals first
      | exact ⟨⟨h.pi0, h.pi1, hn, hc⟩, rfl⟩
      | exact ⟨⟨h.pi0, h.pi1, h.name, hc⟩, rfl⟩
  · split
    · exact ⟨h, rfl⟩
    · exact ⟨⟨h.pi0, h.pi1, h.name, h.call⟩, rfl⟩
  · exact ⟨h, rfl⟩

/-- one call of `xds_decoder` with 1..32 bytes: the extents are kept and no error site is reported -/
theorem step_wf {v : Info} (h : Wf v) (p : Pkt) (nx : Nat) (h1 : 1 ≤ p.data.length) (h32 : p.data.length ≤ 32) :
    Wf (step v p nx).1 ∧ (step v p nx).2.err = none := by
  unfold step
  have : ¬(p.data.length = 0 ∨ p.data.length > 32) := by omega
  simp only [this, if_false]
  split
  · exact feed_wf h _ _ _ _ h32
  · split
    · exact netFeed_wf h _ _ _ h32
    · exact ⟨h, rfl⟩

/-- with a length outside 1..32 only the assertion at the top of `xds_decoder` is reported and nothing
    is written -/
theorem step_assert (v : Info) (p : Pkt) (nx : Nat) (h : p.data.length = 0 ∨ p.data.length > 32) :
    step v p nx = (v, { err := some "dec.assert.length" }) := by
  unfold step; rw [if_pos h]

theorem run_wf : ∀ (hist : List (Pkt × Nat)) {v : Info}, Wf v →
    (∀ c ∈ hist, 1 ≤ c.1.data.length ∧ c.1.data.length ≤ 32) →
    Wf (run v hist).1 ∧ ∀ o ∈ (run v hist).2, o.err = none
  | [], v, h, _ => ⟨h, by intro o ho; cases ho⟩
  | c :: cs, v, h, hc => by
    obtain ⟨a1, a2⟩ := step_wf h c.1 c.2 (hc c (by simp)).1 (hc c (by simp)).2
    obtain ⟨b1, b2⟩ := run_wf cs a1 (fun c' h' => hc c' (by simp [h']))
    refine ⟨b1, ?_⟩
    intro o ho
    simp only [run, List.mem_cons] at ho
    rcases ho with rfl | ho
    · exact a2
    · exact b2 o ho

/-! ## behind the separator: all byte-pair histories -/

theorem sysRun_wf (ec : Bool) : ∀ (bs : List (Nat × Nat)) {s : Sep.State} {v : Info}, Sep.Inv ec s → Wf v →
    Wf (sysRun ec (s, v) bs).1.2 ∧ Sep.Inv ec (sysRun ec (s, v) bs).1.1 ∧
    ∀ o ∈ (sysRun ec (s, v) bs).2, o.2.err = none
  | [], s, v, hs, hv => ⟨hv, hs, by intro o ho; cases ho⟩
  | b :: bs, s, v, hs, hv => by
    obtain ⟨i1, i2⟩ := Sep.inv_step ec hs b
    simp only [sysRun, sysStep]
    cases hd : (Sep.step ec s b).2.dec with
    | none =>
      simp only []
      obtain ⟨g1, g2, g3⟩ := sysRun_wf ec bs i1 hv
      refine ⟨g1, g2, ?_⟩
      intro o ho
      simp only [List.mem_cons] at ho
      rcases ho with rfl | ho
      · rfl
      · exact g3 o ho
    | some p =>
      simp only []
      have hp := i2.2 p hd
      obtain ⟨a1, a2⟩ := step_wf hv p (nxOf s) hp.1 (by have := hp.2.1; simp only [sepBufExtent] at this; exact this)
      obtain ⟨g1, g2, g3⟩ := sysRun_wf ec bs i1 a1
      refine ⟨g1, g2, ?_⟩
      intro o ho
      simp only [List.mem_cons] at ho
      rcases ho with rfl | ho
      · exact a2
      · exact g3 o ho

end Dec
end Zvbi.Xds
