import ZvbiModel.Hamm.Model
import ZvbiModel.Generated.XdsFacts
/-!
# Model of the two XDS demultiplexers of libzvbi (property C09)

* `Demux.*`  : `vbi_xds_demux_feed`, src/xds_demux.c 852-1011 (stand-alone demultiplexer)
* `Sep.*`    : the field-2 routing of `vbi_decode_caption` (src/caption.c 1275-1300),
               `xds_separator` (584-688) and the part of `xds_decoder` (488-532) that acts back on
               the separator (changed network id -> `vbi_chsw_reset` -> `memset (cc->sub_packet)`).

Conventions (DESIGN.md section 3): arrays are lists plus the extent taken from
`Generated/XdsFacts.lean`; every indexed access is checked and a miss makes the step report an
error site (`err := some site`); a pointer to a sub-packet (`curr_sp`) is the flat index
`class * subclasses + subclass` into the two-dimensional array.  The byte pair arrives as two raw
bytes (parity bit included); `Hamm.unpar8` is `vbi_unpar8`.

Two control-flow facts of the C code are parameters of the step functions so that the theorems
can speak about the code with and without the proposed repairs; the driver instantiates them with
the values `translate/gen_xds.py` reads from the current source:
* `rejectKeeps` (`Gen.Xds.demuxRejectKeepsCurrent`): xds_demux.c 908-914, does a header with an
  unknown class/subclass `goto discard` (resetting the *interrupted* packet) or not;
* `errClears` (`Gen.Xds.sepErrClearsCurr`): caption.c 597-607, does the parity-error branch clear
  `cc->curr_sp` (before commit 34b85fe the code only cleared the local copy `sp`).
A third fact, `Gen.Xds.sepNuidCompared` (is the network reset guarded by `sum != n->nuid`, commit
c11abb5), is used directly by `Sep.netDecode`: no theorem depends on which way it is.
-/
namespace Zvbi.Xds
open Zvbi.Hamm Zvbi.Gen.Xds

/-- `_vbi_xds_subpacket` / `xds_sub_packet` -/
structure Slot where
  buf : List Nat
  count : Nat
  cksum : Nat
deriving Repr, DecidableEq, Inhabited

/-- what a demultiplexer hands to its client: `vbi_xds_packet` (class, subclass, buffer[0..size))
    resp. the arguments of `xds_decoder` -/
structure Pkt where
  cls : Nat
  sub : Nat
  data : List Nat
deriving Repr, DecidableEq, Inhabited

namespace Slot

def zero (ext : Nat) : Slot := ⟨List.replicate ext 0, 0, 0⟩

/-- `sp->count = 0; sp->checksum = 0;` -/
def reset (sl : Slot) : Slot := { sl with count := 0, cksum := 0 }

/-- `sp->checksum = c1 + c2; sp->count = 2;` -/
def start (sl : Slot) (c1 c2 : Nat) : Slot := { sl with count := 2, cksum := c1 + c2 }

/-- `sp->buffer[sp->count - 2] = c1; sp->buffer[sp->count - 1] = c2; sp->checksum += c1 + c2;
    sp->count += 1 + (0 != c2);` for `2 <= count`, `count - 1 < extent` -/
def store (sl : Slot) (c1 c2 : Nat) : Slot :=
  { buf := (sl.buf.set (sl.count - 2) c1).set (sl.count - 1) c2
    count := sl.count + 1 + (if c2 = 0 then 0 else 1)
    cksum := sl.cksum + c1 + c2 }

/-- replace byte `k` (little endian) of a 32-bit value -/
def setByte (v k b : Nat) : Nat := v - (v &&& (255 <<< (8 * k))) + (b <<< (8 * k))

/-- The same three statements of caption.c when `count < 2`: the negative indices `buffer[-2]`,
    `buffer[-1]` are the two high bytes of the preceding `int chksum` (cc.h: count, chksum, buffer;
    little endian) - what the x86-64 build under test does.  Every use is reported as an
    out-of-bounds error by the caller. -/
def storeUnder (sl : Slot) (c1 c2 : Nat) : Slot :=
  if sl.count = 0 then
    { buf := sl.buf
      count := 1 + (if c2 = 0 then 0 else 1)
      cksum := setByte (setByte sl.cksum 2 c1) 3 c2 + c1 + c2 }
  else
    { buf := sl.buf.set 0 c2
      count := sl.count + 1 + (if c2 = 0 then 0 else 1)
      cksum := setByte sl.cksum 3 c1 + c1 + c2 }

end Slot

/-- `if (sp) { sp->count = 0; sp->checksum = 0; }` on the slot array -/
def resetAt (slots : List Slot) : Option Nat → List Slot
  | some i => (match slots[i]? with
    | some sl => slots.set i sl.reset
    | none => slots)
  | none => slots

/-! ## xds_demux.c -/
namespace Demux

structure State where
  slots : List Slot
  curr : Option Nat
  curCls : Nat
  curSub : Nat
deriving Repr, DecidableEq

structure Out where
  r : Bool := true
  pkt : Option Pkt := none
  err : Option String := none
deriving Repr, DecidableEq

/-- `vbi_xds_demux_reset` (the checksum fields are left as they are in C; they are written
    before they are read) -/
def init : State :=
  { slots := List.replicate (demuxClasses * demuxSubclasses) (Slot.zero demuxBufExtent)
    curr := none, curCls := 0, curSub := 0 }

/-- subclass -> second index.  Two source shapes (constants read by translate/gen_xds.py):
    `i = xds_subclass; if (i >= 0x40) i += 0x10 - 0x40;` (F33: `demuxLowLimit = demuxRemapFrom`, the
    second branch below is dead, subclasses 0x1n and 0x4n land on the same index) and
    `if (i >= 0x40) i += VBI_XDS_MAX_SUBCLASSES - 0x40; else if (i >= VBI_XDS_MAX_SUBCLASSES)
    i = N_ELEMENTS (xd->subpacket[0]);` (repaired: 0x4n behind 0x00..0x17, 0x18..0x3F refused). -/
def remapWith (from_ to_ low n : Nat) (c2 : Nat) : Nat :=
  if c2 ≥ from_ then c2 + to_ - from_
  else if c2 ≥ low then n
  else c2

/-- the mapping of the tree under test -/
def remap (c2 : Nat) : Nat := remapWith demuxRemapFrom demuxRemapTo demuxLowLimit demuxSubclasses c2

/-- label `discard:` -/
def discard (s : State) (sp : Option Nat) : State :=
  { s with slots := resetAt s.slots sp, curr := none }

/-- `case 0x01 ... 0x0E` -/
def header (rejectKeeps : Bool) (s : State) (c1 c2 : Nat) : State × Out :=
  let cls := (c1 - 1) >>> 1
  let i := remap c2
  if cls > demuxMaxClass ∨ i ≥ demuxSubclasses then
    if rejectKeeps then ({ s with curr := none }, {}) else (discard s s.curr, {})
  else
    let idx := cls * demuxSubclasses + i
    match s.slots[idx]? with
    | none => (s, { err := some "demux.header.index" })
    | some sl =>
      if c1 % 2 = 1 then
        ({ slots := s.slots.set idx (sl.start c1 c2), curr := some idx, curCls := cls, curSub := c2 }, {})
      else if sl.count = 0 then
        (discard { s with curr := some idx, curCls := cls, curSub := c2 } (some idx), {})
      else
        ({ s with curr := some idx, curCls := cls, curSub := c2 }, {})

/-- `case 0x0F` -/
def terminator (s : State) (c1 c2 : Nat) : State × Out :=
  match s.curr with
  | none => (s, {})
  | some i =>
    match s.slots[i]? with
    | none => (s, { err := some "demux.term.index" })
    | some sl =>
      let ck := sl.cksum + c1 + c2
      let s' := discard s (some i)
      if ck % 128 ≠ 0 then (s', {})
      else if sl.count ≤ 2 then (s', {})
      else if sl.count - 2 ≥ demuxPktExtent then (s', { err := some "demux.deliver.nul" })
      else if sl.count - 2 > demuxBufExtent then (s', { err := some "demux.deliver.size" })
      else (s', { pkt := some ⟨s.curCls, s.curSub, sl.buf.take (sl.count - 2)⟩ })

/-- `case 0x20 ... 0x7F` -/
def content (s : State) (c1 c2 : Nat) : State × Out :=
  match s.curr with
  | none => (s, {})
  | some i =>
    match s.slots[i]? with
    | none => (s, { err := some "demux.store.index" })
    | some sl =>
      if sl.count > demuxStoreGuard then (discard s (some i), {})
      else if sl.count < 2 then (s, { err := some "demux.store.under" })
      else if sl.count - 1 ≥ demuxBufExtent then (s, { err := some "demux.store.over" })
      else ({ s with slots := s.slots.set i (sl.store c1 c2) }, {})

/-- the `switch (c1)` for parity-checked `c1`, `c2` -/
def step7 (rejectKeeps : Bool) (s : State) (c1 c2 : Nat) : State × Out :=
  if c1 = 0 then (s, {})
  else if c1 ≤ 0x0E then header rejectKeeps s c1 c2
  else if c1 = 0x0F then terminator s c1 c2
  else if c1 ≤ 0x1F then ({ s with curr := none }, {})
  else content s c1 c2

/-- `vbi_xds_demux_feed` on two raw bytes -/
def step (rejectKeeps : Bool) (s : State) (b : Nat × Nat) : State × Out :=
  match unpar8 b.1, unpar8 b.2 with
  | some c1, some c2 => step7 rejectKeeps s c1 c2
  | _, _ => (discard s s.curr, { r := false })

/-- feed a list of byte pairs, collecting the outputs -/
def run (rejectKeeps : Bool) : State → List (Nat × Nat) → State × List Out
  | s, [] => (s, [])
  | s, b :: bs =>
    let (s1, o) := step rejectKeeps s b
    let (s2, os) := run rejectKeeps s1 bs
    (s2, o :: os)

end Demux

/-! ## caption.c -/
namespace Sep

/-- the fields of `vbi_network` that decide whether `xds_decoder` resets the caption decoder;
    `nuid = 0` means no network identified yet -/
structure Net where
  name : List Nat := []
  call : List Nat := []
  cycle : Nat := 0
  nuid : Nat := 0
  tapeDelay : Nat := 0
deriving Repr, DecidableEq

structure State where
  slots : List Slot
  curr : Option Nat
  xds : Bool
  net : Net
deriving Repr, DecidableEq

structure Out where
  dec : Option Pkt := none
  err : Option String := none
deriving Repr, DecidableEq

def zeroSlots : List Slot := List.replicate (sepClasses * sepSubclasses) (Slot.zero sepBufExtent)

/-- `vbi_caption_init` -/
def init : State := { slots := zeroSlots, curr := none, xds := false, net := {} }

/-- `xds_strfu`: new string and "differs from the old one" -/
def strfu (old s : List Nat) : List Nat × Bool :=
  let t := (s.dropWhile (· ≤ 0x20)).map (fun c => max 0x20 c)
  (t, t != old)

/-- `hcrc[i]` as `init_hcrc` fills it: xor of `0x48000000 >> j` over the set bits `j < 7` of `i` -/
def hcrc (i : Nat) : Nat :=
  (List.range 7).foldl (fun sum j => if i &&& (1 <<< j) != 0 then sum ^^^ (0x48000000 >>> j) else sum) 0

/-- station id from the call letters (or the name): `for (sum = 0; *s; s++) sum = (sum >> 7) ^
    hcrc[(sum ^ *s) & 0x7F]; sum &= (1UL << 31) - 1; sum |= 1UL << 30;` -/
def nuidOf (s : List Nat) : Nat :=
  let sum := s.foldl (fun sum c => (sum >>> 7) ^^^ hcrc ((sum ^^^ c) &&& 0x7F)) 0
  (sum &&& 0x7FFFFFFF) ||| 0x40000000

/-- `xds_decoder`, `case XDS_CHANNEL` types 1 and 2: new network state and whether
    `vbi_chsw_reset` ran.  `Gen.Xds.sepNuidCompared` (read from the current source) says whether
    the reset is guarded by `if (sum != n->nuid)`. -/
def netDecode (n : Net) (p : Pkt) : Net × Bool :=
  if p.cls = 2 ∧ p.sub = 1 then
    let (t, neq) := strfu n.name p.data
    if neq then ({ n with name := t, cycle := 1 }, false)
    else if n.cycle = 1 then
      let sum := nuidOf (if n.call.isEmpty then t else n.call)
      if sepNuidCompared && sum == n.nuid then ({ n with name := t, cycle := 3 }, false)
      else ({ n with name := t, cycle := 3, nuid := sum }, n.nuid != 0)
    else ({ n with name := t }, false)
  else if p.cls = 2 ∧ p.sub = 2 then
    let (t, neq) := strfu n.call p.data
    if neq ∧ n.cycle ≠ 1 then ({ n with call := t, name := [], cycle := 0 }, false)
    else ({ n with call := t }, false)
  else if p.cls = 2 ∧ p.sub = 3 then
    -- channel tape delay: `(buffer[1] & 31) * 60 + (buffer[0] & 63)`
    if p.data.length = 2 then ({ n with tapeDelay := (p.data.getD 1 0 &&& 31) * 60 + (p.data.getD 0 0 &&& 63) }, false)
    else (n, false)
  else (n, false)

/-- `case 15` of `xds_separator` (the assertion is the first statement of `xds_decoder`) -/
def terminator (s : State) (c1 c2 : Nat) : State × Out :=
  match s.curr with
  | none => (s, {})
  | some i =>
    match s.slots[i]? with
    | none => (s, { err := some "sep.term.index" })
    | some sl =>
      let ck := sl.cksum + c1 + c2
      let done : State := { s with slots := s.slots.set i sl.reset, curr := none }
      if ck % 128 ≠ 0 then (done, {})
      else if sl.count ≤ 2 then (done, {})
      else if sl.count - 2 > 32 then (done, { err := some "sep.assert.length" })
      else
        let p : Pkt := ⟨i / sepSubclasses, i % sepSubclasses, sl.buf.take (sl.count - 2)⟩
        let (n', chsw) := netDecode s.net p
        if chsw then
          -- vbi_caption_channel_switched: cc->xds = FALSE; memset (cc->sub_packet, 0); desync
          ({ slots := zeroSlots, curr := none, xds := false, net := n' }, { dec := some p })
        else ({ done with net := n' }, { dec := some p })

/-- `case 0x20 ... 0x7F` of `xds_separator` -/
def content (s : State) (c1 c2 : Nat) : State × Out :=
  match s.curr with
  | none => (s, {})
  | some i =>
    match s.slots[i]? with
    | none => (s, { err := some "sep.store.index" })
    | some sl =>
      if sl.count > sepStoreGuard then ({ s with slots := s.slots.set i sl.reset, curr := none }, {})
      else if sl.count < 2 then
        ({ s with slots := s.slots.set i (sl.storeUnder c1 c2) }, { err := some "sep.store.under" })
      else if sl.count - 1 ≥ sepBufExtent then (s, { err := some "sep.store.over" })
      else ({ s with slots := s.slots.set i (sl.store c1 c2) }, {})

/-- `case 1 ... 14` of `xds_separator` -/
def header (s : State) (c1 c2 : Nat) : State × Out :=
  let cls := (c1 - 1) >>> 1
  if cls ≥ sepClasses ∨ c2 ≥ sepSubclasses then ({ s with curr := none }, {})
  else
    let idx := cls * sepSubclasses + c2
    match s.slots[idx]? with
    | none => (s, { err := some "sep.header.index" })
    | some sl =>
      if c1 % 2 = 1 then ({ s with slots := s.slots.set idx (sl.start c1 c2), curr := some idx }, {})
      else if sl.count = 0 then ({ s with curr := none }, {})
      else ({ s with curr := some idx }, {})

/-- `xds_separator` on two raw bytes -/
def separator (errClears : Bool) (s : State) (b : Nat × Nat) : State × Out :=
  match unpar8 b.1, unpar8 b.2 with
  | some c1, some c2 =>
    if 1 ≤ c1 ∧ c1 ≤ 14 then header s c1 c2
    else if c1 = 15 then terminator s c1 c2
    else if 0x20 ≤ c1 then content s c1 c2
    else (s, { err := some "sep.assert.reached" })
  | _, _ =>
    ({ s with slots := resetAt s.slots s.curr, curr := if errClears then none else s.curr }, {})

/-- `vbi_decode_caption`, `case 284`: what reaches the separator; everything else goes to the
    caption decoder, which does not touch `xds`, `curr_sp`, `sub_packet` -/
def step (errClears : Bool) (s : State) (b : Nat × Nat) : State × Out :=
  match unpar8 b.1 with
  | some c1 =>
    if c1 = 0 then (s, {})
    else if c1 ≤ 0x0F then
      let (s', o) := separator errClears s b
      ({ s' with xds := c1 != 15 }, o)
    else if c1 ≤ 0x1F then ({ s with xds := false }, {})
    else if s.xds then separator errClears s b
    else (s, {})
  | none => if s.xds then separator errClears s b else (s, {})

def run (errClears : Bool) : State → List (Nat × Nat) → State × List Out
  | s, [] => (s, [])
  | s, b :: bs =>
    let (s1, o) := step errClears s b
    let (s2, os) := run errClears s1 bs
    (s2, o :: os)

end Sep
end Zvbi.Xds
