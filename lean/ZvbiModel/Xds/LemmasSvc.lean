import ZvbiModel.Xds.Service
import ZvbiModel.Xds.LemmasMore
/-!
# Lemmas for C09, part 4: the service decoder (`Svc`)
-/
namespace Zvbi.Xds
namespace Svc
open Sep

@[simp] theorem pi_setPi (v : State) (cls : Nat) (p : PI) : (v.setPi cls p).pi cls = p := by
  unfold State.setPi State.pi; split <;> simp_all
@[simp] theorem cyc_setPi (v : State) (cls : Nat) (p : PI) : (v.setPi cls p).cyc cls = v.cyc cls := by
  unfold State.setPi State.cyc; split <;> simp_all
@[simp] theorem cyc_setCyc (v : State) (cls : Nat) (c : List Nat) : (v.setCyc cls c).cyc cls = c := by
  unfold State.setCyc State.cyc; split <;> simp_all
@[simp] theorem pi_setCyc (v : State) (cls : Nat) (c : List Nat) : (v.setCyc cls c).pi cls = v.pi cls := by
  unfold State.setCyc State.pi; split <;> simp_all

theorem strfu_eq (old s : List Nat) : strfu old s = (strfuText s, strfuText s != old) := by
  simp [strfu, strfuText]

/-- the title branch of `feed` as one equation -/
theorem feed_title (v : State) (cls : Nat) (data : List Nat) (hn : 2 ≤ data.length) :
    feed v ⟨cls, 3, data⟩ =
      (let t := strfuText data
       let v1 := v.setPi cls { v.pi cls with title := t }
       if t != (v.pi cls).title then epilogue v1 cls 3 true
       else if !(v.cyc cls).contains 3 then epilogue v1 cls 3 false
       else if !(v.cyc cls).contains 1 then
         epilogue (((flush v1 cls).setPi cls { ((flush v1 cls).pi cls) with title := t }).setCyc cls [3]) cls 3 false
       else epilogue v1 cls 3 false) := by
  have h : ¬ data.length < 2 := by omega
  simp only [feed, h, if_false, strfu_eq, cyc_setPi]

/-- title announced exactly on the second identical occurrence -/
theorem title_second_occurrence (v : State) (cls : Nat) (data : List Nat) (hn : 2 ≤ data.length)
    (hneq : strfuText data ≠ (v.pi cls).title) :
    (feed v ⟨cls, 3, data⟩).2 = [] ∧
    (∃ e, (feed (feed v ⟨cls, 3, data⟩).1 ⟨cls, 3, data⟩).2 = [Ev.progInfo cls e] ∧ e.title = strfuText data) ∧
    (feed (feed (feed v ⟨cls, 3, data⟩).1 ⟨cls, 3, data⟩).1 ⟨cls, 3, data⟩).2 = [] ∧
    ((feed (feed (feed v ⟨cls, 3, data⟩).1 ⟨cls, 3, data⟩).1 ⟨cls, 3, data⟩).1.pi cls).title = strfuText data := by
  have hb : (strfuText data != (v.pi cls).title) = true := by simpa using hneq
  -- first occurrence
  have e1 : feed v ⟨cls, 3, data⟩ =
      ((v.setPi cls { v.pi cls with title := strfuText data }).setCyc cls (3 :: v.cyc cls), []) := by
    rw [feed_title v cls data hn]
    simp [hb, epilogue]
  rw [e1]
  refine ⟨rfl, ?_⟩
  -- second occurrence
  generalize hv1 : (v.setPi cls { v.pi cls with title := strfuText data }).setCyc cls (3 :: v.cyc cls) = v1
  have t1 : (v1.pi cls).title = strfuText data := by rw [← hv1]; simp
  have c1 : (v1.cyc cls).contains 3 = true := by rw [← hv1]; simp
  have e2 : ∃ e v2, feed v1 ⟨cls, 3, data⟩ = (v2, [Ev.progInfo cls e]) ∧ e.title = strfuText data ∧
      (v2.pi cls).title = strfuText data ∧ v2.cyc cls = [] := by
    rw [feed_title v1 cls data hn]
    simp only [t1, bne_self_eq_false, Bool.false_eq_true, if_false, c1, Bool.not_true]
    by_cases hp : (v1.cyc cls).contains 1
    · simp only [hp, Bool.not_true, Bool.false_eq_true, if_false, epilogue, cyc_setPi, c1, if_true, pi_setPi]
      exact ⟨_, _, rfl, rfl, by simp, by simp⟩
    · simp only [hp, Bool.not_false, if_true, epilogue, Bool.false_eq_true, if_false, cyc_setCyc,
        List.contains_cons, beq_self_eq_true, Bool.true_or, pi_setCyc, pi_setPi]
      exact ⟨_, _, rfl, rfl, by simp, by simp⟩
  obtain ⟨e, v2, h2, he, t2, c2⟩ := e2
  rw [h2]
  refine ⟨⟨e, rfl, he⟩, ?_⟩
  -- third occurrence
  have e3 : feed v2 ⟨cls, 3, data⟩ = (v2.setPi cls { v2.pi cls with title := strfuText data }, []) := by
    rw [feed_title v2 cls data hn]
    simp [t2, c2, epilogue]
  rw [e3]
  exact ⟨rfl, by simp⟩


/-- whatever the state: an event raised while a title packet is decoded carries that packet's text,
    and so does the stored title afterwards -/
theorem title_faithful (v : State) (cls : Nat) (data : List Nat) (hn : 2 ≤ data.length) :
    ((feed v ⟨cls, 3, data⟩).1.pi cls).title = strfuText data ∧
    ∀ ev ∈ (feed v ⟨cls, 3, data⟩).2, ∃ e, ev = Ev.progInfo cls e ∧ e.title = strfuText data := by
  rw [feed_title v cls data hn]
  simp only []
  split
  · simp [epilogue]
  · split
    · simp only [epilogue, Bool.false_eq_true, if_false, cyc_setPi]
      split <;> simp
    · split
      · simp only [epilogue, Bool.false_eq_true, if_false, cyc_setCyc]
        simp
      · simp only [epilogue, Bool.false_eq_true, if_false, cyc_setPi]
        split <;> simp

/-! ## network name / call letters -/

theorem netDecode_name (n : Net) (data : List Nat) :
    (netDecode n ⟨2, 1, data⟩).1.name = strfuText data ∧ (netDecode n ⟨2, 1, data⟩).1.call = n.call := by
  simp only [netDecode, strfu_eq, and_self, if_true]
  (repeat' split) <;> simp

theorem netDecode_call (n : Net) (data : List Nat) :
    (netDecode n ⟨2, 2, data⟩).1.call = strfuText data ∧ netEvents n ⟨2, 2, data⟩ = [] ∧
    (netDecode n ⟨2, 2, data⟩).2 = false := by
  simp only [netDecode, netEvents, strfu_eq]
  (repeat' split) <;> simp_all

/-- network name announced exactly on the second identical occurrence: NETWORK_ID always, NETWORK (with
    the new name, the call letters and the new id) iff the station id changed -/
theorem network_second_occurrence (n : Net) (data : List Nat) (hneq : strfuText data ≠ n.name) :
    let p : Pkt := ⟨2, 1, data⟩
    let n1 := (netDecode n p).1
    let n2 := (netDecode n1 p).1
    netEvents n p = [] ∧
    netEvents n1 p = (if n2.nuid != n.nuid then [Ev.network (strfuText data) n.call n2.nuid n.tapeDelay] else [])
      ++ [Ev.networkId] ∧
    netEvents n2 p = [] ∧ n2.name = strfuText data := by
  have hb : (strfuText data != n.name) = true := by simpa using hneq
  have e1 : netDecode n ⟨2, 1, data⟩ = ({ n with name := strfuText data, cycle := 1 }, false) := by
    simp [netDecode, strfu_eq, hb]
  simp only [e1]
  refine ⟨by simp [netEvents, strfu_eq, hb], ?_, ?_, ?_⟩
  · simp only [netEvents, strfu_eq, and_self, if_true, bne_self_eq_false, Bool.false_eq_true, if_false]
  · have : ((netDecode { n with name := strfuText data, cycle := 1 } ⟨2, 1, data⟩).1).cycle = 3 ∧
        ((netDecode { n with name := strfuText data, cycle := 1 } ⟨2, 1, data⟩).1).name = strfuText data := by
      simp only [netDecode, strfu_eq, and_self, if_true, bne_self_eq_false, Bool.false_eq_true, if_false]
      (repeat' split) <;> simp
    simp only [netEvents, strfu_eq, and_self, if_true, this.2, bne_self_eq_false, Bool.false_eq_true, if_false,
      this.1]
    simp
  · exact (netDecode_name _ data).1

/-! ## behind the separator: programme-info events are a function of the delivered packets -/

/-- feed a list of delivered packets of the classes current / future -/
def feedAll : State → List Pkt → State × List Ev
  | v, [] => (v, [])
  | v, p :: ps =>
    let r := feed v p
    let r2 := feedAll r.1 ps
    (r2.1, r.2 ++ r2.2)

theorem run_feedAll (ec : Bool) : ∀ (bs : List (Nat × Nat)) (s : Sep.State) (v : State),
    (∀ p ∈ Sep.deliveries (Sep.run ec s bs).2, p.cls ≤ 1) →
    (run ec (s, v) bs).1.1 = (Sep.run ec s bs).1 ∧
    (run ec (s, v) bs).1.2 = (feedAll v (Sep.deliveries (Sep.run ec s bs).2)).1 ∧
    (run ec (s, v) bs).2 = (feedAll v (Sep.deliveries (Sep.run ec s bs).2)).2
  | [], s, v, _ => ⟨rfl, rfl, rfl⟩
  | b :: bs, s, v, h => by
    simp only [Sep.run, Sep.deliveries_cons] at h
    simp only [run, step, Sep.run, Sep.deliveries_cons]
    cases hd : (Sep.step ec s b).2.dec with
    | none =>
      simp only [hd, Option.toList, List.nil_append] at h ⊢
      exact run_feedAll ec bs _ v h
    | some p =>
      simp only [hd, Option.toList, List.cons_append, List.nil_append] at h ⊢
      have hp : p.cls ≤ 1 := h p (by simp)
      simp only [decode, hp, if_true, feedAll]
      obtain ⟨g1, g2, g3⟩ := run_feedAll ec bs (Sep.step ec s b).1 (feed v p).1 (fun q hq => h q (by simp [hq]))
      exact ⟨g1, g2, by rw [g3]⟩


/-- the separator's state does not depend on the service decoder's -/
theorem run_sep (ec : Bool) : ∀ (bs : List (Nat × Nat)) (s : Sep.State) (v : State),
    (run ec (s, v) bs).1.1 = (Sep.run ec s bs).1
  | [], _, _ => rfl
  | b :: bs, s, v => by
    simp only [run, step, Sep.run]
    cases hd : (Sep.step ec s b).2.dec with
    | none => simp only [hd]; exact run_sep ec bs _ _
    | some p => simp only [hd]; exact run_sep ec bs _ _

/-- the same valid packet transmitted twice in a row is handed over twice -/
theorem deliveries_twice (ec : Bool) {s : Sep.State} (h : Sep.Inv ec s) (p : Packet) (hv : p.Valid)
    (hacc : Sep.accepted p.cls p.sub) :
    Sep.deliveries (Sep.run ec s (wire p (checksum p) ++ wire p (checksum p))).2 = [p.toPkt, p.toPkt] := by
  have hck : (bodySum p + checksum p) % 128 = 0 ∧ checksum p < 128 := by unfold checksum; omega
  have hlt := Demux.wire7_lt p hv (checksum p) hck.2
  have h1 := Sep.deliver_wire7 ec h p hv hacc (checksum p)
  have hs' : Sep.Inv ec (Sep.run ec s (wire p (checksum p))).1 := (Sep.inv_run ec _ h).1
  have h2 := Sep.deliver_wire7 ec hs' p hv hacc (checksum p)
  rw [Sep.run_append, Sep.deliveries_append]
  simp only [wire] at hs' h2 ⊢
  rw [Sep.run_map_parPair ec _ _ hlt] at h2 ⊢
  rw [Sep.run_map_parPair ec _ _ hlt]
  rw [h1.1, h2.1]
  simp [hck.1]

end Svc
end Zvbi.Xds
