import ZvbiModel.Xds.LemmasMore
import ZvbiModel.Xds.SepFrame
/-!
# Lemmas for C09, round 3: frame routing (`vbi_xds_demux_feed_frame`), the sender's grammar of an
# interruption (caption.c), what the parity-error branch of `xds_separator` does to the state
-/
namespace Zvbi.Xds
open Zvbi.Hamm Zvbi.Gen.Xds

/-! ## vbi_xds_demux_feed_frame -/
namespace Frame

theorem feedFrame_eq (rk : Bool) : ∀ (fr : List Sliced) (s : Demux.State),
    feedFrame rk s fr = feedUntilRefused rk s (field2 fr)
  | [], s => rfl
  | sl :: rest, s => by
    by_cases h : selected sl = true
    · have hf : field2 (sl :: rest) = sl.data :: field2 rest := by simp [field2, List.filter_cons, h]
      rw [hf]
      simp only [feedFrame, h, if_true, feedUntilRefused]
      split
      · rw [feedFrame_eq rk rest]
      · rfl
    · have hf : field2 (sl :: rest) = field2 rest := by simp [field2, List.filter_cons, h]
      rw [hf]
      simp only [feedFrame, h]
      exact feedFrame_eq rk rest s

/-- `vbi_xds_demux_feed` returns TRUE exactly for a pair with two correct parities -/
theorem step_r (rk : Bool) (s : Demux.State) (b : Nat × Nat) :
    (Demux.step rk s b).2.r = ((unpar8 b.1).isSome && (unpar8 b.2).isSome) := by
  unfold Demux.step
  cases h1 : unpar8 b.1 with
  | none => simp
  | some c1 =>
    cases h2 : unpar8 b.2 with
    | none => simp
    | some c2 =>
      simp only [Option.isSome_some, Bool.and_self]
      unfold Demux.step7 Demux.header Demux.terminator Demux.content
      simp only []
      repeat' split
      all_goals rfl

/-- while every pair is readable, feeding until the first refusal is just feeding -/
theorem feedUntilRefused_readable (rk : Bool) : ∀ (bs : List (Nat × Nat)) (s : Demux.State),
    (∀ b ∈ bs, (unpar8 b.1).isSome ∧ (unpar8 b.2).isSome) →
    feedUntilRefused rk s bs = ((Demux.run rk s bs).1, true, (Demux.run rk s bs).2)
  | [], s, _ => rfl
  | b :: bs, s, h => by
    have hb := h b (by simp)
    have hr : (Demux.step rk s b).2.r = true := by rw [step_r, hb.1, hb.2]; rfl
    simp only [feedUntilRefused, hr, if_true, Demux.run]
    rw [feedUntilRefused_readable rk bs _ (fun b' h' => h b' (by simp [h']))]

/-- the first unreadable pair ends the call with FALSE; the pairs behind it are not fed -/
theorem feedUntilRefused_refused (rk : Bool) : ∀ (pre : List (Nat × Nat)) (bad : Nat × Nat) (post : List (Nat × Nat))
    (s : Demux.State), (∀ b ∈ pre, (unpar8 b.1).isSome ∧ (unpar8 b.2).isSome) →
    ((unpar8 bad.1).isSome && (unpar8 bad.2).isSome) = false →
    (feedUntilRefused rk s (pre ++ bad :: post)).1 = (Demux.run rk s (pre ++ [bad])).1 ∧
    (feedUntilRefused rk s (pre ++ bad :: post)).2.1 = false ∧
    (feedUntilRefused rk s (pre ++ bad :: post)).2.2 = (Demux.run rk s (pre ++ [bad])).2
  | [], bad, post, s, _, hb => by
    have hr : (Demux.step rk s bad).2.r = false := by rw [step_r]; exact hb
    simp [feedUntilRefused, hr, Demux.run]
  | b :: pre, bad, post, s, h, hb => by
    have hb' := h b (by simp)
    have hr : (Demux.step rk s b).2.r = true := by rw [step_r, hb'.1, hb'.2]; rfl
    obtain ⟨g1, g2, g3⟩ := feedUntilRefused_refused rk pre bad post (Demux.step rk s b).1
      (fun b' h' => h b' (by simp [h'])) hb
    simp only [List.cons_append, feedUntilRefused, hr, if_true, Demux.run]
    exact ⟨g1, g2, by rw [g3]⟩

end Frame

/-! ## caption.c: an interruption as a conforming sender writes it -/
namespace Sep

/-- what a conforming encoder puts between two pieces of a packet: NUL pairs, caption runs (a
    caption control code 0x10..0x1F followed by text pairs), and pieces of other XDS packets (a
    start or continue pair, payload pairs, possibly the end pair) -/
inductive Item where
  | nul
  | caption (ctrl : Pair) (text : List Pair)
  | packet (hdr : Pair) (body : List Pair) (last : Option Nat)
deriving Repr

def Item.pairs : Item → List Pair
  | .nul => [(0, 0)]
  | .caption c t => c :: t
  | .packet h b none => h :: b
  | .packet h b (some ck) => h :: b ++ [(0x0F, ck)]

/-- well-formed for the interruption of the packet in buffer `i`: codes in their ranges; a foreign
    packet uses another buffer and is not the network name packet 2/1 -/
def Item.ok (i : Nat) : Item → Prop
  | .nul => True
  | .caption c t => 0x10 ≤ c.1 ∧ c.1 ≤ 0x1F ∧ ∀ q ∈ t, 0x20 ≤ q.1
  | .packet h b _ => 1 ≤ h.1 ∧ h.1 ≤ 14 ∧
      ¬(accepted ((h.1 - 1) >>> 1) h.2 ∧ slotOf ((h.1 - 1) >>> 1) h.2 = i) ∧
      ¬((h.1 - 1) >>> 1 = 2 ∧ h.2 = 1) ∧ ∀ q ∈ b, 0x20 ≤ q.1

theorem blockOk_text (i : Nat) (m : Bool) : ∀ (t rest : List Pair), (∀ q ∈ t, 0x20 ≤ q.1) →
    blockOk i m (t ++ rest) = blockOk i m rest
  | [], _, _ => rfl
  | q :: t, rest, h => by
    have hq := h q (by simp)
    have h0 : ¬(q.1 = 0) := by omega
    have h14 : ¬(q.1 ≤ 14) := by omega
    have h15 : ¬(q.1 = 15) := by omega
    have h31 : ¬(q.1 ≤ 31) := by omega
    simp only [List.cons_append, blockOk, h0, h14, h15, h31, if_false]
    exact blockOk_text i m t rest (fun q' h' => h q' (by simp [h']))

/-- every sequence of well-formed items passes the scan `blockOk`, whatever was open before -/
theorem blockOk_items (i : Nat) : ∀ (items : List Item) (m : Bool), (∀ it ∈ items, it.ok i) →
    blockOk i m (items.flatMap Item.pairs) = true
  | [], _, _ => rfl
  | it :: items, m, h => by
    have hit := h it (by simp)
    have ih := fun m' => blockOk_items i items m' (fun it' h' => h it' (by simp [h']))
    simp only [List.flatMap_cons]
    cases it with
    | nul => simp only [Item.pairs, List.cons_append, List.nil_append, blockOk, if_true]; exact ih m
    | caption c t =>
      obtain ⟨c1, c2, c3⟩ := hit
      have h0 : ¬(c.1 = 0) := by omega
      have h14 : ¬(c.1 ≤ 14) := by omega
      have h15 : ¬(c.1 = 15) := by omega
      have h31 : c.1 ≤ 31 := by omega
      simp only [Item.pairs, List.cons_append, blockOk, h0, h14, h15, h31, if_false, if_true]
      rw [blockOk_text i false t _ c3]; exact ih false
    | packet hd b last =>
      obtain ⟨p1, p2, p3, p4, p5⟩ := hit
      have h0 : ¬(hd.1 = 0) := by omega
      have e1 : (decide (accepted ((hd.1 - 1) >>> 1) hd.2) && slotOf ((hd.1 - 1) >>> 1) hd.2 == i) = false := by
        cases hd' : decide (accepted ((hd.1 - 1) >>> 1) hd.2) with
        | false => rfl
        | true =>
          simp only [Bool.true_and, beq_eq_false_iff_ne, ne_eq]
          intro e; exact p3 ⟨of_decide_eq_true hd', e⟩
      have e2 : ((hd.1 - 1) >>> 1 == 2 && hd.2 == 1) = false := by
        cases hx : ((hd.1 - 1) >>> 1 == 2) with
        | false => rfl
        | true =>
          simp only [Bool.true_and, beq_eq_false_iff_ne, ne_eq]
          intro e; exact p4 ⟨by simpa using hx, e⟩
      cases last with
      | none =>
        simp only [Item.pairs, List.cons_append, blockOk, h0, p2, if_false, if_true, e1, e2, Bool.not_false, Bool.true_and]
        rw [blockOk_text i true b _ p5]; exact ih true
      | some ck =>
        simp only [Item.pairs, List.cons_append, List.append_assoc, blockOk, h0, p2, if_false, if_true, e1, e2,
          Bool.not_false, Bool.true_and]
        rw [blockOk_text i true b _ p5]
        simp only [List.cons_append, List.nil_append, blockOk]
        simp only [show ¬((15 : Nat) = 0) by omega, show ¬((15 : Nat) ≤ 14) by omega, if_false, if_true, Bool.true_and]
        exact ih false

/-- an interruption written by a conforming sender (first item a caption run or a piece of another
    packet, all bytes 7-bit) is a `ForeignBlock` -/
theorem foreignBlock_of_items (i : Nat) (first : Item) (items : List Item) (hf : first ≠ Item.nul)
    (hok : ∀ it ∈ first :: items, it.ok i)
    (hlt : ∀ q ∈ (first :: items).flatMap Item.pairs, q.1 < 128 ∧ q.2 < 128) :
    ForeignBlock i ((first :: items).flatMap Item.pairs) := by
  refine ⟨?_, blockOk_items i _ false hok, hlt⟩
  have h1 := hok first (by simp)
  cases first with
  | nul => exact absurd rfl hf
  | caption c t =>
    obtain ⟨c1, c2, _⟩ := h1
    exact ⟨c, t ++ items.flatMap Item.pairs, by simp [Item.pairs], by omega, c2, by omega⟩
  | packet hd b last =>
    obtain ⟨p1, p2, _⟩ := h1
    cases last with
    | none => exact ⟨hd, b ++ items.flatMap Item.pairs, by simp [Item.pairs], p1, by omega, by omega⟩
    | some ck => exact ⟨hd, b ++ [(0x0F, ck)] ++ items.flatMap Item.pairs, by simp [Item.pairs], p1, by omega, by omega⟩

/-! ## the parity-error branch since commit 34b85fe -/

/-- in XDS mode every `Damaged` pair reaches the parity-error branch of `xds_separator`, which drops
    the current packet: its buffer is emptied, no packet is current any more, nothing else changes,
    nothing is delivered and no error site is reported -/
theorem damaged_drops_current {s : State} (hx : s.xds = true) (bad : Nat × Nat) (hbad : Damaged bad) :
    (step true s bad).1.slots = resetAt s.slots s.curr ∧ (step true s bad).1.curr = none ∧
    (step true s bad).1.net = s.net ∧ (step true s bad).2 = {} := by
  have sep : separator true s bad = ({ s with slots := resetAt s.slots s.curr, curr := none }, {}) := by
    rcases hbad with hb | ⟨c1, h1, _, h2⟩
    · simp [separator, hb]
    · simp [separator, h1, h2]
  unfold step
  rcases hbad with hb | ⟨c1, h1, hr, h2⟩
  · simp only [hb, hx, if_true, sep, and_self]
  · simp only [h1]
    have h0 : ¬(c1 = 0) := by omega
    simp only [h0, if_false]
    split
    · simp only [sep, and_self]
    · have h31 : ¬(c1 ≤ 31) := by omega
      simp only [h31, if_false, hx, if_true, sep, and_self]

end Sep
end Zvbi.Xds
