import ZvbiModel.Xds.Lemmas
/-!
# Lemmas for C09, part 2: caption.c (`vbi_decode_caption` line 284 routing, `xds_separator`)

`ec` is the control-flow fact `errClears` (does the parity-error branch clear `cc->curr_sp`).
The invariant has a part that holds either way (extents, `count <= 34`: no store at or above
`buffer[32]`, `assert (length <= 32)` unreachable) and a part that needs `ec = true`
(`count` is 0 or at least 2, so `buffer[count - 2]` is never below the array).
-/
namespace Zvbi.Xds
open Zvbi.Hamm Zvbi.Gen.Xds
namespace Sep

def SlotOk (sl : Slot) : Prop := sl.buf.length = sepBufExtent ∧ sl.count ≤ sepStoreGuard + 2
def SlotStrong (sl : Slot) : Prop := sl.count = 0 ∨ 2 ≤ sl.count

structure Inv (ec : Bool) (s : State) : Prop where
  len : s.slots.length = sepClasses * sepSubclasses
  ok : ∀ (j : Nat) (sl : Slot), s.slots[j]? = some sl → SlotOk sl
  cur : ∀ i : Nat, s.curr = some i → i < sepClasses * sepSubclasses
  strong : ec = true → (∀ (j : Nat) (sl : Slot), s.slots[j]? = some sl → SlotStrong sl) ∧
    ∀ (i : Nat) (sl : Slot), s.curr = some i → s.slots[i]? = some sl → 2 ≤ sl.count

def PktOk (p : Pkt) : Prop := 1 ≤ p.data.length ∧ p.data.length ≤ sepBufExtent ∧ accepted p.cls p.sub

/-- the only error site a step can report is the store below the buffer, and only when the
    parity-error branch keeps `curr_sp` -/
def OutOk (ec : Bool) (o : Out) : Prop :=
  (o.err = none ∨ (ec = false ∧ o.err = some "sep.store.under")) ∧ ∀ p, o.dec = some p → PktOk p

theorem outOk_empty (ec : Bool) : OutOk ec {} := ⟨Or.inl rfl, by intro p h; cases h⟩

theorem zero_get {j : Nat} {sl : Slot} (h : zeroSlots[j]? = some sl) : sl = Slot.zero sepBufExtent := by
  simp only [zeroSlots, List.getElem?_replicate] at h
  split at h
  · cases h; rfl
  · cases h

theorem inv_zero (ec : Bool) (x : Bool) (n : Net) : Inv ec { slots := zeroSlots, curr := none, xds := x, net := n } := by
  refine ⟨by simp [zeroSlots], ?_, (by intro i h; cases h), ?_⟩
  · intro j sl h; rw [zero_get h]; simp [SlotOk, Slot.zero, sepBufExtent]
  · intro _
    refine ⟨?_, by intro i sl h; cases h⟩
    intro j sl h; rw [zero_get h]; exact Or.inl rfl

theorem inv_init (ec : Bool) : Inv ec init := inv_zero ec false {}

theorem slotOk_reset {sl : Slot} (h : SlotOk sl) : SlotOk sl.reset := ⟨h.1, Nat.zero_le _⟩

/-- reset buffer `sp` (if any), then point `curr` at `c`, provided `c` is `none` or the strong part allows it -/
theorem inv_reset_none {ec : Bool} {s : State} (h : Inv ec s) (sp : Option Nat) :
    Inv ec { s with slots := resetAt s.slots sp, curr := none } := by
  cases sp with
  | none => exact ⟨h.len, h.ok, (by intro i hi; cases hi), fun e => ⟨(h.strong e).1, by intro i sl hi; cases hi⟩⟩
  | some i =>
    simp only [resetAt]
    split
    · rename_i sl hsl
      refine ⟨by simp [h.len], all_set h.ok (slotOk_reset (h.ok i sl hsl)), (by intro i hi; cases hi), ?_⟩
      intro e
      exact ⟨all_set (h.strong e).1 (Or.inl rfl), by intro i sl hi; cases hi⟩
    · exact ⟨h.len, h.ok, (by intro i hi; cases hi), fun e => ⟨(h.strong e).1, by intro i sl hi; cases hi⟩⟩

theorem inv_clear {ec : Bool} {s : State} (h : Inv ec s) : Inv ec { s with curr := none } :=
  ⟨h.len, h.ok, (by intro i hi; cases hi), fun e => ⟨(h.strong e).1, by intro i sl hi; cases hi⟩⟩

theorem inv_xds {ec : Bool} {s : State} (h : Inv ec s) (x : Bool) : Inv ec { s with xds := x } :=
  ⟨h.len, h.ok, h.cur, h.strong⟩

theorem inv_net {ec : Bool} {s : State} (h : Inv ec s) (n : Net) : Inv ec { s with net := n } :=
  ⟨h.len, h.ok, h.cur, h.strong⟩

theorem inv_header (ec : Bool) {s : State} (h : Inv ec s) (c1 c2 : Nat) :
    Inv ec (header s c1 c2).1 ∧ OutOk ec (header s c1 c2).2 := by
  unfold header
  simp only []
  split
  · exact ⟨inv_clear h, outOk_empty ec⟩
  · rename_i hacc
    have hacc' : (c1 - 1) >>> 1 < sepClasses ∧ c2 < sepSubclasses := by
      constructor
      · apply Nat.lt_of_not_ge; intro hc; exact hacc (Or.inl hc)
      · apply Nat.lt_of_not_ge; intro hc; exact hacc (Or.inr hc)
    have hidx' : (c1 - 1) >>> 1 * sepSubclasses + c2 < sepClasses * sepSubclasses := by
      have := hacc'.1; have := hacc'.2
      simp only [sepSubclasses, sepClasses] at *
      omega
    have hidx : (c1 - 1) >>> 1 * sepSubclasses + c2 < s.slots.length := by rw [h.len]; exact hidx'
    obtain ⟨sl, hsl⟩ := getElem?_lt hidx
    simp only [hsl]
    have hok := h.ok _ _ hsl
    split
    · refine ⟨⟨by simp [h.len], ?_, ?_, ?_⟩, outOk_empty ec⟩
      · exact all_set h.ok ⟨hok.1, by simp [Slot.start, sepStoreGuard]⟩
      · intro i hi; simp only [Option.some.injEq] at hi; subst hi; exact hidx'
      · intro e
        refine ⟨all_set (h.strong e).1 (Or.inr (Nat.le_refl _)), ?_⟩
        intro i sl' hi hsl'
        simp only [Option.some.injEq] at hi; subst hi
        rw [List.getElem?_set_self hidx] at hsl'
        cases hsl'; exact Nat.le_refl _
    · split
      · exact ⟨inv_clear h, outOk_empty ec⟩
      · rename_i hc0
        refine ⟨⟨h.len, h.ok, ?_, ?_⟩, outOk_empty ec⟩
        · intro i hi; simp only [Option.some.injEq] at hi; subst hi; exact hidx'
        · intro e
          refine ⟨(h.strong e).1, ?_⟩
          intro i sl' hi hsl'
          simp only [Option.some.injEq] at hi; subst hi
          rw [hsl] at hsl'; cases hsl'
          have := (h.strong e).1 _ _ hsl
          simp only [SlotStrong] at this; omega

theorem idx_accepted {i : Nat} (h : i < sepClasses * sepSubclasses) :
    accepted (i / sepSubclasses) (i % sepSubclasses) := by
  simp only [accepted, sepClasses, sepSubclasses] at *
  omega

theorem inv_terminator (ec : Bool) {s : State} (h : Inv ec s) (c1 c2 : Nat) :
    Inv ec (terminator s c1 c2).1 ∧ OutOk ec (terminator s c1 c2).2 := by
  unfold terminator
  split
  · exact ⟨h, outOk_empty ec⟩
  · rename_i i hi
    have hi96 := h.cur i hi
    obtain ⟨sl, hsl⟩ := getElem?_lt (by rw [h.len]; exact hi96 : i < s.slots.length)
    simp only [hsl]
    have hok := h.ok _ _ hsl
    simp only [SlotOk, sepBufExtent, sepStoreGuard] at hok
    have hd : Inv ec { s with slots := s.slots.set i sl.reset, curr := none } := by
      have := inv_reset_none h (some i)
      simpa [resetAt_some hsl] using this
    split
    · exact ⟨hd, outOk_empty ec⟩
    · split
      · exact ⟨hd, outOk_empty ec⟩
      · split
        · rename_i hbad; omega
        · generalize netDecode s.net _ = r
          obtain ⟨n', chsw⟩ := r
          have hp : ∀ p, (some (⟨i / sepSubclasses, i % sepSubclasses, sl.buf.take (sl.count - 2)⟩ : Pkt)) = some p →
              PktOk p := by
            intro p hp
            simp only [Option.some.injEq] at hp
            subst hp
            simp only [PktOk, List.length_take, sepBufExtent]
            exact ⟨by omega, by omega, idx_accepted hi96⟩
          simp only []
          split
          · exact ⟨inv_zero ec false n', Or.inl rfl, hp⟩
          · exact ⟨inv_net hd n', Or.inl rfl, hp⟩

theorem inv_content (ec : Bool) {s : State} (h : Inv ec s) (c1 c2 : Nat) :
    Inv ec (content s c1 c2).1 ∧ OutOk ec (content s c1 c2).2 := by
  unfold content
  split
  · exact ⟨h, outOk_empty ec⟩
  · rename_i i hi
    have hi96 := h.cur i hi
    obtain ⟨sl, hsl⟩ := getElem?_lt (by rw [h.len]; exact hi96 : i < s.slots.length)
    simp only [hsl]
    have hok := h.ok _ _ hsl
    simp only [SlotOk, sepBufExtent, sepStoreGuard] at hok
    split
    · have := inv_reset_none h (some i)
      exact ⟨by simpa [resetAt_some hsl] using this, outOk_empty ec⟩
    · rename_i hg
      simp only [sepStoreGuard] at hg
      split
      · -- store below the buffer: only possible when the parity branch keeps curr_sp
        rename_i hlow
        have hec : ec = false := by
          cases ec with
          | false => rfl
          | true => have := (h.strong rfl).2 i sl hi hsl; omega
        refine ⟨⟨by simp [h.len], ?_, h.cur, by intro e; rw [hec] at e; cases e⟩, Or.inr ⟨hec, rfl⟩,
          by intro p hp; cases hp⟩
        apply all_set h.ok
        simp only [SlotOk, sepBufExtent, sepStoreGuard, Slot.storeUnder]
        split
        · exact ⟨hok.1, by split <;> (dsimp only; omega)⟩
        · exact ⟨by simp [hok.1], by split <;> (dsimp only; omega)⟩
      · split
        · rename_i hbad; simp only [sepBufExtent] at hbad; omega
        · refine ⟨⟨by simp [h.len], ?_, h.cur, ?_⟩, outOk_empty ec⟩
          · apply all_set h.ok
            simp only [SlotOk, sepBufExtent, sepStoreGuard, Slot.store_buf_length]
            refine ⟨hok.1, ?_⟩
            simp only [Slot.store]; split <;> omega
          · intro e
            refine ⟨all_set (h.strong e).1 (Or.inr (by simp only [Slot.store]; omega)), ?_⟩
            intro j sl' hj hsl'
            rw [hi] at hj
            simp only [Option.some.injEq] at hj
            subst hj
            rw [List.getElem?_set_self (lt_of_getElem? hsl)] at hsl'
            cases hsl'
            simp only [Slot.store]; omega

theorem inv_separator (ec : Bool) {s : State} (h : Inv ec s) (b : Nat × Nat)
    (hreach : ∀ c1, unpar8 b.1 = some c1 → (1 ≤ c1 ∧ c1 ≤ 15) ∨ 0x20 ≤ c1) :
    Inv ec (separator ec s b).1 ∧ OutOk ec (separator ec s b).2 := by
  unfold separator
  split
  · rename_i c1 c2 h1 h2
    split
    · exact inv_header ec h c1 c2
    · split
      · exact inv_terminator ec h c1 c2
      · split
        · exact inv_content ec h c1 c2
        · exfalso
          have := hreach c1 h1
          omega
  · -- parity error
    refine ⟨?_, outOk_empty ec⟩
    cases ec with
    | true => exact inv_reset_none h s.curr
    | false =>
      have hn := inv_reset_none h s.curr
      refine ⟨hn.len, hn.ok, ?_, by intro e; cases e⟩
      intro i hi; exact h.cur i hi

theorem inv_step (ec : Bool) {s : State} (h : Inv ec s) (b : Nat × Nat) :
    Inv ec (step ec s b).1 ∧ OutOk ec (step ec s b).2 := by
  unfold step
  split
  · rename_i c1 h1
    split
    · exact ⟨h, outOk_empty ec⟩
    · rename_i hc0
      split
      · rename_i hc15
        have := inv_separator ec h b (by intro c hc; rw [h1] at hc; cases hc; left; omega)
        exact ⟨inv_xds this.1 _, this.2⟩
      · split
        · exact ⟨inv_xds h _, outOk_empty ec⟩
        · rename_i hc31
          split
          · exact inv_separator ec h b (by intro c hc; rw [h1] at hc; cases hc; right; omega)
          · exact ⟨h, outOk_empty ec⟩
  · rename_i h1
    split
    · exact inv_separator ec h b (by intro c hc; rw [h1] at hc; cases hc)
    · exact ⟨h, outOk_empty ec⟩

theorem inv_run (ec : Bool) : ∀ (bs : List (Nat × Nat)) {s : State}, Inv ec s →
    Inv ec (run ec s bs).1 ∧ ∀ o ∈ (run ec s bs).2, OutOk ec o
  | [], s, h => ⟨h, by intro o ho; cases ho⟩
  | b :: bs, s, h => by
    have h1 := inv_step ec h b
    have h2 := inv_run ec bs h1.1
    simp only [run]
    refine ⟨h2.1, ?_⟩
    intro o ho
    rcases List.mem_cons.mp ho with rfl | ho
    · exact h1.2
    · exact h2.2 o ho


/-! ## caption.c: reassembly of one packet -/

/-- `step` on a readable pair (both parity checks passed) -/
def step7 (s : State) (c1 c2 : Nat) : State × Out :=
  if c1 = 0 then (s, {})
  else if c1 ≤ 14 then ({ (header s c1 c2).1 with xds := true }, (header s c1 c2).2)
  else if c1 = 15 then ({ (terminator s c1 c2).1 with xds := false }, (terminator s c1 c2).2)
  else if c1 ≤ 0x1F then ({ s with xds := false }, {})
  else if s.xds then content s c1 c2
  else (s, {})

theorem step_parPair (ec : Bool) (s : State) (q : Pair) (h : q.1 < 128 ∧ q.2 < 128) :
    step ec s (parPair q) = step7 s q.1 q.2 := by
  have u1 := unpar8_par8 _ h.1
  have u2 := unpar8_par8 _ h.2
  simp only [step, separator, parPair, u1, u2, step7]
  by_cases h0 : q.1 = 0
  · simp [h0]
  · by_cases h14 : q.1 ≤ 14
    · have : q.1 ≤ 15 := by omega
      have h15 : (q.1 != 15) = true := by simp; omega
      simp [h0, h14, this, h15, show 1 ≤ q.1 by omega]
    · by_cases h15 : q.1 = 15
      · simp [h15]
      · by_cases h31 : q.1 ≤ 31
        · simp [h0, h14, h15, h31, show ¬ q.1 ≤ 15 by omega]
        · simp [h0, h14, h15, h31, show ¬ q.1 ≤ 15 by omega, show ¬ (1 ≤ q.1 ∧ q.1 ≤ 14) by omega,
            show 32 ≤ q.1 by omega]

def run7 : State → List Pair → State × List Out
  | s, [] => (s, [])
  | s, q :: qs =>
    let r := step7 s q.1 q.2
    let r2 := run7 r.1 qs
    (r2.1, r.2 :: r2.2)

theorem run_map_parPair (ec : Bool) : ∀ (qs : List Pair) (s : State), (∀ q ∈ qs, q.1 < 128 ∧ q.2 < 128) →
    run ec s (qs.map parPair) = run7 s qs
  | [], s, _ => rfl
  | q :: qs, s, h => by
    simp only [List.map_cons, run, run7, step_parPair ec s q (h q (by simp))]
    rw [run_map_parPair ec qs _ (fun q' hq' => h q' (by simp [hq']))]

theorem run7_append : ∀ (a b : List Pair) (s : State),
    run7 s (a ++ b) = ((run7 (run7 s a).1 b).1, (run7 s a).2 ++ (run7 (run7 s a).1 b).2)
  | [], b, s => by simp [run7]
  | q :: a, b, s => by simp [run7, run7_append a b]

theorem inv_step7 (ec : Bool) {s : State} (h : Inv ec s) (q : Pair) (hq : q.1 < 128 ∧ q.2 < 128) :
    Inv ec (step7 s q.1 q.2).1 := by
  rw [← step_parPair ec s q hq]; exact (inv_step ec h _).1

/-- packet (cls, sub) is the current one, XDS mode is on, `done` are the payload pairs stored so far -/
structure OpenAt (ec : Bool) (cls sub : Nat) (done : List Pair) (s : State) : Prop where
  inv : Inv ec s
  cur : s.curr = some (slotOf cls sub)
  xds : s.xds = true
  slot : ∃ sl, s.slots[slotOf cls sub]? = some sl ∧ Demux.Holds cls sub done sl

theorem slot_lt {ec : Bool} {s : State} (h : Inv ec s) {cls sub : Nat} (hacc : accepted cls sub) :
    ∃ sl, s.slots[slotOf cls sub]? = some sl := by
  apply getElem?_lt
  rw [h.len]
  simp only [accepted, slotOf, sepSubclasses, sepClasses] at *
  omega

theorem open_start (ec : Bool) {s : State} (h : Inv ec s) {cls sub : Nat} (hacc : accepted cls sub) :
    OpenAt ec cls sub [] (step7 s (2 * cls + 1) sub).1 ∧ (step7 s (2 * cls + 1) sub).2.dec = none := by
  obtain ⟨sl, hsl⟩ := slot_lt h hacc
  have hc : cls < 4 := hacc.1
  have hs : sub < 24 := hacc.2
  have hrej : ¬(cls ≥ sepClasses ∨ sub ≥ sepSubclasses) := by
    simp only [sepClasses, sepSubclasses]; omega
  have hslot : cls * sepSubclasses + sub = slotOf cls sub := rfl
  have e : step7 s (2 * cls + 1) sub =
      ({ s with slots := s.slots.set (slotOf cls sub) (sl.start (2 * cls + 1) sub), curr := some (slotOf cls sub),
                xds := true }, {}) := by
    have h1 : ¬(2 * cls + 1 = 0) := by omega
    have h2 : 2 * cls + 1 ≤ 14 := by omega
    have h3 : (2 * cls + 1) % 2 = 1 := by omega
    simp only [step7, h1, h2, if_true, if_false, header, (Demux.shift_cls cls).1, hrej, hslot, hsl, h3]
  have hinv := inv_step7 ec h (2 * cls + 1, sub) (by simp only []; omega)
  simp only [] at hinv
  rw [e] at hinv ⊢
  refine ⟨⟨hinv, rfl, rfl, _, List.getElem?_set_self (lt_of_getElem? hsl), ?_⟩, rfl⟩
  simp [Demux.Holds, Slot.start, bytesOf, sumOf]

theorem open_content (ec : Bool) {s : State} {cls sub : Nat} {done : List Pair} (h : OpenAt ec cls sub done s)
    (q : Pair) (hq : IsContent q) (hfit : (bytesOf done).length ≤ 30) :
    OpenAt ec cls sub (done ++ [q]) (step7 s q.1 q.2).1 ∧ (step7 s q.1 q.2).2.dec = none := by
  obtain ⟨sl, hsl, hc, hk, ht⟩ := h.slot
  have hok := h.inv.ok _ _ hsl
  simp only [SlotOk, sepBufExtent, sepStoreGuard] at hok
  obtain ⟨hq1, hq2, hq3⟩ := hq
  have e : step7 s q.1 q.2 = ({ s with slots := s.slots.set (slotOf cls sub) (sl.store q.1 q.2) }, {}) := by
    have h1 : ¬(q.1 = 0) := by omega
    have h2 : ¬(q.1 ≤ 14) := by omega
    have h3 : ¬(q.1 = 15) := by omega
    have h4 : ¬(q.1 ≤ 31) := by omega
    have h5 : ¬(sl.count > sepStoreGuard) := by simp only [sepStoreGuard]; omega
    have h6 : ¬(sl.count < 2) := by omega
    have h7 : ¬(sl.count - 1 ≥ sepBufExtent) := by simp only [sepBufExtent]; omega
    simp only [step7, h1, h2, h3, h4, if_false, h.xds, if_true, content, h.cur, hsl, h5, h6, h7]
  have hinv := inv_step7 ec h.inv q (by omega)
  rw [e] at hinv ⊢
  refine ⟨⟨hinv, h.cur, h.xds, _, List.getElem?_set_self (lt_of_getElem? hsl), ?_⟩, rfl⟩
  obtain ⟨v1, v2, v3⟩ := Slot.store_view sl q.1 q.2 (by omega) (by omega)
  have hcnt : sl.count - 2 = (bytesOf done).length := by omega
  simp only [Demux.Holds, bytesOf_append, sumOf_append, List.length_append]
  refine ⟨?_, ?_, ?_⟩
  · rw [v1, hc]; simp [bytesOf, Nat.add_assoc]
  · rw [v2, hk]; simp [sumOf]; omega
  · have : (bytesOf [q]) = pairBytes (q.1, q.2) := by simp [bytesOf]
    rw [this]
    have hc' : (sl.store q.1 q.2).count - 2 = (bytesOf done).length + (pairBytes (q.1, q.2)).length := by omega
    rw [← hc', v3, hcnt, ht]

theorem deliveries_cons (o : Out) (os : List Out) : deliveries (o :: os) = o.dec.toList ++ deliveries os := by
  cases h : o.dec <;> simp [deliveries, List.filterMap_cons, h]

theorem deliveries_append (a b : List Out) : deliveries (a ++ b) = deliveries a ++ deliveries b := by
  simp [deliveries]

theorem open_content_run (ec : Bool) {cls sub : Nat} : ∀ (qs : List Pair) {s : State} {done : List Pair},
    OpenAt ec cls sub done s → (∀ q ∈ qs, IsContent q) → Fits (bytesOf done).length qs →
    OpenAt ec cls sub (done ++ qs) (run7 s qs).1 ∧ deliveries (run7 s qs).2 = []
  | [], s, done, h, _, _ => by simpa [run7, deliveries] using h
  | q :: qs, s, done, h, hq, hf => by
    obtain ⟨hf1, hf2⟩ := hf
    obtain ⟨h1, h2⟩ := open_content ec h q (hq q (by simp)) hf1
    have hf2' : Fits (bytesOf (done ++ [q])).length qs := by
      simpa [bytesOf_append, bytesOf] using hf2
    obtain ⟨h3, h4⟩ := open_content_run ec qs h1 (fun q' hq' => hq q' (by simp [hq'])) hf2'
    simp only [run7]
    refine ⟨by simpa using h3, ?_⟩
    rw [deliveries_cons, h2, h4]; rfl

/-- the end pair: `xds_decoder` is called iff the sum is 0 mod 128 and at least one character arrived -/
theorem open_term (ec : Bool) {s : State} {cls sub : Nat} {done : List Pair} (h : OpenAt ec cls sub done s)
    (hacc : accepted cls sub) (ck : Nat) :
    (step7 s 0x0F ck).2.dec =
      (if ((2 * cls + 1) + sub + sumOf done + 0x0F + ck) % 128 = 0 ∧ bytesOf done ≠ []
       then some ⟨cls, sub, bytesOf done⟩ else none) ∧
    (step7 s 0x0F ck).1.curr = none ∧ (step7 s 0x0F ck).1.xds = false := by
  obtain ⟨sl, hsl, hc, hk, ht⟩ := h.slot
  have hok := h.inv.ok _ _ hsl
  simp only [SlotOk, sepBufExtent, sepStoreGuard] at hok
  have hne : bytesOf done ≠ [] ↔ ¬ (sl.count ≤ 2) := by
    rw [hc]; cases bytesOf done <;> simp
  have hcls : slotOf cls sub / sepSubclasses = cls ∧ slotOf cls sub % sepSubclasses = sub := by
    have := hacc.2
    simp only [slotOf, sepSubclasses] at *
    omega
  simp only [step7, show ¬((15:Nat) = 0) by omega, show ¬((15:Nat) ≤ 14) by omega, if_true, if_false,
    terminator, h.cur, hsl]
  have hcnt : sl.count - 2 = (bytesOf done).length := by omega
  refine ⟨?_, ?_, trivial⟩
  · rw [hk]
    by_cases hsum : ((2 * cls + 1) + sub + sumOf done + 15 + ck) % 128 = 0
    · by_cases hemp : sl.count ≤ 2
      · have : ¬ (bytesOf done ≠ []) := by rw [hne]; exact fun h => h hemp
        simp [hsum, hemp, this]
      · have hx : bytesOf done ≠ [] := hne.mpr hemp
        have h8 : ¬((bytesOf done).length > 32) := by omega
        simp only [hsum, hemp, h8, hx, hcnt, ht, hcls.1, hcls.2, not_true_eq_false, if_false, and_self, if_true,
          ne_eq, not_false_eq_true]
        generalize netDecode s.net _ = r
        obtain ⟨n', chsw⟩ := r
        simp only []
        split <;> rfl
    · simp [hsum]
  · split
    · rfl
    · split
      · rfl
      · split
        · rfl
        · generalize netDecode s.net _ = r
          obtain ⟨n', chsw⟩ := r
          simp only []
          split <;> rfl

/-- one complete, uninterrupted packet -/
theorem deliver_wire7 (ec : Bool) {s : State} (h : Inv ec s) (p : Packet) (hv : p.Valid)
    (hacc : accepted p.cls p.sub) (ck : Nat) :
    deliveries (run7 s (wire7 p ck)).2 = (if (bodySum p + ck) % 128 = 0 then [p.toPkt] else []) ∧
    (run7 s (wire7 p ck)).1.curr = none ∧ (run7 s (wire7 p ck)).1.xds = false := by
  obtain ⟨hb, hs, hcont, hfit⟩ := pairsOf_spec p.payload hv.chars
  obtain ⟨h1, h1'⟩ := open_start ec h hacc
  obtain ⟨h2, h2'⟩ := open_content_run ec (pairsOf p.payload) h1 hcont
    (by simpa [bytesOf] using hfit 0 rfl (by have := hv.len_le; omega))
  obtain ⟨h3, h3', h3''⟩ := open_term ec h2 hacc ck
  simp only [List.nil_append, hb, hs] at h3
  have hne : p.payload ≠ [] := by
    intro e; have := hv.len_pos; rw [e] at this; simp at this
  simp only [Demux.wire7_eq, startPair, run7, run7_append, deliveries_cons, deliveries_append, h1', h2', h3, h3',
    h3'', Option.toList, List.nil_append, List.append_nil, hne, ne_eq, not_false_eq_true, and_true, bodySum]
  split <;> simp_all [Packet.toPkt, deliveries]


/-! ## caption.c: vocabulary of the statements that are not proved yet (see Props/C09.lean) -/

/-- deliveries labelled with the (class, type) of buffer `i` -/
def forSlot (i : Nat) (os : List Out) : List Pkt := (deliveries os).filter fun d => slotOf d.cls d.sub == i

/-- scan of a foreign block: `m` = an XDS packet is open (a header was seen since the last caption
    control code / end pair).  Refuses a header for buffer `i`, a header of the network-name packet
    2/1 (its announcement flushes all buffers by design), and an end pair in caption context. -/
def blockOk (i : Nat) : Bool → List Pair → Bool
  | _, [] => true
  | m, q :: r =>
    if q.1 = 0 then blockOk i m r
    else if q.1 ≤ 14 then
      (!(decide (accepted ((q.1 - 1) >>> 1) q.2) && slotOf ((q.1 - 1) >>> 1) q.2 == i))
        && !((q.1 - 1) >>> 1 == 2 && q.2 == 1) && blockOk i true r
    else if q.1 = 15 then m && blockOk i false r
    else if q.1 ≤ 31 then blockOk i false r
    else blockOk i m r

/-- a block of readable foreign pairs a conforming sender may insert into the packet of buffer `i`:
    it starts with a caption control code or a header, and passes `blockOk` -/
def ForeignBlock (i : Nat) (blk : List Pair) : Prop :=
  (∃ q r, blk = q :: r ∧ 1 ≤ q.1 ∧ q.1 ≤ 0x1F ∧ q.1 ≠ 15) ∧ blockOk i false blk = true ∧
  ∀ q ∈ blk, q.1 < 128 ∧ q.2 < 128

end Sep
end Zvbi.Xds
