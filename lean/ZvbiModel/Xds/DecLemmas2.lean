import ZvbiModel.Xds.DecLemmas
/-!
# Lemmas about `Dec`, part 2: own fields, announcements, what a packet of another (class, type) may touch
-/
namespace Zvbi.Xds
namespace Dec
open Zvbi.Gen.Xds

@[simp] theorem pi_setPi (v : Info) (cls : Nat) (p : PI) : (v.setPi cls p).pi cls = p := by
  unfold Info.setPi Info.pi; split <;> simp [*]
@[simp] theorem pi_setCyc (v : Info) (cls c : Nat) (l : List Nat) : (v.setCyc cls l).pi c = v.pi c := by
  unfold Info.setCyc Info.pi; split <;> split <;> rfl
@[simp] theorem cyc_setCyc (v : Info) (cls : Nat) (l : List Nat) : (v.setCyc cls l).cyc cls = l := by
  unfold Info.setCyc Info.cyc; split <;> simp [*]
@[simp] theorem cyc_setPi (v : Info) (cls c : Nat) (p : PI) : (v.setPi cls p).cyc c = v.cyc c := by
  unfold Info.setPi Info.cyc; split <;> split <;> rfl
@[simp] theorem net_setPi (v : Info) (cls : Nat) (p : PI) : (v.setPi cls p).net = v.net := by
  unfold Info.setPi; split <;> rfl
@[simp] theorem net_setCyc (v : Info) (cls : Nat) (l : List Nat) : (v.setCyc cls l).net = v.net := by
  unfold Info.setCyc; split <;> rfl

/-- the epilogue only touches `info_cycle[class]` -/
@[simp] theorem pi_fin (v : Info) (cls typ c : Nat) (neq : Bool) (pre : List Ev) (err : Option String) :
    (fin v cls typ neq pre err).1.pi c = v.pi c := by
  simp only [fin, epilogue]; split
  · simp
  · split <;> simp
@[simp] theorem net_fin (v : Info) (cls typ : Nat) (neq : Bool) (pre : List Ev) (err : Option String) :
    (fin v cls typ neq pre err).1.net = v.net := by
  simp only [fin, epilogue]; split
  · simp
  · split <;> simp

/-- what the epilogue announces: PROG_INFO with the stored information of that class, exactly when the
    packet changed nothing (`neq = false`) and the bit of its type is pending -/
theorem fin_events (v : Info) (cls typ : Nat) (neq : Bool) (pre : List Ev) (err : Option String) :
    (fin v cls typ neq pre err).2.evs =
      pre ++ (if neq = false ∧ (v.cyc cls).contains typ = true then [Ev.progInfo cls (v.pi cls)] else []) := by
  simp only [fin, epilogue]
  cases neq <;> cases h : (v.cyc cls).contains typ <;> simp [h]

/-- and what it does to the pending bits: set on a change, all cleared by the announcement -/
theorem fin_cyc (v : Info) (cls typ : Nat) (neq : Bool) (pre : List Ev) (err : Option String) :
    (fin v cls typ neq pre err).1.cyc cls =
      if neq then typ :: v.cyc cls else if (v.cyc cls).contains typ then [] else v.cyc cls := by
  simp only [fin, epilogue]
  cases neq <;> cases h : (v.cyc cls).contains typ <;> simp [h]

/-! ## own fields -/

/-- programme name: whatever the state, the title array then holds the packet's text -/
theorem feed_title {v : Info} (h : Wf v) (cls : Nat) (d : List Nat) (nx : Nat) (h2 : 2 ≤ d.length) (hd : d.length ≤ 32) :
    cstr ((feed v cls 3 d nx).1.pi cls).title = text d := by
  have hp := wf_pi h cls
  have htl : (text d).length < titleExt := by have := text_length_le d; simp only [titleExt]; omega
  have key : ∀ a : List Nat, a.length = titleExt → cstr (strfuArr a d).arr = text d :=
    fun a ha => (strfuArr_spec a d (by rw [ha]; exact htl)).2.2
  have hn : ¬ d.length < 2 := by omega
  unfold feed
  simp only [hn, if_false]
  repeat' split
  all_goals simp only [pi_fin, pi_setPi, pi_setCyc]
  all_goals first
    | exact key _ hp.title
    | exact key _ (wf_pi (wf_flush (wf_title h cls d hd).1 cls) cls).title

/-- programme description line `t & 7` -/
theorem feed_description {v : Info} (h : Wf v) (cls t : Nat) (d : List Nat) (nx : Nat) (ht : 0x10 ≤ t ∧ t ≤ 0x17)
    (hd : d.length ≤ 32) :
    cstr (((feed v cls t d nx).1.pi cls).description.getD (t &&& 7) []) = text d := by
  have hp := wf_pi h cls
  have hline : t &&& 7 < 8 := by
    have : t &&& 7 ≤ 7 := Nat.and_le_right
    omega
  have hl : t &&& 7 < (v.pi cls).description.length := by rw [hp.descN]; exact hline
  have hget : ((v.pi cls).description.getD (t &&& 7) []).length = descExt := by
    have : (v.pi cls).description.getD (t &&& 7) [] = (v.pi cls).description[t &&& 7] := by
      simp [List.getD_eq_getElem?_getD, List.getElem?_eq_getElem hl]
    rw [this]
    exact hp.desc _ (List.getElem_mem hl)
  have key := (strfuArr_spec ((v.pi cls).description.getD (t &&& 7) []) d
    (by rw [hget]; have := text_length_le d; simp only [descExt]; omega)).2.2
  have e : ∃ neq err, feed v cls t d nx = fin (v.setPi cls { v.pi cls with description := (v.pi cls).description.set (t &&& 7) (strfuArr ((v.pi cls).description.getD (t &&& 7) []) d).arr }) cls t neq [] err := by
    unfold feed
    split <;> first | omega | skip
    simp only [ht, and_self, if_true]
    exact ⟨_, _, rfl⟩
  obtain ⟨neq, err, e⟩ := e
  rw [e]
  simp only [pi_fin, pi_setPi, List.getD_eq_getElem?_getD, List.getElem?_set_self hl, Option.getD_some]
  simpa [List.getD_eq_getElem?_getD] using key

/-- network name and call letters -/
theorem netFeed_name {v : Info} (h : Wf v) (d : List Nat) (nx : Nat) (hd : d.length ≤ 32) :
    cstr (netFeed v 1 d nx).1.net.name = text d := by
  have key := (strfuArr_spec v.net.name d (by rw [h.name]; have := text_length_le d; simp only [nameExt]; omega)).2.2
  unfold netFeed
  simp only []
  repeat' split
  all_goals exact key

theorem netFeed_call {v : Info} (h : Wf v) (d : List Nat) (nx : Nat) (hd : d.length ≤ 32) :
    cstr (netFeed v 2 d nx).1.net.call = text d := by
  have key := (strfuArr_spec v.net.call d (by rw [h.call]; have := text_length_le d; simp only [callExt]; omega)).2.2
  unfold netFeed
  simp only []
  repeat' split
  all_goals exact key

/-- CGMS-A: field, change flag -/
theorem feed_cgms (v : Info) (cls : Nat) (b nx : Nat) :
    feed v cls 8 [b] nx = fin (v.setPi cls { v.pi cls with cgms := ((b &&& 63 : Nat) : Int) }) cls 8
      ((v.pi cls).cgms != ((b &&& 63 : Nat) : Int)) [] none := by
  simp [feed, byteAt]

/-! ## what a packet may touch -/

/-- a packet of class current / future never touches the network -/
theorem feed_net (v : Info) (cls typ : Nat) (d : List Nat) (nx : Nat) : (feed v cls typ d nx).1.net = v.net := by
  unfold feed
  simp only []
  repeat' split
  all_goals simp [flush]

/-- a packet of class channel touches the programme information only through `vbi_chsw_reset`, which
    only the repeat of a changed network name (type 1) can trigger -/
theorem netFeed_frame (v : Info) (typ : Nat) (d : List Nat) (nx : Nat) :
    ((netFeed v typ d nx).2.chsw = true → typ = 1) ∧
    ((netFeed v typ d nx).2.chsw = false →
      (netFeed v typ d nx).1.pi0 = v.pi0 ∧ (netFeed v typ d nx).1.pi1 = v.pi1 ∧
      (netFeed v typ d nx).1.cyc0 = v.cyc0 ∧ (netFeed v typ d nx).1.cyc1 = v.cyc1 ∧
      (netFeed v typ d nx).1.aspSrc = v.aspSrc) ∧
    (netFeed v typ d nx).1.chLang = v.chLang := by
  unfold netFeed
  simp only []
  repeat' split
  all_goals simp_all [chswReset]

/-- the programme information of the *other* class is out of reach of every packet type except the
    aspect ratio (type 9; see `aspectAlwaysCurrent`) -/
theorem feed_other_class (v : Info) (cls typ : Nat) (d : List Nat) (nx : Nat) (hc : cls ≤ 1) (h9 : typ ≠ 9) :
    (feed v cls typ d nx).1.pi (1 - cls) = v.pi (1 - cls) ∧ (feed v cls typ d nx).1.cyc (1 - cls) = v.cyc (1 - cls) := by
  have hcls : cls = 0 ∨ cls = 1 := by omega
  rcases hcls with rfl | rfl
  all_goals
    unfold feed
    simp only []
    repeat' split
    all_goals first
      | exact absurd rfl h9
      | simp [fin, epilogue, flush, Info.pi, Info.setPi, Info.setCyc, Info.cyc]
    all_goals (repeat' split) <;> simp

/-- inside the packet's own class: a packet of type `typ` other than programme id (1) and programme
    name (3) - the two that may flush the whole programme information - leaves the fields of every
    other type exactly as they were -/
theorem feed_same_class (v : Info) (cls typ : Nat) (d : List Nat) (nx : Nat) (h1 : typ ≠ 1) (h3 : typ ≠ 3) :
    let a := v.pi cls
    let b := (feed v cls typ d nx).1.pi cls
    b.month = a.month ∧ b.day = a.day ∧ b.hour = a.hour ∧ b.min = a.min ∧ b.tapeDelayed = a.tapeDelayed ∧
    b.title = a.title ∧
    (typ ≠ 2 → b.lengthHour = a.lengthHour ∧ b.lengthMin = a.lengthMin ∧ b.elapsedHour = a.elapsedHour ∧
      b.elapsedMin = a.elapsedMin ∧ b.elapsedSec = a.elapsedSec) ∧
    (typ ≠ 4 → b.typeEia = a.typeEia ∧ b.typeId = a.typeId) ∧
    (typ ≠ 5 → b.ratingAuth = a.ratingAuth ∧ b.ratingId = a.ratingId ∧ b.ratingDlsv = a.ratingDlsv) ∧
    (typ ≠ 6 → b.audioMode = a.audioMode ∧ b.audioLang = a.audioLang) ∧
    (typ ≠ 7 → b.capServices = a.capServices ∧ b.capLang = a.capLang) ∧
    (typ ≠ 8 → b.cgms = a.cgms) ∧
    (typ ≠ 9 → b.aspect = a.aspect) ∧
    (¬(0x10 ≤ typ ∧ typ ≤ 0x17) → b.description = a.description) := by
  intro a b
  have hb : b = (feed v cls typ d nx).1.pi cls := rfl
  have ha : a = v.pi cls := rfl
  clear_value a b
  unfold feed at hb
  simp only [] at hb
  split at hb
  · exact absurd rfl h1
  rotate_left 1
  · exact absurd rfl h3
  all_goals
    repeat' split at hb
    all_goals
      subst hb ha
      simp only [pi_fin, pi_setPi]
      first
        | (simp [audioStep]; done)
        | (simp [Info.pi, Info.setPi, audioStep]; (repeat' split) <;> first | (simp_all; done) | (intros; omega))

/-! ## flush_prog_info and its ASPECT event -/

/-- what `flush_prog_info` announces, for either source shape: an ASPECT event is sent iff the reset
    erased a known aspect ratio and the programme is one the code announces (`flushAspectAnyClass`, or
    the current programme); it carries the erased value (`flushSendsOldAspect`) or the stored, unknown
    one; the stored aspect ratio is unknown afterwards in every case -/
theorem flush_events (v : Info) (cls : Nat) :
    (flush v cls).2 =
      (if (v.pi cls).aspect ≠ {} ∧ (flushAspectAnyClass = true ∨ cls = 0) then
        [Ev.aspect (if flushSendsOldAspect then (v.pi cls).aspect else {})] else []) ∧
    ((flush v cls).1.pi cls).aspect = {} := by
  refine ⟨?_, by simp [flush, PI.reset]⟩
  simp only [flush, bne_iff_ne, ne_eq]

/-- the only events a programme id (1) or programme name (3) packet can raise are the ASPECT event of
    `flush_prog_info` - first, at most one - and the PROG_INFO of the epilogue -/
theorem feed_flush_events (v : Info) (cls typ : Nat) (d : List Nat) (nx : Nat) (ht : typ = 1 ∨ typ = 3) :
    ∀ a, Ev.aspect a ∈ (feed v cls typ d nx).2.evs →
      (v.pi cls).aspect ≠ {} ∧ (flushAspectAnyClass = true ∨ cls = 0) ∧
      a = (if flushSendsOldAspect then (v.pi cls).aspect else {}) := by
  intro a ha
  have key : ∀ (w : Info), (w.pi cls).aspect = (v.pi cls).aspect → Ev.aspect a ∈ (flush w cls).2 →
      (v.pi cls).aspect ≠ {} ∧ (flushAspectAnyClass = true ∨ cls = 0) ∧
      a = (if flushSendsOldAspect then (v.pi cls).aspect else {}) := by
    intro w hw hm
    rw [(flush_events w cls).1, hw] at hm
    split at hm
    · rename_i hc
      simp only [List.mem_singleton, Ev.aspect.injEq] at hm
      exact ⟨hc.1, hc.2, hm⟩
    · cases hm
  have hno : ∀ (c : Prop) [Decidable c] (p : PI), Ev.aspect a ∈ (if c then [Ev.progInfo cls p] else []) → False := by
    intro c _ p h
    split at h <;> simp at h
  rcases ht with rfl | rfl
  all_goals
    unfold feed at ha
    simp only [] at ha
    repeat' split at ha
    all_goals first
      | (simp only [List.not_mem_nil] at ha; done)
      | skip
    all_goals
      rw [fin_events] at ha
      simp only [List.mem_append, List.nil_append] at ha
    all_goals first
      | exact absurd ha (hno _ _)
      | (rcases ha with ha | ha
         · exact key _ (by simp) ha
         · exact absurd ha (hno _ _))

end Dec
end Zvbi.Xds
